"""Equivalence probe for bluebonnet.fluids.gas (and its consumer build_pvt_gas).

Usage: PYTHONPATH=<tree>/src /venv/bin/python equiv.py <outfile>
Writes repr (full precision, including the result type) or the exception type
for a broad grid of inputs.
"""

from __future__ import annotations

import itertools
import sys
import warnings

import numpy as np

from bluebonnet.fluids import gas
from bluebonnet.fluids.fluid import build_pvt_gas

warnings.simplefilter("ignore")
np.seterr(all="ignore")

lines: list[str] = []


def show(value):
    if isinstance(value, tuple):
        return "(" + ", ".join(show(v) for v in value) + ")"
    if isinstance(value, np.ndarray):
        if value.dtype.names:
            return "struct" + repr(value.tolist()) + repr(value.dtype)
        return f"array{value.shape}{value.dtype}" + repr([repr(float(v)) for v in value.ravel()])
    return f"{type(value).__name__}:{value!r}"


def record(label, func, *args, **kwargs):
    try:
        out = show(func(*args, **kwargs))
    except BaseException as exc:  # noqa: BLE001
        out = "RAISES " + type(exc).__name__
    lines.append(f"{label} {args!r} {kwargs!r} -> {out}")


# ---------------------------------------------------------------- nonhydrocarbons
nonhc_sets = {
    "typ": (0.03, 0.012, 0.018),
    "zero": (0.0, 0.0, 0.0),
    "sour": (0.05, 0.01, 0.04),
    "h2s0": (0.02, 0.0, 0.07),
    "co20": (0.02, 0.05, 0.0),
    "big": (0.2, 0.15, 0.3),
    "neg_h2s": (0.01, -0.01, 0.02),
    "all": (0.4, 0.3, 0.3),
}
for name, vals in nonhc_sets.items():
    record("nonhc " + name, gas.make_nonhydrocarbon_properties, *vals)
record(
    "nonhc others",
    gas.make_nonhydrocarbon_properties,
    0.01,
    0.02,
    0.03,
    ("Helium", 0.005, 4.0, 9.34, 33.0),
)
record("nonhc bad", gas.make_nonhydrocarbon_properties, "x", 0.0, 0.0)
record("nonhc short", gas.make_nonhydrocarbon_properties, 0.1, 0.2)

# ---------------------------------------------------------------- pseudocritical point
for (name, vals), sg, fluid in itertools.product(
    nonhc_sets.items(),
    (0.55, 0.6, 0.65, 0.8, 1.0, 1.4, 2.0, np.float64(0.7)),
    ("dry gas", "wet gas"),
):
    props = gas.make_nonhydrocarbon_properties(*vals)
    record(f"pc {name}", gas.pseudocritical_point_Sutton, sg, props, fluid)
props = gas.make_nonhydrocarbon_properties(0.03, 0.012, 0.018)
record("pc default", gas.pseudocritical_point_Sutton, 0.65, props)
props_extra = gas.make_nonhydrocarbon_properties(
    0.01, 0.02, 0.03, ("Helium", 0.005, 4.0, 9.34, 33.0)
)
record("pc extra dry", gas.pseudocritical_point_Sutton, 0.7, props_extra, "dry gas")
record("pc extra wet", gas.pseudocritical_point_Sutton, 0.7, props_extra, "wet gas")
for bad in ("oil", "Dry gas", "", None, 3, ["dry gas"], ("dry gas",), b"dry gas"):
    record("pc badfluid", gas.pseudocritical_point_Sutton, 0.65, props, bad)
record("pc badfluid kw", gas.pseudocritical_point_Sutton, 0.65, props, fluid="condensate")
record("pc bad sg", gas.pseudocritical_point_Sutton, "0.65", props, "dry gas")
record("pc none sg", gas.pseudocritical_point_Sutton, None, props, "wet gas")
record("pc bad props", gas.pseudocritical_point_Sutton, 0.65, np.zeros(3), "dry gas")
record("pc dict props", gas.pseudocritical_point_Sutton, 0.65, {"fraction": 1}, "dry gas")
record("pc bad props+fluid", gas.pseudocritical_point_Sutton, 0.65, None, "nope")
short = gas.make_nonhydrocarbon_properties(0.03, 0.012, 0.018)[:2]
record("pc two rows", gas.pseudocritical_point_Sutton, 0.65, short, "dry gas")
record("pc array sg", gas.pseudocritical_point_Sutton, np.array([0.6, 0.7]), props, "wet gas")

# ---------------------------------------------------------------- DAK family, viscosity
temps = (60, 100.0, 200.0, 400, np.float64(250.0))
pressures = (10.0, 14.7, 100, 104.7, 1000.0, 3000.0, 5000.0, 9000.0, 14000.0, np.float64(2500.0))
pcs = ((-102, 649), (-102.21827232417752, 648.510797253794), (-72.20351526841193, 653.2582064200534), (-50.0, 700.0))
sgs = (0.55, 0.65, 0.8, 1.2)
for t, p, (tpc, ppc) in itertools.product(temps, pressures, pcs):
    record("z", gas.z_factor_DAK, t, p, tpc, ppc)
    record("b", gas.b_factor_DAK, t, p, tpc, ppc)
    record("b std", gas.b_factor_DAK, t, p, tpc, ppc, 70, 14.65)
    record("c", gas.compressibility_DAK, t, p, tpc, ppc)
    for sg in sgs:
        record("rho", gas.density_DAK, t, p, tpc, ppc, sg)
        record("mu", gas.viscosity_Sutton, t, p, tpc, ppc, sg)
record("b kw", gas.b_factor_DAK, 400, 100, -102, 649, pressure_standard=15.025, temperature_standard=59)

# inputs that fail or sit at the edge
edge_args = [
    (400, 0.0, -102, 649),
    (400, -100.0, -102, 649),
    (400, 100, -459.67, 649),
    (-459.67, 100, -102, 649),
    (400, 100, -102, 0.0),
    (400, 100, -102, 0),
    (-400, 5000.0, -102, 649),
    (-300, 8000.0, -102, 649),
    (-100, 50000.0, -102, 649),
    (0, 1e6, -102, 649),
    (400, 1e-8, -102, 649),
    (400, float("nan"), -102, 649),
    (float("nan"), 100, -102, 649),
    (400, float("inf"), -102, 649),
    (float("inf"), 100.0, -102, 649),
    ("400", 100, -102, 649),
    (400, "100", -102, 649),
    (400, None, -102, 649),
    (400, 100, None, 649),
    (400, 100, -102, None),
    (400, np.array([100.0, 200.0]), -102, 649),
    (np.array([300.0, 400.0]), 100.0, -102, 649),
    (400, np.array([100.0]), -102, 649),
    (-1000, 100.0, -102, 649),
    (400, 100.0, -1000, 649),
    (400, 100.0, -102, -649),
]
for args in edge_args:
    record("z edge", gas.z_factor_DAK, *args)
    record("b edge", gas.b_factor_DAK, *args)
    record("c edge", gas.compressibility_DAK, *args)
    for sg in (0.65, 0.0, -0.5, None, "0.65", np.array([0.6, 0.7])):
        record("rho edge", gas.density_DAK, *args, sg)
        record("mu edge", gas.viscosity_Sutton, *args, sg)
for sg in (0.0, -0.5, None, "0.65", np.array([0.6, 0.7]), np.array([0.65]), float("nan")):
    record("rho sg", gas.density_DAK, 400, 100, -102, 649, sg)
    record("mu sg", gas.viscosity_Sutton, 400, 100, -102, 649, sg)
    record("m sg", gas.pseudopressure_Hussainy, 400, 100, -102, 649, sg)
record("b std0", gas.b_factor_DAK, 400, 100, -102, 649, -459.67, 14.7)
record("b stdstr", gas.b_factor_DAK, 400, 100, -102, 649, "60", 14.7)
record("z few", gas.z_factor_DAK, 400, 100, -102)
record("c few", gas.compressibility_DAK, 400, 100, -102)
record("rho few", gas.density_DAK, 400, 100, -102, 649)
record("mu few", gas.viscosity_Sutton, 400, 100, -102, 649)
record("m few", gas.pseudopressure_Hussainy, 400, 100, -102, 649)

# ---------------------------------------------------------------- Hall-Yarbrough
for p, t in itertools.product(
    (0.0, 0.1, 1.0, 2.5, 5.0, 10.0, 15.0, 24.0, np.float64(3.0), -1.0),
    (1.05, 1.2, 1.5, 2.0, 3.0, 1.0, np.float64(1.7), 0.9, 5.0),
):
    record("hy", gas.z_factor_hallyarbrough, p, t)
for p, t in [
    (1.0, 0),
    (1.0, 0.0),
    (float("nan"), 1.5),
    (1.0, float("nan")),
    (float("inf"), 1.5),
    (1.0, float("inf")),
    (np.array([1.0, 2.0]), 1.5),
    (np.array([2.0]), 1.5),
    (np.array([]), 1.5),
    (2.0, np.array([1.5])),
    (2.0, np.array([1.5, 2.0])),
    ("1", 1.5),
    (1.0, "1.5"),
    (None, 1.5),
    (1.0, None),
    (1, 2),
    (3, 1),
    (1.0, -1.5),
    (1.0, 0.3),
]:
    record("hy edge", gas.z_factor_hallyarbrough, p, t)
record("hy kw", gas.z_factor_hallyarbrough, temperature=1.6, pressure=4.0)
record("hy few", gas.z_factor_hallyarbrough, 1.0)

# ---------------------------------------------------------------- pseudopressure
for t, p, (tpc, ppc), sg in itertools.product(
    (100.0, 400), (14.7, 14.70001, 15.0, 100, 2000.0, 8000.0, 10.0), pcs[:2], (0.65, 0.9)
):
    record("m", gas.pseudopressure_Hussainy, t, p, tpc, ppc, sg)
record("m std", gas.pseudopressure_Hussainy, 400, 1000.0, -102, 649, 0.65, 100.0)
record("m std kw", gas.pseudopressure_Hussainy, 400, 1000.0, -102, 649, 0.65, pressure_standard=1000.0)
record("m std hi", gas.pseudopressure_Hussainy, 400, 1000.0, -102, 649, 0.65, 3000.0)
for args in [
    (400, 0.0, -102, 649, 0.65),
    (400, -50.0, -102, 649, 0.65),
    (400, 100, -459.67, 649, 0.65),
    (400, 100, -102, 0.0, 0.65),
    (-300, 8000.0, -102, 649, 0.65),
    (400, float("nan"), -102, 649, 0.65),
    (400, "100", -102, 649, 0.65),
    ("400", 100, -102, 649, 0.65),
    (400, 100, -459.67, 649, None),
    (400, np.array([100.0, 200.0]), -102, 649, 0.65),
    (400, 100.0, -102, 649, 0.65, 0.0),
    (400, 100.0, -102, 649, 0.65, None),
]:
    record("m edge", gas.pseudopressure_Hussainy, *args)

# ---------------------------------------------------------------- consumer: build_pvt_gas
for vals, dryness, pmax in [
    ({"N2": 0.03, "H2S": 0.012, "CO2": 0.018, "Gas Specific Gravity": 0.65, "Reservoir Temperature (deg F)": 400}, "dry gas", 600.0),
    ({"N2": 0.0, "H2S": 0.0, "CO2": 0.0, "Gas Specific Gravity": 0.8, "Reservoir Temperature (deg F)": 250.0}, "wet gas", 12000.0),
    ({"N2": 0.0, "H2S": 0.0, "CO2": 0.0, "Gas Specific Gravity": 0.8, "Reservoir Temperature (deg F)": 250.0}, "gas", 100.0),
    ({"N2": 0.0, "H2S": 0.0, "CO2": 0.0, "Gas Specific Gravity": 0.8, "Reservoir Temperature (deg F)": 250.0}, "wet gas", 20.0),
    ({"N2": 0.0, "H2S": 0.0, "Gas Specific Gravity": 0.8, "Reservoir Temperature (deg F)": 250.0}, "wet gas", 100.0),
]:
    try:
        table = build_pvt_gas(vals, dryness, pmax)
        lines.append(f"pvt {dryness} {pmax} columns {list(table.columns)!r} shape {table.shape!r}")
        for col in table.columns:
            lines.append(f"pvt {dryness} {pmax} {col} " + show(table[col].to_numpy()))
    except BaseException as exc:  # noqa: BLE001
        lines.append(f"pvt {dryness} {pmax} RAISES {type(exc).__name__}")

lines.append(
    "public names "
    + repr(
        sorted(
            n
            for n in dir(gas)
            if not n.startswith("_") and getattr(getattr(gas, n), "__module__", None) == gas.__name__
        )
    )
)

with open(sys.argv[1], "w") as fh:
    fh.write("\n".join(lines) + "\n")
