"""Equivalence driver for src/bluebonnet/forecast/forecast.py.

Usage: PYTHONPATH=<tree>/src /venv/bin/python equiv.py <outfile>
"""

from __future__ import annotations

import copy
import dataclasses
import sys
import warnings

import numpy as np

from bluebonnet.flow import IdealReservoir
from bluebonnet.forecast import Bounds, ForecasterOnePhase
from bluebonnet.forecast import forecast as fmod

warnings.simplefilter("ignore")
OUT = []


def show(x):
    """Full-precision, type-revealing repr."""
    if isinstance(x, np.ndarray):
        return f"ndarray{x.shape}{x.dtype}[" + ",".join(show(v) for v in x.ravel().tolist()) + "]"
    if isinstance(x, np.generic):
        return f"{type(x).__name__}({x.item()!r})"
    if isinstance(x, tuple):
        return type(x).__name__ + "(" + ",".join(show(v) for v in x) + ")"
    if isinstance(x, list):
        return "[" + ",".join(show(v) for v in x) + "]"
    if isinstance(x, dict):
        return "{" + ",".join(f"{k!r}:{show(v)}" for k, v in x.items()) + "}"
    if isinstance(x, float):
        return f"float({x!r})"
    return f"{type(x).__name__}:{x!r}"


def rec(label, fn, *, msg=False):
    try:
        res = show(fn())
    except Exception as e:  # noqa: BLE001
        res = "EXC " + type(e).__name__ + (": " + str(e) if msg else "")
    OUT.append(f"{label} -> {res}")


# ---------------------------------------------------------------- Bounds
bound_cases = {
    "ok_int": ((0, 1), (2, 3)),
    "ok_float": ((0.5, 1.5), (1e-10, np.inf)),
    "ok_list": ([0.0, 10.0], [1.0, 2.0]),
    "ok_array": (np.array([0.0, 10.0]), np.array([1.0, 2.0])),
    "ok_neg": ((-5.0, -1.0), (-2, 7)),
    "ok_npfloat": ((np.float64(1.0), np.float32(2.0)), (np.int64(1), np.int64(9))),
    "ok_negzero": ((-1.0, -0.0), (-0.0, 1.0)),
    "M_len3": ((1, 2, 3), (0, 1)),
    "M_len1": ((1,), (0, 1)),
    "M_len0": ((), (0, 1)),
    "tau_len1": ((1, 2), (1,)),
    "tau_len3": ((1, 2), (1, 2, 3)),
    "both_len": ((1, 2, 3), (1,)),
    "M_len_tau_order": ((1, 2, 3), (5, 1)),
    "M_order_tau_len": ((2, 1), (1,)),
    "M_rev": ((1, 0), (0, 1)),
    "M_eq": ((1.0, 1.0), (0, 1)),
    "tau_rev": ((0, 1), (20, 10)),
    "tau_eq": ((0, 1), (3, 3)),
    "both_rev": ((5, 1), (20, 10)),
    "M_nan": ((np.nan, 1.0), (0, 1)),
    "M_nan2": ((0.0, np.nan), (0, 1)),
    "tau_nan": ((0, 1), (np.nan, np.nan)),
    "M_inf": ((np.inf, np.inf), (0, 1)),
    "M_scalar": (3.0, (0, 1)),
    "tau_scalar": ((0, 1), 2),
    "M_none": (None, (0, 1)),
    "M_str": ("ab", (0, 1)),
    "M_str_rev": ("ba", (0, 1)),
    "M_mixed": ((0, "a"), (0, 1)),
    "M_2d": (np.array([[0.0, 1.0], [2.0, 3.0]]), (0, 1)),
    "M_dict": ({0: 1.0, 1: 2.0}, (0, 1)),
    "M_negzero_eq": ((-0.0, 0.0), (0, 1)),
}

good_bounds = {}
for name, (M, tau) in bound_cases.items():
    rec(f"Bounds[{name}]", lambda M=M, tau=tau: repr(Bounds(M=M, tau=tau)), msg=True)
    rec(f"Bounds_pos[{name}]", lambda M=M, tau=tau: repr(Bounds(M, tau)), msg=True)
    try:
        good_bounds[name] = Bounds(M=copy.deepcopy(M), tau=copy.deepcopy(tau))
    except Exception:  # noqa: BLE001
        pass
    else:
        b = good_bounds[name]
        rec(f"fit_bounds[{name}]", b.fit_bounds)
        rec(f"fit_bounds_type[{name}]", lambda b=b: [type(v).__name__ for v in b.fit_bounds()])

rec("Bounds_noargs", lambda: Bounds(), msg=False)
rec("Bounds_onearg", lambda: Bounds((0, 1)), msg=False)
rec("Bounds_fields", lambda: [f.name for f in dataclasses.fields(Bounds)])
rec("Bounds_eq", lambda: Bounds((0, 1), (2, 3)) == Bounds((0, 1), (2, 3)))
rec("Bounds_hash", lambda: hash(Bounds((0, 1), (2, 3))) == hash(Bounds((0, 1), (2, 3))))
rec("Bounds_frozen", lambda: setattr(Bounds((0, 1), (2, 3)), "M", (0, 2)))
rec("Bounds_frozen_new", lambda: setattr(Bounds((0, 1), (2, 3)), "lower", (0, 2)))
rec("Bounds_replace", lambda: repr(dataclasses.replace(Bounds((0, 1), (2, 3)), tau=(5, 6))), msg=True)
rec("Bounds_replace_bad", lambda: repr(dataclasses.replace(Bounds((0, 1), (2, 3)), tau=(7, 6))), msg=True)
rec("Bounds_asdict", lambda: dataclasses.asdict(Bounds((0, 1), (2, 3))))
rec("default_bounds", lambda: repr(fmod._default_bounds))
rec("default_fit_bounds", lambda: fmod._default_bounds.fit_bounds())

# ------------------------------------------------- regularize_initial_guess
guess_values = [-np.inf, -7.0, -1.0, -0.0, 0.0, 0.25, 0.5, 1.0, 1.5, 2.0, 2.5, 3.0, 10.0, 11.0, 1e300, np.inf, np.nan, 3, 0, -2]
for bname, b in good_bounds.items():
    if bname in ("M_dict",):
        continue
    for g0 in guess_values:
        rec(f"reg1[{bname}][{g0!r}]", lambda b=b, g0=g0: b.regularize_initial_guess([g0]))
        for g1 in guess_values[::3]:
            rec(f"reg2[{bname}][{g0!r},{g1!r}]", lambda b=b, g0=g0, g1=g1: b.regularize_initial_guess([g0, g1]))

b = Bounds((0.0, 10.0), (1.0, 2.0))
# in-place mutation and identity of the returned object
for g in ([-1.0, 0.0], [11.0, 5.0], [5.0, 1.5], [5.0], [-3.0]):
    def _mut(g=g):
        g = list(g)
        r = b.regularize_initial_guess(g)
        return (r is g, g, r)
    rec(f"reg_inplace[{g}]", _mut)
# other container kinds / lengths
rec("reg_len0", lambda: b.regularize_initial_guess([]))
rec("reg_len3_in", lambda: b.regularize_initial_guess([5.0, 0.0, 9.0]))
rec("reg_len3_out", lambda: b.regularize_initial_guess([-5.0, 0.0, 9.0]))
rec("reg_tuple_inside", lambda: b.regularize_initial_guess((5.0, 1.5)))
rec("reg_tuple_low", lambda: b.regularize_initial_guess((-5.0, 1.5)))
rec("reg_tuple_tau", lambda: b.regularize_initial_guess((5.0, 0.0)))
rec("reg_tuple_high", lambda: b.regularize_initial_guess((50.0,)))
rec("reg_array2", lambda: b.regularize_initial_guess(np.array([-1.0, 5.0])))
rec("reg_array1", lambda: b.regularize_initial_guess(np.array([20.0])))
rec("reg_array_int", lambda: b.regularize_initial_guess(np.array([20, 7])))
rec("reg_array0d", lambda: b.regularize_initial_guess(np.array(3.0)))
rec("reg_npscalar", lambda: b.regularize_initial_guess(np.float64(3.0)))
rec("reg_float", lambda: b.regularize_initial_guess(3.0))
rec("reg_none", lambda: b.regularize_initial_guess(None))
rec("reg_gen", lambda: b.regularize_initial_guess(x for x in [1.0, 2.0]))
rec("reg_dict1", lambda: b.regularize_initial_guess({0: -4.0}))
rec("reg_dict2", lambda: b.regularize_initial_guess({0: 40.0, 1: 9.0}))
rec("reg_dict_nokey", lambda: b.regularize_initial_guess({1: 9.0}))
rec("reg_str", lambda: b.regularize_initial_guess(["a"]))
rec("reg_str2", lambda: b.regularize_initial_guess([5.0, "a"]))
rec("reg_none_el", lambda: b.regularize_initial_guess([None, 1.0]))
rec("reg_2d", lambda: b.regularize_initial_guess(np.array([[1.0, 2.0], [3.0, 4.0]])))
rec("reg_nested", lambda: b.regularize_initial_guess([[1.0], 2.0]))
rec("reg_npels", lambda: b.regularize_initial_guess([np.float64(-2.0), np.float32(7.0)]))
ba = Bounds(np.array([0.0, 10.0]), np.array([1.0, 2.0]))
rec("reg_arrbounds_mid", lambda: ba.regularize_initial_guess([50.0, 50.0]))
rec("reg_arrbounds_low", lambda: ba.regularize_initial_guess([-50.0, -50.0]))
rec("reg_default", lambda: fmod._default_bounds.regularize_initial_guess([-1.0, 0.0]))
rec("reg_default2", lambda: fmod._default_bounds.regularize_initial_guess([np.inf, np.inf]))


# -------------------------------------------------- _forecast_cum_onephase
def rf_exp(ts):
    return 1.0 - np.exp(-np.sqrt(ts))


def rf_list(ts):
    return [1.0, 2.0]


def rf_bad(ts):
    raise KeyError("boom")


t_cases = {
    "arr": np.linspace(0.0, 10.0, 7),
    "arr1": np.array([2.0]),
    "arr2": np.array([0.0, 3.0]),
    "arr0": np.array([]),
    "arr_int": np.arange(5),
    "arr2d": np.arange(6.0).reshape(2, 3),
    "scalar": 2.5,
    "int": 3,
    "npfloat": np.float64(2.5),
    "list": [1.0, 2.0],
    "tuple": (1.0, 2.0),
    "none": None,
    "str": "abc",
}
M_cases = [300.0, 2, np.float64(1.5), np.array([1.0, 2.0]), None, "a", 0.0, -1.0, np.inf, np.nan]
tau_cases = [3.0, 2, np.float64(0.5), 0.0, 0, -1.0, np.inf, np.nan, None, "a", np.array([1.0, 2.0])]
for tname, t in t_cases.items():
    for M in M_cases:
        for tau in tau_cases:
            rec(
                f"_fc[{tname}][{M!r}][{tau!r}]",
                lambda t=t, M=M, tau=tau: fmod._forecast_cum_onephase(rf_exp, t, M, tau),
            )
rec("_fc_listrf", lambda: fmod._forecast_cum_onephase(rf_list, np.array([1.0, 2.0]), 2.0, 1.0))
rec("_fc_listrf_int", lambda: fmod._forecast_cum_onephase(rf_list, np.array([1.0, 2.0]), 2, 1.0))
rec("_fc_badrf", lambda: fmod._forecast_cum_onephase(rf_bad, np.array([1.0, 2.0]), 2.0, 1.0))
rec("_fc_nocall", lambda: fmod._forecast_cum_onephase(None, np.array([1.0, 2.0]), 2.0, 1.0))
rec("_fc_kw", lambda: fmod._forecast_cum_onephase(rf_curve=rf_exp, time_on_production=np.array([1.0, 2.0]), M=2.0, tau=1.0))
rec("_fc_missing", lambda: fmod._forecast_cum_onephase(rf_exp, np.array([1.0, 2.0]), 2.0))

# ------------------------------------------------------ ForecasterOnePhase
nx, pf, pi = 40, 500.0, 5000.0
time_scaled = np.linspace(0, np.sqrt(6.0), 400) ** 2
res = IdealReservoir(nx, pf, pi, None)
res.simulate(time_scaled)
res.recovery_factor()
rf_interp = res.recovery_factor_interpolator()

rec("F_fields", lambda: [(f.name, f.default is dataclasses.MISSING, f.default is fmod._default_bounds) for f in dataclasses.fields(ForecasterOnePhase)])
rec("F_repr", lambda: repr(ForecasterOnePhase(rf_exp)).replace(hex(id(rf_exp)), "ID"))
rec("F_noargs", lambda: ForecasterOnePhase())
rec("F_eq", lambda: ForecasterOnePhase(rf_exp) == ForecasterOnePhase(rf_exp))
rec("F_default_bounds_is", lambda: ForecasterOnePhase(rf_exp).bounds is fmod._default_bounds)

# forecast_cum before fit
f0 = ForecasterOnePhase(rf_exp)
t = np.linspace(0.0, 10.0, 6)
rec("fc_unfit", lambda: f0.forecast_cum(t))
rec("fc_unfit_M", lambda: f0.forecast_cum(t, M=2.0))
rec("fc_unfit_tau", lambda: f0.forecast_cum(t, tau=2.0))
rec("fc_unfit_both", lambda: f0.forecast_cum(t, 2.0, 3.0))
rec("fc_unfit_both_kw", lambda: f0.forecast_cum(time_on_production=t, tau=3.0, M=2.0))
rec("fc_zero_M", lambda: f0.forecast_cum(t, 0.0, 3.0))
rec("fc_zero_tau", lambda: f0.forecast_cum(t, 2.0, 0.0))
rec("fc_int_zero", lambda: f0.forecast_cum(t, 0, 0))
rec("fc_false", lambda: f0.forecast_cum(t, False, True))
rec("fc_arrM", lambda: f0.forecast_cum(t, np.arange(6.0), 2.0))
rec("fc_scalar_t", lambda: f0.forecast_cum(4.0, 2.0, 3.0))
rec("fc_list_t", lambda: f0.forecast_cum([1.0, 2.0], 2.0, 3.0))
rec("fc_len1", lambda: f0.forecast_cum(np.array([4.0]), 2.0, 3.0))
rec("fc_empty", lambda: f0.forecast_cum(np.array([]), 2.0, 3.0))
f0.M_ = 7.0
rec("fc_onlyM_set", lambda: f0.forecast_cum(t))
rec("fc_onlyM_set_tau", lambda: f0.forecast_cum(t, tau=2.0))
f0.tau_ = 4.0
rec("fc_manual_attrs", lambda: f0.forecast_cum(t))
rec("fc_manual_attrs_M", lambda: f0.forecast_cum(t, M=1.0))
rec("fc_manual_attrs_tau", lambda: f0.forecast_cum(t, tau=1.0))


def do_fit(rf, t, cum, tau=None, bounds=None, pos=False):
    f = ForecasterOnePhase(rf) if bounds is None else ForecasterOnePhase(rf, bounds)
    if pos:
        r = f.fit(t, cum, tau)
    elif tau is None:
        r = f.fit(t, cum)
    else:
        r = f.fit(t, cum, tau=tau)
    return (
        r,
        f.M_,
        f.tau_,
        f.time_on_production is t,
        f.cum_production is cum,
        f.forecast_cum(t[: 5]),
        f.forecast_cum(t[: 3], M=2.0),
        f.forecast_cum(t[: 3], tau=2.0),
        sorted(vars(f)),
    )


fit_bounds_cases = {
    "default": None,
    "wide": Bounds((0.0, 1e4), (1e-3, 1e3)),
    "tightM": Bounds((0.0, 100.0), (1e-3, 1e3)),
    "tight_tau": Bounds((0.0, 1e4), (5.0, 50.0)),
    "lowM": Bounds((1000.0, 2000.0), (50.0, 60.0)),
    "int": Bounds((0, 1000), (1, 100)),
    "list": Bounds([0.0, 1e4], [1e-3, 1e3]),
    "array": Bounds(np.array([0.0, 1e4]), np.array([1e-3, 1e3])),
}
for rname, rf in (("interp", rf_interp), ("exp", rf_exp)):
    for M_true, tau_true in ((300.0, 3.0), (50.0, 0.7), (1.0, 30.0)):
        for n in (400, 50, 3, 2, 1):
            tt = time_scaled[:n] if n > 3 else time_scaled[-n:].copy()
            if rname == "exp":
                tt = tt * 3.0
            cum = M_true * rf(tt / tau_true)
            for bname, bb in fit_bounds_cases.items():
                if n < 400 and bname not in ("default", "tight_tau", "lowM"):
                    continue
                for tau_fix in (None, tau_true, 2 * tau_true, 2):
                    rec(
                        f"fit[{rname}][{M_true},{tau_true}][n={n}][{bname}][tau={tau_fix!r}]",
                        lambda rf=rf, tt=tt, cum=cum, tau_fix=tau_fix, bb=bb: do_fit(rf, tt, cum, tau_fix, bb),
                    )
tt = time_scaled[:60]
cum = 300.0 * rf_interp(tt / 3.0)
rec("fit_pos_tau", lambda: do_fit(rf_interp, tt, cum, 3.0, None, pos=True))
rec("fit_pos_none", lambda: do_fit(rf_interp, tt, cum, None, None, pos=True))
rec("fit_tau0", lambda: do_fit(rf_interp, tt, cum, 0.0))
rec("fit_tau_int0", lambda: do_fit(rf_interp, tt, cum, 0))
rec("fit_tau_neg", lambda: do_fit(rf_interp, tt, cum, -1.0))
rec("fit_tau_nan", lambda: do_fit(rf_interp, tt, cum, np.nan))
rec("fit_tau_inf", lambda: do_fit(rf_interp, tt, cum, np.inf))
rec("fit_tau_str", lambda: do_fit(rf_interp, tt, cum, "a"))
rec("fit_tau_npfloat", lambda: do_fit(rf_interp, tt, cum, np.float64(3.0)))
rec("fit_tau_arr", lambda: do_fit(rf_interp, tt, cum, np.full(60, 3.0)))
rec("fit_lists", lambda: do_fit(rf_exp, list(tt), list(cum)))
rec("fit_lists_tau", lambda: do_fit(rf_exp, list(tt), list(cum), 3.0))
rec("fit_t_list", lambda: do_fit(rf_interp, list(tt), cum))
rec("fit_cum_list", lambda: do_fit(rf_interp, tt, list(cum)))
rec("fit_cum_list_tau", lambda: do_fit(rf_interp, tt, list(cum), 3.0))
rec("fit_empty", lambda: do_fit(rf_interp, np.array([]), np.array([])))
rec("fit_empty_tau", lambda: do_fit(rf_interp, np.array([]), np.array([]), 3.0))
rec("fit_len_mismatch", lambda: do_fit(rf_interp, tt, cum[:-1]))
rec("fit_len_mismatch_tau", lambda: do_fit(rf_interp, tt, cum[:-1], 3.0))
rec("fit_nan_cum", lambda: do_fit(rf_interp, tt, np.where(np.arange(60) == 5, np.nan, cum)))
rec("fit_nan_cum_tau", lambda: do_fit(rf_interp, tt, np.where(np.arange(60) == 5, np.nan, cum), 3.0))
rec("fit_zero_cum", lambda: do_fit(rf_interp, tt, np.zeros(60)))
rec("fit_zero_cum_tau", lambda: do_fit(rf_interp, tt, np.zeros(60), 3.0))
rec("fit_neg_cum", lambda: do_fit(rf_interp, tt, -cum))
rec("fit_scalar", lambda: do_fit(rf_interp, 3.0, 2.0))
rec("fit_none", lambda: do_fit(rf_interp, None, None))
rec("fit_badrf", lambda: do_fit(rf_bad, tt, cum))
rec("fit_badrf_tau", lambda: do_fit(rf_bad, tt, cum, 3.0))
rec("fit_nonerf", lambda: do_fit(None, tt, cum))
rec("fit_nonerf_tau", lambda: do_fit(None, tt, cum, 3.0))
rec("fit_listrf", lambda: do_fit(rf_list, tt[:2], cum[:2]))
rec("fit_nobounds_obj", lambda: do_fit(rf_interp, tt, cum, None, ((0, 1), (2, 3))))
rec("fit_nobounds_obj_tau", lambda: do_fit(rf_interp, tt, cum, 3.0, ((0, 1), (2, 3))))
rec("fit_2d", lambda: do_fit(rf_exp, tt.reshape(6, 10), cum.reshape(6, 10)))
rec("fit_series", lambda: do_fit(rf_exp, __import__("pandas").Series(tt), __import__("pandas").Series(cum)))
rec("fit_series_tau", lambda: do_fit(rf_exp, __import__("pandas").Series(tt), __import__("pandas").Series(cum), 3.0))


# refit on the same instance: attributes overwritten, free then fixed and back
def refit():
    f = ForecasterOnePhase(rf_interp)
    out = []
    f.fit(tt, cum)
    out.append((f.M_, f.tau_))
    f.fit(tt, cum, tau=6.0)
    out.append((f.M_, f.tau_))
    f.fit(tt[:20], cum[:20])
    out.append((f.M_, f.tau_, f.time_on_production.shape))
    try:
        f.fit(tt, cum[:-1])
    except Exception as e:  # noqa: BLE001
        out.append(type(e).__name__)
    out.append((f.M_, f.tau_, f.time_on_production.shape, f.cum_production.shape))
    return out


rec("refit", refit)


# the rf_curve attribute is looked up on the instance
def swap_rf():
    f = ForecasterOnePhase(rf_interp)
    f.fit(tt, cum)
    a = f.forecast_cum(tt[:4])
    f.rf_curve = rf_exp
    b2 = f.forecast_cum(tt[:4])
    f.fit(tt, cum, tau=3.0)
    return (a, b2, f.M_, f.tau_)


rec("swap_rf", swap_rf)


# a subclass that overrides the bounds object / counts calls to the curve
def counting():
    calls = []

    def rf(ts):
        calls.append(np.shape(ts))
        return rf_exp(ts)

    f = ForecasterOnePhase(rf, Bounds((0.0, 1e4), (1e-3, 1e3)))
    f.fit(tt * 3, 300.0 * rf_exp(tt))
    n1 = len(calls)
    f.fit(tt * 3, 300.0 * rf_exp(tt), tau=3.0)
    return (n1, len(calls), calls[0], f.M_, f.tau_)


rec("counting", counting)

with open(sys.argv[1], "w") as fh:
    fh.write("\n".join(OUT) + "\n")
