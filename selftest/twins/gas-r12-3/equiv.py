"""Equivalence probe for the gas module (twin 3: solver options spelled out in z_factor_DAK and pseudopressure_Hussainy).

Run as  PYTHONPATH=<tree>/src /venv/bin/python equiv.py <outfile>
"""

from __future__ import annotations

import os
import sys
import warnings

import numpy as np
import pandas as pd

from bluebonnet.fluids import gas
from bluebonnet.fluids.fluid import build_pvt_gas

BB_DATA = os.environ.get("BB_DATA", "/tmp/twin12_gas/tests/data")
LINES: list[str] = []


def show(value):
    """Full-precision, type-revealing representation."""
    if isinstance(value, tuple):
        return type(value).__name__ + "(" + ", ".join(show(v) for v in value) + ")"
    if isinstance(value, np.ndarray):
        return (
            f"ndarray{value.shape}{value.dtype}["
            + ", ".join(repr(x) for x in value.ravel().tolist())
            + "]"
        )
    if isinstance(value, (float, np.floating)):
        return f"{type(value).__name__}:{float(value)!r}"
    return f"{type(value).__name__}:{value!r}"


def rec(label, fn, *args, **kwargs):
    with warnings.catch_warnings(record=True) as caught:
        warnings.simplefilter("always")
        try:
            out = show(fn(*args, **kwargs))
        except Exception as exc:  # noqa: BLE001
            out = f"RAISED {type(exc).__name__}: {exc}"
    warns = sorted({f"{w.category.__name__}: {w.message}" for w in caught})
    LINES.append(f"{label} -> {out} | warnings={warns}")


PC = {"dry": (-102.21827232417752, 648.510797253794), "wet": (-72.20351526841193, 653.2582064200534)}
TEMPS = [60, 60.0, 150.5, 200.0, 400.0, np.float64(275.0)]
PRESSURES = [14.7, 100, 104.7, 1000.0, 3456.789, 5000.0, 12000.0, np.float64(2500.0)]

# --- z-factor, compressibility, and everything built on top of them
for name, (tpc, ppc) in PC.items():
    for t in TEMPS:
        for p in PRESSURES:
            tag = f"{name} T={t!r} p={p!r}"
            rec(f"z_factor_DAK {tag}", gas.z_factor_DAK, t, p, tpc, ppc)
            rec(f"compressibility_DAK {tag}", gas.compressibility_DAK, t, p, tpc, ppc)
            rec(f"b_factor_DAK {tag}", gas.b_factor_DAK, t, p, tpc, ppc)
            rec(f"b_factor_DAK std {tag}", gas.b_factor_DAK, t, p, tpc, ppc, 70.0, 15.025)
            rec(f"density_DAK {tag}", gas.density_DAK, t, p, tpc, ppc, 0.65)
            rec(f"viscosity_Sutton {tag}", gas.viscosity_Sutton, t, p, tpc, ppc, 0.8)

# docstring examples
rec("doc z", gas.z_factor_DAK, 400, 100, -102, 649)
rec("doc b", gas.b_factor_DAK, 400, 100, -102, 649, 60, 14.7)
rec("doc rho", gas.density_DAK, 400, 100, -102, 649, 0.65)
rec("doc cg", gas.compressibility_DAK, 400, 104.7, -102, 649)
rec("doc mu", gas.viscosity_Sutton, 400, 100, -102, 649, 0.65)
rec("doc m", gas.pseudopressure_Hussainy, 400, 100, -102, 649, 0.65)

# keyword calls
rec(
    "kw z",
    gas.z_factor_DAK,
    temperature=300.0,
    pressure=2200.0,
    temperature_pseudocritical=-90.0,
    pressure_pseudocritical=660.0,
)
rec(
    "kw cg",
    gas.compressibility_DAK,
    pressure=2200.0,
    temperature=300.0,
    pressure_pseudocritical=660.0,
    temperature_pseudocritical=-90.0,
)

# unusual argument types and inputs that raise
ODD = [
    ("p=0", (200.0, 0.0, -102.0, 649.0)),
    ("p=0 int", (200, 0, -102, 649)),
    ("p<0", (200.0, -500.0, -102.0, 649.0)),
    ("p=nan", (200.0, float("nan"), -102.0, 649.0)),
    ("p=inf", (200.0, float("inf"), -102.0, 649.0)),
    ("p huge", (200.0, 1e9, -102.0, 649.0)),
    ("p tiny", (200.0, 1e-9, -102.0, 649.0)),
    ("T very cold", (-400.0, 1000.0, -102.0, 649.0)),
    ("T=-459.67", (-459.67, 1000.0, -102.0, 649.0)),
    ("Tpc=-459.67", (200.0, 1000.0, -459.67, 649.0)),
    ("Tpc=-459.67 np", (200.0, 1000.0, np.float64(-459.67), 649.0)),
    ("ppc=0", (200.0, 1000.0, -102.0, 0.0)),
    ("ppc=0 np", (200.0, 1000.0, -102.0, np.float64(0.0))),
    ("ppc<0", (200.0, 1000.0, -102.0, -649.0)),
    ("p None", (200.0, None, -102.0, 649.0)),
    ("T None", (None, 1000.0, -102.0, 649.0)),
    ("p str", (200.0, "1000", -102.0, 649.0)),
    ("p list", (200.0, [1000.0], -102.0, 649.0)),
    ("p list2", (200.0, [1000.0, 2000.0], -102.0, 649.0)),
    ("p 0-d array", (200.0, np.array(1000.0), -102.0, 649.0)),
    ("p size-1 array", (200.0, np.array([1000.0]), -102.0, 649.0)),
    ("p size-2 array", (200.0, np.array([1000.0, 2000.0]), -102.0, 649.0)),
    ("T size-1 array", (np.array([200.0]), 1000.0, -102.0, 649.0)),
    ("T size-2 array", (np.array([200.0, 250.0]), 1000.0, -102.0, 649.0)),
    ("p float32", (200.0, np.float32(1000.0), -102.0, 649.0)),
    ("p int64", (200.0, np.int64(1000), -102.0, 649.0)),
    ("T bool", (True, 1000.0, -102.0, 649.0)),
    ("p complex", (200.0, 1000.0 + 0j, -102.0, 649.0)),
]
for tag, args in ODD:
    rec(f"odd z_factor_DAK {tag}", gas.z_factor_DAK, *args)
    rec(f"odd compressibility_DAK {tag}", gas.compressibility_DAK, *args)
    rec(f"odd b_factor_DAK {tag}", gas.b_factor_DAK, *args)
    rec(f"odd density_DAK {tag}", gas.density_DAK, *args, 0.7)
    rec(f"odd viscosity_Sutton {tag}", gas.viscosity_Sutton, *args, 0.7)
rec("too few args z", gas.z_factor_DAK, 200.0, 1000.0, -102.0)
rec("too few args cg", gas.compressibility_DAK, 200.0, 1000.0)
rec("too many args z", gas.z_factor_DAK, 200.0, 1000.0, -102.0, 649.0, 1.0)

# repeated calls must not influence each other (no hidden state)
for i in range(3):
    rec(f"repeat {i} z", gas.z_factor_DAK, 210.0, 1800.0, -80.0, 655.0)
    rec(f"repeat {i} cg", gas.compressibility_DAK, 210.0, 1800.0, -80.0, 655.0)

# pseudopressure (quad over the z-factor)
for name, (tpc, ppc) in PC.items():
    for t, p in [(400.0, 100.0), (200.0, 2000.0), (150.0, 14.7), (150.0, 5.0)]:
        rec(f"pseudopressure {name} {t} {p}", gas.pseudopressure_Hussainy, t, p, tpc, ppc, 0.7)
rec("pseudopressure pstd", gas.pseudopressure_Hussainy, 300.0, 900.0, -90.0, 650.0, 0.7, 20.0)
rec(
    "pseudopressure kw",
    gas.pseudopressure_Hussainy,
    temperature=300.0,
    pressure=900.0,
    temperature_pseudocritical=-90.0,
    pressure_pseudocritical=650.0,
    specific_gravity=0.7,
    pressure_standard=14.7,
)
HUSS = [
    ("upper == lower", (300.0, 14.7, -90.0, 650.0, 0.7)),
    ("upper < lower", (300.0, 5.0, -90.0, 650.0, 0.7)),
    ("upper < lower pstd", (300.0, 100.0, -90.0, 650.0, 0.7, 2000.0)),
    ("ints", (300, 900, -90, 650, 1)),
    ("np.float64", (np.float64(300.0), np.float64(900.0), np.float64(-90.0), np.float64(650.0), np.float64(0.7))),
    ("very high p", (300.0, 20000.0, -90.0, 650.0, 0.7)),
    ("no bracket on the way", (300.0, 1e9, -90.0, 650.0, 0.7)),
    ("p = 0", (300.0, 0.0, -90.0, 650.0, 0.7)),
    ("pstd = 0", (300.0, 500.0, -90.0, 650.0, 0.7, 0.0)),
    ("p < 0", (300.0, -500.0, -90.0, 650.0, 0.7)),
    ("p nan", (300.0, float("nan"), -90.0, 650.0, 0.7)),
    ("p inf", (300.0, float("inf"), -90.0, 650.0, 0.7)),
    ("sg = 0", (300.0, 500.0, -90.0, 650.0, 0.0)),
    ("sg < 0", (300.0, 500.0, -90.0, 650.0, -0.7)),
    ("sg None", (300.0, 500.0, -90.0, 650.0, None)),
    ("p None", (300.0, None, -90.0, 650.0, 0.7)),
    ("T None", (None, 500.0, -90.0, 650.0, 0.7)),
    ("p str", (300.0, "500", -90.0, 650.0, 0.7)),
    ("p list", (300.0, [500.0], -90.0, 650.0, 0.7)),
    ("p size-1 array", (300.0, np.array([500.0]), -90.0, 650.0, 0.7)),
    ("p 0-d array", (300.0, np.array(500.0), -90.0, 650.0, 0.7)),
    ("p size-2 array", (300.0, np.array([500.0, 600.0]), -90.0, 650.0, 0.7)),
    ("T size-1 array", (np.array([300.0]), 500.0, -90.0, 650.0, 0.7)),
    ("Tpc = -459.67", (300.0, 500.0, -459.67, 650.0, 0.7)),
    ("ppc = 0", (300.0, 500.0, -90.0, 0.0, 0.7)),
    ("T cold", (-300.0, 500.0, -90.0, 650.0, 0.7)),
    ("missing sg", (300.0, 500.0, -90.0, 650.0)),
    ("too many", (300.0, 500.0, -90.0, 650.0, 0.7, 14.7, 1)),
]
for tag, args in HUSS:
    rec(f"pseudopressure odd {tag}", gas.pseudopressure_Hussainy, *args)
for i in range(2):
    rec(f"pseudopressure repeat {i}", gas.pseudopressure_Hussainy, 250.0, 3000.0, -80.0, 655.0, 0.75)

# the whole gas pvt table goes through all four DAK functions
for dryness in ("dry gas", "wet gas"):
    for values in (
        {"N2": 0.03, "H2S": 0.012, "CO2": 0.018, "Gas Specific Gravity": 0.65,
         "Reservoir Temperature (deg F)": 400.0},
        {"N2": 0.0, "H2S": 0.0, "CO2": 0.0, "Gas Specific Gravity": 0.8,
         "Reservoir Temperature (deg F)": 180},
    ):
        with warnings.catch_warnings(record=True) as caught:
            warnings.simplefilter("always")
            try:
                table = build_pvt_gas(values, dryness, 1500.0)
                LINES.append(f"pvt {dryness} {values} columns={list(table.columns)} "
                             f"index={table.index.tolist()[:3]}..{table.index.tolist()[-1]}")
                for col in table.columns:
                    LINES.append(f"  {col}: {show(table[col].to_numpy())}")
            except Exception as exc:  # noqa: BLE001
                LINES.append(f"pvt {dryness} RAISED {type(exc).__name__}: {exc}")
            LINES.append(f"  warnings={sorted({str(w.message) for w in caught})}")

# a pvt csv from the test data, re-evaluated row by row
pvt = pd.read_csv(os.path.join(BB_DATA, "pvt_gas.csv")) if os.path.exists(
    os.path.join(BB_DATA, "pvt_gas.csv")
) else None
if pvt is not None:
    LINES.append(f"csv columns {list(pvt.columns)}")
    pcol = [c for c in pvt.columns if c.lower().startswith("p")][0]
    shuffled = pvt.sample(frac=1.0, random_state=3).iloc[:25]
    shuffled.index = [f"r{i}" for i in range(len(shuffled))]
    for lab, p in shuffled[pcol].items():
        rec(f"csv {lab} p={p!r} z", gas.z_factor_DAK, 300.0, p, -95.0, 660.0)
        rec(f"csv {lab} p={p!r} cg", gas.compressibility_DAK, 300.0, p, -95.0, 660.0)

with open(sys.argv[1], "w") as fh:
    fh.write("\n".join(LINES) + "\n")
