"""Equivalence harness for bluebonnet.plotting.

Usage: PYTHONPATH=<tree>/src /venv/bin/python equiv.py <outfile>

Calls every public object of bluebonnet.plotting on a broad set of inputs and
writes everything observable (line data at full precision, axis state, tick
positions, warnings, exception types, function metadata) to <outfile>.
"""

from __future__ import annotations

import inspect
import os
import sys
import warnings
from types import SimpleNamespace

import matplotlib

matplotlib.use("Agg")

import matplotlib.pyplot as plt
import matplotlib.scale as mscale
import numpy as np
import pandas as pd

import bluebonnet.plotting as bp
from bluebonnet.flow import FlowProperties, IdealReservoir, SinglePhaseReservoir
from bluebonnet.plotting import (
    SquareRootScale,
    plot_pseudopressure,
    plot_recovery_factor,
    plot_recovery_rate,
)

DATA = os.environ.get("BB_DATA", "/tmp/twin4_plotting/tests/data")
OUT: list[str] = []


def emit(*parts):
    OUT.append(" ".join(str(p) for p in parts))


def fmt(v):
    """Full-precision, type-revealing representation."""
    if isinstance(v, np.ndarray):
        return f"ndarray[{v.dtype},{v.shape}]" + repr([fmt(e) for e in v.ravel().tolist()])
    if isinstance(v, np.ma.MaskedArray):
        return "masked" + fmt(np.asarray(v))
    if isinstance(v, (np.floating, np.integer, np.bool_)):
        return f"{type(v).__name__}({v.item()!r})"
    if isinstance(v, (tuple, list)):
        return type(v).__name__ + "(" + ", ".join(fmt(e) for e in v) + ")"
    return repr(v)


def dump_axes(ax, draw=True):
    fig = ax.figure
    if draw:
        fig.canvas.draw()
    emit("  nlines", len(ax.lines))
    for k, line in enumerate(ax.lines):
        emit(
            "  line",
            k,
            "label=",
            repr(line.get_label()),
            "color=",
            repr(line.get_color()),
            "ls=",
            repr(line.get_linestyle()),
            "lw=",
            repr(line.get_linewidth()),
            "marker=",
            repr(line.get_marker()),
            "alpha=",
            repr(line.get_alpha()),
        )
        emit("    x", fmt(np.asarray(line.get_xdata(orig=True))))
        emit("    y", fmt(np.asarray(line.get_ydata(orig=True))))
    emit("  xscale", ax.get_xscale(), "yscale", ax.get_yscale())
    emit("  xscale_type", type(ax.xaxis._scale).__name__, "yscale_type", type(ax.yaxis._scale).__name__)
    emit("  xlim", fmt(ax.get_xlim()), "ylim", fmt(ax.get_ylim()))
    emit("  xlabel", repr(ax.get_xlabel()), "ylabel", repr(ax.get_ylabel()), "title", repr(ax.get_title()))
    emit("  xticks", fmt(np.asarray(ax.get_xticks())))
    emit("  yticks", fmt(np.asarray(ax.get_yticks())))
    emit("  xminor", fmt(np.asarray(ax.xaxis.get_minorticklocs())))
    if draw:
        emit("  xticklabels", [t.get_text() for t in ax.get_xticklabels()])
        emit("  yticklabels", [t.get_text() for t in ax.get_yticklabels()])
    emit("  xloc", type(ax.xaxis.get_major_locator()).__name__, type(ax.xaxis.get_minor_locator()).__name__)
    emit("  xfmt", type(ax.xaxis.get_major_formatter()).__name__, type(ax.xaxis.get_minor_formatter()).__name__)
    emit("  autoscale", ax.get_autoscalex_on(), ax.get_autoscaley_on())
    leg = ax.get_legend_handles_labels()
    emit("  legend_labels", leg[1])


def run(tag, func, *args, own_ax=True, draw=True, **kwargs):
    """Call func, record warnings / exception type / axes state."""
    emit("CALL", tag)
    plt.close("all")
    nfig_before = len(plt.get_fignums())
    with warnings.catch_warnings(record=True) as wlist:
        warnings.simplefilter("always")
        try:
            result = func(*args, **kwargs)
        except BaseException as exc:  # noqa: BLE001
            emit("  RAISED", type(exc).__name__)
            result = None
        else:
            emit("  returned", type(result).__name__)
            emit("  new_figures", len(plt.get_fignums()) - nfig_before)
            passed = kwargs.get("ax")
            if passed is not None:
                emit("  same_ax", result is passed)
        for w in wlist:
            emit("  WARNING(call)", w.category.__name__, str(w.message)[:80])
    if result is not None and hasattr(result, "lines"):
        with warnings.catch_warnings(record=True) as wlist:
            warnings.simplefilter("always")
            try:
                dump_axes(result, draw=draw)
            except BaseException as exc:  # noqa: BLE001
                emit("  DUMP_RAISED", type(exc).__name__)
            for w in wlist:
                emit("  WARNING(draw)", w.category.__name__, str(w.message)[:80])
    plt.close("all")


# --------------------------------------------------------------------------
# reservoirs
# --------------------------------------------------------------------------
def make_reservoirs():
    renamer = {
        "P": "pressure",
        "Z-Factor": "z-factor",
        "Cg": "compressibility",
        "Viscosity": "viscosity",
        "Density": "density",
    }
    pvt_gas = pd.read_csv(os.path.join(DATA, "pvt_gas.csv")).rename(columns=renamer)
    fluid = FlowProperties(pvt_gas, 2e3)
    out = {}
    res = SinglePhaseReservoir(30, pressure_fracface=100.0, pressure_initial=2e3, fluid=fluid)
    res.simulate(np.linspace(0, np.sqrt(11), 240) ** 2)
    out["single"] = res
    res2 = SinglePhaseReservoir(12, pressure_fracface=500.0, pressure_initial=2e3, fluid=fluid)
    res2.simulate(np.linspace(0, np.sqrt(0.4), 37) ** 2)
    out["single_short"] = res2
    ideal = IdealReservoir(20, 100.0, 2e3, None)
    ideal.simulate(np.linspace(0, 2.0, 101) ** 2)
    out["ideal"] = ideal
    ideal2 = IdealReservoir(8, 10.0, 5e3, None)
    ideal2.simulate(np.logspace(-6, 1, 50))
    out["ideal_log"] = ideal2
    return out


class Fake:
    """Duck-typed reservoir for edge cases."""

    def __init__(self, nx, pseudopressure, time, rf):
        self.nx = nx
        self.pseudopressure = pseudopressure
        self.time = time
        self._rf = rf

    def recovery_factor(self):
        return self._rf


def make_fakes():
    rng = np.random.default_rng(12345)
    out = {}
    nx, nt = 6, 9
    pp = np.sort(rng.uniform(0.1, 1.0, (nt, nx)), axis=1)
    pp[0, :] = 1.0
    t = np.linspace(0, 3, nt) ** 2
    rf = np.cumsum(rng.uniform(0, 0.1, nt))
    out["fake_basic"] = Fake(nx, pp, t, rf)
    out["fake_int_pp"] = Fake(4, np.array([[9, 9, 9, 9], [1, 3, 5, 9], [0, 2, 4, 8]]), np.array([0, 1, 4]), np.array([0.0, 0.3, 0.5]))
    out["fake_f32"] = Fake(nx, pp.astype(np.float32), t.astype(np.float32), rf.astype(np.float32))
    out["fake_list_time"] = Fake(nx, pp, list(t), list(rf))
    out["fake_int_time"] = Fake(3, pp[:4, :3], np.array([0, 1, 2, 5]), np.array([0.0, 0.1, 0.15, 0.2]))
    tn = t.copy()
    tn[3] = np.nan
    out["fake_nan_time"] = Fake(nx, pp, tn, rf)
    out["fake_dup_time"] = Fake(nx, pp, np.array([0, 0, 1, 1, 2, 3, 4, 5, 6.0]), rf)
    out["fake_neg_time"] = Fake(nx, pp, t - 2.0, rf)
    out["fake_zero_time"] = Fake(nx, pp, np.zeros(nt), rf)
    out["fake_single_step"] = Fake(nx, pp[:1], t[:1], rf[:1])
    out["fake_two_step"] = Fake(nx, pp[:2], t[:2], rf[:2])
    out["fake_empty"] = Fake(nx, pp[:0], t[:0], rf[:0])
    out["fake_mismatch"] = Fake(nx + 2, pp, t, rf[:-1])
    out["fake_nx0"] = Fake(0, pp, t, rf)
    out["fake_nx_float"] = Fake(6.0, pp, t, rf)
    out["fake_pp_nan"] = Fake(nx, np.where(pp < 0.3, np.nan, pp), t, np.where(rf > 0.3, np.nan, rf))
    out["fake_pp_1d"] = Fake(nx, pp[0], t, rf)
    out["fake_rf_2d"] = Fake(nx, pp, t, np.vstack([rf, rf]).T)
    out["fake_no_attrs"] = SimpleNamespace(nx=3)
    out["fake_none"] = None
    return out


# --------------------------------------------------------------------------
def section_metadata():
    emit("== metadata")
    for name in ("plot_pseudopressure", "plot_recovery_rate", "plot_recovery_factor"):
        f = getattr(bp, name)
        emit(name, "name", f.__name__, "qualname", f.__qualname__, "module", f.__module__)
        emit(name, "doc", repr(f.__doc__))
        emit(name, "sig", str(inspect.signature(f)))
        emit(name, "annotations", sorted(getattr(f, "__annotations__", {}).items()))
        emit(name, "callable", callable(f), "isfunction", inspect.isfunction(f))
    emit("Reservoir", repr(bp.Reservoir))
    emit("scale registered", "squareroot" in mscale.get_scale_names())
    emit("scale class", mscale._scale_mapping["squareroot"].__name__, mscale._scale_mapping["squareroot"] is SquareRootScale)
    emit("SquareRootScale.name", repr(SquareRootScale.name))
    emit("SquareRootScale.mro", [c.__name__ for c in SquareRootScale.__mro__][:1], issubclass(SquareRootScale, mscale.ScaleBase))
    emit("SquareRootScale.doc", repr(SquareRootScale.__doc__))
    for meth in (
        "__init__",
        "set_default_locators_and_formatters",
        "limit_range_for_scale",
        "get_transform",
    ):
        m = getattr(SquareRootScale, meth)
        emit("method", meth, repr(m.__doc__), str(inspect.signature(m)))
    for tname in ("SquareRootTransform", "InvertedSquareRootTransform"):
        cls = getattr(SquareRootScale, tname)
        emit(tname, cls.__name__, repr(cls.__doc__), cls.input_dims, cls.output_dims, cls.is_separable)
        emit(tname, "is Transform", issubclass(cls, matplotlib.transforms.Transform))
        emit(tname, "has_inverse", cls.has_inverse, "is_affine", cls.is_affine)


def section_scale():
    emit("== scale")
    fig, ax = plt.subplots()
    for axis in (ax.xaxis, ax.yaxis):
        for kwargs in ({}, {"bogus": 1}, {"base": 10}):
            try:
                sc = SquareRootScale(axis, **kwargs)
                emit("init", axis.axis_name, kwargs, "ok", type(sc).__name__, sc.name)
            except BaseException as exc:  # noqa: BLE001
                emit("init", axis.axis_name, kwargs, "RAISED", type(exc).__name__)
    for axis_arg in (None, "not an axis"):
        try:
            sc = SquareRootScale(axis_arg)
            emit("init", repr(axis_arg), "ok", sc.name)
        except BaseException as exc:  # noqa: BLE001
            emit("init", repr(axis_arg), "RAISED", type(exc).__name__)
    try:
        SquareRootScale()
        emit("init noargs ok")
    except BaseException as exc:  # noqa: BLE001
        emit("init noargs RAISED", type(exc).__name__)

    sc = SquareRootScale(ax.xaxis)
    lims = [
        (-1.0, 2.0, 0.1),
        (0.0, 1.0, 1e-300),
        (3.0, 5.0, 3.0),
        (-0.0, 0.0, 0.0),
        (float("nan"), 1.0, 1.0),
        (1.0, float("nan"), 1.0),
        (float("-inf"), float("inf"), 1.0),
        (np.float64(-2.5), np.float64(4.0), 1.0),
        (np.float64(2.5), np.float32(4.0), 1.0),
        (5, 2, 1),
        (-5, 2, 1),
        (True, False, 1),
    ]
    for vmin, vmax, minpos in lims:
        try:
            r = sc.limit_range_for_scale(vmin, vmax, minpos)
            emit("limit", fmt((vmin, vmax)), "->", fmt(r), [type(e).__name__ for e in r])
        except BaseException as exc:  # noqa: BLE001
            emit("limit", fmt((vmin, vmax)), "RAISED", type(exc).__name__)
    for bad in (("a", 1.0, 1.0), (None, 1.0, 1.0), (np.array([1.0, 2.0]), 1.0, 1.0)):
        try:
            r = sc.limit_range_for_scale(*bad)
            emit("limit bad", repr(bad[0]), "->", fmt(r))
        except BaseException as exc:  # noqa: BLE001
            emit("limit bad", repr(bad[0]), "RAISED", type(exc).__name__)

    tr = sc.get_transform()
    emit("get_transform", type(tr).__name__, type(tr).__qualname__)
    inv = tr.inverted()
    emit("inverted", type(inv).__name__, type(inv).__qualname__)
    inv2 = inv.inverted()
    emit("inverted twice", type(inv2).__name__, type(inv2).__qualname__)
    emit("fresh objects", tr is sc.get_transform(), inv is tr.inverted())

    inputs = {
        "float_arr": np.array([0.0, 0.25, 1.0, 2.0, 3.0, 1e-300, 1e300, 7.123456789]),
        "neg": np.array([-1.0, -0.0, 4.0]),
        "nan_inf": np.array([np.nan, np.inf, -np.inf]),
        "int_arr": np.array([0, 1, 2, 3, 4, 9, 10, 1000003]),
        "neg_int": np.array([-4, 4]),
        "big_int": np.array([3037000500, 2**31, 2**40], dtype=np.int64),
        "int32": np.array([46341, 7], dtype=np.int32),
        "uint8": np.array([3, 16, 200], dtype=np.uint8),
        "f32": np.array([0.1, 2.0, 3.0], dtype=np.float32),
        "bool": np.array([True, False]),
        "list": [0.5, 2.0, 9.0],
        "tuple_int": (1, 4, 9),
        "scalar": 2.0,
        "scalar_int": 3,
        "np_scalar": np.float64(5.0),
        "zero_d": np.array(7.0),
        "col2d": np.array([[0.5], [2.0], [9.0]]),
        "mat2d": np.array([[0.5, 1.5], [2.0, 4.0]]),
        "empty": np.array([]),
        "masked": np.ma.masked_array([1.0, 4.0, 9.0], mask=[False, True, False]),
        "complex": np.array([1 + 2j, -4 + 0j]),
        "object": np.array([1.5, 2], dtype=object),
        "str": np.array(["a", "b"]),
        "none": None,
    }
    for tname, tobj in (("sqrt", tr), ("square", inv)):
        for mname in ("transform", "transform_non_affine", "transform_affine"):
            for iname, val in inputs.items():
                with warnings.catch_warnings(record=True) as wl:
                    warnings.simplefilter("always")
                    try:
                        r = getattr(tobj, mname)(val)
                        emit(tname, mname, iname, "->", type(r).__name__, fmt(r))
                    except BaseException as exc:  # noqa: BLE001
                        emit(tname, mname, iname, "RAISED", type(exc).__name__)
                    for w in wl:
                        emit("   WARNING", w.category.__name__, str(w.message)[:60])
    # input must not be modified
    a = np.array([4.0, 9.0])
    tr.transform_non_affine(a)
    inv.transform(a)
    emit("input untouched", fmt(a))
    plt.close("all")

    # scale through the axes API
    for which in ("x", "y"):
        fig, ax = plt.subplots()
        ax.plot([0, 1, 4, 9, 16], [0, 1, 4, 9, 16])
        getattr(ax, f"set_{which}scale")("squareroot")
        emit("axes api", which)
        dump_axes(ax)
        pts = ax.transData.transform(np.array([[0.0, 0.0], [4.0, 4.0], [16.0, 16.0], [1.0, 9.0]]))
        emit("  transData", fmt(np.round(pts, 9)))
        back = ax.transData.inverted().transform(pts)
        emit("  back", fmt(np.round(back, 9)))
        plt.close("all")
    fig, ax = plt.subplots()
    ax.plot([-4, -1, 0, 1, 4], [1, 2, 3, 4, 5])
    with warnings.catch_warnings(record=True) as wl:
        warnings.simplefilter("always")
        ax.set_xscale("squareroot")
        emit("axes api negative data")
        dump_axes(ax)
        for w in wl:
            emit("  WARNING", w.category.__name__, str(w.message)[:60])
    plt.close("all")


def section_plots(reservoirs, fakes):
    emit("== plot_pseudopressure")
    allres = {**reservoirs, **fakes}
    for rname, res in allres.items():
        for rescale in (False, True):
            run(f"pp {rname} rescale={rescale} every=3", plot_pseudopressure, res, every=3, rescale=rescale)
    res = reservoirs["single"]
    fk = fakes["fake_basic"]
    run("pp defaults", plot_pseudopressure, res)
    run("pp defaults fake", plot_pseudopressure, fk)
    run("pp positional", plot_pseudopressure, res, 50, True, None, 0.5, 2.0, {"lw": 3})
    for every in (1, 2, 7, 1000, -3, 0, 2.0, 2.5, 0.0, True, None, "a", np.int64(4), np.array([2]), np.array([2, 3])):
        for rescale in (False, True):
            run(f"pp every={every!r} rescale={rescale}", plot_pseudopressure, fk, every=every, rescale=rescale)
    for rescale in (0, 1, "", "yes", None, [], [0], np.bool_(True), np.bool_(False), np.array(0), np.array([1]), np.array([1, 0]), np.array([]), 2.5, float("nan")):
        run(f"pp rescale={rescale!r}", plot_pseudopressure, fk, every=2, rescale=rescale)
        run(f"pp rescale={rescale!r} every=0", plot_pseudopressure, fk, every=0, rescale=rescale)
    for x_max, y_max in ((1, None), (0.5, 0.8), (2, 0), (0, None), (-1, -1), (None, None), (np.nan, 1), ("a", 1), (1, "b"), (np.inf, 1)):
        run(f"pp x_max={x_max!r} y_max={y_max!r}", plot_pseudopressure, fk, every=2, x_max=x_max, y_max=y_max)
    for pk in (
        None,
        {},
        {"lw": 2.5},
        {"linestyle": "--", "marker": "o", "alpha": 0.5},
        {"label": "profile"},
        {"color": "red"},
        {"c": "red"},
        {"bogus": 1},
        {"zorder": 3, "lw": 0.5},
        [("lw", 2)],
        "lw",
        5,
        {1: 2},
    ):
        for rescale in (False, True):
            run(f"pp plot_kwargs={pk!r} rescale={rescale}", plot_pseudopressure, fk, every=4, rescale=rescale, plot_kwargs=pk)
        run(f"pp plot_kwargs={pk!r} every=0", plot_pseudopressure, fk, every=0, plot_kwargs=pk)
    pk = {"lw": 1.25}
    run("pp kwargs not mutated", plot_pseudopressure, fk, every=4, plot_kwargs=pk)
    emit("  plot_kwargs after", pk)
    # passing an axes
    fig, ax = plt.subplots()
    ax.plot([0, 1], [0, 1], label="existing")
    run("pp ax given", plot_pseudopressure, fk, every=4, ax=ax)
    fig, (ax1, ax2) = plt.subplots(1, 2)
    run("pp ax2 given", plot_pseudopressure, fk, every=4, ax=ax2, rescale=True)
    run("pp ax bad", plot_pseudopressure, fk, every=4, ax="not axes")
    run("pp ax bad every=0", plot_pseudopressure, fk, every=0, ax="not axes")
    run("pp unknown kw", plot_pseudopressure, fk, bogus=1)
    run("pp no args", plot_pseudopressure)
    run("pp too many", plot_pseudopressure, fk, 1, False, None, 1, None, None, 5)
    run("pp reservoir kw", plot_pseudopressure, reservoir=fk, every=4)
    pp_before = fk.pseudopressure.copy()
    run("pp rescale no mutate", plot_pseudopressure, fk, every=1, rescale=True)
    emit("  pseudopressure untouched", bool(np.array_equal(pp_before, fk.pseudopressure, equal_nan=True)))
    ipp = fakes["fake_int_pp"]
    ipp_before = ipp.pseudopressure.copy()
    run("pp int rescale no mutate", plot_pseudopressure, ipp, every=1, rescale=True)
    emit("  int pseudopressure untouched", bool(np.array_equal(ipp_before, ipp.pseudopressure)), ipp.pseudopressure.dtype)

    for fname, func in (("rate", plot_recovery_rate), ("factor", plot_recovery_factor)):
        emit(f"== plot_recovery_{fname}")
        for rname, res in allres.items():
            for ct in (False, True):
                run(f"{fname} {rname} change_ticks={ct}", func, res, change_ticks=ct)
        run(f"{fname} defaults", func, res)
        fig, ax = plt.subplots()
        run(f"{fname} positional", func, res, ax, True, {"lw": 3})
        for ct in (0, 1, "", "yes", None, [], [0], np.bool_(True), np.array(0), np.array([1, 0]), np.array([]), float("nan")):
            run(f"{fname} change_ticks={ct!r}", func, fk, change_ticks=ct)
        for pk in (
            None,
            {},
            {"lw": 2.5},
            {"linestyle": "--", "marker": "o", "alpha": 0.5, "color": "k"},
            {"label": "mine"},
            {"bogus": 1},
            [("lw", 2)],
            "lw",
            5,
            {1: 2},
        ):
            for ct in (False, True):
                run(f"{fname} plot_kwargs={pk!r} ct={ct}", func, fk, change_ticks=ct, plot_kwargs=pk)
        pk = {"lw": 1.25}
        run(f"{fname} kwargs not mutated", func, fk, plot_kwargs=pk)
        emit("  plot_kwargs after", pk)
        fig, ax = plt.subplots()
        ax.plot([0.1, 1], [0.1, 1], label="existing")
        run(f"{fname} ax given", func, fk, ax=ax, change_ticks=True)
        fig, (ax1, ax2) = plt.subplots(1, 2)
        run(f"{fname} ax2 given", func, fk, ax=ax2)
        run(f"{fname} ax bad", func, fk, ax="not axes")
        run(f"{fname} unknown kw", func, fk, bogus=1)
        run(f"{fname} every kw", func, fk, every=1)
        run(f"{fname} no args", func)
        run(f"{fname} too many", func, fk, None, False, None, 5)
        run(f"{fname} reservoir kw", func, reservoir=fk, change_ticks=True)
        t_before = np.array(fk.time, copy=True)
        run(f"{fname} time untouched", func, fk, change_ticks=True)
        emit("  time untouched", bool(np.array_equal(t_before, fk.time)))
        # log output must not appear / state of repeated calls on same axes
        fig, ax = plt.subplots()
        func(fk, ax=ax)
        run(f"{fname} repeated on same ax", func, reservoirs["ideal"], ax=ax, change_ticks=True)

    emit("== combined")
    fig, ax = plt.subplots()
    plot_recovery_factor(reservoirs["single"], ax=ax)
    run("rate after factor on same ax", plot_recovery_rate, reservoirs["single"], ax=ax)
    fig, ax = plt.subplots()
    plot_recovery_rate(reservoirs["single"], ax=ax)
    run("factor after rate on same ax", plot_recovery_factor, reservoirs["single"], ax=ax, change_ticks=True)
    fig, ax = plt.subplots()
    plot_recovery_rate(reservoirs["ideal"], ax=ax)
    run("pp after rate on same ax", plot_pseudopressure, reservoirs["ideal"], ax=ax, every=25)


def section_errstate(fakes):
    """Behaviour under a caller's non-default floating point error state."""
    emit("== errstate raise")
    fk = fakes["fake_basic"]
    with np.errstate(all="raise"):
        run("pp rescale errstate raise", plot_pseudopressure, fk, every=1, rescale=True)
        run("rate dup errstate raise", plot_recovery_rate, fakes["fake_dup_time"], change_ticks=True)
        run("factor neg errstate raise", plot_recovery_factor, fakes["fake_neg_time"], change_ticks=True)
    with warnings.catch_warnings():
        warnings.simplefilter("error")
        emit("== warnings as errors")
        try:
            plot_pseudopressure(fk, every=1, rescale=True)
            emit("pp rescale ok")
        except BaseException as exc:  # noqa: BLE001
            emit("pp rescale RAISED", type(exc).__name__)
        plt.close("all")
        try:
            plot_recovery_rate(fakes["fake_dup_time"])
            emit("rate dup ok")
        except BaseException as exc:  # noqa: BLE001
            emit("rate dup RAISED", type(exc).__name__)
        plt.close("all")
        try:
            plot_recovery_factor(fakes["fake_neg_time"], change_ticks=True)
            emit("factor neg ok")
        except BaseException as exc:  # noqa: BLE001
            emit("factor neg RAISED", type(exc).__name__)
        plt.close("all")


def main():
    outfile = sys.argv[1]
    import io
    import logging

    # anything the library prints or logs at default configuration is observable
    stream = io.StringIO()
    old_out, old_err = sys.stdout, sys.stderr
    sys.stdout = sys.stderr = stream
    try:
        reservoirs = make_reservoirs()
        fakes = make_fakes()
        section_metadata()
        section_scale()
        section_plots(reservoirs, fakes)
        section_errstate(fakes)
    finally:
        sys.stdout, sys.stderr = old_out, old_err
    emit("== captured stdout/stderr")
    emit(repr(stream.getvalue()))
    emit("root logger handlers", len(logging.getLogger().handlers))
    with open(outfile, "w") as fh:
        fh.write("\n".join(OUT) + "\n")


if __name__ == "__main__":
    main()
