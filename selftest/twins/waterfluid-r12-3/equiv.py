"""Equivalence driver for twin3: Fluid.water_FVF / Fluid.water_viscosity (new keyword-only argument unused)."""
import sys
import warnings

import numpy as np
import pandas as pd

from bluebonnet.fluids.fluid import Fluid

out = []


def fmt(v):
    if isinstance(v, (pd.Series, pd.DataFrame)):
        return f"{type(v).__name__} index={list(v.index)!r} values={fmt(v.to_numpy())}"
    if isinstance(v, np.ndarray):
        return f"ndarray{v.shape}{v.dtype}[" + ",".join(repr(x) for x in v.ravel().tolist()) + "]"
    return f"{type(v).__name__}:{v!r}"


def record(label, func, *args, **kwargs):
    with warnings.catch_warnings(record=True) as caught:
        warnings.simplefilter("always")
        try:
            res = fmt(func(*args, **kwargs))
        except Exception as e:  # noqa: BLE001
            res = f"EXC {type(e).__name__}: {e}"
    warn = sorted(f"{w.category.__name__}:{w.message}" for w in caught)  # with multiplicity
    out.append(f"{label} -> {res} | warnings={warn}")


fluids = {
    "base": Fluid(200.0, 35.0, 0.8, 650.0),
    "hot_salty": Fluid(400, 35, 0.65, 0, salinity=15.0, water_saturation_initial=0.2),
    "brine": Fluid(150.0, 18.0, 0.9, 300.0, 26.0),
    "np_scalars": Fluid(np.float64(180.0), np.float64(30.0), np.float64(0.75), np.float64(500.0),
                        np.float64(3.5)),
    "zero_T": Fluid(0.0, 35.0, 0.8, 650.0, 2.0),
    "zero_T_int": Fluid(0, 35.0, 0.8, 650.0, 2.0),
    "neg_T": Fluid(-40.0, 35.0, 0.8, 650.0, 2.0),
    "none_T": Fluid(None, 35.0, 0.8, 650.0),
    "str_T": Fluid("200", 35.0, 0.8, 650.0),
    "array_T": Fluid(np.array([100.0, 200.0]), 35.0, 0.8, 650.0, 1.0),
    "nan_T": Fluid(float("nan"), 35.0, 0.8, 650.0),
    "none_salinity": Fluid(200.0, 35.0, 0.8, 650.0, None),
}
pressures = {
    "arr": np.array([14.7, 100.0, 1000.0, 3000.0, 8000.0, 13990.0]),
    "arr_int": np.array([100, 2000, 5000]),
    "list": [50.0, 500.0, 5000.0],
    "list_int": [100, 2000],
    "tuple": (1500.0, 2500.0),
    "empty": np.array([]),
    "empty_list": [],
    "two_d": np.array([[100.0, 2000.0], [3000.0, 9000.0]]),
    "series": pd.Series([500.0, 4000.0], index=["b", "a"]),
    "series_dup": pd.Series([500.0, 4000.0, 600.0], index=[3, 3, 0]),
    "scalar": 3000.0,
    "scalar_int": 3000,
    "np_scalar": np.float64(3000.0),
    "zero_d": np.array(3000.0),
    "none": None,
    "string": "abc",
    "with_nan": np.array([1000.0, np.nan, np.inf]),
    "negative": np.array([-100.0, 0.0, 100.0]),
    "huge": np.array([1e200, 1e308]),
    "linspace": np.linspace(20.0, 12000.0, 41),
}
for fname, fluid in fluids.items():
    for pname, p in pressures.items():
        record(f"{fname}.water_FVF({pname})", fluid.water_FVF, p)
        record(f"{fname}.water_viscosity({pname})", fluid.water_viscosity, p)
    record(f"{fname}.water_FVF(kw)", fluid.water_FVF, pressure=pressures["arr"])
    record(f"{fname}.water_viscosity(kw)", fluid.water_viscosity, pressure=pressures["arr"])
    record(f"{fname}.repr", repr, fluid)

base = fluids["base"]
# wrong call shapes keep failing the same way
record("water_FVF()", base.water_FVF)
record("water_viscosity()", base.water_viscosity)
record("water_FVF(p, 100.0)", base.water_FVF, pressures["arr"], 100.0)
record("water_viscosity(p, 100.0)", base.water_viscosity, pressures["arr"], 100.0)
record("water_FVF(p, p, p)", base.water_FVF, 1.0, 2.0, 3.0)
record("water_FVF(bogus=1)", base.water_FVF, pressures["arr"], bogus=1)
record("water_viscosity(salinity=1)", base.water_viscosity, pressures["arr"], salinity=1)
record("Fluid.water_FVF(unbound)", Fluid.water_FVF, base, pressures["arr"])
record("Fluid.water_viscosity(unbound)", Fluid.water_viscosity, base, pressures["arr"])
# mutation after construction is honoured
m = Fluid(200.0, 35.0, 0.8, 650.0, 1.0)
record("mut.before.FVF", m.water_FVF, pressures["arr"])
record("mut.before.visc", m.water_viscosity, pressures["arr"])
m.temperature = 300.0
m.salinity = 10.0
record("mut.after.FVF", m.water_FVF, pressures["arr"])
record("mut.after.visc", m.water_viscosity, pressures["arr"])
m.temperature = None
record("mut.none.FVF", m.water_FVF, pressures["arr"])
record("mut.none.visc", m.water_viscosity, pressures["arr"])

with open(sys.argv[1], "w") as fh:
    fh.write("\n".join(out) + "\n")
