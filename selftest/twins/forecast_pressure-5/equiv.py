"""Equivalence probe for bluebonnet.forecast.forecast_pressure.

Usage: PYTHONPATH=<tree>/src /venv/bin/python equiv.py <outfile>

Calls _obj_function, fit_production_pressure and plot_production_comparison on a
broad set of inputs (both sides of every branch, edge cases, failing inputs) and
writes every result (floats rounded to 11 significant digits) or the exception
type to <outfile>.
"""

from __future__ import annotations

import os
import sys
import warnings

import matplotlib

matplotlib.use("Agg")
import matplotlib.pyplot as plt
import numpy as np
import pandas as pd
from lmfit import Parameters

from bluebonnet.flow import FlowProperties, SinglePhaseReservoir
from bluebonnet.forecast import fit_production_pressure, plot_production_comparison
from bluebonnet.forecast import forecast_pressure as fp

warnings.simplefilter("ignore")
DATA = os.environ.get("BB_DATA", "/tmp/twin_forecast_pressure/tests/data")
OUT: list[str] = []


def fmt(x):
    """Format anything reproducibly, floats to 11 significant digits."""
    if x is None or isinstance(x, (str, bool)):
        return repr(x)
    if isinstance(x, (tuple, list)):
        return "[" + ", ".join(fmt(v) for v in x) + "]"
    if isinstance(x, dict):
        return "{" + ", ".join(f"{k}: {fmt(v)}" for k, v in x.items()) + "}"
    if isinstance(x, (pd.Series, pd.Index)):
        x = np.asarray(x)
    if isinstance(x, np.ndarray):
        flat = x.ravel()
        return f"array{x.shape}<{x.dtype}>[" + ", ".join(fmt(v) for v in flat) + "]"
    if isinstance(x, (int, np.integer)):
        return repr(int(x))
    if isinstance(x, (float, np.floating)):
        return f"{float(x):.10e}"
    return type(x).__name__ + ":" + str(x)


def record(label, func):
    try:
        val = func()
        OUT.append(f"{label} = {fmt(val)}")
    except Exception as e:  # noqa: BLE001
        OUT.append(f"{label} raised {type(e).__name__}")
    finally:
        plt.close("all")


def make_prod(pvt_table, nt=90, tau_in=180.0, pi=5000.0, pf=500.0, nx=30, dirty=False):
    time_scaled = np.linspace(0, np.sqrt(1.5), nt) ** 2
    pressure_v_time = np.full(nt, pf)
    pressure_v_time[nt // 4 : nt // 2] /= 2.0
    pressure_v_time[nt // 2 :] /= 4.0
    # a bit of deterministic "noise" so that boxcar filtering matters
    pressure_v_time = pressure_v_time * (1.0 + 0.05 * np.sin(np.arange(nt) * 1.3))
    flow_props = FlowProperties(pvt_table, pi)
    reservoir = SinglePhaseReservoir(nx, pf, pi, flow_props)
    reservoir.simulate(time_scaled, pressure_v_time)
    rf = reservoir.recovery_factor()
    rate = np.diff(rf, prepend=0.0) * 1000.0
    rate[0] = 3.0
    prod = pd.DataFrame(
        {
            "Days": time_scaled * tau_in,
            "Gas": rate,
            "Pressure": pressure_v_time,
            "Extra": np.arange(nt),
        }
    )
    if dirty:
        prod.loc[[5, 17, 18, 40], "Gas"] = 0.0
        prod.loc[[7, 40, 66], "Pressure"] = np.nan
        prod.loc[[9], "Gas"] = -1.0
        prod.loc[[11], "Gas"] = np.nan
    return prod


def fit_summary(result):
    return {
        "tau": result.params["tau"].value,
        "M": result.params["M"].value,
        "p_initial": result.params["p_initial"].value,
        "tau_min": result.params["tau"].min,
        "tau_max": result.params["tau"].max,
        "M_min": result.params["M"].min,
        "M_max": result.params["M"].max,
        "p_min": result.params["p_initial"].min,
        "p_max": result.params["p_initial"].max,
        "init": [result.init_values[k] for k in ("tau", "M", "p_initial")],
        "names": list(result.params.keys()),
        "nfev": result.nfev,
        "ndata": result.ndata,
        "chisqr": result.chisqr,
        "residual": np.asarray(result.residual),
        "method": result.method,
        "type": type(result).__name__,
    }


def plot_summary(ret):
    fig, axes = ret
    out = {
        "ret_types": [type(ret).__name__, type(axes).__name__, len(axes)],
        "size": np.asarray(fig.get_size_inches()),
        "naxes": len(fig.axes),
        "same_axes": [a is b for a, b in zip(axes, fig.axes)],
    }
    for i, ax in enumerate(axes):
        lines = ax.get_lines()
        out[f"ax{i}"] = {
            "nlines": len(lines),
            "lines": [
                {
                    "x": np.asarray(ln.get_xdata(), dtype=float),
                    "y": np.asarray(ln.get_ydata(), dtype=float),
                    "label": ln.get_label(),
                    "ls": ln.get_linestyle(),
                    "color": ln.get_color(),
                }
                for ln in lines
            ],
            "legend": [t.get_text() for t in ax.get_legend().get_texts()],
            "xlabel": ax.get_xlabel(),
            "ylabel": ax.get_ylabel(),
            "xscale": ax.get_xscale(),
            "yscale": ax.get_yscale(),
            "xlim": np.asarray(ax.get_xlim()),
            "ylim": np.asarray(ax.get_ylim()),
            "title": ax.get_title(),
        }
    return out


def make_params(M=1300.0, tau=420.0, p_initial=5000.0, bounded=False):
    params = Parameters()
    if bounded:
        params.add("tau", value=tau, min=30.0, max=5000.0)
        params.add("M", value=M, min=10.0, max=1e5)
        params.add("p_initial", value=p_initial, min=600.0, max=9000.0)
    else:
        params.add("M", M)
        params.add("tau", tau)
        params.add("p_initial", p_initial)
    return params


def main(outfile):
    pvt = pd.read_csv(os.path.join(DATA, "pvt_gas_HAYNESVILLE SHALE_20.csv"))
    pvt2 = pd.read_csv(os.path.join(DATA, "pvt_gas.csv"))
    prod = make_prod(pvt)
    dirty = make_prod(pvt, dirty=True)
    short = make_prod(pvt, nt=12)

    # ---------------- _obj_function -----------------
    days = np.arange(len(prod))
    cum = np.cumsum(np.array(prod["Gas"]))
    pff = np.array(prod["Pressure"])
    for M, tau, p_i in [
        (1300.0, 420.0, 5000.0),
        (900.0, 35.0, 4000.0),
        (2.5e4, 3000.0, 12000.0),
        (1.0, 1e6, 600.0),
        (1300.0, 420.0, 526.0),  # p_initial below some fracface pressures
    ]:
        record(
            f"obj M={M} tau={tau} p={p_i}",
            lambda M=M, tau=tau, p_i=p_i: fp._obj_function(
                make_params(M, tau, p_i), days, cum, pvt, pff
            ),
        )
    record(
        "obj series days",
        lambda: fp._obj_function(make_params(), pd.Series(days, dtype=float), cum, pvt, pff),
    )
    record("obj float days", lambda: fp._obj_function(make_params(), days * 1.5, cum, pvt, pff))
    record("obj other pvt", lambda: fp._obj_function(make_params(), days, cum, pvt2, pff))
    record(
        "obj scalar production", lambda: fp._obj_function(make_params(), days, 7.25, pvt, pff)
    )
    record("obj tau zero", lambda: fp._obj_function(make_params(tau=0.0), days, cum, pvt, pff))
    record(
        "obj negative tau", lambda: fp._obj_function(make_params(tau=-5.0), days, cum, pvt, pff)
    )
    record(
        "obj p_initial out of table",
        lambda: fp._obj_function(make_params(p_initial=1e6), days, cum, pvt, pff),
    )
    record(
        "obj wrong pressure length",
        lambda: fp._obj_function(make_params(), days, cum, pvt, pff[:-3]),
    )
    record(
        "obj wrong production length",
        lambda: fp._obj_function(make_params(), days, cum[:-3], pvt, pff),
    )
    record("obj pressure None", lambda: fp._obj_function(make_params(), days, cum, pvt, None))
    record(
        "obj pressure with nan",
        lambda: fp._obj_function(
            make_params(), days, cum, pvt, np.where(np.arange(len(pff)) == 4, np.nan, pff)
        ),
    )
    record(
        "obj pressure above p_initial",
        lambda: fp._obj_function(make_params(), days, cum, pvt, pff * 30.0),
    )

    def missing(name):
        p = Parameters()
        for k in ("M", "tau", "p_initial"):
            if k != name:
                p.add(k, 1000.0)
        return p

    for name in ("M", "tau", "p_initial"):
        record(
            f"obj missing {name}",
            lambda name=name: fp._obj_function(missing(name), days, cum, pvt, pff),
        )
    record("obj params dict", lambda: fp._obj_function({"tau": 1.0}, days, cum, pvt, pff))
    record("obj bad pvt", lambda: fp._obj_function(make_params(), days, cum, pvt[["pressure"]], pff))
    record("obj empty", lambda: fp._obj_function(make_params(), days[:0], cum[:0], pvt, pff[:0]))
    record("obj one", lambda: fp._obj_function(make_params(), days[:1], cum[:1], pvt, pff[:1]))
    record("obj two", lambda: fp._obj_function(make_params(), days[:2], cum[:2], pvt, pff[:2]))

    # ---------------- fit_production_pressure -----------------
    def fit(*args, **kwargs):
        return fit_summary(fit_production_pressure(*args, **kwargs))

    record("fit default n4", lambda: fit(prod, pvt, 5000.0, n_iter=4))
    record("fit positional", lambda: fit(prod, pvt, 5000.0, None, 15000, 100000, True, 3, None))
    record("fit positional window", lambda: fit(prod, pvt, 5200.0, 3, 14000, 50000, False, 3))
    record("fit n8", lambda: fit(prod, pvt, 4500.0, n_iter=8))
    record("fit n1", lambda: fit(prod, pvt, 4500.0, n_iter=1))
    record("fit n0", lambda: fit(prod, pvt, 4500.0, n_iter=0))
    record("fit default n_iter short", lambda: fit(short, pvt, 5000.0)["nfev"])
    for w in (1, 2, 5, 200):
        record(f"fit window {w}", lambda w=w: fit(prod, pvt, 5000.0, filter_window_size=w, n_iter=3))
    record("fit window 0", lambda: fit(prod, pvt, 5000.0, filter_window_size=0, n_iter=3))
    record("fit window float", lambda: fit(prod, pvt, 5000.0, filter_window_size=2.5, n_iter=3))
    record("fit dirty filtered", lambda: fit(dirty, pvt, 5000.0, n_iter=4))
    record(
        "fit dirty filtered window",
        lambda: fit(dirty, pvt, 5000.0, filter_window_size=4, n_iter=4),
    )
    record(
        "fit dirty unfiltered", lambda: fit(dirty, pvt, 5000.0, filter_zero_prod_days=False, n_iter=4)
    )
    record(
        "fit clean unfiltered", lambda: fit(prod, pvt, 5000.0, filter_zero_prod_days=False, n_iter=4)
    )
    zero_gas = prod.copy()
    zero_gas.loc[[3, 4, 50], "Gas"] = 0.0
    record(
        "fit zero-gas unfiltered",
        lambda: fit(zero_gas, pvt, 5000.0, filter_zero_prod_days=False, n_iter=4),
    )
    record("fit zero-gas filtered", lambda: fit(zero_gas, pvt, 5000.0, n_iter=4))
    record("fit truthy flag", lambda: fit(zero_gas, pvt, 5000.0, filter_zero_prod_days=1, n_iter=3))
    record("fit falsy flag", lambda: fit(zero_gas, pvt, 5000.0, filter_zero_prod_days=0, n_iter=3))
    record(
        "fit bounds", lambda: fit(prod, pvt, 6000.0, pressure_imax=9000.0, inplace_max=5e3, n_iter=4)
    )
    record("fit pressure_initial above imax", lambda: fit(prod, pvt, 16000.0, n_iter=3))
    record("fit pressure_initial below min", lambda: fit(prod, pvt, 100.0, n_iter=3))
    record("fit imax below max pressure", lambda: fit(prod, pvt, 5000.0, pressure_imax=300.0, n_iter=3))
    record("fit inplace_max small", lambda: fit(prod, pvt, 5000.0, inplace_max=1.0, n_iter=3))
    record("fit imax outside pvt", lambda: fit(prod, pvt, 1e5, pressure_imax=2e5, n_iter=3))
    record("fit other pvt", lambda: fit(prod, pvt2, 5000.0, n_iter=3))
    record("fit given params", lambda: fit(prod, pvt, 5000.0, n_iter=4, params=make_params()))
    record(
        "fit given bounded params",
        lambda: fit(prod, pvt, 5000.0, n_iter=5, params=make_params(bounded=True)),
    )
    record(
        "fit given params, ignored guesses",
        lambda: fit(prod, pvt, -1.0, None, -1.0, -1.0, True, 3, make_params(bounded=True)),
    )

    def refit():
        first = fit_production_pressure(prod, pvt, 5000.0, n_iter=3)
        return fit(prod, pvt, 5000.0, n_iter=3, params=first.params)

    record("fit refit", refit)

    def params_not_mutated():
        p = make_params(bounded=True)
        fit_production_pressure(prod, pvt, 5000.0, n_iter=3, params=p)
        return [p["tau"].value, p["M"].value, p["p_initial"].value]

    record("fit params not mutated", params_not_mutated)

    def input_not_mutated():
        d = dirty.copy()
        fit_production_pressure(d, pvt, 5000.0, filter_window_size=3, n_iter=2)
        return [d.equals(dirty), list(d.columns), len(d)]

    record("fit input not mutated", input_not_mutated)
    record("fit missing tau param", lambda: fit(prod, pvt, 5000.0, n_iter=3, params=missing("tau")))
    record("fit empty params", lambda: fit(prod, pvt, 5000.0, n_iter=3, params=Parameters()))
    for col in ("Days", "Gas", "Pressure"):
        for flag in (True, False):
            record(
                f"fit missing column {col} filter={flag}",
                lambda col=col, flag=flag: fit(
                    prod.drop(columns=col), pvt, 5000.0, filter_zero_prod_days=flag, n_iter=2
                ),
            )
    for n in (0, 1, 2, 3):
        for flag in (True, False):
            record(
                f"fit {n} rows filter={flag}",
                lambda n=n, flag=flag: fit(
                    prod.iloc[:n], pvt, 5000.0, filter_zero_prod_days=flag, n_iter=2
                ),
            )
    allzero = prod.copy()
    allzero["Gas"] = 0.0
    record("fit all zero gas filtered", lambda: fit(allzero, pvt, 5000.0, n_iter=2))
    record(
        "fit all zero gas unfiltered",
        lambda: fit(allzero, pvt, 5000.0, filter_zero_prod_days=False, n_iter=2),
    )
    allnan = prod.copy()
    allnan["Pressure"] = np.nan
    record("fit all nan pressure filtered", lambda: fit(allnan, pvt, 5000.0, n_iter=2))
    record(
        "fit all nan pressure unfiltered",
        lambda: fit(allnan, pvt, 5000.0, filter_zero_prod_days=False, n_iter=2),
    )
    reindexed = dirty.copy()
    reindexed.index = np.arange(len(dirty))[::-1] * 3 + 100
    record("fit reindexed", lambda: fit(reindexed, pvt, 5000.0, n_iter=3))
    dup_index = dirty.copy()
    dup_index.index = np.arange(len(dirty)) // 2
    record("fit duplicate index", lambda: fit(dup_index, pvt, 5000.0, n_iter=3))
    as_dict = {k: np.array(prod[k]) for k in ("Days", "Gas", "Pressure")}
    record("fit dict filtered", lambda: fit(as_dict, pvt, 5000.0, n_iter=2))
    record("fit dict unfiltered", lambda: fit(as_dict, pvt, 5000.0, filter_zero_prod_days=False, n_iter=2))
    record("fit None data", lambda: fit(None, pvt, 5000.0, n_iter=2))
    record("fit int data", lambda: fit(prod.astype({"Gas": int}), pvt, 5000.0, n_iter=3))
    record("fit string pressure", lambda: fit(prod.astype({"Pressure": str}), pvt, 5000.0, n_iter=2))
    record("fit bad pvt", lambda: fit(prod, pvt[["pressure"]], 5000.0, n_iter=2))
    record("fit None pvt", lambda: fit(prod, None, 5000.0, n_iter=2))
    record("fit n_iter None", lambda: fit(short, pvt, 5000.0, n_iter=None)["nfev"])
    record("fit pressure_initial None", lambda: fit(prod, pvt, None, n_iter=2))
    record("fit pressure_initial str", lambda: fit(prod, pvt, "a", n_iter=2))
    record("fit bad kwarg", lambda: fit(prod, pvt, 5000.0, n_iters=2))

    # ---------------- plot_production_comparison -----------------
    def plot(*args, **kwargs):
        return plot_summary(plot_production_comparison(*args, **kwargs))

    record("plot default", lambda: plot(prod, pvt, make_params()))
    record("plot like test", lambda: plot(prod, pvt, make_params(), filter_window_size=1, filter_zero_prod_days=True))
    record("plot positional", lambda: plot(prod, pvt, make_params(900.0, 77.0, 6100.0), 3, False, "Foo #1"))
    record("plot well name", lambda: plot(prod, pvt, make_params(), well_name="My Well 7H"))
    record("plot well name underscore", lambda: plot(prod, pvt, make_params(), well_name="_hidden"))
    for w in (1, 2, 7, 500):
        for flag in (True, False):
            record(
                f"plot window {w} filter={flag}",
                lambda w=w, flag=flag: plot(
                    prod, pvt, make_params(), filter_window_size=w, filter_zero_prod_days=flag
                ),
            )
    record("plot window 0", lambda: plot(prod, pvt, make_params(), filter_window_size=0))
    record("plot dirty filtered", lambda: plot(dirty, pvt, make_params()))
    record("plot dirty filtered window", lambda: plot(dirty, pvt, make_params(), filter_window_size=3))
    record("plot dirty unfiltered", lambda: plot(dirty, pvt, make_params(), filter_zero_prod_days=False))
    record("plot zero-gas unfiltered", lambda: plot(zero_gas, pvt, make_params(), filter_zero_prod_days=False))
    record("plot zero-gas filtered", lambda: plot(zero_gas, pvt, make_params(), filter_zero_prod_days=True))
    record("plot truthy flag", lambda: plot(zero_gas, pvt, make_params(), filter_zero_prod_days="yes"))
    record("plot falsy flag", lambda: plot(zero_gas, pvt, make_params(), filter_zero_prod_days=None))
    for M, tau, p_i in [
        (1.0, 1.0, 5000.0),
        (1234567.0, 0.012345, 7000.0),
        (2.5e4, 3000.0, 12000.0),
        (1300.0, 420.0, 526.0),
        (-3.0, 50.0, 5000.0),
    ]:
        for flag in (True, False):
            record(
                f"plot M={M} tau={tau} p={p_i} filter={flag}",
                lambda M=M, tau=tau, p_i=p_i, flag=flag: plot(
                    prod, pvt, make_params(M, tau, p_i), filter_zero_prod_days=flag
                ),
            )
    record("plot bounded params", lambda: plot(prod, pvt, make_params(bounded=True)))
    record("plot other pvt", lambda: plot(prod, pvt2, make_params()))
    record("plot tau zero", lambda: plot(prod, pvt, make_params(tau=0.0)))
    record("plot tau zero unfiltered", lambda: plot(prod, pvt, make_params(tau=0.0), filter_zero_prod_days=False))
    record("plot M zero", lambda: plot(prod, pvt, make_params(M=0.0)))
    record("plot negative tau", lambda: plot(prod, pvt, make_params(tau=-10.0)))
    record("plot p_initial out of table", lambda: plot(prod, pvt, make_params(p_initial=1e6)))
    for name in ("M", "tau", "p_initial"):
        record(f"plot missing {name}", lambda name=name: plot(prod, pvt, missing(name)))
    record("plot params None", lambda: plot(prod, pvt, None))

    def plot_from_fit():
        result = fit_production_pressure(prod, pvt, 5000.0, n_iter=3)
        return plot(prod, pvt, result.params)

    record("plot from fit", plot_from_fit)
    for col in ("Days", "Gas", "Pressure"):
        for flag in (True, False):
            record(
                f"plot missing column {col} filter={flag}",
                lambda col=col, flag=flag: plot(
                    prod.drop(columns=col), pvt, make_params(), filter_zero_prod_days=flag
                ),
            )
    for n in (0, 1, 2, 3):
        for flag in (True, False):
            record(
                f"plot {n} rows filter={flag}",
                lambda n=n, flag=flag: plot(
                    prod.iloc[:n], pvt, make_params(), filter_zero_prod_days=flag
                ),
            )
    record("plot all zero gas filtered", lambda: plot(allzero, pvt, make_params()))
    record("plot all nan pressure unfiltered", lambda: plot(allnan, pvt, make_params(), filter_zero_prod_days=False))
    record("plot reindexed filtered", lambda: plot(reindexed, pvt, make_params()))
    record("plot reindexed unfiltered", lambda: plot(reindexed, pvt, make_params(), filter_zero_prod_days=False))
    record("plot duplicate index", lambda: plot(dup_index, pvt, make_params()))
    unsorted = prod.iloc[::-1]
    record("plot reversed days unfiltered", lambda: plot(unsorted, pvt, make_params(), filter_zero_prod_days=False))
    record("plot dict filtered", lambda: plot(as_dict, pvt, make_params()))
    record("plot dict unfiltered", lambda: plot(as_dict, pvt, make_params(), filter_zero_prod_days=False))
    record("plot None data", lambda: plot(None, pvt, make_params()))
    record("plot bad pvt", lambda: plot(prod, pvt[["pressure"]], make_params()))
    record("plot well name int", lambda: plot(prod, pvt, make_params(), well_name=7))
    record("plot bad kwarg", lambda: plot(prod, pvt, make_params(), name="x"))

    def plot_input_not_mutated():
        d = dirty.copy()
        plot_production_comparison(d, pvt, make_params(), filter_window_size=3)
        return [d.equals(dirty), list(d.columns), len(d)]

    record("plot input not mutated", plot_input_not_mutated)

    def fignums():
        before = len(plt.get_fignums())
        plot_production_comparison(prod, pvt, make_params())
        return len(plt.get_fignums()) - before

    record("plot creates one figure", fignums)

    record("module public names", lambda: sorted(n for n in dir(fp) if not n.startswith("_")) and [
        callable(fp.fit_production_pressure), callable(fp.plot_production_comparison), callable(fp._obj_function)])

    import inspect

    for f in (fp._obj_function, fp.fit_production_pressure, fp.plot_production_comparison):
        record(f"signature {f.__name__}", lambda f=f: str(inspect.signature(f)))

    with open(outfile, "w") as fh:
        fh.write("\n".join(OUT) + "\n")


if __name__ == "__main__":
    main(sys.argv[1])
