"""Equivalence driver for twin5 (quad(args=...) instead of a closure in pseudopressure_Hussainy).

Bit-identical results are expected: floats are written with float.hex.
"""

from __future__ import annotations

import itertools
import sys
import warnings

import numpy as np

warnings.simplefilter("ignore")

from bluebonnet.fluids.gas import pseudopressure_Hussainy  # noqa: E402


def fmt(x):
    if isinstance(x, tuple):
        return "(" + ", ".join(fmt(v) for v in x) + ")"
    if isinstance(x, np.ndarray):
        return f"array{x.shape}{x.dtype}[" + ", ".join(fmt(v) for v in x.ravel()) + "]"
    if isinstance(x, (float, np.floating)):
        return f"{type(x).__name__}:{float(x).hex()}"
    return f"{type(x).__name__}:{x!r}"


def call(f, *args, **kwargs):
    try:
        return fmt(f(*args, **kwargs))
    except Exception as e:  # noqa: BLE001
        return f"EXC:{type(e).__name__}:{e}"


def main(out):
    lines = []
    temps = [60, 100.0, 250.0, 400, 400.0, np.float64(300.0), np.float32(250.0), np.array(180.0)]
    pressures = [1.0, 10, 14.7, 14.70, 15.0, 100, 104.7, 1000.0, 5000.0, 12000.0,
                 np.float64(2500.0), np.float32(1234.5), np.array(777.0)]
    pcs = [(-102.0, 649.0, 0.65), (-72.2, 653.25, 0.8), (-102, 649, 1), (-50.5, 700.0, 0.55)]
    for t, p, (tpc, ppc, sg) in itertools.product(temps, pressures, pcs):
        lines.append(
            f"m {t!r} {p!r} {tpc!r} {ppc!r} {sg!r} -> {call(pseudopressure_Hussainy, t, p, tpc, ppc, sg)}"
        )
    for p, ps in itertools.product([100.0, 2000.0, 14.65, 20.0], [14.65, 15.025, 1.0, 100, 100.0, 3000.0]):
        lines.append(f"ps {p!r} {ps!r} -> {call(pseudopressure_Hussainy, 400.0, p, -102.0, 649.0, 0.65, ps)}")
        lines.append(
            f"ps kw {p!r} {ps!r} -> "
            + call(pseudopressure_Hussainy, 400.0, p, -102.0, 649.0, 0.65, pressure_standard=ps)
        )
    lines.append(
        "kw -> "
        + call(pseudopressure_Hussainy, temperature=400.0, pressure=100.0, temperature_pseudocritical=-102.0,
               pressure_pseudocritical=649.0, specific_gravity=0.65)
    )
    bad = [
        (400.0, 0.0, -102.0, 649.0, 0.65),
        (400.0, 0, -102.0, 649.0, 0.65),
        (400.0, -100.0, -102.0, 649.0, 0.65),
        (400.0, 100.0, -102.0, 0.0, 0.65),
        (400.0, 100.0, -102.0, -649.0, 0.65),
        (400.0, 100.0, -459.67, 649.0, 0.65),
        (-459.67, 100.0, -102.0, 649.0, 0.65),
        (400.0, 100.0, -102.0, 649.0, 0.0),
        (400.0, 100.0, -102.0, 649.0, 0),
        (400.0, 100.0, -102.0, 649.0, -0.65),
        (float("nan"), 100.0, -102.0, 649.0, 0.65),
        (400.0, float("nan"), -102.0, 649.0, 0.65),
        (400.0, float("inf"), -102.0, 649.0, 0.65),
        (400.0, -float("inf"), -102.0, 649.0, 0.65),
        (400.0, 1e9, -102.0, 649.0, 0.65),
        (400.0, 1e6, -102.0, 649.0, 0.65),
        (400.0, 100.0, -102.0, 649.0, float("nan")),
        (np.array([400.0]), 100.0, -102.0, 649.0, 0.65),
        (400.0, np.array([100.0]), -102.0, 649.0, 0.65),
        (400.0, np.array([100.0, 200.0]), -102.0, 649.0, 0.65),
        (400.0, [100.0, 200.0], -102.0, 649.0, 0.65),
        (400.0, 100.0, -102.0, 649.0, np.array([0.65, 0.7])),
        (400.0, 100.0, -102.0, 649.0, (0.65,)),
        (400.0, 100.0, -102.0, 649.0, ()),
        ("400", 100.0, -102.0, 649.0, 0.65),
        (400.0, "100", -102.0, 649.0, 0.65),
        (None, 100.0, -102.0, 649.0, 0.65),
        (400.0, None, -102.0, 649.0, 0.65),
        (400.0, 100.0, None, 649.0, 0.65),
        (400.0, 100.0, -102.0, None, 0.65),
        (400.0, 100.0, -102.0, 649.0, None),
        (400.0, 100.0, -102.0, 649.0, "0.65"),
        (400 + 0j, 100.0, -102.0, 649.0, 0.65),
        (400.0, 100 + 0j, -102.0, 649.0, 0.65),
        (True, 100.0, -102.0, 649.0, 0.65),
    ]
    for args in bad:
        lines.append(f"bad {args!r} -> {call(pseudopressure_Hussainy, *args)}")
    for ps in (0.0, -5.0, float("nan"), float("inf"), None, "14.7", np.array([14.7]), np.array([1.0, 2.0])):
        lines.append(
            f"bad ps {ps!r} -> {call(pseudopressure_Hussainy, 400.0, 100.0, -102.0, 649.0, 0.65, ps)}"
        )
    lines.append(f"nargs -> {call(pseudopressure_Hussainy, 400.0, 100.0, -102.0, 649.0)}")
    lines.append(f"xargs -> {call(pseudopressure_Hussainy, 400.0, 100.0, -102.0, 649.0, 0.65, 14.7, 1)}")
    with open(out, "w") as fh:
        fh.write("\n".join(lines) + "\n")


if __name__ == "__main__":
    main(sys.argv[1])
