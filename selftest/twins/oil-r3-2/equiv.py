"""Equivalence driver for twin2 (module-level saturated-GOR helper and named Standing constants)."""

from __future__ import annotations

import sys
import warnings

import numpy as np

warnings.simplefilter("ignore")
np.seterr(all="ignore")

from bluebonnet.fluids import oil  # noqa: E402
from bluebonnet.fluids.fluid import Fluid  # noqa: E402


def fmt(x):
    if isinstance(x, np.ndarray):
        return f"ndarray{x.shape}{x.dtype}[" + ",".join(fmt(v) for v in x.ravel().tolist()) + "]"
    if isinstance(x, (list, tuple)):
        return type(x).__name__ + "[" + ",".join(fmt(v) for v in x) + "]"
    if isinstance(x, (float, np.floating)):
        return type(x).__name__ + ":" + repr(float(x))
    if isinstance(x, complex):
        return "complex:" + repr(x)
    return type(x).__name__ + ":" + repr(x)


LINES = []


def record(label, fn, *args, **kwargs):
    try:
        out = fmt(fn(*args, **kwargs))
    except Exception as e:  # noqa: BLE001
        out = "EXC:" + type(e).__name__
    LINES.append(f"{label} -> {out}")


fluids = [
    (200.0, 35.0, 0.8, 650.0),
    (200, 35, 0.8, 650),
    (150.0, 25.0, 0.65, 300.0),
    (250.0, 45.0, 1.1, 1500.0),
    (100.0, 10.0, 0.6, 50.0),
    (300.0, 55.0, 0.9, 2500.0),
    (np.float64(180.0), np.float64(30.0), np.float64(0.75), np.float64(500.0)),
    (200.0, 35.0, 0.8, 0.0),
    (200.0, 35.0, 0.8, -650.0),
    (200.0, 35.0, -0.8, 650.0),
    (200.0, 35.0, 0.0, 650.0),
    (np.float64(200.0), np.float64(35.0), np.float64(0.0), np.float64(650.0)),
    (0.0, 0.0, 0.8, 650.0),
    (-50.0, -131.5, 0.8, 650.0),
    (float("nan"), 35.0, 0.8, 650.0),
    (float("inf"), 35.0, 0.8, 650.0),
    (200.0, "35", 0.8, 650.0),
    (None, 35.0, 0.8, 650.0),
    (np.array([150.0, 200.0]), 35.0, 0.8, 650.0),
    (200.0, 35.0, 0.8, np.array([300.0, 650.0, 900.0])),
]
scalars = [14.7, 100.0, 500, 1000.0, 2000, 2627.2017021875276, 2627.3, 3000.0, 5000, 10000.0,
           0.0, -10.0, -25.48, -30.0, np.float64(1234.5), np.float64(-100.0), float("inf"), float("nan"), True]
arrays = [
    np.linspace(14.7, 8000.0, 41),
    np.array([3000.0, 4000.0, 9000.0, 20000.0]),
    np.array([10.0, 50.0, 100.0]),
    np.array([2000, 3000, 4000]),
    np.array([1000.0], dtype=np.float32),
    np.array([]),
    np.linspace(100.0, 6000.0, 12).reshape(3, 4),
    np.geomspace(1.0, 1.0e5, 30),
    np.array([0.0, -5.0, -30.0, 100.0, 7000.0, np.nan, np.inf]),
]
odd = [[1000.0, 3000.0], (1000.0, 3000.0), "abc", None, 1 + 2j, np.array(2500.0), np.array(["a", "b"])]

for i, (t, api, sg, gor) in enumerate(fluids):
    record(f"pb[{i}]", oil.pressure_bubblepoint_Standing, t, api, sg, gor)
    try:
        pb = oil.pressure_bubblepoint_Standing(t, api, sg, gor)
        extra = [pb, np.nextafter(pb, 0.0), np.nextafter(pb, 1e9)] if np.ndim(pb) == 0 and not isinstance(pb, complex) else []
    except Exception:  # noqa: BLE001
        extra = []
        pb = None
    try:
        pb_is_nan = bool(np.any(np.isnan(pb)))
    except Exception:  # noqa: BLE001
        pb_is_nan = False
    for p in [*scalars, *extra]:
        record(f"gor[{i}] p={p!r}", oil.solution_gor_Standing, t, p, api, sg, gor)
        record(f"dgor[{i}] p={p!r}", oil.dgor_dpressure_Standing, t, p, api, sg, gor)
        record(f"b_o[{i}] p={p!r}", oil.b_o_Standing, t, p, api, sg, gor)
        record(f"rho[{i}] p={p!r}", oil.density_Standing, t, p, api, sg, gor)
        record(f"mu[{i}] p={p!r}", oil.viscosity_beggs_robinson, t, p, api, sg, gor)
        record(f"co_sp[{i}] p={p!r}", oil.oil_compressibility_undersat_Spivey, t, p, api, sg, gor)
        record(f"co_st[{i}] p={p!r}", oil.oil_compressibility_undersat_Standing, t, p, api, sg, gor)
        record(f"co[{i}] p={p!r}", oil.oil_compressibility_Standing, t, p, api, sg, gor, -72.2, 653.0)
    for j, a in enumerate(arrays):
        before = a.copy()
        record(f"gor[{i}] arr{j}", oil.solution_gor_Standing, t, a, api, sg, gor)
        if not np.isnan(a).any() and not pb_is_nan:  # b_o leaves NaN slots uninitialised (np.empty_like)
            record(f"b_o[{i}] arr{j}", oil.b_o_Standing, t, a, api, sg, gor)
            record(f"rho[{i}] arr{j}", oil.density_Standing, t, a, api, sg, gor)
        LINES.append(f"input arr{j} unchanged: {np.array_equal(before, a, equal_nan=True)}")
    for j, o in enumerate(odd):
        record(f"gor[{i}] odd{j}", oil.solution_gor_Standing, t, o, api, sg, gor)
    try:
        f = Fluid(t, api, sg, gor)
    except Exception as e:  # noqa: BLE001
        LINES.append(f"Fluid[{i}] EXC:{type(e).__name__}")
        continue
    record(f"Fluid.pb[{i}]", f.pressure_bubblepoint)
    record(f"Fluid.oil_FVF[{i}] arr", f.oil_FVF, np.linspace(20.0, 9000.0, 25))
    record(f"Fluid.oil_viscosity[{i}] arr", f.oil_viscosity, np.linspace(20.0, 9000.0, 25))

record("pb missing arg", oil.pressure_bubblepoint_Standing, 200.0, 35.0, 0.8)
record("gor kw", oil.solution_gor_Standing, temperature=200.0, pressure=np.array([1000.0, 4000.0]), api_gravity=35.0, gas_specific_gravity=0.8, solution_gor_initial=650.0)
record("gor dtype", lambda: oil.solution_gor_Standing(200.0, np.array([1000, 4000]), 35.0, 0.8, 650).dtype.name)
record("gor scalar above returns same object type", lambda: type(oil.solution_gor_Standing(200.0, 4000.0, 35.0, 0.8, 650)).__name__)

with open(sys.argv[1], "w") as fh:
    fh.write("\n".join(LINES) + "\n")
