"""Equivalence probe for bluebonnet.forecast.forecast_pressure.

Usage: PYTHONPATH=<tree>/src /venv/bin/python equiv.py <outfile>
"""

from __future__ import annotations

import os
import sys
import warnings

if os.environ.get("PYTHONHASHSEED") != "0":  # set iteration order shows up in one error message
    os.environ["PYTHONHASHSEED"] = "0"
    os.execv(sys.executable, [sys.executable, *sys.argv])

os.environ.setdefault("MPLBACKEND", "Agg")
warnings.filterwarnings("ignore")

import matplotlib

matplotlib.use("Agg")
import matplotlib.pyplot as plt
import numpy as np
import pandas as pd
from lmfit import Parameters

from bluebonnet.forecast import fit_production_pressure, plot_production_comparison
from bluebonnet.forecast import forecast_pressure as fp_mod

DIRECT_OBJ = False  # call the private objective directly (only if its signature is untouched)

DATA = os.environ.get("BB_DATA", "/tmp/twin11_forecast_pressure/tests/data")
PVT = pd.read_csv(os.path.join(DATA, "pvt_gas_HAYNESVILLE SHALE_20.csv"))
OUT = []


def fmt(x):
    if isinstance(x, (float, np.floating)):
        return repr(float(x))
    if isinstance(x, (int, np.integer, bool, np.bool_, str)) or x is None:
        return repr(x)
    if isinstance(x, pd.Series):
        return "Series[" + fmt(x.to_numpy()) + "]"
    if isinstance(x, np.ndarray):
        return (
            f"array({x.dtype},{x.shape})["
            + ",".join(fmt(v) for v in x.ravel().tolist())
            + "]"
        )
    if isinstance(x, (tuple, list)):
        return "(" + ",".join(fmt(v) for v in x) + ")"
    return repr(x)


def record(label, func):
    try:
        val = func()
    except Exception as e:  # noqa: BLE001
        OUT.append(f"{label} -> EXC {type(e).__name__}: {str(e)[:70]!r}")
    else:
        OUT.append(f"{label} -> {val}")
    finally:
        plt.close("all")


def make_prod(n, kind="plain", seed=0):
    rng = np.random.default_rng(seed)
    days = np.arange(n, dtype=float)
    gas = rng.uniform(5.0, 20.0, n) * np.exp(-days / 40.0)
    pressure = 2500.0 - 1500.0 * (1 - np.exp(-days / 15.0)) + rng.normal(0, 30.0, n)
    if kind == "zeros":
        gas[::5] = 0.0
        if n > 3:
            pressure[3] = np.nan
        if n > 8:
            gas[7] = -1.0
    elif kind == "nonuniform":
        days = np.cumsum(rng.uniform(0.5, 3.0, n))
    elif kind == "allzero":
        gas[:] = 0.0
    elif kind == "nanpress":
        pressure[n // 2] = np.nan
    elif kind == "flat":
        pressure[:] = 1800.0
    elif kind == "at_initial":
        pressure[:] = 5000.0
    elif kind == "intdays":
        days = np.arange(n)
    frame = pd.DataFrame({"Days": days, "Gas": gas, "Pressure": pressure, "Extra": 1.0})
    if kind == "oddindex":
        frame.index = np.arange(n)[::-1] * 3 + 10
    if kind == "strindex":
        frame.index = [f"r{i}" for i in range(n)]
    return frame


def fit_summary(result):
    bits = []
    for name in result.params:
        p = result.params[name]
        bits.append(f"{name}:v={fmt(p.value)},min={fmt(p.min)},max={fmt(p.max)},vary={p.vary}")
    bits.append(f"names={list(result.params)}")
    bits.append(f"nfev={result.nfev}")
    bits.append(f"chisqr={fmt(result.chisqr)}")
    bits.append(f"ndata={result.ndata}")
    bits.append(f"method={result.method}")
    bits.append(f"residual={fmt(np.asarray(result.residual))}")
    bits.append(f"init_vals={fmt(list(result.init_vals))}")
    return " | ".join(bits)


def plot_summary(ret):
    fig, (ax1, ax2) = ret
    bits = [f"size={fmt(tuple(fig.get_size_inches()))}", f"naxes={len(fig.axes)}"]
    for k, ax in enumerate((ax1, ax2)):
        bits.append(
            f"ax{k}:xl={ax.get_xlabel()!r},yl={ax.get_ylabel()!r},xs={ax.get_xscale()},"
            f"ys={ax.get_yscale()},xlim={fmt(ax.get_xlim())},ylim={fmt(ax.get_ylim())},"
            f"title={ax.get_title()!r}"
        )
        for line in ax.get_lines():
            bits.append(
                f"line:label={line.get_label()!r},ls={line.get_linestyle()},"
                f"x={fmt(np.asarray(line.get_xdata()))},y={fmt(np.asarray(line.get_ydata()))}"
            )
        leg = ax.get_legend()
        bits.append(
            "legend=" + (repr([t.get_text() for t in leg.get_texts()]) if leg else "None")
        )
    return " | ".join(bits)


def given_params(tau=35.0, m=400.0, p_i=5000.0, extra=False, bounded=False):
    params = Parameters()
    if bounded:
        params.add("M", value=m, min=10.0, max=1e5)
        params.add("tau", value=tau, min=5.0, max=500.0)
        params.add("p_initial", value=p_i, min=2600.0, max=9000.0)
    else:
        params.add("M", m)
        params.add("tau", tau)
        params.add("p_initial", p_i)
    if extra:
        params.add("unused", 3.0, vary=False)
    return params


# ---------------------------------------------------------------- fit
N_ITER = 3
for kind in ("plain", "zeros", "nonuniform", "oddindex", "intdays", "flat"):
    for n in (12, 25):
        for fz in (True, False):
            for fw in (None, 1, 3, 7):
                prod = make_prod(n, kind, seed=n)
                before = prod.copy()
                record(
                    f"fit kind={kind} n={n} fz={fz} fw={fw}",
                    lambda prod=prod, fz=fz, fw=fw: fit_summary(
                        fit_production_pressure(
                            prod,
                            PVT,
                            5000.0,
                            filter_window_size=fw,
                            filter_zero_prod_days=fz,
                            n_iter=N_ITER,
                        )
                    ),
                )
                OUT.append(f"   input untouched: {before.equals(prod)}")

# params given / other options
for fz in (True, False):
    for fw in (None, 4):
        for bounded in (False, True):
            prod = make_prod(20, "zeros", seed=3)
            record(
                f"fit given-params fz={fz} fw={fw} bounded={bounded}",
                lambda prod=prod, fz=fz, fw=fw, bounded=bounded: fit_summary(
                    fit_production_pressure(
                        prod,
                        PVT,
                        4000.0,
                        filter_window_size=fw,
                        filter_zero_prod_days=fz,
                        n_iter=N_ITER,
                        params=given_params(extra=True, bounded=bounded),
                    )
                ),
            )

# positional call, option values for the bounds
prod = make_prod(15, "plain", seed=5)
record(
    "fit positional",
    lambda: fit_summary(
        fit_production_pressure(prod, PVT, 6000.0, 3, 9000.0, 5000.0, False, 2, None)
    ),
)
for p_init, p_imax, inplace_max in (
    (5000.0, 15000, 100000),
    (3000.0, 8000.0, 1e4),
    (1000.0, 15000, 100000),  # initial guess below max fracface pressure
    (5000.0, 2000.0, 100000),  # max below min
    (5000.0, 15000, 1.0),  # in-place max below the cumulative production
    (20000.0, 30000.0, 100000),  # beyond pvt table
    (2600.0, 2600.0, 100000),
):
    record(
        f"fit bounds p_init={p_init} p_imax={p_imax} inplace_max={inplace_max}",
        lambda p_init=p_init, p_imax=p_imax, inplace_max=inplace_max: fit_summary(
            fit_production_pressure(
                make_prod(18, "plain", seed=7),
                PVT,
                p_init,
                pressure_imax=p_imax,
                inplace_max=inplace_max,
                n_iter=2,
            )
        ),
    )

# frac-face pressure equal to the initial pressure
record(
    "fit at_initial",
    lambda: fit_summary(
        fit_production_pressure(make_prod(18, "at_initial", seed=7), PVT, 5000.0, n_iter=2)
    ),
)
# long enough record so that tau bounds are regular
for fz in (True, False):
    record(
        f"fit long fz={fz}",
        lambda fz=fz: fit_summary(
            fit_production_pressure(
                make_prod(60, "zeros", seed=11),
                PVT,
                5000.0,
                filter_window_size=5,
                filter_zero_prod_days=fz,
                n_iter=4,
            )
        ),
    )

# edge cases and error behaviour
for n in (0, 1, 2, 3):
    for fz in (True, False):
        for fw in (None, 2):
            record(
                f"fit short n={n} fz={fz} fw={fw}",
                lambda n=n, fz=fz, fw=fw: fit_summary(
                    fit_production_pressure(
                        make_prod(n, "plain", seed=1),
                        PVT,
                        5000.0,
                        filter_window_size=fw,
                        filter_zero_prod_days=fz,
                        n_iter=2,
                    )
                ),
            )
    record(
        f"fit short given-params n={n}",
        lambda n=n: fit_summary(
            fit_production_pressure(
                make_prod(n, "plain", seed=1), PVT, 5000.0, n_iter=2, params=given_params()
            )
        ),
    )
for kind in ("allzero", "nanpress", "strindex"):
    for fz in (True, False):
        record(
            f"fit kind={kind} fz={fz}",
            lambda kind=kind, fz=fz: fit_summary(
                fit_production_pressure(
                    make_prod(16, kind, seed=2), PVT, 5000.0, filter_zero_prod_days=fz, n_iter=2
                )
            ),
        )
for drop in ("Days", "Gas", "Pressure", "Extra"):
    for fz in (True, False):
        record(
            f"fit missing column {drop} fz={fz}",
            lambda drop=drop, fz=fz: fit_summary(
                fit_production_pressure(
                    make_prod(16, "plain", seed=2).drop(columns=[drop]),
                    PVT,
                    5000.0,
                    filter_zero_prod_days=fz,
                    n_iter=2,
                )
            ),
        )
for fw in (0, -1, 2.5, "3", 100):
    for fz in (True, False):
        record(
            f"fit odd window {fw!r} fz={fz}",
            lambda fw=fw, fz=fz: fit_summary(
                fit_production_pressure(
                    make_prod(16, "zeros", seed=2),
                    PVT,
                    5000.0,
                    filter_window_size=fw,
                    filter_zero_prod_days=fz,
                    n_iter=2,
                )
            ),
        )
for fz in (True, False):
    record(
        f"fit dict input fz={fz}",
        lambda fz=fz: fit_summary(
            fit_production_pressure(
                {c: make_prod(10)[c].to_numpy() for c in ("Days", "Gas", "Pressure")},
                PVT,
                5000.0,
                filter_zero_prod_days=fz,
                n_iter=2,
            )
        ),
    )
record(
    "fit object gas",
    lambda: fit_summary(
        fit_production_pressure(
            make_prod(10).assign(Gas=["a"] * 10), PVT, 5000.0, filter_zero_prod_days=False, n_iter=2
        )
    ),
)
record(
    "fit object gas window 0",
    lambda: fit_summary(
        fit_production_pressure(
            make_prod(10).assign(Gas=["a"] * 10),
            PVT,
            5000.0,
            filter_window_size=0,
            filter_zero_prod_days=False,
            n_iter=2,
        )
    ),
)
record(
    "fit params missing tau",
    lambda: fit_summary(
        fit_production_pressure(
            make_prod(10),
            PVT,
            5000.0,
            n_iter=2,
            params=(lambda p: (p.add("M", 10.0), p.add("p_initial", 5000.0), p)[-1])(Parameters()),
        )
    ),
)
record(
    "fit bad pvt",
    lambda: fit_summary(
        fit_production_pressure(make_prod(10), PVT.drop(columns=["pseudopressure"]), 5000.0, n_iter=2)
    ),
)
record(
    "fit n_iter=0",
    lambda: fit_summary(fit_production_pressure(make_prod(10), PVT, 5000.0, n_iter=0)),
)
record(
    "fit integer pressure_initial",
    lambda: fit_summary(fit_production_pressure(make_prod(40), PVT, 5000, n_iter=3)),
)

# ---------------------------------------------------------------- plot
for kind in ("plain", "zeros", "nonuniform", "oddindex", "intdays", "flat", "strindex"):
    for n in (12, 25):
        for fz in (True, False):
            for fw in (None, 1, 3):
                prod = make_prod(n, kind, seed=n)
                before = prod.copy()
                record(
                    f"plot kind={kind} n={n} fz={fz} fw={fw}",
                    lambda prod=prod, fz=fz, fw=fw: plot_summary(
                        plot_production_comparison(
                            prod,
                            PVT,
                            given_params(),
                            filter_window_size=fw,
                            filter_zero_prod_days=fz,
                        )
                    ),
                )
                OUT.append(f"   input untouched: {before.equals(prod)}")

record(
    "plot positional + name",
    lambda: plot_summary(
        plot_production_comparison(
            make_prod(14), PVT, given_params(tau=12.5, m=123456.789), 2, False, "Well A-1"
        )
    ),
)
record(
    "plot default name",
    lambda: plot_summary(plot_production_comparison(make_prod(14), PVT, given_params(extra=True))),
)
for kind in ("at_initial", "allzero", "nanpress"):
    for fz in (True, False):
        record(
            f"plot kind={kind} fz={fz}",
            lambda kind=kind, fz=fz: plot_summary(
                plot_production_comparison(
                    make_prod(16, kind, seed=2), PVT, given_params(), filter_zero_prod_days=fz
                )
            ),
        )
for n in (0, 1, 2, 3):
    for fz in (True, False):
        for fw in (None, 2):
            record(
                f"plot short n={n} fz={fz} fw={fw}",
                lambda n=n, fz=fz, fw=fw: plot_summary(
                    plot_production_comparison(
                        make_prod(n, "plain", seed=1),
                        PVT,
                        given_params(),
                        filter_window_size=fw,
                        filter_zero_prod_days=fz,
                    )
                ),
            )
for drop in ("Days", "Gas", "Pressure"):
    for fz in (True, False):
        record(
            f"plot missing column {drop} fz={fz}",
            lambda drop=drop, fz=fz: plot_summary(
                plot_production_comparison(
                    make_prod(16, "plain", seed=2).drop(columns=[drop]),
                    PVT,
                    given_params(),
                    filter_zero_prod_days=fz,
                )
            ),
        )
for fw in (0, -1, 2.5, 100):
    record(
        f"plot odd window {fw!r}",
        lambda fw=fw: plot_summary(
            plot_production_comparison(
                make_prod(16, "zeros", seed=2), PVT, given_params(), filter_window_size=fw
            )
        ),
    )
for missing in ("M", "tau", "p_initial"):

    def _call(missing=missing):
        params = given_params()
        del params[missing]
        return plot_summary(plot_production_comparison(make_prod(10), PVT, params))

    record(f"plot params missing {missing}", _call)
record(
    "plot params missing M, window 0",
    lambda: plot_summary(
        plot_production_comparison(
            make_prod(10),
            PVT,
            (lambda p: (p.add("tau", 10.0), p.add("p_initial", 5000.0), p)[-1])(Parameters()),
            filter_window_size=0,
        )
    ),
)
record(
    "plot p_initial beyond pvt",
    lambda: plot_summary(
        plot_production_comparison(make_prod(10), PVT, given_params(p_i=50000.0))
    ),
)
record(
    "plot p_initial below fracface",
    lambda: plot_summary(plot_production_comparison(make_prod(10), PVT, given_params(p_i=1500.0))),
)
record(
    "plot tau zero",
    lambda: plot_summary(plot_production_comparison(make_prod(10), PVT, given_params(tau=0.0))),
)
record(
    "plot M zero",
    lambda: plot_summary(plot_production_comparison(make_prod(10), PVT, given_params(m=0.0))),
)
record(
    "plot dict params",
    lambda: plot_summary(
        plot_production_comparison(make_prod(10), PVT, {"M": 1.0, "tau": 2.0, "p_initial": 5000.0})
    ),
)
record(
    "plot bad pvt",
    lambda: plot_summary(
        plot_production_comparison(make_prod(10), PVT.drop(columns=["viscosity"]), given_params())
    ),
)
# fit result fed to the plot
def _fit_then_plot():
    prod = make_prod(30, "zeros", seed=4)
    res = fit_production_pressure(prod, PVT, 5000.0, filter_window_size=3, n_iter=3)
    return plot_summary(plot_production_comparison(prod, PVT, res.params, filter_window_size=3))


record("fit then plot", _fit_then_plot)

# ---------------------------------------------------------------- objective, directly
if DIRECT_OBJ:
    for n in (1, 2, 3, 20):
        for p_i in (5000.0, 2600.0):
            prod = make_prod(n, "plain", seed=9)
            record(
                f"obj n={n} p_i={p_i}",
                lambda prod=prod, p_i=p_i: fmt(
                    fp_mod._obj_function(
                        given_params(p_i=p_i),
                        np.arange(len(prod)),
                        np.cumsum(prod["Gas"].to_numpy()),
                        PVT,
                        prod["Pressure"].to_numpy(),
                    )
                ),
            )
    record(
        "obj length mismatch",
        lambda: fmt(
            fp_mod._obj_function(
                given_params(), np.arange(5), np.ones(5), PVT, np.full(4, 1000.0)
            )
        ),
    )
    record(
        "obj keyword call",
        lambda: fmt(
            fp_mod._obj_function(
                params=given_params(),
                days=np.arange(5),
                production=np.ones(5),
                pvt_table=PVT,
                pressure_fracface=np.full(5, 1000.0),
            )
        ),
    )

# ---------------------------------------------------------------- twin3 extras: order of bound evaluation
for n in (15, 16, 17):  # n=16 -> tau has min == max == 30
    for press in ("mixed", "strings", "numeric"):
        for given in (False, True):

            def _call(n=n, press=press, given=given):
                prod = make_prod(n, "plain", seed=2)
                if press == "mixed":
                    prod["Pressure"] = np.array([1000.0, "a"] * n, dtype=object)[:n]
                elif press == "strings":
                    prod["Pressure"] = [str(v) for v in prod["Pressure"]]
                return fit_summary(
                    fit_production_pressure(
                        prod,
                        PVT,
                        5000.0,
                        filter_zero_prod_days=False,
                        n_iter=2,
                        params=given_params() if given else None,
                    )
                )

            record(f"fit bound order n={n} press={press} given={given}", _call)
for imax, inplace in ((None, 100000), (15000, None), ("x", 100000), (np.inf, np.inf), (-np.inf, 0.0)):
    record(
        f"fit odd bound options imax={imax!r} inplace={inplace!r}",
        lambda imax=imax, inplace=inplace: fit_summary(
            fit_production_pressure(
                make_prod(40, "plain", seed=2), PVT, 5000.0, pressure_imax=imax, inplace_max=inplace, n_iter=2
            )
        ),
    )
# the caller's Parameters object is used as is (not copied, not re-bounded)
def _same_object():
    params = given_params(bounded=True)
    res = fit_production_pressure(make_prod(40, "plain", seed=2), PVT, 5000.0, n_iter=2, params=params)
    return f"{res.params is params} " + " ".join(
        f"{k}:{fmt(params[k].value)},{fmt(params[k].min)},{fmt(params[k].max)}" for k in params
    )


record("fit params identity", _same_object)

with open(sys.argv[1], "w") as fh:
    fh.write("\n".join(OUT) + "\n")
