"""Equivalence harness for bluebonnet.fluids.oil (and the Fluid facade).

usage: PYTHONPATH=<tree>/src python equiv.py <outfile>
"""
import sys
import warnings

import numpy as np
import pandas as pd

from bluebonnet.fluids import oil
from bluebonnet.fluids.fluid import Fluid

warnings.simplefilter("ignore")
SIG = None  # set to an int to round floats to that many significant digits


def fmt(x):
    if isinstance(x, pd.Series):
        return (
            "Series(index=%s, name=%r, dtype=%s, values=%s)"
            % (list(x.index), x.name, x.dtype, fmt(x.to_numpy()))
        )
    if isinstance(x, np.ndarray):
        flat = [fmt_scalar(v) for v in x.ravel(order="C").tolist()]
        return "%s(shape=%s, dtype=%s, [%s])" % (
            type(x).__name__,
            x.shape,
            x.dtype,
            ", ".join(flat),
        )
    if isinstance(x, (tuple, list)):
        return type(x).__name__ + "(" + ", ".join(fmt(v) for v in x) + ")"
    return type(x).__name__ + ":" + fmt_scalar(x)


def fmt_scalar(v):
    if isinstance(v, (float, np.floating)):
        v = float(v)
        if SIG is not None and np.isfinite(v):
            return "%.*e" % (SIG - 1, v)
        return repr(v)
    return repr(v)


def call(out, label, f, *args, **kw):
    try:
        with np.errstate(all="ignore"):
            res = f(*args, **kw)
        out.append("%s -> %s" % (label, fmt(res)))
    except Exception as e:  # noqa: BLE001
        out.append("%s -> raises %s" % (label, type(e).__name__))


UNINIT = {"b_o_Standing", "density_Standing", "Fluid.oil_FVF"}


def has_nan(p):
    """b_o_Standing leaves NaN slots of its np.empty buffer unwritten (garbage)."""
    try:
        a = np.asarray(p, dtype=float)
    except Exception:  # noqa: BLE001
        return False
    return a.ndim > 0 and bool(np.isnan(a).any())


def main(outfile, funcs):
    out = []
    param_sets = [
        (200, 35, 0.8, 650),
        (200.0, 35.0, 0.8, 650.0),
        (150.0, 42.5, 0.65, 1200.0),
        (250.0, 20.0, 1.1, 150.0),
        (100.0, 50.0, 0.7, 20.0),  # low / negative bubble point
        (200.0, 35.0, 0.8, 1.0),  # negative bubble point
        (np.float64(180.0), np.float64(30.0), np.float64(0.9), np.float64(500.0)),
        (0, 35, 0.8, 650),  # zero temperature
        (0.0, 35.0, 0.8, 650.0),
        (200.0, -131.5, 0.8, 650.0),  # division by zero in oil gravity
        (200.0, 35.0, 0.0, 650.0),  # zero gas gravity
        (200.0, 35.0, 0.8, 0.0),
        (200.0, 35.0, 0.8, -10.0),
        (float("nan"), 35.0, 0.8, 650.0),
        (200.0, 35.0, 0.8, float("inf")),
        (None, 35.0, 0.8, 650.0),
        ("200", 35.0, 0.8, 650.0),
    ]
    scalars = [
        14.7, 100, 100.0, 1000.0, 2000, 2000.0, 2627.2017021875276, 2627.2017021875280,
        2627.2017021875270, 3000, 3000.0, 8000.0, 20000.0, 0, 0.0, -5.0, -100.0,
        float("nan"), float("inf"), -float("inf"), np.float64(1500.0), np.float32(2500.0),
        np.int64(3500), np.array(1800.0), np.array(4000.0), True, None, "2000", 1 + 2j,
    ]
    rng = np.random.default_rng(12345)
    perm = rng.permutation(np.linspace(10.0, 9000.0, 37))
    arrays = [
        np.array([2000.0]),
        np.array([3000.0]),
        np.array([2000]),
        np.linspace(10.0, 9000.0, 25),
        np.linspace(3000.0, 9000.0, 7),  # all above
        np.linspace(10.0, 2000.0, 7),  # all below
        perm,
        perm[::-1],
        perm[::3],  # non-contiguous
        np.array([2000.0, 2000.0, 3000.0, 3000.0, 100.0, 2000.0]),
        np.arange(100, 6000, 700),  # int dtype
        np.arange(100, 6000, 700, dtype=np.int32),
        np.linspace(10.0, 9000.0, 9, dtype=np.float32),
        np.array([]),
        np.array([], dtype=int),
        np.array([[1000.0, 2000.0, 3000.0], [4000.0, 500.0, 6000.0]]),
        np.array([[1000.0, 2000.0], [500.0, 900.0]]),  # 2-D all below
        np.array([[3000.0]]),
        np.array([[2000.0]]),
        np.array([[3000.0, 4000.0]]),
        np.array([[3000.0], [4000.0]]),
        np.asfortranarray(np.array([[1000.0, 2000.0, 3000.0], [4000.0, 500.0, 6000.0]])),
        np.array([1000.0, np.nan, 3000.0, np.inf, -np.inf, 0.0, -50.0]),
        np.array([np.nan, np.nan]),
        np.array([0.0, 1.0e-300, 1.0e300]),
        np.array([True, False]),
        np.array([2000.0, 3000.0], dtype=object),
        np.array([1000.0 + 0j, 3000.0 + 0j]),
        [1000.0, 3000.0],
        (1000.0, 3000.0),
        [],
        pd.Series([1000.0, 3000.0, 2000.0, 5000.0]),
        pd.Series([1000.0, 3000.0, 2000.0, 5000.0], index=[3, 2, 1, 0], name="p"),
        pd.Series([1000.0, 3000.0, 2000.0, 5000.0], index=list("abcd")),
        pd.Series([3000.0, 5000.0], index=[10, 20]),
        pd.Series([], dtype=float),
        pd.Series([1000.0, 3000.0, 2000.0, 5000.0], index=[1, 1, 2, 2]),
        np.ma.masked_array([1000.0, 3000.0, 2000.0], mask=[False, True, False]),
    ]
    pressures = scalars + arrays

    no_pressure = {
        "pressure_bubblepoint_Standing",
        "b_o_bubblepoint_Standing",
        "db_o_dgor_Standing",
    }
    for name in funcs:
        if name.startswith("Fluid."):
            continue
        f = getattr(oil, name)
        for ips, ps in enumerate(param_sets):
            T, api, sg, gor = ps
            if name in no_pressure:
                call(out, "%s[ps%d]" % (name, ips), f, T, api, sg, gor)
                if name != "pressure_bubblepoint_Standing":
                    for ia, a in enumerate(arrays):
                        call(out, "%s[ps%d,gor-arr%d]" % (name, ips, ia), f, T, api, sg, a)
                continue
            for ip, p in enumerate(pressures):
                label = "%s[ps%d,p%d]" % (name, ips, ip)
                if name in UNINIT and has_nan(p):
                    continue
                if name == "oil_compressibility_Standing":
                    call(out, label, f, T, p, api, sg, gor, -72.2, 653.0)
                    if ip % 5 == 0:
                        call(out, label + "kw", f, T, p, api, sg, gor,
                             temperature_pseudocritical=-60.0, pressure_pseudocritical=640.0,
                             temperature_standard=59.0, pressure_standard=14.5)
                else:
                    call(out, label, f, T, p, api, sg, gor)
        # keyword form
        if name not in no_pressure and name != "oil_compressibility_Standing":
            call(out, name + "[kw]", f, temperature=200.0, pressure=np.array([1500.0, 3500.0]),
                 api_gravity=35.0, gas_specific_gravity=0.8, solution_gor_initial=650.0)
            call(out, name + "[missing]", f, 200.0, 1500.0, 35.0, 0.8)

    if "_mu_dead_to_live_br" in funcs or "viscosity_beggs_robinson" in funcs:
        for md in [0.5, 2.0, np.array([0.5, 2.0, 10.0]), -1.0, 0.0]:
            for g in [0.0, 100.0, 650, np.array([10.0, 400.0, 900.0]), -200.0]:
                call(out, "_mu_dead_to_live_br[%r,%r]" % (md, g), oil._mu_dead_to_live_br, md, g)

    # facade
    for ips, ps in enumerate(param_sets[:9]):
        T, api, sg, gor = ps
        try:
            fl = Fluid(T, api, sg, gor)
        except Exception as e:  # noqa: BLE001
            out.append("Fluid[ps%d] -> raises %s" % (ips, type(e).__name__))
            continue
        call(out, "Fluid[ps%d].pressure_bubblepoint" % ips, fl.pressure_bubblepoint)
        for ip, p in enumerate(pressures):
            if "Fluid.oil_FVF" in funcs and not has_nan(p):
                call(out, "Fluid[ps%d].oil_FVF[p%d]" % (ips, ip), fl.oil_FVF, p)
            if "Fluid.oil_viscosity" in funcs:
                call(out, "Fluid[ps%d].oil_viscosity[p%d]" % (ips, ip), fl.oil_viscosity, p)

    with open(outfile, "w") as fh:
        fh.write("\n".join(out) + "\n")
    print(len(out), "lines")

if __name__ == "__main__":
    main(sys.argv[1], [
        "b_o_Standing", "pressure_bubblepoint_Standing", "b_o_bubblepoint_Standing",
        "db_o_dgor_Standing", "solution_gor_Standing", "dgor_dpressure_Standing",
        "oil_compressibility_undersat_Standing", "oil_compressibility_undersat_Spivey",
        "oil_compressibility_Standing", "density_Standing", "viscosity_beggs_robinson",
        "Fluid.oil_FVF", "Fluid.oil_viscosity"])
