"""Equivalence driver for bluebonnet.flow.reservoir refactorings.

Usage: PYTHONPATH=<tree>/src /venv/bin/python equiv.py <outfile>
"""

from __future__ import annotations

import dataclasses
import inspect
import os
import sys
import warnings

import numpy as np
import pandas as pd

from bluebonnet.flow import (
    FlowProperties,
    IdealReservoir,
    MultiPhaseReservoir,
    SinglePhaseReservoir,
    TwoPhaseReservoir,
)
from bluebonnet.flow import reservoir as resmod

DATA = os.environ.get("BB_DATA", "/tmp/twin4_reservoir/tests/data")
LINES: list[str] = []


def fmt(v):
    if isinstance(v, BaseException):
        return f"EXC {type(v).__name__}"
    if isinstance(v, (tuple, list)):
        return "[" + ", ".join(fmt(x) for x in v) + "]"
    if isinstance(v, dict):
        return "{" + ", ".join(f"{k}: {fmt(x)}" for k, x in sorted(v.items())) + "}"
    if isinstance(v, np.ndarray):
        flat = " ".join(repr(float(x)) for x in v.ravel())
        return f"arr{v.shape}{v.dtype}[{flat}]"
    if isinstance(v, (float, np.floating)):
        return repr(float(v))
    return repr(v)


def emit(label, v):
    LINES.append(f"{label} = {fmt(v)}")


def attempt(label, fn, *args, **kwargs):
    """Run fn, record the result or the exception type (and cause type)."""
    with warnings.catch_warnings(record=True) as caught:
        warnings.simplefilter("always")
        try:
            out = fn(*args, **kwargs)
        except Exception as e:  # noqa: BLE001
            cause = type(e.__cause__).__name__ if e.__cause__ is not None else None
            LINES.append(f"{label} = EXC {type(e).__name__} cause={cause} msg={str(e)[:160]!r}")
            out = None
        else:
            emit(label, out)
    cats = sorted({w.category.__name__ for w in caught})
    LINES.append(f"{label} warnings = {cats}")
    return out


def state(label, res):
    for name in ("time", "pseudopressure", "recovery"):
        if hasattr(res, name):
            emit(f"{label}.{name}", np.asarray(getattr(res, name)))
        else:
            LINES.append(f"{label}.{name} = <unset>")
    LINES.append(f"{label}.vars = {sorted(vars(res))}")


def gas_fluid(p_i):
    ren = {
        "P": "pressure",
        "Z-Factor": "z-factor",
        "Cg": "compressibility",
        "Viscosity": "viscosity",
        "Density": "density",
    }
    pvt = pd.read_csv(os.path.join(DATA, "pvt_gas.csv")).rename(columns=ren)
    return FlowProperties(pvt, p_i)


def oil_fluid(p_i):
    ren = {
        "P": "pressure",
        "Z-Factor": "z-factor",
        "Co": "compressibility",
        "Oil_Viscosity": "viscosity",
        "Oil_Density": "density",
    }
    pvt = pd.read_csv(os.path.join(DATA, "pvt_oil.csv")).rename(columns=ren)
    return FlowProperties(pvt, p_i)


def times():
    return {
        "sqrt20": np.linspace(0, np.sqrt(9.0), 20) ** 2,
        "sqrt60": np.linspace(0, np.sqrt(100.0), 60) ** 2,
        "lin5": np.linspace(0.0, 1.0, 5),
        "two": np.array([0.0, 0.5]),
        "one": np.array([0.0]),
        "uneven": np.array([0.0, 1e-4, 1e-3, 0.02, 0.021, 0.5, 3.0, 3.0, 10.0]),
    }


def full_cycle(label, res, time, sim_kwargs=None):
    sim_kwargs = sim_kwargs or {}
    attempt(f"{label}.rf_before", res.recovery_factor)
    attempt(f"{label}.interp_before", res.recovery_factor_interpolator)
    attempt(f"{label}.simulate", res.simulate, time, **sim_kwargs)
    state(f"{label}.after_sim", res)
    interp = attempt(f"{label}.interp_nocache", lambda: type(res.recovery_factor_interpolator()).__name__)
    state(f"{label}.after_interp", res)
    for density in (False, True, 0, 1, None, "yes", np.bool_(True), np.array([1, 0])):
        attempt(f"{label}.rf(density={density!r})", res.recovery_factor, density=density)
    attempt(f"{label}.rf(time)", res.recovery_factor, time)
    attempt(f"{label}.rf(time, True)", res.recovery_factor, time, True)
    attempt(f"{label}.rf(time=half)", res.recovery_factor, time=time * 0.5)
    state(f"{label}.after_rf", res)

    def interp_vals():
        f = res.recovery_factor_interpolator()
        q = np.array([-1.0, 0.0, 1e-5, 0.01, 0.3, 0.5, 2.0, 50.0, 1e6])
        return f(q)

    attempt(f"{label}.interp_vals", interp_vals)
    attempt(f"{label}.fvf_scale", res.fvf_scale)
    attempt(f"{label}.alpha_scaled", res.alpha_scaled, np.linspace(0.0, 1.2, 7))
    # re-simulate: the cached recovery must be dropped
    attempt(f"{label}.resim", res.simulate, time[: max(1, len(time) // 2)], **{
        k: (v[: max(1, len(time) // 2)] if v is not None else None) for k, v in sim_kwargs.items()
    })
    state(f"{label}.after_resim", res)
    attempt(f"{label}.interp_vals2", interp_vals)
    state(f"{label}.after_interp2", res)


class StubAlpha:
    """Three-phase alpha(m, So, Sg, Sw) stand-in recording positional order."""

    def __call__(self, m, *sats):
        m = np.asarray(m, dtype=float)
        out = 1.0 + m * m
        for k, s in enumerate(sats):
            out = out + (k + 2) * 0.37 * np.asarray(s, dtype=float) ** (k + 1)
        return out


class StubFluid:
    alpha = StubAlpha()
    m_i = 1.0


def main(outfile):
    # ---- structure -------------------------------------------------------
    for cls in (IdealReservoir, SinglePhaseReservoir, TwoPhaseReservoir, MultiPhaseReservoir):
        LINES.append(f"{cls.__name__}.fields = {[(f.name, f.type, 'MISSING' if f.default is dataclasses.MISSING else repr(f.default)) for f in dataclasses.fields(cls)]}")
        for meth in ("simulate", "recovery_factor", "recovery_factor_interpolator", "alpha_scaled", "fvf_scale"):
            m = getattr(cls, meth)
            LINES.append(f"{cls.__name__}.{meth}.sig = {inspect.signature(m)} name={m.__name__} doc={(m.__doc__ or '')[:30]!r}")
        LINES.append(f"{cls.__name__}.repr = {cls(5, 10.0, 100.0)!r}")
        LINES.append(f"{cls.__name__}.eq = {cls(5, 10.0, 100.0) == cls(5, 10.0, 100.0)} {cls(5, 10.0, 100.0) == cls(6, 10.0, 100.0)}")
    attempt("ctor.missing", IdealReservoir, 5)
    attempt("ctor.kw", lambda: repr(IdealReservoir(nx=4, pressure_fracface=1.0, pressure_initial=2.0, fluid=None)))
    attempt("ctor.two.kw", lambda: repr(TwoPhaseReservoir(4, 1.0, 2.0, None, Sw_init=0.2)))
    attempt("ctor.multi.kw", lambda: repr(MultiPhaseReservoir(4, 1.0, 2.0, None, 0.5, 0.3, 0.2)))

    # ---- _build_matrix -------------------------------------------------
    for name, kt in {
        "k5": np.array([0.1, 0.2, 0.3, 0.4, 0.5]),
        "k2": np.array([2.0, 3.0]),
        "k3big": np.array([1e6, 1e-9, 7.0]),
        "kneg": np.array([-0.5, 0.25, -0.125, 0.0]),
        "knan": np.array([np.nan, 1.0, np.inf]),
        "k1": np.array([0.75]),
        "kempty": np.array([]),
        "kint": np.array([1, 2, 3]),
        "kscalar": np.float64(0.5),
        "kpyfloat": 0.5,
        "k0d": np.array(0.5),
    }.items():
        attempt(f"build_matrix.{name}", lambda kt=kt: resmod._build_matrix(kt).toarray())
        attempt(f"build_matrix.{name}.format", lambda kt=kt: resmod._build_matrix(kt).format)
        attempt(f"build_matrix.{name}.input_untouched", lambda kt=kt: kt)

    T = times()
    # ---- IdealReservoir ------------------------------------------------
    for nx in (3, 4, 12, 30):
        for pf, pi in ((100.0, 8000.0), (1000, 5000), (0.0, 3000.0)):
            for tname in ("sqrt20", "lin5", "two", "one", "uneven"):
                res = IdealReservoir(nx, pf, pi)
                full_cycle(f"ideal[{nx},{pf},{pi},{tname}]", res, T[tname])
    res = IdealReservoir(10, np.array([100.0, 200.0]), 8000.0)
    attempt("ideal.arr_pf.fvf", res.fvf_scale)
    res = IdealReservoir(10, 100.0, 0.0)
    attempt("ideal.zero_pi.fvf", res.fvf_scale)
    res = IdealReservoir(10, np.array([100.0, 200.0]), np.array([0.0, 1.0]))
    attempt("ideal.arr_zero_pi.fvf", res.fvf_scale)
    for nx in (0, 1, 2):
        res = IdealReservoir(nx, 100.0, 8000.0)
        full_cycle(f"ideal.small[{nx}]", res, T["lin5"])
    res = IdealReservoir(8, 100.0, 8000.0)
    attempt("ideal.list_time", res.simulate, [0.0, 0.1, 0.2])
    attempt("ideal.none_time", res.simulate, None)
    attempt("ideal.empty_time", res.simulate, np.array([]))
    state("ideal.after_bad", res)
    attempt("ideal.posonly_kw", res.simulate, time=T["lin5"])
    attempt("ideal.extra_kw", res.simulate, T["lin5"], pressure_fracface=None)
    attempt("ideal.noargs", res.simulate)
    attempt("ideal.rf_bad_kw", res.recovery_factor, foo=1)
    # density=True without a fluid
    res = IdealReservoir(8, 100.0, 8000.0)
    res.simulate(T["lin5"])
    attempt("ideal.nofluid.density", res.recovery_factor, density=True)
    state("ideal.nofluid.after", res)

    # ---- SinglePhase / TwoPhase ---------------------------------------
    fluids = {"gas8000": gas_fluid(8000.0), "gas5000": gas_fluid(5000.0), "oil6000": oil_fluid(6000.0)}
    for fname, fluid in fluids.items():
        for cls in (SinglePhaseReservoir, TwoPhaseReservoir):
            for nx in (3, 10, 30):
                for pf in (100.0, 1000, 2500.5):
                    for tname in ("sqrt20", "lin5", "two", "one", "uneven"):
                        res = cls(nx, pf, 8000.0, fluid)
                        full_cycle(f"{cls.__name__}[{fname},{nx},{pf},{tname}]", res, T[tname])
    fluid = fluids["gas8000"]
    # varying frac-face pressure
    for tname in ("sqrt20", "sqrt60", "uneven", "one"):
        t = T[tname]
        n = len(t)
        series = {
            "ramp": np.linspace(3000.0, 500.0, n),
            "steps": np.where(np.arange(n) % 3 == 0, 1500.0, 700.0),
            "list": list(np.linspace(2000.0, 1000.0, n)),
            "above_pi": np.linspace(9000.0, 500.0, n),
        }
        for sname, pfs in series.items():
            res = SinglePhaseReservoir(20, 1000.0, 8000.0, fluid)
            full_cycle(f"single.var[{tname},{sname}]", res, t, {"pressure_fracface": pfs})
        res = SinglePhaseReservoir(20, 1000.0, 8000.0, fluid)
        attempt(f"single.var.short[{tname}]", res.simulate, t, np.linspace(3000.0, 500.0, n + 1))
        state(f"single.var.short[{tname}].after", res)
        attempt(f"single.var.pos[{tname}]", res.simulate, t, np.linspace(3000.0, 500.0, n))
        state(f"single.var.pos[{tname}].after", res)
        attempt(f"single.var.scalar[{tname}]", res.simulate, t, 500.0)
        attempt(f"single.var.oob[{tname}]", res.simulate, t, np.full(n, 1e9))
        attempt(f"single.var.neg[{tname}]", res.simulate, t, np.full(n, -5.0))
        attempt(f"two.var[{tname}]", TwoPhaseReservoir(20, 1000.0, 8000.0, fluid).simulate, t, np.full(n, 600.0))
        attempt(f"two.var.kw[{tname}]", TwoPhaseReservoir(20, 1000.0, 8000.0, fluid).simulate, t, pressure_fracface=np.full(n, 600.0))
    for nx in (0, 1, 2):
        res = SinglePhaseReservoir(nx, 100.0, 8000.0, fluid)
        full_cycle(f"single.small[{nx}]", res, T["lin5"])
    res = SinglePhaseReservoir(8, 100.0, 8000.0, fluid)
    attempt("single.list_time", res.simulate, [0.0, 0.1, 0.2])
    state("single.list_time.after", res)
    attempt("single.series_time", res.simulate, pd.Series([0.0, 0.1, 0.4, 0.9]))
    state("single.series_time.after", res)
    attempt("single.series_time_idx", res.simulate, pd.Series([0.0, 0.1, 0.4, 0.9], index=[3, 2, 1, 0]))
    attempt("single.none_time", res.simulate, None)
    attempt("single.empty_time", res.simulate, np.array([]))
    attempt("single.noargs", res.simulate)
    attempt("single.oob_pf", SinglePhaseReservoir(8, 1e9, 8000.0, fluid).simulate, T["lin5"])
    attempt("single.nofluid", SinglePhaseReservoir(8, 100.0, 8000.0).simulate, T["lin5"])
    attempt("single.nan_time", res.simulate, np.array([0.0, np.nan, 1.0]))
    state("single.nan_time.after", res)
    attempt("single.decreasing_time", res.simulate, np.array([0.0, 1.0, 0.5, 2.0]))
    state("single.decreasing_time.after", res)

    # a fluid whose alpha raises ValueError: simulate must re-raise with its own message
    class BadAlphaFluid:
        m_i = fluid.m_i
        m_scaled_func = staticmethod(fluid.m_scaled_func)
        pvt_props = fluid.pvt_props

        @staticmethod
        def alpha(m):
            raise ValueError("boom")

    attempt("single.badalpha", SinglePhaseReservoir(8, 100.0, 8000.0, BadAlphaFluid()).simulate, T["lin5"])

    class TypeErrAlphaFluid(BadAlphaFluid):
        @staticmethod
        def alpha(m):
            raise TypeError("boom")

    attempt("single.typeerralpha", SinglePhaseReservoir(8, 100.0, 8000.0, TypeErrAlphaFluid()).simulate, T["lin5"])

    # stale recovery cache, set by hand, must be dropped by simulate
    for cls, fl in ((IdealReservoir, None), (SinglePhaseReservoir, fluid), (TwoPhaseReservoir, fluid)):
        res = cls(8, 100.0, 8000.0, fl)
        res.recovery = np.array([1.0, 2.0, 3.0])
        attempt(f"stale[{cls.__name__}].interp_no_time", res.recovery_factor_interpolator)
        res.simulate(T["lin5"])
        state(f"stale[{cls.__name__}].after", res)
        res.recovery = np.arange(5.0)
        attempt(f"stale[{cls.__name__}].interp_uses_cache", lambda res=res: res.recovery_factor_interpolator()(np.array([0.1, 0.6, 5.0])))
        del res.time
        attempt(f"stale[{cls.__name__}].rf_no_time", res.recovery_factor)
        attempt(f"stale[{cls.__name__}].rf_explicit_time_no_time_attr", res.recovery_factor, T["lin5"])
        del res.pseudopressure
        res.time = T["lin5"]
        attempt(f"stale[{cls.__name__}].rf_no_pp", res.recovery_factor)
        attempt(f"stale[{cls.__name__}].rf_no_pp_density", res.recovery_factor, density=True)

    # ---- MultiPhase ----------------------------------------------------
    res = MultiPhaseReservoir(6, 100.0, 8000.0, StubFluid(), 0.7, 0.2, 0.1)
    attempt("multi.simulate", res.simulate, T["lin5"])
    attempt("multi.simulate.noargs", res.simulate)
    state("multi.after_sim", res)
    sat = np.empty(6, dtype=[(s, np.float64) for s in ("So", "Sg", "Sw")])
    sat["So"] = np.linspace(0.2, 0.8, 6)
    sat["Sg"] = np.linspace(0.5, 0.1, 6)
    sat["Sw"] = 1.0 - sat["So"] - sat["Sg"]
    attempt("multi.alpha_scaled", res.alpha_scaled, np.linspace(0.0, 1.0, 6), sat)
    sat2 = np.empty(6, dtype=[(s, np.float64) for s in ("Sw", "So", "Sg")])
    for s in ("So", "Sg", "Sw"):
        sat2[s] = sat[s]
    attempt("multi.alpha_scaled.reordered_fields", res.alpha_scaled, np.linspace(0.0, 1.0, 6), sat2)
    attempt("multi.alpha_scaled.dict", res.alpha_scaled, np.linspace(0.0, 1.0, 6), {"Sw": 0.1, "Sg": 0.2, "So": 0.7, "extra": 9.0})
    attempt("multi.alpha_scaled.df", res.alpha_scaled, np.linspace(0.0, 1.0, 6), pd.DataFrame({"Sg": sat["Sg"], "Sw": sat["Sw"], "So": sat["So"]}))
    attempt("multi.alpha_scaled.missing", res.alpha_scaled, np.linspace(0.0, 1.0, 6), {"So": 0.7, "Sg": 0.2})
    attempt("multi.alpha_scaled.noarg", res.alpha_scaled, np.linspace(0.0, 1.0, 6))
    attempt("multi.step_saturation", lambda: res._step_saturation(sat, None, None) is NotImplementedError)
    attempt("multi.fvf", res.fvf_scale)
    attempt("multi.rf", res.recovery_factor)

    with open(outfile, "w") as f:
        f.write("\n".join(LINES) + "\n")


if __name__ == "__main__":
    main(sys.argv[1])
