"""Equivalence driver for twin5 (module-level pseudopressure: running trapezoid with np.diff/np.cumsum)."""
import os
import sys
import warnings
from fractions import Fraction

import numpy as np
import pandas as pd

warnings.simplefilter("ignore")

from bluebonnet.fluids import pseudopressure
from bluebonnet.fluids import fluid as fluid_mod

DATA = os.environ.get("BB_DATA", "/tmp/twin6_waterfluid/tests/data")


def show(x):
    if isinstance(x, pd.Series):
        return "Series[" + show(x.to_numpy()) + "|" + repr(list(x.index)) + "]"
    if isinstance(x, np.ndarray):
        return (f"{type(x).__name__}{x.shape}{x.dtype}{'C' if x.flags.c_contiguous else 'n'}"
                f"{'W' if x.flags.writeable else 'r'}{'O' if x.flags.owndata else 'v'}["
                + ",".join(show(v) for v in np.asarray(x).ravel().tolist()) + "]")
    if isinstance(x, (list, tuple)):
        return type(x).__name__ + "[" + ",".join(show(v) for v in x) + "]"
    return type(x).__name__ + ":" + repr(x)


def call(f, *a, **k):
    try:
        return show(f(*a, **k))
    except BaseException as e:  # noqa: BLE001
        return "EXC:" + type(e).__name__


rng = np.random.default_rng(77)
out = []


def case(name, p, mu, z):
    out.append(f"{name} -> {call(pseudopressure, p, mu, z)}")


# stored tables
for fname in ("pvt_gas.csv", "pvt_gas_HAYNESVILLE SHALE_20.csv", "pvt_ideal_gas.csv"):
    t = pd.read_csv(os.path.join(DATA, fname))
    cols = {c.lower(): c for c in t.columns}
    pc = cols.get("pressure") or cols.get("p")
    mc = cols.get("viscosity")
    zc = cols.get("z-factor") or cols.get("z")
    out.append(f"{fname} columns {list(t.columns)!r} -> {pc} {mc} {zc}")
    if pc and mc and zc:
        case(f"{fname} ndarray", t[pc].to_numpy(), t[mc].to_numpy(), t[zc].to_numpy())
        case(f"{fname} series", t[pc], t[mc], t[zc])
        case(f"{fname} series shuffled index", t[pc].sample(frac=1.0, random_state=3), t[mc], t[zc])
        case(f"{fname} reversed", t[pc].to_numpy()[::-1], t[mc].to_numpy()[::-1], t[zc].to_numpy()[::-1])
        case(f"{fname} mixed", t[pc].to_numpy(), t[mc], t[zc].tolist())

# synthetic vectors of many lengths / dtypes
for n in (0, 1, 2, 3, 4, 5, 17, 256, 1399, 5000):
    p = np.sort(rng.uniform(10.0, 14000.0, n))
    mu = rng.uniform(0.01, 0.05, n)
    z = rng.uniform(0.6, 1.4, n)
    case(f"rand{n}", p, mu, z)
    case(f"rand{n} unsorted", rng.permutation(p), mu, z)
    case(f"rand{n} scalar mu z", p, 0.02, 0.9)
    case(f"rand{n} f32", p.astype(np.float32), mu.astype(np.float32), z.astype(np.float32))
    case(f"rand{n} f16", p.astype(np.float16), mu.astype(np.float16), z.astype(np.float16))
    case(f"rand{n} int p", p.astype(int), mu, z)
    case(f"rand{n} int all", p.astype(int), np.ones(n, dtype=int), np.ones(n, dtype=int))
    case(f"rand{n} int32 all", p.astype(np.int32), np.ones(n, dtype=np.int8), np.ones(n, dtype=np.uint8))
    case(f"rand{n} longdouble", p.astype(np.longdouble), mu, z)
    case(f"rand{n} complex", p.astype(complex), mu, z)
    case(f"rand{n} complex z", p, mu, z + 0.1j)
    case(f"rand{n} object", p.astype(object), mu.astype(object), z.astype(object))
    case(f"rand{n} Fraction", np.array([Fraction(int(v) + 1, 3) for v in p], dtype=object), 2, 3)
    case(f"rand{n} lists", p.tolist(), mu.tolist(), z.tolist())
    case(f"rand{n} list p", p.tolist(), mu, z)
    case(f"rand{n} tuple p", tuple(p.tolist()), mu, z)
    case(f"rand{n} series", pd.Series(p), pd.Series(mu), pd.Series(z))
    case(f"rand{n} series idx", pd.Series(p, index=np.arange(n)[::-1]), pd.Series(mu), pd.Series(z))
    case(f"rand{n} series p only", pd.Series(p, index=np.arange(n) + 5), mu, z)
    case(f"rand{n} strided", np.repeat(p, 2)[::2], mu, z)
    case(f"rand{n} readonly", np.frombuffer(p.tobytes(), dtype=float), mu, z)
    case(f"rand{n} bigendian", p.astype(">f8"), mu, z)
    case(f"rand{n} masked", np.ma.masked_array(p, mask=np.zeros(n, bool)), mu, z)
    case(f"rand{n} masked some", np.ma.masked_array(p, mask=(np.arange(n) % 3 == 1)), mu, z)
    case(f"rand{n} masked mu", p, np.ma.masked_array(mu, mask=(np.arange(n) % 4 == 1)), z)
    case(f"rand{n} subclass", p.view(type("MyArr", (np.ndarray,), {})), mu, z)
    case(f"rand{n} col", p.reshape(-1, 1), mu.reshape(-1, 1), z.reshape(-1, 1))
    case(f"rand{n} row", p.reshape(1, -1), mu.reshape(1, -1), z.reshape(1, -1))
    case(f"rand{n} p vec, mu 2d", p, np.tile(mu, (3, 1)), z)
    case(f"rand{n} p col, mu row", p.reshape(-1, 1), mu.reshape(1, -1), z)
    case(f"rand{n} matrix", np.asmatrix(p), np.asmatrix(mu), np.asmatrix(z))
    case(f"rand{n} short mu", p, mu[:-1] if n else mu, z)
    case(f"rand{n} len1 mu", p, mu[:1], z)

# special values
case("zeros in mu", np.array([10.0, 20.0, 30.0]), np.array([0.01, 0.0, 0.02]), np.ones(3))
case("zero z", np.array([10.0, 20.0, 30.0]), np.array([0.01, 0.01, 0.02]), np.zeros(3))
case("nan p", np.array([10.0, np.nan, 30.0, 40.0]), 0.02, 0.9)
case("inf p", np.array([10.0, np.inf, 30.0]), 0.02, 0.9)
case("both inf", np.array([-np.inf, np.inf]), 0.02, 0.9)
case("huge", np.array([1e307, 1.5e308, 1.7e308]), 1e-3, 1e-3)
case("tiny", np.array([5e-324, 1e-323, 1e-320]), 0.5, 0.5)
case("negative", np.array([-30.0, -20.0, -10.0]), 0.02, 0.9)
case("negzero", np.array([-0.0, 0.0, -0.0]), 0.02, 0.9)
case("repeated p", np.array([10.0, 10.0, 20.0, 20.0]), 0.02, 0.9)
case("bool", np.array([True, False, True]), 0.02, 0.9)
case("str", np.array(["1", "2"]), 0.02, 0.9)
case("datetime", np.array(["2020-01-01", "2020-01-03"], dtype="datetime64[D]"), 0.02, 0.9)
case("timedelta", np.array([1, 3, 7], dtype="timedelta64[s]"), 0.5, 1.0)
case("scalar all", 3000.0, 0.02, 0.9)
case("np scalar", np.float64(3000.0), np.float64(0.02), 0.9)
case("0d", np.array(3000.0), np.array(0.02), np.array(0.9))
case("int scalar", 3000, 2, 3)
case("none p", None, 0.02, 0.9)
case("none mu", np.array([1.0, 2.0]), None, 0.9)
case("string p", "3000", 0.02, 0.9)
case("dict", {1.0: 2.0}, 0.02, 0.9)
case("range", range(10, 50, 10), 0.02, 0.9)
case("3d", np.arange(24.0).reshape(2, 3, 4) + 1, 0.02, np.full((2, 3, 4), 0.9))
case("3d vs vec", np.arange(4.0) + 1, np.full((2, 3, 4), 0.02), 0.9)
case("2d empty", np.empty((0, 3)), 0.02, 0.9)
case("2d empty last", np.empty((3, 0)), 0.02, 0.9)
case("dataframe", pd.DataFrame({"a": [1.0, 2.0, 4.0], "b": [2.0, 5.0, 9.0]}), 0.02, 0.9)
case("dataframe 1col", pd.DataFrame({"a": [1.0, 2.0, 4.0]}), 0.02, 0.9)
case("index", pd.Index([1.0, 2.0, 4.0]), 0.02, 0.9)
case("series object", pd.Series([1.0, 2.0, 4.0], dtype=object), 0.02, 0.9)
case("series nullable", pd.Series([1.0, 2.0, 4.0], dtype="Float64"), 0.02, 0.9)
case("series nullable na", pd.Series([1.0, None, 4.0], dtype="Float64"), 0.02, 0.9)
case("series int", pd.Series([1, 2, 4]), pd.Series([1, 1, 2]), pd.Series([1, 2, 1]))
case("series misaligned", pd.Series([1.0, 2.0, 4.0], index=[0, 1, 2]), pd.Series([0.1, 0.2, 0.3], index=[2, 1, 0]), 0.9)
case("series partial overlap", pd.Series([1.0, 2.0, 4.0], index=[0, 1, 2]), pd.Series([0.1, 0.2, 0.3], index=[1, 2, 3]), 0.9)

# inputs untouched / result independent of inputs
p = np.linspace(10.0, 5000.0, 12); mu = np.full(12, 0.02); z = np.full(12, 0.9)
keep = (p.copy(), mu.copy(), z.copy())
r = pseudopressure(p, mu, z)
out.append("untouched " + repr([bool(np.array_equal(a, b)) for a, b in zip((p, mu, z), keep, strict=True)]))
out.append("no alias " + repr([bool(np.shares_memory(r, a)) for a in (p, mu, z)]))
out.append("same function object " + repr(pseudopressure is fluid_mod.pseudopressure))
out.append(call(pseudopressure, pressure=p, viscosity=mu, z_factor=z))
out.append(call(pseudopressure, p, mu))
out.append(call(pseudopressure, p, mu, z, 0.0))

with open(sys.argv[1], "w") as fh:
    fh.write("\n".join(out) + "\n")
