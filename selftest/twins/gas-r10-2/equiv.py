"""Equivalence harness for bluebonnet.fluids.gas (and its callers).

Usage: PYTHONPATH=<tree>/src /venv/bin/python equiv.py <outfile>
"""

from __future__ import annotations

import itertools
import os
import sys
import warnings

import numpy as np

warnings.simplefilter("ignore")

from bluebonnet.fluids import gas  # noqa: E402
from bluebonnet.fluids import fluid as fluid_mod  # noqa: E402

BB_DATA = os.environ.get("BB_DATA", "/tmp/twin10_gas/tests/data")
LINES: list[str] = []


def fmt(x):
    if isinstance(x, tuple):
        return "(" + ", ".join(fmt(v) for v in x) + ")"
    if isinstance(x, np.ndarray):
        if x.dtype.names:
            return f"struct{x.dtype.descr!r}{x.tolist()!r}"
        return f"array[{x.dtype}]{x.shape}" + repr([fmt(v) for v in x.ravel().tolist()])
    if isinstance(x, (float, np.floating)):
        return f"{type(x).__name__}:{float(x)!r}"
    return f"{type(x).__name__}:{x!r}"


def record(label, func, *args, **kwargs):
    with warnings.catch_warnings(record=True) as caught:
        warnings.simplefilter("always")
        try:
            out = fmt(func(*args, **kwargs))
        except BaseException as exc:  # noqa: BLE001
            out = f"RAISES {type(exc).__name__}: {exc}"
    cats = sorted({w.category.__name__ for w in caught})
    LINES.append(f"{label} -> {out} warnings={cats}")


def main(extra=None):
    # ---- make_nonhydrocarbon_properties
    nonhc_sets = {
        "dry": (0.03, 0.012, 0.018),
        "wet": (0.05, 0.01, 0.04),
        "zero": (0.0, 0.0, 0.0),
        "big": (0.2, 0.15, 0.3),
        "neg_h2s": (0.01, -0.01, 0.02),
    }
    others = [("Helium", 0.01, 4.0, 226.8, 493.1), ("Argon", 0.002, 39.95, 271.6, 705.3)]
    for name, fr in nonhc_sets.items():
        record(f"make_nonhc[{name}]", gas.make_nonhydrocarbon_properties, *fr)
    record("make_nonhc[others1]", gas.make_nonhydrocarbon_properties, 0.03, 0.012, 0.018, others[0])
    record("make_nonhc[others2]", gas.make_nonhydrocarbon_properties, 0.03, 0.012, 0.018, *others)
    record("make_nonhc[bad_other]", gas.make_nonhydrocarbon_properties, 0.03, 0.012, 0.018, ("He", 1.0))
    record("make_nonhc[dict_other]", gas.make_nonhydrocarbon_properties, 0.03, 0.012, 0.018, {"a": 1})
    record("make_nonhc[str_frac]", gas.make_nonhydrocarbon_properties, "x", 0.012, 0.018)
    record("make_nonhc[none]", gas.make_nonhydrocarbon_properties, None, 0.012, 0.018)
    record("make_nonhc[missing]", gas.make_nonhydrocarbon_properties, 0.03, 0.012)
    record("make_nonhc[longname]", gas.make_nonhydrocarbon_properties, 0.0, 0.0, 0.0,
           ("A" * 30, 0.1, 1.0, 2.0, 3.0))
    record("make_nonhc[array_frac]", gas.make_nonhydrocarbon_properties, np.float32(0.03), 1, True)

    # ---- pseudocritical_point_Sutton
    for (name, fr), sg, fl in itertools.product(
        nonhc_sets.items(), (0.55, 0.65, 0.8, 1.2), ("dry gas", "wet gas")
    ):
        props = gas.make_nonhydrocarbon_properties(*fr)
        record(f"pseudocrit[{name},{sg},{fl}]", gas.pseudocritical_point_Sutton, sg, props, fl)
    props = gas.make_nonhydrocarbon_properties(0.03, 0.012, 0.018)
    props_o = gas.make_nonhydrocarbon_properties(0.03, 0.012, 0.018, *others)
    record("pseudocrit[default]", gas.pseudocritical_point_Sutton, 0.7, props)
    record("pseudocrit[others]", gas.pseudocritical_point_Sutton, 0.7, props_o, "dry gas")
    record("pseudocrit[kw]", gas.pseudocritical_point_Sutton,
           specific_gravity=0.7, non_hydrocarbon_properties=props_o, fluid="wet gas")
    for bad in ("oil", "Dry gas", "", None, 3, ("dry gas",), b"dry gas"):
        record(f"pseudocrit[bad {bad!r}]", gas.pseudocritical_point_Sutton, 0.7, props, bad)
    record("pseudocrit[bad list]", gas.pseudocritical_point_Sutton, 0.7, props, ["dry gas"])
    record("pseudocrit[bad props, bad fluid]", gas.pseudocritical_point_Sutton, 0.7, None, "x")
    record("pseudocrit[bad props]", gas.pseudocritical_point_Sutton, 0.7, None, "dry gas")
    record("pseudocrit[two rows]", gas.pseudocritical_point_Sutton, 0.7, props[:2], "dry gas")
    record("pseudocrit[sg array]", gas.pseudocritical_point_Sutton, np.array([0.6, 0.7]), props, "dry gas")
    record("pseudocrit[sg str]", gas.pseudocritical_point_Sutton, "a", props, "dry gas")
    as_dict = {k: props[k] for k in ("fraction", "molecular weight", "critical temperature", "critical pressure")}
    record("pseudocrit[dict props]", gas.pseudocritical_point_Sutton, 0.7, as_dict, "dry gas")
    record("pseudocrit[all nonhc]", gas.pseudocritical_point_Sutton, 0.7,
           gas.make_nonhydrocarbon_properties(0.5, 0.25, 0.25), "dry gas")

    # ---- DAK family and viscosity
    temps = (60.0, 150, 400.0)
    pressures = (14.7, 100.0, 1000, 5000.0, 12000.0)
    pcs = ((-102.0, 649.0), (-72.2, 653.26))
    for t, p, (tpc, ppc) in itertools.product(temps, pressures, pcs):
        tag = f"[{t},{p},{tpc},{ppc}]"
        record("z_DAK" + tag, gas.z_factor_DAK, t, p, tpc, ppc)
        record("b_DAK" + tag, gas.b_factor_DAK, t, p, tpc, ppc)
        record("b_DAK_std" + tag, gas.b_factor_DAK, t, p, tpc, ppc, 70.0, 14.65)
        record("c_DAK" + tag, gas.compressibility_DAK, t, p, tpc, ppc)
        for sg in (0.6, 0.9):
            record(f"rho_DAK{tag}{sg}", gas.density_DAK, t, p, tpc, ppc, sg)
            record(f"mu_Sutton{tag}{sg}", gas.viscosity_Sutton, t, p, tpc, ppc, sg)
    edge = [
        (400, 0.0, -102, 649),
        (400, -10.0, -102, 649),
        (400, 100, -459.67, 649),
        (-459.67, 100, -102, 649),
        (400, 100, -102, 0.0),
        (400, float("nan"), -102, 649),
        (400, float("inf"), -102, 649),
        (-300.0, 5000.0, -102, 649),
        (400, 1e6, -102, 649),
        (400, 1e-6, -102, 649),
        (400, np.array([100.0, 200.0]), -102, 649),
        (400, np.array([100.0]), -102, 649),
        (np.float64(400), np.float32(100), np.int64(-102), 649),
        (400, "a", -102, 649),
        (400, None, -102, 649),
    ]
    for i, args in enumerate(edge):
        record(f"z_DAK[edge{i}]", gas.z_factor_DAK, *args)
        record(f"b_DAK[edge{i}]", gas.b_factor_DAK, *args)
        record(f"c_DAK[edge{i}]", gas.compressibility_DAK, *args)
        record(f"rho_DAK[edge{i}]", gas.density_DAK, *args, 0.65)
        record(f"mu_Sutton[edge{i}]", gas.viscosity_Sutton, *args, 0.65)
    record("rho_DAK[sg0]", gas.density_DAK, 400, 100, -102, 649, 0.0)
    record("mu_Sutton[sg0]", gas.viscosity_Sutton, 400, 100, -102, 649, 0.0)
    record("mu_Sutton[sg neg]", gas.viscosity_Sutton, 400, 100, -102, 649, -0.5)
    record("rho_DAK[sg arr]", gas.density_DAK, 400, 100, -102, 649, np.array([0.6, 0.7]))
    record("b_DAK[kw]", gas.b_factor_DAK, temperature=400, pressure=100,
           temperature_pseudocritical=-102, pressure_pseudocritical=649,
           temperature_standard=60, pressure_standard=14.7)

    # ---- Hall-Yarbrough
    for p, t in itertools.product((14.7, 500.0, 2000.0, 8000.0), (1.2, 1.5, 2.0, 3.0)):
        record(f"z_HY[{p},{t}]", gas.z_factor_hallyarbrough, p, t)
    record("z_HY[arr1]", gas.z_factor_hallyarbrough, np.array([500.0]), 1.5)
    record("z_HY[arr2]", gas.z_factor_hallyarbrough, np.array([500.0, 600.0]), 1.5)
    record("z_HY[t0]", gas.z_factor_hallyarbrough, 500.0, 0)
    record("z_HY[t0.0]", gas.z_factor_hallyarbrough, 500.0, 0.0)
    record("z_HY[p0]", gas.z_factor_hallyarbrough, 0.0, 1.5)
    record("z_HY[nan]", gas.z_factor_hallyarbrough, float("nan"), 1.5)
    record("z_HY[str]", gas.z_factor_hallyarbrough, "a", 1.5)
    record("z_HY[npfloat]", gas.z_factor_hallyarbrough, np.float64(1500.0), np.float64(1.8))
    record("z_HY[kw]", gas.z_factor_hallyarbrough, pressure=1500.0, temperature=1.8)

    # ---- pseudopressure
    for t, p, (tpc, ppc), sg in itertools.product((150.0, 400), (14.7, 100.0, 3000.0), pcs, (0.65,)):
        record(f"m_Hussainy[{t},{p},{tpc},{ppc},{sg}]", gas.pseudopressure_Hussainy, t, p, tpc, ppc, sg)
    record("m_Hussainy[pstd]", gas.pseudopressure_Hussainy, 400, 2000.0, -102, 649, 0.65, 100.0)
    record("m_Hussainy[reverse]", gas.pseudopressure_Hussainy, 400, 5.0, -102, 649, 0.65)
    record("m_Hussainy[p0]", gas.pseudopressure_Hussainy, 400, 0.0, -102, 649, 0.65)
    record("m_Hussainy[neg]", gas.pseudopressure_Hussainy, 400, -50.0, -102, 649, 0.65)
    record("m_Hussainy[nan]", gas.pseudopressure_Hussainy, 400, float("nan"), -102, 649, 0.65)
    record("m_Hussainy[str]", gas.pseudopressure_Hussainy, 400, "a", -102, 649, 0.65)
    record("m_Hussainy[arr]", gas.pseudopressure_Hussainy, 400, np.array([100.0, 200.0]), -102, 649, 0.65)

    # ---- callers: build_pvt_gas and Fluid
    gas_values = {"N2": 0.03, "H2S": 0.012, "CO2": 0.018, "Gas Specific Gravity": 0.65,
                  "Reservoir Temperature (deg F)": 200.0}
    for dryness in ("dry gas", "wet gas", "oil"):
        def build(d=dryness):
            df = fluid_mod.build_pvt_gas(gas_values, d, 3000)
            return (tuple(df.columns), np.asarray(df.to_numpy()[::11], dtype=float))
        record(f"build_pvt_gas[{dryness}]", build)
    fl = fluid_mod.Fluid(200.0, 35.0, 0.7, 0.0)
    for meth in ("gas_FVF", "gas_viscosity"):
        record(f"Fluid.{meth}[arr]", getattr(fl, meth), np.array([500.0, 4000.0]), -80.0, 660.0)
        record(f"Fluid.{meth}[scalar]", getattr(fl, meth), 500.0, -80.0, 660.0)

    # ---- module surface
    public = sorted(n for n in dir(gas) if not n.startswith("_") and callable(getattr(gas, n))
                    and getattr(getattr(gas, n), "__module__", None) == gas.__name__)
    LINES.append(f"public functions -> {public}")
    for n in public:
        f = getattr(gas, n)
        LINES.append(f"signature {n} -> {f.__name__} {f.__qualname__} "
                     f"{f.__code__.co_varnames[:f.__code__.co_argcount]} {f.__defaults__}")
    record("getattr[missing]", getattr, gas, "no_such_name")

    if extra is not None:
        extra(record, LINES)

    with open(sys.argv[1], "w") as fh:
        fh.write("\n".join(LINES) + "\n")


def extra(record, lines):
    """Twin 2: names existing today resolve to the same objects; missing names still fail."""
    import importlib
    import subprocess

    import bluebonnet.fluids as fluids_pkg

    for name in ("Fluid", "build_pvt_gas", "pseudopressure"):
        lines.append(f"pkg.{name} is fluid.{name} -> {getattr(fluids_pkg, name) is getattr(fluid_mod, name)}")
        lines.append(f"{name} in __all__ -> {name in fluids_pkg.__all__}")
    for name in ("make_nonhydrocarbon_properties", "pseudocritical_point_Sutton", "z_factor_DAK",
                 "b_factor_DAK", "compressibility_DAK", "density_DAK", "viscosity_Sutton"):
        lines.append(f"fluid.{name} is gas.{name} -> {getattr(fluid_mod, name) is getattr(gas, name)}")
    for missing in ("no_such_name", "__path__", "__all__", "_private", "Z_factor_DAK", "__wrapped__"):
        record(f"getattr gas.{missing}", getattr, gas, missing)
        lines.append(f"hasattr gas.{missing} -> {hasattr(gas, missing)}")

    def import_missing():
        from bluebonnet.fluids.gas import no_such_function  # noqa: F401

    record("from gas import missing", import_missing)
    record("reload gas", lambda: importlib.reload(gas).__name__)
    record("m after reload", gas.pseudopressure_Hussainy, 300.0, 1500.0, -90.0, 660.0, 0.7)
    record("m repeated", gas.pseudopressure_Hussainy, 300.0, 1500.0, -90.0, 660.0, 0.7)
    record("m pstd kw", gas.pseudopressure_Hussainy, 300.0, 1500.0, -90.0, 660.0, 0.7,
           pressure_standard=500.0)
    # importing and using the module with warnings turned into errors stays silent
    code = (
        "import warnings; warnings.simplefilter('error', DeprecationWarning)\n"
        "from bluebonnet.fluids import gas, Fluid, build_pvt_gas, pseudopressure\n"
        "import bluebonnet.fluids as f\n"
        "p = gas.make_nonhydrocarbon_properties(0.03, 0.012, 0.018)\n"
        "print(repr(gas.pseudocritical_point_Sutton(0.65, p, 'dry gas')))\n"
        "print(repr(gas.pseudopressure_Hussainy(400, 100, -102, 649, 0.65)))\n"
        "print(sorted(n for n in ('Fluid', 'build_pvt_gas', 'pseudopressure') if n in f.__all__))\n"
    )
    out = subprocess.run([sys.executable, "-c", code], capture_output=True, text=True, check=False)
    lines.append(f"subprocess rc={out.returncode} stdout={out.stdout!r} stderr={out.stderr!r}")


if __name__ == "__main__":
    main(extra)
