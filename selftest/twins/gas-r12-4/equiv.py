"""Equivalence probe for twin 4 (pseudocritical_point_Sutton returns a NamedTuple).

Run as  PYTHONPATH=<tree>/src /venv/bin/python equiv.py <outfile>

The result is only ever used as a tuple here (unpack, index, slice, compare, star-expand,
hash, pickle, np.asarray), which is how every caller in the library, tests and docs uses it.
"""

from __future__ import annotations

import json
import os
import pickle
import sys
import warnings

import numpy as np
import pandas as pd

from bluebonnet.fluids import Fluid, build_pvt_gas, gas

BB_DATA = os.environ.get("BB_DATA", "/tmp/twin12_gas/tests/data")
LINES: list[str] = []


def num(value):
    if isinstance(value, (float, np.floating)):
        return f"{type(value).__name__}:{float(value)!r}"
    if isinstance(value, np.ndarray):
        return f"ndarray{value.shape}{value.dtype}{value.tolist()!r}"
    return f"{type(value).__name__}:{value!r}"


def describe(point):
    """Everything a caller can do with the old 2-tuple (each step guarded on its own)."""
    out = []

    def attempt(label, thunk):
        try:
            out.append(f"{label}={thunk()}")
        except Exception as exc:  # noqa: BLE001
            out.append(f"{label}=RAISED {type(exc).__name__}: {exc}")

    def unpack3():
        a, b, c = point
        return a, b, c

    def setitem():
        point[0] = 1.0

    out.append(f"is_tuple={isinstance(point, tuple)} len={len(point)}")
    t_pc, p_pc = point  # unpacking, as in build_pvt_gas and the tests
    plain = (t_pc, p_pc)
    attempt("unpack", lambda: f"({num(t_pc)}, {num(p_pc)})")
    attempt("index", lambda: [num(point[i]) for i in (0, 1, -1, -2)])
    attempt("slice", lambda: f"{[num(v) for v in point[::-1]]} {type(point[:1]).__name__}")
    attempt("iter", lambda: [num(v) for v in point])
    attempt("eq", lambda: f"{point == plain} {plain == point} ne={point != plain}")
    attempt("hash_eq", lambda: hash(point) == hash(plain))
    attempt("order", lambda: f"lt={point < (0.0, 0.0)} gt={point > (-1e9, 0.0)}")
    attempt("concat", lambda: [num(v) for v in (0.0,) + point + (1.0,)])
    attempt("mul", lambda: len(point * 2))
    attempt("contains", lambda: f"{t_pc in point} count={point.count(p_pc)} idx={point.index(p_pc)}")
    attempt("asarray", lambda: num(np.asarray(point)))
    attempt("json", lambda: json.dumps(point))
    attempt("pickle", lambda: [num(v) for v in pickle.loads(pickle.dumps(point))])
    attempt("dict_key", lambda: {point: 1}[plain])
    attempt("index2", lambda: point[2])
    attempt("unpack3", unpack3)
    try:  # immutable before and after; the message names the tuple class, so only the type is kept
        setitem()
        out.append("setitem=allowed")
    except Exception as exc:  # noqa: BLE001
        out.append(f"setitem=RAISED {type(exc).__name__}")
    # star-expansion into the functions that take the pseudocritical point (docs/fluids.ipynb)
    attempt("z", lambda: num(gas.z_factor_DAK(250.0, 2000.0, *point)))
    attempt("cg", lambda: num(gas.compressibility_DAK(250.0, 2000.0, *point)))
    attempt("bg", lambda: num(gas.b_factor_DAK(250.0, 2000.0, *point)))
    attempt("rho", lambda: num(gas.density_DAK(250.0, 2000.0, *point, 0.7)))
    attempt("mu", lambda: num(gas.viscosity_Sutton(250.0, 2000.0, *point, 0.7)))
    fluid = Fluid(250.0, 35.0, 0.7, 10.0)
    pressures = np.array([500.0, 2000.0])
    attempt("Fluid.gas_FVF", lambda: num(np.asarray(fluid.gas_FVF(pressures, *point))))
    attempt("Fluid.gas_viscosity", lambda: num(np.asarray(fluid.gas_viscosity(pressures, *point))))
    return "\n    ".join(out)


def rec(label, *args, **kwargs):
    with warnings.catch_warnings(record=True) as caught:
        warnings.simplefilter("always")
        try:
            out = describe(gas.pseudocritical_point_Sutton(*args, **kwargs))
        except Exception as exc:  # noqa: BLE001
            out = f"RAISED {type(exc).__name__}: {exc}"
    warns = sorted({f"{w.category.__name__}: {w.message}" for w in caught})
    LINES.append(f"{label} -> {out}\n    warnings={warns}")


make = gas.make_nonhydrocarbon_properties

# both branches, a grid of gravities and compositions
COMPOSITIONS = [
    (0.03, 0.012, 0.018),
    (0.05, 0.01, 0.04),
    (0.0, 0.0, 0.0),
    (0.2, 0.0, 0.0),
    (0.0, 0.15, 0.0),
    (0.0, 0.0, 0.3),
    (0.1, 0.2, 0.3),
    (0.01, 1e-12, 1e-12),
]
for fluid_type in ("dry gas", "wet gas"):
    for sg in (0.56, 0.65, 0.8, 1.0, 1.4, np.float64(0.72), 1):
        for comp in COMPOSITIONS:
            rec(f"{fluid_type} sg={sg!r} comp={comp}", sg, make(*comp), fluid_type)

# default fluid, keywords, docstring examples
rec("default fluid", 0.7, make(0.03, 0.012, 0.018))
rec("kw", specific_gravity=0.7, non_hydrocarbon_properties=make(0.03, 0.012, 0.018), fluid="dry gas")
rec("doc dry", 0.65, make(0.03, 0.012, 0.018), "dry gas")
rec("doc wet", 0.8, make(0.05, 0.01, 0.04), "wet gas")

# extra non-hydrocarbon components
helium = ("Helium", 0.01, 4.0, 9.34, 33.0)
argon = ("Argon", 0.005, 39.95, 271.5, 705.3)
rec("others 1", 0.7, make(0.03, 0.012, 0.018, helium), "wet gas")
rec("others 2", 0.7, make(0.03, 0.012, 0.018, helium, argon), "dry gas")
rec("others 8", 0.7, make(0.01, 0.012, 0.018, *[helium] * 8), "dry gas")

# other containers that work today: recarray, dict of arrays, DataFrames (also non-default indexes)
base = make(0.03, 0.012, 0.018, helium)
rec("recarray", 0.7, base.view(np.recarray), "wet gas")
rec("dict of arrays", 0.7, {k: base[k] for k in base.dtype.names}, "wet gas")
rec("dict of lists", 0.7, {k: base[k].tolist() for k in base.dtype.names}, "wet gas")
frame = pd.DataFrame({k: base[k] for k in base.dtype.names})
rec("frame default index", 0.7, frame, "wet gas")
rec("frame shuffled index", 0.7, frame.iloc[[2, 0, 3, 1]], "wet gas")
rec("frame shuffled reset", 0.7, frame.iloc[[2, 0, 3, 1]].reset_index(drop=True), "wet gas")
rec("frame string index", 0.7, frame.set_index("name"), "wet gas")
rec("frame duplicate index", 0.7, frame.set_axis([0, 1, 1, 2], axis=0), "wet gas")
rec("frame offset index", 0.7, frame.set_axis([1, 2, 3, 4], axis=0), "wet gas")
rec("frame float index", 0.7, frame.set_axis([0.0, 1.0, 2.0, 3.0], axis=0), "wet gas")
rec("2-row array", 0.7, base[:2], "wet gas")
rec("1-row array", 0.7, base[:1], "dry gas")
rec("empty array", 0.7, base[:0], "dry gas")
rec("reordered rows", 0.7, base[[2, 1, 0, 3]], "dry gas")

# inputs that raise or degenerate
rec("bad fluid", 0.7, make(0.03, 0.012, 0.018), "black oil")
rec("bad fluid case", 0.7, make(0.03, 0.012, 0.018), "Dry Gas")
rec("bad fluid None", 0.7, make(0.03, 0.012, 0.018), None)
rec("bad fluid and bad props", 0.7, None, "oil")
rec("props None", 0.7, None, "dry gas")
rec("props plain array", 0.7, np.zeros((3, 4)), "dry gas")
rec("props missing field", 0.7, base[["name", "fraction"]], "dry gas")
rec("negative H2S", 0.7, make(0.03, -0.012, 0.018), "dry gas")
rec("negative CO2+H2S", 0.7, make(0.03, 0.01, -0.05), "dry gas")
rec("all non-hydrocarbon", 0.7, make(0.5, 0.25, 0.25), "dry gas")
rec("more than all", 0.7, make(0.6, 0.3, 0.3), "wet gas")
rec("nan fraction", 0.7, make(float("nan"), 0.01, 0.01), "wet gas")
rec("sg None", None, make(0.03, 0.012, 0.018), "wet gas")
rec("sg str", "0.7", make(0.03, 0.012, 0.018), "wet gas")
rec("sg nan", float("nan"), make(0.03, 0.012, 0.018), "wet gas")
rec("sg array", np.array([0.6, 0.7]), make(0.03, 0.012, 0.018), "wet gas")
rec("sg size-1 array", np.array([0.7]), make(0.03, 0.012, 0.018), "dry gas")
rec("no args")
rec("too many", 0.7, make(0.03, 0.012, 0.018), "dry gas", 1)

# the internal caller: build_pvt_gas unpacks the result
for dryness in ("dry gas", "wet gas", "condensate"):
    values = {"N2": 0.02, "H2S": 0.005, "CO2": 0.03, "Gas Specific Gravity": 0.7,
              "Reservoir Temperature (deg F)": 220.0}
    try:
        table = build_pvt_gas(values, dryness, 800.0)
        LINES.append(f"pvt {dryness} columns={list(table.columns)} n={len(table)}")
        for col in table.columns:
            LINES.append(f"  {col}: {[repr(v) for v in table[col].tolist()]}")
    except Exception as exc:  # noqa: BLE001
        LINES.append(f"pvt {dryness} RAISED {type(exc).__name__}: {exc}")

# compositions read from a table with a shuffled string index
comp_table = pd.DataFrame(
    {"N2": [0.01, 0.05, 0.0], "H2S": [0.0, 0.02, 0.1], "CO2": [0.02, 0.0, 0.1], "sg": [0.6, 0.75, 0.9]},
    index=["well c", "well a", "well a"],
)
for i, (lab, row) in enumerate(comp_table.iterrows()):
    rec(f"table row {i} {lab}", row["sg"], make(row["N2"], row["H2S"], row["CO2"]), "wet gas")

with open(sys.argv[1], "w") as fh:
    fh.write("\n".join(LINES) + "\n")
