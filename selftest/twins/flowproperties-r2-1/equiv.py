"""Equivalence probe: writes full-precision results of the touched functions to <outfile>."""

from __future__ import annotations

import os
import sys
import warnings

import numpy as np
import pandas as pd
from scipy.interpolate import interp1d

from bluebonnet.flow import flowproperties as fp

DATA = os.environ.get("BB_DATA", "/tmp/twin2_flowproperties/tests/data")
LINES: list[str] = []


def fmt(x, depth=0):
    """Full-precision, deterministic text for numbers / arrays / tables."""
    if isinstance(x, pd.DataFrame):
        cols = ", ".join(f"{c!r}: {fmt(x[c].to_numpy(), depth + 1)}" for c in x.columns)
        return f"DataFrame(index={list(x.index)[:3]}..{len(x.index)}, {cols})"
    if isinstance(x, pd.Series):
        return f"Series(name={x.name!r}, {fmt(x.to_numpy(), depth + 1)})"
    if isinstance(x, np.ndarray):
        if x.dtype.names:
            inner = ", ".join(f"{n}: {fmt(x[n], depth + 1)}" for n in x.dtype.names)
            return f"recarray(shape={x.shape}, {inner})"
        flat = [fmt(v, depth + 1) for v in x.ravel().tolist()]
        return f"ndarray(shape={x.shape}, dtype={x.dtype}, [{', '.join(flat)}])"
    if isinstance(x, (float, np.floating)):
        return repr(float(x)) + "|" + float(x).hex()
    if isinstance(x, (int, np.integer, str, bool, type(None))):
        return repr(x)
    if isinstance(x, (list, tuple)):
        return type(x).__name__ + "(" + ", ".join(fmt(v, depth + 1) for v in x) + ")"
    if isinstance(x, dict):
        return "{" + ", ".join(f"{k!r}: {fmt(x[k], depth + 1)}" for k in sorted(x, key=str)) + "}"
    return f"<{type(x).__name__}>"


def record(label, thunk, with_message=True):
    """Run thunk, log its value or exception type, and any warnings raised on the way."""
    with warnings.catch_warnings(record=True) as caught:
        warnings.simplefilter("always")
        try:
            out = fmt(thunk())
        except Exception as exc:  # noqa: BLE001
            msg = str(exc)
            # messages built from sets depend on the hash seed: keep only the type
            if not with_message or "{" in msg or "Need pvt_props" in msg:
                msg = ""
            out = f"RAISES {type(exc).__name__} {msg}"
    # distinct warnings only: hoisting a repeated pure evaluation legitimately changes how
    # often numpy repeats the very same RuntimeWarning under the "always" filter
    warns = sorted(
        {
            f"{w.category.__name__}:{str(w.message)[:60]}@{os.path.basename(w.filename)}"
            for w in caught
        }
    )
    LINES.append(f"{label} => {out} ;; warnings={warns}")


def flush():
    with open(sys.argv[1], "w") as fh:
        fh.write("\n".join(LINES) + "\n")
    print(f"wrote {len(LINES)} records to {sys.argv[1]}")


SW = 0.1


def load_multiphase_table():
    pvt_oil = pd.read_csv(os.path.join(DATA, "pvt_oil.csv"))
    pvt_water = pd.read_csv(os.path.join(DATA, "pvt_water.csv")).rename(
        columns={"T": "temperature", "P": "pressure", "Viscosity": "mu_w"}
    )
    rename_cols = {
        "T": "temperature",
        "P": "pressure",
        "Oil_Viscosity": "mu_o",
        "Gas_Viscosity": "mu_g",
        "Rso": "Rs",
    }
    df = (
        pvt_water.drop(columns=["temperature"])
        .merge(pvt_oil.rename(columns=rename_cols), on="pressure")
        .assign(Rv=0)
    )
    df["So"] = (1 - SW) / ((df["Rs"].max() - df["Rs"]) * df["Bg"] / df["Bo"] / 5.61458 + 1)
    return df


def make_relperm(**kw):
    base = dict(n_o=1, n_g=1, n_w=1, S_or=0, S_gc=0, S_wc=0.1, k_ro_max=1, k_rw_max=1, k_rg_max=1)
    base.update(kw)
    return fp.RelPermParams(**base)


REFERENCE_DENSITIES = {"rho_o0": 141.5 / (45 + 131.5), "rho_g0": 1.03e-3, "rho_w0": 1}


def make_pvt_kr(df_pvt, df_kr, volatile=False):
    """Interpolator dictionaries as FlowPropertiesTwoPhase.from_table builds them."""
    cols = ["pseudopressure", "pressure", "Bo", "Bg", "Bw", "Rs", "Rv", "mu_o", "mu_g", "mu_w", "So"]
    table = df_pvt.copy()
    if volatile:
        table["Rv"] = 1e-5 * (1 + np.sqrt(table["pressure"] / 1000.0))
    pvt = {c: interp1d(table["pressure"], table[c], fill_value="extrapolate") for c in cols}
    pvt.update(REFERENCE_DENSITIES)
    kr = {f: interp1d(df_kr["So"], df_kr[f]) for f in ("kro", "krg", "krw")}
    return pvt, kr


# ---------------------------------------------------------------- twin 1 probes
def main():
    df_pvt = load_multiphase_table()
    df_kr = fp.relative_permeabilities_twophase(make_relperm())
    df_kr3 = fp.relative_permeabilities_twophase(
        make_relperm(n_o=2.5, n_g=1.7, n_w=3, S_or=0.15, S_gc=0.05, k_ro_max=0.8, k_rg_max=0.9, k_rw_max=0.4)
    )
    p_series, so_series = df_pvt["pressure"], df_pvt["So"]
    p_arr, so_arr = p_series.to_numpy(), so_series.to_numpy()
    rng = np.random.default_rng(7)
    p_rand = np.sort(rng.uniform(0.0, float(p_arr.max()), 37))
    so_rand = rng.uniform(0.0, 0.9, 37)
    for tag, kr_table, volatile in (("blackoil", df_kr, False), ("volatile", df_kr3, True)):
        pvt, kr = make_pvt_kr(df_pvt, kr_table, volatile)
        cases = {
            "series": (p_series, so_series),
            "arrays": (p_arr, so_arr),
            "random": (p_rand, so_rand),
            "unsorted": (p_rand[::-1].copy(), so_rand),
            "slice": (p_arr[5:60:3], so_arr[5:60:3]),
            "lists": (list(p_arr[:9]), list(so_arr[:9])),
            "one": (p_arr[3:4], so_arr[3:4]),
            "two": (p_arr[3:5], so_arr[3:5]),
            "empty": (p_arr[:0], so_arr[:0]),
            "scalar": (2500.0, 0.4),
            "scalar_int": (2500, 0),
            "p_scalar_so_arr": (3000.0, so_arr[:6]),
            "p_arr_so_scalar": (p_arr[:6], 0.3),
            "extrapolated_p": (np.array([-50.0, 1.0, 2.0e4, 3.0e4]), np.array([0.1, 0.2, 0.3, 0.4])),
            "grid2d": (p_rand[:12].reshape(3, 4), so_rand[:12].reshape(3, 4)),
            "mismatch": (p_arr[:5], so_arr[:7]),
            "so_above_table": (p_arr[:4], np.array([0.2, 0.95, 0.3, 0.1])),
            "so_negative": (p_arr[:4], np.array([0.2, -0.05, 0.3, 0.1])),
            "nan_pressure": (np.array([100.0, np.nan, 300.0]), np.array([0.2, 0.3, 0.4])),
            "nan_so": (np.array([100.0, 200.0, 300.0]), np.array([0.2, np.nan, 0.4])),
            "strings": (np.array(["a", "b"]), np.array([0.2, 0.3])),
            "none": (None, None),
        }
        for name, (p, so) in cases.items():
            record(f"{tag}/lambda_combined_func/{name}", lambda: fp.lambda_combined_func(p, so, pvt, kr))
            record(
                f"{tag}/pseudopressure_threephase/{name}",
                lambda: fp.pseudopressure_threephase(p, so, pvt, kr),
            )
            record(
                f"{tag}/alpha_multiphase/{name}",
                lambda: fp.alpha_multiphase(p, so, 0.07, SW, pvt, kr),
            )
        # broken dictionaries: every single missing key, and pairs of missing keys
        pvt_keys = ["rho_o0", "Rv", "mu_g", "Bg", "mu_o", "Bo", "rho_g0", "Rs", "rho_w0", "mu_w", "Bw"]
        for key in pvt_keys:
            broken = {k: v for k, v in pvt.items() if k != key}
            record(f"{tag}/lambda/missing_pvt_{key}", lambda: fp.lambda_combined_func(p_arr, so_arr, broken, kr))
            record(
                f"{tag}/pseudo/missing_pvt_{key}",
                lambda: fp.pseudopressure_threephase(p_arr, so_arr, broken, kr),
            )
        for key in ("kro", "krg", "krw"):
            broken = {k: v for k, v in kr.items() if k != key}
            record(f"{tag}/lambda/missing_kr_{key}", lambda: fp.lambda_combined_func(p_arr, so_arr, pvt, broken))
            record(
                f"{tag}/pseudo/missing_kr_{key}",
                lambda: fp.pseudopressure_threephase(p_arr, so_arr, pvt, broken),
            )
        for i, k1 in enumerate(pvt_keys):
            for k2 in pvt_keys[i + 1 :]:
                broken = {k: v for k, v in pvt.items() if k not in (k1, k2)}
                record(
                    f"{tag}/lambda/missing_pvt_{k1}+{k2}",
                    lambda: fp.lambda_combined_func(p_arr, so_arr, broken, kr),
                )
        # non-callable entry
        bad = dict(pvt, mu_w=3.0)
        record(f"{tag}/lambda/noncallable_mu_w", lambda: fp.lambda_combined_func(p_arr, so_arr, bad, kr))
        record(f"{tag}/pseudo/noncallable_mu_w", lambda: fp.pseudopressure_threephase(p_arr, so_arr, bad, kr))

    # whole pipeline through the public class
    for p_i in (8000.0, 5000.0, 1000.0, 20000.0, -1.0):
        for kr_table, ktag in ((df_kr, "kr1"), (df_kr3, "kr3")):
            def build():
                table = fp.rescale_pseudopressure(df_pvt, 1000, 8000.0)
                obj = fp.FlowPropertiesTwoPhase.from_table(
                    table, kr_table, REFERENCE_DENSITIES, 0.1, SW, p_i
                )
                probe = np.linspace(-0.2, 1.4, 23)
                return [
                    obj.m_i,
                    obj.pvt_props["pseudopressure"],
                    obj.pvt_props["alpha"],
                    obj.pvt_props["m-scaled"],
                    obj.alpha(probe),
                    obj.m_scaled_func(np.array([0.0, 10.0, 999.0, 7777.0])),
                ]

            record(f"from_table/{ktag}/p_i={p_i}", build)
    flush()


main()
