"""Equivalence driver: the DAK family (z-factor, compressibility and their dependents)."""

from __future__ import annotations

import itertools
import sys
import warnings

import numpy as np

from bluebonnet.fluids import gas

warnings.simplefilter("ignore")
out = []


def show(v):
    if isinstance(v, tuple):
        return "(" + ", ".join(show(x) for x in v) + ")"
    if isinstance(v, np.ndarray):
        return f"ndarray{v.shape}{v.dtype!r}{v.tolist()!r}"
    return f"{type(v).__name__}:{v!r}"


def rec(label, fn, *args, **kwargs):
    try:
        res = show(fn(*args, **kwargs))
    except Exception as e:  # noqa: BLE001
        res = f"EXC {type(e).__name__}"
    out.append(f"{label} -> {res}")


temperatures = [400, 60.0, 250.5, -50.0, np.float64(180.0), np.int64(300), -459.67]
pressures = [14.7, 100, 104.7, 1000.0, 5000.0, 14000.0, 40000.0, np.float64(2500.0), 0.0, -10.0, 1e-3]
pseudocriticals = [
    (-102, 649),
    (-102.21827232417752, 648.510797253794),
    (-72.20351526841193, 653.2582064200534),
    (np.float64(-90.0), np.float64(660.0)),
    (-459.67, 649),  # vanishing denominator in the reduced temperature
    (-102, 0),  # vanishing denominator in the reduced pressure
    (-459.67, 0),  # both: the first one must win
    (-500.0, 649),  # negative reduced temperature
    (-102, -649),
]
for t, p, (tpc, ppc) in itertools.product(temperatures, pressures, pseudocriticals):
    key = f"{t!r}|{p!r}|{tpc!r}|{ppc!r}"
    rec(f"z[{key}]", gas.z_factor_DAK, t, p, tpc, ppc)
    rec(f"c[{key}]", gas.compressibility_DAK, t, p, tpc, ppc)
    rec(f"b[{key}]", gas.b_factor_DAK, t, p, tpc, ppc)
    rec(f"rho[{key}]", gas.density_DAK, t, p, tpc, ppc, 0.65)
    rec(f"mu[{key}]", gas.viscosity_Sutton, t, p, tpc, ppc, 0.65)

odd = [
    (np.array([400.0]), 100.0, -102, 649),
    (400.0, np.array([100.0]), -102, 649),
    (400.0, np.array([100.0, 200.0]), -102, 649),
    (np.array([400.0, 300.0]), 100.0, -102, 649),
    (400.0, 100.0, np.array([-102.0]), np.array([649.0])),
    (400.0, 100.0, np.array([-102.0, -90.0]), 649),
    ("400", 100.0, -102, 649),
    (400, "100", -102, 649),
    (400, 100, "-102", 649),
    (400, 100, -102, "649"),
    (None, 100, -102, 649),
    (400, None, -102, 649),
    (400, 100, None, 649),
    (400, 100, -102, None),
    (float("nan"), 100, -102, 649),
    (400, float("nan"), -102, 649),
    (400, float("inf"), -102, 649),
    (float("inf"), 100, -102, 649),
    (400, 100, -102, float("inf")),
    (True, 100, -102, 649),
    (400 + 0j, 100, -102, 649),
    ([400], 100, -102, 649),
    (400, [100], -102, 649),
    (400, 100, -102, 0.0),
    (400, np.float64(100), -102, np.float64(0.0)),
    (np.float64(400), 100, np.float64(-459.67), 649),
]
for a in odd:
    key = "|".join(repr(x) for x in a)
    rec(f"z_odd[{key}]", gas.z_factor_DAK, *a)
    rec(f"c_odd[{key}]", gas.compressibility_DAK, *a)
    rec(f"b_odd[{key}]", gas.b_factor_DAK, *a)
    rec(f"rho_odd[{key}]", gas.density_DAK, *a, 0.65)

# keyword calls, too few / too many arguments
rec("z_kw", gas.z_factor_DAK, temperature=400, pressure=100, temperature_pseudocritical=-102,
    pressure_pseudocritical=649)
rec("c_kw", gas.compressibility_DAK, pressure_pseudocritical=649, temperature_pseudocritical=-102,
    pressure=104.7, temperature=400)
rec("z_few", gas.z_factor_DAK, 400, 100, -102)
rec("c_few", gas.compressibility_DAK, 400, 100, -102)
rec("z_many", gas.z_factor_DAK, 400, 100, -102, 649, 1)
rec("c_many", gas.compressibility_DAK, 400, 100, -102, 649, 1)

# the integral transform built on top
for p in (14.7, 100, 2000.0, 9000.0):
    rec(f"m[{p}]", gas.pseudopressure_Hussainy, 400, p, -102, 649, 0.65)
    rec(f"m_wet[{p}]", gas.pseudopressure_Hussainy, 250.0, p, -72.20351526841193, 653.2582064200534, 0.8)

with open(sys.argv[1], "w") as f:
    f.write("\n".join(out) + "\n")
