"""Equivalence probe for twin3: lambda_combined_func / pseudopressure_threephase and callers.

Floating-point re-association is allowed, so values are rounded to 11 significant digits.
"""

from __future__ import annotations

import os
import sys
import warnings

import numpy as np
import pandas as pd
from scipy.interpolate import interp1d

from bluebonnet.flow.flowproperties import (
    FlowPropertiesTwoPhase,
    RelPermParams,
    alpha_multiphase,
    lambda_combined_func,
    pseudopressure_threephase,
    relative_permeabilities_twophase,
    rescale_pseudopressure,
)

warnings.simplefilter("ignore")
np.seterr(all="ignore")
DATA = os.environ.get("BB_DATA", "/tmp/twin_flowproperties/tests/data")
out = []


def fmt(x):
    # 11 significant digits
    return ",".join(repr(float("%.10e" % float(v))) for v in np.asarray(x, dtype=float).ravel())


def record(label, func):
    try:
        res = func()
    except Exception as exc:  # noqa: BLE001
        # exception type only (plus the key for KeyError): numpy's broadcasting message
        # lists operand shapes in operand order, which is not part of the contract
        detail = f": {exc}" if isinstance(exc, KeyError) else ""
        out.append(f"{label}: EXC {type(exc).__name__}{detail}")
        return
    out.append(f"{label}: type={type(res).__name__} shape={np.shape(res)} {fmt(res)}")


def make_df_pvt(Sw):
    pvt_oil = pd.read_csv(os.path.join(DATA, "pvt_oil.csv"))
    pvt_water = pd.read_csv(os.path.join(DATA, "pvt_water.csv")).rename(
        columns={"T": "temperature", "P": "pressure", "Viscosity": "mu_w"}
    )
    rename_cols = {
        "T": "temperature",
        "P": "pressure",
        "Oil_Viscosity": "mu_o",
        "Gas_Viscosity": "mu_g",
        "Rso": "Rs",
    }
    df = (
        pvt_water.drop(columns=["temperature"])
        .merge(pvt_oil.rename(columns=rename_cols), on="pressure")
        .assign(Rv=0)
    )
    df["So"] = (1 - Sw) / ((df["Rs"].max() - df["Rs"]) * df["Bg"] / df["Bo"] / 5.61458 + 1)
    return df


PVT_COLS = ("pseudopressure", "pressure", "Bo", "Bg", "Bw", "Rs", "Rv", "mu_o", "mu_g", "mu_w", "So")
densities = {"rho_o0": 141.5 / (45 + 131.5), "rho_g0": 1.03e-3, "rho_w0": 1}
Sw0 = 0.1
df_pvt = make_df_pvt(Sw0)
# give Rv some life too (condensate-like) in a second table
df_pvt_rv = df_pvt.assign(Rv=1e-5 * np.sqrt(df_pvt["pressure"] + 1.0))


def make_pvt(df, fill="extrapolate", dens=densities):
    kwargs = {"fill_value": "extrapolate"} if fill == "extrapolate" else {}
    pvt = {prop: interp1d(df["pressure"], df[prop], **kwargs) for prop in PVT_COLS}
    pvt.update(dens)
    return pvt


pvt_ex = make_pvt(df_pvt)
pvt_rv = make_pvt(df_pvt_rv)
pvt_strict = make_pvt(df_pvt, fill=None)
pvt_lambda = {
    "mu_o": lambda p: 1.2 - 1e-4 * p,
    "mu_g": lambda p: 0.012 + 2e-6 * p,
    "mu_w": lambda p: 0.4 + 0 * p,
    "Rv": lambda p: 1e-6 * p,
    "Rs": lambda p: 0.2 * p**0.9,
    "Bg": lambda p: 5.0 / (p + 14.7),
    "Bo": lambda p: 1.05 + 1e-4 * p,
    "Bw": lambda p: 1.04 - 3e-6 * p,
    "rho_o0": 0.8,
    "rho_g0": 1e-3,
    "rho_w0": 1.0,
}

p_tab = df_pvt["pressure"].to_numpy(dtype=float)
So_tab = df_pvt["So"].to_numpy(dtype=float)
p_mid = np.linspace(p_tab[1] + 3.3, p_tab[-2] - 7.7, 37)
So_mid = np.linspace(0.05, 0.85, 37)

relperm = RelPermParams(
    n_o=1, n_g=1, n_w=1, S_or=0, S_gc=0, S_wc=0.1, k_ro_max=1, k_rw_max=1, k_rg_max=1
)
relperm2 = RelPermParams(2.0, 1.5, 3.0, 0.05, 0.12, 0.02, 0.9, 0.4, 0.8)
krs = {}
dfkrs = {}
for rname, rp in (("lin", relperm), ("corey", relperm2)):
    df_kr = relative_permeabilities_twophase(rp, 0.1 if rname == "lin" else 0.02)
    dfkrs[rname] = df_kr
    krs[rname] = {f: interp1d(df_kr["So"], df_kr[f]) for f in ("kro", "krg", "krw")}
krs["lambda"] = {
    "kro": lambda S: 0.9 * S**2,
    "krg": lambda S: 0.8 * (1 - S) ** 1.5,
    "krw": lambda S: 0.01 + 0 * S,
}

cases = {
    "table": (p_tab, So_tab),
    "table_series": (df_pvt["pressure"], df_pvt["So"]),
    "mid": (p_mid, So_mid),
    "mid_desc": (p_mid[::-1], So_mid),
    "scalar": (3217.25, 0.61),
    "scalar_int": (4000, 0),
    "one": (np.array([2000.0]), np.array([0.5])),
    "two": (np.array([2000.0, 2500.0]), np.array([0.5, 0.55])),
    "beyond_p": (np.array([-50.0, 100.0, p_tab[-1] + 100.0]), np.array([0.6, 0.7, 0.8])),
    "beyond_So": (np.array([1000.0, 2000.0]), np.array([0.5, 0.99])),
    "nan_p": (np.array([1000.0, np.nan, 3000.0]), np.array([0.5, 0.5, 0.5])),
    "nan_So": (np.array([1000.0, 2000.0]), np.array([np.nan, 0.5])),
    "2d": (p_mid[:12].reshape(3, 4), So_mid[:12].reshape(3, 4)),
    "broadcast": (p_mid[:4].reshape(4, 1), So_mid[:3]),
    "empty": (np.array([]), np.array([])),
    "shape_mismatch": (p_mid[:4], So_mid[:3]),
    "list": ([1000.0, 2000.0], [0.5, 0.6]),
    "str_p": ("abc", 0.5),
    "none_So": (1000.0, None),
}
pvts = {"ex": pvt_ex, "rv": pvt_rv, "strict": pvt_strict, "lambda": pvt_lambda}
for pname, pvt in pvts.items():
    for kname, kr in krs.items():
        for cname, (p, So) in cases.items():
            record(
                f"lambda[{pname}|{kname}|{cname}]",
                lambda p=p, So=So, pvt=pvt, kr=kr: lambda_combined_func(p, So, pvt, kr),
            )
            record(
                f"pseudo[{pname}|{kname}|{cname}]",
                lambda p=p, So=So, pvt=pvt, kr=kr: pseudopressure_threephase(p, So, pvt, kr),
            )
            record(
                f"alpha[{pname}|{kname}|{cname}]",
                lambda p=p, So=So, pvt=pvt, kr=kr: alpha_multiphase(p, So, 0.08, 0.02, pvt, kr),
            )

# missing / non-callable entries, one at a time
for key in ("Rv", "Rs", "Bg", "Bo", "Bw", "mu_o", "mu_g", "mu_w", "rho_o0", "rho_g0", "rho_w0"):
    broken = {k: v for k, v in pvt_rv.items() if k != key}
    notcallable = dict(pvt_rv)
    notcallable[key] = None
    for fname, func in (("lambda", lambda_combined_func), ("pseudo", pseudopressure_threephase)):
        record(f"{fname}[missing {key}]", lambda b=broken, func=func: func(p_mid, So_mid, b, krs["lin"]))
        record(f"{fname}[None {key}]", lambda b=notcallable, func=func: func(p_mid, So_mid, b, krs["lin"]))
for key in ("kro", "krg", "krw"):
    broken = {k: v for k, v in krs["lin"].items() if k != key}
    for fname, func in (("lambda", lambda_combined_func), ("pseudo", pseudopressure_threephase)):
        record(f"{fname}[missing {key}]", lambda b=broken, func=func: func(p_mid, So_mid, pvt_rv, b))

for rname in ("lin", "corey"):
    df_kr = dfkrs[rname]
    Sw = 0.1 if rname == "lin" else 0.02
    for dname, df in (("rv0", df_pvt), ("rv", df_pvt_rv)):
        for p_frac, p_res in ((1000, 8000.0), (500.0, 6000.0)):

            def build(df=df, df_kr=df_kr, p_frac=p_frac, p_res=p_res, Sw=Sw):
                scaled = rescale_pseudopressure(df, p_frac, p_res)
                fp = FlowPropertiesTwoPhase.from_table(scaled, df_kr, densities, 0.1, Sw, p_res)
                m = np.linspace(-0.2, 1.3, 61)
                return np.concatenate(
                    [
                        np.atleast_1d(fp.m_i),
                        np.asarray(fp.pvt_props["alpha"], dtype=float),
                        np.asarray(fp.pvt_props["pseudopressure"], dtype=float),
                        np.asarray(fp.pvt_props["m-scaled"], dtype=float),
                        fp.alpha(m),
                    ]
                )

            record(f"from_table[{rname}|{dname}|{p_frac}|{p_res}]", build)
    record(
        f"from_table[{rname}|p_i out of range]",
        lambda df_kr=df_kr: FlowPropertiesTwoPhase.from_table(df_pvt, df_kr, densities, 0.1, 0.1, 1e9).m_i,
    )
    record(
        f"from_table[{rname}|no densities]",
        lambda df_kr=df_kr: FlowPropertiesTwoPhase.from_table(df_pvt, df_kr, {}, 0.1, 0.1, 8000.0).m_i,
    )

with open(sys.argv[1], "w") as fh:
    fh.write("\n".join(out) + "\n")
