"""Equivalence driver for bluebonnet.fluids.oil (run on clean and refactored trees)."""

from __future__ import annotations

import inspect
import sys
import warnings

import numpy as np

from bluebonnet.fluids import oil

FUNCS = ["_mu_dead_to_live_br","b_o_Standing","b_o_bubblepoint_Standing","db_o_dgor_Standing","density_Standing","dgor_dpressure_Standing","oil_compressibility_Standing","oil_compressibility_undersat_Spivey","oil_compressibility_undersat_Standing","pressure_bubblepoint_Standing","solution_gor_Standing","viscosity_beggs_robinson"]


def fmt(x):
    if isinstance(x, np.ndarray):
        return f"array{x.shape}{x.dtype}[" + ",".join(fmt(v) for v in x.ravel().tolist()) + "]"
    if isinstance(x, (float, np.floating)):
        return type(x).__name__ + ":" + repr(float(x))
    if isinstance(x, (list, tuple)):
        return type(x).__name__ + "(" + ",".join(fmt(v) for v in x) + ")"
    try:
        import pandas as pd

        if isinstance(x, pd.Series):
            return "Series[" + ",".join(fmt(v) for v in x.tolist()) + "]"
    except ImportError:
        pass
    return type(x).__name__ + ":" + repr(x)


def call(out, label, f, *args, **kwargs):
    with warnings.catch_warnings(record=True) as w:
        warnings.simplefilter("always")
        try:
            res = fmt(f(*args, **kwargs))
        except Exception as e:  # noqa: BLE001
            res = "EXC " + type(e).__name__ + ": " + str(e)
    cats = sorted({wi.category.__name__ for wi in w})
    out.append(f"{label} -> {res} | warnings={cats}")


# (temperature, api_gravity, gas_specific_gravity, solution_gor_initial)
FLUIDS = [
    (200.0, 35.0, 0.8, 650.0),
    (200, 35, 0.8, 650),
    (150.0, 45.0, 0.65, 1200.0),
    (250.0, 20.0, 1.1, 150.0),
    (100.0, 10.0, 0.9, 20.0),
    (300.0, 55.0, 0.7, 3000.0),
    (np.float64(180.0), np.float64(30.0), np.float64(0.75), np.float64(500.0)),
    (200.0, 35.0, 0.8, 0.0),
    (200.0, -131.5, 0.8, 650.0),
    (200.0, 35.0, 0.0, 650.0),
    (0.0, 35.0, 0.8, 650.0),
    (-50.0, 35.0, 0.8, 650.0),
    (200.0, 35.0, -0.8, 650.0),
    (200.0, "35", 0.8, 650.0),
    (None, 35.0, 0.8, 650.0),
    (200.0, 35.0, 0.8, np.array([300.0, 650.0, 900.0])),
]

PRESSURES = [
    3000.0,
    2000.0,
    3000,
    2000,
    14.7,
    0.0,
    -10.0,
    1.0e5,
    2627.2017021875276,  # bubble point of first fluid
    np.float64(2627.2017021875276),
    np.float64(1500.0),
    np.float32(4000.0),
    float("nan"),
    float("inf"),
    np.array(2500.0),
    np.array([2500.0]),
    np.array([3000.0]),
    np.array([], dtype=float),
    np.linspace(10.0, 6000.0, 25),
    np.array([100.0, 5000.0, 200.0, 2627.2017021875276, 7000.0, np.nan]),
    np.array([5000.0, 6000.0, 7000.0]),
    np.array([50.0, 60.0, 70.0]),
    np.array([100, 2000, 5000]),
    np.array([[100.0, 2000.0], [3000.0, 5000.0]]),
    np.array([0.0, -5.0, 3000.0]),
    [100.0, 5000.0],
    (100.0, 5000.0),
    "3000",
    None,
    np.array([100.0, 2000.0, 5000.0], dtype=np.longdouble),
    np.array([100.0, 2000.0, 5000.0], dtype=np.float32),
    np.array([100.0, 2000.0, 5000.0], dtype=object),
    np.array([100.0 + 0j, 2000.0, 5000.0]),
    np.array([True, False]),
    np.ma.masked_array([100.0, 2000.0, 5000.0], mask=[False, True, False]),
]


def main(outfile):
    out = []
    try:
        import pandas as pd

        pressures = PRESSURES + [pd.Series([100.0, 2000.0, 3000.0, 5000.0])]
    except ImportError:
        pressures = PRESSURES
    for name in FUNCS:
        f = getattr(oil, name)
        out.append(f"## {name} name={f.__name__} sig={inspect.signature(f)} doc={hash_doc(f)}")
        params = list(inspect.signature(f).parameters)
        has_p = "pressure" in params
        for fi, fl in enumerate(FLUIDS):
            t, api, sg, gor = fl
            if name == "_mu_dead_to_live_br":
                continue
            if has_p:
                for pi, p in enumerate(pressures):
                    if fi >= 7 and pi not in (0, 1, 5, 18, 19):
                        continue
                    if (
                        name in ("b_o_Standing", "density_Standing")
                        and isinstance(p, np.ndarray)
                        and p.dtype.kind == "f"
                        and np.isnan(p).any()
                    ):
                        # NaN pressures leave np.empty_like memory unset in b_o_Standing
                        # (unspecified values on any tree), so drop them here
                        p = p[~np.isnan(p)]
                    args = [t, p, api, sg, gor]
                    if name == "oil_compressibility_Standing":
                        args += [-72.2, 653.0]
                    call(out, f"{name} F{fi} P{pi}", f, *args)
            else:
                call(out, f"{name} F{fi}", f, t, api, sg, gor)
        # keyword / arity behaviour
        t, api, sg, gor = FLUIDS[0]
        if has_p:
            kw = dict(
                temperature=t,
                pressure=2000.0,
                api_gravity=api,
                gas_specific_gravity=sg,
                solution_gor_initial=gor,
            )
            if name == "oil_compressibility_Standing":
                kw.update(temperature_pseudocritical=-72.2, pressure_pseudocritical=653.0)
                call(out, f"{name} std", f, t, 2000.0, api, sg, gor, -72.2, 653.0, 70.0, 15.0)
                call(
                    out, f"{name} stdkw", f, **kw, temperature_standard=70.0, pressure_standard=15.0
                )
        elif name != "_mu_dead_to_live_br":
            kw = dict(
                temperature=t, api_gravity=api, gas_specific_gravity=sg, solution_gor_initial=gor
            )
        if name != "_mu_dead_to_live_br":
            call(out, f"{name} kw", f, **kw)
            call(out, f"{name} kw-mixed", f, t, **{k: v for k, v in kw.items() if k != "temperature"})
            call(out, f"{name} noargs", f)
            call(out, f"{name} missing", f, t)
            call(out, f"{name} toomany", f, *([1.0] * 12))
            call(out, f"{name} badkw", f, **kw, bogus=1)
            call(out, f"{name} dupkw", f, t, **kw)
        else:
            for md in (0.5, 2.0, np.array([0.5, 1.0, 3.0]), -1.0, 0.0):
                for g in (0.0, 650.0, np.array([100.0, 400.0, 900.0]), -100.0, -150.0):
                    call(out, f"{name} {fmt(md)} {fmt(g)}", f, md, g)
    # input arrays must not be mutated
    p = np.linspace(10.0, 6000.0, 25)
    p0 = p.copy()
    for name in FUNCS:
        f = getattr(oil, name)
        if "pressure" in inspect.signature(f).parameters:
            try:
                if name == "oil_compressibility_Standing":
                    f(200.0, p, 35.0, 0.8, 650.0, -72.2, 653.0)
                else:
                    f(200.0, p, 35.0, 0.8, 650.0)
            except Exception:  # noqa: BLE001
                pass
            out.append(f"{name} input-unchanged={bool(np.array_equal(p, p0))}")
    # Fluid-level use through the package
    try:
        from bluebonnet.fluids.fluid import Fluid

        fl = Fluid(200.0, 35.0, 0.8, 650.0)
        for pp in (3000.0, 2000.0, np.linspace(100.0, 6000.0, 13)):
            call(out, f"Fluid.oil_FVF {fmt(pp)}", fl.oil_FVF, pp)
            call(out, f"Fluid.oil_viscosity {fmt(pp)}", fl.oil_viscosity, pp)
    except Exception as e:  # noqa: BLE001
        out.append("Fluid EXC " + type(e).__name__)
    with open(outfile, "w") as fh:
        fh.write("\n".join(out) + "\n")


def hash_doc(f):
    import hashlib

    return hashlib.md5((f.__doc__ or "").encode()).hexdigest()[:8]


if __name__ == "__main__":
    main(sys.argv[1])
