"""Equivalence driver for twin4 (dead-oil viscosity evaluated once, cached for plain Python numbers).

Usage: PYTHONPATH=<tree>/src python equiv.py <outfile>
"""
from __future__ import annotations

import os
import sys
import warnings
from decimal import Decimal
from fractions import Fraction

import numpy as np
import pandas as pd

from bluebonnet.fluids import oil
from bluebonnet.fluids.fluid import Fluid

DATA = os.environ.get("BB_DATA", "/tmp/twin12_oil/tests/data")
LINES: list[str] = []


def fmt(x):
    if isinstance(x, pd.Series):
        return f"Series(index={list(x.index)!r}, dtype={x.dtype}, values={fmt(x.to_numpy())})"
    if isinstance(x, pd.DataFrame):
        return f"DataFrame(cols={list(x.columns)!r}, index={list(x.index)!r}, values={fmt(x.to_numpy())})"
    if isinstance(x, np.ma.MaskedArray):
        return f"masked(mask={np.ma.getmaskarray(x).tolist()!r}, data={fmt(np.asarray(x.filled(-1.0)))})"
    if isinstance(x, np.ndarray):
        flat = [fmt(v) for v in x.ravel().tolist()]
        return f"ndarray(shape={x.shape}, dtype={x.dtype}, [{', '.join(flat)}])"
    if isinstance(x, (tuple, list)):
        return type(x).__name__ + "(" + ", ".join(fmt(v) for v in x) + ")"
    if isinstance(x, (float, np.floating)):
        return f"{type(x).__name__}:{float(x)!r}"
    if isinstance(x, (complex, np.complexfloating)):
        return f"{type(x).__name__}:{complex(x)!r}"
    return f"{type(x).__name__}:{x!r}"


def rec(label, func, *args, **kwargs):
    with warnings.catch_warnings(record=True) as caught:
        warnings.simplefilter("always")
        try:
            out = fmt(func(*args, **kwargs))
        except Exception as exc:  # noqa: BLE001
            out = f"RAISED {type(exc).__name__}: {exc}"
    cats = sorted({f"{w.category.__name__}: {w.message}" for w in caught})
    LINES.append(f"{label} -> {out} | warnings={cats}")


import itertools

visc = oil.viscosity_beggs_robinson

pressures = {
    "lo": 2000.0,
    "hi": 3000.0,
    "int_lo": 2000,
    "int_hi": 3000,
    "at_pb": 2603.1217021875277,
    "atm": 14.7,
    "zero": 0.0,
    "neg": -10.0,
    "very_neg": -100.0,
    "huge": 1.0e9,
    "nan": float("nan"),
    "inf": float("inf"),
    "np_f64": np.float64(2000.0),
    "np_f64_hi": np.float64(3000.0),
    "np_f32": np.float32(3000.0),
    "np_int": np.int64(2000),
    "bool": True,
    "zero_d": np.array(2000.0),
    "len1": np.array([2000.0]),
    "len1_hi": np.array([3000.0]),
    "arr": np.array([100.0, 2000.0, 3000.0]),
    "arr_empty": np.array([], dtype=float),
    "ser": pd.Series([100.0, 3000.0], index=["b", "b"]),
    "ser_len1": pd.Series([2000.0], index=["z"]),
    "list": [2000.0],
    "str": "2000",
    "none": None,
    "complex": 2000.0 + 0j,
    "fraction": Fraction(2000, 1),
    "pd_na": pd.NA,
}

fluids = {
    "black": (200.0, 35.0, 0.8, 650.0),
    "black_again": (200.0, 35.0, 0.8, 650.0),
    "ints": (200, 35, 1, 650),
    "int_T_float_api": (200, 35.0, 0.8, 650.0),
    "float_T_int_api": (200.0, 35, 0.8, 650.0),
    "bool_api": (200.0, True, 0.8, 650.0),
    "int_one_api": (200.0, 1, 0.8, 650.0),
    "float_one_api": (200.0, 1.0, 0.8, 650.0),
    "bool_T": (True, 35.0, 0.8, 650.0),
    "int_one_T": (1, 35.0, 0.8, 650.0),
    "float_one_T": (1.0, 35.0, 0.8, 650.0),
    "np_f64": (np.float64(200.0), np.float64(35.0), np.float64(0.8), np.float64(650.0)),
    "np_f64_T_only": (np.float64(200.0), 35.0, 0.8, 650.0),
    "np_f32": (np.float32(200.0), np.float32(35.0), np.float32(0.8), np.float32(650.0)),
    "np_int": (np.int64(200), np.int64(35), 0.8, 650.0),
    "black_third": (200.0, 35.0, 0.8, 650.0),
    "light": (250.0, 45.0, 0.7, 1200.0),
    "heavy": (120.0, 15.0, 0.9, 80.0),
    "very_heavy_cold": (40.0, 5.0, 0.9, 80.0),
    "overflow_py": (1.0, -400.0, 0.8, 650.0),  # OverflowError with Python floats
    "overflow_np": (np.float64(1.0), np.float64(-400.0), 0.8, 650.0),  # inf + RuntimeWarning
    "overflow_py_again": (1.0, -400.0, 0.8, 650.0),
    "overflow_np_again": (np.float64(1.0), np.float64(-400.0), 0.8, 650.0),
    "tiny_gor": (200.0, 35.0, 0.8, 1.0),
    "zero_gor": (200.0, 35.0, 0.8, 0.0),
    "neg_gor": (200.0, 35.0, 0.8, -5.0),
    "neg_gor_m150": (200.0, 35.0, 0.8, -150.0),
    "zero_T": (0.0, 35.0, 0.8, 650.0),
    "zero_T_again": (0.0, 35.0, 0.8, 650.0),
    "neg_zero_T": (-0.0, 35.0, 0.8, 650.0),
    "int_zero_T": (0, 35.0, 0.8, 650.0),
    "np_zero_T": (np.float64(0.0), 35.0, 0.8, 650.0),
    "neg_T": (-20.0, 35.0, 0.8, 650.0),  # complex dead-oil viscosity
    "neg_T_int": (-20, 35.0, 0.8, 650.0),
    "neg_T_np": (np.float64(-20.0), 35.0, 0.8, 650.0),  # nan + RuntimeWarning
    "nan_T": (float("nan"), 35.0, 0.8, 650.0),
    "nan_api": (200.0, float("nan"), 0.8, 650.0),
    "inf_T": (float("inf"), 35.0, 0.8, 650.0),
    "zero_api": (200.0, 0.0, 0.8, 650.0),
    "neg_zero_api": (200.0, -0.0, 0.8, 650.0),
    "huge_int_T": (10**400, 35.0, 0.8, 650.0),
    "zero_d_arrays": (np.array(200.0), np.array(35.0), np.array(0.8), np.array(650.0)),
    "len1_T": (np.array([200.0]), 35.0, 0.8, 650.0),
    "T_array": (np.array([150.0, 200.0]), 35.0, 0.8, 650.0),
    "api_array": (200.0, np.array([30.0, 35.0, 40.0]), 0.8, 650.0),
    "api_series": (200.0, pd.Series([30.0, 35.0]), 0.8, 650.0),
    "gor_series": (200.0, 35.0, 0.8, pd.Series([650.0, 700.0], index=["q", "q"])),
    "zero_gg": (200.0, 35.0, 0.0, 650.0),
    "str_T": ("200", 35.0, 0.8, 650.0),
    "none_api": (200.0, None, 0.8, 650.0),
    "fraction_T": (Fraction(200, 1), 35.0, 0.8, 650.0),
    "fraction_api": (200.0, Fraction(35, 1), 0.8, 650.0),
    "decimal_api": (200.0, Decimal(35), 0.8, 650.0),
    "complex_T": (200.0 + 0j, 35.0, 0.8, 650.0),
    "list_T": ([200.0], 35.0, 0.8, 650.0),
}

# three passes over everything, the middle one in reverse order, so that any state
# kept between calls would be exercised with keys that compare equal but differ in type
orders = [list(fluids.items()), list(fluids.items())[::-1], list(fluids.items())]
for rnd, order in enumerate(orders):
    for fname, (T, api, gg, gor) in order:
        for pname, p in pressures.items():
            rec(f"pass{rnd}.viscosity_beggs_robinson[{fname}][{pname}]", visc, T, p, api, gg, gor)

# equal-valued temperatures / gravities of different types, interleaved
for T, api in itertools.product(
    (200, 200.0, np.float64(200.0), np.float32(200.0), np.int64(200), True, 1, 1.0, np.float64(1.0)),
    (35, 35.0, np.float64(35.0), np.int32(35), True, 1, 1.0, -0.0, 0.0, 0),
):
    for p in (2000.0, 3000.0):
        rec(f"types[{type(T).__name__}:{T!r}][{type(api).__name__}:{api!r}][{p}]", visc, T, p, api, 0.8, 650.0)

# more distinct fluids than any small cache holds, then the first ones again
many = [(100.0 + 0.5 * i, 10.0 + 0.1 * i) for i in range(700)]
for T, api in many + many[:50]:
    rec(f"many[{T}][{api}]", visc, T, 1500.0, api, 0.8, 650.0)

# calling conventions
rec("kw", visc, temperature=200.0, pressure=2000.0, api_gravity=35.0, gas_specific_gravity=0.8,
    solution_gor_initial=650.0)
rec("too_few", visc, 200.0, 2000.0, 35.0, 0.8)
rec("too_many", visc, 200.0, 2000.0, 35.0, 0.8, 650.0, 1.0)

# floating point error state and warning filters
with np.errstate(all="raise"):
    for fname in ("black", "np_f64", "overflow_np", "neg_T_np", "overflow_py"):
        T, api, gg, gor = fluids[fname]
        for p in (2000.0, 3000.0, np.float64(2000.0)):
            rec(f"errstate_raise[{fname}][{p!r}]", visc, T, p, api, gg, gor)
for fname in ("overflow_np", "neg_T_np", "black", "neg_T"):
    T, api, gg, gor = fluids[fname]

    def as_errors(T=T, api=api, gg=gg, gor=gor):
        with warnings.catch_warnings():
            warnings.simplefilter("error")
            return visc(T, 2000.0, api, gg, gor)

    rec(f"warnings_as_errors[{fname}].first", as_errors)
    rec(f"warnings_as_errors[{fname}].second", as_errors)
    rec(f"warnings_always[{fname}]", visc, T, 2000.0, api, gg, gor)

# the vectorised wrapper in Fluid and np.vectorize directly
p_grid = np.linspace(14.7, 9000.0, 41)
for name, args in {
    "black": (200.0, 35.0, 0.8, 650.0),
    "ints": (200, 35, 1, 650),
    "np": (np.float64(200.0), np.float64(35.0), np.float64(0.8), np.float64(650.0)),
    "light": (250.0, 45.0, 0.7, 1200.0),
    "neg_T": (-20.0, 35.0, 0.8, 650.0),
    "zero_T": (0.0, 35.0, 0.8, 650.0),
}.items():
    fl = Fluid(*args)
    for pname, p in {
        "grid": p_grid,
        "grid_int": np.arange(100, 5000, 700),
        "grid_2d": p_grid[:40].reshape(5, 8),
        "scalar_lo": 2000.0,
        "scalar_hi": 3000.0,
        "len1": np.array([2500.0]),
        "empty": np.array([], dtype=float),
        "series_str_labels": pd.Series(p_grid[:6], index=list("fedcba")),
        "series_dup_labels": pd.Series(p_grid[:6], index=[1, 1, 1, 0, 0, 0]),
        "list": [100.0, 3000.0],
    }.items():
        rec(f"Fluid.oil_viscosity[{name}][{pname}]", fl.oil_viscosity, p)
        rec(f"Fluid.oil_viscosity[{name}][{pname}].again", fl.oil_viscosity, p)
rec("vectorize_over_fluids", np.vectorize(visc), np.array([150.0, 200.0, 200.0]), 2650.0,
    np.array([30.0, 40.0, 40.0]), 0.8, np.array([500.0, 900.0, 900.0]))
rec("vectorize_object", np.vectorize(visc, otypes=[object]), np.array([200, 200.0, -20.0], dtype=object),
    np.array([2000.0, 3000.0, 2000.0], dtype=object), 35, 0.8, 650.0)

for table in ("pvt_oil.csv", "pvt_multiphase_oil.csv"):
    df = pd.read_csv(os.path.join(DATA, table))
    col = [c for c in df.columns if c.lower().startswith("p")][0]
    fl = Fluid(200.0, 35.0, 0.8, 650.0)
    for variant, ser in {
        "asis": df[col],
        "shuffled_rows": df[col].sample(frac=1.0, random_state=3),
        "dup_labels": df[col].set_axis(np.arange(len(df)) // 3),
        "numpy": df[col].to_numpy(),
    }.items():
        rec(f"table[{table}][{variant}].mu_o", fl.oil_viscosity, ser)

# helpers that stay as they were
rec("_mu_dead_to_live_br", oil._mu_dead_to_live_br, 1.5, np.array([0.0, 100.0, 650.0]))
rec("b_o_Standing", oil.b_o_Standing, 200.0, p_grid, 35.0, 0.8, 650.0)

with open(sys.argv[1], "w") as fh:
    fh.write("\n".join(LINES) + "\n")
