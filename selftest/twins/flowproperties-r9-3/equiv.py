"""Equivalence driver for bluebonnet.flow.flowproperties.

Usage: PYTHONPATH=<tree>/src /venv/bin/python equiv.py <outfile>
Writes repr() of every result at full precision (or the exception type).
"""

from __future__ import annotations

import os
import pickle
import sys
import warnings
from collections import OrderedDict

import numpy as np
import pandas as pd

from bluebonnet.flow import flowproperties as fp
from bluebonnet.flow.flowproperties import (
    FlowProperties,
    FlowPropertiesMultiPhase,
    FlowPropertiesOnePhase,
    FlowPropertiesSimple,
    FlowPropertiesTwoPhase,
    RelPermParams,
    alpha_multiphase,
    compressibility_combined_func,
    lambda_combined_func,
    pseudopressure_threephase,
    relative_permeabilities,
    relative_permeabilities_twophase,
    rescale_pseudopressure,
)

DATA = os.environ.get("BB_DATA", "/tmp/twin9_flowproperties/tests/data")
OUT = []


def fmt(x):
    """Full-precision, type-revealing representation."""
    if isinstance(x, pd.DataFrame):
        return (
            f"DataFrame(cols={list(x.columns)!r}, index={fmt(np.asarray(x.index))}, "
            + ", ".join(f"{c}={fmt(x[c].to_numpy())}" for c in x.columns)
            + ")"
        )
    if isinstance(x, pd.Series):
        return f"Series(name={x.name!r}, index={fmt(np.asarray(x.index))}, {fmt(x.to_numpy())})"
    if isinstance(x, np.ndarray):
        if x.dtype.names:
            return (
                f"{type(x).__name__}(shape={x.shape}, dtype={x.dtype!r}, "
                + ", ".join(f"{n}={fmt(np.asarray(x[n]))}" for n in x.dtype.names)
                + ")"
            )
        return (
            f"{type(x).__name__}(shape={x.shape}, dtype={x.dtype}, "
            f"[{', '.join(repr(v) for v in x.ravel().tolist())}])"
        )
    if isinstance(x, np.generic):
        return f"{type(x).__name__}({x.item()!r})"
    if isinstance(x, tuple) and hasattr(x, "_fields"):
        return f"{type(x).__name__}(" + ", ".join(fmt(v) for v in x) + ")"
    if isinstance(x, (tuple, list)):
        return f"{type(x).__name__}(" + ", ".join(fmt(v) for v in x) + ")"
    if isinstance(x, dict):
        return "{" + ", ".join(f"{k!r}: {fmt(v)}" for k, v in sorted(x.items())) + "}"
    return f"{type(x).__name__}:{x!r}"


def record(label, func):
    with warnings.catch_warnings(record=True) as caught:
        warnings.simplefilter("always")
        try:
            res = fmt(func())
        except Exception as exc:  # noqa: BLE001
            res = f"RAISED {type(exc).__name__}"
        warns = sorted({f"{w.category.__name__}:{w.message}" for w in caught})
    OUT.append(f"{label} -> {res} | warnings={warns}")


# ----------------------------------------------------------------------------
# data
# ----------------------------------------------------------------------------
ren_gas = {
    "P": "pressure",
    "Z-Factor": "z-factor",
    "Cg": "compressibility",
    "Viscosity": "viscosity",
    "Density": "density",
}
ren_oil = {
    "P": "pressure",
    "Z-Factor": "z-factor",
    "Co": "compressibility",
    "Oil_Viscosity": "viscosity",
    "Oil_Density": "density",
}
pvt_gas = pd.read_csv(f"{DATA}/pvt_gas.csv").rename(columns=ren_gas)
pvt_ideal = pd.read_csv(f"{DATA}/pvt_ideal_gas.csv").rename(columns=ren_gas)
pvt_oil = pd.read_csv(f"{DATA}/pvt_oil.csv").rename(columns=ren_oil)
pvt_hay = pd.read_csv(f"{DATA}/pvt_gas_HAYNESVILLE SHALE_20.csv", index_col=0)
pvt_multi = pd.read_csv(f"{DATA}/pvt_multiphase_oil.csv", index_col=0)


def describe_flow(fl, probes_p, probes_m):
    """Everything observable on a FlowProperties object."""
    out = OrderedDict()
    out["type"] = type(fl).__name__
    out["m_i"] = fl.m_i
    out["m_scaled"] = [_try(fl.m_scaled_func, p) for p in probes_p]
    out["alpha"] = [_try(fl.alpha, m) for m in probes_m]
    out["alpha_fill"] = fl.alpha.fill_value
    props = fl.pvt_props
    out["keys"] = list(props.keys()) if isinstance(props, dict) else list(props.columns)
    out["m-scaled"] = np.asarray(props["m-scaled"])
    out["alpha_col"] = np.asarray(props["alpha"])
    out["repr_equal"] = repr(fl) == props.__repr__()
    return "; ".join(f"{k}={v if isinstance(v, str) else fmt(v)}" for k, v in out.items())


def _try(f, x):
    try:
        return f(x)
    except Exception as exc:  # noqa: BLE001
        return f"RAISED {type(exc).__name__}"


class Str:
    def __init__(self, s):
        self.s = s

    def __call__(self):
        return self.s


def flow_case(label, cls, table, p_i, probes_p, probes_m):
    def run():
        before = table.copy() if hasattr(table, "copy") else dict(table)
        fl = cls(table, p_i)
        same_input = (
            list(before.keys()) == list(table.keys())
            if isinstance(table, dict)
            else list(before.columns) == list(table.columns)
        )
        return Str(describe_flow(fl, probes_p, probes_m) + f"; input_unchanged={same_input}")

    with warnings.catch_warnings(record=True) as caught:
        warnings.simplefilter("always")
        try:
            res = run()()
        except Exception as exc:  # noqa: BLE001
            res = f"RAISED {type(exc).__name__}"
        warns = sorted(
            {f"{w.category.__name__}:{w.message}:{os.path.basename(w.filename)}" for w in caught}
        )
    OUT.append(f"{label} -> {res} | warnings={warns}")


probes_m = [-0.5, 0.0, 1e-9, 0.1, 0.5, 0.999, 1.0, 1.5, np.array([0.0, 0.3, 2.0]), np.nan]

# ----------------------------------------------------------------------------
# FlowProperties / FlowPropertiesOnePhase / FlowPropertiesSimple
# ----------------------------------------------------------------------------
for name, tab in (("gas", pvt_gas), ("ideal", pvt_ideal), ("oil", pvt_oil), ("hay", pvt_hay)):
    pmin, pmax = tab["pressure"].min(), tab["pressure"].max()
    mid = float(tab["pressure"].iloc[len(tab) // 2])
    probes_p = [pmin, mid, 0.5 * (pmin + pmax), pmax, pmax + 1.0, np.array([mid, pmax])]
    for p_i in (mid, pmax, float(tab["pressure"].iloc[1]), 0.37 * pmax, pmax * 2, -5.0):
        for cls in (FlowProperties, FlowPropertiesOnePhase, FlowPropertiesSimple):
            flow_case(f"{cls.__name__}[{name}, p_i={p_i!r}] long", cls, tab, p_i, probes_p, probes_m)
    # dict of arrays instead of a DataFrame
    as_dict = {c: tab[c].to_numpy() for c in tab.columns}
    flow_case(f"FlowProperties[{name}] dict", FlowProperties, as_dict, mid, probes_p, probes_m)
    flow_case(f"FlowPropertiesSimple[{name}] dict", FlowPropertiesSimple, as_dict, mid, probes_p, probes_m)
    # short form: user-supplied alpha
    short = tab[["pressure", "pseudopressure"]].iloc[1:].copy()
    short["alpha"] = np.linspace(1.0, 3.0, len(short)) ** 2
    flow_case(f"FlowProperties[{name}] short", FlowProperties, short, mid, probes_p, probes_m)
    short_d = {c: short[c].to_numpy() for c in short.columns}
    flow_case(f"FlowProperties[{name}] short dict", FlowProperties, short_d, mid, probes_p, probes_m)
    # long AND alpha present: alpha branch wins
    both = tab.iloc[1:].copy()
    both["alpha"] = np.linspace(2.0, 0.5, len(both))
    flow_case(f"FlowProperties[{name}] both", FlowProperties, both, mid, probes_p, probes_m)
    flow_case(f"FlowPropertiesSimple[{name}] both", FlowPropertiesSimple, both, mid, probes_p, probes_m)
    # missing columns
    for drop in ("pressure", "pseudopressure", "compressibility", "viscosity", "z-factor"):
        flow_case(
            f"FlowProperties[{name}] drop {drop}", FlowProperties, tab.drop(columns=[drop]), mid, probes_p, probes_m
        )
        flow_case(
            f"FlowPropertiesSimple[{name}] drop {drop}",
            FlowPropertiesSimple,
            tab.drop(columns=[drop]),
            mid,
            probes_p,
            probes_m,
        )
        flow_case(
            f"FlowProperties[{name}] short drop {drop}",
            FlowProperties,
            short.drop(columns=[drop], errors="ignore"),
            mid,
            probes_p,
            probes_m,
        )
    # two-row table and one-row table
    flow_case(f"FlowProperties[{name}] 2 rows", FlowProperties, tab.iloc[3:5].copy(), float(tab["pressure"].iloc[3]), probes_p, probes_m)
    flow_case(f"FlowPropertiesSimple[{name}] 2 rows", FlowPropertiesSimple, tab.iloc[3:5].copy(), float(tab["pressure"].iloc[4]), probes_p, probes_m)
    flow_case(f"FlowProperties[{name}] 1 row", FlowProperties, tab.iloc[3:4].copy(), float(tab["pressure"].iloc[3]), probes_p, probes_m)
    flow_case(f"FlowPropertiesSimple[{name}] 1 row", FlowPropertiesSimple, tab.iloc[3:4].copy(), float(tab["pressure"].iloc[3]), probes_p, probes_m)
flow_case("FlowProperties[empty dict]", FlowProperties, {}, 10.0, [1.0], probes_m)
flow_case("FlowPropertiesSimple[empty dict]", FlowPropertiesSimple, {}, 10.0, [1.0], probes_m)
record("FlowProperties[None]", lambda: FlowProperties(None, 10.0))
record("FlowProperties[int]", lambda: FlowProperties(3, 10.0))
record("FlowPropertiesSimple[None]", lambda: FlowPropertiesSimple(None, 10.0))

# ----------------------------------------------------------------------------
# RelPermParams
# ----------------------------------------------------------------------------
good = RelPermParams(n_o=1, n_g=1, n_w=1, S_or=0, S_gc=0, S_wc=0.1, k_ro_max=1, k_rw_max=1, k_rg_max=1)
corey = RelPermParams(2.5, 3.0, 1.5, 0.15, 0.1, 0.05, 0.8, 0.3, 0.9)
record("RelPermParams fields", lambda: RelPermParams._fields)
record("RelPermParams repr", lambda: repr(corey))
record("RelPermParams tuple", lambda: tuple(corey))
record("RelPermParams asdict", lambda: dict(corey._asdict()))
record("RelPermParams replace", lambda: corey._replace(n_o=4))
record("RelPermParams pickle", lambda: pickle.loads(pickle.dumps(corey)) == corey)
record("RelPermParams defaults", lambda: RelPermParams._field_defaults)
record("RelPermParams missing", lambda: RelPermParams(1, 2, 3))
record("RelPermParams extra", lambda: RelPermParams(1, 2, 3, 4, 5, 6, 7, 8, 9, 10))
record("RelPermParams kw bad", lambda: RelPermParams(1, 2, 3, 4, 5, 6, 7, 8, k_xx=1))
record("RelPermParams is tuple", lambda: isinstance(corey, tuple))
record("RelPermParams name/module", lambda: (RelPermParams.__name__, RelPermParams.__module__))
record("RelPermParams unpack", lambda: [v for v in corey])

# ----------------------------------------------------------------------------
# relative_permeabilities
# ----------------------------------------------------------------------------
Sw0 = 0.1
sat_df = pd.DataFrame(
    {"So": np.linspace(0, 1 - Sw0, 50), "Sw": np.full(50, Sw0), "Sg": np.linspace(1 - Sw0, 0, 50)}
)
rng = np.random.default_rng(7)
tri = rng.dirichlet([1.0, 1.0, 1.0], size=40)
sat_tri = pd.DataFrame({"So": tri[:, 0], "Sw": tri[:, 1], "Sg": tri[:, 2]})
sat_tri_reordered = sat_tri[["Sg", "So", "Sw"]]
sat_f32 = sat_tri.astype(np.float32)
sat_edge = pd.DataFrame(
    {"So": [0.0, 1.0, 0.0, 0.0, 0.15, 0.8, 0.5], "Sw": [0.0, 0.0, 1.0, 0.0, 0.1, 0.1, 0.5], "Sg": [1.0, 0.0, 0.0, 1.0, 0.75, 0.1, 0.0]}
)
sat_edge.loc[3, ["So", "Sw", "Sg"]] = [0.0005, 0.0, 1.0]  # sum just inside tolerance
sat_neg = pd.DataFrame({"So": [-0.0004, 1.0004], "Sw": [0.5, -0.0004], "Sg": [0.5, 0.0]})
sat_one = sat_tri.iloc[:1]
sat_two = sat_tri.iloc[:2]
sat_empty = sat_tri.iloc[:0]
sat_int = pd.DataFrame({"So": [1, 0, 0], "Sw": [0, 1, 0], "Sg": [0, 0, 1]})
sat_nan = pd.DataFrame({"So": [np.nan, 0.5], "Sw": [0.5, 0.25], "Sg": [0.5, 0.25]})
sat_bad = pd.DataFrame({"So": [0.5, 0.5], "Sw": [0.5, 0.25], "Sg": [0.5, 0.25]})
sat_extra = sat_tri.assign(extra=0.0)
params_list = {
    "good": good,
    "corey": corey,
    "n6": RelPermParams(6, 6, 6, 0.2, 0.2, 0.2, 1, 1, 1),
    "n6.5": RelPermParams(6.5, 2, 2, 0.2, 0.2, 0.2, 1, 1, 1),
    "n0.5": RelPermParams(2, 0.5, 2, 0.2, 0.2, 0.2, 1, 1, 1),
    "nboth": RelPermParams(7, 0.5, 2, 0.2, 0.2, 0.2, 1, 1, 1),
    "Sneg": RelPermParams(2, 2, 2, -0.1, 0.2, 0.2, 1, 1, 1),
    "Sbig": RelPermParams(2, 2, 2, 0.1, 1.2, 0.2, 1, 1, 1),
    "Sboth": RelPermParams(2, 2, 2, -0.1, 1.2, 0.2, 1, 1, 1),
    "kneg": RelPermParams(2, 2, 2, 0.1, 0.2, 0.2, 1, -0.1, 1),
    "kbig": RelPermParams(2, 2, 2, 0.1, 0.2, 0.2, 1, 1, 1.1),
    "kboth": RelPermParams(2, 2, 2, 0.1, 0.2, 0.2, -1, 1, 1.1),
    "Ssum1": RelPermParams(2, 2, 2, 0.5, 0.25, 0.25, 1, 1, 1),
    "Sall1": RelPermParams(2, 2, 2, 1, 1, 1, 1, 1, 1),
    "kzero": RelPermParams(1, 1, 1, 0, 0, 0, 0, 0, 0),
    "nan_n": RelPermParams(np.nan, 2, 2, 0.1, 0.1, 0.1, 1, 1, 1),
    "nan_n2": RelPermParams(2, np.nan, 7, 0.1, 0.1, 0.1, 1, 1, 1),
    "nan_S": RelPermParams(2, 2, 2, 0.1, np.nan, 0.1, 1, 1, 1),
    "np_scalars": RelPermParams(*(np.float64(v) for v in corey)),
    "ints": RelPermParams(2, 3, 1, 0, 0, 0, 1, 1, 1),
}
sats = {
    "df50": sat_df,
    "tri": sat_tri,
    "tri_reordered": sat_tri_reordered,
    "f32": sat_f32,
    "edge": sat_edge,
    "neg": sat_neg,
    "one": sat_one,
    "two": sat_two,
    "empty": sat_empty,
    "int": sat_int,
    "nan": sat_nan,
    "bad": sat_bad,
    "extra": sat_extra,
}
with np.errstate(all="ignore"):
    for sname, sat in sats.items():
        for pname, par in params_list.items():
            record(
                f"relative_permeabilities[{sname},{pname}] recarray",
                lambda sat=sat, par=par: relative_permeabilities(sat.to_records(index=False), par),
            )
        record(
            f"relative_permeabilities[{sname},corey] structured ndarray",
            lambda sat=sat: relative_permeabilities(np.asarray(sat.to_records(index=False)), corey),
        )
    record("relative_permeabilities[DataFrame]", lambda: relative_permeabilities(sat_tri, corey))
    record("relative_permeabilities[plain 2d]", lambda: relative_permeabilities(tri, corey))
    record(
        "relative_permeabilities[0-d record]",
        lambda: relative_permeabilities(sat_tri.to_records(index=False)[0], corey),
    )
    record(
        "relative_permeabilities[2-d records]",
        lambda: relative_permeabilities(sat_tri.to_records(index=False).reshape(8, 5), corey),
    )
    record(
        "relative_permeabilities[missing field]",
        lambda: relative_permeabilities(sat_tri[["So", "Sw"]].assign(X=sat_tri["Sg"]).to_records(index=False), corey),
    )
    record("relative_permeabilities[params tuple]", lambda: relative_permeabilities(sat_tri.to_records(index=False), tuple(corey)))
    record(
        "relative_permeabilities[result writable/owndata]",
        lambda: (
            (r := relative_permeabilities(sat_tri.to_records(index=False), corey)).flags.writeable,
            r.flags.c_contiguous,
            r.ndim,
            r.dtype.itemsize,
        ),
    )

# ----------------------------------------------------------------------------
# relative_permeabilities_twophase
# ----------------------------------------------------------------------------
with np.errstate(all="ignore"):
    for pname, par in params_list.items():
        record(f"twophase[{pname}] default", lambda par=par: relative_permeabilities_twophase(par))
        for sw in (0.0, 0.05, 0.1, 0.1000001, 0.15, 0.8, 1.0, -0.1, 0, 1, np.float64(0.05), np.nan):
            record(
                f"twophase[{pname}, Sw={sw!r}]",
                lambda par=par, sw=sw: relative_permeabilities_twophase(par, sw),
            )
    record("twophase[kw]", lambda: relative_permeabilities_twophase(params=corey, Sw=0.02))
    record("twophase[array Sw]", lambda: relative_permeabilities_twophase(corey, np.array([0.01, 0.02])))
    record("twophase[str Sw]", lambda: relative_permeabilities_twophase(corey, "a"))
    record("twophase[tuple params]", lambda: relative_permeabilities_twophase(tuple(corey), 0.02))

# ----------------------------------------------------------------------------
# rescale_pseudopressure
# ----------------------------------------------------------------------------
def build_df_pvt(sw=0.1):
    oil = pd.read_csv(f"{DATA}/pvt_oil.csv")
    water = pd.read_csv(f"{DATA}/pvt_water.csv").rename(
        columns={"T": "temperature", "P": "pressure", "Viscosity": "mu_w"}
    )
    ren = {"T": "temperature", "P": "pressure", "Oil_Viscosity": "mu_o", "Gas_Viscosity": "mu_g", "Rso": "Rs"}
    df = water.drop(columns=["temperature"]).merge(oil.rename(columns=ren), on="pressure").assign(Rv=0)
    df["So"] = (1 - sw) / ((df["Rs"].max() - df["Rs"]) * df["Bg"] / df["Bo"] / 5.61458 + 1)
    return df


df_pvt = build_df_pvt()


class AttrDict(dict):
    """dict with attribute access and no usable .copy -> deepcopy path exercised too."""

    __getattr__ = dict.__getitem__


def rescale_case(tab, p_frac, p_i):
    before = tab.copy()
    res = rescale_pseudopressure(tab, p_frac, p_i)
    unchanged = bool(np.array_equal(np.asarray(before["pseudopressure"]), np.asarray(tab["pseudopressure"])))
    return (type(res).__name__, res["pseudopressure"], list(res.keys()), unchanged, res is tab)


pmax = float(df_pvt["pressure"].max())
for p_frac, p_i in (
    (1000, 8000.0),
    (1000.0, 6000),
    (0, pmax),
    (0.0, 10.0),
    (123.4, 4567.8),
    (5000, 1000),
    (2000, 2000),
    (-1.0, 5000.0),
    (1000.0, pmax + 1),
    (-1.0, pmax + 1),
    (pmax + 1, -1.0),
    (np.nan, 5000.0),
    (1000.0, np.nan),
    (np.array([500.0, 1000.0]), 5000.0),
    (np.float64(750.0), np.float32(4000.0)),
):
    with np.errstate(all="ignore"):
        record(f"rescale[df, {p_frac!r}, {p_i!r}]", lambda a=p_frac, b=p_i: rescale_case(df_pvt, a, b))
        record(
            f"rescale[multi, {p_frac!r}, {p_i!r}]", lambda a=p_frac, b=p_i: rescale_case(pvt_multi, a, b)
        )
        record(
            f"rescale[attrdict, {p_frac!r}, {p_i!r}]",
            lambda a=p_frac, b=p_i: rescale_case(
                AttrDict(pressure=df_pvt["pressure"].to_numpy(), pseudopressure=df_pvt["pseudopressure"].to_numpy()),
                a,
                b,
            ),
        )
record("rescale[plain dict]", lambda: rescale_pseudopressure({"pressure": np.arange(3.0), "pseudopressure": np.arange(3.0)}, 0.5, 1.5))
record("rescale[missing col]", lambda: rescale_pseudopressure(df_pvt.drop(columns=["pseudopressure"]), 1000, 5000))
record("rescale[2 rows]", lambda: rescale_case(df_pvt.iloc[4:6].reset_index(drop=True), float(df_pvt.pressure[4]), float(df_pvt.pressure[5])))
record("rescale[1 row]", lambda: rescale_case(df_pvt.iloc[4:5].reset_index(drop=True), float(df_pvt.pressure[4]), float(df_pvt.pressure[4])))
record("rescale[full df]", lambda: rescale_pseudopressure(df_pvt, 1000, 8000.0))

# ----------------------------------------------------------------------------
# multiphase helpers and FlowPropertiesTwoPhase.from_table
# ----------------------------------------------------------------------------
ref_rho = {"rho_o0": 141.5 / (45 + 131.5), "rho_g0": 1.03e-3, "rho_w0": 1}
ref_rho_np = {"rho_o0": np.float64(0.85), "rho_g0": np.float32(1.5e-3), "rho_w0": 1.02}
PVT_COLS = ["pseudopressure", "pressure", "Bo", "Bg", "Bw", "Rs", "Rv", "mu_o", "mu_g", "mu_w", "So"]
KR_COLS = ["So", "Sg", "Sw", "kro", "krg", "krw"]


def describe_two_phase(obj, p_probe, so_probe, m_probe):
    parts = [
        type(obj).__name__,
        fmt(obj.m_i),
        fmt([_try(obj.m_scaled_func, p) for p in p_probe]),
        fmt([_try(obj.alpha, m) for m in m_probe]),
        fmt(obj.alpha.fill_value),
        repr(sorted(obj.pvt.keys())),
        repr(sorted(obj.kr.keys())),
        fmt({k: (_try(v, np.asarray(p_probe[:4])) if callable(v) else v) for k, v in obj.pvt.items()}),
        fmt({k: _try(v, np.asarray(so_probe)) for k, v in obj.kr.items()}),
        repr(sorted(obj.pvt_props.keys())),
        fmt(np.asarray(obj.pvt_props["pseudopressure"])),
        fmt(np.asarray(obj.pvt_props["alpha"])),
        fmt(np.asarray(obj.pvt_props["m-scaled"])),
        fmt(np.asarray(obj.pvt_props["pressure"])),
        repr(sorted(k for k in vars(obj))),
    ]
    return Str(" ;; ".join(parts))


class Sub(FlowPropertiesTwoPhase):
    tag = "sub"


def from_table_case(cls, pvt_tab, kr_tab, rho, phi, sw, p_i):
    pvt_before = list(pvt_tab.keys())
    obj = cls.from_table(pvt_tab, kr_tab, rho, phi, sw, p_i)
    res = describe_two_phase(obj, [0.0, 10.0, 1234.5, p_i, 20000.0, -3.0], [0.0, 0.2, 0.4, 0.9, 1.2], probes_m)
    return Str(res() + f" ;; keys_unchanged={pvt_before == list(pvt_tab.keys())}")


def record_str(label, func):
    with warnings.catch_warnings(record=True) as caught:
        warnings.simplefilter("always")
        try:
            res = func()()
        except Exception as exc:  # noqa: BLE001
            res = f"RAISED {type(exc).__name__}"
        warns = sorted({f"{w.category.__name__}:{w.message}" for w in caught})
    OUT.append(f"{label} -> {res} | warnings={warns}")


with np.errstate(all="ignore"):
    for pname, par in (("good", good), ("corey", corey), ("ints", params_list["ints"])):
        for sw in (0.1, 0.0, 0.05):
            if sw > par.S_wc:
                continue
            df_kr = relative_permeabilities_twophase(par, sw)
            base = build_df_pvt(sw)
            for p_frac, p_res in ((1000, 8000.0), (500.0, 6000.0)):
                tab = rescale_pseudopressure(base, p_frac, p_res)
                for phi in (0.1, 0.25, 1):
                    for rho in (ref_rho, ref_rho_np):
                        for cls in (FlowPropertiesTwoPhase, Sub):
                            record_str(
                                f"from_table[{cls.__name__},{pname},Sw={sw},pf={p_frac},pi={p_res},phi={phi},rho={'np' if rho is ref_rho_np else 'py'}]",
                                lambda cls=cls, tab=tab, df_kr=df_kr, rho=rho, phi=phi, sw=sw, p_res=p_res: from_table_case(
                                    cls, tab, df_kr, rho, phi, sw, p_res
                                ),
                            )
    df_kr = relative_permeabilities_twophase(good)
    tab = rescale_pseudopressure(df_pvt, 1000, 8000.0)
    # dict-of-arrays inputs
    tab_d = {c: tab[c].to_numpy() for c in tab.columns}
    kr_d = {c: df_kr[c].to_numpy() for c in df_kr.columns}
    record_str("from_table[dict inputs]", lambda: from_table_case(FlowPropertiesTwoPhase, tab_d, kr_d, ref_rho, 0.1, 0.1, 8000.0))
    record_str("from_table[multi csv]", lambda: from_table_case(FlowPropertiesTwoPhase, pvt_multi.assign(Bw=pvt_multi["Bw"]), df_kr, ref_rho, 0.1, 0.1, 6000.0))
    record_str("from_table[kw]", lambda: Str(type(FlowPropertiesTwoPhase.from_table(pvt_props=tab, kr_props=df_kr, reference_densities=ref_rho, phi=0.1, Sw=0.1, p_i=8000.0)).__name__))
    for drop in PVT_COLS:
        record_str(
            f"from_table[pvt drop {drop}]",
            lambda drop=drop: from_table_case(FlowPropertiesTwoPhase, tab.drop(columns=[drop]), df_kr, ref_rho, 0.1, 0.1, 8000.0),
        )
    for drop in KR_COLS:
        record_str(
            f"from_table[kr drop {drop}]",
            lambda drop=drop: from_table_case(FlowPropertiesTwoPhase, tab, df_kr.drop(columns=[drop]), ref_rho, 0.1, 0.1, 8000.0),
        )
    record_str("from_table[both missing]", lambda: from_table_case(FlowPropertiesTwoPhase, tab.drop(columns=["Bo"]), df_kr.drop(columns=["kro"]), ref_rho, 0.1, 0.1, 8000.0))
    for drop in ("rho_o0", "rho_g0", "rho_w0"):
        record_str(
            f"from_table[rho drop {drop}]",
            lambda drop=drop: from_table_case(
                FlowPropertiesTwoPhase, tab, df_kr, {k: v for k, v in ref_rho.items() if k != drop}, 0.1, 0.1, 8000.0
            ),
        )
    record_str("from_table[rho extra overrides Bo]", lambda: from_table_case(FlowPropertiesTwoPhase, tab, df_kr, {**ref_rho, "extra": 3.0}, 0.1, 0.1, 8000.0))
    record_str("from_table[rho None]", lambda: from_table_case(FlowPropertiesTwoPhase, tab, df_kr, None, 0.1, 0.1, 8000.0))
    record_str("from_table[p_i outside]", lambda: from_table_case(FlowPropertiesTwoPhase, tab, df_kr, ref_rho, 0.1, 0.1, 1e6))
    record_str("from_table[p_i below]", lambda: from_table_case(FlowPropertiesTwoPhase, tab, df_kr, ref_rho, 0.1, 0.1, -1.0))
    record_str("from_table[So outside kr table]", lambda: from_table_case(FlowPropertiesTwoPhase, tab.assign(So=tab["So"] + 0.5), df_kr, ref_rho, 0.1, 0.1, 8000.0))
    record_str("from_table[2 rows]", lambda: from_table_case(FlowPropertiesTwoPhase, tab.iloc[10:12].reset_index(drop=True), df_kr, ref_rho, 0.1, 0.1, float(tab["pressure"].iloc[11])))
    record_str("from_table[1 row]", lambda: from_table_case(FlowPropertiesTwoPhase, tab.iloc[10:11].reset_index(drop=True), df_kr, ref_rho, 0.1, 0.1, float(tab["pressure"].iloc[10])))
    record_str("from_table[phi=0]", lambda: from_table_case(FlowPropertiesTwoPhase, tab, df_kr, ref_rho, 0.0, 0.1, 8000.0))
    record_str("from_table[None pvt]", lambda: from_table_case(FlowPropertiesTwoPhase, None, df_kr, ref_rho, 0.1, 0.1, 8000.0))

    # the helper functions directly
    two = FlowPropertiesTwoPhase.from_table(tab, df_kr, ref_rho, 0.1, 0.1, 8000.0)
    pvt_i, kr_i = two.pvt, two.kr
    p_arr = tab["pressure"].to_numpy()
    so_arr = tab["So"].to_numpy()
    cases = {
        "table": (p_arr, so_arr),
        "series": (tab["pressure"], tab["So"]),
        "scalar": (2500.0, 0.6),
        "npscalar": (np.float64(2500.0), np.float64(0.6)),
        "int": (2500, 0.6),
        "list": ([100.0, 2500.0, 7000.0], [0.2, 0.6, 0.85]),
        "len1": (np.array([3000.0]), np.array([0.5])),
        "len2": (np.array([3000.0, 3010.0]), np.array([0.5, 0.51])),
        "broadcast": (np.array([[1000.0], [4000.0]]), np.array([0.3, 0.6, 0.9])),
        "unsorted": (p_arr[::-1].copy(), so_arr[::-1].copy()),
        "edges": (np.array([0.0, 0.5, p_arr[-1] - 0.5, p_arr[-1]]), np.array([0.0, 0.45, 0.9, 0.9])),
        "extrap": (np.array([-10.0, p_arr[-1] + 100.0]), np.array([0.1, 0.8])),
        "so_out": (np.array([1000.0, 2000.0]), np.array([0.5, 0.95])),
        "nan": (np.array([1000.0, np.nan]), np.array([np.nan, 0.5])),
        "empty": (np.array([]), np.array([])),
        "mismatch": (np.array([1000.0, 2000.0]), np.array([0.1, 0.2, 0.3])),
    }
    for cname, (p, so) in cases.items():
        record(f"lambda_combined_func[{cname}]", lambda p=p, so=so: lambda_combined_func(p, so, pvt_i, kr_i))
        record(f"pseudopressure_threephase[{cname}]", lambda p=p, so=so: pseudopressure_threephase(p, so, pvt_i, kr_i))
        for phi in (0.1, 1, np.float64(0.3)):
            for sw in (0.1, 0.0, 0, np.float64(0.25)):
                record(
                    f"compressibility_combined_func[{cname},phi={phi!r},Sw={sw!r}]",
                    lambda p=p, so=so, phi=phi, sw=sw: compressibility_combined_func(p, so, phi, sw, pvt_i),
                )
                record(
                    f"alpha_multiphase[{cname},phi={phi!r},Sw={sw!r}]",
                    lambda p=p, so=so, phi=phi, sw=sw: alpha_multiphase(p, so, phi, sw, pvt_i, kr_i),
                )
    record(
        "compressibility_combined_func[array Sw]",
        lambda: compressibility_combined_func(p_arr, so_arr, 0.1, np.linspace(0.0, 0.1, len(p_arr)), pvt_i),
    )
    record(
        "compressibility_combined_func[array Sw mismatched]",
        lambda: compressibility_combined_func(p_arr, so_arr, 0.1, np.linspace(0.0, 0.1, 3), pvt_i),
    )
    record(
        "compressibility_combined_func[array phi]",
        lambda: compressibility_combined_func(p_arr, so_arr, np.linspace(0.05, 0.3, len(p_arr)), 0.1, pvt_i),
    )
    for drop in ("rho_o0", "rho_g0", "rho_w0", "Rv", "Rs", "Bo", "Bg", "Bw", "mu_o", "mu_g", "mu_w"):
        sub = {k: v for k, v in pvt_i.items() if k != drop}
        record(f"lambda_combined_func[pvt drop {drop}]", lambda sub=sub: lambda_combined_func(p_arr, so_arr, sub, kr_i))
        record(f"pseudopressure_threephase[pvt drop {drop}]", lambda sub=sub: pseudopressure_threephase(p_arr, so_arr, sub, kr_i))
        record(f"compressibility_combined_func[pvt drop {drop}]", lambda sub=sub: compressibility_combined_func(p_arr, so_arr, 0.1, 0.1, sub))
        record(f"alpha_multiphase[pvt drop {drop}]", lambda sub=sub: alpha_multiphase(p_arr, so_arr, 0.1, 0.1, sub, kr_i))
    for drop in ("kro", "krg", "krw"):
        sub = {k: v for k, v in kr_i.items() if k != drop}
        record(f"lambda_combined_func[kr drop {drop}]", lambda sub=sub: lambda_combined_func(p_arr, so_arr, pvt_i, sub))
        record(f"pseudopressure_threephase[kr drop {drop}]", lambda sub=sub: pseudopressure_threephase(p_arr, so_arr, pvt_i, sub))
        record(f"alpha_multiphase[kr drop {drop}]", lambda sub=sub: alpha_multiphase(p_arr, so_arr, 0.1, 0.1, pvt_i, sub))
    # relative-permeability table with mobile water (krw > 0), used directly and through from_table
    kr_wet = df_kr.assign(krw=np.linspace(0.3, 0.02, len(df_kr)), krg=df_kr["krg"] * 0.7 + 0.01)
    record_str("from_table[wet kr]", lambda: from_table_case(FlowPropertiesTwoPhase, tab, kr_wet, ref_rho_np, 0.2, 0.1, 7000.0))
    two_wet = FlowPropertiesTwoPhase.from_table(tab, kr_wet, ref_rho_np, 0.2, 0.1, 7000.0)
    for cname, (p, so) in cases.items():
        record(f"lambda_combined_func[wet,{cname}]", lambda p=p, so=so: lambda_combined_func(p, so, two_wet.pvt, two_wet.kr))
        record(f"pseudopressure_threephase[wet,{cname}]", lambda p=p, so=so: pseudopressure_threephase(p, so, two_wet.pvt, two_wet.kr))
        record(f"alpha_multiphase[wet,{cname}]", lambda p=p, so=so: alpha_multiphase(p, so, 0.2, 0.1, two_wet.pvt, two_wet.kr))
    # hand-made analytic property functions (plain Python callables, not interp1d)
    pvt_fn = {
        "rho_o0": 0.8,
        "rho_g0": 1e-3,
        "rho_w0": 1.0,
        "Rv": lambda p: 1e-6 * p,
        "Rs": lambda p: 0.1 * p**0.8,
        "Bo": lambda p: 1.0 + 1e-4 * p,
        "Bg": lambda p: 5.0 / (p + 15.0),
        "Bw": lambda p: 1.03 - 1e-6 * p,
        "mu_o": lambda p: 1.0 - 5e-5 * p,
        "mu_g": lambda p: 0.012 + 1e-6 * p,
        "mu_w": lambda p: 0.4 + 0 * p,
    }
    kr_fn = {"kro": lambda s: s**2, "krg": lambda s: (0.9 - s) ** 2, "krw": lambda s: 0.05 + 0.1 * s}
    for cname, (p, so) in cases.items():
        if cname in ("list",):
            continue
        record(f"lambda_combined_func[fn,{cname}]", lambda p=p, so=so: lambda_combined_func(p, so, pvt_fn, kr_fn))
        record(f"pseudopressure_threephase[fn,{cname}]", lambda p=p, so=so: pseudopressure_threephase(p, so, pvt_fn, kr_fn))
        record(f"compressibility_combined_func[fn,{cname}]", lambda p=p, so=so: compressibility_combined_func(p, so, 0.2, 0.1, pvt_fn))
        record(f"alpha_multiphase[fn,{cname}]", lambda p=p, so=so: alpha_multiphase(p, so, 0.2, 0.1, pvt_fn, kr_fn))

# ----------------------------------------------------------------------------
# FlowPropertiesMultiPhase (constructor behaviour only)
# ----------------------------------------------------------------------------
mp = pd.DataFrame({"pseudopressure": [0.0, 0.5, 1.0, 0.2, 0.7], "alpha": [1.0, 2.0, 3.0, 1.5, 2.5], "So": [0.1, 0.4, 0.8, 0.3, 0.5], "Sg": [0.8, 0.5, 0.1, 0.6, 0.4], "Sw": [0.1, 0.1, 0.1, 0.1, 0.1]})
record("FlowPropertiesMultiPhase[df]", lambda: type(FlowPropertiesMultiPhase(mp)).__name__)
record("FlowPropertiesMultiPhase[missing]", lambda: type(FlowPropertiesMultiPhase(mp.drop(columns=["So"]))).__name__)
record("FlowPropertiesMultiPhase[dict]", lambda: type(FlowPropertiesMultiPhase({c: mp[c].to_numpy() for c in mp})).__name__)

# ----------------------------------------------------------------------------
# module surface
# ----------------------------------------------------------------------------
record("alias", lambda: FlowPropertiesOnePhase is FlowProperties)
record("mro", lambda: [c.__name__ for c in FlowPropertiesTwoPhase.__mro__])
record(
    "public names defined here",
    lambda: sorted(
        n
        for n in dir(fp)
        if not n.startswith("_") and getattr(getattr(fp, n), "__module__", None) == fp.__name__
    ),
)
record("from_table is classmethod", lambda: isinstance(vars(FlowPropertiesTwoPhase)["from_table"], classmethod))

with open(sys.argv[1], "w") as fh:
    fh.write("\n".join(OUT) + "\n")
print(f"{len(OUT)} records written to {sys.argv[1]}")
