"""Equivalence driver: writes results of the touched functions to the file given as argv[1]."""

import os
import sys
import warnings

import numpy as np
import pandas as pd

BB_DATA = os.environ.get("BB_DATA", "/tmp/twin3_waterfluid/tests/data")
EXC_TYPE = True
LINES = []


def fmt(value):
    if isinstance(value, pd.DataFrame):
        cols = [f"{c}:{fmt(value[c].to_numpy())}" for c in value.columns]
        return "DataFrame[" + "; ".join(cols) + "]"
    if isinstance(value, pd.Series):
        return "Series(" + fmt(value.to_numpy()) + ")"
    if isinstance(value, np.ndarray):
        flat = ",".join(fmt(v) for v in value.ravel().tolist())
        return f"ndarray<{value.dtype},{value.shape}>[{flat}]"
    if isinstance(value, np.generic):
        return f"{type(value).__name__}({value.item()!r})"
    if isinstance(value, (list, tuple)):
        return type(value).__name__ + "[" + ",".join(fmt(v) for v in value) + "]"
    return repr(value)


def record(label, func, *args, **kwargs):
    with warnings.catch_warnings(record=True) as caught:
        warnings.simplefilter("always")
        try:
            with np.errstate(all="ignore"):
                out = fmt(func(*args, **kwargs))
        except Exception as exc:  # noqa: BLE001
            out = "EXC:" + (type(exc).__name__ if EXC_TYPE else "raised")
    cats = sorted({w.category.__name__ for w in caught})
    LINES.append(f"{label} -> {out}" + (f" warnings={cats}" if cats else ""))


def finish():
    with open(sys.argv[1], "w") as fh:
        fh.write("\n".join(LINES) + "\n")
    print(f"{len(LINES)} records written")


EXC_TYPE = False  # the refactoring replaces obscure errors by ValueError: only record that a call raises

from bluebonnet.fluids import pseudopressure as pseudopressure_pkg
from bluebonnet.fluids.fluid import pseudopressure

gas_table = pd.read_csv(os.path.join(BB_DATA, "pvt_gas.csv"))
p5 = np.linspace(10.0, 100.0, 5)

CASES = {
    "basic": (p5, np.ones(5), np.ones(5)),
    "varying": (p5, np.linspace(0.01, 0.03, 5), np.linspace(0.99, 0.8, 5)),
    "scalar_visc_z": (p5, 0.02, 0.9),
    "int_visc_z": (p5, 2, 1),
    "int_pressure": (np.arange(10, 60, 10), np.ones(5), np.ones(5)),
    "int32_pressure": (np.arange(10, 60, 10, dtype=np.int32), np.ones(5), np.ones(5)),
    "float32": (p5.astype(np.float32), np.ones(5, np.float32), np.ones(5, np.float32)),
    "one_point": (np.array([5.0]), np.array([1.0]), np.array([1.0])),
    "one_point_scalar": (np.array([5.0]), 1.0, 1.0),
    "two_points": (np.array([5.0, 7.0]), np.array([1.0, 2.0]), np.array([1.0, 0.9])),
    "unsorted": (np.array([50.0, 10.0, 30.0]), np.ones(3), np.ones(3)),
    "repeated": (np.array([10.0, 10.0, 30.0]), np.ones(3), np.ones(3)),
    "nan_pressure": (np.array([np.nan, 1.0, 2.0]), np.ones(3), np.ones(3)),
    "inf_pressure": (np.array([1.0, np.inf, 2.0]), np.ones(3), np.ones(3)),
    "zero_visc": (p5, np.zeros(5), np.ones(5)),
    "zero_z": (p5, np.ones(5), np.array([1.0, 0.0, 1.0, 1.0, 1.0])),
    "negative": (-p5, np.ones(5), -np.ones(5)),
    "complex": (p5 * (1 + 1j), np.ones(5), np.ones(5)),
    "row_2d": (p5.reshape(1, 5), np.ones(5), np.ones(5)),
    "col_2d": (p5.reshape(5, 1), np.ones(5), np.ones(5)),
    "col_2d_all": (p5.reshape(5, 1), np.ones((5, 1)), np.ones((5, 1))),
    "visc_2d": (p5, np.ones((2, 5)), np.ones(5)),
    "visc_col": (p5, np.ones((5, 1)), np.ones(5)),
    "visc_bad_2d": (p5, np.ones((5, 2)), np.ones(5)),
    "full_2d": (np.tile(p5, (3, 1)), np.full((3, 5), 0.02), np.full((3, 5), 0.9)),
    "3d": (np.tile(p5, (2, 3, 1)), np.full((2, 3, 5), 0.02), 0.9),
    "short_visc": (p5, np.ones(4), np.ones(5)),
    "short_z": (p5, np.ones(5), np.ones(3)),
    "len1_visc": (p5, np.ones(1), np.ones(1)),
    "empty": (np.array([]), np.array([]), np.array([])),
    "empty_scalar": (np.array([]), 1.0, 1.0),
    "empty_vs_full": (np.array([]), np.ones(5), np.ones(5)),
    "empty_vs_len1": (np.array([]), np.ones(1), np.ones(1)),
    "empty_int": (np.array([], dtype=int), 1, 1),
    "empty_2d_last": (np.empty((2, 0)), np.empty((2, 0)), 1.0),
    "empty_2d_last_b": (np.empty((2, 0)), np.ones((2, 1)), 1.0),
    "empty_2d_last_c": (np.empty((2, 0)), np.ones((3, 2, 1)), 1.0),
    "empty_2d_first": (np.empty((0, 3)), np.empty((0, 3)), 1.0),
    "empty_2d_first_b": (np.empty((0, 3)), 1.0, 1.0),
    "empty_2d_first_c": (np.empty((0, 1)), 1.0, np.ones(4)),
    "scalar_float": (5.0, 1.0, 1.0),
    "scalar_int": (5, 1, 1),
    "scalar_np": (np.float64(5.0), np.float64(1.0), np.float64(1.0)),
    "scalar_0d": (np.array(5.0), np.array(1.0), np.array(1.0)),
    "scalar_vs_array": (5.0, np.ones(5), np.ones(5)),
    "scalar_vs_len1": (5.0, np.ones(1), 1.0),
    "scalar_vs_2d": (np.array(5.0), np.ones((2, 3)), 1.0),
    "scalar_bool": (True, 1.0, 1.0),
    "scalar_nan": (float("nan"), 1.0, 1.0),
    "scalar_complex": (1j, 1.0, 1.0),
    "list_all": (list(p5), [1.0] * 5, [1.0] * 5),
    "list_pressure": (list(p5), np.ones(5), np.ones(5)),
    "list_pressure_10": (list(p5), np.ones(10), np.ones(10)),
    "list_pressure_scalar": (list(p5), np.float64(1.0), np.float64(1.0)),
    "list_pressure_pyscalar": (list(p5), 1.0, 1.0),
    "list_len1": ([5.0], np.ones(2), 1.0),
    "list_len1_b": ([5.0], np.float64(1.0), np.float64(1.0)),
    "list_empty": ([], np.ones(1), 1.0),
    "list_empty_b": ([], np.float64(1.0), np.float64(1.0)),
    "list_empty_c": ([], [], []),
    "list_nested": ([[1.0, 2.0], [3.0, 4.0]], np.float64(1.0), 1.0),
    "list_ragged": ([[1.0, 2.0], [3.0]], np.float64(1.0), 1.0),
    "tuple_pressure": (tuple(p5), np.ones(5), np.ones(5)),
    "tuple_empty": ((), np.float64(1.0), 1.0),
    "list_visc": (p5, [1.0] * 5, np.ones(5)),
    "list_visc_z": (p5, [1.0] * 5, [1.0] * 5),
    "none_pressure": (None, 1, 1),
    "none_visc": (p5, None, 1),
    "none_z": (p5, 1.0, None),
    "str_pressure": ("abc", 1.0, 1.0),
    "str_pressure_np": ("abc", np.float64(1.0), 1.0),
    "str_empty": ("", np.float64(1.0), 1.0),
    "str_visc": (p5, "a", 1),
    "str_array": (np.array(["a", "b"]), 1.0, 1.0),
    "object_array": (np.array([1.0, 2.0, 3.0], dtype=object), 1.0, 1.0),
    "bool_array": (np.array([True, False, True]), 1.0, 1.0),
    "dict_pressure": ({"a": 1.0}, 1.0, 1.0),
    "series": (pd.Series(p5), pd.Series(np.ones(5)), pd.Series(np.ones(5))),
    "series_index": (pd.Series(p5, index=list("abcde")), 0.02, 0.9),
    "series_vs_array": (pd.Series(p5), np.ones(5), np.ones(5)),
    "series_misaligned": (pd.Series(p5), pd.Series(np.ones(5), index=range(1, 6)), 1.0),
    "series_empty": (pd.Series([], dtype=float), 1.0, 1.0),
    "series_one": (pd.Series([3.0]), 1.0, 1.0),
    "frame": (pd.DataFrame({"a": p5, "b": 2 * p5}), 0.02, 0.9),
    "frame_no_columns": (pd.DataFrame(index=range(3)), 0.02, 0.9),
    "frame_no_rows": (pd.DataFrame({"a": [], "b": []}, dtype=float), 0.02, 0.9),
    "masked": (np.ma.masked_array(p5, mask=[0, 1, 0, 0, 0]), np.ones(5), np.ones(5)),
    "table": (
        gas_table["P"].to_numpy()[::40],
        gas_table["Viscosity"].to_numpy()[::40],
        gas_table["Z-Factor"].to_numpy()[::40],
    ),
    "table_series": (gas_table["P"][:50], gas_table["Viscosity"][:50], gas_table["Z-Factor"][:50]),
}

for label, args in CASES.items():
    record(f"pseudopressure[{label}]", pseudopressure, *args)
    record(
        f"pseudopressure_kw[{label}]", pseudopressure_pkg, z_factor=args[2], viscosity=args[1], pressure=args[0]
    )

record("pseudopressure()", pseudopressure)
record("pseudopressure(p)", pseudopressure, p5)
record("pseudopressure(p,v)", pseudopressure, p5, 1.0)
record("pseudopressure(p,v,z,x)", pseudopressure, p5, 1.0, 1.0, 1.0)
finish()
