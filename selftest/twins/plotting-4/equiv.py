"""Equivalence harness for bluebonnet.plotting.

Usage: PYTHONPATH=<tree>/src /venv/bin/python equiv.py <outfile>

Calls every public entry point of bluebonnet.plotting on a broad set of inputs
and dumps the complete observable state of the resulting axes (line data, limits,
scales, labels, ticks), the returned values, the warnings and the exceptions.
"""

from __future__ import annotations

import os
import sys
import types
import warnings

import matplotlib

matplotlib.use("Agg")

import matplotlib.pyplot as plt  # noqa: E402
import numpy as np  # noqa: E402
import pandas as pd  # noqa: E402

from bluebonnet import plotting  # noqa: E402
from bluebonnet.flow import FlowProperties, IdealReservoir, SinglePhaseReservoir  # noqa: E402

DATA = os.environ.get("BB_DATA", "/tmp/twin_plotting/tests/data")
OUT: list[str] = []


def fmt(v):
    """Full-precision, type-revealing representation."""
    if isinstance(v, np.ma.MaskedArray):
        return f"masked{fmt(np.asarray(v.filled(np.nan)))}mask{np.ma.getmaskarray(v).tolist()}"
    if isinstance(v, np.ndarray):
        return f"ndarray[{v.dtype},{v.shape}]" + repr([fmt(x) for x in v.ravel().tolist()])
    if isinstance(v, (tuple, list)):
        return type(v).__name__ + "(" + ", ".join(fmt(x) for x in v) + ")"
    if isinstance(v, (float, np.floating)):
        return f"{type(v).__name__}:{float(v)!r}"
    if isinstance(v, (int, np.integer, bool, np.bool_, str, type(None))):
        return f"{type(v).__name__}:{v!r}"
    return f"{type(v).__module__}.{type(v).__qualname__}"


def axes_state(ax):
    rows = []
    rows.append(f"  nlines={len(ax.lines)}")
    for k, ln in enumerate(ax.lines):
        rows.append(
            f"  line{k}: color={ln.get_color()!r} label={ln.get_label()!r} ls={ln.get_linestyle()!r} "
            f"lw={ln.get_linewidth()!r} marker={ln.get_marker()!r} alpha={ln.get_alpha()!r}"
        )
        rows.append(f"    x={fmt(np.asarray(ln.get_xdata(orig=True)))}")
        rows.append(f"    y={fmt(np.asarray(ln.get_ydata(orig=True)))}")
    rows.append(f"  xlim={fmt(tuple(ax.get_xlim()))} ylim={fmt(tuple(ax.get_ylim()))}")
    rows.append(f"  xscale={ax.get_xscale()!r} yscale={ax.get_yscale()!r}")
    rows.append(f"  xlabel={ax.get_xlabel()!r} ylabel={ax.get_ylabel()!r} title={ax.get_title()!r}")
    rows.append(f"  autoscale=({ax.get_autoscalex_on()},{ax.get_autoscaley_on()})")
    try:
        rows.append(f"  xticks={fmt(np.asarray(ax.get_xticks()))}")
        rows.append(f"  yticks={fmt(np.asarray(ax.get_yticks()))}")
        rows.append(f"  xloc={type(ax.xaxis.get_major_locator()).__name__} "
                    f"xfmt={type(ax.xaxis.get_major_formatter()).__name__} "
                    f"xminloc={type(ax.xaxis.get_minor_locator()).__name__} "
                    f"xminfmt={type(ax.xaxis.get_minor_formatter()).__name__}")
        pts = np.array([[0.0, 0.0], [0.25, 0.5], [1.0, 1.0], [4.0, 0.1]])
        with np.errstate(all="ignore"):
            rows.append(f"  transScale={fmt(np.asarray(ax.transScale.transform(pts)))}")
    except Exception as e:  # noqa: BLE001
        rows.append(f"  ticks raised {type(e).__name__}: {e}")
    return rows


def case(name, func, *, ax_mode="none", pre=None):
    """Run one plotting case. ax_mode: 'none' -> ax=None, 'given' -> fresh axes passed."""
    plt.close("all")
    OUT.append(f"== {name}")
    given = None
    if ax_mode == "given":
        _, given = plt.subplots()
        if pre is not None:
            pre(given)
    with warnings.catch_warnings(record=True) as wlist:
        warnings.simplefilter("always")
        try:
            ret = func(given)
        except BaseException as e:  # noqa: BLE001
            OUT.append(f"  raised {type(e).__name__}: {e}")
            ret = None
        else:
            OUT.append(f"  returned {type(ret).__module__}.{type(ret).__name__} same_as_given={ret is given}")
    OUT.append("  warnings=" + repr(sorted({f"{w.category.__name__}: {w.message}" for w in wlist})))
    OUT.append(f"  nfigs={len(plt.get_fignums())}")
    target = ret if ret is not None else given
    if target is None and plt.get_fignums():
        fig = plt.figure(plt.get_fignums()[-1])
        target = fig.axes[0] if fig.axes else None
    if target is not None:
        OUT.extend(axes_state(target))
    plt.close("all")


def value(name, thunk):
    with warnings.catch_warnings(record=True) as wlist:
        warnings.simplefilter("always")
        try:
            OUT.append(f"{name} -> {fmt(thunk())}")
        except BaseException as e:  # noqa: BLE001
            OUT.append(f"{name} raised {type(e).__name__}: {e}")
    if wlist:
        OUT.append("  warnings=" + repr(sorted({f"{w.category.__name__}: {w.message}" for w in wlist})))


# --------------------------------------------------------------------------- reservoirs
def make_reservoirs():
    res = {}
    t = np.linspace(0, np.sqrt(11.0), 160) ** 2
    ideal = IdealReservoir(20, pressure_fracface=100.0, pressure_initial=2000.0)
    ideal.simulate(t)
    res["ideal"] = ideal
    ideal_small = IdealReservoir(5, pressure_fracface=0.0, pressure_initial=1.0)
    ideal_small.simulate(np.linspace(0, 0.3, 12))
    res["ideal_small"] = ideal_small
    renamer = {"P": "pressure", "Z-Factor": "z-factor", "Cg": "compressibility",
               "Viscosity": "viscosity", "Density": "density"}
    pvt = pd.read_csv(os.path.join(DATA, "pvt_gas.csv")).rename(columns=renamer)
    fluid = FlowProperties(pvt, 2000.0)
    gas = SinglePhaseReservoir(30, pressure_fracface=100.0, pressure_initial=2000.0, fluid=fluid)
    gas.simulate(np.linspace(0, np.sqrt(3.0), 250) ** 2)
    res["gas"] = gas
    res["unsimulated"] = IdealReservoir(10, pressure_fracface=100.0, pressure_initial=2000.0)
    return res


def fake(time, nx=4, rf=None, pp=None):
    """Duck-typed reservoir for edge cases."""
    time_ = time
    n = len(time_)
    if rf is None:
        rf = 1.0 - np.exp(-np.arange(n, dtype=float) / 3.0)
    if pp is None:
        pp = np.linspace(0.2, 1.0, nx)[None, :] * np.linspace(1.0, 0.5, max(n, 1))[:, None]
    ns = types.SimpleNamespace(time=time_, nx=nx, pseudopressure=pp)
    ns.recovery_factor = lambda: rf
    return ns


def main(outfile):
    R = make_reservoirs()
    P = plotting

    # ------------------------------------------------------------------ module surface
    OUT.append("public=" + repr(sorted(n for n in dir(P) if not n.startswith("_"))))
    OUT.append(f"Reservoir={P.Reservoir!r}")
    import inspect
    for fn in (P.plot_pseudopressure, P.plot_recovery_rate, P.plot_recovery_factor):
        sig = inspect.signature(fn)
        OUT.append(f"sig {fn.__name__}: " + repr([(p.name, repr(p.default), str(p.kind)) for p in sig.parameters.values()]))

    # ------------------------------------------------------------------ SquareRootScale
    S = P.SquareRootScale
    OUT.append(f"scale name={S.name!r} mro={[c.__name__ for c in S.__mro__]}")
    OUT.append(f"registered={'squareroot' in matplotlib.scale.get_scale_names()} "
               f"cls_is={matplotlib.scale._scale_mapping['squareroot'] is S}")
    OUT.append(f"nested={S.SquareRootTransform.__qualname__},{S.InvertedSquareRootTransform.__qualname__}")
    for T in (S.SquareRootTransform, S.InvertedSquareRootTransform):
        OUT.append(f"  {T.__name__}: in={T.input_dims} out={T.output_dims} sep={T.is_separable} "
                   f"has_inverse={T.has_inverse} bases={[c.__name__ for c in T.__mro__][:3]}")
    plt.close("all")
    _, ax0 = plt.subplots()
    value("ctor(axis)", lambda: S(ax0.xaxis))
    value("ctor(None)", lambda: S(None))
    value("ctor(axis, base=2)", lambda: S(ax0.xaxis, base=2))
    value("ctor()", lambda: S())
    value("ctor(axis=axis)", lambda: S(axis=ax0.xaxis))
    scale = S(ax0.xaxis)
    value("get_transform type", lambda: scale.get_transform())
    value("get_transform.inverted type", lambda: scale.get_transform().inverted())
    value("get_transform.inverted.inverted type", lambda: scale.get_transform().inverted().inverted())
    value("str(transform)", lambda: str(scale.get_transform()))
    value("str(inv transform)", lambda: str(scale.get_transform().inverted()))
    vmins = [-1.0, 0.0, -0.0, 0, -5, 3, 2.5, 1e-300, float("nan"), float("inf"), float("-inf"),
             np.float64(-2.0), np.float64(7.5), np.float32(0.5), np.int64(4), np.int64(-4), True, False,
             np.array(3.0), np.array([3.0]), np.array([-3.0]), np.array([1.0, 2.0]), "abc", None, [1.0], 1 + 2j]
    for vm in vmins:
        for vmax in (10.0, -3, None):
            value(f"limit_range({vm!r},{vmax!r})", lambda vm=vm, vmax=vmax: scale.limit_range_for_scale(vm, vmax, 1e-7))
    value("limit_range kw", lambda: scale.limit_range_for_scale(vmin=-2.0, vmax=4.0, minpos=0.1))
    value("limit_range missing", lambda: scale.limit_range_for_scale(-2.0, 4.0))
    tin = [
        [0.0, 1.0, 4.0, 2.0, 1e-300, 1e300], (9, 16, 25), np.array([0.25, 0.5]), np.array([1, 4, 9]),
        np.array([-1.0, -0.0, 0.0, np.inf, -np.inf, np.nan]), 4.0, 9, -4.0, np.float64(2.0), np.array(16.0),
        np.array([[1.0, 4.0], [9.0, 16.0]]), [], np.array([], dtype=float), np.array([True, False]),
        np.array([1.5, 2.5], dtype=np.float32), np.array([3, 5], dtype=np.int8), np.array([200], dtype=np.uint8),
        np.ma.masked_array([1.0, 4.0, 9.0], mask=[False, True, False]),
        np.array([1 + 1j, -4 + 0j]), ["a", "b"], None, [[1.0], [2.0, 3.0]], [None, 1.0],
    ]
    fwd = scale.get_transform()
    inv = fwd.inverted()
    for a in tin:
        value(f"fwd.transform_non_affine({a!r})", lambda a=a: fwd.transform_non_affine(a))
        value(f"inv.transform({a!r})", lambda a=a: inv.transform(a))
    big = np.random.default_rng(1234).uniform(0, 1e6, 500)
    value("fwd big", lambda: fwd.transform_non_affine(big))
    value("inv big", lambda: inv.transform(big))
    value("fwd.transform(col)", lambda: fwd.transform(np.array([[1.0], [4.0], [2.0]])))
    value("fwd.transform(flat)", lambda: fwd.transform(np.array([1.0, 4.0, 2.0])))
    value("inv.transform_non_affine", lambda: inv.transform_non_affine(np.array([1.0, 4.0, 2.0])))
    value("roundtrip", lambda: inv.transform(fwd.transform_non_affine(big)))

    def scale_on_axis(_):
        fig, ax = plt.subplots()
        ax.plot([0.0, 1.0, 4.0, 9.0], [-1.0, 2.0, 3.0, 4.0])
        ax.set_xscale("squareroot")
        ax.set_xlim(-3.0, 9.0)
        ax.set_yscale("squareroot")
        fig.canvas.draw()
        return ax

    case("scale on axis", scale_on_axis)

    def scale_locators(_):
        fig, ax = plt.subplots()
        ax.yaxis.set_minor_locator(matplotlib.ticker.MultipleLocator(0.1))
        S(ax.yaxis).set_default_locators_and_formatters(ax.yaxis)
        OUT.append(f"  yloc={type(ax.yaxis.get_major_locator()).__name__},{type(ax.yaxis.get_major_formatter()).__name__},"
                   f"{type(ax.yaxis.get_minor_locator()).__name__},{type(ax.yaxis.get_minor_formatter()).__name__}")
        return ax

    case("set_default_locators", scale_locators)

    # ------------------------------------------------------------------ plot_pseudopressure
    for rname in ("ideal", "ideal_small", "gas"):
        r = R[rname]
        for every in (1, 7, 50, 200, 10**6, -3, 2.5, True):
            for rescale in (False, True):
                case(f"pp {rname} every={every!r} rescale={rescale}",
                     lambda ax, r=r, every=every, rescale=rescale: P.plot_pseudopressure(r, every, rescale, ax),
                     ax_mode="given" if every in (7, 200) else "none")
    r = R["ideal"]
    case("pp defaults", lambda ax: P.plot_pseudopressure(r))
    case("pp kw all", lambda ax: P.plot_pseudopressure(reservoir=r, every=40, rescale=True, ax=ax, x_max=0.5, y_max=1.2,
                                                       plot_kwargs={"linestyle": "--", "lw": 2.5}), ax_mode="given")
    case("pp x_max y_max", lambda ax: P.plot_pseudopressure(r, 30, False, None, 2.0, 0.7))
    case("pp y_max neg", lambda ax: P.plot_pseudopressure(r, 30, y_max=-1.0))
    case("pp x_max 0", lambda ax: P.plot_pseudopressure(r, 30, x_max=0))
    case("pp x_max nan", lambda ax: P.plot_pseudopressure(r, 30, x_max=float("nan")))
    case("pp plot_kwargs empty", lambda ax: P.plot_pseudopressure(r, 30, plot_kwargs={}))
    case("pp plot_kwargs marker alpha", lambda ax: P.plot_pseudopressure(r, 30, rescale=True, plot_kwargs={"marker": "o", "alpha": 0.3, "label": "L"}))
    case("pp plot_kwargs color dup", lambda ax: P.plot_pseudopressure(r, 30, plot_kwargs={"color": "red"}))
    case("pp plot_kwargs color dup rescale", lambda ax: P.plot_pseudopressure(r, 30, True, plot_kwargs={"color": "red"}))
    case("pp plot_kwargs bogus", lambda ax: P.plot_pseudopressure(r, 30, plot_kwargs={"bogus": 1}), ax_mode="given")
    case("pp plot_kwargs not dict", lambda ax: P.plot_pseudopressure(r, 30, plot_kwargs=[1, 2]))
    case("pp plot_kwargs nonstr keys", lambda ax: P.plot_pseudopressure(r, 30, plot_kwargs={1: 2}))
    case("pp every=0", lambda ax: P.plot_pseudopressure(r, 0), ax_mode="given")
    case("pp every=0.0", lambda ax: P.plot_pseudopressure(r, 0.0))
    case("pp every=str", lambda ax: P.plot_pseudopressure(r, "a"))
    case("pp every=None", lambda ax: P.plot_pseudopressure(r, None))
    case("pp every=array", lambda ax: P.plot_pseudopressure(r, np.array([1, 2])))
    case("pp every=array1", lambda ax: P.plot_pseudopressure(r, np.array([3])))
    case("pp every=np.int64", lambda ax: P.plot_pseudopressure(r, np.int64(25), True))
    case("pp rescale truthy str", lambda ax: P.plot_pseudopressure(r, 60, "yes"))
    case("pp rescale array", lambda ax: P.plot_pseudopressure(r, 60, np.array([1, 0])))
    case("pp rescale 0", lambda ax: P.plot_pseudopressure(r, 60, 0))
    case("pp unsimulated", lambda ax: P.plot_pseudopressure(R["unsimulated"]), ax_mode="given")
    case("pp unsimulated noax", lambda ax: P.plot_pseudopressure(R["unsimulated"]))
    case("pp None", lambda ax: P.plot_pseudopressure(None))
    case("pp ax not axes", lambda ax: P.plot_pseudopressure(r, 30, ax="notanaxes"))
    case("pp preplotted ax", lambda ax: P.plot_pseudopressure(r, 80, True, ax), ax_mode="given",
         pre=lambda a: a.plot([0, 1], [5, 6], color="k", label="pre"))
    # duck typed
    case("pp fake nx0", lambda ax: P.plot_pseudopressure(fake(np.linspace(0, 1, 5), nx=0, pp=np.ones((5, 0))), 1))
    case("pp fake nx mismatch", lambda ax: P.plot_pseudopressure(fake(np.linspace(0, 1, 5), nx=3, pp=np.ones((5, 4))), 1))
    case("pp fake nx mismatch every big", lambda ax: P.plot_pseudopressure(fake(np.linspace(0, 1, 5), nx=3, pp=np.ones((5, 4))), 10, True))
    case("pp fake empty pp", lambda ax: P.plot_pseudopressure(fake(np.linspace(0, 1, 5), nx=3, pp=np.ones((0, 3))), 1))
    case("pp fake 1d pp", lambda ax: P.plot_pseudopressure(fake(np.linspace(0, 1, 5), nx=3, pp=np.ones(3)), 1))
    case("pp fake list pp", lambda ax: P.plot_pseudopressure(fake(np.linspace(0, 1, 5), nx=2, pp=[[1.0, 2.0], [0.5, 1.5]]), 1))
    case("pp fake nx float", lambda ax: P.plot_pseudopressure(fake(np.linspace(0, 1, 5), nx=4.0), 2, True))
    ppi = np.array([[1, 4, 9], [0, 2, 9], [0, 1, 5]])
    for rescale in (False, True):
        case(f"pp fake int pp rescale={rescale}", lambda ax, rescale=rescale: P.plot_pseudopressure(fake(np.linspace(0, 1, 3), nx=3, pp=ppi), 1, rescale))
    ppz = np.array([[2.0, 2.0, 2.0], [2.0, 2.5, 3.0], [np.nan, 1.0, np.inf]])
    case("pp fake degenerate rescale", lambda ax: P.plot_pseudopressure(fake(np.linspace(0, 1, 3), nx=3, pp=ppz), 1, True))
    case("pp fake degenerate", lambda ax: P.plot_pseudopressure(fake(np.linspace(0, 1, 3), nx=3, pp=ppz), 2, False))

    # ------------------------------------------------------------------ recovery rate / factor
    for fname in ("plot_recovery_rate", "plot_recovery_factor"):
        f = getattr(P, fname)
        for rname in ("ideal", "ideal_small", "gas"):
            r = R[rname]
            for ct in (False, True):
                case(f"{fname} {rname} ct={ct} noax", lambda ax, r=r, ct=ct: f(r, change_ticks=ct))
                case(f"{fname} {rname} ct={ct} ax", lambda ax, r=r, ct=ct: f(r, ax, ct), ax_mode="given")
        r = R["ideal"]
        case(f"{fname} defaults", lambda ax: f(r))
        case(f"{fname} kw all", lambda ax: f(reservoir=r, ax=ax, change_ticks=True, plot_kwargs={"color": "k", "ls": ":"}), ax_mode="given")
        case(f"{fname} positional all", lambda ax: f(r, ax, False, {"marker": "x", "lw": 0.5}), ax_mode="given")
        case(f"{fname} plot_kwargs empty", lambda ax: f(r, plot_kwargs={}))
        case(f"{fname} label dup", lambda ax: f(r, plot_kwargs={"label": "mine"}), ax_mode="given")
        case(f"{fname} bogus kw", lambda ax: f(r, None, True, {"bogus": 2}))
        case(f"{fname} plot_kwargs not dict", lambda ax: f(r, plot_kwargs=3))
        case(f"{fname} ct truthy", lambda ax: f(r, None, "x"))
        case(f"{fname} ct array", lambda ax: f(r, None, np.array([True, False])))
        case(f"{fname} unsimulated", lambda ax: f(R["unsimulated"]), ax_mode="given")
        case(f"{fname} unsimulated noax", lambda ax: f(R["unsimulated"], change_ticks=True))
        case(f"{fname} None", lambda ax: f(None))
        case(f"{fname} bad ax", lambda ax: f(r, "notanaxes", True))
        case(f"{fname} preplotted", lambda ax: f(r, ax, True), ax_mode="given",
             pre=lambda a: (a.plot([1e-3, 20.0], [0.5, 2.0]), a.set_title("T")))
        times = {
            "list": [0.0, 0.1, 0.4, 0.9, 1.6],
            "tuple": (0.0, 0.5, 2.0),
            "neg": np.array([-4.0, -1.0, -0.25]),
            "negpos": np.array([-1.0, 0.0, 2.0, 3.0]),
            "zero": np.array([0.0, 0.0, 0.0]),
            "unsorted": np.array([0.0, 3.0, 1.0, 2.0]),
            "nan": np.array([0.0, np.nan, 1.0, 2.0]),
            "nanfirst": np.array([np.nan, 0.5, 1.0, 2.0]),
            "inf": np.array([0.0, 1.0, np.inf]),
            "int": np.array([0, 1, 4, 9, 16]),
            "big": np.linspace(0, 1e4, 9),
            "tiny": np.linspace(0, 1e-9, 6),
            "round_edge": np.linspace(0, np.sqrt(0.45), 8) ** 2,
            "round_edge2": np.array([0.0, 1.0, 36 * 0.05]),
            "len2": np.array([0.0, 1.5]),
            "len1": np.array([2.0]),
            "len0": np.array([]),
            "2d": np.ones((3, 2)),
            "str": ["a", "b", "c"],
        }
        for tname, tv in times.items():
            for ct in (False, True):
                case(f"{fname} fake time={tname} ct={ct}", lambda ax, tv=tv, ct=ct: f(fake(tv), None, ct))
        case(f"{fname} fake rf mismatch", lambda ax: f(fake(np.linspace(0, 1, 5), rf=np.arange(4.0)), None, True), ax_mode="given")
        case(f"{fname} fake rf scalar", lambda ax: f(fake(np.linspace(0, 1, 5), rf=3.0), None, True))
        case(f"{fname} fake rf neg", lambda ax: f(fake(np.linspace(0, 1, 5), rf=-np.arange(5.0)), None, True))
        case(f"{fname} fake rf nan", lambda ax: f(fake(np.linspace(0, 1, 5), rf=np.array([0, np.nan, 1, 2, 3.0])), None, False))
        ns = types.SimpleNamespace(time=np.linspace(0, 1, 4))
        case(f"{fname} fake no recovery_factor", lambda ax: f(ns))
        ns2 = types.SimpleNamespace(recovery_factor=lambda: np.arange(4.0))
        case(f"{fname} fake no time", lambda ax: f(ns2), ax_mode="given")

        # order of attribute access / calls on the reservoir
        class Spy:
            def __init__(self):
                self.log = []

            def __getattr__(self, name):
                self.log.append(name)
                if name == "time":
                    return np.linspace(0, 2.0, 6)
                if name == "recovery_factor":
                    def rf():
                        self.log.append("call recovery_factor")
                        return np.linspace(0, 0.5, 6) ** 2
                    return rf
                raise AttributeError(name)

        for ct in (False, True):
            spy = Spy()
            case(f"{fname} spy ct={ct}", lambda ax, spy=spy, ct=ct: f(spy, None, ct))
            OUT.append(f"  spy distinct-order={list(dict.fromkeys(spy.log))}")

    with open(outfile, "w") as fh:
        import re

        fh.write(re.sub(r" at 0x[0-9a-fA-F]+", " at 0x?", "\n".join(OUT)) + "\n")


if __name__ == "__main__":
    main(sys.argv[1])
