"""Equivalence harness for bluebonnet.forecast.forecast.

Usage: PYTHONPATH=<tree>/src /venv/bin/python equiv.py <outfile>

Exercises Bounds (construction/validation, fit_bounds, regularize_initial_guess)
and ForecasterOnePhase (forecast_cum, fit) on a broad set of inputs, including
inputs that raise, and writes every result at full precision to <outfile>.
"""

from __future__ import annotations

import os
import re
import sys
import warnings

import numpy as np

warnings.simplefilter("ignore")

from bluebonnet.forecast import Bounds, ForecasterOnePhase  # noqa: E402

BB_DATA = os.environ.get("BB_DATA", "/tmp/twin_forecast/tests/data")
LINES: list[str] = []
_ADDR = re.compile(r"0x[0-9a-fA-F]+")


def fmt(x, depth=0):
    """Full-precision, type-tagged representation of a result."""
    if isinstance(x, np.ndarray):
        flat = ", ".join(fmt(v, depth + 1) for v in x.ravel().tolist())
        return f"ndarray[{x.dtype}]{x.shape}({flat})"
    if isinstance(x, np.generic):
        return f"{type(x).__name__}({x.item()!r})"
    if isinstance(x, (list, tuple)):
        inner = ", ".join(fmt(v, depth + 1) for v in x)
        return f"{type(x).__name__}({inner})"
    if isinstance(x, float):
        return repr(x)
    return f"{type(x).__name__}:{x!r}"


def emit(label, thunk):
    """Record the value of thunk() or the exception it raises."""
    try:
        out = fmt(thunk())
    except Exception as exc:  # noqa: BLE001
        out = f"RAISED {type(exc).__name__}: {exc}"
    LINES.append(_ADDR.sub("0x?", f"{label} => {out}"))


# ---------------------------------------------------------------- Bounds ctor
class NoLen:
    """Indexable but without len()."""

    def __getitem__(self, i):
        return (1.0, 2.0)[i]


bounds_args = [
    ((0, 1), (2, 3)),
    ((0.0, np.inf), (1e-10, np.inf)),
    ((1, 2, 3), (0, 1)),
    ((1, 2), (1,)),
    ((1, 2, 3), (1,)),
    ((), (0, 1)),
    ((0, 1), ()),
    ((1, 0), (0, 1)),
    ((0, 1), (20, 10)),
    ((1, 0), (20, 10)),
    ((1, 1), (0, 1)),
    ((0, 1), (5.0, 5.0)),
    ((1, 0), (1,)),
    ((1, 2, 3), (20, 10)),
    ((np.nan, 1.0), (0, 1)),
    ((0, np.nan), (np.nan, np.nan)),
    ((-np.inf, np.inf), (-np.inf, np.inf)),
    ((np.inf, np.inf), (0, 1)),
    ([0, 1], [2, 3]),
    ([3, 1], [2, 3]),
    (np.array([0.0, 1.0]), np.array([2.0, 3.0])),
    (np.array([1.0, 0.5]), np.array([2.0, 3.0])),
    (np.array([0.0, 1.0, 2.0]), np.array([2.0, 3.0])),
    (np.float64(1.5), (0, 1)),
    (5, (0, 1)),
    ((0, 1), 7.0),
    (None, (0, 1)),
    ((0, 1), None),
    ("ab", (0, 1)),
    ("ba", (0, 1)),
    ("abc", "z"),
    ((1, "a"), (0, 1)),
    ((0, 1), (None, 1)),
    ((None, None), (0, 1)),
    ((1j, 2j), (0, 1)),
    (NoLen(), (0, 1)),
    ((0, 1), NoLen()),
    ((np.array([0, 0]), np.array([1, 1])), (0, 1)),
    ((-5.5, -1.25), (1e-300, 1e300)),
    ((-0.0, 0.0), (0, 1)),
    ((True, False), (0, 1)),
    ((False, True), (False, True)),
    ({0: 1.0, 1: 2.0}, (0, 1)),
    ({0: 2.0, 1: 1.0}, (0, 1)),
]


def bounds_summary(M, tau):
    b = Bounds(M, tau)
    return (fmt(b.M), fmt(b.tau), fmt(b.fit_bounds()), repr(b))


for k, (M, tau) in enumerate(bounds_args):
    emit(f"Bounds[{k}] positional", lambda M=M, tau=tau: bounds_summary(M, tau))
    emit(f"Bounds[{k}] keyword", lambda M=M, tau=tau: fmt(Bounds(tau=tau, M=M).fit_bounds()))
emit("Bounds() no args", lambda: Bounds())
emit("Bounds(M only)", lambda: Bounds(M=(0, 1)))
emit("Bounds eq", lambda: Bounds((0, 1), (2, 3)) == Bounds(M=(0, 1), tau=(2, 3)))
emit("Bounds frozen", lambda: setattr(Bounds((0, 1), (2, 3)), "M", (0, 2)))
emit("default bounds", lambda: ForecasterOnePhase(np.sqrt).bounds.fit_bounds())
emit("default bounds repr", lambda: repr(ForecasterOnePhase(np.sqrt).bounds))

# fit_bounds with a bypassed post_init (len != 2)
raw = Bounds((0, 1), (2, 3))
object.__setattr__(raw, "M", (4.0,))
emit("fit_bounds short M", raw.fit_bounds)
object.__setattr__(raw, "M", (4.0, 5.0, 6.0))
emit("fit_bounds long M", raw.fit_bounds)
object.__setattr__(raw, "tau", ())
emit("fit_bounds empty tau", raw.fit_bounds)

# ------------------------------------------------ regularize_initial_guess
reg_bounds = [
    Bounds((0, 1), (2, 3)),
    Bounds((0.0, np.inf), (1e-10, np.inf)),
    Bounds((-np.inf, 10.0), (-np.inf, 0.5)),
    Bounds((-3.0, -1.0), (1e-3, 1e3)),
    Bounds([10, 20], [30, 50]),
    Bounds(np.array([10.0, 20.0]), np.array([30.0, 51.0])),
    Bounds((1, 4), (1, 2)),
    Bounds((np.nan, 1.0), (0.0, np.nan)),
]
guess_makers = [
    lambda: [0.5, 2.5],
    lambda: [-1.0, 2.5],
    lambda: [0.5, 1.0],
    lambda: [2.0, 2.5],
    lambda: [0.5, 4.0],
    lambda: [-7.0, -7.0],
    lambda: [70.0, 70.0],
    lambda: [-7.0, 70.0],
    lambda: [70.0, -7.0],
    lambda: [0, 2],
    lambda: [1, 3],
    lambda: [15, 40],
    lambda: [25, 60],
    lambda: [5, 20],
    lambda: [0.5],
    lambda: [-1.0],
    lambda: [99.0],
    lambda: [1e308],
    lambda: [],
    lambda: [0.5, 2.5, 9.0],
    lambda: [-1.0, -1.0, -1.0],
    lambda: [99.0, 99.0, 99.0],
    lambda: [99.0, 99.0, 99.0, 1.0],
    lambda: [np.nan, np.nan],
    lambda: [np.inf, np.inf],
    lambda: [-np.inf, -np.inf],
    lambda: [np.inf],
    lambda: (0.5, 2.5),
    lambda: (15.0, 40.0),
    lambda: (-100.0, 2.5),
    lambda: (0.5, 1000.0),
    lambda: (0.5, -1000.0),
    lambda: (1000.0,),
    lambda: np.array([0.5, 2.5]),
    lambda: np.array([-100.0, 1000.0]),
    lambda: np.array([1000.0, -100.0]),
    lambda: np.array([1000, -100]),
    lambda: np.array([1000.0]),
    lambda: np.array([]),
    lambda: np.array([[1000.0, 2.0], [3.0, -4000.0]]),
    lambda: np.float64(3.0),
    lambda: 3.0,
    lambda: None,
    lambda: "ab",
    lambda: ["a", "b"],
    lambda: [None, 2.5],
    lambda: [0.5, None],
    lambda: {0: -100.0, 1: 1000.0},
    lambda: {0: 1000.0},
    lambda: iter([1.0, 2.0]),
    lambda: [np.float64(1000.0), np.float32(-1000.0)],
    lambda: [True, False],
    lambda: NoLen(),
]


def reg(b, make):
    g = make()
    snapshot = None
    try:
        out = b.regularize_initial_guess(g)
    except Exception:
        # the state the argument was left in is observable too
        snapshot = fmt(g) if isinstance(g, (list, tuple, np.ndarray, dict)) else type(g).__name__
        LINES.append(f"   (argument left as {snapshot})")
        raise
    return (out is g, out if not isinstance(out, dict) else sorted(out.items()))


for i, b in enumerate(reg_bounds):
    for j, make in enumerate(guess_makers):
        emit(f"regularize[b{i}][g{j}]", lambda b=b, make=make: reg(b, make))


# ------------------------------------------------------------- rf curves
def rf_sqrt_exp(t):
    return 1.0 - np.exp(-np.sqrt(t))


def rf_tanh(t):
    return np.tanh(np.sqrt(np.asarray(t, dtype=float)))


def rf_strict(t):
    t = np.asarray(t, dtype=float)
    if np.any(t < 0) or np.any(t > 50.0):
        raise ValueError("time outside of interpolation range")
    return t / (1.0 + t)


def rf_scalar_only(t):
    import math

    return 1.0 - math.exp(-t)


def make_ideal_curve():
    from bluebonnet.flow import IdealReservoir

    ts = np.linspace(0, np.sqrt(6.0), 400) ** 2
    res = IdealReservoir(30, 500.0, 5000.0, None)
    res.simulate(ts)
    res.recovery_factor()
    return res.recovery_factor_interpolator(), ts


def make_gas_curve():
    import pandas as pd

    from bluebonnet.flow import FlowProperties, SinglePhaseReservoir

    pvt = pd.read_csv(os.path.join(BB_DATA, "pvt_gas_HAYNESVILLE SHALE_20.csv"))
    ts = np.linspace(0, np.sqrt(4.0), 300) ** 2
    res = SinglePhaseReservoir(30, 1000.0, 9000.0, FlowProperties(pvt, 9000.0))
    res.simulate(ts)
    res.recovery_factor()
    return res.recovery_factor_interpolator(), ts


ideal_curve, ideal_time = make_ideal_curve()
try:
    gas_curve, gas_time = make_gas_curve()
except Exception as exc:  # noqa: BLE001
    LINES.append(f"gas curve unavailable: {type(exc).__name__}")
    gas_curve, gas_time = None, None

curves = {
    "sqrt_exp": rf_sqrt_exp,
    "tanh": rf_tanh,
    "strict": rf_strict,
    "np.sqrt": np.sqrt,
    "ideal": ideal_curve,
}
if gas_curve is not None:
    curves["gas"] = gas_curve

# ----------------------------------------------------------- forecast_cum
times = {
    "scalar": 2.0,
    "zero": 0.0,
    "int": 3,
    "npfloat": np.float64(1.25),
    "arr": np.array([0.0, 0.1, 1.0, 2.5, 5.9]),
    "arr2d": np.array([[0.0, 0.5], [1.0, 4.0]]),
    "intarr": np.arange(6),
    "empty": np.array([]),
    "neg": np.array([-1.0, 0.5]),
    "big": np.array([10.0, 100.0, 1e6]),
    "nan": np.array([0.5, np.nan]),
    "list": [0.5, 1.0],
    "none": None,
    "str": "abc",
}
mtau = [
    (300.0, 3.0),
    (1.0, 1.0),
    (0.0, 1.0),
    (-2.5, 0.5),
    (1e6, 1e-3),
    (300, 3),
    (300.0, 0.0),
    (300.0, -2.0),
    (np.inf, 2.0),
    (2.0, np.inf),
    (np.nan, 1.0),
    (np.array([1.0, 2.0, 3.0, 4.0, 5.0]), 2.0),
    (2.0, np.array([1.0, 2.0, 3.0, 4.0, 5.0])),
    (np.float64(12.5), np.float32(0.75)),
    ("a", 1.0),
    (1.0, "b"),
    (300.0, None),
    (None, 3.0),
    (None, None),
]
for cname, curve in curves.items():
    fc = ForecasterOnePhase(curve)
    for tname, t in times.items():
        for k, (M, tau) in enumerate(mtau):
            emit(
                f"forecast_cum[{cname}][{tname}][mt{k}] unfit",
                lambda fc=fc, t=t, M=M, tau=tau: fc.forecast_cum(t, M, tau),
            )
    emit(f"forecast_cum[{cname}] kw", lambda fc=fc: fc.forecast_cum(tau=2.0, M=10.0, time_on_production=times["arr"]))
    emit(f"forecast_cum[{cname}] M kw only", lambda fc=fc: fc.forecast_cum(times["arr"], M=10.0))
    emit(f"forecast_cum[{cname}] tau kw only", lambda fc=fc: fc.forecast_cum(times["arr"], tau=10.0))
    emit(f"forecast_cum[{cname}] no time", lambda fc=fc: fc.forecast_cum())
    # attributes set by hand instead of via fit
    fc2 = ForecasterOnePhase(curve, Bounds((0, 1), (2, 3)))
    fc2.M_ = 42.0
    emit(f"forecast_cum[{cname}] only M_ set", lambda fc2=fc2: fc2.forecast_cum(times["arr"]))
    emit(f"forecast_cum[{cname}] only M_ set, tau given", lambda fc2=fc2: fc2.forecast_cum(times["arr"], tau=1.5))
    fc2.tau_ = 1.75
    emit(f"forecast_cum[{cname}] M_, tau_ set", lambda fc2=fc2: fc2.forecast_cum(times["arr"]))
    emit(f"forecast_cum[{cname}] override M", lambda fc2=fc2: fc2.forecast_cum(times["arr"], 7.0))
    emit(f"forecast_cum[{cname}] override tau", lambda fc2=fc2: fc2.forecast_cum(times["arr"], None, 0.3))
    emit(f"forecast_cum[{cname}] M=0 falsy", lambda fc2=fc2: fc2.forecast_cum(times["arr"], 0, 0.3))
    emit(f"forecast_cum[{cname}] tau=0 falsy", lambda fc2=fc2: fc2.forecast_cum(times["arr"], 2.0, 0))
    fc3 = ForecasterOnePhase(curve)
    fc3.tau_ = 1.75
    emit(f"forecast_cum[{cname}] only tau_ set", lambda fc3=fc3: fc3.forecast_cum(times["arr"]))
    emit(f"forecast_cum[{cname}] only tau_ set, M given", lambda fc3=fc3: fc3.forecast_cum(times["arr"], 3.0))

emit("forecast_cum scalar-only curve scalar", lambda: ForecasterOnePhase(rf_scalar_only).forecast_cum(2.0, 3.0, 4.0))
emit("forecast_cum scalar-only curve array", lambda: ForecasterOnePhase(rf_scalar_only).forecast_cum(times["arr"], 3.0, 4.0))
emit("forecast_cum rf_curve None", lambda: ForecasterOnePhase(None).forecast_cum(2.0, 3.0, 4.0))
emit("Forecaster no args", lambda: ForecasterOnePhase())
emit("Forecaster repr", lambda: repr(ForecasterOnePhase(np.sqrt, Bounds((0, 1), (2, 3)))))


# --------------------------------------------------------------------- fit
def do_fit(curve, t, q, tau=None, bounds=None, tau_kw=False):
    fc = ForecasterOnePhase(curve) if bounds is None else ForecasterOnePhase(curve, bounds)
    try:
        if tau_kw:
            ret = fc.fit(time_on_production=t, cum_production=q, tau=tau)
        elif tau is None:
            ret = fc.fit(t, q)
        else:
            ret = fc.fit(t, q, tau)
    except Exception:
        LINES.append(
            "   (attributes after failed fit: "
            + ", ".join(sorted(a for a in ("M_", "tau_", "time_on_production", "cum_production") if hasattr(fc, a)))
            + ")"
        )
        raise
    tt = np.asarray(t, dtype=float)
    return (
        ret,
        fc.M_,
        fc.tau_,
        fc.time_on_production is t,
        fc.cum_production is q,
        fc.forecast_cum(tt),
        fc.forecast_cum(tt[-1] * 3.0),
        fc.forecast_cum(tt, M=2.0),
        fc.forecast_cum(tt, tau=2.0),
    )


rng = np.random.default_rng(20240229)
t_short = np.linspace(0.01, 5.0, 40)
t_long = np.linspace(0, np.sqrt(6.0), 200) ** 2

fit_cases = []
for cname in ("sqrt_exp", "tanh", "ideal", "gas"):
    if cname not in curves:
        continue
    curve = curves[cname]
    tmax = 3.5 if cname == "gas" else 5.5
    t = np.linspace(0.0, np.sqrt(tmax), 120) ** 2
    for M_true, tau_true in ((300.0, 3.0), (12.5, 1.7), (5e4, 2.2)):
        q = M_true * curve(t / tau_true)
        noise = 1.0 + 0.02 * rng.standard_normal(t.shape)
        fit_cases += [
            (f"{cname} clean M={M_true} tau={tau_true}", dict(curve=curve, t=t, q=q)),
            (f"{cname} noisy M={M_true} tau={tau_true}", dict(curve=curve, t=t, q=q * noise)),
            (f"{cname} fixed-tau true M={M_true} tau={tau_true}", dict(curve=curve, t=t, q=q, tau=tau_true)),
            (f"{cname} fixed-tau off M={M_true} tau={tau_true}", dict(curve=curve, t=t, q=q * noise, tau=tau_true * 1.3)),
            (f"{cname} fixed-tau kw M={M_true} tau={tau_true}", dict(curve=curve, t=t, q=q, tau=tau_true, tau_kw=True)),
            (f"{cname} free-tau kw M={M_true} tau={tau_true}", dict(curve=curve, t=t, q=q, tau_kw=True)),
        ]

free = rf_sqrt_exp
tq = 40.0 * free(t_short / 2.0)
fit_cases += [
    # bounds that push the initial guess around (all four regularisation branches)
    ("bounds guess inside", dict(curve=free, t=t_short, q=tq, bounds=Bounds((0, 1e3), (0.1, 1e3)))),
    ("bounds M guess below", dict(curve=free, t=t_short, q=tq, bounds=Bounds((100.0, 1e3), (0.1, 1e3)))),
    ("bounds M guess above", dict(curve=free, t=t_short, q=tq, bounds=Bounds((0.0, 50.0), (0.1, 1e3)))),
    ("bounds tau guess below", dict(curve=free, t=t_short, q=tq, bounds=Bounds((0.0, 1e3), (30.0, 1e3)))),
    ("bounds tau guess above", dict(curve=free, t=t_short, q=tq, bounds=Bounds((0.0, 1e3), (0.1, 10.0)))),
    ("bounds both outside", dict(curve=free, t=t_short, q=tq, bounds=Bounds((0.0, 60.0), (0.5, 4.0)))),
    ("bounds M above inf-hi", dict(curve=free, t=t_short, q=-tq, bounds=Bounds((-np.inf, -1.0), (0.5, np.inf)))),
    ("bounds list-typed", dict(curve=free, t=t_short, q=tq, bounds=Bounds([0.0, 60.0], [0.5, 4.0]))),
    ("bounds array-typed", dict(curve=free, t=t_short, q=tq, bounds=Bounds(np.array([0.0, 60.0]), np.array([0.5, 4.0])))),
    ("fixed tau, bounds guess inside", dict(curve=free, t=t_short, q=tq, tau=2.0, bounds=Bounds((0, 1e3), (0.1, 1e3)))),
    ("fixed tau, M guess below", dict(curve=free, t=t_short, q=tq, tau=2.0, bounds=Bounds((100.0, 1e3), (0.1, 1e3)))),
    ("fixed tau, M guess above", dict(curve=free, t=t_short, q=tq, tau=2.0, bounds=Bounds((0.0, 50.0), (0.1, 1e3)))),
    ("fixed tau outside tau bounds", dict(curve=free, t=t_short, q=tq, tau=2.0, bounds=Bounds((0.0, 1e3), (30.0, 1e3)))),
    ("fixed tau, M hi = inf, guess above impossible", dict(curve=free, t=t_short, q=tq, tau=2.0, bounds=Bounds((0.0, np.inf), (30.0, 1e3)))),
    ("fixed tau list bounds", dict(curve=free, t=t_short, q=tq, tau=2.0, bounds=Bounds([0.0, 50.0], [0.1, 1e3]))),
    ("fixed tau array bounds", dict(curve=free, t=t_short, q=tq, tau=2.0, bounds=Bounds(np.array([0.0, 50.0]), (0.1, 1e3)))),
    ("fixed tau nan-lo bounds", dict(curve=free, t=t_short, q=tq, tau=2.0, bounds=Bounds((np.nan, 50.0), (0.1, 1e3)))),
    ("free tau nan bounds", dict(curve=free, t=t_short, q=tq, bounds=Bounds((0.0, np.nan), (np.nan, 1e3)))),
    # odd tau values
    ("fixed tau = 0", dict(curve=free, t=t_short, q=tq, tau=0.0)),
    ("fixed tau = 0 int", dict(curve=free, t=t_short, q=tq, tau=0)),
    ("fixed tau negative", dict(curve=free, t=t_short, q=tq, tau=-2.0)),
    ("fixed tau inf", dict(curve=free, t=t_short, q=tq, tau=np.inf)),
    ("fixed tau nan", dict(curve=free, t=t_short, q=tq, tau=np.nan)),
    ("fixed tau np.float64", dict(curve=free, t=t_short, q=tq, tau=np.float64(2.5))),
    ("fixed tau int", dict(curve=free, t=t_short, q=tq, tau=2)),
    ("fixed tau str", dict(curve=free, t=t_short, q=tq, tau="x")),
    ("fixed tau array", dict(curve=free, t=t_short, q=tq, tau=np.full(t_short.shape, 2.0))),
    ("fixed tau list", dict(curve=free, t=t_short, q=tq, tau=[2.0])),
    # degenerate data
    ("empty arrays", dict(curve=free, t=np.array([]), q=np.array([]))),
    ("empty arrays fixed tau", dict(curve=free, t=np.array([]), q=np.array([]), tau=2.0)),
    ("empty q only", dict(curve=free, t=t_short, q=np.array([]))),
    ("empty t only", dict(curve=free, t=np.array([]), q=tq)),
    ("empty t only, fixed tau", dict(curve=free, t=np.array([]), q=tq, tau=2.0)),
    ("length mismatch", dict(curve=free, t=t_short, q=tq[:-3])),
    ("length mismatch fixed tau", dict(curve=free, t=t_short, q=tq[:-3], tau=2.0)),
    ("single point", dict(curve=free, t=t_short[-1:], q=tq[-1:])),
    ("single point fixed tau", dict(curve=free, t=t_short[-1:], q=tq[-1:], tau=2.0)),
    ("two points", dict(curve=free, t=t_short[-2:], q=tq[-2:])),
    ("nan in q", dict(curve=free, t=t_short, q=np.where(np.arange(40) == 5, np.nan, tq))),
    ("nan in t", dict(curve=free, t=np.where(np.arange(40) == 5, np.nan, t_short), q=tq)),
    ("nan last q", dict(curve=free, t=t_short, q=np.where(np.arange(40) == 39, np.nan, tq))),
    ("inf last t", dict(curve=free, t=np.where(np.arange(40) == 39, np.inf, t_short), q=tq)),
    ("all-zero q", dict(curve=free, t=t_short, q=np.zeros_like(tq))),
    ("all-zero q fixed tau", dict(curve=free, t=t_short, q=np.zeros_like(tq), tau=2.0)),
    ("negative q", dict(curve=free, t=t_short, q=-tq)),
    ("negative q fixed tau", dict(curve=free, t=t_short, q=-tq, tau=2.0)),
    ("t ends at zero", dict(curve=free, t=t_short[::-1] - t_short[0], q=tq[::-1])),
    ("negative t", dict(curve=free, t=-t_short, q=tq)),
    ("lists", dict(curve=free, t=list(t_short), q=list(tq))),
    ("lists fixed tau", dict(curve=free, t=list(t_short), q=list(tq), tau=2.0)),
    ("t list, q array", dict(curve=free, t=list(t_short), q=tq)),
    ("t array, q list", dict(curve=free, t=t_short, q=list(tq))),
    ("t array, q list fixed tau", dict(curve=free, t=t_short, q=list(tq), tau=2.0)),
    ("tuples", dict(curve=free, t=tuple(t_short), q=tuple(tq))),
    ("int arrays", dict(curve=free, t=np.arange(1, 30), q=np.round(40.0 * free(np.arange(1, 30) / 2.0)).astype(int))),
    ("int arrays fixed tau", dict(curve=free, t=np.arange(1, 30), q=np.round(40.0 * free(np.arange(1, 30) / 2.0)).astype(int), tau=2)),
    ("scalars", dict(curve=free, t=1.0, q=2.0)),
    ("None data", dict(curve=free, t=None, q=None)),
    ("2d data", dict(curve=free, t=t_short.reshape(4, 10), q=tq.reshape(4, 10))),
    # curves that misbehave
    ("strict curve in range", dict(curve=rf_strict, t=t_short, q=30.0 * rf_strict(t_short / 4.0))),
    ("strict curve hits range error", dict(curve=rf_strict, t=t_short, q=30.0 * rf_strict(t_short / 4.0), bounds=Bounds((0, 1e3), (1e-3, 0.05)))),
    ("strict curve fixed tau out of range", dict(curve=rf_strict, t=t_short, q=tq, tau=1e-3)),
    ("strict curve fixed tau in range", dict(curve=rf_strict, t=t_short, q=tq, tau=1.0)),
    ("scalar-only curve", dict(curve=rf_scalar_only, t=t_short, q=tq)),
    ("scalar-only curve fixed tau", dict(curve=rf_scalar_only, t=t_short, q=tq, tau=1.0)),
    ("curve None", dict(curve=None, t=t_short, q=tq)),
    ("curve None fixed tau", dict(curve=None, t=t_short, q=tq, tau=1.0)),
    ("np.sqrt curve", dict(curve=np.sqrt, t=t_short, q=3.0 * np.sqrt(t_short / 7.0))),
    ("np.sqrt curve fixed tau", dict(curve=np.sqrt, t=t_short, q=3.0 * np.sqrt(t_short / 7.0), tau=7.0)),
    ("long ideal", dict(curve=ideal_curve, t=t_long, q=77.0 * ideal_curve(t_long / 4.0))),
    ("long ideal bounded", dict(curve=ideal_curve, t=t_long, q=77.0 * ideal_curve(t_long / 4.0), bounds=Bounds((1.0, 100.0), (1.0, 20.0)))),
    ("long ideal fixed tau bounded", dict(curve=ideal_curve, t=t_long, q=77.0 * ideal_curve(t_long / 4.0), tau=3.0, bounds=Bounds((1.0, 100.0), (1.0, 20.0)))),
]
for label, kw in fit_cases:
    emit(f"fit[{label}]", lambda kw=kw: do_fit(**kw))


# refitting the same object: free tau, then fixed tau, then a failing fit
def refit():
    fc = ForecasterOnePhase(free, Bounds((0.0, 1e3), (0.1, 1e2)))
    out = []
    fc.fit(t_short, tq)
    out.append((fc.M_, fc.tau_))
    fc.fit(t_short, tq * 1.5, 2.5)
    out.append((fc.M_, fc.tau_, fc.cum_production is tq))
    try:
        fc.fit(t_short, tq[:-1])
    except Exception as exc:  # noqa: BLE001
        out.append(type(exc).__name__)
    out.append((fc.M_, fc.tau_, fc.forecast_cum(t_short[:5])))
    return out


emit("refit sequence", refit)


# the model function handed to curve_fit reads rf_curve lazily from the instance
def count_calls():
    calls = []

    def counting(t):
        calls.append(np.shape(t))
        return rf_sqrt_exp(t)

    fc = ForecasterOnePhase(counting)
    fc.fit(t_short, tq)
    n_free = len(calls)
    fc.fit(t_short, tq, 2.0)
    return (n_free, len(calls), sorted(set(calls)), fc.M_, fc.tau_)


emit("rf_curve call count", count_calls)

with open(sys.argv[1], "w") as fh:
    fh.write("\n".join(LINES) + "\n")
print(f"wrote {len(LINES)} lines to {sys.argv[1]}")
