"""Equivalence driver: pseudocritical_point_Sutton for both gas kinds (and what is built on it)."""

from __future__ import annotations

import sys
import warnings

import numpy as np
import pandas as pd

from bluebonnet.fluids import gas
from bluebonnet.fluids.fluid import build_pvt_gas

warnings.simplefilter("ignore")
np.set_printoptions(precision=17, floatmode="unique", threshold=100000, linewidth=100000)
out = []


def show(v):
    if isinstance(v, tuple):
        return "(" + ", ".join(show(x) for x in v) + ")"
    if isinstance(v, np.ndarray):
        return f"ndarray{v.shape}{v.dtype!r}{v.tolist()!r}"
    if isinstance(v, (pd.DataFrame, pd.Series)):
        return f"{type(v).__name__}:{v.to_dict()!r}"
    return f"{type(v).__name__}:{v!r}"


def rec(label, fn, *args, **kwargs):
    try:
        res = show(fn(*args, **kwargs))
    except Exception as e:  # noqa: BLE001
        res = f"EXC {type(e).__name__}"
    out.append(f"{label} -> {res}")


make = gas.make_nonhydrocarbon_properties
helium = ("Helium", 0.01, 4.0, 226.8, 493.1)
argon = ("Argon", 0.002, 39.95, 271.6, 710.4)
longname = ("A name that is longer than twenty characters", 0.001, 10.0, 100.0, 200.0)
make_cases = {
    "plain": (0.03, 0.012, 0.018),
    "zeros": (0.0, 0.0, 0.0),
    "ints": (0, 1, 0),
    "np": (np.float64(0.05), np.float32(0.01), np.int64(0)),
    "helium": (0.03, 0.012, 0.018, helium),
    "two_others": (0.03, 0.012, 0.018, helium, argon),
    "longname": (0.03, 0.012, 0.018, longname),
    "list_other": (0.03, 0.012, 0.018, list(helium)),
    "short_other": (0.03, 0.012, 0.018, ("He", 0.01)),
    "long_other": (0.03, 0.012, 0.018, (*helium, 1.0)),
    "dict_other": (0.03, 0.012, 0.018, {"Helium": 0.01}),
    "str_fraction": ("0.03", 0.012, 0.018),
    "bad_str": ("abc", 0.012, 0.018),
    "none": (None, 0.012, 0.018),
    "nan": (float("nan"), 0.012, 0.018),
    "neg_h2s": (0.03, -0.012, 0.018),
    "array_fraction": (np.array([0.03]), 0.012, 0.018),
    "too_few": (0.03, 0.012),
}
sutton = gas.pseudocritical_point_Sutton
props = {}
for k, a in make_cases.items():
    try:
        props[k] = make(*a)
    except Exception:  # noqa: BLE001
        continue
props["dict_of_arrays"] = {n: props["helium"][n] for n in props["helium"].dtype.names}
props["dict_of_lists"] = {n: props["helium"][n].tolist() for n in props["helium"].dtype.names}
props["dataframe"] = pd.DataFrame(props["helium"])
props["recarray"] = props["helium"].view(np.recarray)
props["missing_field"] = props["plain"][["name", "fraction", "molecular weight"]]
props["two_rows"] = props["plain"][:2]
props["one_row"] = props["plain"][:1]
props["empty"] = props["plain"][:0]
props["scalar_record"] = props["plain"][0]
props["plain_array"] = np.array([0.03, 0.012, 0.018])
props["none"] = None
props["all_nonhc"] = make(0.5, 0.25, 0.25)

sgs = [0.55, 0.5537, 0.65, 0.8, 1.0, 1.2, 1.68, 3.0, 0, -0.3, 1e300, float("inf"), float("nan"), np.float64(0.7),
       np.float32(0.7), 1, np.array([0.6, 0.7, 0.9]), np.array([0.65]), "0.65", None, 0.65 + 0j]
class Kind(str):
    """A str subclass, as produced by e.g. a StrEnum-like wrapper."""


fluids = ["dry gas", "wet gas", "Dry gas", "dry gas ", "oil", "", None, 3, np.str_("wet gas"), np.str_("dry gas"),
          ["dry gas"], ("dry gas", "wet gas"), np.array("dry gas"), np.array("wet gas"), np.array("oil"),
          np.array(["dry gas"]), np.array(["dry gas", "wet gas"]), b"dry gas", Kind("dry gas"), Kind("wet gas"),
          Kind("gas"), "dry" + " " + "gas", float("nan")]
for pk, p in props.items():
    for sg in sgs:
        for fl in fluids:
            rec(f"sutton[{pk}|{sg!r}|{fl!r}]", sutton, sg, p, fl)
    rec(f"sutton_default[{pk}]", sutton, 0.65, p)
    rec(f"sutton_kw[{pk}]", sutton, specific_gravity=0.7, non_hydrocarbon_properties=p, fluid="dry gas")

# the message of the rejection
for fl in ("oil", None, 3, ["dry gas"]):
    try:
        sutton(0.65, props["plain"], fl)
    except ValueError as e:
        out.append(f"message[{fl!r}] -> {e.args!r}")

# through the table builder that uses both
for fl in ("dry gas", "wet gas", "oil"):
    gas_values = {"N2": 0.03, "H2S": 0.012, "CO2": 0.018, "Gas Specific Gravity": 0.65,
                  "Reservoir Temperature (deg F)": 250.0}
    gas_dryness = fl
    rec(f"build_pvt_gas[{fl}]", lambda: build_pvt_gas(gas_values, gas_dryness, maximum_pressure=400))

with open(sys.argv[1], "w") as f:
    f.write("\n".join(out) + "\n")
