"""Equivalence driver for bluebonnet.forecast.forecast_pressure.

Usage: PYTHONPATH=<tree>/src /venv/bin/python equiv.py <outfile>
"""

from __future__ import annotations

import os
import sys
import warnings

import matplotlib

matplotlib.use("Agg")
import matplotlib.pyplot as plt
import numpy as np
import pandas as pd
from lmfit import Parameters

from bluebonnet.flow import FlowProperties, SinglePhaseReservoir
from bluebonnet.forecast import fit_production_pressure, plot_production_comparison
from bluebonnet.forecast import forecast_pressure as fp

warnings.simplefilter("ignore")
# Exercise the library with DEBUG logging switched on (records are formatted into a buffer)
import io
import logging

_LOG_BUFFER = io.StringIO()
_handler = logging.StreamHandler(_LOG_BUFFER)
logging.getLogger("bluebonnet").addHandler(_handler)
logging.getLogger("bluebonnet").setLevel(logging.DEBUG)
logging.getLogger("bluebonnet").propagate = False
DATA = os.environ.get("BB_DATA", "/tmp/twin3_forecast_pressure/tests/data")
OUT = []
# Set to False when a refactoring only promises "still raises" for already-failing inputs
RECORD_EXCTYPE = True


def fmt(x):
    if isinstance(x, (float, np.floating)):
        return repr(float(x))
    if isinstance(x, (int, np.integer, str, bool, type(None))):
        return repr(x)
    if isinstance(x, (pd.Series, pd.Index)):
        x = np.asarray(x)
    if isinstance(x, np.ndarray):
        return "[" + ",".join(fmt(v) for v in x.ravel().tolist()) + "]" + str(x.shape)
    if isinstance(x, (list, tuple)):
        return "(" + ",".join(fmt(v) for v in x) + ")"
    return repr(x)


def record(label, func):
    try:
        val = func()
    except Exception as e:  # noqa: BLE001
        OUT.append(f"{label}: RAISES")
        if RECORD_EXCTYPE:
            OUT.append(f"{label}: EXCTYPE {type(e).__name__}")
        return
    OUT.append(f"{label}: {fmt(val)}")


def make_prod(nt, tau_in=180.0, pf=500.0, pi=5000.0, nx=40, t_end=6.0, pvt=None):
    time_scaled = np.linspace(0, np.sqrt(t_end), nt) ** 2
    pressure_v_time = np.full(nt, pf)
    pressure_v_time[nt // 4 : nt // 2] /= 2.0
    pressure_v_time[nt // 2 :] /= 4.0
    flow_props = FlowProperties(pvt, pi)
    reservoir = SinglePhaseReservoir(nx, pf, pi, flow_props)
    reservoir.simulate(time_scaled, pressure_v_time)
    rf = reservoir.recovery_factor()
    return pd.DataFrame({"Days": time_scaled * tau_in, "Gas": rf, "Pressure": pressure_v_time})


def fit_summary(result):
    p = result.params
    out = []
    for name in ("tau", "M", "p_initial"):
        out += [p[name].value, p[name].min, p[name].max, p[name].vary]
    out += [result.nfev, result.method, np.asarray(result.residual), type(result).__name__]
    return out


def plot_summary(ret):
    fig, (ax1, ax2) = ret
    out = [tuple(fig.get_size_inches()), len(fig.axes)]
    for ax in (ax1, ax2):
        out += [ax.get_xlabel(), ax.get_ylabel(), ax.get_xscale(), ax.get_yscale()]
        out += [tuple(ax.get_xlim()), tuple(ax.get_ylim())]
        for line in ax.get_lines():
            out += [line.get_label(), line.get_linestyle(), np.asarray(line.get_xdata(), dtype=float),
                    np.asarray(line.get_ydata(), dtype=float)]
        leg = ax.get_legend()
        out.append([t.get_text() for t in leg.get_texts()] if leg is not None else None)
    plt.close(fig)
    return out


def mkparams(M, tau, p_initial):
    params = Parameters()
    params.add("M", M)
    params.add("tau", tau)
    params.add("p_initial", p_initial)
    return params


def main(outfile):
    pvt_h = pd.read_csv(os.path.join(DATA, "pvt_gas_HAYNESVILLE SHALE_20.csv"))
    pvt_g = pd.read_csv(os.path.join(DATA, "pvt_gas.csv")).rename(
        columns={"P": "pressure", "Z-Factor": "z-factor", "Cg": "compressibility", "Viscosity": "viscosity"}
    )
    pi = 5000.0
    prod = make_prod(120, pvt=pvt_h)
    prod_small = make_prod(30, pvt=pvt_h)
    prod_g = make_prod(60, tau_in=90.0, pf=800.0, pi=4000.0, pvt=pvt_g)

    # --- module surface
    record("public names", lambda: sorted(n for n in ("fit_production_pressure", "plot_production_comparison", "_obj_function") if hasattr(fp, n)))
    record("forecast.__all__", lambda: sorted(__import__("bluebonnet.forecast").forecast.__all__))

    # --- _obj_function directly
    for label, (pr, pvt, tau, M, p0) in {
        "h": (prod, pvt_h, 180.0, 1.0, 5000.0),
        "h2": (prod, pvt_h, 420.0, 1300.0, 6000.0),
        "small": (prod_small, pvt_h, 55.5, 2.5, 5000.0),
        "g": (prod_g, pvt_g, 90.0, 1.0, 4000.0),
    }.items():
        days = np.arange(len(pr))
        cum = np.cumsum(np.array(pr["Gas"]))
        pff = np.array(pr["Pressure"])
        record(f"obj {label}", lambda: fp._obj_function(mkparams(M, tau, p0), days, cum, pvt, pff))
    record("obj wrong length", lambda: fp._obj_function(mkparams(1.0, 100.0, pi), np.arange(10), np.ones(10), pvt_h, np.full(9, 500.0)))
    record("obj p_initial out of table", lambda: fp._obj_function(mkparams(1.0, 100.0, 1e6), np.arange(10), np.ones(10), pvt_h, np.full(10, 500.0)))
    record("obj missing param", lambda: fp._obj_function(Parameters(), np.arange(10), np.ones(10), pvt_h, np.full(10, 500.0)))
    record("obj empty", lambda: fp._obj_function(mkparams(1.0, 100.0, pi), np.arange(0), np.ones(0), pvt_h, np.full(0, 500.0)))

    # --- fit_production_pressure
    record("fit default n_iter=4", lambda: fit_summary(fit_production_pressure(prod, pvt_h, pi, n_iter=4)))
    record("fit n_iter=12", lambda: fit_summary(fit_production_pressure(prod, pvt_h, pi, n_iter=12)))
    record("fit small window=3", lambda: fit_summary(fit_production_pressure(prod_small, pvt_h, pi, 3, n_iter=6)))
    record("fit window=1", lambda: fit_summary(fit_production_pressure(prod_small, pvt_h, pi, filter_window_size=1, n_iter=5)))
    record("fit nofilter", lambda: fit_summary(fit_production_pressure(prod_small.iloc[1:], pvt_h, pi, filter_zero_prod_days=False, n_iter=5)))
    record("fit nofilter with zero row", lambda: fit_summary(fit_production_pressure(prod_small, pvt_h, pi, filter_zero_prod_days=False, n_iter=5)))
    record("fit bounds", lambda: fit_summary(fit_production_pressure(prod_small, pvt_h, 4500.0, None, 9000.0, 50.0, True, 5)))
    record("fit gas table", lambda: fit_summary(fit_production_pressure(prod_g, pvt_g, 4000.0, pressure_imax=9000.0, n_iter=6)))
    p_in = Parameters()
    p_in.add("tau", value=200.0, min=30.0, max=500.0)
    p_in.add("M", value=1.5, min=0.5, max=10.0)
    p_in.add("p_initial", value=5200.0, min=600.0, max=9000.0)
    record("fit with params", lambda: fit_summary(fit_production_pressure(prod_small, pvt_h, pi, n_iter=6, params=p_in)))
    p_fixed = Parameters()
    p_fixed.add("tau", value=200.0, min=30.0, max=500.0)
    p_fixed.add("M", value=1.5, min=0.5, max=10.0)
    p_fixed.add("p_initial", value=5200.0, vary=False)
    record("fit with fixed p_initial", lambda: fit_summary(fit_production_pressure(prod_small, pvt_h, pi, n_iter=6, params=p_fixed)))
    extra = prod_small.copy()
    extra["Oil"] = 1.0
    extra.loc[5, "Pressure"] = np.nan
    extra.loc[7, "Gas"] = 0.0
    record("fit extra col, nan, zero", lambda: fit_summary(fit_production_pressure(extra, pvt_h, pi, n_iter=5)))
    record("fit nan nofilter", lambda: fit_summary(fit_production_pressure(extra, pvt_h, pi, filter_zero_prod_days=False, n_iter=3)))
    shuffled = prod_small.iloc[::-1]
    record("fit reversed index", lambda: fit_summary(fit_production_pressure(shuffled, pvt_h, pi, n_iter=4)))
    # errors
    record("fit missing Pressure", lambda: fit_production_pressure(prod_small[["Days", "Gas"]], pvt_h, pi, n_iter=3))
    record("fit missing Gas", lambda: fit_production_pressure(prod_small[["Days", "Pressure"]], pvt_h, pi, n_iter=3))
    record("fit missing Days", lambda: fit_production_pressure(prod_small[["Gas", "Pressure"]], pvt_h, pi, n_iter=3))
    record("fit missing Days nofilter", lambda: fit_production_pressure(prod_small[["Gas", "Pressure"]], pvt_h, pi, filter_zero_prod_days=False, n_iter=3))
    record("fit empty", lambda: fit_production_pressure(prod_small.iloc[:0], pvt_h, pi, n_iter=3))
    record("fit empty nofilter", lambda: fit_production_pressure(prod_small.iloc[:0], pvt_h, pi, filter_zero_prod_days=False, n_iter=3))
    record("fit empty with params", lambda: fit_production_pressure(prod_small.iloc[:0], pvt_h, pi, n_iter=3, params=p_in))
    zero = prod_small.copy()
    zero["Gas"] = 0.0
    record("fit all zero gas", lambda: fit_production_pressure(zero, pvt_h, pi, n_iter=3))
    record("fit one row", lambda: fit_summary(fit_production_pressure(prod_small.iloc[3:4], pvt_h, pi, n_iter=3)))
    record("fit two rows", lambda: fit_summary(fit_production_pressure(prod_small.iloc[3:5], pvt_h, pi, n_iter=3)))
    record("fit short (tau max < min)", lambda: fit_summary(fit_production_pressure(prod_small.iloc[:10], pvt_h, pi, n_iter=3)))
    record("fit p_initial above imax", lambda: fit_summary(fit_production_pressure(prod_small, pvt_h, 20000.0, n_iter=3)))
    record("fit imax beyond table", lambda: fit_summary(fit_production_pressure(prod_small, pvt_h, pi, pressure_imax=1e6, n_iter=12)))
    record("fit inplace_max small", lambda: fit_summary(fit_production_pressure(prod_small, pvt_h, pi, inplace_max=0.01, n_iter=3)))
    record("fit window=0", lambda: fit_summary(fit_production_pressure(prod_small, pvt_h, pi, filter_window_size=0, n_iter=3)))
    for w in (-1, -3, False, 0.5, 2.5, "3", np.int64(0), True, np.int64(2)):
        record(f"fit window={w!r}", lambda: fit_summary(fit_production_pressure(prod_small, pvt_h, pi, filter_window_size=w, n_iter=3)))
        record(f"plot window={w!r}", lambda: plot_summary(plot_production_comparison(prod_small, pvt_h, mkparams(1.2, 180.0, pi), w)))
    record("fit window=0 and empty", lambda: fit_production_pressure(prod_small.iloc[:0], pvt_h, pi, filter_window_size=0, n_iter=3))
    record("fit window=0 and missing col", lambda: fit_production_pressure(prod_small[["Days", "Gas"]], pvt_h, pi, filter_window_size=0, n_iter=3))
    nan_last = prod_small.copy()
    nan_last.loc[len(nan_last) - 1, "Pressure"] = np.nan
    record("fit nan last nofilter", lambda: fit_summary(fit_production_pressure(nan_last, pvt_h, pi, filter_zero_prod_days=False, n_iter=3)))
    record("fit nan last filter", lambda: fit_summary(fit_production_pressure(nan_last, pvt_h, pi, n_iter=3)))
    record("fit list-like frame", lambda: fit_production_pressure([1, 2, 3], pvt_h, pi, n_iter=3))
    record("fit bad pvt", lambda: fit_production_pressure(prod_small, pvt_h[["pressure", "viscosity"]], pi, n_iter=3))
    record("fit not a frame", lambda: fit_production_pressure(None, pvt_h, pi, n_iter=3))
    record("fit dict input", lambda: fit_production_pressure({"Days": [1, 2]}, pvt_h, pi, n_iter=3))
    record("fit n_iter=0", lambda: fit_summary(fit_production_pressure(prod_small, pvt_h, pi, n_iter=0)))
    record("fit n_iter=1", lambda: fit_summary(fit_production_pressure(prod_small, pvt_h, pi, n_iter=1)))
    record("fit params missing", lambda: fit_production_pressure(prod_small, pvt_h, pi, n_iter=3, params=mkparams(1.0, 100.0, pi).__class__()))
    record("fit 10th positional", lambda: fit_production_pressure(prod_small, pvt_h, pi, None, 15000, 100000, True, 3, None, "Nelder"))

    # --- plot_production_comparison
    record("plot test-like", lambda: plot_summary(plot_production_comparison(prod, pvt_h, mkparams(1300, 420, pi), filter_window_size=1, filter_zero_prod_days=True)))
    record("plot default", lambda: plot_summary(plot_production_comparison(prod_small, pvt_h, mkparams(1.2, 180.0, pi))))
    record("plot window 5 name", lambda: plot_summary(plot_production_comparison(prod_small, pvt_h, mkparams(1.2, 77.7, 5500.0), 5, True, "W-1")))
    record("plot nofilter", lambda: plot_summary(plot_production_comparison(prod_small, pvt_h, mkparams(1.2, 180.0, pi), filter_zero_prod_days=False)))
    record("plot nofilter sliced index", lambda: plot_summary(plot_production_comparison(prod_small.iloc[1:], pvt_h, mkparams(1.2, 180.0, pi), filter_zero_prod_days=False)))
    record("plot nofilter reset index", lambda: plot_summary(plot_production_comparison(prod_small.iloc[1:].reset_index(drop=True), pvt_h, mkparams(1.2, 180.0, pi), None, False, well_name="x")))
    record("plot gas table", lambda: plot_summary(plot_production_comparison(prod_g, pvt_g, mkparams(2.0, 90.0, 4000.0))))
    record("plot extra col nan zero", lambda: plot_summary(plot_production_comparison(extra, pvt_h, mkparams(1.2, 180.0, pi))))
    record("plot nan nofilter", lambda: plot_summary(plot_production_comparison(extra, pvt_h, mkparams(1.2, 180.0, pi), filter_zero_prod_days=False)))
    fitres = fit_production_pressure(prod_small, pvt_h, pi, n_iter=4)
    record("plot from fit result", lambda: plot_summary(plot_production_comparison(prod_small, pvt_h, fitres.params)))
    record("plot result object itself", lambda: plot_summary(plot_production_comparison(prod_small, pvt_h, fitres)))
    record("plot missing Pressure", lambda: plot_production_comparison(prod_small[["Days", "Gas"]], pvt_h, mkparams(1.2, 180.0, pi)))
    record("plot missing Days nofilter", lambda: plot_production_comparison(prod_small[["Gas", "Pressure"]], pvt_h, mkparams(1.2, 180.0, pi), filter_zero_prod_days=False))
    record("plot empty", lambda: plot_production_comparison(prod_small.iloc[:0], pvt_h, mkparams(1.2, 180.0, pi)))
    record("plot empty nofilter", lambda: plot_production_comparison(prod_small.iloc[:0], pvt_h, mkparams(1.2, 180.0, pi), filter_zero_prod_days=False))
    record("plot all zero", lambda: plot_production_comparison(zero, pvt_h, mkparams(1.2, 180.0, pi)))
    record("plot one row", lambda: plot_summary(plot_production_comparison(prod_small.iloc[3:4], pvt_h, mkparams(1.2, 180.0, pi))))
    record("plot tau zero", lambda: plot_summary(plot_production_comparison(prod_small, pvt_h, mkparams(1.2, 0.0, pi))))
    record("plot tau negative", lambda: plot_summary(plot_production_comparison(prod_small, pvt_h, mkparams(1.2, -5.0, pi))))
    record("plot M zero", lambda: plot_summary(plot_production_comparison(prod_small, pvt_h, mkparams(0.0, 180.0, pi))))
    record("plot p_initial out of table", lambda: plot_production_comparison(prod_small, pvt_h, mkparams(1.2, 180.0, 1e6)))
    record("plot params missing", lambda: plot_production_comparison(prod_small, pvt_h, Parameters()))
    record("plot params dict", lambda: plot_production_comparison(prod_small, pvt_h, {"M": 1.0, "tau": 2.0, "p_initial": pi}))
    record("plot window 0", lambda: plot_summary(plot_production_comparison(prod_small, pvt_h, mkparams(1.2, 180.0, pi), 0)))
    record("plot bad pvt", lambda: plot_production_comparison(prod_small, pvt_h[["pressure"]], mkparams(1.2, 180.0, pi)))
    record("plot None", lambda: plot_production_comparison(None, pvt_h, mkparams(1.2, 180.0, pi)))
    plt.close("all")

    with open(outfile, "w") as f:
        f.write("\n".join(OUT) + "\n")


if __name__ == "__main__":
    main(sys.argv[1])
