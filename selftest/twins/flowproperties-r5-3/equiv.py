"""Equivalence driver for bluebonnet.flow.flowproperties.

Usage: PYTHONPATH=<tree>/src /venv/bin/python equiv.py <outfile>

Calls every public function / class of the module on a broad set of inputs and
writes the results (full-precision repr of floats, dtypes, shapes, container
types, warning categories, or the exception type) to <outfile>.
Exception *messages* are not recorded: some of them are built from a set and
their word order depends on PYTHONHASHSEED.
"""

from __future__ import annotations

import os
import sys
import warnings

import numpy as np
import pandas as pd
from scipy.interpolate import interp1d

from bluebonnet.flow import flowproperties as fp
from bluebonnet.flow.flowproperties import (
    FlowProperties,
    FlowPropertiesMultiPhase,
    FlowPropertiesSimple,
    FlowPropertiesTwoPhase,
    RelPermParams,
    alpha_multiphase,
    compressibility_combined_func,
    lambda_combined_func,
    pseudopressure_threephase,
    relative_permeabilities,
    relative_permeabilities_twophase,
    rescale_pseudopressure,
)

DATA = os.environ.get("BB_DATA", "/tmp/twin5_flowproperties/tests/data")
OUT = []


def fmt(x, depth=0):
    """Full precision, type-revealing text for a result."""
    if isinstance(x, pd.DataFrame):
        cols = [f"{c!r}:{fmt(x[c].to_numpy(), depth + 1)}" for c in x.columns]
        return f"DataFrame(index={fmt(x.index.to_numpy())}, " + ", ".join(cols) + ")"
    if isinstance(x, pd.Series):
        return f"Series(name={x.name!r}, index={fmt(x.index.to_numpy())}, {fmt(x.to_numpy())})"
    if isinstance(x, np.ndarray):
        if x.dtype.names is not None:
            fields = [f"{n}:{fmt(np.asarray(x[n]))}" for n in x.dtype.names]
            return f"{type(x).__name__}(shape={x.shape}, dtype={x.dtype}, " + ", ".join(fields) + ")"
        return f"{type(x).__name__}(shape={x.shape}, dtype={x.dtype}, {x.tolist()!r})"
    if isinstance(x, np.generic):
        return f"{type(x).__name__}({x.item()!r})"
    if isinstance(x, dict):
        return "{" + ", ".join(f"{k!r}: {fmt(x[k], depth + 1)}" for k in sorted(x, key=str)) + "}"
    if isinstance(x, (list, tuple)):
        return type(x).__name__ + "(" + ", ".join(fmt(v, depth + 1) for v in x) + ")"
    if isinstance(x, interp1d):
        return f"interp1d(x={fmt(x.x)}, y={fmt(x.y)})"
    return f"{type(x).__name__}:{x!r}"


def record(label, func):
    with warnings.catch_warnings(record=True) as wlist:
        warnings.simplefilter("always")
        try:
            res = fmt(func())
        except BaseException as e:  # noqa: BLE001
            res = "RAISES " + type(e).__name__
    cats = sorted({w.category.__name__ + ":" + str(w.message)[:60] for w in wlist})
    OUT.append(f"{label} => {res} || warnings={cats}")


# --------------------------------------------------------------------------
# tables
# --------------------------------------------------------------------------
ren_gas = {
    "P": "pressure",
    "Z-Factor": "z-factor",
    "Cg": "compressibility",
    "Viscosity": "viscosity",
    "Density": "density",
}
ren_oil = {
    "P": "pressure",
    "Z-Factor": "z-factor",
    "Co": "compressibility",
    "Oil_Viscosity": "viscosity",
    "Oil_Density": "density",
}
pvt_gas = pd.read_csv(os.path.join(DATA, "pvt_gas.csv")).rename(columns=ren_gas)
pvt_oil = pd.read_csv(os.path.join(DATA, "pvt_oil.csv")).rename(columns=ren_oil)
pvt_gas_small = pvt_gas.iloc[::100].reset_index(drop=True)
pvt_oil_small = pvt_oil.iloc[::75].reset_index(drop=True)
pvt_mp = pd.read_csv(os.path.join(DATA, "pvt_multiphase_oil.csv"), index_col=0)
pvt_mp_small = pvt_mp.iloc[::60].reset_index(drop=True)


def test_df_pvt(Sw=0.1):
    pvt_o = pd.read_csv(os.path.join(DATA, "pvt_oil.csv"))
    pvt_w = pd.read_csv(os.path.join(DATA, "pvt_water.csv")).rename(
        columns={"T": "temperature", "P": "pressure", "Viscosity": "mu_w"}
    )
    rename_cols = {
        "T": "temperature",
        "P": "pressure",
        "Oil_Viscosity": "mu_o",
        "Gas_Viscosity": "mu_g",
        "Rso": "Rs",
    }
    df = (
        pvt_w.drop(columns=["temperature"])
        .merge(pvt_o.rename(columns=rename_cols), on="pressure")
        .assign(Rv=0)
    )
    df["So"] = (1 - Sw) / ((df["Rs"].max() - df["Rs"]) * df["Bg"] / df["Bo"] / 5.61458 + 1)
    return df


def describe_flow(obj, pressures, ms):
    out = {
        "m_i": obj.m_i,
        "m_scaled": obj.m_scaled_func(pressures),
        "alpha_arr": obj.alpha(ms),
        "alpha_scalar": obj.alpha(0.37),
        "alpha_lo": obj.alpha(-5.0),
        "alpha_hi": obj.alpha(1e9),
        "pvt_props_type": type(obj.pvt_props).__name__,
        "pvt_props": {k: obj.pvt_props[k] for k in obj.pvt_props},
        "repr_len": len(repr(obj)),
    }
    for extra in ("pvt", "kr"):
        if hasattr(obj, extra):
            out[extra] = dict(getattr(obj, extra))
    return out


ms = np.array([-1.0, 0.0, 1e-6, 0.01, 0.2, 0.5, 0.999, 1.0, 1.5, 50.0])

# --------------------------------------------------------------------------
# FlowProperties
# --------------------------------------------------------------------------
p_max_gas = float(pvt_gas_small["pressure"].max())
for p_i in (0.0, 10.0, 1234.5, 5000, 8000.0, p_max_gas, p_max_gas + 1.0, -1.0, float("nan")):
    record(
        f"FlowProperties(gas df, {p_i!r})",
        lambda p_i=p_i: describe_flow(
            FlowProperties(pvt_gas_small, p_i), np.array([0.0, 55.0, 3000.0, p_max_gas]), ms
        ),
    )
record(
    "FlowProperties(full gas df, 8000)",
    lambda: (lambda o: (o.m_i, o.alpha(ms), o.m_scaled_func([10.0, 7999.0])))(
        FlowProperties(pvt_gas, 8000.0)
    ),
)
record(
    "FlowProperties(oil df, 6000)",
    lambda: describe_flow(FlowProperties(pvt_oil_small, 6000.0), np.array([0.0, 3000.0]), ms),
)
record("gas df untouched", lambda: list(pvt_gas_small.columns))

gas_dict = {c: pvt_gas_small[c].to_numpy().copy() for c in pvt_gas_small.columns}
gas_dict_nz = {c: v[1:].copy() for c, v in gas_dict.items()}
record(
    "FlowProperties(dict long, 4000)",
    lambda: describe_flow(FlowProperties(gas_dict, 4000.0), np.array([0.0, 3000.0]), ms),
)
record("dict untouched", lambda: sorted(gas_dict))
record(
    "FlowProperties(dict long no zero row, 4000)",
    lambda: describe_flow(FlowProperties(gas_dict_nz, 4000.0), np.array([1500.0, 3000.0]), ms),
)
short = {
    "pressure": gas_dict_nz["pressure"],
    "pseudopressure": gas_dict_nz["pseudopressure"],
    "alpha": 1.0 / (gas_dict_nz["compressibility"] * gas_dict_nz["viscosity"]),
}
record(
    "FlowProperties(dict short, 4000)",
    lambda: describe_flow(FlowProperties(short, 4000.0), np.array([1500.0, 3000.0]), ms),
)
short0 = {
    "pressure": gas_dict["pressure"],
    "pseudopressure": gas_dict["pseudopressure"],
    "alpha": np.linspace(3.0, 1.0, len(gas_dict["pressure"])),
}
record(
    "FlowProperties(dict short with zero pseudopressure, 4000)",
    lambda: describe_flow(FlowProperties(short0, 4000.0), np.array([1500.0, 3000.0]), ms),
)
record(
    "FlowProperties(df with alpha, 4000)",
    lambda: describe_flow(
        FlowProperties(pvt_gas_small.iloc[1:].assign(alpha=lambda d: d["pressure"] + 1.0), 4000.0),
        np.array([1500.0, 3000.0]),
        ms,
    ),
)
record(
    "FlowProperties(p_i array)",
    lambda: describe_flow(
        FlowProperties(gas_dict_nz, np.array([4000.0])), np.array([1500.0, 3000.0]), ms
    ),
)
for drop in ("pressure", "pseudopressure", "viscosity", "z-factor", "compressibility"):
    record(
        f"FlowProperties(dict missing {drop})",
        lambda drop=drop: describe_flow(
            FlowProperties({k: v for k, v in gas_dict_nz.items() if k != drop}, 4000.0),
            np.array([1500.0]),
            ms,
        ),
    )
    record(
        f"FlowProperties(df missing {drop})",
        lambda drop=drop: describe_flow(
            FlowProperties(pvt_gas_small.drop(columns=[drop]), 4000.0), np.array([1500.0]), ms
        ),
    )
record("FlowProperties(short missing alpha)", lambda: FlowProperties({"pressure": 1, "pseudopressure": 2}, 1.0))
record("FlowProperties(None)", lambda: FlowProperties(None, 1.0))
record("FlowProperties(empty dict)", lambda: FlowProperties({}, 1.0))
record("FlowPropertiesOnePhase alias", lambda: fp.FlowPropertiesOnePhase is FlowProperties)

# --------------------------------------------------------------------------
# FlowPropertiesSimple
# --------------------------------------------------------------------------
for p_i in (0.0, 3333.3, 6000, 1e6, float("nan")):
    record(
        f"FlowPropertiesSimple(oil df, {p_i!r})",
        lambda p_i=p_i: describe_flow(
            FlowPropertiesSimple(pvt_oil_small, p_i), np.array([0.0, 55.0, 3000.0]), ms * 6000
        ),
    )
oil_dict = {c: pvt_oil_small[c].to_numpy().copy() for c in ("pressure", "viscosity", "compressibility")}
record(
    "FlowPropertiesSimple(dict, 2000)",
    lambda: describe_flow(FlowPropertiesSimple(oil_dict, 2000.0), np.array([0.0, 3000.0]), ms * 6000),
)
for drop in ("pressure", "viscosity", "compressibility"):
    record(
        f"FlowPropertiesSimple(dict missing {drop})",
        lambda drop=drop: FlowPropertiesSimple(
            {k: v for k, v in oil_dict.items() if k != drop}, 2000.0
        ),
    )

# --------------------------------------------------------------------------
# relative permeabilities
# --------------------------------------------------------------------------
P0 = dict(n_o=1, n_g=1, n_w=1, S_or=0, S_gc=0, S_wc=0.1, k_ro_max=1, k_rw_max=1, k_rg_max=1)
param_sets = {
    "linear": RelPermParams(**P0),
    "corey": RelPermParams(
        n_o=2.5, n_g=3, n_w=1.7, S_or=0.15, S_gc=0.05, S_wc=0.2, k_ro_max=0.9, k_rw_max=0.4, k_rg_max=0.75
    ),
    "six": RelPermParams(**{**P0, "n_o": 6, "n_g": 6.0, "n_w": 6}),
    "zero_denominator": RelPermParams(**{**P0, "S_or": 0.5, "S_gc": 0.3, "S_wc": 0.2}),
    "neg_denominator": RelPermParams(**{**P0, "S_or": 0.6, "S_gc": 0.6, "S_wc": 0.2}),
    "kmax0": RelPermParams(**{**P0, "k_ro_max": 0, "k_rw_max": 0.0, "k_rg_max": 1}),
    "n_too_big": RelPermParams(**{**P0, "n_g": 6.5}),
    "n_too_small": RelPermParams(**{**P0, "n_w": 0.5}),
    "S_neg": RelPermParams(**{**P0, "S_or": -0.1}),
    "S_big": RelPermParams(**{**P0, "S_gc": 1.1}),
    "k_neg": RelPermParams(**{**P0, "k_rw_max": -0.2}),
    "k_big": RelPermParams(**{**P0, "k_rg_max": 1.2}),
    "n_nan": RelPermParams(**{**P0, "n_o": float("nan")}),
    "k_nan": RelPermParams(**{**P0, "k_ro_max": float("nan")}),
    "S_nan": RelPermParams(**{**P0, "S_wc": float("nan")}),
    "np_scalars": RelPermParams(
        n_o=np.float64(2), n_g=np.int64(3), n_w=np.float32(1.5), S_or=np.float64(0.1), S_gc=0,
        S_wc=np.float64(0.1), k_ro_max=np.float64(1), k_rw_max=np.float32(0.5), k_rg_max=1,
    ),
    "size1_arrays": RelPermParams(**{**P0, "n_o": np.array([2.0]), "k_ro_max": np.array([0.5])}),
    "strings": RelPermParams(**{**P0, "n_o": "2"}),
    "size1_2d": RelPermParams(**{**P0, "n_o": np.array([[2.0]])}),
    "kmax_2d": RelPermParams(**{**P0, "k_rg_max": np.array([[0.5]])}),
    "bools": RelPermParams(**{**P0, "n_o": True, "k_ro_max": True, "S_or": False}),
    "fractions": RelPermParams(
        **{**P0, "n_o": __import__("fractions").Fraction(3, 2), "S_or": __import__("fractions").Fraction(1, 10)}
    ),
}


def sat_frame(Sw=0.1, n=50):
    return pd.DataFrame(
        {"So": np.linspace(0, 1 - Sw, n), "Sw": np.full(n, Sw), "Sg": np.linspace(1 - Sw, 0, n)}
    )


rng = np.random.default_rng(12345)
raw = rng.random((40, 3))
raw /= raw.sum(axis=1)[:, None]
sat_random = np.zeros(40, dtype=[("So", "f8"), ("Sw", "f8"), ("Sg", "f8")])
sat_random["So"], sat_random["Sw"], sat_random["Sg"] = raw[:, 0], raw[:, 1], raw[:, 2]
sat_reordered = np.zeros(40, dtype=[("Sg", "f8"), ("So", "f8"), ("Sw", "f8")])
for name in ("So", "Sw", "Sg"):
    sat_reordered[name] = sat_random[name]
sat_f32 = sat_random.astype([("So", "f4"), ("Sw", "f4"), ("Sg", "f4")])
sat_int = np.array([(1, 0, 0), (0, 1, 0), (0, 0, 1)], dtype=[("So", "i8"), ("Sw", "i8"), ("Sg", "i8")])
sat_bool = np.array([(True, False, False), (False, False, True)], dtype=[("So", "?"), ("Sw", "?"), ("Sg", "?")])
sat_extra = np.zeros(5, dtype=[("So", "f8"), ("Sw", "f8"), ("Sg", "f8"), ("pad", "f8")])
sat_extra["So"], sat_extra["Sw"], sat_extra["Sg"] = 0.5, 0.2, 0.3
sat_extra_off = sat_extra.copy()
sat_extra_off["pad"] = 0.5
sat_nan = sat_random.copy()
sat_nan["So"][3] = np.nan
sat_inf = sat_random.copy()
sat_inf["Sg"][0] = np.inf
sat_off = sat_random.copy()
sat_off["Sw"][7] += 2e-3
sat_edge = sat_random.copy()
sat_edge["Sw"][7] += 9e-4
sat_neg = np.array([(-0.2, 0.6, 0.6), (1.3, -0.3, 0.0), (0.0, 0.0, 1.0)], dtype=sat_random.dtype)
sat_negzero = np.array([(-0.0, 1.0, 0.0), (0.0, -0.0, 1.0)], dtype=sat_random.dtype)
sat_empty = sat_random[:0]
sat_one = sat_random[:1]
sat_missing_sw = np.zeros(3, dtype=[("So", "f8"), ("Sg", "f8"), ("Sx", "f8")])
sat_missing_sw["So"], sat_missing_sw["Sg"], sat_missing_sw["Sx"] = 0.5, 0.3, 0.2
sat_missing_so = np.zeros(3, dtype=[("Sw", "f8"), ("Sg", "f8"), ("Sx", "f8")])
sat_missing_so["Sw"], sat_missing_so["Sg"], sat_missing_so["Sx"] = 0.5, 0.3, 0.2
sat_missing_sg = np.zeros(3, dtype=[("So", "f8"), ("Sw", "f8"), ("Sx", "f8")])
sat_missing_sg["So"], sat_missing_sg["Sw"], sat_missing_sg["Sx"] = 0.5, 0.3, 0.2
sat_empty_missing = sat_missing_sw[:0]
sat_2d_struct = sat_random.reshape(8, 5)
sat_0d = sat_random[0]
sat_strided = sat_random[::3]
sat_subarray = np.zeros(3, dtype=[("So", "f8", (2,)), ("Sw", "f8", (2,)), ("Sg", "f8", (2,))])
sat_subarray["So"], sat_subarray["Sw"], sat_subarray["Sg"] = 0.5, 0.2, 0.3
sat_complex = np.array([(0.5 + 0j, 0.2, 0.3), (0.1 + 0j, 0.2, 0.7)], dtype=[("So", "c16"), ("Sw", "f8"), ("Sg", "f8")])
sat_object = np.array([(0.5, 0.2, 0.3), (0.1, 0.2, 0.7)], dtype=[("So", "O"), ("Sw", "f8"), ("Sg", "f8")])
sat_f16 = sat_random.astype([("So", "f2"), ("Sw", "f2"), ("Sg", "f2")])
sat_longdouble = sat_random.astype([("So", "g"), ("Sw", "g"), ("Sg", "g")])
sat_bigendian = sat_random.astype([("So", ">f8"), ("Sw", ">f8"), ("Sg", ">f8")])
sat_masked = np.ma.array(sat_random, mask=False)
sat_sets = {
    "frame_records": sat_frame().to_records(index=False),
    "frame_records_sw0": sat_frame(0.0, 7).to_records(index=False),
    "frame_records_with_index": sat_frame(0.1, 5).to_records(index=True),
    "random": sat_random,
    "recarray_view": sat_random.view(np.recarray),
    "reordered": sat_reordered,
    "f32": sat_f32,
    "int": sat_int,
    "bool": sat_bool,
    "extra": sat_extra,
    "extra_off": sat_extra_off,
    "nan": sat_nan,
    "inf": sat_inf,
    "off": sat_off,
    "edge": sat_edge,
    "neg": sat_neg,
    "negzero": sat_negzero,
    "empty": sat_empty,
    "one": sat_one,
    "missing_sw": sat_missing_sw,
    "missing_so": sat_missing_so,
    "missing_sg": sat_missing_sg,
    "empty_missing": sat_empty_missing,
    "2d_struct": sat_2d_struct,
    "0d": sat_0d,
    "strided": sat_strided,
    "subarray": sat_subarray,
    "complex": sat_complex,
    "object": sat_object,
    "f16": sat_f16,
    "longdouble": sat_longdouble,
    "bigendian": sat_bigendian,
    "masked": sat_masked,
    "plain2d": raw,
    "list_of_tuples": [tuple(r) for r in raw[:4].tolist()],
    "dataframe": sat_frame(),
    "dict": {"So": np.array([0.5]), "Sw": np.array([0.2]), "Sg": np.array([0.3])},
    "none": None,
}
for sname, sat in sat_sets.items():
    for pname, par in param_sets.items():
        if sname not in ("frame_records", "random", "neg", "f32") and pname not in (
            "linear",
            "corey",
            "n_too_big",
            "zero_denominator",
        ):
            continue
        record(
            f"relative_permeabilities({sname}, {pname})",
            lambda sat=sat, par=par: relative_permeabilities(sat, par),
        )
record("relperm input untouched", lambda: (sat_random, sat_neg, sat_f32))


def fresh_twice():
    a = relative_permeabilities(sat_random, param_sets["corey"])
    b = relative_permeabilities(sat_random, param_sets["corey"])
    a["kro"][:] = -7.0
    return (a is b, np.shares_memory(a, b), b, a.flags.writeable, a.flags.c_contiguous, a.flags.owndata)


record("relative_permeabilities returns fresh arrays", fresh_twice)

for pname, par in param_sets.items():
    for Sw in (0.1, 0.0, 0.05, 0.2, 0.8, -0.1, 1.0, float("nan"), np.float64(0.1), 0):
        record(
            f"relative_permeabilities_twophase({pname}, {Sw!r})",
            lambda par=par, Sw=Sw: relative_permeabilities_twophase(par, Sw),
        )
    record(
        f"relative_permeabilities_twophase({pname}) default",
        lambda par=par: relative_permeabilities_twophase(par),
    )
record(
    "relative_permeabilities_twophase(Sw keyword)",
    lambda: relative_permeabilities_twophase(params=param_sets["corey"], Sw=0.15),
)
record(
    "relative_permeabilities_twophase(Sw array)",
    lambda: relative_permeabilities_twophase(param_sets["corey"], np.array([0.1, 0.1])),
)
record(
    "relative_permeabilities_twophase(Sw str)",
    lambda: relative_permeabilities_twophase(param_sets["corey"], "0.1"),
)

# --------------------------------------------------------------------------
# rescale_pseudopressure
# --------------------------------------------------------------------------
df_test = test_df_pvt()
df_test_small = df_test.iloc[::90].reset_index(drop=True)
p_hi = float(df_test_small["pressure"].max())
for p_frac, p_i in (
    (1000, 8000.0),
    (1000.0, 6000.0),
    (0.0, p_hi),
    (p_hi, 0.0),
    (123.456, 7654.321),
    (500.0, 500.0),
    (-1.0, 8000.0),
    (1000.0, p_hi + 1),
    (-1.0, p_hi + 1),
    (float("nan"), 8000.0),
    (1000.0, float("nan")),
    (np.array([1000.0]), 8000.0),
    (np.array([1000.0, 2000.0]), 8000.0),
    (1000.0, np.array([7000.0, 8000.0])),
    (np.array([1000.0, 2000.0]), None),
    ("a", 8000.0),
    (1000.0, None),
):
    record(
        f"rescale_pseudopressure(df, {p_frac!r}, {p_i!r})",
        lambda p_frac=p_frac, p_i=p_i: rescale_pseudopressure(df_test_small, p_frac, p_i),
    )
record(
    "rescale_pseudopressure(full df)",
    lambda: rescale_pseudopressure(df_test, 1000, 8000.0)["pseudopressure"],
)
record("rescale input untouched", lambda: df_test_small["pseudopressure"])
record(
    "rescale_pseudopressure(gas df)",
    lambda: rescale_pseudopressure(pvt_gas_small, 2000.0, 9000.0),
)
record(
    "rescale_pseudopressure(recarray)",
    lambda: rescale_pseudopressure(
        pvt_gas_small[["pressure", "pseudopressure"]].to_records(index=False), 2000.0, 9000.0
    ),
)
record("rescale_pseudopressure(dict)", lambda: rescale_pseudopressure(dict(gas_dict), 2000.0, 9000.0))
record(
    "rescale_pseudopressure(df no pseudopressure)",
    lambda: rescale_pseudopressure(pvt_gas_small.drop(columns=["pseudopressure"]), 2000.0, 9000.0),
)
record(
    "rescale_pseudopressure(unsorted df)",
    lambda: rescale_pseudopressure(pvt_gas_small.iloc[::-1].reset_index(drop=True), 2000.0, 9000.0),
)
record("rescale_pseudopressure(None)", lambda: rescale_pseudopressure(None, 1.0, 2.0))

# --------------------------------------------------------------------------
# multiphase kernels
# --------------------------------------------------------------------------
PVT_COLS = ("pseudopressure", "pressure", "Bo", "Bg", "Bw", "Rs", "Rv", "mu_o", "mu_g", "mu_w", "So")
densities = {"rho_o0": 141.5 / (45 + 131.5), "rho_g0": 1.03e-3, "rho_w0": 1}
densities2 = {"rho_o0": 0.85, "rho_g0": 0.002, "rho_w0": 1.04}


def build(df, df_kr, dens):
    pvt = {c: interp1d(df["pressure"], df[c], fill_value="extrapolate") for c in PVT_COLS}
    pvt.update(dens)
    kr = {f: interp1d(df_kr["So"], df_kr[f]) for f in ("kro", "krg", "krw")}
    return pvt, kr


df_rescaled = rescale_pseudopressure(df_test, 1000, 8000.0)
df_rescaled_small = df_rescaled.iloc[::45].reset_index(drop=True)
df_rescaled_rv = df_rescaled_small.assign(Rv=lambda d: 1e-5 * d["pressure"] / 100.0)
kr_linear = relative_permeabilities_twophase(param_sets["linear"])
kr_corey = relative_permeabilities_twophase(param_sets["corey"], 0.15)

cases = {
    "linear": (df_rescaled_small, kr_linear, densities, 0.1, 0.1),
    "corey_rv": (df_rescaled_rv, kr_corey, densities2, 0.23, 0.15),
}
p_arr = np.array([0.0, 14.7, 500.0, 1234.5, 4000.0, 7999.0, 9000.0, 20000.0, -50.0])
for cname, (df, df_kr, dens, phi, Sw) in cases.items():
    pvt, kr = build(df, df_kr, dens)
    so_max = float(df_kr["So"].max())
    so_arr = np.linspace(0.0, so_max, len(p_arr))
    argsets = {
        "arrays": (p_arr, so_arr),
        "scalars": (2500.0, 0.4),
        "np_scalars": (np.float64(2500.0), np.float64(0.4)),
        "int_scalars": (2500, 0),
        "series": (pd.Series(p_arr), pd.Series(so_arr)),
        "table": (df["pressure"], df["So"]),
        "table_np": (df["pressure"].to_numpy(), df["So"].to_numpy()),
        "2d": (p_arr[:8].reshape(2, 4), so_arr[:8].reshape(2, 4)),
        "broadcast": (p_arr, 0.3),
        "lists": (p_arr.tolist(), so_arr.tolist()),
        "nan": (np.array([1000.0, np.nan]), np.array([np.nan, 0.2])),
        "so_out_of_range": (p_arr, so_arr + 0.5),
        "so_negative": (1000.0, -0.1),
        "shape_mismatch": (p_arr, so_arr[:3]),
        "empty": (np.array([]), np.array([])),
        "none": (None, None),
        "strings": ("a", "b"),
    }
    for aname, (pp, so) in argsets.items():
        lab = f"[{cname}/{aname}]"
        record("lambda_combined_func" + lab, lambda: lambda_combined_func(pp, so, pvt, kr))
        record(
            "compressibility_combined_func" + lab,
            lambda: compressibility_combined_func(pp, so, phi, Sw, pvt),
        )
        record("alpha_multiphase" + lab, lambda: alpha_multiphase(pp, so, phi, Sw, pvt, kr))
        record("pseudopressure_threephase" + lab, lambda: pseudopressure_threephase(pp, so, pvt, kr))
    record(
        f"compressibility_combined_func[{cname}/Sw array]",
        lambda: compressibility_combined_func(p_arr, so_arr, phi, np.full(len(p_arr), Sw), pvt),
    )
    record(
        f"compressibility_combined_func[{cname}/phi array]",
        lambda: compressibility_combined_func(p_arr, so_arr, np.linspace(0.05, 0.3, len(p_arr)), Sw, pvt),
    )
    record(
        f"pseudopressure_threephase[{cname}/decreasing]",
        lambda: pseudopressure_threephase(p_arr[::-1].copy(), so_arr, pvt, kr),
    )
    for missing in ("rho_o0", "rho_g0", "rho_w0", "Rv", "Rs", "mu_o", "mu_g", "mu_w", "Bo", "Bg", "Bw"):
        pvt_m = {k: v for k, v in pvt.items() if k != missing}
        lab = f"[{cname}/pvt missing {missing}]"
        record("lambda_combined_func" + lab, lambda: lambda_combined_func(p_arr, so_arr, pvt_m, kr))
        record(
            "compressibility_combined_func" + lab,
            lambda: compressibility_combined_func(p_arr, so_arr, phi, Sw, pvt_m),
        )
        record("alpha_multiphase" + lab, lambda: alpha_multiphase(p_arr, so_arr, phi, Sw, pvt_m, kr))
        record(
            "pseudopressure_threephase" + lab,
            lambda: pseudopressure_threephase(p_arr, so_arr, pvt_m, kr),
        )
        # double fault: missing key and saturations outside the table
        record(
            "lambda_combined_func double fault" + lab,
            lambda: lambda_combined_func(p_arr, so_arr + 5.0, pvt_m, kr),
        )
        record(
            "pseudopressure_threephase double fault" + lab,
            lambda: pseudopressure_threephase(p_arr, so_arr + 5.0, pvt_m, kr),
        )
        record(
            "compressibility double fault" + lab,
            lambda: compressibility_combined_func(p_arr.tolist(), so_arr, phi, Sw, pvt_m),
        )
    for missing in ("kro", "krg", "krw"):
        kr_m = {k: v for k, v in kr.items() if k != missing}
        lab = f"[{cname}/kr missing {missing}]"
        record("lambda_combined_func" + lab, lambda: lambda_combined_func(p_arr, so_arr, pvt, kr_m))
        record("alpha_multiphase" + lab, lambda: alpha_multiphase(p_arr, so_arr, phi, Sw, pvt, kr_m))
        record(
            "pseudopressure_threephase" + lab,
            lambda: pseudopressure_threephase(p_arr, so_arr, pvt, kr_m),
        )

    # call-order / call-count of user supplied callables is observable
    calls = []

    def spy(name, f):
        def wrapped(x):
            calls.append(name)
            return f(x)

        return wrapped

    pvt_spy = {k: (spy(k, v) if callable(v) else v) for k, v in pvt.items()}
    kr_spy = {k: spy(k, v) for k, v in kr.items()}
    for fname, call in (
        ("lambda_combined_func", lambda: lambda_combined_func(p_arr, so_arr, pvt_spy, kr_spy)),
        ("pseudopressure_threephase", lambda: pseudopressure_threephase(p_arr, so_arr, pvt_spy, kr_spy)),
        ("compressibility_combined_func", lambda: compressibility_combined_func(p_arr, so_arr, phi, Sw, pvt_spy)),
        ("alpha_multiphase", lambda: alpha_multiphase(p_arr, so_arr, phi, Sw, pvt_spy, kr_spy)),
    ):
        del calls[:]
        call()
        record(f"call order {fname}[{cname}]", lambda: list(calls))

# --------------------------------------------------------------------------
# FlowPropertiesTwoPhase.from_table
# --------------------------------------------------------------------------
press = np.array([0.0, 10.0, 999.0, 1000.0, 4000.0, 8000.0])
for cname, (df, df_kr, dens, phi, Sw) in cases.items():
    for p_i in (8000.0, 6000, 1000.0, 0.0, 1e6, -3.0, float("nan")):
        record(
            f"from_table[{cname}, p_i={p_i!r}]",
            lambda: describe_flow(
                FlowPropertiesTwoPhase.from_table(df, df_kr, dens, phi, Sw, p_i), press, ms
            ),
        )
    record(
        f"from_table[{cname}] keywords",
        lambda: describe_flow(
            FlowPropertiesTwoPhase.from_table(
                pvt_props=df, kr_props=df_kr, reference_densities=dens, phi=phi, Sw=Sw, p_i=7000.0
            ),
            press,
            ms,
        ),
    )
    record(
        f"from_table[{cname}] dict tables",
        lambda: describe_flow(
            FlowPropertiesTwoPhase.from_table(
                {c: df[c].to_numpy() for c in df.columns},
                {c: df_kr[c].to_numpy() for c in df_kr.columns},
                dens,
                phi,
                Sw,
                7000.0,
            ),
            press,
            ms,
        ),
    )
    for drop in ("So", "Rv", "pseudopressure", "mu_w"):
        record(
            f"from_table[{cname}] pvt missing {drop}",
            lambda: FlowPropertiesTwoPhase.from_table(df.drop(columns=[drop]), df_kr, dens, phi, Sw, 7000.0),
        )
    for drop in ("So", "Sg", "krw"):
        record(
            f"from_table[{cname}] kr missing {drop}",
            lambda: FlowPropertiesTwoPhase.from_table(df, df_kr.drop(columns=[drop]), dens, phi, Sw, 7000.0),
        )
    for drop in ("rho_o0", "rho_g0", "rho_w0"):
        record(
            f"from_table[{cname}] densities missing {drop}",
            lambda: FlowPropertiesTwoPhase.from_table(
                df, df_kr, {k: v for k, v in dens.items() if k != drop}, phi, Sw, 7000.0
            ),
        )
    record(
        f"from_table[{cname}] densities None",
        lambda: FlowPropertiesTwoPhase.from_table(df, df_kr, None, phi, Sw, 7000.0),
    )
    record(f"from_table[{cname}] tables untouched", lambda: (list(df.columns), list(df_kr.columns)))
record(
    "from_table[csv multiphase table]",
    lambda: describe_flow(
        FlowPropertiesTwoPhase.from_table(pvt_mp_small, kr_linear, densities, 0.1, 0.1, 6000.0),
        press,
        ms,
    ),
)
record(
    "from_table[full test table]",
    lambda: (lambda o: (o.m_i, o.alpha(ms), o.pvt_props["m-scaled"], o.pvt_props["alpha"]))(
        FlowPropertiesTwoPhase.from_table(df_rescaled, kr_linear, densities, 0.1, 0.1, 8000.0)
    ),
)
record(
    "from_table kr sanity",
    lambda: [
        FlowPropertiesTwoPhase.from_table(df_rescaled, kr_linear, densities, 0.1, 0.1, 8000.0).kr[
            f"kr{f}"
        ]([0, 0.2, 0.4])
        for f in "ogw"
    ],
)

# --------------------------------------------------------------------------
# FlowPropertiesMultiPhase
# --------------------------------------------------------------------------
mp_df = pd.DataFrame(
    {
        "pseudopressure": np.linspace(0, 1, 6),
        "alpha": np.linspace(1, 2, 6),
        "So": np.linspace(0.2, 0.7, 6),
        "Sg": np.linspace(0.7, 0.2, 6),
        "Sw": np.full(6, 0.1),
    }
)
record("FlowPropertiesMultiPhase(df)", lambda: FlowPropertiesMultiPhase(mp_df))
record("FlowPropertiesMultiPhase(df missing)", lambda: FlowPropertiesMultiPhase(mp_df.drop(columns=["Sg"])))
record("FlowPropertiesMultiPhase(dict)", lambda: FlowPropertiesMultiPhase({"a": 1}))
record("public names", lambda: sorted(n for n in dir(fp) if not n.startswith("_")))
record(
    "signatures",
    lambda: [
        str(__import__("inspect").signature(f))
        for f in (
            FlowProperties.__init__,
            FlowPropertiesSimple.__init__,
            FlowPropertiesTwoPhase.from_table,
            FlowPropertiesMultiPhase.__init__,
            rescale_pseudopressure,
            alpha_multiphase,
            lambda_combined_func,
            compressibility_combined_func,
            pseudopressure_threephase,
            relative_permeabilities,
            relative_permeabilities_twophase,
        )
    ],
)

with open(sys.argv[1], "w") as fh:
    fh.write("\n".join(OUT) + "\n")
