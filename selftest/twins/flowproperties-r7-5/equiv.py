"""Equivalence driver for bluebonnet.flow.flowproperties.

Usage: PYTHONPATH=<tree>/src /venv/bin/python equiv.py <outfile>

Calls the public classes / functions of the module on a broad set of inputs and
writes every result (full-precision repr, or rounded to ROUND significant digits
when ROUND is an int) or the exception type + message tokens to <outfile>.
"""

from __future__ import annotations

import os
import re
import sys
import warnings
from collections import namedtuple

import numpy as np
import pandas as pd
from scipy.interpolate import interp1d

from bluebonnet.flow import flowproperties as fp
from bluebonnet.flow.flowproperties import (
    FlowProperties,
    FlowPropertiesMultiPhase,
    FlowPropertiesOnePhase,
    FlowPropertiesSimple,
    FlowPropertiesTwoPhase,
    RelPermParams,
    alpha_multiphase,
    compressibility_combined_func,
    lambda_combined_func,
    pseudopressure_threephase,
    relative_permeabilities,
    relative_permeabilities_twophase,
    rescale_pseudopressure,
)

ROUND = None  # set to 11 for refactorings that re-associate floating point
SECTIONS = "ABCDEFGH"  # sections to run

DATA = os.environ.get("BB_DATA", "/tmp/twin7_flowproperties/tests/data")
OUT = []


def fnum(x):
    x = float(x)
    if ROUND is None or x != x or x in (float("inf"), float("-inf")) or x == 0:
        return repr(x)
    return f"{x:.{ROUND - 1}e}"


def fmt(v, full=False):
    if isinstance(v, BaseException):
        toks = sorted(t for t in re.split(r"[^A-Za-z0-9_\-]+", str(v)) if t)
        return f"EXC {type(v).__name__} {' '.join(toks)[:300]}"
    if isinstance(v, pd.DataFrame):
        parts = [f"DF cols={list(v.columns)} shape={v.shape}"]
        for c in v.columns:
            parts.append(f"  [{c}] " + fmt(v[c].to_numpy(), full))
        return "\n".join(parts)
    if isinstance(v, pd.Series):
        return "SER " + fmt(v.to_numpy(), full)
    if isinstance(v, np.ndarray):
        if v.dtype.names:
            parts = [f"REC names={v.dtype.names} shape={v.shape}"]
            for c in v.dtype.names:
                parts.append(f"  [{c}] " + fmt(np.asarray(v[c]), full))
            return "\n".join(parts)
        if v.dtype.kind not in "fiub":
            return f"ARR dtype={v.dtype} shape={v.shape} {v.tolist()!r}"
        flat = v.ravel()
        head = f"ARR dtype={v.dtype} shape={v.shape}"
        if flat.size <= 64 or full:
            return head + " [" + ", ".join(fnum(a) for a in flat) + "]"
        idx = sorted(set(list(range(0, flat.size, 29)) + [0, 1, 2, flat.size - 2, flat.size - 1]))
        with warnings.catch_warnings():
            warnings.simplefilter("ignore")
            s = np.nansum(flat.astype(float))
        return (
            head
            + " sum="
            + fnum(s)
            + " nnan="
            + str(int(np.isnan(flat.astype(float)).sum()))
            + " ["
            + ", ".join(fnum(flat[i]) for i in idx)
            + "]"
        )
    if isinstance(v, (float, np.floating)):
        return f"{type(v).__name__} {fnum(v)}"
    if isinstance(v, (bool, np.bool_, int, np.integer, str, type(None))):
        return f"{type(v).__name__} {v!r}"
    if isinstance(v, dict):
        return "DICT{" + "; ".join(f"{k!r}: {fmt(v[k], full)}" for k in v) + "}"
    if isinstance(v, (tuple, list)):
        return type(v).__name__ + "(" + ", ".join(fmt(a, full) for a in v) + ")"
    return f"OBJ {type(v).__name__}"


def rec(label, fn, full=False):
    with warnings.catch_warnings(record=True) as w:
        warnings.simplefilter("always")
        try:
            res = fn()
        except Exception as e:  # noqa: BLE001
            res = e
    cats = sorted({x.category.__name__ for x in w})
    OUT.append(f"## {label}  warnings={cats}")
    OUT.append(fmt(res, full))
    return res


# ------------------------------------------------------------------ data
ren_gas = {
    "P": "pressure",
    "Z-Factor": "z-factor",
    "Cg": "compressibility",
    "Viscosity": "viscosity",
    "Density": "density",
}
ren_oil = {
    "P": "pressure",
    "Z-Factor": "z-factor",
    "Co": "compressibility",
    "Oil_Viscosity": "viscosity",
    "Oil_Density": "density",
}
pvt_gas = pd.read_csv(os.path.join(DATA, "pvt_gas.csv")).rename(columns=ren_gas)
pvt_oil = pd.read_csv(os.path.join(DATA, "pvt_oil.csv")).rename(columns=ren_oil)
pvt_ideal = pd.read_csv(os.path.join(DATA, "pvt_ideal_gas.csv")).rename(columns=ren_gas)
pvt_hay = pd.read_csv(os.path.join(DATA, "pvt_gas_HAYNESVILLE SHALE_20.csv"))
pvt_mp = pd.read_csv(os.path.join(DATA, "pvt_multiphase_oil.csv"), index_col=0)


def make_df_pvt(Sw=0.1):
    pvt_o = pd.read_csv(os.path.join(DATA, "pvt_oil.csv"))
    pvt_w = pd.read_csv(os.path.join(DATA, "pvt_water.csv")).rename(
        columns={"T": "temperature", "P": "pressure", "Viscosity": "mu_w"}
    )
    rename_cols = {
        "T": "temperature",
        "P": "pressure",
        "Oil_Viscosity": "mu_o",
        "Gas_Viscosity": "mu_g",
        "Rso": "Rs",
    }
    df = (
        pvt_w.drop(columns=["temperature"])
        .merge(pvt_o.rename(columns=rename_cols), on="pressure")
        .assign(Rv=0)
    )
    df["So"] = (1 - Sw) / ((df["Rs"].max() - df["Rs"]) * df["Bg"] / df["Bo"] / 5.61458 + 1)
    return df


P_PROBE = [0.0, 10.0, 14.7, 500.0, 1234.5, 4999.99, 8000.0]
M_PROBE = [-1.0, 0.0, 1e-6, 0.01, 0.3, 0.5, 0.999, 1.0, 1.5, 1e3]


def describe_flow(obj, p_hi):
    out = {"type": type(obj).__name__, "m_i": np.asarray(obj.m_i)}
    ps = [p for p in P_PROBE if p <= p_hi]
    try:
        out["m_scaled"] = np.asarray(obj.m_scaled_func(ps))
    except Exception as e:  # noqa: BLE001
        out["m_scaled"] = e
    try:
        out["m_scaled_oob"] = np.asarray(obj.m_scaled_func(-5.0))
    except Exception as e:  # noqa: BLE001
        out["m_scaled_oob"] = e
    out["alpha"] = np.asarray(obj.alpha(M_PROBE))
    out["alpha_scalar"] = np.asarray(obj.alpha(0.25))
    out["alpha_opts"] = (
        type(obj.alpha).__name__,
        bool(obj.alpha.bounds_error),
        bool(obj.m_scaled_func.bounds_error),
    )
    pp = obj.pvt_props
    out["pvt_type"] = type(pp).__name__
    out["pvt_keys"] = sorted(pp.keys()) if hasattr(pp, "keys") else None
    for k in sorted(pp.keys()):
        out["pvt:" + k] = np.asarray(pp[k])
    out["attrs"] = sorted(a for a in vars(obj) if not a.startswith("__"))
    out["repr_same"] = repr(obj) == repr(obj.pvt_props)
    return out


# ------------------------------------------------------------------ A
def section_A():
    OUT.append("# ===== A FlowProperties")
    rec("alias", lambda: FlowPropertiesOnePhase is FlowProperties)
    for name, tab, p_hi in [
        ("gas", pvt_gas, 12000.0),
        ("oil", pvt_oil, 9000.0),
        ("ideal", pvt_ideal, 12000.0),
        ("hay", pvt_hay, 13000.0),
    ]:
        pmax = float(tab["pressure"].max())
        pmin = float(tab["pressure"].min())
        for p_i in [5000.0, 8000, pmax, pmin + 10.0, pmin, 1234.567]:
            cols_before = list(tab.columns)

            def run(tab=tab, p_i=p_i):
                return describe_flow(FlowProperties(tab, p_i), pmax)

            rec(f"A {name} p_i={p_i!r}", run)
            assert list(tab.columns) == cols_before, "input table was mutated"
        rec(f"A {name} kw", lambda tab=tab: describe_flow(FlowProperties(pvt_props=tab, p_i=3000.0), pmax))
        rec(f"A {name} p_i too high", lambda tab=tab: FlowProperties(tab, pmax + 1.0))
        rec(f"A {name} p_i negative", lambda tab=tab: FlowProperties(tab, -1.0))
        rec(f"A {name} p_i nan", lambda tab=tab: describe_flow(FlowProperties(tab, float("nan")), pmax))
        rec(
            f"A {name} p_i array",
            lambda tab=tab: describe_flow(FlowProperties(tab, np.array([1000.0, 2000.0])), pmax),
        )
        rec(f"A {name} p_i str", lambda tab=tab: FlowProperties(tab, "abc"))
    # dict of ndarrays
    dgas = {k: pvt_gas[k].to_numpy() for k in pvt_gas.columns}
    rec("A dict gas", lambda: describe_flow(FlowProperties(dgas, 4000.0), 12000.0))
    rec("A dict not mutated", lambda: sorted(dgas))
    # short table with user alpha
    short = pvt_gas.iloc[1:][["pressure", "pseudopressure"]].copy()
    short["alpha"] = np.linspace(1.0, 3.0, len(short))
    rec("A short alpha", lambda: describe_flow(FlowProperties(short, 4000.0), 12000.0))
    rec("A short alpha p_i at first row", lambda: describe_flow(FlowProperties(short, 10.0), 12000.0))
    rec("A short alpha p_i at last row", lambda: describe_flow(FlowProperties(short, 12000.0), 12000.0))
    short0 = pvt_gas[["pressure", "pseudopressure"]].copy()
    short0["alpha"] = 2.0
    rec("A short alpha zero pseudopressure row", lambda: describe_flow(FlowProperties(short0, 4000.0), 12000.0))
    both = pvt_gas.iloc[1:].copy()
    both["alpha"] = np.linspace(3.0, 1.0, len(both))
    rec("A long + alpha", lambda: describe_flow(FlowProperties(both, 4000.0), 12000.0))
    # missing columns
    for drop in ["pressure", "pseudopressure", "viscosity", "z-factor", "compressibility"]:
        rec(f"A missing {drop}", lambda drop=drop: FlowProperties(pvt_gas.drop(columns=[drop]), 4000.0))
    rec("A empty dict", lambda: FlowProperties({}, 4000.0))
    rec("A None", lambda: FlowProperties(None, 4000.0))
    rec("A no p_i", lambda: FlowProperties(pvt_gas))
    rec("A extra arg", lambda: FlowProperties(pvt_gas, 4000.0, 1.0))
    # small tables
    for n in (1, 2, 3):
        rec(f"A first {n} rows", lambda n=n: describe_flow(FlowProperties(pvt_gas.iloc[1 : 1 + n], 10.0), 30.0))
    rec("A unsorted", lambda: describe_flow(FlowProperties(pvt_gas.iloc[::-1], 4000.0), 12000.0))

    class Sub(FlowProperties):
        pass

    rec("A subclass", lambda: describe_flow(Sub(pvt_gas, 4000.0), 12000.0))


# ------------------------------------------------------------------ B
def section_B():
    OUT.append("# ===== B FlowPropertiesSimple")
    for name, tab in [("gas", pvt_gas), ("oil", pvt_oil), ("hay", pvt_hay)]:
        pmax = float(tab["pressure"].max())
        pmin = float(tab["pressure"].min())
        for p_i in [5000.0, 8000, pmax, pmin, 77.7]:
            rec(
                f"B {name} p_i={p_i!r}",
                lambda tab=tab, p_i=p_i: describe_flow(FlowPropertiesSimple(tab, p_i), pmax),
            )
        rec(f"B {name} kw", lambda tab=tab: describe_flow(FlowPropertiesSimple(pvt_props=tab, p_i=3000.0), pmax))
        rec(f"B {name} too high", lambda tab=tab: FlowPropertiesSimple(tab, pmax + 1))
        rec(f"B {name} neg", lambda tab=tab: FlowPropertiesSimple(tab, -3))
    only3 = {k: pvt_gas[k].to_numpy() for k in ("pressure", "compressibility", "viscosity")}
    rec("B dict 3 cols", lambda: describe_flow(FlowPropertiesSimple(only3, 2500.0), 12000.0))
    rec("B dict not mutated", lambda: sorted(only3))
    for drop in ("pressure", "compressibility", "viscosity"):
        rec(f"B missing {drop}", lambda drop=drop: FlowPropertiesSimple(pvt_gas.drop(columns=[drop]), 4000.0))
    rec("B isinstance", lambda: isinstance(FlowPropertiesSimple(pvt_gas, 100.0), FlowProperties))
    rec("B extra arg", lambda: FlowPropertiesSimple(pvt_gas, 4000.0, 1.0))
    for n in (1, 2):
        rec(f"B first {n} rows", lambda n=n: describe_flow(FlowPropertiesSimple(pvt_gas.iloc[:n], 0.0), 10.0))


# ------------------------------------------------------------------ helpers multiphase
PVT_COLS = ["pseudopressure", "pressure", "Bo", "Bg", "Bw", "Rs", "Rv", "mu_o", "mu_g", "mu_w", "So"]
REF = {"rho_o0": 141.5 / (45 + 131.5), "rho_g0": 1.03e-3, "rho_w0": 1}
PARAMS = RelPermParams(n_o=1, n_g=1, n_w=1, S_or=0, S_gc=0, S_wc=0.1, k_ro_max=1, k_rw_max=1, k_rg_max=1)
PARAMS2 = RelPermParams(
    n_o=2.5, n_g=1.7, n_w=3, S_or=0.15, S_gc=0.05, S_wc=0.2, k_ro_max=0.9, k_rw_max=0.4, k_rg_max=0.8
)


def make_pvt_kr(df, df_kr):
    pvt = {p: interp1d(df["pressure"], df[p], fill_value="extrapolate") for p in PVT_COLS}
    pvt.update(REF)
    kr = {f: interp1d(df_kr["So"], df_kr[f]) for f in ("kro", "krg", "krw")}
    return pvt, kr


def describe_two(obj):
    out = describe_flow(obj, 9000.0)
    pr = [0.0, 15.0, 999.0, 4321.0, 9000.0, 9500.0, -20.0]
    for k in sorted(obj.pvt):
        v = obj.pvt[k]
        out["pvtf:" + k] = np.asarray(v(pr)) if callable(v) else v
    for k in sorted(obj.kr):
        out["krf:" + k] = np.asarray(obj.kr[k]([0.0, 0.2, 0.4, 0.77, 0.8]))
        try:
            out["krf9:" + k] = np.asarray(obj.kr[k](0.9))
        except Exception as e:  # noqa: BLE001
            out["krf9:" + k] = e
    return out


# ------------------------------------------------------------------ C
def section_C():
    OUT.append("# ===== C FlowPropertiesTwoPhase.from_table")
    df0 = make_df_pvt()
    kr1 = relative_permeabilities_twophase(PARAMS)
    kr2 = relative_permeabilities_twophase(PARAMS2, 0.2)
    for name, df, p_frac in [("merged", df0, 1000.0), ("mpcsv", pvt_mp, None)]:
        for kname, dk, Sw in [("kr1", kr1, 0.1), ("kr2", kr2, 0.2)]:
            for p_i in [8000.0, 6000, 9000.0, 20.0]:
                for phi in (0.1, 0.35):

                    def run(df=df, dk=dk, Sw=Sw, p_i=p_i, phi=phi, p_frac=p_frac):
                        if p_frac is not None:
                            df = make_df_pvt(Sw)
                        d = rescale_pseudopressure(df, p_frac, p_i) if p_frac is not None else df
                        cols = list(d.columns)
                        o = FlowPropertiesTwoPhase.from_table(d, dk, REF, phi, Sw, p_i)
                        assert list(d.columns) == cols
                        return describe_two(o)

                    rec(f"C {name} {kname} p_i={p_i!r} phi={phi}", run)
    rec(
        "C kw",
        lambda: describe_two(
            FlowPropertiesTwoPhase.from_table(
                pvt_props=pvt_mp, kr_props=kr1, reference_densities=REF, phi=0.2, Sw=0.1, p_i=5000.0
            )
        ),
    )
    rec("C p_i at 0", lambda: describe_two(FlowPropertiesTwoPhase.from_table(pvt_mp, kr1, REF, 0.2, 0.1, 0.0)))
    rec("C p_i too high", lambda: FlowPropertiesTwoPhase.from_table(pvt_mp, kr1, REF, 0.2, 0.1, 1e5))
    rec("C p_i negative", lambda: FlowPropertiesTwoPhase.from_table(pvt_mp, kr1, REF, 0.2, 0.1, -1.0))
    for drop in ("So", "Rv", "mu_w", "pressure", "pseudopressure"):
        rec(
            f"C pvt missing {drop}",
            lambda drop=drop: FlowPropertiesTwoPhase.from_table(pvt_mp.drop(columns=[drop]), kr1, REF, 0.2, 0.1, 5000.0),
        )
    for drop in ("So", "Sg", "krw"):
        rec(
            f"C kr missing {drop}",
            lambda drop=drop: FlowPropertiesTwoPhase.from_table(pvt_mp, kr1.drop(columns=[drop]), REF, 0.2, 0.1, 5000.0),
        )
    rec("C both missing", lambda: FlowPropertiesTwoPhase.from_table({}, {}, REF, 0.2, 0.1, 5000.0))
    rec("C ref missing", lambda: FlowPropertiesTwoPhase.from_table(pvt_mp, kr1, {"rho_o0": 1.0}, 0.2, 0.1, 5000.0))
    rec("C ref None", lambda: FlowPropertiesTwoPhase.from_table(pvt_mp, kr1, None, 0.2, 0.1, 5000.0))
    rec("C too few args", lambda: FlowPropertiesTwoPhase.from_table(pvt_mp, kr1, REF, 0.2, 0.1))
    rec("C So beyond kr", lambda: FlowPropertiesTwoPhase.from_table(pvt_mp, kr2, REF, 0.2, 0.05, 5000.0))
    dd = {k: pvt_mp[k].to_numpy() for k in PVT_COLS}
    dk = {k: kr1[k].to_numpy() for k in kr1.columns}
    rec("C dicts", lambda: describe_two(FlowPropertiesTwoPhase.from_table(dd, dk, REF, 0.2, 0.1, 5000.0)))
    for n in (2, 3):
        rec(
            f"C first {n} rows",
            lambda n=n: describe_two(FlowPropertiesTwoPhase.from_table(pvt_mp.iloc[:n], kr1, REF, 0.2, 0.1, 5.0)),
        )
    rec("C 1 row", lambda: FlowPropertiesTwoPhase.from_table(pvt_mp.iloc[:1], kr1, REF, 0.2, 0.1, 0.0))

    class Sub2(FlowPropertiesTwoPhase):
        pass

    rec("C subclass", lambda: describe_two(Sub2.from_table(pvt_mp, kr1, REF, 0.2, 0.1, 5000.0)))
    rec("C direct ctor", lambda: describe_flow(FlowPropertiesTwoPhase(pvt_gas, 3000.0), 12000.0))
    # warnings filters restored
    nfilters = len(warnings.filters)
    FlowPropertiesTwoPhase.from_table(pvt_mp, kr1, REF, 0.2, 0.1, 5000.0)
    rec("C filters restored", lambda: len(warnings.filters) == nfilters)


# ------------------------------------------------------------------ D
def section_D():
    OUT.append("# ===== D rescale_pseudopressure")
    df0 = make_df_pvt()
    for name, df in [("merged", df0), ("gas", pvt_gas), ("mpcsv", pvt_mp), ("hay", pvt_hay)]:
        pmax = float(df["pressure"].max())
        for p_frac, p_i in [(1000.0, 8000.0), (1000, 6000), (0.5, pmax), (500.0, 500.0), (3000.0, 1000.0), (12.3, 7777.7)]:
            before = df["pseudopressure"].to_numpy().copy()

            def run(df=df, p_frac=p_frac, p_i=p_i):
                r = rescale_pseudopressure(df, p_frac, p_i)
                return {"same_obj": r is df, "type": type(r).__name__, "df": r}

            rec(f"D {name} p_frac={p_frac!r} p_i={p_i!r}", run)
            assert np.array_equal(before, df["pseudopressure"].to_numpy(), equal_nan=True)
        rec(f"D {name} kw", lambda df=df: rescale_pseudopressure(df_pvt=df, p_frac=100.0, p_i=2000.0))
        rec(f"D {name} p_i high", lambda df=df: rescale_pseudopressure(df, 100.0, pmax + 5))
        rec(f"D {name} p_frac neg", lambda df=df: rescale_pseudopressure(df, -100.0, 2000.0))
        rec(f"D {name} array p", lambda df=df: rescale_pseudopressure(df, np.array([100.0]), np.array([2000.0])))
    rec("D dict", lambda: rescale_pseudopressure({"pressure": np.arange(3.0), "pseudopressure": np.arange(3.0)}, 0.0, 2.0))
    NT = namedtuple("NT", "pressure pseudopressure")
    rec("D namedtuple", lambda: rescale_pseudopressure(NT(np.arange(3.0), np.arange(3.0) ** 2), 0.0, 2.0))
    ra = np.rec.fromarrays([np.arange(4.0), np.arange(4.0) ** 2], names="pressure,pseudopressure")
    rec("D recarray", lambda: rescale_pseudopressure(ra, 1.0, 3.0))
    rec("D recarray untouched", lambda: np.asarray(ra.pseudopressure))
    rec("D missing col", lambda: rescale_pseudopressure(pvt_gas.drop(columns=["pseudopressure"]), 100.0, 2000.0))
    rec("D None", lambda: rescale_pseudopressure(None, 100.0, 2000.0))
    rec("D 1 row", lambda: rescale_pseudopressure(pvt_gas.iloc[:1], 0.0, 0.0))
    rec("D 2 rows", lambda: rescale_pseudopressure(pvt_gas.iloc[:2], 0.0, 10.0))


# ------------------------------------------------------------------ E
def section_E():
    OUT.append("# ===== E multiphase free functions")
    df0 = make_df_pvt()
    kr1 = relative_permeabilities_twophase(PARAMS)
    kr2 = relative_permeabilities_twophase(PARAMS2, 0.2)
    cases = {}
    P = df0["pressure"].to_numpy()
    S = df0["So"].to_numpy()
    cases["full ndarray"] = (P, S)
    cases["full series"] = (df0["pressure"], df0["So"])
    cases["series p, ndarray So"] = (df0["pressure"], S)
    cases["interior"] = (P[3:-3], S[3:-3])
    cases["len1"] = (P[5:6], S[5:6])
    cases["len2"] = (P[5:7], S[5:7])
    cases["len3 unsorted"] = (np.array([3000.0, 100.0, 2000.0]), np.array([0.5, 0.1, 0.3]))
    cases["repeated p"] = (np.array([100.0, 100.0, 200.0]), np.array([0.5, 0.1, 0.3]))
    cases["scalar"] = (2500.0, 0.45)
    cases["0-d"] = (np.array(2500.0), np.array(0.45))
    cases["int arrays"] = (np.array([100, 200, 4000]), np.array([0.2, 0.3, 0.4]))
    cases["lists"] = ([100.0, 200.0, 4000.0], [0.2, 0.3, 0.4])
    cases["float32"] = (np.array([100, 200, 4000], dtype=np.float32), np.array([0.2, 0.3, 0.4], dtype=np.float32))
    cases["2d"] = (np.array([[100.0, 200.0, 300.0], [1000.0, 2000.0, 3000.0]]), np.array([[0.2, 0.3, 0.4], [0.5, 0.6, 0.7]]))
    cases["2d p 1d So"] = (np.array([[100.0, 200.0, 300.0], [1000.0, 2000.0, 3000.0]]), np.array([0.2, 0.3, 0.4]))
    cases["1d p 2d So"] = (np.array([100.0, 200.0, 300.0]), np.array([[0.2, 0.3, 0.4], [0.5, 0.6, 0.7]]))
    cases["mismatch"] = (np.array([100.0, 200.0, 300.0]), np.array([0.2, 0.3]))
    cases["bcast p scalar"] = (1500.0, np.array([0.2, 0.3, 0.6]))
    cases["bcast So scalar"] = (np.array([100.0, 200.0, 300.0]), 0.33)
    cases["empty"] = (np.array([]), np.array([]))
    cases["So out of range"] = (np.array([100.0, 200.0]), np.array([0.2, 0.95]))
    cases["So negative"] = (np.array([100.0, 200.0]), np.array([-0.2, 0.5]))
    cases["p extrapolated"] = (np.array([-50.0, 9500.0, 20000.0]), np.array([0.2, 0.5, 0.8]))
    cases["nan"] = (np.array([100.0, np.nan, 300.0]), np.array([0.2, 0.3, np.nan]))
    cases["p str"] = ("abc", 0.3)
    for kname, dk, Sw in [("kr1", kr1, 0.1), ("kr2", kr2, 0.2)]:
        dfk = make_df_pvt(Sw)
        pvt, kr = make_pvt_kr(dfk, dk)
        cases["full ndarray"] = (P, dfk["So"].to_numpy())
        cases["full series"] = (dfk["pressure"], dfk["So"])
        cases["series p, ndarray So"] = (dfk["pressure"], dfk["So"].to_numpy())
        cases["interior"] = (P[3:-3], dfk["So"].to_numpy()[3:-3])
        S = dfk["So"].to_numpy()
        for cname, (p, s) in cases.items():
            for phi in (0.1,) if kname == "kr2" else (0.1, 0.3):
                rec(f"E alpha {kname} {cname} phi={phi}", lambda p=p, s=s, phi=phi: alpha_multiphase(p, s, phi, Sw, pvt, kr), full=True)
                rec(f"E cp {kname} {cname} phi={phi}", lambda p=p, s=s, phi=phi: compressibility_combined_func(p, s, phi, Sw, pvt), full=True)
            rec(f"E lambda {kname} {cname}", lambda p=p, s=s: lambda_combined_func(p, s, pvt, kr), full=True)
            rec(f"E psi3 {kname} {cname}", lambda p=p, s=s: pseudopressure_threephase(p, s, pvt, kr), full=True)
            rec(f"E psi3 {kname} {cname} type", lambda p=p, s=s: type(pseudopressure_threephase(p, s, pvt, kr)).__name__)
        rec(f"E alpha {kname} Sw array", lambda: alpha_multiphase(P[3:8], S[3:8], 0.1, np.full(5, Sw), pvt, kr), full=True)
        rec(f"E kw {kname}", lambda: alpha_multiphase(pressure=P[3:8], So=S[3:8], phi=0.1, Sw=Sw, pvt=pvt, kr=kr), full=True)
        rec(f"E kw lambda {kname}", lambda: lambda_combined_func(pressure=P[3:8], So=S[3:8], pvt=pvt, kr=kr), full=True)
        rec(f"E kw psi3 {kname}", lambda: pseudopressure_threephase(pressure=P[3:8], So=S[3:8], pvt=pvt, kr=kr), full=True)
        rec(f"E kw cp {kname}", lambda: compressibility_combined_func(pressure=P[3:8], So=S[3:8], phi=0.2, Sw=Sw, pvt=pvt), full=True)
        for missing in ("rho_o0", "rho_g0", "rho_w0", "Rv", "mu_g", "Bw", "Bo"):
            pv2 = {k: v for k, v in pvt.items() if k != missing}
            rec(f"E lambda {kname} pvt missing {missing}", lambda pv2=pv2: lambda_combined_func(P[:4], S[:4], pv2, kr))
            rec(f"E psi3 {kname} pvt missing {missing}", lambda pv2=pv2: pseudopressure_threephase(P[:4], S[:4], pv2, kr))
            rec(f"E alpha {kname} pvt missing {missing}", lambda pv2=pv2: alpha_multiphase(P[:4], S[:4], 0.1, Sw, pv2, kr))
        for missing in ("kro", "krg", "krw"):
            k2 = {k: v for k, v in kr.items() if k != missing}
            rec(f"E lambda {kname} kr missing {missing}", lambda k2=k2: lambda_combined_func(P[:4], S[:4], pvt, k2))
            rec(f"E psi3 {kname} kr missing {missing}", lambda k2=k2: pseudopressure_threephase(P[:4], S[:4], pvt, k2))
        # call counting: interpolators must still be plain callables
        rec(f"E lambda {kname} pvt None", lambda: lambda_combined_func(P[:4], S[:4], None, kr))
    # plain python callables / constant-valued pvt (e.g. zero krw -> exact zeros)
    pvt_c = {k: (lambda p, k=k: np.asarray(p, dtype=float) * 0 + {"Rv": 0.0, "Rs": 100.0}.get(k, 1.5)) for k in PVT_COLS}
    pvt_c.update(REF)
    kr_c = {"kro": lambda s: np.asarray(s) ** 2, "krg": lambda s: (1 - np.asarray(s)) ** 2, "krw": lambda s: np.asarray(s) * 0}
    pp = np.linspace(100.0, 5000.0, 7)
    ss = np.linspace(0.1, 0.8, 7)
    rec("E const lambda", lambda: lambda_combined_func(pp, ss, pvt_c, kr_c), full=True)
    rec("E const psi3", lambda: pseudopressure_threephase(pp, ss, pvt_c, kr_c), full=True)
    rec("E const alpha", lambda: alpha_multiphase(pp, ss, 0.1, 0.1, pvt_c, kr_c), full=True)
    pvt_32 = {k: (lambda p, k=k: (np.asarray(p) * 0 + {"Rv": 0.25, "Rs": 100.0}.get(k, 1.5)).astype(np.float32)) for k in PVT_COLS}
    pvt_32.update({k: np.float32(v) for k, v in REF.items()})
    kr_32 = {k: (lambda s, f=f: f(s).astype(np.float32)) for k, f in kr_c.items()}
    p32 = pp.astype(np.float32)
    rec("E f32 lambda", lambda: lambda_combined_func(p32, ss, pvt_32, kr_32), full=True)
    rec("E f32 psi3", lambda: pseudopressure_threephase(p32, ss, pvt_32, kr_32), full=True)
    rec("E int psi3", lambda: pseudopressure_threephase(np.arange(1, 8) * 100, ss, pvt_c, kr_c), full=True)
    rec("E const psi3 series", lambda: pseudopressure_threephase(pd.Series(pp, index=list("abcdefg")), pd.Series(ss), pvt_c, kr_c), full=True)
    rec("E const psi3 decreasing p", lambda: pseudopressure_threephase(pp[::-1], ss, pvt_c, kr_c), full=True)


# ------------------------------------------------------------------ F
def section_F():
    OUT.append("# ===== F FlowPropertiesMultiPhase")
    df = pd.DataFrame(
        {
            "pseudopressure": np.linspace(0, 1, 6),
            "alpha": np.linspace(1, 2, 6),
            "So": np.linspace(0.1, 0.6, 6),
            "Sg": np.linspace(0.8, 0.3, 6),
            "Sw": np.full(6, 0.1),
        }
    )
    rec("F dataframe", lambda: FlowPropertiesMultiPhase(df))
    rec("F missing", lambda: FlowPropertiesMultiPhase(df.drop(columns=["Sg"])))
    rec("F dict", lambda: FlowPropertiesMultiPhase({k: df[k].to_numpy() for k in df.columns}))
    rec("F none", lambda: FlowPropertiesMultiPhase(None))

    class Tab:
        def __init__(self, d):
            self.d = d
            self.columns = list(d.columns)

        def __getitem__(self, k):
            if isinstance(k, tuple):
                return self.d[list(k)].to_numpy()
            return self.d[k].to_numpy()

    rng = np.random.default_rng(0)
    big = pd.DataFrame(
        {
            "pseudopressure": rng.random(40),
            "alpha": rng.random(40) + 1,
            "So": rng.random(40),
            "Sg": rng.random(40),
            "Sw": rng.random(40),
        }
    )

    def run():
        t = Tab(big)
        o = FlowPropertiesMultiPhase(t)
        pts = big[["pseudopressure", "So", "Sg", "Sw"]].to_numpy()[:5]
        return {"df_is": o.df is t, "alpha": np.asarray(o.alpha(pts)), "attrs": sorted(vars(o))}

    rec("F tab", run)


# ------------------------------------------------------------------ G
def sat_frame(n=50, Sw=0.1):
    return pd.DataFrame({"So": np.linspace(0, 1 - Sw, n), "Sw": np.full(n, Sw), "Sg": np.linspace(1 - Sw, 0, n)})


def section_G():
    OUT.append("# ===== G relative_permeabilities")
    good = sat_frame().to_records(index=False)
    for pname, prm in [("P1", PARAMS), ("P2", PARAMS2)]:
        for n, Sw in [(50, 0.1), (1, 0.1), (2, 0.3), (7, 0.0), (5, 1.0)]:
            sat = sat_frame(n, Sw).to_records(index=False)
            rec(f"G {pname} n={n} Sw={Sw}", lambda sat=sat, prm=prm: relative_permeabilities(sat, prm), full=True)
        rec(f"G {pname} kw", lambda prm=prm: relative_permeabilities(saturations=good, params=prm), full=True)
        rec(f"G {pname} dataframe", lambda prm=prm: relative_permeabilities(sat_frame(), prm))
        rec(f"G {pname} empty", lambda prm=prm: relative_permeabilities(sat_frame(0).to_records(index=False), prm))
        col_order = sat_frame()[["Sg", "So", "Sw"]].to_records(index=False)
        rec(f"G {pname} column order", lambda prm=prm: relative_permeabilities(col_order, prm), full=True)
        st = np.array([(0.3, 0.3, 0.4), (0.5, 0.2, 0.3)], dtype=[("So", float), ("Sw", float), ("Sg", float)])
        rec(f"G {pname} structured", lambda prm=prm: relative_permeabilities(st, prm), full=True)
        near = np.array([(0.3, 0.3, 0.4009), (0.5, 0.2, 0.2991)], dtype=[("So", float), ("Sw", float), ("Sg", float)])
        rec(f"G {pname} within tol", lambda prm=prm: relative_permeabilities(near, prm), full=True)
        far = np.array([(0.3, 0.3, 0.4011), (0.5, 0.2, 0.3)], dtype=[("So", float), ("Sw", float), ("Sg", float)])
        rec(f"G {pname} beyond tol", lambda prm=prm: relative_permeabilities(far, prm))
        neg = np.array([(-0.2, 0.3, 0.9), (1.2, -0.1, -0.1)], dtype=[("So", float), ("Sw", float), ("Sg", float)])
        rec(f"G {pname} negative sats", lambda prm=prm: relative_permeabilities(neg, prm), full=True)
        nn = np.array([(np.nan, 0.3, 0.7)], dtype=[("So", float), ("Sw", float), ("Sg", float)])
        rec(f"G {pname} nan sats", lambda prm=prm: relative_permeabilities(nn, prm), full=True)
        plain = np.array([[0.3, 0.3, 0.4], [0.5, 0.2, 0.3]])
        rec(f"G {pname} plain 2d", lambda prm=prm: relative_permeabilities(plain, prm))
        rec(f"G {pname} dict", lambda prm=prm: relative_permeabilities({"So": [0.5], "Sw": [0.2], "Sg": [0.3]}, prm))
    bad = sat_frame()
    bad["So"] = bad["So"] + 0.1
    rec("G sum != 1", lambda: relative_permeabilities(bad.to_records(index=False), PARAMS))
    base = PARAMS2._asdict()
    variants = {
        "n_o=7": {"n_o": 7},
        "n_g=6.0001": {"n_g": 6.0001},
        "n_w=6": {"n_w": 6},
        "n_o=1": {"n_o": 1},
        "n_o=0.5": {"n_o": 0.5},
        "n_w=0": {"n_w": 0},
        "n_g=-1": {"n_g": -1},
        "S_or=-0.1": {"S_or": -0.1},
        "S_wc=-1e-9": {"S_wc": -1e-9},
        "S_gc=2": {"S_gc": 2},
        "S_or=1": {"S_or": 1},
        "S_or=1.1": {"S_or": 1.1},
        "k_ro_max=2": {"k_ro_max": 2},
        "k_rg_max=1": {"k_rg_max": 1},
        "k_rw_max=-1": {"k_rw_max": -1},
        "k_rw_max=0": {"k_rw_max": 0},
        "multi n_o=7,S_or=-1": {"n_o": 7, "S_or": -1},
        "multi n_o=0,n_g=8": {"n_o": 0, "n_g": 8},
        "multi S_or=-1,S_gc=3": {"S_or": -1, "S_gc": 3},
        "multi k=-1,k=3": {"k_ro_max": -1, "k_rg_max": 3},
        "multi S_or=2,k_ro=2": {"S_or": 2, "k_ro_max": 2},
        "denominator zero": {"S_or": 0.5, "S_wc": 0.3, "S_gc": 0.2},
        "denominator negative": {"S_or": 0.6, "S_wc": 0.3, "S_gc": 0.3},
        "nan n_o": {"n_o": float("nan")},
        "nan S_or": {"S_or": float("nan")},
        "nan k": {"k_rg_max": float("nan")},
        "None n_o": {"n_o": None},
        "str S_or": {"S_or": "a"},
        "array n_o": {"n_o": np.array([1.0, 2.0])},
        "np scalars": {"n_o": np.float64(2.0), "S_or": np.float32(0.25)},
    }
    for vname, upd in variants.items():
        prm = RelPermParams(**{**base, **upd})
        rec(f"G bad {vname}", lambda prm=prm: relative_permeabilities(good, prm), full=True)
        rec(f"G bad+sum {vname}", lambda prm=prm: relative_permeabilities(bad.to_records(index=False), prm))
    rec("G params tuple", lambda: relative_permeabilities(good, tuple(PARAMS)))
    rec("G params None", lambda: relative_permeabilities(good, None))
    rec("G params dict", lambda: relative_permeabilities(good, PARAMS._asdict()))
    rec("G no params", lambda: relative_permeabilities(good))
    PP = namedtuple("PP", RelPermParams._fields + ("extra",))
    rec("G duck params", lambda: relative_permeabilities(good, PP(*PARAMS2, extra=1)), full=True)
    rec("G fields", lambda: RelPermParams._fields)


# ------------------------------------------------------------------ H
def section_H():
    OUT.append("# ===== H relative_permeabilities_twophase")
    rec("H default", lambda: relative_permeabilities_twophase(PARAMS), full=True)
    rec("H pos Sw", lambda: relative_permeabilities_twophase(PARAMS, 0.1), full=True)
    rec("H kw Sw", lambda: relative_permeabilities_twophase(PARAMS, Sw=0.05), full=True)
    rec("H kw both", lambda: relative_permeabilities_twophase(params=PARAMS2, Sw=0.2), full=True)
    rec("H P2 default", lambda: relative_permeabilities_twophase(PARAMS2), full=True)
    for Sw in (0.0, 0, 0.1, 0.2, 0.2000001, 0.8, 1.0, -0.1, float("nan"), np.float64(0.15)):
        rec(f"H P2 Sw={Sw!r}", lambda Sw=Sw: relative_permeabilities_twophase(PARAMS2, Sw), full=True)
    rec("H Sw array", lambda: relative_permeabilities_twophase(PARAMS2, np.array([0.1, 0.2])))
    rec("H Sw str", lambda: relative_permeabilities_twophase(PARAMS2, "0.1"))
    rec("H Sw None", lambda: relative_permeabilities_twophase(PARAMS2, None))
    rec("H params None", lambda: relative_permeabilities_twophase(None))
    rec("H none", lambda: relative_permeabilities_twophase())
    rec("H 3 positional", lambda: relative_permeabilities_twophase(PARAMS, 0.1, 50))
    base = PARAMS2._asdict()
    for upd in ({"n_o": 9}, {"S_or": -1}, {"k_rg_max": 4}, {"n_w": 0.2}, {"S_or": 0.5, "S_wc": 0.3, "S_gc": 0.2}):
        prm = RelPermParams(**{**base, **upd})
        rec(f"H bad params {upd}", lambda prm=prm: relative_permeabilities_twophase(prm, 0.1), full=True)
    r = relative_permeabilities_twophase(PARAMS)
    rec("H dtypes", lambda: [str(t) for t in r.dtypes])
    rec("H index", lambda: (type(r.index).__name__, len(r.index)))


def main():
    for s in SECTIONS:
        globals()["section_" + s]()
    with open(sys.argv[1], "w") as f:
        f.write("\n".join(OUT) + "\n")


if __name__ == "__main__":
    main()
