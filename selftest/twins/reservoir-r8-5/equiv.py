"""Equivalence driver for bluebonnet.flow.reservoir (writes every result to <outfile>)."""

from __future__ import annotations

import os
import sys
import warnings

import numpy as np
import pandas as pd

warnings.simplefilter("ignore")

from bluebonnet.flow import (  # noqa: E402
    FlowProperties,
    IdealReservoir,
    MultiPhaseReservoir,
    SinglePhaseReservoir,
    TwoPhaseReservoir,
)
from bluebonnet.flow import reservoir as resmod  # noqa: E402

DATA = os.environ.get("BB_DATA", "/tmp/twin8_reservoir/tests/data")
OUT = []


def fmt(v):
    if isinstance(v, BaseException):
        return f"EXC {type(v).__name__}"
    if isinstance(v, np.ndarray):
        return f"ndarray {v.dtype} {v.shape} {v.tolist()!r}"
    if isinstance(v, (np.floating, np.integer)):
        return f"{type(v).__name__} {v.item()!r}"
    if isinstance(v, (float, int, bool, str, type(None))):
        return f"{type(v).__name__} {v!r}"
    if isinstance(v, (tuple, list)):
        return f"{type(v).__name__}[" + ", ".join(fmt(x) for x in v) + "]"
    return f"{type(v).__name__}"


def rec(label, thunk):
    try:
        v = thunk()
    except BaseException as e:  # noqa: BLE001
        v = e
    OUT.append(f"{label}: {fmt(v)}")
    return v


def state(label, r):
    for name in ("time", "pseudopressure", "recovery"):
        if name in r.__dict__:
            OUT.append(f"{label}.state.{name}: {fmt(r.__dict__[name])}")
        else:
            OUT.append(f"{label}.state.{name}: <absent>")
    OUT.append(f"{label}.state.keys: {sorted(r.__dict__)}")


gas_cols = {
    "P": "pressure",
    "Z-Factor": "z-factor",
    "Cg": "compressibility",
    "Viscosity": "viscosity",
    "Density": "density",
}
oil_cols = {
    "P": "pressure",
    "Z-Factor": "z-factor",
    "Co": "compressibility",
    "Oil_Viscosity": "viscosity",
    "Oil_Density": "density",
}
pvt_gas = pd.read_csv(os.path.join(DATA, "pvt_gas.csv")).rename(columns=gas_cols)
pvt_oil = pd.read_csv(os.path.join(DATA, "pvt_oil.csv")).rename(columns=oil_cols)
fluids = {
    "gas8000": FlowProperties(pvt_gas, 8000),
    "gas12000": FlowProperties(pvt_gas, 12000.0),
    "oil6000": FlowProperties(pvt_oil, 6000),
}
fluid_pi = {"gas8000": 8000, "gas12000": 12000.0, "oil6000": 6000}

times = {
    "len1": np.array([0.0]),
    "len2": np.array([0.0, 0.01]),
    "lin": np.linspace(0, 2, 40),
    "sqrt": np.linspace(0, np.sqrt(6), 60) ** 2,
    "log": np.concatenate([[0.0], np.logspace(-6, 1, 50)]),
    "repeat": np.array([0.0, 0.1, 0.1, 0.3]),
    "int": np.arange(5),
    "col": np.linspace(0, 1, 6).reshape(-1, 1),
    "empty": np.array([]),
}


def exercise_common(label, r, t):
    """Everything one can do with a simulated (or not) reservoir."""
    rec(f"{label}.rf_before", lambda: r.recovery_factor())
    rec(f"{label}.interp_before", lambda: r.recovery_factor_interpolator())
    rec(f"{label}.simulate", lambda: r.simulate(t))
    state(f"{label}.after_sim", r)
    interp = rec(f"{label}.interp_nocache", lambda: r.recovery_factor_interpolator())
    if callable(interp):
        rec(
            f"{label}.interp_nocache.vals",
            lambda: interp(np.array([-1.0, 0.0, 1e-7, 0.003, 0.5, 1.0, 5.0, 100.0])),
        )
    state(f"{label}.after_interp", r)
    rec(f"{label}.rf", lambda: r.recovery_factor())
    rec(f"{label}.rf_time", lambda: r.recovery_factor(t))
    rec(f"{label}.rf_othertime", lambda: r.recovery_factor(np.asarray(t) * 2.0))
    rec(f"{label}.rf_density", lambda: r.recovery_factor(density=True))
    rec(f"{label}.rf_density_pos", lambda: r.recovery_factor(None, True))
    state(f"{label}.after_rf", r)
    interp = rec(f"{label}.interp", lambda: r.recovery_factor_interpolator())
    if callable(interp):
        rec(
            f"{label}.interp.vals",
            lambda: interp(np.array([-1.0, 0.0, 1e-7, 0.003, 0.5, 1.0, 5.0, 100.0])),
        )
        rec(f"{label}.interp.scalar", lambda: interp(0.25))
    rec(f"{label}.fvf", lambda: r.fvf_scale())
    rec(f"{label}.alpha", lambda: r.alpha_scaled(np.array([0.0, 0.3, 0.99, 1.0, 1.5])))
    # second simulation must drop the cached recovery
    rec(f"{label}.resimulate", lambda: r.simulate(times["len2"]))
    state(f"{label}.after_resim", r)
    rec(f"{label}.rf_resim", lambda: r.recovery_factor())


# ---------------------------------------------------------------- IdealReservoir
for nx in (2, 3, 5, 30):
    for tname, t in times.items():
        for pf, pi in ((1000, 9000), (100.0, 8000.0), (9000.0, 9000.0)):
            label = f"ideal[nx={nx},t={tname},pf={pf},pi={pi}]"
            exercise_common(label, IdealReservoir(nx, pf, pi, None), t)
label = "ideal[fluid]"
exercise_common(label, IdealReservoir(12, 500.0, 8000, fluids["gas8000"]), times["lin"])
label = "ideal[pf-array]"
exercise_common(
    label, IdealReservoir(8, np.linspace(1000, 500, 40), 9000.0), times["lin"]
)
for bad_name, bad in (
    ("list", [0.0, 0.1, 0.2]),
    ("scalar", 1.0),
    ("none", None),
    ("0d", np.array(1.0)),
    ("series", pd.Series([0.0, 0.1, 0.4])),
    ("nan", np.array([0.0, np.nan, 1.0])),
    ("decreasing", np.array([0.0, 0.5, 0.2])),
):
    for nx in (4, 1, 0, -1, 2.0, "a"):
        r = rec(f"ideal[bad t={bad_name},nx={nx}].new", lambda: IdealReservoir(nx, 100, 8000))
        if isinstance(r, IdealReservoir):
            rec(f"ideal[bad t={bad_name},nx={nx}].simulate", lambda: r.simulate(bad))
            state(f"ideal[bad t={bad_name},nx={nx}]", r)
            rec(f"ideal[bad t={bad_name},nx={nx}].rf", lambda: r.recovery_factor())
# failed simulate after a good one keeps / drops what it did before
r = IdealReservoir(6, 100, 8000)
r.simulate(times["lin"])
r.recovery_factor()
rec("ideal[fail-after-good].simulate", lambda: r.simulate([0.0, 1.0]))
state("ideal[fail-after-good]", r)
rec("ideal[kwargs]", lambda: IdealReservoir(nx=4, pressure_fracface=1, pressure_initial=2).simulate(time=times["len2"]))
rec("ideal[extra-kw]", lambda: IdealReservoir(4, 1, 2).simulate(times["len2"], pressure_fracface=None))
rec("ideal[extra-pos]", lambda: IdealReservoir(4, 1, 2).simulate(times["len2"], None))
rec("ideal[repr]", lambda: repr(IdealReservoir(4, 1, 2)))
rec("ideal[eq]", lambda: IdealReservoir(4, 1, 2) == IdealReservoir(4, 1, 2))

# ---------------------------------------------------------- SinglePhaseReservoir
for cls in (SinglePhaseReservoir, TwoPhaseReservoir):
    for fname, fluid in fluids.items():
        pi = fluid_pi[fname]
        for nx in (2, 3, 20):
            for tname in ("len1", "len2", "sqrt", "log", "repeat", "col", "empty", "int"):
                t = times[tname]
                for pf in (100, 1000.0, pi, pi + 500.0, -5.0, 1e9):
                    label = f"{cls.__name__}[{fname},nx={nx},t={tname},pf={pf}]"
                    exercise_common(label, cls(nx, pf, pi, fluid), t)
    fluid = fluids["gas12000"]
    t = times["sqrt"]
    n = len(t)
    for bad_name, bad in (
        ("list", [0.0, 0.1, 0.2]),
        ("scalar", 1.0),
        ("none", None),
        ("0d", np.array(1.0)),
        ("series", pd.Series([0.0, 0.1, 0.4])),
        ("nan", np.array([0.0, np.nan, 1.0])),
        ("decreasing", np.array([0.0, 0.5, 0.2])),
    ):
        for nx in (4, 1, 0, -1, 2.0, "a"):
            label = f"{cls.__name__}[bad t={bad_name},nx={nx}]"
            r = rec(f"{label}.new", lambda: cls(nx, 2000, 12000, fluid))
            if isinstance(r, cls):
                rec(f"{label}.simulate", lambda: r.simulate(bad))
                state(label, r)
                rec(f"{label}.rf", lambda: r.recovery_factor())
    rec(f"{cls.__name__}[no-fluid]", lambda: cls(5, 100, 8000).simulate(times["len2"]))
    rec(f"{cls.__name__}[repr]", lambda: repr(cls(4, 1, 2)))
    rec(f"{cls.__name__}[eq]", lambda: cls(4, 1, 2) == cls(4, 1, 2))
    rec(f"{cls.__name__}[Sw]", lambda: cls(4, 1, 2, None, 0.25).__dict__.get("Sw_init"))

# time-varying frac-face pressure: only SinglePhaseReservoir.simulate accepts it today
fluid = fluids["gas12000"]
t = times["sqrt"]
n = len(t)
pf_series = {
    "const": np.full(n, 2000.0),
    "ramp": np.linspace(12000.0, 1000.0, n),
    "steps": np.where(np.arange(n) < n // 2, 5000.0, 1500.0),
    "list": list(np.linspace(11000.0, 900.0, n)),
    "series": pd.Series(np.linspace(11000.0, 900.0, n)),
    "above": np.linspace(13000.0, 1000.0, n),
    "outside": np.linspace(12000.0, -10.0, n),
    "short": np.full(n - 1, 2000.0),
    "long": np.full(n + 1, 2000.0),
    "empty": np.array([]),
    "scalar": 2000.0,
    "2d": np.full((n, 1), 2000.0),
    "nan": np.where(np.arange(n) == 3, np.nan, 2000.0),
}
for pname, p in pf_series.items():
    for nx in (2, 7, 25):
        for how in ("pos", "kw"):
            label = f"single[varying {pname},nx={nx},{how}]"
            r = SinglePhaseReservoir(nx, 3000.0, 12000.0, fluid)
            if how == "pos":
                rec(f"{label}.simulate", lambda: r.simulate(t, p))
            else:
                rec(f"{label}.simulate", lambda: r.simulate(t, pressure_fracface=p))
            state(label, r)
            rec(f"{label}.rf", lambda: r.recovery_factor())
            rec(f"{label}.rf_density", lambda: r.recovery_factor(density=True))
            rec(f"{label}.pf_attr", lambda: r.pressure_fracface)
r = SinglePhaseReservoir(6, 3000.0, 12000.0, fluid)
r.simulate(t)
r.recovery_factor()
rec("single[fail-after-good].simulate", lambda: r.simulate(t, pf_series["short"]))
state("single[fail-after-good]", r)
rec("single[fail-after-good].simulate2", lambda: r.simulate(t, pf_series["outside"]))
state("single[fail-after-good]2", r)
rec("single[list-time,list-pf]", lambda: SinglePhaseReservoir(5, 3000.0, 12000.0, fluid).simulate([0.0, 0.1, 0.3], [3000.0, 2000.0, 1000.0]))
rec("single[len1,pf]", lambda: SinglePhaseReservoir(5, 3000.0, 12000.0, fluid).simulate(times["len1"], np.array([2500.0])))
rec("single[extra-pos]", lambda: SinglePhaseReservoir(5, 3000.0, 12000.0, fluid).simulate(t, None, None))
rec("single[extra-kw]", lambda: SinglePhaseReservoir(5, 3000.0, 12000.0, fluid).simulate(t, foo=None))
rec("two[extra-pos]", lambda: TwoPhaseReservoir(5, 3000.0, 12000.0, fluid).simulate(t, None))
rec("two[extra-kw]", lambda: TwoPhaseReservoir(5, 3000.0, 12000.0, fluid).simulate(t, foo=None))
# alpha_scaled failing with ValueError inside the loop -> re-raised message
class _BadAlpha(SinglePhaseReservoir):
    def alpha_scaled(self, pseudopressure):
        raise ValueError("boom")


def _msg():
    try:
        _BadAlpha(5, 3000.0, 12000.0, fluid).simulate(times["len2"])
    except ValueError as e:
        return str(e), type(e.__cause__).__name__
    return None


rec("single[bad-alpha]", _msg)
rec("single[bad-alpha,len1]", lambda: _BadAlpha(5, 3000.0, 12000.0, fluid).simulate(times["len1"]))

# ----------------------------------------------------------- MultiPhaseReservoir
m = rec("multi.new", lambda: MultiPhaseReservoir(10, 1000.0, 6000.0, fluids["oil6000"], 0.7, 0.1, 0.2))
rec("multi.simulate", lambda: m.simulate(times["lin"]))
state("multi", m)
rec("multi.rf", lambda: m.recovery_factor())
rec("multi.fvf", lambda: m.fvf_scale())
rec("multi.step", lambda: m._step_saturation(None, None, None) is NotImplementedError)
rec("multi.alpha", lambda: m.alpha_scaled(np.array([0.5]), {"So": 0.5, "Sg": 0.2, "Sw": 0.3}))
rec("multi.fields", lambda: (m.So_init, m.Sw_init, m.Sg_init))

# ------------------------------------------------------------------ _build_matrix
rng = np.random.default_rng(7)
for kname, k in (
    ("ones5", np.ones(5)),
    ("rand9", rng.random(9) * 50),
    ("len2", np.array([0.25, 4.0])),
    ("len1", np.array([3.0])),
    ("len0", np.array([])),
    ("zeros", np.zeros(4)),
    ("neg", -np.ones(4)),
    ("int", np.arange(1, 6)),
    ("list", [1.0, 2.0, 3.0]),
    ("scalar", 2.0),
    ("2d", np.ones((3, 3))),
    ("nan", np.array([1.0, np.nan, 2.0])),
):
    a = rec(f"build[{kname}]", lambda: resmod._build_matrix(k))
    if not isinstance(a, BaseException):
        rec(f"build[{kname}].format", lambda: a.format)
        rec(f"build[{kname}].shape", lambda: tuple(a.shape))
        rec(f"build[{kname}].dense", lambda: a.toarray())
        rec(f"build[{kname}].data", lambda: a.data)
        rec(f"build[{kname}].indices", lambda: a.indices)
        rec(f"build[{kname}].indptr", lambda: a.indptr)
    if isinstance(k, np.ndarray):
        rec(f"build[{kname}].input_untouched", lambda: k)
rec("module._ATOL", lambda: resmod._ATOL)

# ---------------- a subclass whose alpha_scaled scribbles on its argument in place
class _Scribble(SinglePhaseReservoir):
    def alpha_scaled(self, pseudopressure):
        out = super().alpha_scaled(pseudopressure)
        pseudopressure[1:] *= 0.5  # in-place change of the right-hand side
        return out


for nx in (2, 3, 9):
    for tname in ("len1", "len2", "sqrt", "log"):
        label = f"scribble[nx={nx},t={tname}]"
        r = _Scribble(nx, 2000.0, 12000.0, fluids["gas12000"])
        rec(f"{label}.simulate", lambda: r.simulate(times[tname]))
        state(label, r)
        rec(f"{label}.rf", lambda: r.recovery_factor())
        rec(f"{label}.simulate_pf", lambda: r.simulate(times[tname], np.linspace(12000.0, 900.0, len(times[tname]))))
        state(label + ".pf", r)

with open(sys.argv[1], "w") as f:
    f.write("\n".join(OUT) + "\n")
