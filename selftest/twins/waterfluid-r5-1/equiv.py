"""Equivalence probe for refactoring 1 (build_pvt_gas: specific gravity hoisted)."""
import sys
import warnings

import numpy as np
import pandas as pd

from bluebonnet.fluids import build_pvt_gas

warnings.simplefilter("ignore")
out = []


def record(label, fn):
    try:
        df = fn()
    except Exception as e:  # noqa: BLE001
        out.append(f"{label}: EXC {type(e).__name__}")
        return
    out.append(f"{label}: columns={list(df.columns)} shape={df.shape} dtypes={[str(d) for d in df.dtypes]}")
    for col in df.columns:
        out.append(f"{label}: {col} = {[repr(float(v)) for v in df[col].to_numpy()]}")


base = {
    "N2": 0.03,
    "H2S": 0.012,
    "CO2": 0.018,
    "Gas Specific Gravity": 0.65,
    "Reservoir Temperature (deg F)": 400,
}


class Counting(dict):
    """Mapping whose values are strings / numpy scalars etc."""


cases = {
    "base": base,
    "heavy": {**base, "Gas Specific Gravity": 0.8, "N2": 0.05, "H2S": 0.01, "CO2": 0.04},
    "sg_int": {**base, "Gas Specific Gravity": 1},
    "sg_npfloat": {**base, "Gas Specific Gravity": np.float64(0.7)},
    "sg_npfloat32": {**base, "Gas Specific Gravity": np.float32(0.7)},
    "sg_array1": {**base, "Gas Specific Gravity": np.array(0.7)},
    "sg_array2": {**base, "Gas Specific Gravity": np.array([0.7, 0.8])},
    "sg_complex": {**base, "Gas Specific Gravity": 0.65 + 0j},
    "sg_str": {**base, "Gas Specific Gravity": "0.65"},
    "sg_none": {**base, "Gas Specific Gravity": None},
    "sg_nan": {**base, "Gas Specific Gravity": float("nan")},
    "sg_neg": {**base, "Gas Specific Gravity": -0.5},
    "cold": {**base, "Reservoir Temperature (deg F)": 100.0},
    "temp_none": {**base, "Reservoir Temperature (deg F)": None},
    "series": pd.Series(base),
    "series_obj": pd.Series({**base, "extra": "text"}),
}
missing = dict(base)
del missing["Gas Specific Gravity"]
cases["missing_sg"] = missing
missing_t = dict(base)
del missing_t["Reservoir Temperature (deg F)"]
cases["missing_temp"] = missing_t
missing_n2 = dict(base)
del missing_n2["N2"]
cases["missing_n2"] = missing_n2

for name, gv in cases.items():
    for dryness in ("dry gas", "wet gas", "oil", None):
        for pmax in (-5, 5, 10, 10.0001, 25, 400, 14_000 if name in ("base", "series") else 1200):
            record(
                f"{name}|{dryness}|{pmax}",
                lambda gv=gv, dryness=dryness, pmax=pmax: build_pvt_gas(gv, dryness, pmax),
            )
record("default_pmax", lambda: build_pvt_gas(base, "wet gas"))
record("kw", lambda: build_pvt_gas(gas_values=base, gas_dryness="dry gas", maximum_pressure=333.0))
record("nan_pmax", lambda: build_pvt_gas(base, "dry gas", float("nan")))
record("huge_p", lambda: build_pvt_gas(base, "dry gas", 60_000))

with open(sys.argv[1], "w") as f:
    f.write("\n".join(out) + "\n")
