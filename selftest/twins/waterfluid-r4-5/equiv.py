"""Equivalence driver for bluebonnet.fluids.water and bluebonnet.fluids.fluid.

Usage: PYTHONPATH=<tree>/src /venv/bin/python equiv.py <outfile>
Writes full-precision reprs (or the exception type) of many calls to <outfile>.
"""

from __future__ import annotations

import dataclasses
import inspect
import sys
import warnings
from collections import OrderedDict
from collections.abc import Mapping
from types import MappingProxyType

import numpy as np
import pandas as pd

from bluebonnet.fluids import Fluid, build_pvt_gas, pseudopressure
from bluebonnet.fluids import fluid as fluid_mod
from bluebonnet.fluids import water

np.set_printoptions(precision=17, floatmode="unique", threshold=10**9, linewidth=10**6)
LINES: list[str] = []


def fmt(obj):
    if isinstance(obj, pd.DataFrame):
        parts = [f"DataFrame cols={list(obj.columns)} shape={obj.shape} index={type(obj.index).__name__}"]
        for col in obj.columns:
            parts.append(f"{col}:{obj[col].dtype}:{fmt(obj[col].to_numpy())}")
        return " | ".join(parts)
    if isinstance(obj, pd.Series):
        return f"Series name={obj.name!r} dtype={obj.dtype} {fmt(obj.to_numpy())}"
    if isinstance(obj, np.ndarray):
        return (
            f"ndarray shape={obj.shape} dtype={obj.dtype} "
            + "["
            + ", ".join(repr(v) for v in obj.ravel().tolist())
            + "]"
        )
    if isinstance(obj, (tuple, list)):
        return type(obj).__name__ + "(" + ", ".join(fmt(o) for o in obj) + ")"
    return f"{type(obj).__name__}:{obj!r}"


def record(label, func, *args, **kwargs):
    with warnings.catch_warnings(record=True) as caught:
        warnings.simplefilter("always")
        try:
            with np.errstate(all="warn"):
                out = fmt(func(*args, **kwargs))
        except BaseException as exc:  # noqa: BLE001
            out = f"RAISED {type(exc).__name__}"
    warn = sorted({w.category.__name__ for w in caught})
    LINES.append(f"{label} -> {out} warnings={warn}")


# ------------------------------------------------------------------ water.py
WATER_FUNCS2 = ("b_water_McCain", "b_water_McCain_dp")
WATER_FUNCS3 = ("compressibility_water_McCain", "density_water_McCain", "viscosity_water_McCain")

temperatures = [60, 60.0, 200.0, 400, 0.0, -10.0, np.float64(250.5), 1e6]
pressures = [
    14.7,
    3000,
    0,
    0.0,
    -50.0,
    1e5,
    np.float64(4321.125),
    np.array([14.7, 1000.0, 5000.0, 12000.0]),
    np.array([0, 100, 2000]),  # integer array
    np.array([[100.0, 200.0], [3000.0, 4000.0]]),
    np.array([]),
    np.array(2500.0),
    np.linspace(0.0, 15000.0, 23),
    np.array([np.nan, np.inf, 100.0]),
    np.float32(1500.0),
    [100.0, 200.0],  # list: arithmetic fails
    "3000",
    None,
    pd.Series([100.0, 2500.0, 9000.0]),
]
salinities = [0, 0.0, 15, 15.0, 26.5, -3.0, np.float64(7.25), np.array([0.0, 10.0, 20.0, 30.0])]

for name in WATER_FUNCS2:
    f = getattr(water, name)
    for it, t in enumerate(temperatures):
        for ip, p in enumerate(pressures):
            record(f"{name}[t{it},p{ip}]", f, t, p)
    record(f"{name}[kw]", f, temperature=300.0, pressure=np.array([1.0, 2.0]))
    record(f"{name}[kw-swapped]", f, pressure=2000.0, temperature=150.0)
    record(f"{name}[missing]", f, 300.0)
    record(f"{name}[extra]", f, 300.0, 1.0, 2.0)
    record(f"{name}[badkw]", f, 300.0, 1.0, salinity=2.0)
    record(f"{name}[str-t]", f, "300", 1000.0)
    record(f"{name}[none-t]", f, None, 1000.0)
    record(f"{name}[arr-t]", f, np.array([100.0, 200.0]), np.array([1000.0, 2000.0]))
    record(f"{name}[arr-t-mismatch]", f, np.array([100.0, 200.0, 300.0]), np.array([1000.0, 2000.0]))

for name in WATER_FUNCS3:
    f = getattr(water, name)
    for it, t in enumerate(temperatures):
        for ip, p in enumerate(pressures):
            for isal, s in enumerate(salinities):
                if isal > 4 and ip > 8:
                    continue
                record(f"{name}[t{it},p{ip},s{isal}]", f, t, p, s)
    record(f"{name}[kw]", f, temperature=300.0, pressure=np.array([1.0, 2.0]), salinity=3.0)
    record(f"{name}[kw-mixed]", f, 300.0, salinity=3.0, pressure=2.0)
    record(f"{name}[missing]", f, 300.0, 1000.0)
    record(f"{name}[extra]", f, 300.0, 1.0, 2.0, 3.0)
    record(f"{name}[badkw]", f, 300.0, 1.0, 2.0, tds=2.0)
    record(f"{name}[str-s]", f, 300.0, 1000.0, "15")
    record(f"{name}[none-s]", f, 300.0, 1000.0, None)
    record(f"{name}[zero-t]", f, 0, 1000.0, 15)
    record(f"{name}[zero-t-float]", f, 0.0, np.array([1000.0]), 15.0)
    record(f"{name}[neg-t]", f, -5.0, 1000.0, 40.0)
    record(f"{name}[int-neg-pow]", f, 2, 1000, 0)
    record(f"{name}[arr-int-t]", f, np.array([100, 200]), 1000.0, 1.0)
    record(f"{name}[singular]", f, 751.0242085661081, 0.0, 0.0)

for name in WATER_FUNCS2 + WATER_FUNCS3:
    f = getattr(water, name)
    LINES.append(f"meta {name}: name={f.__name__} qualname={f.__qualname__} module={f.__module__}")
    LINES.append(f"meta {name}: sig={inspect.signature(f)} doc={f.__doc__!r}")

# ------------------------------------------------------------------ fluid.py
LINES.append(f"const {fluid_mod.PRESSURE_STANDARD!r} {fluid_mod.TEMPERATURE_STANDARD!r}")
LINES.append(f"Fluid fields {[(f.name, "MISSING" if f.default is dataclasses.MISSING else f.default) for f in dataclasses.fields(Fluid)]}")
LINES.append(f"Fluid sig {inspect.signature(Fluid)}")
LINES.append(f"Fluid is_dataclass {dataclasses.is_dataclass(Fluid)} hash={Fluid.__hash__!r}")

fluids = OrderedDict(
    f0=lambda: Fluid(200.0, 35.0, 0.8, 650.0),
    f1=lambda: Fluid(400, 35, 0.65, 0),
    f2=lambda: Fluid(temperature=250.0, api_gravity=40.0, gas_specific_gravity=0.7, solution_gor_initial=800.0, salinity=15.0, water_saturation_initial=0.2),
    f3=lambda: Fluid(150.0, 25.0, 0.9, 300.0, 5),
    f4=lambda: Fluid(0.0, 0.0, 0.0, 0.0),
    f5=lambda: Fluid("hot", None, [1], {}),
)
record("Fluid()", Fluid)
record("Fluid(3 args)", Fluid, 1.0, 2.0, 3.0)
record("Fluid(7 args)", Fluid, 1.0, 2.0, 3.0, 4.0, 5.0, 6.0, 7.0)
record("Fluid(bad kw)", Fluid, 1.0, 2.0, 3.0, 4.0, pressure=5.0)
for key, make in fluids.items():
    fl = make()
    LINES.append(f"{key} repr={fl!r}")
    LINES.append(f"{key} asdict={dataclasses.asdict(fl)!r} astuple={dataclasses.astuple(fl)!r}")
    LINES.append(f"{key} eq-self={fl == make()} eq-other={fl == Fluid(1.0, 2.0, 3.0, 4.0)} eq-int={fl == 3}")
    LINES.append(f"{key} has-dict={hasattr(fl, '__dict__')} vars={sorted(vars(fl))}")
    fl.extra_attribute = 5  # instances accept new attributes today
    LINES.append(f"{key} extra={fl.extra_attribute}")
    replaced = dataclasses.replace(fl, salinity=3.5)
    LINES.append(f"{key} replaced={replaced!r}")

pressure_grids = [
    np.array([14.7, 500.0, 1500.0, 2627.0, 3000.0, 6000.0, 12000.0]),
    np.linspace(100.0, 9000.0, 9),
    np.array([2000]),
    np.array([]),
    [100.0, 3000.0],
    (250.0,),
    3000.0,
    3000,
    np.array(3000.0),
    np.array([[100.0, 2000.0], [3000.0, 4000.0]]),
    np.array([0.0, -10.0, 100.0]),
    np.array([np.nan, 1000.0]),
    None,
    "abc",
    pd.Series([500.0, 2500.0]),
]
pseudocriticals = [(-102.0, 649.0), (-80.0, 660.0), (-102, 649)]

for key, make in fluids.items():
    for ig, grid in enumerate(pressure_grids):
        fl = make()
        record(f"{key}.water_FVF[g{ig}]", fl.water_FVF, grid)
        record(f"{key}.water_viscosity[g{ig}]", fl.water_viscosity, grid)
        record(f"{key}.oil_FVF[g{ig}]", fl.oil_FVF, grid)
        record(f"{key}.oil_viscosity[g{ig}]", fl.oil_viscosity, grid)
        for ic, (tpc, ppc) in enumerate(pseudocriticals):
            if ic and ig > 2:
                continue
            record(f"{key}.gas_FVF[g{ig},c{ic}]", fl.gas_FVF, grid, tpc, ppc)
            record(f"{key}.gas_viscosity[g{ig},c{ic}]", fl.gas_viscosity, grid, tpc, ppc)
        record(f"{key}.after[g{ig}]", repr, fl)
    fl = make()
    record(f"{key}.pressure_bubblepoint", fl.pressure_bubblepoint)
    record(f"{key}.pressure_bubblepoint(extra)", fl.pressure_bubblepoint, 1.0)
    record(f"{key}.water_FVF(kw)", fl.water_FVF, pressure=np.array([1000.0, 2000.0]))
    record(f"{key}.water_viscosity(kw)", fl.water_viscosity, pressure=np.array([1000.0, 2000.0]))
    record(f"{key}.oil_FVF(kw)", fl.oil_FVF, pressure=np.array([1000.0, 2000.0]))
    record(f"{key}.oil_viscosity(kw)", fl.oil_viscosity, pressure=np.array([1000.0, 2000.0]))
    record(
        f"{key}.gas_FVF(kw)",
        fl.gas_FVF,
        pressure=np.array([1000.0, 2000.0]),
        pressure_pseudocritical=649.0,
        temperature_pseudocritical=-102.0,
    )
    record(
        f"{key}.gas_viscosity(kw)",
        fl.gas_viscosity,
        pressure=np.array([1000.0, 2000.0]),
        pressure_pseudocritical=649.0,
        temperature_pseudocritical=-102.0,
    )
    record(f"{key}.gas_FVF(missing)", fl.gas_FVF, np.array([1000.0]), -102.0)
    record(f"{key}.gas_viscosity(missing)", fl.gas_viscosity, np.array([1000.0]))
    record(f"{key}.water_FVF(missing)", fl.water_FVF)
    record(f"{key}.oil_FVF(extra)", fl.oil_FVF, 1.0, 2.0)

# mutation after construction is visible to the methods
fl = Fluid(200.0, 35.0, 0.8, 650.0)
fl.temperature = 300.0
fl.salinity = 12.0
fl.api_gravity = 30.0
grid = np.array([500.0, 3500.0])
record("mutated.water_FVF", fl.water_FVF, grid)
record("mutated.water_viscosity", fl.water_viscosity, grid)
record("mutated.oil_FVF", fl.oil_FVF, grid)
record("mutated.oil_viscosity", fl.oil_viscosity, grid)
record("mutated.gas_FVF", fl.gas_FVF, grid, -102.0, 649.0)
record("mutated.gas_viscosity", fl.gas_viscosity, grid, -102.0, 649.0)
record("mutated.pb", fl.pressure_bubblepoint)
del fl.salinity
record("deleted-salinity.water_viscosity", fl.water_viscosity, grid)
record("deleted-salinity.water_FVF", fl.water_FVF, grid)
record("deleted-salinity.repr", repr, fl)


class SubFluid(Fluid):
    """A user subclass overriding one accessor."""

    def water_viscosity(self, pressure):
        return 2 * super().water_viscosity(pressure)


sub = SubFluid(220.0, 33.0, 0.75, 500.0, salinity=4.0)
record("sub.water_viscosity", sub.water_viscosity, grid)
record("sub.water_FVF", sub.water_FVF, grid)
record("sub.oil_FVF", sub.oil_FVF, grid)
record("sub.repr", repr, sub)
LINES.append(f"sub eq base {sub == Fluid(220.0, 33.0, 0.75, 500.0, salinity=4.0)}")

# ---- pseudopressure
pp_cases = [
    (np.array([10.0, 20.0, 40.0, 80.0]), np.array([0.01, 0.012, 0.015, 0.02]), np.array([0.99, 0.97, 0.95, 0.9])),
    (np.linspace(10.0, 5000.0, 50), np.linspace(0.01, 0.03, 50), np.linspace(1.0, 0.8, 50)),
    (np.array([10.0, 20.0]), np.array([0.0, 0.01]), np.array([1.0, 1.0])),
    (np.array([0.0, 20.0]), np.array([0.0, 0.01]), np.array([1.0, 1.0])),
    (np.array([10.0]), np.array([0.01]), np.array([1.0])),
    (np.array([]), np.array([]), np.array([])),
    (np.array([10.0, 20.0, 30.0]), np.array([0.01, 0.02]), np.array([1.0, 1.0, 1.0])),
    (np.array([10.0, 20.0, 30.0]), 0.02, 0.9),
    ([10.0, 20.0], [0.01, 0.02], [1.0, 1.0]),
    (5.0, 0.01, 1.0),
    (np.array([[10.0, 20.0, 30.0], [10.0, 30.0, 90.0]]), np.full((2, 3), 0.02), np.full((2, 3), 0.9)),
    (np.array([30.0, 20.0, 10.0]), np.array([0.03, 0.02, 0.01]), np.array([0.9, 0.95, 1.0])),
    (np.array([10, 20, 30]), np.array([1, 2, 4]), np.array([1, 1, 1])),
    (pd.Series([10.0, 20.0, 30.0]), pd.Series([0.01, 0.02, 0.03]), pd.Series([1.0, 0.9, 0.8])),
    (None, None, None),
]
for ic, (p, mu, z) in enumerate(pp_cases):
    record(f"pseudopressure[{ic}]", pseudopressure, p, mu, z)
record("pseudopressure[kw]", pseudopressure, pressure=pp_cases[0][0], viscosity=pp_cases[0][1], z_factor=pp_cases[0][2])
record("pseudopressure[missing]", pseudopressure, pp_cases[0][0], pp_cases[0][1])

# ---- build_pvt_gas
base_gas = {
    "N2": 0.01,
    "H2S": 0.02,
    "CO2": 0.03,
    "Gas Specific Gravity": 0.7,
    "Reservoir Temperature (deg F)": 250.0,
}


class RecordingMapping(Mapping):
    """A caller-supplied mapping that is not a dict and logs key access order."""

    def __init__(self, data):
        self._data = dict(data)
        self.log = []

    def __getitem__(self, key):
        self.log.append(key)
        return self._data[key]

    def __iter__(self):
        return iter(self._data)

    def __len__(self):
        return len(self._data)


def variant(**changes):
    out = dict(base_gas)
    for k, v in changes.items():
        out[k] = v
    return out


def without(key):
    out = dict(base_gas)
    del out[key]
    return out


gas_cases = OrderedDict(
    base=(base_gas, "dry gas", 300.0),
    wet=(base_gas, "wet gas", 300.0),
    default_max_small=(variant(**{"Gas Specific Gravity": 0.6}), "dry gas", 120.0),
    reversed_order=(OrderedDict(reversed(list(base_gas.items()))), "wet gas", 200.0),
    proxy=(MappingProxyType(dict(base_gas)), "dry gas", 200.0),
    extra_keys=(variant(foo=1, bar="x"), "dry gas", 100.0),
    int_temp=(variant(**{"Reservoir Temperature (deg F)": 200}), "dry gas", 150.0),
    str_sg=(variant(**{"Gas Specific Gravity": "0.7"}), "dry gas", 100.0),
    np_sg=(variant(**{"Gas Specific Gravity": np.float64(0.8)}), "wet gas", 100.0),
    zeros=(variant(N2=0.0, H2S=0.0, CO2=0.0), "dry gas", 100.0),
    bad_dryness=(base_gas, "moist gas", 100.0),
    none_dryness=(base_gas, None, 100.0),
    empty_range=(base_gas, "dry gas", 10.0),
    empty_range_neg=(base_gas, "dry gas", -5.0),
    empty_range_bad_sg=(variant(**{"Gas Specific Gravity": np.array([0.7, 0.8])}), "dry gas", 5.0),
    one_row=(base_gas, "dry gas", 20.0),
    no_N2=(without("N2"), "dry gas", 100.0),
    no_H2S=(without("H2S"), "dry gas", 100.0),
    no_CO2=(without("CO2"), "dry gas", 100.0),
    no_sg=(without("Gas Specific Gravity"), "dry gas", 100.0),
    no_temp=(without("Reservoir Temperature (deg F)"), "dry gas", 100.0),
    empty=({}, "dry gas", 100.0),
    not_mapping=(None, "dry gas", 100.0),
    list_mapping=([1, 2, 3], "dry gas", 100.0),
    none_temp=(variant(**{"Reservoir Temperature (deg F)": None}), "dry gas", 100.0),
    str_max=(base_gas, "dry gas", "100"),
    nan_max=(base_gas, "dry gas", float("nan")),
)
for key, (vals, dryness, pmax) in gas_cases.items():
    record(f"build_pvt_gas[{key}]", build_pvt_gas, vals, dryness, pmax)
    if isinstance(vals, dict):
        rec = RecordingMapping(vals)
        record(f"build_pvt_gas[{key}/recording]", build_pvt_gas, rec, dryness, pmax)
        LINES.append(f"build_pvt_gas[{key}/recording] first-keys={rec.log[:6]} distinct={sorted(set(rec.log))} n={len(rec.log)}")
record("build_pvt_gas[kw]", build_pvt_gas, gas_values=base_gas, gas_dryness="dry gas", maximum_pressure=100.0)
record("build_pvt_gas[missing]", build_pvt_gas, base_gas)
record("build_pvt_gas[input-unchanged]", lambda: (build_pvt_gas(base_gas, "dry gas", 50.0), sorted(base_gas.items()))[1])
full = build_pvt_gas(base_gas, "dry gas")
LINES.append(f"build_pvt_gas[default-max] shape={full.shape} last={fmt(full.iloc[-1].to_numpy())} sum={fmt(full.sum().to_numpy())}")

with open(sys.argv[1], "w") as fh:
    fh.write("\n".join(LINES) + "\n")
print(f"wrote {len(LINES)} lines")
