"""Equivalence driver for bluebonnet.fluids.water / bluebonnet.fluids.fluid.

Usage: PYTHONPATH=<tree>/src /venv/bin/python equiv.py <outfile>
Writes the full-precision repr (or the exception type) of every call.
"""

from __future__ import annotations

import dataclasses
import decimal
import fractions
import inspect
import os
import sys
import warnings

import numpy as np
import pandas as pd

warnings.simplefilter("ignore")

from bluebonnet.fluids import Fluid, build_pvt_gas, pseudopressure  # noqa: E402
from bluebonnet.fluids import fluid as fluid_mod  # noqa: E402
from bluebonnet.fluids import water  # noqa: E402

BB_DATA = os.environ.get("BB_DATA", "/tmp/twin8_waterfluid/tests/data")
ROUND = None  # set to 11 to round floats to 11 significant digits

lines: list[str] = []


def fmt(x):
    if isinstance(x, pd.DataFrame):
        return (
            "DataFrame(cols="
            + repr(list(x.columns))
            + ", dtypes="
            + repr([str(t) for t in x.dtypes])
            + ", index="
            + fmt(np.asarray(x.index))
            + ", values="
            + fmt(x.to_numpy())
            + ")"
        )
    if isinstance(x, pd.Series):
        return "Series(" + fmt(x.to_numpy()) + ", index=" + fmt(np.asarray(x.index)) + ")"
    if isinstance(x, np.ndarray):
        flags = f"C={x.flags.c_contiguous},W={x.flags.writeable}"
        if x.dtype.kind in "fc":
            body = [fmt(v) for v in x.ravel().tolist()]
        else:
            body = [repr(v) for v in x.ravel().tolist()]
        return f"{type(x).__name__}(shape={x.shape}, dtype={x.dtype}, {flags}, [{', '.join(body)}])"
    if isinstance(x, np.generic):
        return f"{type(x).__name__}:{fmt(x.item())}"
    if isinstance(x, float):
        if ROUND and np.isfinite(x) and x != 0.0:
            return "float:" + f"{x:.{ROUND - 1}e}"
        return "float:" + repr(x)
    if isinstance(x, complex):
        return "complex:" + fmt(x.real) + "," + fmt(x.imag)
    if isinstance(x, (tuple, list)):
        return type(x).__name__ + "(" + ", ".join(fmt(v) for v in x) + ")"
    return type(x).__name__ + ":" + repr(x)


def rec(label, func, *args, **kwargs):
    try:
        with warnings.catch_warnings(record=True) as w:
            warnings.simplefilter("always")
            out = func(*args, **kwargs)
        wtxt = sorted({ww.category.__name__ for ww in w})
        lines.append(f"{label} -> {fmt(out)} warnings={wtxt}")
    except BaseException as e:  # noqa: BLE001
        lines.append(f"{label} -> EXC {type(e).__name__}")


# ------------------------------------------------------------------ water.py
temps = [60, 60.0, 100.0, 200.0, 400.0, 0.0, -40.0, 1e3, np.float64(250.0), np.float32(180.0)]
temps_bad = ["hot", None, [200.0], 1e200, 10**400, float("nan"), float("inf"), 2 + 1j]
press = [
    14.7,
    0,
    0.0,
    1,
    3000,
    3000.0,
    -500.0,
    12000.5,
    1e5,
    1e154,
    1e155,
    1e200,
    10**200,
    10**400,
    float("inf"),
    float("nan"),
    np.float64(4321.0),
    np.float32(2500.0),
    np.int64(5000),
    np.array(2750.0),
    np.array([], dtype=float),
    np.array([14.7]),
    np.array([14.7, 1000.0, 5000.0, 14000.0]),
    np.linspace(10.0, 14000.0, 23),
    np.arange(10, 9000, 1000),
    np.arange(10, 9000, 1000, dtype=np.int32),
    np.array([[100.0, 2000.0], [3000.0, 8000.0]]),
    np.linspace(10.0, 14000.0, 12)[::-1],
    np.linspace(10.0, 14000.0, 12)[::2],
    np.array([1e200, 1e160, -1e180]),
    np.array([100.0, 2000.0], dtype=np.float32),
    np.array([1 + 1j, 2000.0]),
    np.array([100, "a"], dtype=object),
    pd.Series([100.0, 2500.0, 9000.0]),
    [100.0, 2000.0],
    (100.0, 2000.0),
    "3000",
    None,
    2 + 3j,
    decimal.Decimal("3000"),
    fractions.Fraction(6001, 2),
    True,
]
sals = [
    0,
    0.0,
    1,
    5.5,
    15,
    15.0,
    26.0,
    -3.0,
    100.0,
    1e80,
    1e100,
    1e200,
    10**100,
    10**400,
    float("nan"),
    float("inf"),
    np.float64(12.5),
    np.float32(7.5),
    np.int64(20),
    np.array([0.0, 10.0, 20.0, 30.0]),
    np.array([5, 10, 15, 20]),
    "salty",
    None,
    [10.0],
    decimal.Decimal("10"),
    fractions.Fraction(21, 2),
    1 + 2j,
    True,
]

for T in temps + temps_bad:
    for p in press:
        rec(f"b_water_McCain({T!r},{p!r})", water.b_water_McCain, T, p)
        rec(f"b_water_McCain_dp({T!r},{p!r})", water.b_water_McCain_dp, T, p)

for T in [60, 200.0, 400.0, 0.0, -40.0, np.float64(250.0), "hot", None, 1e200, 10**400]:
    for p in [
        14.7,
        0,
        3000,
        3000.0,
        -500.0,
        1e155,
        1e200,
        10**400,
        float("nan"),
        np.float64(4321.0),
        np.array(2750.0),
        np.array([]),
        np.array([14.7, 1000.0, 5000.0, 14000.0]),
        np.arange(10, 9000, 1000),
        np.array([[100.0, 2000.0], [3000.0, 8000.0]]),
        np.array([1e200, 1e160]),
        pd.Series([100.0, 2500.0]),
        [100.0, 2000.0],
        "3000",
        None,
        decimal.Decimal("3000"),
    ]:
        for s in sals:
            if isinstance(s, np.ndarray) and isinstance(p, np.ndarray) and p.shape not in (
                (),
                (4,),
            ):
                # still record: broadcasting errors must stay the same
                pass
            rec(
                f"compressibility({T!r},{p!r},{s!r})",
                water.compressibility_water_McCain,
                T,
                p,
                s,
            )
            rec(f"density({T!r},{p!r},{s!r})", water.density_water_McCain, T, p, s)
            rec(f"viscosity({T!r},{p!r},{s!r})", water.viscosity_water_McCain, T, p, s)

# keyword / arity behaviour
rec("b_water kw", water.b_water_McCain, temperature=200.0, pressure=3000.0)
rec("b_water_dp kw", water.b_water_McCain_dp, temperature=200.0, pressure=3000.0)
rec("visc kw", water.viscosity_water_McCain, temperature=200.0, pressure=3000.0, salinity=10.0)
rec("dens kw", water.density_water_McCain, temperature=200.0, pressure=3000.0, salinity=10.0)
rec("comp kw", water.compressibility_water_McCain, temperature=200.0, pressure=3000.0, salinity=1)
rec("b_water arity", water.b_water_McCain, 200.0)
rec("b_water arity3", water.b_water_McCain, 200.0, 3000.0, 1.0)
rec("visc arity", water.viscosity_water_McCain, 200.0, 3000.0)
rec("visc arity4", water.viscosity_water_McCain, 200.0, 3000.0, 1.0, 2.0)
for name in [
    "b_water_McCain",
    "b_water_McCain_dp",
    "compressibility_water_McCain",
    "density_water_McCain",
    "viscosity_water_McCain",
]:
    rec(f"sig {name}", lambda n=name: str(inspect.signature(getattr(water, n))))


# ------------------------------------------------------------------ Fluid
def gen(vals):
    yield from vals


rec(
    "fields",
    lambda: [
        (
            f.name,
            f.type,
            "MISSING" if f.default is dataclasses.MISSING else repr(f.default),
            f.default_factory is dataclasses.MISSING,
            f.init,
            f.repr,
            f.compare,
            f.kw_only,
        )
        for f in dataclasses.fields(Fluid)
    ],
)
rec("sig Fluid", lambda: str(inspect.signature(Fluid)))
rec("repr", lambda: repr(Fluid(200.0, 35.0, 0.8, 650.0)))
rec("repr2", lambda: repr(Fluid(200.0, 35.0, 0.8, 650.0, 3.0, 0.2)))
rec("eq", lambda: Fluid(200.0, 35.0, 0.8, 650.0) == Fluid(200.0, 35.0, 0.8, 650.0, 0.0, 0.0))
rec("neq", lambda: Fluid(200.0, 35.0, 0.8, 650.0) == Fluid(200.0, 35.0, 0.8, 650.0, 1.0))
rec("asdict", lambda: sorted(dataclasses.asdict(Fluid(200, 35, 0.8, 650, salinity=2)).items()))
rec("vars", lambda: sorted(vars(Fluid(200, 35, 0.8, 650, water_saturation_initial=0.3)).items()))
rec("class defaults", lambda: (Fluid.salinity, Fluid.water_saturation_initial))
rec("ctor arity", Fluid, 200.0, 35.0, 0.8)
rec("ctor arity7", Fluid, 200.0, 35.0, 0.8, 650.0, 1.0, 0.1, 5)
rec("ctor kw bad", Fluid, 200.0, 35.0, 0.8, 650.0, foo=1)
rec("ctor weird", lambda: repr(Fluid("a", None, [1], {}, salinity="x")))
rec("hash", lambda: hash(Fluid(200.0, 35.0, 0.8, 650.0)))
rec(
    "replace",
    lambda: repr(dataclasses.replace(Fluid(200.0, 35.0, 0.8, 650.0), temperature=150.0)),
)
for name in [
    "water_FVF",
    "water_viscosity",
    "gas_FVF",
    "gas_viscosity",
    "oil_FVF",
    "oil_viscosity",
    "pressure_bubblepoint",
]:
    rec(f"sig Fluid.{name}", lambda n=name: str(inspect.signature(getattr(Fluid, n))))

fluids = {
    "oil": (200.0, 35.0, 0.8, 650.0),
    "gas": (400, 35, 0.65, 0),
    "brine": (150.0, 40.0, 0.7, 1200.0, 12.0, 0.25),
    "npT": (np.float64(180.0), 30.0, np.float64(0.75), 500.0, np.float64(3.0)),
    "badT": ("hot", 35.0, 0.8, 650.0),
    "noneT": (None, 35.0, 0.8, 650.0),
    "badsal": (200.0, 35.0, 0.8, 650.0, "salty"),
    "badsg": (200.0, 35.0, "heavy", 650.0),
    "nansg": (200.0, 35.0, float("nan"), 650.0),
}
fluid_press = [
    np.array([14.7, 1000.0, 5000.0, 14000.0]),
    np.linspace(100.0, 9000.0, 7),
    np.array([3000.0]),
    np.array([], dtype=float),
    np.array(3000.0),
    np.array([[100.0, 2000.0], [3000.0, 8000.0]]),
    np.arange(100, 9000, 2000),
    np.linspace(100.0, 9000.0, 8)[::-2],
    np.array([100.0, 2000.0], dtype=np.float32),
    np.array([100.0, np.nan, 3000.0]),
    np.array([100.0, -50.0]),
    np.array([0.0, 100.0]),
    np.array([1e6, 1e9]),
    pd.Series([100.0, 2500.0, 9000.0]),
    [100.0, 2000.0, 7000.0],
    (100.0, 2000),
    [100, 2000],
    [],
    [[100.0, 200.0], [300.0, 400.0]],
    [[100.0, 200.0], [300.0]],
    ["a", "b"],
    [None],
    [1e200, 10**400],
    "3000",
    3000.0,
    3000,
    None,
    {100.0: 1, 2000.0: 2},
    {100.0, },
    range(100, 5000, 1500),
]
tpc_ppc = [(-102.0, 649.0), (-70.0, 660.0), (np.float64(-90.0), 655), ("a", 649.0), (-102.0, None), (-102.0, 0.0)]

for fname, fargs in fluids.items():
    try:
        fl = Fluid(*fargs)
    except BaseException as e:  # noqa: BLE001
        lines.append(f"Fluid[{fname}] ctor EXC {type(e).__name__}")
        continue
    rec(f"{fname}.pressure_bubblepoint", fl.pressure_bubblepoint)
    for ip, p in enumerate(fluid_press):
        rec(f"{fname}.water_FVF[{ip}]", fl.water_FVF, p)
        rec(f"{fname}.water_viscosity[{ip}]", fl.water_viscosity, p)
        has_nan = isinstance(p, np.ndarray) and p.dtype.kind == "f" and bool(np.isnan(p).any())
        if fname != "nansg" and not has_nan:
            # (untouched) oil.b_o_Standing leaves np.empty_like memory unfilled when the
            # bubble point or a pressure is NaN: uninitialised memory is not comparable
            rec(f"{fname}.oil_FVF[{ip}]", fl.oil_FVF, p)
            rec(f"{fname}.oil_viscosity[{ip}]", fl.oil_viscosity, p)
        for tpc, ppc in tpc_ppc[: (6 if fname in ("oil", "gas") else 2)]:
            rec(f"{fname}.gas_FVF[{ip}]({tpc!r},{ppc!r})", fl.gas_FVF, p, tpc, ppc)
            rec(f"{fname}.gas_viscosity[{ip}]({tpc!r},{ppc!r})", fl.gas_viscosity, p, tpc, ppc)
    # generators (consumed exactly once)
    rec(f"{fname}.water_FVF[gen]", lambda fl=fl: fl.water_FVF(gen([100.0, 2000.0, 7000.0])))
    rec(f"{fname}.gas_FVF[gen]", lambda fl=fl: fl.gas_FVF(gen([100.0, 2000.0]), -102.0, 649.0))
    rec(
        f"{fname}.gas_viscosity[gen]",
        lambda fl=fl: fl.gas_viscosity(gen([100.0, 2000.0]), -102.0, 649.0),
    )
    rec(f"{fname}.water_FVF[emptygen]", lambda fl=fl: fl.water_FVF(gen([])))
    rec(f"{fname}.gas_FVF[emptygen]", lambda fl=fl: fl.gas_FVF(gen([]), -102.0, 649.0))
    rec(f"{fname}.gas_viscosity[emptygen]", lambda fl=fl: fl.gas_viscosity(gen([]), "a", None))
    # keyword calls and arity
    rec(f"{fname}.water_FVF kw", lambda fl=fl: fl.water_FVF(pressure=np.array([100.0, 900.0])))
    rec(
        f"{fname}.gas_FVF kw",
        lambda fl=fl: fl.gas_FVF(
            pressure=np.array([100.0, 900.0]),
            temperature_pseudocritical=-102.0,
            pressure_pseudocritical=649.0,
        ),
    )
    rec(
        f"{fname}.gas_viscosity kw",
        lambda fl=fl: fl.gas_viscosity(
            pressure=np.array([100.0, 900.0]),
            temperature_pseudocritical=-102.0,
            pressure_pseudocritical=649.0,
        ),
    )
    rec(f"{fname}.gas_FVF arity", lambda fl=fl: fl.gas_FVF(np.array([100.0]), -102.0))
    rec(f"{fname}.water_FVF arity", lambda fl=fl: fl.water_FVF())
    rec(f"{fname}.water_FVF extra", lambda fl=fl: fl.water_FVF(np.array([100.0]), 1))

# results are fresh, writeable, independent objects; inputs are not modified
fl = Fluid(200.0, 35.0, 0.8, 650.0, 5.0)
p_in = np.array([100.0, 2000.0, 7000.0])
p_copy = p_in.copy()
for meth, extra in [
    ("water_FVF", ()),
    ("water_viscosity", ()),
    ("gas_FVF", (-102.0, 649.0)),
    ("gas_viscosity", (-102.0, 649.0)),
]:
    r1 = getattr(fl, meth)(p_in, *extra)
    r2 = getattr(fl, meth)(p_in, *extra)
    lines.append(
        f"fresh {meth}: type={type(r1).__name__} base_none={r1.base is None} owndata={r1.flags.owndata} "
        f"distinct={r1 is not r2} shares={np.shares_memory(r1, r2)} "
        f"shares_in={np.shares_memory(r1, p_in)} writeable={r1.flags.writeable} "
        f"input_same={np.array_equal(p_in, p_copy)}"
    )
    r1[0] = -1.0
    lines.append(f"fresh {meth} after write: {fmt(r2)}")
# attributes re-read at call time
fl.temperature = 300.0
fl.salinity = 20.0
fl.gas_specific_gravity = 0.9
rec("mutated water_FVF", fl.water_FVF, p_in)
rec("mutated water_viscosity", fl.water_viscosity, p_in)
rec("mutated gas_FVF", fl.gas_FVF, p_in, -102.0, 649.0)
rec("mutated gas_viscosity", fl.gas_viscosity, p_in, -102.0, 649.0)
rec("mutated vars", lambda: sorted(vars(fl).items()))


# ------------------------------------------------------------------ pseudopressure
def pvt_arrays(n, lo=10.0, hi=9000.0):
    p = np.linspace(lo, hi, n)
    mu = 0.012 + 2.0e-6 * p + 1e-10 * p**2
    z = 1.0 - 6e-5 * p + 9e-9 * p**2
    return p, mu, z


rec(
    "sig pseudopressure (positional part)",
    lambda: [
        (q.name, repr(q.default))
        for q in inspect.signature(pseudopressure).parameters.values()
        if q.kind is q.POSITIONAL_OR_KEYWORD
    ],
)
for n in [0, 1, 2, 3, 17, 200]:
    p, mu, z = pvt_arrays(n)
    rec(f"pseudopressure n={n}", pseudopressure, p, mu, z)
    rec(f"pseudopressure n={n} kw", lambda: pseudopressure(pressure=p, viscosity=mu, z_factor=z))
    rec(f"pseudopressure n={n} series", pseudopressure, pd.Series(p), pd.Series(mu), pd.Series(z))
    rec(f"pseudopressure n={n} lists", pseudopressure, list(p), list(mu), list(z))
    rec(f"pseudopressure n={n} mixed", pseudopressure, p, list(mu), pd.Series(z))
    rec(f"pseudopressure n={n} scalars mu,z", pseudopressure, p, 0.02, 0.9)
p, mu, z = pvt_arrays(9)
rec("pseudopressure rev", pseudopressure, p[::-1], mu[::-1], z[::-1])
rec("pseudopressure strided", pseudopressure, p[::2], mu[::2], z[::2])
rec("pseudopressure int p", pseudopressure, np.arange(10, 100, 10), mu, z)
rec("pseudopressure f32", pseudopressure, p.astype(np.float32), mu.astype(np.float32), z.astype(np.float32))
rec("pseudopressure 2d", pseudopressure, p.reshape(3, 3), mu.reshape(3, 3), z.reshape(3, 3))
rec("pseudopressure mism", pseudopressure, p, mu[:-1], z)
rec("pseudopressure mism2", pseudopressure, p, mu, z[:4])
rec("pseudopressure zero z", pseudopressure, p, mu, np.zeros(9))
rec("pseudopressure nan", pseudopressure, p, np.where(p > 4000, np.nan, mu), z)
rec("pseudopressure scalars", pseudopressure, 3000.0, 0.02, 0.9)
rec("pseudopressure 0d", pseudopressure, np.array(3000.0), np.array(0.02), np.array(0.9))
rec("pseudopressure none", pseudopressure, None, mu, z)
rec("pseudopressure str", pseudopressure, "abc", mu, z)
rec("pseudopressure huge", pseudopressure, p * 1e300, mu, z)
rec("pseudopressure complex", pseudopressure, p, mu * (1 + 0j), z)
rec("pseudopressure masked", pseudopressure, np.ma.masked_greater(p, 5000.0), mu, z)
rec("pseudopressure arity", pseudopressure, p, mu)
rec("pseudopressure extra kw", lambda: pseudopressure(p, mu, z, initial=1.0))
out = pseudopressure(p, mu, z)
lines.append(
    f"pseudopressure fresh: type={type(out).__name__} owndata={out.flags.owndata} "
    f"shares={np.shares_memory(out, p)} writeable={out.flags.writeable}"
)
try:
    df = pd.read_csv(os.path.join(BB_DATA, "pvt_gas.csv"))
    cols = {c.lower(): c for c in df.columns}
    pc = cols.get("pressure", cols.get("p", df.columns[0]))
    vc = next((cols[c] for c in cols if "visc" in c), None)
    zc = next((cols[c] for c in cols if c.startswith("z")), None)
    lines.append(f"pvt_gas.csv columns={list(df.columns)}")
    if vc and zc:
        rec("pseudopressure csv", pseudopressure, df[pc], df[vc], df[zc])
        rec("pseudopressure csv np", pseudopressure, df[pc].to_numpy(), df[vc].to_numpy(), df[zc].to_numpy())
except BaseException as e:  # noqa: BLE001
    lines.append(f"csv EXC {type(e).__name__}")

# ------------------------------------------------------------------ build_pvt_gas
rec(
    "sig build_pvt_gas (positional part)",
    lambda: [
        (q.name, repr(q.default))
        for q in inspect.signature(build_pvt_gas).parameters.values()
        if q.kind is q.POSITIONAL_OR_KEYWORD
    ],
)
rec("constants", lambda: (fluid_mod.PRESSURE_STANDARD, fluid_mod.TEMPERATURE_STANDARD))
gv = {
    "N2": 0.0,
    "H2S": 0.0,
    "CO2": 0.0,
    "Gas Specific Gravity": 0.65,
    "Reservoir Temperature (deg F)": 200.0,
}
gv2 = {
    "N2": 0.02,
    "H2S": 0.01,
    "CO2": 0.05,
    "Gas Specific Gravity": 0.8,
    "Reservoir Temperature (deg F)": 300,
}
gv_str = dict(gv, **{"Gas Specific Gravity": "0.65"})
gv_np = {k: np.float64(v) for k, v in gv2.items()}
gv_badT = dict(gv, **{"Reservoir Temperature (deg F)": "hot"})
gv_noneT = dict(gv, **{"Reservoir Temperature (deg F)": None})
gv_missing = {k: v for k, v in gv.items() if k != "CO2"}
gv_missingT = {k: v for k, v in gv.items() if k != "Reservoir Temperature (deg F)"}
gv_missingsg = {k: v for k, v in gv.items() if k != "Gas Specific Gravity"}
gv_nan = dict(gv, **{"Gas Specific Gravity": float("nan")})
gv_series = pd.Series(gv2)
cases = [
    ("dry default-ish", gv, "dry gas", {"maximum_pressure": 600}),
    ("wet", gv2, "wet gas", {"maximum_pressure": 450.0}),
    ("np values", gv_np, "dry gas", {"maximum_pressure": 300}),
    ("series", gv_series, "wet gas", {"maximum_pressure": 200}),
    ("max=10 (empty)", gv, "dry gas", {"maximum_pressure": 10}),
    ("max=10.0001 (one row)", gv, "dry gas", {"maximum_pressure": 10.0001}),
    ("max=20 (one row)", gv, "dry gas", {"maximum_pressure": 20}),
    ("max=20.5 (two rows)", gv, "dry gas", {"maximum_pressure": 20.5}),
    ("max=30 (two rows)", gv, "dry gas", {"maximum_pressure": 30.0}),
    ("max=0 (empty)", gv, "dry gas", {"maximum_pressure": 0}),
    ("max=-5 (empty)", gv, "dry gas", {"maximum_pressure": -5.0}),
    ("max=nan", gv, "dry gas", {"maximum_pressure": float("nan")}),
    ("max=None", gv, "dry gas", {"maximum_pressure": None}),
    ("max=str", gv, "dry gas", {"maximum_pressure": "600"}),
    ("max=np", gv, "dry gas", {"maximum_pressure": np.float64(120.0)}),
    ("bad dryness", gv, "damp gas", {"maximum_pressure": 100}),
    ("bad dryness empty", gv, "damp gas", {"maximum_pressure": 5}),
    ("sg str", gv_str, "dry gas", {"maximum_pressure": 100}),
    ("sg str empty", gv_str, "dry gas", {"maximum_pressure": 5}),
    ("sg nan", gv_nan, "dry gas", {"maximum_pressure": 60}),
    ("T str", gv_badT, "dry gas", {"maximum_pressure": 100}),
    ("T str empty", gv_badT, "dry gas", {"maximum_pressure": 5}),
    ("T None", gv_noneT, "dry gas", {"maximum_pressure": 100}),
    ("T None empty", gv_noneT, "dry gas", {"maximum_pressure": 5}),
    ("missing CO2", gv_missing, "dry gas", {"maximum_pressure": 100}),
    ("missing T", gv_missingT, "dry gas", {"maximum_pressure": 100}),
    ("missing T empty", gv_missingT, "dry gas", {"maximum_pressure": 5}),
    ("missing sg", gv_missingsg, "dry gas", {"maximum_pressure": 100}),
    ("not mapping", None, "dry gas", {"maximum_pressure": 100}),
    ("list", [0, 0, 0, 0.65, 200], "dry gas", {"maximum_pressure": 100}),
]
for label, vals, dry, kw in cases:
    rec(f"build_pvt_gas {label}", build_pvt_gas, vals, dry, **kw)
rec("build_pvt_gas positional max", build_pvt_gas, gv, "dry gas", 150)
rec("build_pvt_gas kw all", lambda: build_pvt_gas(gas_values=gv2, gas_dryness="wet gas", maximum_pressure=90))
rec("build_pvt_gas 4 positional", build_pvt_gas, gv, "dry gas", 150, 10.0)
rec("build_pvt_gas 5 positional", build_pvt_gas, gv, "dry gas", 150, 10.0, 10.0)
rec("build_pvt_gas arity", build_pvt_gas, gv)
rec("build_pvt_gas bad kw", lambda: build_pvt_gas(gv, "dry gas", foo=1))
# new keyword-only options (if the tree has them): explicit default == omitted
_params = inspect.signature(build_pvt_gas).parameters
_explicit = {
    k: _params[k].default for k in _params if _params[k].kind is inspect.Parameter.KEYWORD_ONLY
}
for _mx in (20, 30.0, 310):
    _a = build_pvt_gas(gv2, "wet gas", _mx, **_explicit)
    _b = build_pvt_gas(gv2, "wet gas", _mx)
    lines.append(
        f"explicit-default options equal (max={_mx}): "
        f"{_a.equals(_b) and list(_a.dtypes) == list(_b.dtypes) and _a.shape == _b.shape}"
    )
full = build_pvt_gas(gv2, "wet gas")
lines.append("build_pvt_gas default grid: " + fmt(full))
full_dry = build_pvt_gas(gv, "dry gas", 14_000)
lines.append("build_pvt_gas explicit 14000: " + fmt(full_dry))
rec(
    "table vs pseudopressure()",
    pseudopressure,
    full["pressure"],
    full["viscosity"],
    full["z-factor"],
)
lines.append(
    "table flags: "
    + repr(
        [
            (c, type(full[c]).__name__, str(full[c].dtype), full[c].to_numpy().flags.writeable)
            for c in full.columns
        ]
    )
)
lines.append("table index: " + repr(full.index))
# input mapping is not modified
lines.append("gv after: " + repr(sorted(gv.items())))
lines.append("public names fluid: " + repr(sorted(n for n in dir(fluid_mod) if not n.startswith("_"))))
lines.append("public names water: " + repr(sorted(n for n in dir(water) if not n.startswith("_"))))
lines.append("Fluid public: " + repr(sorted(n for n in dir(Fluid) if not n.startswith("_"))))

with open(sys.argv[1], "w") as fh:
    fh.write("\n".join(lines) + "\n")
print(len(lines), "lines written")
