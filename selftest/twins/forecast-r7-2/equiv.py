"""Equivalence driver for bluebonnet.forecast.forecast (Bounds, ForecasterOnePhase)."""

from __future__ import annotations

import sys
import warnings

import numpy as np
from scipy.interpolate import interp1d

from bluebonnet.flow import IdealReservoir
from bluebonnet.forecast import Bounds, ForecasterOnePhase
from bluebonnet.forecast import forecast as fmod

warnings.simplefilter("ignore")
out = []


def fmt(x):
    if isinstance(x, np.ndarray):
        return (
            f"nd{x.shape}{x.dtype}["
            + ",".join(fmt(v) for v in x.ravel().tolist())
            + "]"
        )
    if isinstance(x, (float, np.floating)):
        return f"{type(x).__name__}:{float(x):.11g}"
    if isinstance(x, (list, tuple)):
        return type(x).__name__ + "(" + ",".join(fmt(v) for v in x) + ")"
    return f"{type(x).__name__}:{x!r}"


def rec(label, fn):
    try:
        res = fn()
        out.append(f"{label} -> {fmt(res)}")
    except BaseException as e:  # noqa: BLE001
        out.append(f"{label} !! {type(e).__name__}")


# ---------------------------------------------------------------- Bounds
inf = np.inf
bound_args = [
    ((0, 1), (2, 3)),
    ((0, inf), (1e-10, inf)),
    ((0.0, 1.0), (2.0, 3.0)),
    ((-inf, inf), (-inf, inf)),
    ([10.0, 1000.0], [0.5, 50.0]),
    (np.array([10.0, 1000.0]), np.array([0.5, 50.0])),
    ((1, 2, 3), (0, 1)),
    ((1, 2), (1,)),
    ((1, 2, 3), (1,)),
    ((1, 0), (0, 1)),
    ((0, 1), (20, 10)),
    ((1, 0), (1,)),
    ((1, 0), (20, 10)),
    ((1, 1), (0, 1)),
    ((0, 1), (5, 5)),
    ((), (0, 1)),
    ((0, 1), ()),
    (5, (0, 1)),
    ((0, 1), None),
    ((np.nan, 1), (0, 1)),
    ((0, 1), (0, np.nan)),
    (("a", "b"), (0, 1)),
    ((0, "b"), (0, 1)),
    ("ab", "cd"),
    ("ba", "cd"),
]
for i, (M, tau) in enumerate(bound_args):
    rec(f"Bounds[{i}]", lambda M=M, tau=tau: repr(Bounds(M, tau)))
    rec(f"Bounds[{i}].kw", lambda M=M, tau=tau: repr(Bounds(tau=tau, M=M)))
    rec(f"Bounds[{i}].fit_bounds", lambda M=M, tau=tau: Bounds(M, tau).fit_bounds())


def exc_message(M, tau):
    try:
        Bounds(M, tau)
    except Exception as e:  # noqa: BLE001
        return f"{type(e).__name__}:{e}"
    return "ok"


for i, (M, tau) in enumerate(bound_args):
    out.append(f"Bounds[{i}].msg {exc_message(M, tau)}")

rec("Bounds.eq", lambda: Bounds((0, 1), (2, 3)) == Bounds((0, 1), (2, 3)))
rec("Bounds.ne", lambda: Bounds((0, 1), (2, 3)) == Bounds((0, 1), (2, 4)))
rec("Bounds.hash", lambda: hash(Bounds((0, 1), (2, 3))) == hash(Bounds((0, 1), (2, 3))))


def frozen():
    b = Bounds((0, 1), (2, 3))
    b.M = (1, 2)


rec("Bounds.frozen", frozen)
rec("default_bounds", lambda: repr(fmod._default_bounds))

guesses = [
    [0.5, 2.5],
    [-1.0, 2.5],
    [5.0, 2.5],
    [0.5, 1.0],
    [0.5, 9.0],
    [-1.0, 1.0],
    [5.0, 9.0],
    [0.0, 2.0],
    [1.0, 3.0],
    [0.5],
    [-3.0],
    [7.0],
    [0.5, 2.5, 99.0],
    [5.0, 9.0, 99.0],
    [],
    [np.nan, np.nan],
    [np.float64(7.0), np.float64(0.1)],
    [3, 7],
    [inf, inf],
    [-inf, -inf],
    [1.8e308 / 1.01, 1.75e308],
    [inf],
]
bounds_objs = [
    Bounds((0, 1), (2, 3)),
    Bounds((0, inf), (1e-10, inf)),
    Bounds((-inf, inf), (-inf, inf)),
    Bounds((0.1, 0.7), (1e-3, 1e3)),
    Bounds((-inf, 4.0), (-inf, 8.0)),
    Bounds([1, 4], [2, 8]),
    Bounds((1e308, 1.7e308), (1e308, 1.7e308)),
]
for ib, b in enumerate(bounds_objs):
    for ig, g in enumerate(guesses):

        def run(b=b, g=g):
            g2 = list(g)
            res = b.regularize_initial_guess(g2)
            return (res, g2, res is g2)

        rec(f"regularize[{ib}][{ig}]", run)
rec("regularize.tuple", lambda: Bounds((0, 1), (2, 3)).regularize_initial_guess((5.0, 9.0)))
rec("regularize.tuple_ok", lambda: Bounds((0, 1), (2, 3)).regularize_initial_guess((0.5, 2.5)))
rec(
    "regularize.array",
    lambda: Bounds((0, 1), (2, 3)).regularize_initial_guess(np.array([5.0, 9.0])),
)
rec("regularize.none", lambda: Bounds((0, 1), (2, 3)).regularize_initial_guess(None))

# ---------------------------------------------------------------- rf curves
t_end = 6.0
nt = 400
time_scaled = np.linspace(0, np.sqrt(t_end), nt) ** 2
reservoir = IdealReservoir(30, 500.0, 5000.0, None)
reservoir.simulate(time_scaled)
reservoir.recovery_factor()
rf_ideal = reservoir.recovery_factor_interpolator()


def rf_exp(t):
    return 1 - np.exp(-np.sqrt(t))


tab_t = np.linspace(0, 10, 60)
rf_tab = interp1d(tab_t, 1 - np.exp(-tab_t), bounds_error=False, fill_value=(0.0, 1.0))
rf_strict = interp1d(tab_t, 1 - np.exp(-tab_t))


def rf_raises_runtime(t):
    raise RuntimeError("boom")


def rf_raises_notimpl(t):
    raise NotImplementedError("boom")


def rf_raises_value(t):
    raise ValueError("boom")


class CurveError(ValueError):
    """A more specific error a user's curve might raise."""


def rf_raises_sub(t):
    raise CurveError("boom")


def rf_raises_zero(t):
    raise ZeroDivisionError("boom")


def rf_flat(t):
    return np.zeros_like(np.asarray(t, dtype=float))


def rf_nan(t):
    return np.full_like(np.asarray(t, dtype=float), np.nan)


curves = {
    "ideal": rf_ideal,
    "exp": rf_exp,
    "tab": rf_tab,
    "strict": rf_strict,
}

# ---------------------------------------------------------------- _forecast_cum_onephase
times = {
    "arr": np.linspace(0.0, 5.0, 7),
    "int": np.arange(0, 6),
    "len1": np.array([1.5]),
    "len2": np.array([0.0, 2.5]),
    "empty": np.array([]),
    "scalar": 2.0,
    "npscalar": np.float64(2.0),
    "zero": 0.0,
    "2d": np.linspace(0.0, 5.0, 6).reshape(2, 3),
    "list": [0.0, 1.0, 2.0],
    "tuple": (0.0, 1.0),
    "neg": np.array([-1.0, 0.0, 1.0]),
    "big": np.array([0.0, 50.0, 500.0]),
    "nan": np.array([0.0, np.nan]),
    "str": "abc",
    "none": None,
}
Mtaus = [(300.0, 3.0), (1.0, 1.0), (0.0, 2.0), (2, 4), (-5.0, 0.5), (10.0, 0.0), (10.0, -1.0),
         (np.float64(12.5), np.float64(7.25)), (10.0, inf), (inf, 1.0), (np.nan, 1.0)]
for cn, c in curves.items():
    for tn, t in times.items():
        for M, tau in Mtaus:
            rec(
                f"_onephase[{cn}][{tn}][{M},{tau}]",
                lambda c=c, t=t, M=M, tau=tau: fmod._forecast_cum_onephase(c, t, M, tau),
            )
            rec(
                f"forecast_cum[{cn}][{tn}][{M},{tau}]",
                lambda c=c, t=t, M=M, tau=tau: ForecasterOnePhase(c).forecast_cum(t, M, tau),
            )
            rec(
                f"forecast_cum.kw[{cn}][{tn}][{M},{tau}]",
                lambda c=c, t=t, M=M, tau=tau: ForecasterOnePhase(c).forecast_cum(
                    time_on_production=t, tau=tau, M=M
                ),
            )

# unfitted forecaster: missing M_ / tau_
rec("forecast_cum.unfitted", lambda: ForecasterOnePhase(rf_exp).forecast_cum(times["arr"]))
rec("forecast_cum.unfitted.M", lambda: ForecasterOnePhase(rf_exp).forecast_cum(times["arr"], M=2.0))
rec(
    "forecast_cum.unfitted.tau",
    lambda: ForecasterOnePhase(rf_exp).forecast_cum(times["arr"], tau=2.0),
)


def unfitted_message(**kw):
    try:
        ForecasterOnePhase(rf_exp).forecast_cum(times["arr"], **kw)
    except Exception as e:  # noqa: BLE001
        return f"{type(e).__name__}:{e}"
    return "ok"


out.append("unfitted.msg " + unfitted_message())
out.append("unfitted.msg.M " + unfitted_message(M=1.0))
out.append("unfitted.msg.tau " + unfitted_message(tau=1.0))
rec("forecast_cum.noargs", lambda: ForecasterOnePhase(rf_exp).forecast_cum())
rec("forecast_cum.extra", lambda: ForecasterOnePhase(rf_exp).forecast_cum(times["arr"], 1.0, 2.0, 3.0))
rec("forecast_cum.badkw", lambda: ForecasterOnePhase(rf_exp).forecast_cum(times["arr"], foo=1))
rec("forecast_cum.notcallable", lambda: ForecasterOnePhase(3.0).forecast_cum(times["arr"], 1.0, 2.0))
rec("ctor.noargs", lambda: ForecasterOnePhase())
rec("ctor.extra", lambda: ForecasterOnePhase(rf_exp, fmod._default_bounds, 3, 4, 5, 6))
rec("ctor.repr", lambda: repr(ForecasterOnePhase(3.0)))
rec("ctor.repr2", lambda: repr(ForecasterOnePhase(3.0, Bounds((0, 1), (2, 3)))))
rec("ctor.eq", lambda: ForecasterOnePhase(rf_exp) == ForecasterOnePhase(rf_exp))
rec("ctor.ne", lambda: ForecasterOnePhase(rf_exp) == ForecasterOnePhase(rf_tab))
rec("ctor.bounds_is_default", lambda: ForecasterOnePhase(rf_exp).bounds is fmod._default_bounds)
rec("ctor.kw", lambda: ForecasterOnePhase(bounds=Bounds((0, 1), (2, 3)), rf_curve=rf_exp).bounds.M)


# ---------------------------------------------------------------- fit
def do_fit(curve, t, cum, tau=None, bounds=None, how="pos"):
    fc = ForecasterOnePhase(curve) if bounds is None else ForecasterOnePhase(curve, bounds)
    t_in = t.copy() if isinstance(t, np.ndarray) else t
    cum_in = cum.copy() if isinstance(cum, np.ndarray) else cum
    if how == "pos":
        ret = fc.fit(t_in, cum_in) if tau is None else fc.fit(t_in, cum_in, tau)
    else:
        ret = fc.fit(time_on_production=t_in, cum_production=cum_in, tau=tau)
    t_future = np.linspace(0.0, 12.0, 9)
    return (
        ret,
        fc.M_,
        fc.tau_,
        fc.time_on_production is t_in,
        fc.cum_production is cum_in,
        fc.forecast_cum(t_future),
        fc.forecast_cum(t_future, M=2.0),
        fc.forecast_cum(t_future, tau=2.0),
        fc.forecast_cum(t_future, 5.0, 2.0),
        np.asarray(t_in, dtype=float) if not isinstance(t_in, str) else t_in,
        np.asarray(cum_in, dtype=float),
        repr(fc.bounds),
    )


rng = np.random.default_rng(1234)
t_fit = time_scaled[1:]
data = {}
for cn in ("ideal", "exp", "tab"):
    c = curves[cn]
    data[cn] = 300.0 * c(t_fit / 3.0)
    data[cn + ".noisy"] = data[cn] * (1 + 0.02 * rng.standard_normal(len(t_fit)))

fit_bounds = [
    None,
    Bounds((0, 1000.0), (0.1, 10.0)),
    Bounds((400.0, 1000.0), (4.0, 10.0)),
    Bounds((0, 100.0), (0.1, 1.0)),
    Bounds((0, 1000.0), (40.0, 100.0)),
    Bounds((700.0, 1000.0), (0.1, 10.0)),
    Bounds((0, inf), (1e-10, 20.0)),
    Bounds((-inf, inf), (-inf, inf)),
    Bounds((-inf, 1e4), (1e-3, inf)),
]
for cn in ("ideal", "exp", "tab"):
    c = curves[cn]
    for dn in (cn, cn + ".noisy"):
        for ib, b in enumerate(fit_bounds):
            if cn == "ideal" and ib == 7:
                continue
            for tau in (None, 3.0, 1.0, 4):
                for how in ("pos", "kw"):
                    rec(
                        f"fit[{cn}][{dn}][b{ib}][tau={tau}][{how}]",
                        lambda c=c, dn=dn, b=b, tau=tau, how=how: do_fit(
                            c, t_fit, data[dn], tau, b, how
                        ),
                    )

# short / degenerate grids
short = {
    "len1": (np.array([2.0]), np.array([100.0])),
    "len2": (np.array([1.0, 2.0]), np.array([60.0, 100.0])),
    "len3": (np.array([1.0, 2.0, 4.0]), np.array([60.0, 100.0, 150.0])),
    "empty": (np.array([]), np.array([])),
    "mismatch": (np.array([1.0, 2.0, 3.0]), np.array([60.0, 100.0])),
    "broadcast": (np.array([1.0, 2.0, 3.0]), np.array([100.0])),
    "lists": ([1.0, 2.0, 4.0], [60.0, 100.0, 150.0]),
    "tuples": ((1.0, 2.0, 4.0), (60.0, 100.0, 150.0)),
    "ints": (np.array([1, 2, 4]), np.array([60, 100, 150])),
    "nan_t": (np.array([1.0, np.nan, 4.0]), np.array([60.0, 100.0, 150.0])),
    "nan_c": (np.array([1.0, 2.0, 4.0]), np.array([60.0, np.nan, 150.0])),
    "inf_c": (np.array([1.0, 2.0, 4.0]), np.array([60.0, 100.0, inf])),
    "zero_end": (np.array([1.0, 2.0, 0.0]), np.array([60.0, 100.0, 0.0])),
    "neg_cum": (np.array([1.0, 2.0, 4.0]), np.array([-60.0, -100.0, -150.0])),
    "scalar": (2.0, 100.0),
    "none": (None, None),
    "2d": (np.ones((2, 2)), np.ones((2, 2))),
    "str": ("abc", np.array([1.0, 2.0, 3.0])),
}
for sn, (t, cum) in short.items():
    for tau in (None, 3.0):
        for cn in ("exp", "tab", "strict"):
            for ib, b in enumerate(fit_bounds[:3] + fit_bounds[7:8]):
                rec(
                    f"fit.short[{sn}][{cn}][b{ib}][tau={tau}]",
                    lambda cn=cn, t=t, cum=cum, tau=tau, b=b: do_fit(curves[cn], t, cum, tau, b),
                )

# callbacks that raise or produce garbage
for name, c in (
    ("runtime", rf_raises_runtime),
    ("notimpl", rf_raises_notimpl),
    ("value", rf_raises_value),
    ("zero", rf_raises_zero),
    ("sub", rf_raises_sub),
    ("flat", rf_flat),
    ("nan", rf_nan),
    ("notcallable", 3.0),
):
    for tau in (None, 3.0):
        for ib, b in enumerate((None, fit_bounds[7])):
            rec(
                f"fit.bad[{name}][b{ib}][tau={tau}]",
                lambda c=c, tau=tau, b=b: do_fit(c, t_fit, data["exp"], tau, b),
            )


# hard problems: convergence failures should reach the caller unchanged
def rf_wiggle(t):
    return np.sin(50 * np.asarray(t, dtype=float)) ** 2


wig = 10 * rf_wiggle(t_fit / 0.37) + rng.standard_normal(len(t_fit))
for tau in (None, 3.0):
    for ib, b in enumerate(fit_bounds):
        rec(
            f"fit.wiggle[b{ib}][tau={tau}]",
            lambda tau=tau, b=b: do_fit(rf_wiggle, t_fit, wig, tau, b),
        )


FIT_ATTRS = ("M_", "tau_", "time_on_production", "cum_production")


def failed_fit_state(curve, t, cum, b=None):
    fc = ForecasterOnePhase(curve) if b is None else ForecasterOnePhase(curve, b)
    try:
        fc.fit(t, cum)
    except Exception as e:  # noqa: BLE001
        return (type(e).__name__, [hasattr(fc, a) for a in FIT_ATTRS])
    return ("ok", [hasattr(fc, a) for a in FIT_ATTRS])


rec("fit.failed_state.runtime", lambda: failed_fit_state(rf_raises_runtime, t_fit, data["exp"]))
rec("fit.failed_state.nan", lambda: failed_fit_state(rf_nan, t_fit, data["exp"]))
rec("fit.failed_state.lm", lambda: failed_fit_state(rf_nan, t_fit, data["exp"], fit_bounds[7]))
rec("fit.failed_state.ok", lambda: failed_fit_state(rf_exp, t_fit, data["exp"]))
rec("fit.noargs", lambda: ForecasterOnePhase(rf_exp).fit())
rec("fit.onearg", lambda: ForecasterOnePhase(rf_exp).fit(t_fit))
rec("fit.extra", lambda: ForecasterOnePhase(rf_exp).fit(t_fit, data["exp"], 3.0, 4.0))
rec("fit.badkw", lambda: ForecasterOnePhase(rf_exp).fit(t_fit, data["exp"], foo=4.0))


# refit re-uses the object; warnings filters must be left alone
def refit():
    fc = ForecasterOnePhase(rf_exp)
    fc.fit(t_fit, data["exp"])
    first = (fc.M_, fc.tau_)
    fc.fit(t_fit, data["exp.noisy"], 2.5)
    second = (fc.M_, fc.tau_)
    fc.fit(t_fit[:50], data["exp"][:50])
    return (first, second, fc.M_, fc.tau_, len(fc.time_on_production))


rec("fit.refit", refit)
nfilters = len(warnings.filters)
rec("fit.filters", lambda: (do_fit(rf_exp, t_fit, data["exp"])[1], len(warnings.filters) == nfilters))

with open(sys.argv[1], "w") as f:
    f.write("\n".join(out) + "\n")
