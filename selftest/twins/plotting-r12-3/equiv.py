"""Equivalence driver for bluebonnet.plotting.SquareRootScale and its two transforms.

usage: PYTHONPATH=<tree>/src /venv/bin/python equiv.py <outfile>
"""

from __future__ import annotations

import hashlib
import os
import sys
import warnings

import matplotlib

matplotlib.use("Agg")

import matplotlib.pyplot as plt
import matplotlib.scale  # noqa: F401
import numpy as np
import pandas as pd

from bluebonnet import plotting
from bluebonnet.flow import FlowProperties, IdealReservoir, SinglePhaseReservoir
from bluebonnet.plotting import (
    plot_pseudopressure,
    plot_recovery_factor,
    plot_recovery_rate,
)

DATA = os.environ.get("BB_DATA", "/tmp/twin12_plotting/tests/data")
OUT = []


def emit(tag, value):
    OUT.append(f"{tag} :: {value}")


def fmt(a):
    """Full-precision dump of anything array-like."""
    try:
        arr = np.asarray(a)
    except Exception as e:  # noqa: BLE001
        return f"<unconvertible {type(e).__name__}>"
    if arr.dtype == object:
        return repr(arr.tolist())
    flat = arr.ravel()
    return f"{arr.dtype}{arr.shape}[" + ",".join(repr(v.item()) for v in flat) + "]"


def safe(tag, thunk):
    try:
        emit(tag, thunk())
    except Exception as e:  # noqa: BLE001
        emit(tag, f"EXC {type(e).__name__}: {e}")


def dump_axes(tag, ax):
    fig = ax.figure
    emit(tag + ".nlines", len(ax.lines))
    for k, line in enumerate(ax.lines):
        emit(f"{tag}.line{k}.x", fmt(line.get_xdata(orig=True)))
        emit(f"{tag}.line{k}.y", fmt(line.get_ydata(orig=True)))
        emit(
            f"{tag}.line{k}.props",
            (
                line.get_color(),
                line.get_label(),
                line.get_linestyle(),
                line.get_linewidth(),
                line.get_marker(),
                line.get_alpha(),
                line.get_zorder(),
            ),
        )
    safe(tag + ".xlim", lambda: fmt(ax.get_xlim()))
    safe(tag + ".ylim", lambda: fmt(ax.get_ylim()))
    safe(tag + ".scales", lambda: (ax.get_xscale(), ax.get_yscale()))
    safe(tag + ".labels", lambda: (ax.get_xlabel(), ax.get_ylabel(), ax.get_title()))
    safe(tag + ".xticks", lambda: fmt(ax.get_xticks()))
    safe(tag + ".yticks", lambda: fmt(ax.get_yticks()))
    safe(tag + ".xticklabels", lambda: [t.get_text() for t in ax.get_xticklabels()])
    safe(tag + ".xlocator", lambda: type(ax.xaxis.get_major_locator()).__name__)
    safe(tag + ".xtransform", lambda: type(ax.xaxis.get_transform()).__name__)
    safe(tag + ".legend", lambda: ax.get_legend_handles_labels()[1])
    fig.set_size_inches(4, 3)
    fig.set_dpi(60)

    def render():
        with warnings.catch_warnings():
            warnings.simplefilter("ignore")
            fig.canvas.draw()
        buf = np.asarray(fig.canvas.buffer_rgba())
        return hashlib.sha256(buf.tobytes()).hexdigest()

    safe(tag + ".render", render)


def run(tag, func, *args, **kwargs):
    """Call a plot function, dump the axes (or the exception) and the warnings."""
    before = len(plt.get_fignums())
    with warnings.catch_warnings(record=True) as caught:
        warnings.simplefilter("always")
        try:
            ax = func(*args, **kwargs)
        except Exception as e:  # noqa: BLE001
            emit(tag + ".EXC", f"{type(e).__name__}: {e}")
            ax = None
        wlist = [(w.category.__name__, str(w.message)) for w in caught]
    emit(tag + ".warnings", wlist)
    emit(tag + ".newfigs", len(plt.get_fignums()) - before)
    if ax is not None:
        emit(tag + ".rettype", type(ax).__name__)
        given = kwargs.get("ax", None)
        if given is None:
            given = next((a for a in args if isinstance(a, plt.Axes)), None)
        if given is not None:
            emit(tag + ".same_ax", ax is given)
        dump_axes(tag, ax)
    else:
        # partially drawn axes that were passed in are still observable
        given = kwargs.get("ax", None)
        if given is None:
            given = next((a for a in args if isinstance(a, plt.Axes)), None)
        if given is not None:
            dump_axes(tag + ".partial", given)
    plt.close("all")


def build_reservoirs():
    res = {}
    ideal = IdealReservoir(20, 100.0, 2000.0)
    ideal.simulate(np.linspace(0, np.sqrt(3.0), 120) ** 2)
    res["ideal"] = ideal

    ren = {
        "P": "pressure",
        "Z-Factor": "z-factor",
        "Cg": "compressibility",
        "Viscosity": "viscosity",
        "Density": "density",
    }
    pvt = pd.read_csv(os.path.join(DATA, "pvt_gas.csv")).rename(columns=ren)
    fluid = FlowProperties(pvt, 2000.0)
    sp = SinglePhaseReservoir(30, pressure_fracface=100.0, pressure_initial=2000.0, fluid=fluid)
    sp.simulate(np.linspace(0, np.sqrt(11.0), 300) ** 2)
    res["gas"] = sp

    sp2 = SinglePhaseReservoir(16, pressure_fracface=500.0, pressure_initial=2000.0, fluid=fluid)
    t2 = np.linspace(0, 1.2, 90) ** 2
    sp2.simulate(t2, pressure_fracface=np.linspace(1500.0, 300.0, 90))
    res["gas_varpf"] = sp2

    short = IdealReservoir(8, 10.0, 50.0)
    short.simulate(np.array([0.0, 1e-3, 4e-3, 0.02, 0.1, 0.5, 0.9]))
    res["short"] = short
    return res


class ArrayLike:
    """Only convertible through __array__ (records how it was asked)."""

    def __init__(self, values):
        self.values = np.array(values, dtype=float)
        self.requests = []

    def __array__(self, dtype=None, copy=None):
        self.requests.append("asked")
        return self.values.copy()


def call(tag, func, *args):
    with warnings.catch_warnings(record=True) as caught:
        warnings.simplefilter("always")
        try:
            out = func(*args)
            if isinstance(out, np.ma.MaskedArray):
                emit(tag, ("masked", fmt(out.filled(-999.0)), fmt(np.ma.getmaskarray(out))))
            else:
                emit(tag, (type(out).__name__, fmt(out)))
        except Exception as e:  # noqa: BLE001
            out = None
            emit(tag + ".EXC", f"{type(e).__name__}: {e}")
        emit(tag + ".warnings", [(w.category.__name__, str(w.message)) for w in caught])
    return out


def inputs():
    rng = np.random.default_rng(3)
    big = rng.uniform(0, 50, 200)
    arr = np.array([0.0, 0.25, 1.0, 2.0, 9.0, 1e-300, 1e300])
    ro = arr.copy()
    ro.setflags(write=False)
    return {
        "pyfloat": 4.0,
        "pyint": 9,
        "pybool": True,
        "npfloat": np.float64(2.0),
        "npfloat32": np.float32(2.0),
        "npint": np.int64(16),
        "zero_d": np.array(6.25),
        "neg_scalar": -4.0,
        "nan_scalar": float("nan"),
        "inf_scalar": float("inf"),
        "list": [0.0, 1.0, 4.0, 2.0],
        "tuple": (0.5, 2.5),
        "nested": [[1.0], [4.0], [10.0]],
        "empty_list": [],
        "arr": arr,
        "readonly": ro,
        "big": big,
        "int_arr": np.arange(6),
        "uint8": np.arange(6, dtype=np.uint8),
        "bool_arr": np.array([True, False]),
        "float32": np.linspace(0, 3, 7, dtype=np.float32),
        "float16": np.linspace(0, 3, 7).astype(np.float16),
        "complex": np.array([1 + 1j, -4 + 0j]),
        "neg_arr": np.array([-1.0, 4.0, -0.0]),
        "nan_arr": np.array([np.nan, 1.0, np.inf, -np.inf]),
        "col": np.linspace(0, 9, 5).reshape(-1, 1),
        "mat2d": np.linspace(0, 9, 6).reshape(3, 2),
        "fortran": np.asfortranarray(np.linspace(0, 9, 6).reshape(3, 2)),
        "strided": np.linspace(0, 9, 12)[::3],
        "empty": np.array([]),
        "masked": np.ma.masked_greater(np.array([1.0, 4.0, 9.0, 16.0]), 5.0),
        "masked_neg": np.ma.masked_less(np.array([-1.0, 4.0, 9.0]), 0.0),
        "matrix": np.matrix([[1.0, 4.0], [9.0, 16.0]]),
        "series": pd.Series([1.0, 4.0, 9.0]),
        "series_shuffled": pd.Series([1.0, 4.0, 9.0], index=[2, 0, 1]),
        "series_dup": pd.Series([1.0, 4.0, 9.0], index=[0, 0, 1]),
        "series_str": pd.Series([1.0, 4.0, 9.0], index=list("zyx")),
        "series_int": pd.Series([1, 4, 9], index=[9, 8, 7]),
        "dataframe": pd.DataFrame({"a": [1.0, 4.0], "b": [9.0, 16.0]}, index=["q", "p"]),
        "index": pd.Index([1.0, 4.0]),
        "arraylike": ArrayLike([1.0, 4.0, 2.0]),
        "object_arr": np.array([1.0, 4, None], dtype=object),
        "object_ok": np.array([1.0, 4], dtype=object),
        "str": "abc",
        "str_list": ["1.0", "2.0"],
        "none": None,
        "ragged": [[1.0, 2.0], [3.0]],
        "dict": {"a": 1.0},
        "range": range(5),
        "generator_free_set": {4.0},
    }


def snapshot(v):
    if isinstance(v, (np.ndarray, pd.Series, pd.DataFrame, pd.Index)):
        return v.copy()
    return None


def same(a, b):
    if isinstance(a, np.ma.MaskedArray):
        return bool(np.array_equal(a.filled(0), b.filled(0)) and np.array_equal(np.ma.getmaskarray(a), np.ma.getmaskarray(b)))
    if isinstance(a, np.ndarray):
        return bool(a.dtype == b.dtype and a.shape == b.shape and (a.tobytes() == b.tobytes() if a.dtype != object else True))
    return bool(a.equals(b))


def main(outfile):
    Scale = plotting.SquareRootScale
    fwd = Scale.SquareRootTransform()
    inv = Scale.InvertedSquareRootTransform()

    emit("class.attrs", (Scale.name, fwd.input_dims, fwd.output_dims, fwd.is_separable, fwd.has_inverse,
                         inv.input_dims, inv.output_dims, inv.is_separable, inv.has_inverse, fwd.is_affine, inv.is_affine))
    emit("inverted.types", (type(fwd.inverted()).__name__, type(inv.inverted()).__name__,
                            type(fwd.inverted().inverted()).__name__))

    for name, v in inputs().items():
        snap = snapshot(v)
        out = call(f"fwd.tna[{name}]", fwd.transform_non_affine, v)
        if isinstance(out, np.ndarray) and isinstance(v, np.ndarray):
            emit(f"fwd.tna[{name}].aliases_input", bool(np.shares_memory(out, v)))
        call(f"fwd.transform[{name}]", fwd.transform, v)
        call(f"fwd.transform_affine[{name}]", fwd.transform_affine, v)
        out = call(f"inv.transform[{name}]", inv.transform, v)
        if isinstance(out, np.ndarray) and isinstance(v, np.ndarray):
            emit(f"inv.transform[{name}].aliases_input", bool(np.shares_memory(out, v)))
        call(f"inv.tna[{name}]", inv.transform_non_affine, v)
        call(f"roundtrip[{name}]", lambda x: inv.transform(fwd.transform_non_affine(x)), v)
        call(f"roundtrip2[{name}]", lambda x: fwd.inverted().transform(inv.inverted().transform_non_affine(x)), v)
        if snap is not None:
            emit(f"untouched[{name}]", same(snap, v))
        if isinstance(v, ArrayLike):
            emit(f"arraylike.requests[{name}]", len(v.requests))

    # outputs must be fresh, writable arrays (matplotlib may write into them)
    a = np.linspace(0, 4, 5)
    for tname, f in (("fwd", fwd.transform_non_affine), ("inv", inv.transform)):
        out = f(a)
        emit(f"fresh[{tname}]", (out.flags.writeable, out.flags.owndata, bool(np.shares_memory(out, a)), out.dtype.name))
        out[...] = -1.0
        emit(f"fresh[{tname}].input_after_write", fmt(a))

    # composite transforms, as matplotlib uses them
    comp = fwd + inv
    call("composite.fwd+inv", comp.transform, np.array([0.0, 2.0, 7.0]))
    comp2 = inv + fwd
    call("composite.inv+fwd", comp2.transform, np.array([0.0, 2.0, 7.0]))
    call("transform_point.fwd", fwd.transform_point, [9.0])
    call("transform_point.inv", inv.transform_point, [3.0])

    # the scale object on real axes
    fig, ax = plt.subplots()
    sc = Scale(ax.xaxis)
    emit("scale.limit_range", [sc.limit_range_for_scale(*lims, 1e-300) for lims in
                               [(-1.0, 2.0), (0.0, 0.0), (3.0, 1.0), (-5.0, -1.0), (np.float64(-0.0), 4)]])
    emit("scale.get_transform", type(sc.get_transform()).__name__)
    call("scale.bad_kwargs", lambda: Scale(ax.xaxis, nonsense=1))
    plt.close("all")

    res = build_reservoirs()
    for name, r in res.items():
        for ticks in (False, True):
            fig, ax = plt.subplots()
            run(f"rf[{name},ticks={ticks}]", plot_recovery_factor, r, ax, ticks)
    x = np.linspace(0, 25, 40)
    variants = {
        "both": ("squareroot", "squareroot"),
        "xonly": ("squareroot", "linear"),
        "yonly": ("log", "squareroot"),
    }
    for vname, (xs, ys) in variants.items():
        fig, ax = plt.subplots()
        ax.plot(x, x ** 2 / 10.0, "o-")
        ax.plot(pd.Series(x, index=x[::-1]), np.sqrt(x))
        ax.fill_between(x, 0.5 * x, x)
        ax.scatter(x[::4], x[::4] + 1.0)

        def setter(ax=ax, xs=xs, ys=ys):
            ax.set(xscale=xs, yscale=ys)
            ax.set_xlim(0.01, 30)
            return ax

        run(f"axes[{vname}]", setter)
        # data <-> display round trips through the registered scale
        safe(f"axes[{vname}].transData", lambda ax=ax: fmt(ax.transData.transform(np.array([[1.0, 1.0], [4.0, 9.0], [16.0, 2.0]]))))
        safe(
            f"axes[{vname}].transData.inv",
            lambda ax=ax: fmt(ax.transData.inverted().transform(np.array([[100.0, 100.0], [150.0, 60.0]]))),
        )
        plt.close("all")
    # negative data on a square-root axis
    fig, ax = plt.subplots()
    ax.plot(np.linspace(-4, 4, 9), np.linspace(-4, 4, 9) ** 2)
    run("axes[negative]", lambda ax=ax: (ax.set_xscale("squareroot"), ax)[1])

    emit("module.public", sorted(n for n in dir(plotting) if not n.startswith("_")))
    emit("registered", "squareroot" in matplotlib.scale.get_scale_names())

    with open(outfile, "w") as f:
        f.write("\n".join(OUT) + "\n")


if __name__ == "__main__":
    main(sys.argv[1])
