"""Equivalence driver for twin1: b_water_McCain / b_water_McCain_dp (and callers)."""
from __future__ import annotations

import os
import sys
import warnings

import numpy as np
import pandas as pd

warnings.simplefilter("ignore")

from bluebonnet.fluids import water
from bluebonnet.fluids.fluid import Fluid

BB_DATA = os.environ.get("BB_DATA", "/tmp/twin_waterfluid/tests/data")


def show(x):
    if isinstance(x, np.ndarray):
        return f"ndarray{x.shape}{x.dtype}[" + ",".join(show(v) for v in x.ravel().tolist()) + "]"
    if isinstance(x, (pd.Series,)):
        return "Series:" + show(x.to_numpy())
    if isinstance(x, (list, tuple)):
        return type(x).__name__ + "(" + ",".join(show(v) for v in x) + ")"
    return f"{type(x).__name__}:{x!r}"


def call(out, label, f, *a, **k):
    try:
        r = show(f(*a, **k))
    except BaseException as e:  # noqa: BLE001
        r = "EXC " + type(e).__name__
    out.append(f"{label} -> {r}")


def main(outfile):
    out = []
    temps = [0, 0.0, 32, 60.0, 200, 212.5, 400, -40.0, 1e6, 1e200, np.float64(150.0),
             np.float32(150.0), float("nan"), float("inf"), True, 3 + 2j, None, "hot",
             np.array([100.0, 200.0]), np.int64(300), 10**400]
    press = [0, 14.7, 3000, 4000.0, -500.0, 1e5, 1e160, 1e200, np.float64(2500.0),
             np.array([0.0, 10.0, 1000.0, 5000.0, 15000.0]), np.array([100, 2000, 30000]),
             np.linspace(0, 14000, 29), np.array([]), np.array([[1.0, 2.0], [3.0, 4.0]]),
             np.array([1e160, 1e200]), float("nan"), float("-inf"), [1000.0, 2000.0], None, "p",
             pd.Series([100.0, 2500.0]), 10**200, np.array([np.nan, 1.0])]
    for i, t in enumerate(temps):
        for j, p in enumerate(press):
            call(out, f"b_w[{i},{j}]", water.b_water_McCain, t, p)
            call(out, f"b_w_dp[{i},{j}]", water.b_water_McCain_dp, t, p)
            call(out, f"rho_w[{i},{j}]", water.density_water_McCain, t, p, 15)
    call(out, "b_w kw", water.b_water_McCain, temperature=200, pressure=4000)
    call(out, "b_w_dp kw", water.b_water_McCain_dp, pressure=4000, temperature=200)
    call(out, "b_w missing", water.b_water_McCain, 200)
    call(out, "b_w_dp missing", water.b_water_McCain_dp, 200)
    # data table
    df = pd.read_csv(os.path.join(BB_DATA, "pvt_water.csv"))
    call(out, "table b_w", water.b_water_McCain, 200, df["P"].to_numpy())
    call(out, "table b_w_dp", water.b_water_McCain_dp, 200, df["P"].to_numpy())
    call(out, "table b_w T-array", water.b_water_McCain, df["T"].to_numpy(), df["P"].to_numpy())
    # Fluid wrapper
    for t in [60, 200.0, 400, np.float64(250.0), "x", None]:
        fl = Fluid(t, 35, 0.8, 650, salinity=5.0)
        for p in [np.array([100.0, 3000.0]), [50, 7000], np.array([]), 3000.0, df["P"].to_numpy()[:50]]:
            call(out, f"Fluid({t!r}).water_FVF", fl.water_FVF, p)
    with open(outfile, "w") as fh:
        fh.write("\n".join(out) + "\n")


if __name__ == "__main__":
    main(sys.argv[1])
