"""Equivalence driver for twin3 (keyword-only undersat_method= switch in oil_compressibility_Standing)."""

from __future__ import annotations

import sys
import warnings

import numpy as np

warnings.simplefilter("ignore")
np.seterr(all="ignore")

from bluebonnet.fluids import oil  # noqa: E402
from bluebonnet.fluids.fluid import Fluid  # noqa: E402


def fmt(x):
    if isinstance(x, np.ndarray):
        return f"ndarray{x.shape}{x.dtype}[" + ",".join(fmt(v) for v in x.ravel().tolist()) + "]"
    if isinstance(x, (list, tuple)):
        return type(x).__name__ + "[" + ",".join(fmt(v) for v in x) + "]"
    if isinstance(x, (float, np.floating)):
        return type(x).__name__ + ":" + repr(float(x))
    if isinstance(x, complex):
        return "complex:" + repr(x)
    return type(x).__name__ + ":" + repr(x)


LINES = []


def record(label, fn, *args, **kwargs):
    try:
        out = fmt(fn(*args, **kwargs))
    except Exception as e:  # noqa: BLE001
        out = "EXC:" + type(e).__name__
    LINES.append(f"{label} -> {out}")


from bluebonnet.fluids.gas import (  # noqa: E402
    make_nonhydrocarbon_properties,
    pseudocritical_point_Sutton,
)

fluids = [
    (200.0, 35.0, 0.8, 650.0),
    (200, 35, 0.8, 650),
    (150.0, 25.0, 0.65, 300.0),
    (250.0, 45.0, 1.1, 1500.0),
    (100.0, 10.0, 0.6, 50.0),
    (300.0, 55.0, 0.9, 2500.0),
    (np.float64(180.0), np.float64(30.0), np.float64(0.75), np.float64(500.0)),
    (200.0, 35.0, 0.8, 0.0),
    (200.0, 35.0, 0.8, -650.0),
    (200.0, 35.0, 0.0, 650.0),
    (0.0, 0.0, 0.8, 650.0),
    (float("nan"), 35.0, 0.8, 650.0),
    (200.0, "35", 0.8, 650.0),
    (None, 35.0, 0.8, 650.0),
]
scalars = [14.7, 100.0, 500, 1000.0, 2000, 2627.2017021875276, 2627.3, 3000.0, 5000, 10000.0, 14000.0,
           0.0, -10.0, np.float64(1234.5), np.float64(4321.0), float("inf"), float("nan")]
odd = [np.array([1000.0, 3000.0]), np.array([4000.0]), np.array([]), np.array(2500.0), np.array(3500.0),
       [1000.0, 3000.0], "abc", None, 1 + 2j]
pcs = [(-72.2, 653.0), (-60.0, 640.0), (np.float64(-80.0), np.float64(660.0))]

for i, (t, api, sg, gor) in enumerate(fluids):
    try:
        pb = oil.pressure_bubblepoint_Standing(t, api, sg, gor)
        extra = [pb, np.nextafter(pb, 0.0), np.nextafter(pb, 1e9)] if not isinstance(pb, complex) else []
    except Exception:  # noqa: BLE001
        extra = []
    for p in [*scalars, *extra, *odd]:
        for k, (tpc, ppc) in enumerate(pcs):
            record(f"co[{i}] pc{k} p={p!r}", oil.oil_compressibility_Standing, t, p, api, sg, gor, tpc, ppc)
        record(f"co[{i}] std positional p={p!r}", oil.oil_compressibility_Standing, t, p, api, sg, gor, -72.2, 653.0, 59.0, 14.65)
        record(f"co[{i}] std kw p={p!r}", oil.oil_compressibility_Standing, t, p, api, sg, gor, -72.2, 653.0,
               pressure_standard=14.696, temperature_standard=68.0)
        # the two correlations that can be selected must themselves be unchanged
        record(f"co_sp[{i}] p={p!r}", oil.oil_compressibility_undersat_Spivey, t, p, api, sg, gor)
        record(f"co_st[{i}] p={p!r}", oil.oil_compressibility_undersat_Standing, t, p, api, sg, gor)

# pseudocritical point from the gas module, as the docstring suggests
for sg in (0.65, 0.8, 1.1):
    tpc, ppc = pseudocritical_point_Sutton(sg, make_nonhydrocarbon_properties(0.03, 0.012, 0.018), "dry gas")
    for p in (500.0, 2000.0, 2600.0, 2700.0, 6000.0):
        record(f"co sutton sg={sg} p={p}", oil.oil_compressibility_Standing, 200.0, p, 35.0, sg, 650.0, tpc, ppc)

record("co all kw", oil.oil_compressibility_Standing, temperature=200.0, pressure=3000.0, api_gravity=35.0,
       gas_specific_gravity=0.8, solution_gor_initial=650.0, temperature_pseudocritical=-72.2,
       pressure_pseudocritical=653.0)
record("co too few", oil.oil_compressibility_Standing, 200.0, 3000.0, 35.0, 0.8, 650.0, -72.2)
record("co too many positional", oil.oil_compressibility_Standing, 200.0, 3000.0, 35.0, 0.8, 650.0, -72.2, 653.0, 60, 14.7, "Spivey")
record("co unknown kw", oil.oil_compressibility_Standing, 200.0, 3000.0, 35.0, 0.8, 650.0, -72.2, 653.0, bogus=1)
record("co duplicate", oil.oil_compressibility_Standing, 200.0, 3000.0, 35.0, 0.8, 650.0, -72.2, 653.0, 60, temperature_standard=60)

with open(sys.argv[1], "w") as fh:
    fh.write("\n".join(LINES) + "\n")
