"""Equivalence driver: writes results of the touched API to <outfile>."""
from __future__ import annotations

import os
import sys
import warnings

import numpy as np
import pandas as pd

warnings.simplefilter("ignore")

DATA = os.environ.get("BB_DATA", "/tmp/twin8_flowproperties/tests/data")
LINES: list[str] = []


def fmt(obj):
    if isinstance(obj, pd.DataFrame):
        return "DataFrame{" + "; ".join(f"{c}={fmt(obj[c].to_numpy())}" for c in obj.columns) + "}"
    if isinstance(obj, pd.Series):
        return "Series" + fmt(obj.to_numpy())
    if isinstance(obj, np.ndarray):
        if obj.dtype.names:
            return "rec{" + "; ".join(f"{n}={fmt(obj[n])}" for n in obj.dtype.names) + "}"
        return f"arr[{obj.dtype},{obj.shape}]" + repr([fmt(v) for v in obj.ravel().tolist()])
    if isinstance(obj, (float, np.floating)):
        return repr(float(obj))
    if isinstance(obj, dict):
        return "{" + ", ".join(f"{k}: {fmt(v)}" for k, v in obj.items()) + "}"
    if isinstance(obj, (list, tuple)):
        return "[" + ", ".join(fmt(v) for v in obj) + "]"
    return repr(obj)


def record(label, thunk):
    try:
        out = fmt(thunk())
    except Exception as exc:  # noqa: BLE001
        out = "EXC " + type(exc).__name__
    LINES.append(f"{label} :: {out}")


def finish():
    with open(sys.argv[1], "w") as fh:
        fh.write("\n".join(LINES) + "\n")


def make_df_pvt(Sw=0.1):
    pvt_oil = pd.read_csv(os.path.join(DATA, "pvt_oil.csv"))
    pvt_water = pd.read_csv(os.path.join(DATA, "pvt_water.csv")).rename(
        columns={"T": "temperature", "P": "pressure", "Viscosity": "mu_w"}
    )
    rename_cols = {
        "T": "temperature",
        "P": "pressure",
        "Oil_Viscosity": "mu_o",
        "Gas_Viscosity": "mu_g",
        "Rso": "Rs",
    }
    df_pvt = (
        pvt_water.drop(columns=["temperature"])
        .merge(pvt_oil.rename(columns=rename_cols), on="pressure")
        .assign(Rv=0)
    )
    df_pvt["So"] = (1 - Sw) / (
        (df_pvt["Rs"].max() - df_pvt["Rs"]) * df_pvt["Bg"] / df_pvt["Bo"] / 5.61458 + 1
    )
    return df_pvt


def make_gas_table(name="pvt_gas.csv"):
    ren = {
        "P": "pressure",
        "Z-Factor": "z-factor",
        "Cg": "compressibility",
        "Viscosity": "viscosity",
        "Density": "density",
    }
    return pd.read_csv(os.path.join(DATA, name)).rename(columns=ren)


REF_DENS = {"rho_o0": 141.5 / (45 + 131.5), "rho_g0": 1.03e-3, "rho_w0": 1}


from scipy.interpolate import interp1d

from bluebonnet.flow.flowproperties import (
    FlowPropertiesTwoPhase,
    RelPermParams,
    lambda_combined_func,
    pseudopressure_threephase,
    relative_permeabilities_twophase,
    rescale_pseudopressure,
)

NEED = ["pseudopressure", "pressure", "Bo", "Bg", "Bw", "Rs", "Rv", "mu_o", "mu_g", "mu_w", "So"]


def build(df, df_kr, extrapolate=True):
    kw = {"fill_value": "extrapolate"} if extrapolate else {}
    pvt = {p: interp1d(df["pressure"], df[p], **kw) for p in NEED}
    pvt.update(REF_DENS)
    kr = {f: interp1d(df_kr["So"], df_kr[f]) for f in ("kro", "krg", "krw")}
    return pvt, kr


param_sets = {
    "lin": RelPermParams(1, 1, 1, 0, 0.1, 0, 1, 1, 1),
    "corey": RelPermParams(2.5, 3, 1.5, 0.05, 0.15, 0.02, 0.8, 0.3, 0.9),
}
df = make_df_pvt()
df_rv = df.copy()
df_rv["Rv"] = 1e-5 * df_rv["pressure"] / (1 + 1e-4 * df_rv["pressure"])
for pname, params in param_sets.items():
    df_kr = relative_permeabilities_twophase(params, 0.1)
    for tname, table in (("rv0", df), ("rv", df_rv)):
        pvt, kr = build(table, df_kr)
        tag = f"{pname}/{tname}"
        P = table["pressure"].to_numpy()
        S = table["So"].to_numpy()
        record(f"{tag} full", lambda: pseudopressure_threephase(P, S, pvt, kr))
        record(f"{tag} full series", lambda: pseudopressure_threephase(table["pressure"], table["So"], pvt, kr))
        record(f"{tag} lambda full", lambda: lambda_combined_func(P, S, pvt, kr))
        record(f"{tag} every7", lambda: pseudopressure_threephase(P[::7], S[::7], pvt, kr))
        record(f"{tag} reversed", lambda: pseudopressure_threephase(P[::-1], S[::-1], pvt, kr))
        record(f"{tag} len1", lambda: pseudopressure_threephase(P[400:401], S[400:401], pvt, kr))
        record(f"{tag} len2", lambda: pseudopressure_threephase(P[400:402], S[400:402], pvt, kr))
        record(f"{tag} first rows", lambda: pseudopressure_threephase(P[:3], S[:3], pvt, kr))
        record(f"{tag} last rows", lambda: pseudopressure_threephase(P[-3:], S[-3:], pvt, kr))
        record(f"{tag} lists", lambda: pseudopressure_threephase([100.0, 250.5, 4000.0], [0.2, 0.3, 0.85], pvt, kr))
        record(f"{tag} extrapolated p", lambda: pseudopressure_threephase(np.array([-50.0, 9500.0, 12000.0]), np.array([0.1, 0.5, 0.9]), pvt, kr))
        record(f"{tag} repeated p", lambda: pseudopressure_threephase(np.array([500.0, 500.0, 700.0]), np.array([0.3, 0.3, 0.4]), pvt, kr))
        record(f"{tag} empty", lambda: pseudopressure_threephase(np.array([]), np.array([]), pvt, kr))
        record(f"{tag} scalar", lambda: pseudopressure_threephase(1000.0, 0.5, pvt, kr))
        record(f"{tag} 2d", lambda: pseudopressure_threephase(P[:6].reshape(2, 3), S[:6].reshape(2, 3), pvt, kr))
        record(f"{tag} nan p", lambda: pseudopressure_threephase(np.array([100.0, np.nan, 300.0]), np.array([0.2, 0.3, 0.4]), pvt, kr))
        # errors
        record(f"{tag} So above range", lambda: pseudopressure_threephase(P[:3], np.array([0.1, 0.95, 0.2]), pvt, kr))
        record(f"{tag} So below range", lambda: pseudopressure_threephase(P[:3], np.array([-0.1, 0.5, 0.2]), pvt, kr))
        record(f"{tag} nan So", lambda: pseudopressure_threephase(P[:3], np.array([np.nan, 0.5, 0.2]), pvt, kr))
        record(f"{tag} length mismatch", lambda: pseudopressure_threephase(P[:4], S[:3], pvt, kr))
        record(f"{tag} string p", lambda: pseudopressure_threephase("abc", S[:3], pvt, kr))
        record(f"{tag} None p", lambda: pseudopressure_threephase(None, S[:3], pvt, kr))
        for missing in ("rho_o0", "rho_g0", "rho_w0", "Rv", "Rs", "mu_g", "mu_o", "mu_w", "Bg", "Bo", "Bw"):
            pvt_m = {k: v for k, v in pvt.items() if k != missing}
            record(f"{tag} pvt missing {missing}", lambda: pseudopressure_threephase(P[:5], S[:5], pvt_m, kr))
        for missing in ("kro", "krg", "krw"):
            kr_m = {k: v for k, v in kr.items() if k != missing}
            record(f"{tag} kr missing {missing}", lambda: pseudopressure_threephase(P[:5], S[:5], pvt, kr_m))
        pvt_nb, kr_nb = build(table, df_kr, extrapolate=False)
        record(f"{tag} bounded p out of range", lambda: pseudopressure_threephase(np.array([100.0, 9500.0]), np.array([0.2, 0.3]), pvt_nb, kr_nb))
        record(f"{tag} bounded ok", lambda: pseudopressure_threephase(np.array([0.0, 9000.0]), np.array([0.2, 0.3]), pvt_nb, kr_nb))
        # through the public class
        for p_frac, p_i in ((1000, 8000.0), (500.0, 6000.0), (0, 9000), (1000, 1000.0)):
            def make():
                scaled = rescale_pseudopressure(table, p_frac, p_i)
                fp = FlowPropertiesTwoPhase.from_table(scaled, df_kr, REF_DENS, 0.1, 0.1, p_i)
                q = np.linspace(-0.2, 1.3, 31)
                return [fp.m_i, fp.alpha(q), fp.m_scaled_func(P[::50]), fp.pvt_props]
            record(f"{tag} from_table p_frac={p_frac} p_i={p_i}", make)
        record(f"{tag} from_table p_i out of range", lambda: FlowPropertiesTwoPhase.from_table(table, df_kr, REF_DENS, 0.1, 0.1, 9500.0))
        record(f"{tag} from_table missing col", lambda: FlowPropertiesTwoPhase.from_table(table.drop(columns=["Rv"]), df_kr, REF_DENS, 0.1, 0.1, 8000.0))
        record(f"{tag} from_table missing density", lambda: FlowPropertiesTwoPhase.from_table(table, df_kr, {"rho_o0": 0.8}, 0.1, 0.1, 8000.0))

finish()
