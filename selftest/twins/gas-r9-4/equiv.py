"""Equivalence driver: z_factor_hallyarbrough (pressure in psi, reduced-style temperature)."""

from __future__ import annotations

import itertools
import signal
import sys
import warnings
from decimal import Decimal
from fractions import Fraction

import numpy as np

from bluebonnet.fluids import gas

out = []


class Timeout(Exception):
    pass


def _alarm(signum, frame):
    raise Timeout


signal.signal(signal.SIGALRM, _alarm)


def show(v):
    if isinstance(v, tuple):
        return "(" + ", ".join(show(x) for x in v) + ")"
    if isinstance(v, np.ndarray):
        return f"ndarray{v.shape}{v.dtype!r}{v.tolist()!r}"
    return f"{type(v).__name__}:{v!r}"


def rec(label, fn, *args, **kwargs):
    with warnings.catch_warnings(record=True) as caught:
        warnings.simplefilter("always")
        signal.alarm(10)  # a Newton iteration that never converges is reported as such
        try:
            res = show(fn(*args, **kwargs))
        except Timeout:
            res = "TIMEOUT"
        except Exception as e:  # noqa: BLE001
            res = f"EXC {type(e).__name__}"
        finally:
            signal.alarm(0)
    warned = sorted({w.category.__name__ for w in caught})
    out.append(f"{label} -> {res} warnings={warned}")


hy = gas.z_factor_hallyarbrough
# the function is written in terms of pseudo-reduced quantities: temperature ~ 1.05 .. 3, pressure ~ 0 .. 15
pressures = [0.0, 1e-6, 0.01, 0.2, 0.5, 1, 1.5, 2.0, 3.3, 5, 7.5, 10.0, 15.0, 24.0, np.float64(4.2),
             np.float32(2.5), np.int64(3), -1.0, -0.0, True]
temperatures = [1.05, 1.1, 1.2, 1.35, 1.5, 1.7, 2, 2.4, 3.0, np.float64(1.8), np.float32(1.6), np.int64(2),
                1.0, 0.9, 5.0, 10, 100.0]
for p, t in itertools.product(pressures, temperatures):
    rec(f"hy[{p!r}|{t!r}]", hy, p, t)

# the docstring advertises psi and Rankine; these are far outside the reduced range
for p, t in itertools.product([14.7, 100.0, 1000.0], [519.67, 700.0]):
    rec(f"hy_units[{p!r}|{t!r}]", hy, p, t)

odd = [
    (2.0, 0),
    (2.0, 0.0),
    (2.0, np.float64(0.0)),
    (2.0, -1.5),
    (float("nan"), 1.5),
    (2.0, float("nan")),
    (float("inf"), 1.5),
    (2.0, float("inf")),
    (np.array([2.0]), 1.5),
    (np.array([2.0, 3.0]), 1.5),
    (np.array([]), 1.5),
    (np.array([[2.0]]), 1.5),
    (2.0, np.array([1.5])),
    (2.0, np.array([1.5, 1.7])),
    (np.array([2.0]), np.array([1.5])),
    (np.array([2]), 1.5),
    (np.array([True]), 1.5),
    ([2.0], 1.5),
    ((2.0,), 1.5),
    (2.0, [1.5]),
    ("2.0", 1.5),
    (2.0, "1.5"),
    (None, 1.5),
    (2.0, None),
    (2 + 0j, 1.5),
    (2.0, 1.5 + 0j),
    (Decimal("2.0"), 1.5),
    (2.0, Decimal("1.5")),
    (Fraction(2, 1), 1.5),
    (2.0, Fraction(3, 2)),
    (2.0,),
    (2.0, 1.5, 1.0),
]
for a in odd:
    rec("hy_odd[" + "|".join(repr(x) for x in a) + "]", hy, *a)
rec("hy_kw", hy, pressure=2.0, temperature=1.5)
rec("hy_kw_swapped", hy, temperature=1.5, pressure=2.0)
rec("hy_bad_kw", hy, p=2.0, t=1.5)

# the caller's array must not be modified
arr = np.array([2.0])
before = arr.copy()
rec("hy_array_again", hy, arr, 1.5)
out.append(f"input_untouched -> {np.array_equal(arr, before)} {arr.tolist()!r}")

with open(sys.argv[1], "w") as f:
    f.write("\n".join(out) + "\n")
