"""Behavioural fingerprint of bluebonnet.plotting (run on clean and refactored tree)."""

from __future__ import annotations

import os
import sys
import types
import warnings

import matplotlib

matplotlib.use("Agg")
import matplotlib.pyplot as plt  # noqa: E402
import numpy as np  # noqa: E402
import pandas as pd  # noqa: E402

warnings.simplefilter("ignore")

from bluebonnet import plotting  # noqa: E402
from bluebonnet.flow import FlowProperties, IdealReservoir, SinglePhaseReservoir  # noqa: E402
from bluebonnet.plotting import (  # noqa: E402
    SquareRootScale,
    plot_pseudopressure,
    plot_recovery_factor,
    plot_recovery_rate,
)

DATA = os.environ.get("BB_DATA", "/tmp/twin8_plotting/tests/data")
out: list[str] = []


def fmt(v):
    if isinstance(v, np.ndarray):
        return f"array<{v.dtype},{v.shape}>" + repr(v.tolist())
    if isinstance(v, (tuple, list)):
        return type(v).__name__ + "(" + ", ".join(fmt(x) for x in v) + ")"
    if isinstance(v, np.generic):
        return f"{type(v).__name__}({v!r})"
    return repr(v)


def describe(ax):
    d = []
    for ln in ax.get_lines():
        d.append(
            "line x=%s y=%s color=%r label=%r lw=%r ls=%r marker=%r alpha=%r z=%r"
            % (
                fmt(np.asarray(ln.get_xdata(orig=True))),
                fmt(np.asarray(ln.get_ydata(orig=True))),
                ln.get_color(),
                ln.get_label(),
                ln.get_linewidth(),
                ln.get_linestyle(),
                ln.get_marker(),
                ln.get_alpha(),
                ln.get_zorder(),
            )
        )
    d.append("xlabel=%r ylabel=%r" % (ax.get_xlabel(), ax.get_ylabel()))
    d.append("xscale=%r yscale=%r" % (ax.get_xscale(), ax.get_yscale()))
    d.append("xlim=%s ylim=%s" % (fmt(ax.get_xlim()), fmt(ax.get_ylim())))
    d.append("xticks=%s" % fmt(np.asarray(ax.get_xticks())))
    d.append("xtrans=%s" % type(ax.xaxis.get_transform()).__name__)
    return d


def case(name, func, res, *args, own_ax=True, **kwargs):
    plt.close("all")
    kw_in = kwargs.get("plot_kwargs")
    kw_copy = None if kw_in is None else dict(kw_in)
    given = None
    if own_ax:
        _, given = plt.subplots()
        kwargs["ax"] = given
    nfig0 = len(plt.get_fignums())
    out.append(f"== {name}")
    try:
        ax = func(res, *args, **kwargs)
    except Exception as e:  # noqa: BLE001
        out.append("raised " + type(e).__name__)
        if given is not None:
            out.extend(describe(given))
    else:
        out.append("same_ax=%r newfigs=%d type=%s" % (ax is given, len(plt.get_fignums()) - nfig0, type(ax).__name__))
        out.extend(describe(ax))
    if kw_in is not None:
        out.append("kwargs_unchanged=%r" % (kw_in == kw_copy))
    plt.close("all")


def sqrt_time(t_end, nt):
    return np.linspace(0, np.sqrt(t_end), nt) ** 2


reservoirs = {}
for nx, nt, t_end, pf, pi in [
    (2, 2, 1.0, 100.0, 2000.0),
    (2, 5, 0.5, 100.0, 2000.0),
    (3, 3, 2.0, 500.0, 5000.0),
    (10, 1, 1.0, 100.0, 2000.0),
    (10, 2, 1.0, 100.0, 2000.0),
    (10, 41, 3.0, 100.0, 2000.0),
    (30, 401, 11.0, 100.0, 2000.0),
    (12, 25, 4.0, 2000.0, 2000.0),  # frac-face pressure equals initial pressure
    (12, 25, 1e-4, 0.0, 3000.0),
    (7, 30, 250.0, 14.7, 9000.0),
]:
    r = IdealReservoir(nx, pf, pi)
    r.simulate(sqrt_time(t_end, nt))
    reservoirs[f"ideal nx={nx} nt={nt} tend={t_end} pf={pf} pi={pi}"] = r

# linear (non square-root) time grid and a grid not starting at zero
r = IdealReservoir(15, 200.0, 4000.0)
r.simulate(np.linspace(0.0, 2.0, 33))
reservoirs["ideal linear-time"] = r
r = IdealReservoir(15, 200.0, 4000.0)
r.simulate(np.linspace(0.1, 0.7, 20))
reservoirs["ideal offset-time"] = r
r = IdealReservoir(9, 200.0, 4000.0)
r.simulate(np.arange(0, 12) * 1.0)
reservoirs["ideal integerish-time"] = r

try:
    renamer = {
        "P": "pressure",
        "Z-Factor": "z-factor",
        "Cg": "compressibility",
        "Viscosity": "viscosity",
        "Density": "density",
    }
    pvt_gas = pd.read_csv(os.path.join(DATA, "pvt_gas.csv")).rename(columns=renamer)
    for pi_, pf_, nx_, nt_ in [(2000.0, 100.0, 30, 120), (6000.0, 1500.0, 8, 40)]:
        fluid = FlowProperties(pvt_gas, pi_)
        r = SinglePhaseReservoir(nx_, pressure_fracface=pf_, pressure_initial=pi_, fluid=fluid)
        r.simulate(sqrt_time(11.0, nt_))
        reservoirs[f"gas pi={pi_} pf={pf_}"] = r
except Exception as e:  # noqa: BLE001
    out.append("gas setup raised " + type(e).__name__)

for name, r in reservoirs.items():
    for every in (1, 7, 200):
        for rescale in (False, True):
            case(f"pp {name} every={every} rescale={rescale}", plot_pseudopressure, r, every=every, rescale=rescale)
    for ct in (False, True):
        case(f"rate {name} ticks={ct}", plot_recovery_rate, r, change_ticks=ct)
        case(f"rf {name} ticks={ct}", plot_recovery_factor, r, change_ticks=ct)

big = reservoirs["ideal nx=30 nt=401 tend=11.0 pf=100.0 pi=2000.0"]
small = reservoirs["ideal nx=10 nt=41 tend=3.0 pf=100.0 pi=2000.0"]

# defaults, positional calls, no axes given
case("pp defaults no ax", plot_pseudopressure, big, own_ax=False)
case("pp positional", plot_pseudopressure, small, 5, True, own_ax=False)
case("rate no ax", plot_recovery_rate, small, own_ax=False)
case("rate ax None explicit", plot_recovery_rate, small, None, True, own_ax=False)
case("rf no ax", plot_recovery_factor, small, own_ax=False)
case("rf ax None explicit", plot_recovery_factor, small, None, True, {"lw": 3}, own_ax=False)

# options
case("pp xmax ymax", plot_pseudopressure, small, every=4, x_max=0.5, y_max=1.2)
case("pp xmax only", plot_pseudopressure, small, every=4, x_max=2)
case("pp ymax rescale", plot_pseudopressure, small, every=4, rescale=True, y_max=0.3)
for kw in ({}, {"lw": 2.5, "ls": "--"}, {"alpha": 0.25, "marker": "o"}, {"label": "mine"}, {"color": "red"},
           {"nonsense_kw": 1}, {"zorder": 7}):
    case(f"pp kwargs {kw}", plot_pseudopressure, small, every=10, plot_kwargs=dict(kw))
    case(f"pp kwargs rescale {kw}", plot_pseudopressure, small, every=10, rescale=True, plot_kwargs=dict(kw))
    case(f"rate kwargs {kw}", plot_recovery_rate, small, plot_kwargs=dict(kw))
    case(f"rf kwargs {kw}", plot_recovery_factor, small, plot_kwargs=dict(kw))

# 'every' edge values
for every in (0, -3, 2.0, 2.5, float("nan"), float("inf"), "a", None, True, 40, 41, 1000, np.int64(6)):
    case(f"pp every={every!r}", plot_pseudopressure, small, every=every)
    case(f"pp every={every!r} rescale", plot_pseudopressure, small, every=every, rescale=True)
for resc in (0, 1, "yes", "", None, np.bool_(True)):
    case(f"pp rescale={resc!r}", plot_pseudopressure, small, every=8, rescale=resc)
for ct in (0, 1, "yes", "", None):
    case(f"rate change_ticks={ct!r}", plot_recovery_rate, small, change_ticks=ct)
    case(f"rf change_ticks={ct!r}", plot_recovery_factor, small, change_ticks=ct)

# not simulated, wrong objects
fresh = IdealReservoir(10, 100.0, 2000.0)
for f, nm in ((plot_pseudopressure, "pp"), (plot_recovery_rate, "rate"), (plot_recovery_factor, "rf")):
    case(f"{nm} unsimulated", f, fresh)
    case(f"{nm} unsimulated no ax", f, fresh, own_ax=False)
    case(f"{nm} None reservoir", f, None)
    case(f"{nm} bad ax", f, small, ax="not an axes", own_ax=False)
    case(f"{nm} bad kwargs type", f, small, plot_kwargs=[("lw", 2)])

# duck-typed reservoirs
def fake(time, rec, pp=None, nx=4):
    ns = types.SimpleNamespace(time=time, nx=nx)
    ns.recovery_factor = lambda: rec
    if pp is not None:
        ns.pseudopressure = pp
    return ns


fakes = {
    "lists": fake([0.0, 0.5, 1.5, 4.0], [0.0, 0.2, 0.3, 0.35], [[0.0, 0.5, 0.8, 1.0], [0.0, 0.3, 0.6, 0.9]]),
    "int time": fake(np.array([0, 1, 4, 9]), np.array([0.0, 0.2, 0.3, 0.35]), np.ones((3, 4))),
    "float32": fake(np.float32([0, 1, 4, 9]), np.float32([0.0, 0.2, 0.3, 0.35]), np.float32([[0, 1, 2, 3], [0, 0.5, 1, 2]])),
    "series": fake(pd.Series([0.0, 1.0, 4.0, 9.0]), pd.Series([0.0, 0.2, 0.3, 0.35]), np.ones((3, 4))),
    "negative time": fake(np.array([-4.0, -3.0, -1.0]), np.array([0.0, 0.1, 0.15]), np.zeros((2, 4))),
    "nan time": fake(np.array([0.0, np.nan, 2.0]), np.array([0.0, 0.1, 0.15]), np.full((2, 4), np.nan)),
    "inf time": fake(np.array([0.0, 1.0, np.inf]), np.array([0.0, 0.1, 0.15]), np.ones((2, 4))),
    "mismatch": fake(np.array([0.0, 1.0, 2.0]), np.array([0.0, 0.1]), np.ones((2, 3))),
    "empty": fake(np.array([]), np.array([]), np.ones((0, 4))),
    "2d recovery": fake(np.array([0.0, 1.0, 2.0]), np.ones((3, 2)), np.ones((2, 4))),
    "scalar time": fake(2.0, np.array([0.0, 0.1, 0.3]), np.ones(4)),
    "nx mismatch": fake(np.array([0.0, 1.0, 2.0]), np.array([0.0, 0.1, 0.2]), np.ones((2, 5)), nx=4),
    "nx zero": fake(np.array([0.0, 1.0, 2.0]), np.array([0.0, 0.1, 0.2]), np.ones((2, 0)), nx=0),
    "no pp": fake(np.array([0.0, 1.0, 2.0]), np.array([0.0, 0.1, 0.2])),
    "complex": fake(np.array([0.0, 1.0, 2.0j]), np.array([0.0, 0.1, 0.2]), np.ones((2, 4)) * 1j),
}
for nm, fk in fakes.items():
    for rescale in (False, True):
        case(f"pp fake {nm} rescale={rescale}", plot_pseudopressure, fk, every=1, rescale=rescale)
    for ct in (False, True):
        case(f"rate fake {nm} ticks={ct}", plot_recovery_rate, fk, change_ticks=ct)
        case(f"rf fake {nm} ticks={ct}", plot_recovery_factor, fk, change_ticks=ct)

# the recovery attribute cached on the reservoir is what was plotted
plt.close("all")
r = IdealReservoir(6, 100.0, 2000.0)
r.simulate(sqrt_time(2.0, 12))
ax = plot_recovery_factor(r)
out.append("cached recovery " + fmt(r.recovery) + " " + fmt(np.asarray(ax.get_lines()[0].get_ydata())))
out.append("line shares cache values %r" % np.array_equal(r.recovery, ax.get_lines()[0].get_ydata()))
plt.close("all")

# ---- the square-root scale
out.append("== scale")
out.append("name=%r registered=%r" % (SquareRootScale.name, "squareroot" in matplotlib.scale.get_scale_names()))
fig, ax = plt.subplots()
scale = SquareRootScale(ax.xaxis)
for lims in [(-1.0, 2.0), (0.0, 1.0), (3, 4), (-0.0, 1.0), (float("nan"), 1.0), (float("-inf"), float("inf")),
             (np.float64(-2.0), np.float64(5.0)), (1e-300, 1e300), (-5, -1), ("a", 1.0), (None, 1.0)]:
    try:
        out.append(f"limit {lims!r} -> " + fmt(scale.limit_range_for_scale(lims[0], lims[1], 1e-3)))
    except Exception as e:  # noqa: BLE001
        out.append(f"limit {lims!r} raised " + type(e).__name__)
fwd = scale.get_transform()
inv = fwd.inverted()
out.append("types %s %s %s %s" % (type(fwd).__name__, type(inv).__name__, type(inv.inverted()).__name__, fwd is scale.get_transform()))
out.append("dims %r %r %r %r %r %r" % (fwd.input_dims, fwd.output_dims, fwd.is_separable, inv.input_dims, inv.output_dims, inv.is_separable))
from decimal import Decimal  # noqa: E402
from fractions import Fraction  # noqa: E402

rng = np.random.default_rng(12345)
values = [
    0.0, -0.0, 1.0, 2.0, 4, -1.0, -4, 1e-320, 1e308, 1e200, -1e200, float("nan"), float("inf"), float("-inf"), True, False,
    np.float64(2.0), np.float32(2.0), np.int64(9), 3 + 4j, "a", None,
    [0.0, 1.0, 2.0, 3.0, 9.0, 16.0], (0.25, 0.5), [1, 4, 9], [-1, -4], [True, False], [],
    [[1.0, 2.0], [3.0, 4.5]], [[1.0], [2.0]], [1.0, None], ["a", "b"], [1 + 2j, -1 + 0j],
    np.array([0.0, -0.0, np.inf, -np.inf, np.nan, -1.0, 1e-320, 1e308, 1e200]),
    np.arange(-3, 50), np.arange(10, dtype=np.uint8) * 30, np.float32([2, 3, -0.0, 1e30]), np.float16([2, 3, 300]),
    np.array([2, 3], dtype=object), np.array([Decimal(2)], dtype=object), np.array([Fraction(2, 3)], dtype=object),
    np.array(3.0), np.array(7), np.ma.masked_array([1.0, 4.0, 9.0], mask=[0, 1, 0]),
    pd.Series([1.0, 4.0, 9.0]), np.longdouble([2, 3]), rng.random(500) * 1e6, rng.standard_normal(200),
    rng.random((40, 1)) * 1e-6, 10.0 ** rng.uniform(-300, 300, 300),
]
for v in values:
    for tname, tr in (("fwd", fwd), ("inv", inv)):
        for mname in ("transform", "transform_non_affine", "transform_affine"):
            try:
                res = getattr(tr, mname)(v)
                tag = fmt(res) if not isinstance(res, np.ndarray) else type(res).__name__ + " " + fmt(np.asarray(res))
                alias = isinstance(v, np.ndarray) and isinstance(res, np.ndarray) and np.shares_memory(v, res) if isinstance(v, np.ndarray) and v.dtype != object else False
                out.append(f"{tname}.{mname} {type(v).__name__} -> {tag} alias={alias}")
            except Exception as e:  # noqa: BLE001
                out.append(f"{tname}.{mname} {type(v).__name__} raised " + type(e).__name__)
# input not modified
a = np.array([1.0, 4.0, 9.0])
fwd.transform_non_affine(a)
inv.transform(a)
out.append("input untouched " + fmt(a))
plt.close("all")

# the scale in use on axes
for axis in ("x", "y"):
    fig, ax = plt.subplots()
    ax.plot([0.0, 1.0, 4.0, 9.0], [0.0, 1.0, 4.0, 9.0])
    getattr(ax, f"set_{axis}scale")("squareroot")
    getattr(ax, f"set_{axis}lim")(-2.0, 9.0)
    fig.canvas.draw()
    out.append(f"axes {axis} lim=" + fmt(getattr(ax, f"get_{axis}lim")()))
    pts = np.array([[0.0, 0.0], [1.0, 1.0], [4.0, 4.0], [9.0, 9.0], [2.5, 2.5]])
    disp = ax.transData.transform(pts)
    out.append("disp " + fmt(np.round(disp, 9)))
    out.append("back " + fmt(np.round(ax.transData.inverted().transform(disp), 9)))
    out.append("ticks " + fmt(np.asarray(getattr(ax, f"get_{axis}ticks")())))
    out.append("ticklabels " + repr([t.get_text() for t in getattr(ax, f"get_{axis}ticklabels")()]))
    out.append("minor " + fmt(np.asarray(getattr(ax, f"{axis}axis").get_minorticklocs())))
    plt.close(fig)

out.append("public names " + repr(sorted(n for n in dir(plotting) if not n.startswith("_"))))

with open(sys.argv[1], "w") as fh:
    fh.write("\n".join(out) + "\n")
