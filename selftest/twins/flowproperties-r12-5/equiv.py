"""Equivalence driver for twin5: rescale_pseudopressure takes its columns by position."""

from __future__ import annotations

import os
import re
import sys
import warnings

import numpy as np
import pandas as pd
from numpy.ma import mrecords

from bluebonnet.flow.flowproperties import (
    FlowProperties,
    FlowPropertiesTwoPhase,
    RelPermParams,
    relative_permeabilities_twophase,
    rescale_pseudopressure,
)

DATA = os.environ.get("BB_DATA", "/tmp/twin12_flowproperties/tests/data")
out = []


def fmt(x):
    if isinstance(x, pd.DataFrame):
        return (
            f"{type(x).__name__}("
            + ",".join(f"{c!r}:{fmt(x[c].to_numpy())}" for c in x.columns)
            + f"|idx={x.index.tolist()!r}|idxname={x.index.names!r}|dtypes={[str(d) for d in x.dtypes]})"
        )
    if isinstance(x, pd.Series):
        return f"Series(idx={x.index.tolist()!r}, {fmt(x.to_numpy())})"
    if isinstance(x, np.ndarray) and x.dtype.names:
        return f"{type(x).__name__}{x.shape}[" + ";".join(f"{n}={fmt(np.asarray(x[n]))}" for n in x.dtype.names) + "]"
    if isinstance(x, np.ndarray):
        return f"{type(x).__name__}{x.shape}{x.dtype}[" + ",".join(repr(v) for v in x.ravel().tolist()) + "]"
    if isinstance(x, dict):
        return f"{type(x).__name__}{{" + ",".join(f"{k!r}:{fmt(v)}" for k, v in x.items()) + "}"
    return f"{type(x).__name__}:{x!r}"


def norm_msg(msg):
    return re.sub(r"\{([^}]*)\}", lambda m: "{" + ", ".join(sorted(m.group(1).split(", "))) + "}", msg)


def rec(label, fn):
    with warnings.catch_warnings(record=True) as w:
        warnings.simplefilter("always")
        try:
            res = fmt(fn())
        except Exception as e:  # noqa: BLE001
            res = f"EXC {type(e).__name__}: {norm_msg(str(e))}"
    label = " ".join(label.split())
    out.append(f"{label} -> {res} | warnings={[i.category.__name__ + ':' + str(i.message) for i in w]}")


class AttrDict(dict):
    """dict with attribute access (has .copy returning a plain dict -> attribute access then fails)."""

    __getattr__ = dict.__getitem__


class AttrDictKeep(AttrDict):
    def copy(self):
        return AttrDictKeep({k: np.array(v, copy=True) for k, v in self.items()})


class Bag:
    """No .copy -> deepcopy path; supports both attribute and item access."""

    def __init__(self, **kw):
        self.__dict__.update(kw)

    def __getitem__(self, k):
        return self.__dict__[k]

    def __setitem__(self, k, v):
        self.__dict__[k] = v


class BagNoItems:
    def __init__(self, **kw):
        self.__dict__.update(kw)


def fmt_obj(o):
    if isinstance(o, (Bag, BagNoItems)):
        return fmt(dict(o.__dict__))
    return o


def masked_one(df):
    m = mrecords.fromrecords(df[["pressure", "pseudopressure"]].to_records(index=False))
    m.mask[1] = (True, True)
    return m


rng = np.random.default_rng(21)
df_multi = pd.read_csv(os.path.join(DATA, "pvt_multiphase_oil.csv")).drop(columns=["Unnamed: 0"])
df_gas = pd.read_csv(os.path.join(DATA, "pvt_gas.csv")).rename(columns={"P": "pressure"})
df_small = pd.DataFrame(
    {
        "pressure": [0.0, 100.0, 250.0, 500.0, 1000.0, 2000.0, 4000.0],
        "pseudopressure": [0.0, 3.0, 11.0, 40.0, 130.0, 410.0, 1300.0],
        "other": list("abcdefg"),
    }
)
bases = {"multi": df_multi.iloc[::25], "gas": df_gas.iloc[::60][["pressure", "pseudopressure", "Bg"]], "small": df_small}

for bname, df in bases.items():
    n = len(df)
    pmin, pmax = float(df["pressure"].min()), float(df["pressure"].max())
    variants = {
        "default_index": df.reset_index(drop=True),
        "as_sliced": df,
        "shuffled_index": df.set_axis(rng.permutation(n), axis=0),
        "shuffled_rows": df.sample(frac=1.0, random_state=3),
        "reversed_rows": df.iloc[::-1],
        "dup_index": df.set_axis(np.arange(n) // 2, axis=0),
        "all_same_index": df.set_axis(np.zeros(n, dtype=int), axis=0),
        "str_index": df.set_axis([f"row{i % 4}" for i in range(n)], axis=0),
        "float_index": df.set_axis(np.linspace(-1.0, 1.0, n), axis=0),
        "date_index": df.set_axis(pd.date_range("2020-01-01", periods=n, freq="D")[::-1], axis=0),
        "multi_index": df.set_axis(pd.MultiIndex.from_arrays([np.arange(n) % 2, np.arange(n)[::-1]], names=["a", "b"]), axis=0),
        "pressure_as_index_too": df.set_index("pressure", drop=False),
        "named_index": df.rename_axis("pressure"),
        "int_pressure": df.assign(pressure=df["pressure"].astype(int)),
        "float32": df.assign(pressure=df["pressure"].astype("float32"), pseudopressure=df["pseudopressure"].astype("float32")),
        "nullable_Float64": df.assign(pressure=df["pressure"].astype("Float64"), pseudopressure=df["pseudopressure"].astype("Float64")),
        "object_cols": df.assign(pressure=df["pressure"].astype(object), pseudopressure=df["pseudopressure"].astype(object)),
        "string_pressure": df.assign(pressure=df["pressure"].astype(str)),
        "nan_in_pseudo": df.assign(pseudopressure=df["pseudopressure"].where(np.arange(n) != 2)),
        "nan_in_pressure": df.assign(pressure=df["pressure"].where(np.arange(n) != 2)),
        "dup_pressure_rows": pd.concat([df, df.iloc[1:3]]),
        "dup_pressure_rows_reindexed": pd.concat([df, df.iloc[1:3]], ignore_index=True),
        "dup_column": pd.concat([df, df[["pressure"]]], axis=1),
        "two_rows": df.iloc[:2],
        "one_row": df.iloc[:1],
        "empty": df.iloc[:0],
        "no_pressure": df.drop(columns=["pressure"]),
        "no_pseudopressure": df.drop(columns=["pseudopressure"]),
        "extra_columns_first": df[df.columns[::-1]],
        "recarray": df[["pressure", "pseudopressure"]].to_records(index=False),
        "recarray_with_index": df[["pressure", "pseudopressure"]].to_records(index=True),
        "struct_ndarray": np.asarray(df[["pressure", "pseudopressure"]].to_records(index=False)).view(np.ndarray),
        "masked_records": mrecords.fromrecords(df[["pressure", "pseudopressure"]].to_records(index=False)),
        "masked_records_one_masked": masked_one(df),
        "dict": {c: df[c].to_numpy() for c in ("pressure", "pseudopressure")},
        "attrdict": AttrDict({c: df[c].to_numpy() for c in ("pressure", "pseudopressure")}),
        "attrdict_keep": AttrDictKeep({c: df[c].to_numpy() for c in ("pressure", "pseudopressure")}),
        "attrdict_lists": AttrDictKeep({c: df[c].tolist() for c in ("pressure", "pseudopressure")}),
        "attrdict_series": AttrDictKeep({c: df[c].set_axis(rng.permutation(n)) for c in ("pressure", "pseudopressure")}),
        "bag": Bag(pressure=df["pressure"].to_numpy(), pseudopressure=df["pseudopressure"].to_numpy()),
        "bag_series": Bag(pressure=df["pressure"], pseudopressure=df["pseudopressure"].set_axis(rng.permutation(n))),
        "bag_no_items": BagNoItems(pressure=df["pressure"].to_numpy(), pseudopressure=df["pseudopressure"].to_numpy()),
        "series": df["pressure"],
        "ndarray": df[["pressure", "pseudopressure"]].to_numpy(),
        "none": None,
    }
    mid = 0.5 * (pmin + pmax)
    args = [
        (pmin, pmax),
        (0.25 * pmax + 0.1, 0.75 * pmax),
        (mid, mid + 1e-9),
        (pmax, pmin),
        (mid, mid),
        (int(pmin), int(pmax)),
        (pmin - 1.0, pmax),
        (pmin, pmax + 1.0),
        (pmin - 1.0, pmax + 1.0),
        (np.nan, pmax),
        (pmin, np.nan),
        (np.array([pmin, mid]), pmax),
        (pmin, np.array([mid, pmax])),
        (np.linspace(pmin, mid, n), pmax),
        ("low", pmax),
        (pmin, None),
        ([pmin], [pmax]),
    ]
    for vname, tab in variants.items():
        for p_frac, p_i in args:
            before = fmt(fmt_obj(tab))

            def run(tab=tab, p_frac=p_frac, p_i=p_i):
                res = rescale_pseudopressure(tab, p_frac, p_i)
                return {"same_object": res is tab, "type": type(res).__name__, "res": fmt_obj(res)}

            rec(f"{bname}/{vname}/p_frac={p_frac!r}/p_i={p_i!r}", run)
            if fmt(fmt_obj(tab)) != before:
                out.append(f"{bname}/{vname}: INPUT MUTATED")

# downstream use, as in the tests: rescaled table -> two-phase flow properties
prm = RelPermParams(n_o=1, n_g=1, n_w=1, S_or=0, S_gc=0, S_wc=0.1, k_ro_max=1, k_rw_max=1, k_rg_max=1)
df_kr = relative_permeabilities_twophase(prm)
dens = {"rho_o0": 141.5 / (45 + 131.5), "rho_g0": 1.03e-3, "rho_w0": 1}
n = len(df_multi)
for vname, tab in {
    "plain": df_multi,
    "shuffled_index": df_multi.set_axis(rng.permutation(n), axis=0),
    "dup_index": df_multi.set_axis(np.arange(n) % 5, axis=0),
    "str_index": df_multi.set_axis([f"r{i}" for i in range(n)], axis=0),
    "shuffled_rows": df_multi.sample(frac=1.0, random_state=12),
}.items():

    def build(tab=tab):
        df = rescale_pseudopressure(tab, 1000, 8000.0)
        obj = FlowPropertiesTwoPhase.from_table(df, df_kr, dens, 0.1, 0.1, 8000.0)
        with warnings.catch_warnings():
            warnings.simplefilter("ignore")
            one = FlowProperties(
                {"pressure": df["pressure"], "pseudopressure": df["pseudopressure"], "alpha": df["Bo"]}, 8000.0
            )
        return {
            "m_i": np.asarray(obj.m_i),
            "alpha": obj.alpha(np.linspace(-0.2, 1.3, 23)),
            "props": {k: np.asarray(v) for k, v in obj.pvt_props.items()},
            "one_m_i": np.asarray(one.m_i),
            "one_alpha": one.alpha(np.linspace(-0.2, 1.3, 23)),
            "repr": repr(one),
        }

    rec(f"downstream/{vname}", build)

with open(sys.argv[1], "w") as f:
    f.write("\n".join(out) + "\n")
