"""Equivalence driver for twin3 (keyword-only `pressure_bubblepoint=None`).

Usage: PYTHONPATH=<tree>/src python equiv.py <outfile>
"""
from __future__ import annotations

import os
import sys
import warnings
from decimal import Decimal
from fractions import Fraction

import numpy as np
import pandas as pd

from bluebonnet.fluids import oil
from bluebonnet.fluids.fluid import Fluid

DATA = os.environ.get("BB_DATA", "/tmp/twin12_oil/tests/data")
LINES: list[str] = []


def fmt(x):
    if isinstance(x, pd.Series):
        return f"Series(index={list(x.index)!r}, dtype={x.dtype}, values={fmt(x.to_numpy())})"
    if isinstance(x, pd.DataFrame):
        return f"DataFrame(cols={list(x.columns)!r}, index={list(x.index)!r}, values={fmt(x.to_numpy())})"
    if isinstance(x, np.ma.MaskedArray):
        return f"masked(mask={np.ma.getmaskarray(x).tolist()!r}, data={fmt(np.asarray(x.filled(-1.0)))})"
    if isinstance(x, np.ndarray):
        flat = [fmt(v) for v in x.ravel().tolist()]
        return f"ndarray(shape={x.shape}, dtype={x.dtype}, [{', '.join(flat)}])"
    if isinstance(x, (tuple, list)):
        return type(x).__name__ + "(" + ", ".join(fmt(v) for v in x) + ")"
    if isinstance(x, (float, np.floating)):
        return f"{type(x).__name__}:{float(x)!r}"
    if isinstance(x, (complex, np.complexfloating)):
        return f"{type(x).__name__}:{complex(x)!r}"
    return f"{type(x).__name__}:{x!r}"


def rec(label, func, *args, **kwargs):
    with warnings.catch_warnings(record=True) as caught:
        warnings.simplefilter("always")
        try:
            out = fmt(func(*args, **kwargs))
        except Exception as exc:  # noqa: BLE001
            out = f"RAISED {type(exc).__name__}: {exc}"
    cats = sorted({f"{w.category.__name__}: {w.message}" for w in caught})
    LINES.append(f"{label} -> {out} | warnings={cats}")


import inspect

FUNCS = {
    "dgor_dpressure_Standing": oil.dgor_dpressure_Standing,
    "oil_compressibility_undersat_Standing": oil.oil_compressibility_undersat_Standing,
}

pressures = {
    "lo": 2000.0,
    "hi": 3000.0,
    "int_lo": 2000,
    "int_hi": 3000,
    "at_pb": 2603.1217021875277,
    "just_below_pb": np.nextafter(2603.1217021875277, 0.0),
    "atm": 14.7,
    "zero": 0.0,
    "neg": -10.0,
    "very_neg": -100.0,  # p/18.2 + 1.4 < 0: fractional power of a negative number
    "huge": 1.0e9,
    "singular_denominator": 2603.1217021875277 + 12.938 / 7.141e-4,
    "nan": float("nan"),
    "inf": float("inf"),
    "ninf": float("-inf"),
    "np_f64": np.float64(2000.0),
    "np_f32": np.float32(3000.0),
    "np_int": np.int64(2000),
    "bool": True,
    "zero_d": np.array(2000.0),
    "len1": np.array([2000.0]),
    "len1_hi": np.array([3000.0]),
    "arr": np.array([100.0, 2000.0, 3000.0]),
    "arr_empty": np.array([], dtype=float),
    "arr_2d": np.array([[100.0, 3000.0]]),
    "ser": pd.Series([100.0, 3000.0], index=["b", "b"]),
    "ser_len1": pd.Series([2000.0], index=["z"]),
    "list": [2000.0],
    "str": "2000",
    "none": None,
    "complex": 2000.0 + 0j,
    "fraction": Fraction(2000, 1),
    "decimal": Decimal(2000),
}

fluids = {
    "black": (200.0, 35.0, 0.8, 650.0),
    "ints": (200, 35, 1, 650),
    "light": (250.0, 45.0, 0.7, 1200.0),
    "heavy": (120.0, 15.0, 0.9, 80.0),
    "tiny_gor": (200.0, 35.0, 0.8, 1.0),
    "zero_gor": (200.0, 35.0, 0.8, 0.0),
    "neg_gor": (200.0, 35.0, 0.8, -5.0),
    "np_f64": (np.float64(200.0), np.float64(35.0), np.float64(0.8), np.float64(650.0)),
    "np_f32": (np.float32(200.0), np.float32(35.0), np.float32(0.8), np.float32(650.0)),
    "zero_d_arrays": (np.array(200.0), np.array(35.0), np.array(0.8), np.array(650.0)),
    "len1_T": (np.array([200.0]), 35.0, 0.8, 650.0),
    "api_array": (200.0, np.array([30.0, 35.0, 40.0]), 0.8, 650.0),
    "gor_series": (200.0, 35.0, 0.8, pd.Series([650.0, 700.0], index=["q", "q"])),
    "nan_T": (float("nan"), 35.0, 0.8, 650.0),
    "inf_T": (float("inf"), 35.0, 0.8, 650.0),
    "neg_T": (-20.0, 35.0, 0.8, 650.0),
    "api_singular": (200.0, -131.5, 0.8, 650.0),
    "neg_api": (200.0, -200.0, 0.8, 650.0),
    "zero_gg": (200.0, 35.0, 0.0, 650.0),
    "neg_gg": (200.0, 35.0, -0.8, 650.0),
    "str_T": ("200", 35.0, 0.8, 650.0),
    "none_api": (200.0, None, 0.8, 650.0),
    "fraction_gor": (200.0, 35.0, 0.8, Fraction(650, 1)),
}

for fname, (T, api, gg, gor) in fluids.items():
    for pname, p in pressures.items():
        for name, func in FUNCS.items():
            rec(f"{name}[{fname}][{pname}]", func, T, p, api, gg, gor)

# calling conventions that exist today
for name, func in FUNCS.items():
    rec(f"{name}.all_keywords", func, temperature=200.0, pressure=2000.0, api_gravity=35.0,
        gas_specific_gravity=0.8, solution_gor_initial=650.0)
    rec(f"{name}.keywords_reordered", func, solution_gor_initial=650.0, gas_specific_gravity=0.8,
        api_gravity=35.0, pressure=3000.0, temperature=200.0)
    rec(f"{name}.mixed", func, 200.0, 2000.0, 35.0, solution_gor_initial=650.0, gas_specific_gravity=0.8)
    rec(f"{name}.star_args", func, *(200.0, 2000.0, 35.0, 0.8, 650.0))
    rec(f"{name}.star_kwargs", func, **dict(temperature=200.0, pressure=2000.0, api_gravity=35.0,
                                           gas_specific_gravity=0.8, solution_gor_initial=650.0))
    rec(f"{name}.too_few", func, 200.0, 2000.0, 35.0, 0.8)
    rec(f"{name}.none_given", func)
    rec(f"{name}.too_many_positional", func, 200.0, 2000.0, 35.0, 0.8, 650.0, 2603.0)
    rec(f"{name}.duplicate", func, 200.0, 2000.0, 35.0, 0.8, 650.0, pressure=1.0)
    rec(f"{name}.unknown_keyword", func, 200.0, 2000.0, 35.0, 0.8, 650.0, bubblepoint=1.0)
    rec(f"{name}.vectorize", np.vectorize(func), 200.0, np.array([100.0, 2000.0, 2700.0, 3000.0]), 35.0, 0.8, 650.0)
    rec(f"{name}.vectorize_fluids", np.vectorize(func), np.array([150.0, 200.0]), 2650.0,
        np.array([30.0, 40.0]), 0.8, np.array([500.0, 900.0]))
    rec(f"{name}.map", lambda f=func: list(map(f, [200.0, 210.0], [2000.0, 3000.0], [35.0, 36.0], [0.8, 0.7], [650.0, 700.0])))
    # the first five parameters keep their names, order and kinds
    params = list(inspect.signature(func).parameters.values())[:5]
    rec(f"{name}.leading_parameters", lambda ps=params: [(p.name, str(p.kind), p.default is p.empty) for p in ps])
    rec(f"{name}.name_doc", lambda f=func: (f.__name__, f.__module__, f.__doc__.splitlines()[0]))

# values quoted in the docstrings / tests
rec("doc.dgor_hi", oil.dgor_dpressure_Standing, 200, 3_000, 35, 0.8, 650)
rec("doc.dgor_lo", oil.dgor_dpressure_Standing, 200, 2_000, 35, 0.8, 650)
rec("doc.co", oil.oil_compressibility_undersat_Standing, 200, 3_000, 35, 0.8, 650)

# internal users of neighbouring code are unaffected
rec("oil_compressibility_Standing.lo", oil.oil_compressibility_Standing, 200.0, 2000.0, 35.0, 0.8, 650.0, -72.2, 653.0)
rec("oil_compressibility_Standing.hi", oil.oil_compressibility_Standing, 200.0, 3000.0, 35.0, 0.8, 650.0, -72.2, 653.0)
rec("b_o_Standing.arr", oil.b_o_Standing, 200.0, np.array([100.0, 2000.0, 3000.0]), 35.0, 0.8, 650.0)

# new keyword (refactored tree only): handing in the bubble point the function would
# compute itself must reproduce the default call; nothing tree-specific is written
for name, func in FUNCS.items():
    if "pressure_bubblepoint" in inspect.signature(func).parameters:
        for T, api, gg, gor in [fluids[k] for k in ("black", "ints", "light", "heavy", "tiny_gor", "np_f32")]:
            pb = oil.pressure_bubblepoint_Standing(T, api, gg, gor)
            for p in (14.7, 2000.0, 2603.1217021875277, 3000.0, 9000.0):
                a = func(T, p, api, gg, gor)
                b = func(T, p, api, gg, gor, pressure_bubblepoint=pb)
                c = func(T, p, api, gg, gor, pressure_bubblepoint=None)
                assert type(a) is type(b) is type(c) and a == b == c, (name, T, p)

with open(sys.argv[1], "w") as fh:
    fh.write("\n".join(LINES) + "\n")
