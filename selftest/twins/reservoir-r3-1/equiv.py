"""Equivalence driver for bluebonnet.flow.reservoir (shared preamble)."""
from __future__ import annotations

import os
import sys
import warnings

import numpy as np
import pandas as pd

warnings.simplefilter("ignore")

from bluebonnet.flow import (  # noqa: E402
    FlowProperties,
    IdealReservoir,
    MultiPhaseReservoir,
    SinglePhaseReservoir,
    TwoPhaseReservoir,
)
from bluebonnet.flow import reservoir as resmod  # noqa: E402

DATA = os.environ.get("BB_DATA", "/tmp/twin3_reservoir/tests/data")
REN_GAS = {
    "P": "pressure",
    "Z-Factor": "z-factor",
    "Cg": "compressibility",
    "Viscosity": "viscosity",
    "Density": "density",
}
REN_OIL = {
    "P": "pressure",
    "Z-Factor": "z-factor",
    "Co": "compressibility",
    "Oil_Viscosity": "viscosity",
    "Oil_Density": "density",
}
pvt_gas = pd.read_csv(os.path.join(DATA, "pvt_gas.csv")).rename(columns=REN_GAS)
pvt_oil = pd.read_csv(os.path.join(DATA, "pvt_oil.csv")).rename(columns=REN_OIL)
FLUIDS = {"gas8000": FlowProperties(pvt_gas, 8000.0), "gas3000": FlowProperties(pvt_gas, 3000.0)}
try:
    FLUIDS["oil6000"] = FlowProperties(pvt_oil, 6000.0)
except Exception:  # the oil table may lack columns; gas alone is enough
    pass

OUT = []


def fmt(x):
    """Full-precision, deterministic text form of a result."""
    if x is None or isinstance(x, (str, bool)):
        return repr(x)
    if isinstance(x, (float, np.floating)):
        return repr(float(x))
    if isinstance(x, (int, np.integer)):
        return repr(int(x))
    if isinstance(x, np.ndarray):
        return f"nd{x.shape}{x.dtype}:" + repr(x.tolist())
    if isinstance(x, (list, tuple)):
        return "[" + ", ".join(fmt(v) for v in x) + "]"
    if isinstance(x, dict):
        return "{" + ", ".join(f"{k}: {fmt(v)}" for k, v in sorted(x.items())) + "}"
    return type(x).__name__


def run(label, func, anytype=False):
    """Record func() or the exception it raises (only 'EXC' when anytype)."""
    try:
        res = fmt(func())
    except Exception as e:  # noqa: BLE001
        res = "EXC" if anytype else "EXC:" + type(e).__name__
    OUT.append(f"{label} -> {res}")


def state(res):
    """Observable state of a reservoir object."""
    d = {}
    for k in ("time", "pseudopressure", "recovery"):
        if hasattr(res, k):
            v = getattr(res, k)
            d[k] = np.asarray(v) if isinstance(v, np.ndarray) else v
        else:
            d[k] = "<unset>"
    return d


TIMES = {
    "sq20": np.linspace(0, 2, 20) ** 2,
    "lin7": np.linspace(0, 0.5, 7),
    "one": np.array([0.0]),
    "two": np.array([0.0, 1e-3]),
    "nonmono": np.array([0.0, 1.0, 0.5, 2.0]),
    "long": np.linspace(0, 10, 60) ** 2,
}
CLASSES = {
    "Ideal": IdealReservoir,
    "Single": SinglePhaseReservoir,
    "Two": TwoPhaseReservoir,
}


def finish():
    with open(sys.argv[1], "w") as f:
        f.write("\n".join(OUT) + "\n")


# ---- twin1: recovery_factor_interpolator(*, kind="linear") ----
QUERY = np.array([-1.0, 0.0, 1e-4, 0.013, 0.2, 0.5, 1.0, 2.5, 3.9, 4.0, 50.0, 1e4])
for cname, cls in CLASSES.items():
    for fname, fluid in FLUIDS.items():
        if cname == "Ideal" and fname != "gas8000":
            continue
        r0 = cls(8, 500.0, 8000.0, fluid)
        run(f"{cname}/{fname}/before-simulate", lambda: r0.recovery_factor_interpolator())
        run(f"{cname}/{fname}/positional", lambda: r0.recovery_factor_interpolator("linear"), anytype=True)
        for tname, time in TIMES.items():
            for nx in (2, 5, 13):
                lab = f"{cname}/{fname}/{tname}/nx{nx}"
                res = cls(nx, 500.0, 8000.0, fluid)
                run(lab + "/simulate", lambda: res.simulate(time))

                def interp_fresh():
                    f = res.recovery_factor_interpolator()
                    return [f(QUERY), f(0.3), f(time), state(res)]

                run(lab + "/interp-fresh", interp_fresh)

                def interp_cached(density):
                    rf = res.recovery_factor(density=density)
                    f = res.recovery_factor_interpolator()
                    return [rf, f(QUERY), f(np.array([[0.1, 0.2], [0.3, 7.0]])), f.fill_value]

                run(lab + "/interp-density", lambda: interp_cached(True))
                run(lab + "/interp-rate", lambda: interp_cached(False))
# array-valued frac-face pressure in the ideal reservoir
res = IdealReservoir(6, np.array([100.0, 200.0]), 8000.0, None)
run("Ideal/arraypf/simulate", lambda: res.simulate(TIMES["lin7"]))
run("Ideal/arraypf/interp", lambda: res.recovery_factor_interpolator()(QUERY))
res = MultiPhaseReservoir(6, 100.0, 8000.0, FLUIDS["gas8000"])
run("Multi/interp-before", lambda: res.recovery_factor_interpolator())
run("Multi/simulate", lambda: res.simulate(TIMES["lin7"]))
finish()
