"""Equivalence driver for twin3 (compressibility_DAK: one expression, hoisted powers)."""
import itertools
import os
import sys
import warnings

import numpy as np

warnings.simplefilter("ignore")

from bluebonnet.fluids import gas
from bluebonnet.fluids.fluid import build_pvt_gas

DATA = os.environ.get("BB_DATA", "/tmp/twin_gas/tests/data")
out = []


def fmt(v):
    if isinstance(v, tuple):
        return "(" + ", ".join(fmt(x) for x in v) + ")"
    if isinstance(v, np.ndarray):
        return "array[" + ", ".join(fmt(x) for x in v.ravel().tolist()) + "]"
    if isinstance(v, (float, np.floating)):
        return repr(float(v))
    return repr(v)


def rec(label, fn, *args, **kwargs):
    try:
        res = fmt(fn(*args, **kwargs))
    except Exception as exc:  # record only the type
        res = "EXC:" + type(exc).__name__
    out.append(f"{label} {args!r} {kwargs!r} -> {res}")


temps = [60.0, 150.0, 400.0, 35, -100.0]
pressures = [14.7, 100.0, 1000.0, 3500, 8000.0, 15000.0, 1e-3, 0.5]
crit = [(-102.0, 649.0), (-72.2, 653.3), (-116.67, 667.8), (50.0, 1070.0)]
for T, p, (tc, pc) in itertools.product(temps, pressures, crit):
    rec("c", gas.compressibility_DAK, T, p, tc, pc)
rng = np.random.default_rng(31415)
for _ in range(300):
    T = float(rng.uniform(40.0, 450.0))
    p = float(10 ** rng.uniform(0.0, 4.3))
    tc = float(rng.uniform(-130.0, -40.0))
    pc = float(rng.uniform(600.0, 720.0))
    rec("c_rand", gas.compressibility_DAK, T, p, tc, pc)

# table from the test data: pressures of the gas PVT table
tbl = np.genfromtxt(os.path.join(DATA, "pvt_gas.csv"), delimiter=",", names=True)
pcol = tbl[tbl.dtype.names[0]]
for p in pcol[::7]:
    rec("c_tbl", gas.compressibility_DAK, 200.0, float(p), -102.0, 649.0)
    rec("c_tbl_np", gas.compressibility_DAK, np.float64(200.0), p, np.float64(-102.0),
        np.float64(649.0))

# edge cases and raising inputs
edge = [
    (400, 0.0, -102, 649),  # zero pressure -> degenerate bracket
    (400, -50.0, -102, 649),  # negative pressure
    (-459.67, 100.0, -102, 649),  # zero reduced temperature
    (400, 100.0, -459.67, 649),  # division by zero
    (400, 100.0, -102, 0.0),  # division by zero
    (400, 100.0, -102, 0),
    (-600.0, 100.0, -102, 649),  # negative reduced temperature
    (400, float("nan"), -102, 649),
    (float("nan"), 100.0, -102, 649),
    (400, float("inf"), -102, 649),
    (400, 1e9, -102, 649),
    (1e6, 100.0, -102, 649),
    (-300.0, 5000.0, -102, 649),  # very low reduced temperature, may lack a root
    (-400.0, 20000.0, -102, 649),
    ("400", 100.0, -102, 649),
    (400, "100", -102, 649),
    (400, None, -102, 649),
    (400, 100.0, None, 649),
    (400, np.array([100.0, 200.0]), -102, 649),
    (np.array([400.0, 300.0]), 100.0, -102, 649),
    (np.array([400.0]), 100.0, -102, 649),
    (400, np.array([100.0]), -102, 649),
    (400, 100.0, np.array([-102.0, -90.0]), 649),
    (400, 100.0, -102, np.array([649.0, 650.0])),
    (400, 100 + 0j, -102, 649),
]
for e in edge:
    rec("c_edge", gas.compressibility_DAK, *e)
rec("c_kw", gas.compressibility_DAK, temperature=400, pressure=104.7,
    temperature_pseudocritical=-102, pressure_pseudocritical=649)
rec("c_missing", gas.compressibility_DAK, 400, 100, -102)
rec("c_extra", gas.compressibility_DAK, 400, 100, -102, 649, 0.65)


def pvt_any(gas_values, gas_dryness, maxp=None):
    res = build_pvt_gas(gas_values, gas_dryness) if maxp is None else build_pvt_gas(
        gas_values, gas_dryness, maxp)
    try:
        import pandas as pd

        if isinstance(res, pd.DataFrame):
            return tuple(np.asarray(res[c], dtype=float) for c in res.columns)
    except ImportError:
        pass
    if isinstance(res, dict):
        return tuple(np.asarray(res[k], dtype=float) for k in sorted(res))
    return np.asarray(res, dtype=float)


gv = {"N2": 0.03, "H2S": 0.012, "CO2": 0.018, "Gas Specific Gravity": 0.65,
      "Reservoir Temperature (deg F)": 200.0}
rec("pvt", pvt_any, gv, "dry gas", 4000.0)
rec("pvt_wet", pvt_any, gv, "wet gas", 2500)
rec("pvt_bad", pvt_any, gv, "moist gas")

with open(sys.argv[1], "w") as fh:
    fh.write("\n".join(out) + "\n")
