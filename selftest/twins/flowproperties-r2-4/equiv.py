"""Equivalence probe: writes full-precision results of the touched functions to <outfile>."""

from __future__ import annotations

import os
import sys
import warnings

import numpy as np
import pandas as pd
from scipy.interpolate import interp1d

from bluebonnet.flow import flowproperties as fp

DATA = os.environ.get("BB_DATA", "/tmp/twin2_flowproperties/tests/data")
LINES: list[str] = []


def fmt(x, depth=0):
    """Full-precision, deterministic text for numbers / arrays / tables."""
    if isinstance(x, pd.DataFrame):
        cols = ", ".join(f"{c!r}: {fmt(x[c].to_numpy(), depth + 1)}" for c in x.columns)
        return f"DataFrame(index={list(x.index)[:3]}..{len(x.index)}, {cols})"
    if isinstance(x, pd.Series):
        return f"Series(name={x.name!r}, {fmt(x.to_numpy(), depth + 1)})"
    if isinstance(x, np.ndarray):
        if x.dtype.names:
            inner = ", ".join(f"{n}: {fmt(x[n], depth + 1)}" for n in x.dtype.names)
            return f"recarray(shape={x.shape}, {inner})"
        flat = [fmt(v, depth + 1) for v in x.ravel().tolist()]
        return f"ndarray(shape={x.shape}, dtype={x.dtype}, [{', '.join(flat)}])"
    if isinstance(x, (float, np.floating)):
        return repr(float(x)) + "|" + float(x).hex()
    if isinstance(x, (int, np.integer, str, bool, type(None))):
        return repr(x)
    if isinstance(x, (list, tuple)):
        return type(x).__name__ + "(" + ", ".join(fmt(v, depth + 1) for v in x) + ")"
    if isinstance(x, dict):
        return "{" + ", ".join(f"{k!r}: {fmt(x[k], depth + 1)}" for k in sorted(x, key=str)) + "}"
    return f"<{type(x).__name__}>"


def record(label, thunk, with_message=True):
    """Run thunk, log its value or exception type, and any warnings raised on the way."""
    with warnings.catch_warnings(record=True) as caught:
        warnings.simplefilter("always")
        try:
            out = fmt(thunk())
        except Exception as exc:  # noqa: BLE001
            msg = str(exc)
            # messages built from sets depend on the hash seed: keep only the type
            if not with_message or "{" in msg or "Need pvt_props" in msg:
                msg = ""
            out = f"RAISES {type(exc).__name__} {msg}"
    # distinct warnings only: hoisting a repeated pure evaluation legitimately changes how
    # often numpy repeats the very same RuntimeWarning under the "always" filter
    warns = sorted(
        {
            f"{w.category.__name__}:{str(w.message)[:60]}@{os.path.basename(w.filename)}"
            for w in caught
        }
    )
    LINES.append(f"{label} => {out} ;; warnings={warns}")


def flush():
    with open(sys.argv[1], "w") as fh:
        fh.write("\n".join(LINES) + "\n")
    print(f"wrote {len(LINES)} records to {sys.argv[1]}")


SW = 0.1


def load_multiphase_table():
    pvt_oil = pd.read_csv(os.path.join(DATA, "pvt_oil.csv"))
    pvt_water = pd.read_csv(os.path.join(DATA, "pvt_water.csv")).rename(
        columns={"T": "temperature", "P": "pressure", "Viscosity": "mu_w"}
    )
    rename_cols = {
        "T": "temperature",
        "P": "pressure",
        "Oil_Viscosity": "mu_o",
        "Gas_Viscosity": "mu_g",
        "Rso": "Rs",
    }
    df = (
        pvt_water.drop(columns=["temperature"])
        .merge(pvt_oil.rename(columns=rename_cols), on="pressure")
        .assign(Rv=0)
    )
    df["So"] = (1 - SW) / ((df["Rs"].max() - df["Rs"]) * df["Bg"] / df["Bo"] / 5.61458 + 1)
    return df


def make_relperm(**kw):
    base = dict(n_o=1, n_g=1, n_w=1, S_or=0, S_gc=0, S_wc=0.1, k_ro_max=1, k_rw_max=1, k_rg_max=1)
    base.update(kw)
    return fp.RelPermParams(**base)


REFERENCE_DENSITIES = {"rho_o0": 141.5 / (45 + 131.5), "rho_g0": 1.03e-3, "rho_w0": 1}


def make_pvt_kr(df_pvt, df_kr, volatile=False):
    """Interpolator dictionaries as FlowPropertiesTwoPhase.from_table builds them."""
    cols = ["pseudopressure", "pressure", "Bo", "Bg", "Bw", "Rs", "Rv", "mu_o", "mu_g", "mu_w", "So"]
    table = df_pvt.copy()
    if volatile:
        table["Rv"] = 1e-5 * (1 + np.sqrt(table["pressure"] / 1000.0))
    pvt = {c: interp1d(table["pressure"], table[c], fill_value="extrapolate") for c in cols}
    pvt.update(REFERENCE_DENSITIES)
    kr = {f: interp1d(df_kr["So"], df_kr[f]) for f in ("kro", "krg", "krw")}
    return pvt, kr


# ---------------------------------------------------------------- twin 4 probes
GAS_RENAME = {"P": "pressure", "Z-Factor": "z-factor", "Cg": "compressibility", "Viscosity": "viscosity", "Density": "density"}
OIL_RENAME = {"P": "pressure", "Z-Factor": "z-factor", "Co": "compressibility", "Oil_Viscosity": "viscosity", "Oil_Density": "density"}


def describe(obj, table_in):
    probe_m = np.linspace(-0.3, 1.6, 39)
    pressure = np.asarray(obj.pvt_props["pressure"], dtype=float)
    probe_p = np.linspace(pressure.min(), pressure.max(), 17)
    props = obj.pvt_props
    keys = list(props.columns) if hasattr(props, "columns") else list(props)
    return [
        type(obj).__name__,
        type(props).__name__,
        keys,
        obj.m_i,
        {k: np.asarray(props[k]) for k in keys},
        obj.alpha(probe_m),
        obj.m_scaled_func(probe_p),
        obj.alpha.bounds_error,
        [np.asarray(v) for v in obj.alpha.fill_value],
        repr(obj) == repr(props),
        sorted(vars(obj)),
        list(table_in.columns) if hasattr(table_in, "columns") else list(table_in),
    ]


def main():
    gas = pd.read_csv(os.path.join(DATA, "pvt_gas.csv")).rename(columns=GAS_RENAME)
    oil = pd.read_csv(os.path.join(DATA, "pvt_oil.csv")).rename(columns=OIL_RENAME)
    ideal = pd.read_csv(os.path.join(DATA, "pvt_ideal_gas.csv")).rename(columns=GAS_RENAME)
    hay = pd.read_csv(os.path.join(DATA, "pvt_gas_HAYNESVILLE SHALE_20.csv"))
    multi = pd.read_csv(os.path.join(DATA, "pvt_multiphase_oil.csv"))
    tables = {
        "gas": gas,
        "oil": oil,
        "ideal_gas": ideal,  # compressibility 0 in first row -> infinities
        "haynesville": hay,
        "gas_from_row1": gas.iloc[1:].reset_index(drop=True),
        "gas_dict": {c: gas[c].to_numpy() for c in gas.columns},
        "gas_dict_lists": {c: gas[c].tolist() for c in ("pressure", "pseudopressure", "compressibility", "viscosity", "z-factor")},
        "gas_minimal_long": gas[["pseudopressure", "compressibility", "pressure", "viscosity", "z-factor"]],
        "with_alpha": gas.iloc[1:].assign(alpha=lambda d: 3.0 / (d["compressibility"] * d["viscosity"])),
        "with_alpha_short": gas.iloc[1:][["pressure", "pseudopressure"]].assign(alpha=np.linspace(5.0, 1.0, len(gas) - 1)),
        "with_alpha_dict": {
            "pressure": gas["pressure"].to_numpy()[1:],
            "pseudopressure": gas["pseudopressure"].to_numpy()[1:],
            "alpha": np.linspace(2.0, 9.0, len(gas) - 1),
        },
        "with_alpha_zero_m": gas.assign(alpha=1.0),  # 1/pseudopressure = inf at first row
        "alpha_nan": gas.iloc[1:].assign(alpha=lambda d: np.where(d["pressure"] < 100, np.nan, 2.0)),
        "multiphase_scaled": multi.assign(alpha=np.linspace(1.0, 4.0, len(multi))),
        "missing_z": gas.drop(columns=["z-factor"]),
        "missing_pressure": gas.drop(columns=["pressure"]),
        "missing_pseudo": gas.drop(columns=["pseudopressure"]),
        "missing_pseudo_with_alpha": gas.drop(columns=["pseudopressure"]).assign(alpha=1.0),
        "only_simple_cols": gas[["pressure", "compressibility", "viscosity"]],
        "missing_viscosity": gas.drop(columns=["viscosity"]),
        "empty_df": pd.DataFrame(),
        "empty_dict": {},
        "one_row": gas.iloc[5:6],
        "two_rows": gas.iloc[5:7],
        "descending": gas.iloc[1:][::-1].reset_index(drop=True),
        "string_col": gas.assign(viscosity="x"),
    }
    pressures = (8000.0, 5000, 10.0, 0.0, 12345.6, 1.0e5, -5.0, float("nan"), np.array([2000.0, 4000.0]), None, "7000")
    for cname, cls in (("FlowProperties", fp.FlowProperties), ("Simple", fp.FlowPropertiesSimple), ("OnePhase", fp.FlowPropertiesOnePhase)):
        for tname, table in tables.items():
            for p_i in pressures if tname in ("gas", "oil", "with_alpha", "gas_dict") else pressures[:3] + pressures[5:6]:
                record(f"{cname}/{tname}/p_i={p_i!r}", lambda: describe(cls(table, p_i), table))
        record(f"{cname}/none_table", lambda: cls(None, 5000.0))
        record(f"{cname}/list_table", lambda: cls([1, 2, 3], 5000.0))
        record(f"{cname}/tuple_keys", lambda: cls(("pressure", "pseudopressure", "alpha"), 5000.0))

    # warnings promoted to errors: the user-diffusivity branch must fail at the same point
    def strict(cls, table, p_i):
        with warnings.catch_warnings():
            warnings.simplefilter("error")
            return describe(cls(table, p_i), table)

    for tname in ("gas", "with_alpha", "with_alpha_short", "with_alpha_zero_m", "missing_pseudo_with_alpha", "ideal_gas"):
        for cname, cls in (("FlowProperties", fp.FlowProperties), ("Simple", fp.FlowPropertiesSimple)):
            for p_i in (5000.0, 1.0e5):
                record(f"strict/{cname}/{tname}/p_i={p_i!r}", lambda: strict(cls, tables[tname], p_i))

    # subclass route (classmethod builds through FlowProperties.__init__)
    df_pvt = load_multiphase_table()
    df_kr = fp.relative_permeabilities_twophase(make_relperm())
    for p_i in (8000.0, 3000.0, 9.0e4):
        def build():
            table = fp.rescale_pseudopressure(df_pvt, 1000, 8000.0)
            obj = fp.FlowPropertiesTwoPhase.from_table(table, df_kr, REFERENCE_DENSITIES, 0.1, SW, p_i)
            return describe(obj, table)

        record(f"TwoPhase.from_table/p_i={p_i}", build)

    # consumers of FlowProperties: a short reservoir simulation
    from bluebonnet.flow import SinglePhaseReservoir

    for tname in ("gas", "oil", "with_alpha"):
        def simulate():
            fluid = fp.FlowProperties(tables[tname], 6000.0)
            res = SinglePhaseReservoir(40, 1000.0, 6000.0, fluid)
            res.simulate(np.linspace(0.0, 2.0, 60))
            return [res.pseudopressure[::10], res.recovery_factor()]

        record(f"reservoir/{tname}", simulate)
    flush()


main()
