"""Equivalence driver for bluebonnet.plotting (recovery-rate / recovery-factor plots).

usage: PYTHONPATH=<tree>/src /venv/bin/python equiv.py <outfile>
"""

from __future__ import annotations

import hashlib
import os
import sys
import warnings

import matplotlib

matplotlib.use("Agg")

import matplotlib.pyplot as plt
import numpy as np
import pandas as pd

from bluebonnet import plotting
from bluebonnet.flow import FlowProperties, IdealReservoir, SinglePhaseReservoir
from bluebonnet.plotting import (
    plot_pseudopressure,
    plot_recovery_factor,
    plot_recovery_rate,
)

DATA = os.environ.get("BB_DATA", "/tmp/twin12_plotting/tests/data")
OUT = []


def emit(tag, value):
    OUT.append(f"{tag} :: {value}")


def fmt(a):
    """Full-precision dump of anything array-like."""
    try:
        arr = np.asarray(a)
    except Exception as e:  # noqa: BLE001
        return f"<unconvertible {type(e).__name__}>"
    if arr.dtype == object:
        return repr(arr.tolist())
    flat = arr.ravel()
    return f"{arr.dtype}{arr.shape}[" + ",".join(repr(v.item()) for v in flat) + "]"


def safe(tag, thunk):
    try:
        emit(tag, thunk())
    except Exception as e:  # noqa: BLE001
        emit(tag, f"EXC {type(e).__name__}: {e}")


def dump_axes(tag, ax):
    fig = ax.figure
    emit(tag + ".nlines", len(ax.lines))
    for k, line in enumerate(ax.lines):
        emit(f"{tag}.line{k}.x", fmt(line.get_xdata(orig=True)))
        emit(f"{tag}.line{k}.y", fmt(line.get_ydata(orig=True)))
        emit(
            f"{tag}.line{k}.props",
            (
                line.get_color(),
                line.get_label(),
                line.get_linestyle(),
                line.get_linewidth(),
                line.get_marker(),
                line.get_alpha(),
                line.get_zorder(),
            ),
        )
    safe(tag + ".xlim", lambda: fmt(ax.get_xlim()))
    safe(tag + ".ylim", lambda: fmt(ax.get_ylim()))
    safe(tag + ".scales", lambda: (ax.get_xscale(), ax.get_yscale()))
    safe(tag + ".labels", lambda: (ax.get_xlabel(), ax.get_ylabel(), ax.get_title()))
    safe(tag + ".xticks", lambda: fmt(ax.get_xticks()))
    safe(tag + ".yticks", lambda: fmt(ax.get_yticks()))
    safe(tag + ".xticklabels", lambda: [t.get_text() for t in ax.get_xticklabels()])
    safe(tag + ".xlocator", lambda: type(ax.xaxis.get_major_locator()).__name__)
    safe(tag + ".xtransform", lambda: type(ax.xaxis.get_transform()).__name__)
    safe(tag + ".legend", lambda: ax.get_legend_handles_labels()[1])
    fig.set_size_inches(4, 3)
    fig.set_dpi(60)

    def render():
        with warnings.catch_warnings():
            warnings.simplefilter("ignore")
            fig.canvas.draw()
        buf = np.asarray(fig.canvas.buffer_rgba())
        return hashlib.sha256(buf.tobytes()).hexdigest()

    safe(tag + ".render", render)


def run(tag, func, *args, **kwargs):
    """Call a plot function, dump the axes (or the exception) and the warnings."""
    before = len(plt.get_fignums())
    with warnings.catch_warnings(record=True) as caught:
        warnings.simplefilter("always")
        try:
            ax = func(*args, **kwargs)
        except Exception as e:  # noqa: BLE001
            emit(tag + ".EXC", f"{type(e).__name__}: {e}")
            ax = None
        wlist = [(w.category.__name__, str(w.message)) for w in caught]
    emit(tag + ".warnings", wlist)
    emit(tag + ".newfigs", len(plt.get_fignums()) - before)
    if ax is not None:
        emit(tag + ".rettype", type(ax).__name__)
        given = kwargs.get("ax", None)
        if given is None:
            given = next((a for a in args if isinstance(a, plt.Axes)), None)
        if given is not None:
            emit(tag + ".same_ax", ax is given)
        dump_axes(tag, ax)
    else:
        # partially drawn axes that were passed in are still observable
        given = kwargs.get("ax", None)
        if given is None:
            given = next((a for a in args if isinstance(a, plt.Axes)), None)
        if given is not None:
            dump_axes(tag + ".partial", given)
    plt.close("all")


class Duck:
    """A duck-typed 'reservoir': anything with the attributes the plots read."""

    def __init__(self, nx, pseudopressure, time, recovery):
        self.nx = nx
        self.pseudopressure = pseudopressure
        self.time = time
        self._recovery = recovery
        self.calls = 0

    def recovery_factor(self):
        self.calls += 1
        return self._recovery


class Unsimulated:
    nx = 5

    def recovery_factor(self):
        msg = "Need to run simulate before calculating recovery factor"
        raise RuntimeError(msg)


def build_reservoirs():
    res = {}
    ideal = IdealReservoir(20, 100.0, 2000.0)
    ideal.simulate(np.linspace(0, np.sqrt(3.0), 120) ** 2)
    res["ideal"] = ideal

    ren = {
        "P": "pressure",
        "Z-Factor": "z-factor",
        "Cg": "compressibility",
        "Viscosity": "viscosity",
        "Density": "density",
    }
    pvt = pd.read_csv(os.path.join(DATA, "pvt_gas.csv")).rename(columns=ren)
    fluid = FlowProperties(pvt, 2000.0)
    sp = SinglePhaseReservoir(30, pressure_fracface=100.0, pressure_initial=2000.0, fluid=fluid)
    sp.simulate(np.linspace(0, np.sqrt(11.0), 300) ** 2)
    res["gas"] = sp

    sp2 = SinglePhaseReservoir(16, pressure_fracface=500.0, pressure_initial=2000.0, fluid=fluid)
    t2 = np.linspace(0, 1.2, 90) ** 2
    sp2.simulate(t2, pressure_fracface=np.linspace(1500.0, 300.0, 90))
    res["gas_varpf"] = sp2

    short = IdealReservoir(8, 10.0, 50.0)
    short.simulate(np.array([0.0, 1e-3, 4e-3, 0.02, 0.1, 0.5, 0.9]))
    res["short"] = short
    return res


def time_variants(t):
    """Same numbers, different containers (positions identical)."""
    n = len(t)
    rng = np.random.default_rng(7)
    perm = rng.permutation(n)
    return {
        "ndarray": np.array(t),
        "list": [float(v) for v in t],
        "tuple": tuple(float(v) for v in t),
        "series_default": pd.Series(np.array(t)),
        "series_shuffled": pd.Series(np.array(t), index=perm),
        "series_dup": pd.Series(np.array(t), index=np.arange(n) // 2),
        "series_str": pd.Series(np.array(t), index=[f"r{k % 5}" for k in range(n)]),
        "series_named_float_index": pd.Series(np.array(t), index=np.linspace(5.0, -5.0, n), name="t"),
        "float32": np.array(t, dtype=np.float32),
    }


def main(outfile):
    res = build_reservoirs()

    for name, r in res.items():
        for change_ticks in (False, True):
            fig, ax = plt.subplots()
            run(f"rate[{name},ticks={change_ticks},ax]", plot_recovery_rate, r, ax, change_ticks)
            fig, ax = plt.subplots()
            run(f"rf[{name},ticks={change_ticks},ax]", plot_recovery_factor, r, ax, change_ticks)
            run(f"rate[{name},ticks={change_ticks},noax]", plot_recovery_rate, r, change_ticks=change_ticks)
            run(f"rf[{name},ticks={change_ticks},noax]", plot_recovery_factor, r, change_ticks=change_ticks)
        # keyword forms and plot_kwargs
        fig, ax = plt.subplots()
        run(
            f"rate[{name},kw]",
            plot_recovery_rate,
            reservoir=r,
            ax=ax,
            change_ticks=True,
            plot_kwargs={"color": "k", "linestyle": "--", "linewidth": 0.5},
        )
        fig, ax = plt.subplots()
        run(
            f"rf[{name},kw]",
            plot_recovery_factor,
            reservoir=r,
            ax=ax,
            change_ticks=True,
            plot_kwargs={"color": "r", "marker": "o", "alpha": 0.5},
        )
        # plot_kwargs that collide with the fixed label -> TypeError
        fig, ax = plt.subplots()
        run(f"rate[{name},dup_label]", plot_recovery_rate, r, ax=ax, plot_kwargs={"label": "mine"})
        fig, ax = plt.subplots()
        run(f"rf[{name},dup_label]", plot_recovery_factor, r, ax=ax, plot_kwargs={"label": "mine"})
        fig, ax = plt.subplots()
        run(f"rate[{name},bad_kw]", plot_recovery_rate, r, ax=ax, plot_kwargs={"nonsense": 1})
        fig, ax = plt.subplots()
        run(f"rf[{name},bad_kw]", plot_recovery_factor, r, ax=ax, plot_kwargs={"nonsense": 1})
        # an empty dict is falsy but not None
        fig, ax = plt.subplots()
        run(f"rate[{name},emptykw]", plot_recovery_rate, r, ax=ax, plot_kwargs={})
        # two plots on the same axes
        fig, ax = plt.subplots()
        plot_recovery_factor(r, ax)
        run(f"rf[{name},twice]", plot_recovery_factor, res["short"], ax, True)
        fig, ax = plt.subplots()
        plot_recovery_rate(r, ax)
        run(f"rate[{name},twice]", plot_recovery_rate, res["short"], ax, True)

    # duck-typed reservoirs: time in many containers, with non-default indexes
    base = res["gas_varpf"]
    t = np.asarray(base.time)
    rf = np.asarray(base.recovery_factor())
    for cname, tv in time_variants(t).items():
        for change_ticks in (False, True):
            d = Duck(base.nx, base.pseudopressure, tv, rf)
            fig, ax = plt.subplots()
            run(f"rate[duck:{cname},ticks={change_ticks}]", plot_recovery_rate, d, ax, change_ticks)
            emit(f"rate[duck:{cname},ticks={change_ticks}].calls", d.calls)
            emit(f"rate[duck:{cname}].time_untouched", (type(d.time).__name__, d.time is tv))
            d = Duck(base.nx, base.pseudopressure, tv, rf)
            fig, ax = plt.subplots()
            run(f"rf[duck:{cname},ticks={change_ticks}]", plot_recovery_factor, d, ax, change_ticks)
            emit(f"rf[duck:{cname},ticks={change_ticks}].calls", d.calls)
    # recovery as list / Series with odd index
    rf_series = pd.Series(rf, index=np.arange(len(rf))[::-1])
    for rname, rv in {"list": list(rf), "series_rev": rf_series}.items():
        d = Duck(base.nx, base.pseudopressure, t, rv)
        fig, ax = plt.subplots()
        run(f"rate[duck-rf:{rname}]", plot_recovery_rate, d, ax, True)
        d = Duck(base.nx, base.pseudopressure, t, rv)
        fig, ax = plt.subplots()
        run(f"rf[duck-rf:{rname}]", plot_recovery_factor, d, ax, True)

    # edge cases for time
    edge_times = {
        "empty": (np.array([]), np.array([])),
        "one": (np.array([0.5]), np.array([0.1])),
        "two": (np.array([0.0, 2.0]), np.array([0.0, 0.3])),
        "nan_first": (np.array([np.nan, 1.0, 2.0]), np.array([0.0, 0.1, 0.2])),
        "nan_mid": (np.array([0.0, np.nan, 2.0]), np.array([0.0, 0.1, 0.2])),
        "nan_last": (np.array([0.0, 1.0, np.nan]), np.array([0.0, 0.1, 0.2])),
        "inf": (np.array([0.0, 1.0, np.inf]), np.array([0.0, 0.1, 0.2])),
        "zeros": (np.array([0.0, 0.0, 0.0]), np.array([0.0, 0.0, 0.0])),
        "negative": (np.array([-3.0, -2.0, -1.0]), np.array([0.0, 0.1, 0.2])),
        "unsorted": (np.array([0.0, 3.0, 1.0, 2.0]), np.array([0.0, 0.1, 0.2, 0.3])),
        "int": (np.arange(6), np.linspace(0, 0.5, 6)),
        "2d": (np.ones((3, 2)), np.ones((3, 2))),
        "mismatch": (np.linspace(0, 1, 5), np.linspace(0, 1, 4)),
        "huge": (np.array([0.0, 1e300, 1e308]), np.array([0.0, 0.1, 0.2])),
        "tiny": (np.array([0.0, 1e-320, 1e-310]), np.array([0.0, 0.1, 0.2])),
        "scalar": (3.0, 0.2),
        "none": (None, None),
        "str": (["a", "b", "c"], np.array([0.0, 0.1, 0.2])),
    }
    for ename, (tv, rv) in edge_times.items():
        for change_ticks in (False, True):
            d = Duck(4, None, tv, rv)
            fig, ax = plt.subplots()
            run(f"rate[edge:{ename},ticks={change_ticks}]", plot_recovery_rate, d, ax=ax, change_ticks=change_ticks)
            d = Duck(4, None, tv, rv)
            fig, ax = plt.subplots()
            run(f"rf[edge:{ename},ticks={change_ticks}]", plot_recovery_factor, d, ax=ax, change_ticks=change_ticks)

    # unsimulated reservoirs
    fresh = IdealReservoir(10, 100.0, 2000.0)
    fig, ax = plt.subplots()
    run("rate[fresh]", plot_recovery_rate, fresh, ax=ax)
    fig, ax = plt.subplots()
    run("rf[fresh]", plot_recovery_factor, fresh, ax=ax)
    run("rate[fresh,noax]", plot_recovery_rate, fresh)
    run("rf[fresh,noax]", plot_recovery_factor, fresh)
    run("rate[unsim]", plot_recovery_rate, Unsimulated())
    run("rf[unsim]", plot_recovery_factor, Unsimulated())
    run("rate[None]", plot_recovery_rate, None)
    run("rf[None]", plot_recovery_factor, None)

    # repeated calls must not leak state between calls (module-level constants!)
    for rep in range(3):
        for name in ("short", "gas", "ideal"):
            fig, ax = plt.subplots()
            run(f"rate[rep{rep}:{name}]", plot_recovery_rate, res[name], ax, True)
            fig, ax = plt.subplots()
            run(f"rf[rep{rep}:{name}]", plot_recovery_factor, res[name], ax, True)

    # the reservoir's own arrays must not have been modified
    for name, r in res.items():
        emit(f"after.{name}.time", hashlib.sha256(np.asarray(r.time).tobytes()).hexdigest())
        emit(f"after.{name}.pp", hashlib.sha256(np.asarray(r.pseudopressure).tobytes()).hexdigest())
        emit(f"after.{name}.recovery", hashlib.sha256(np.asarray(r.recovery).tobytes()).hexdigest())

    # public names of the module
    emit("module.public", sorted(n for n in dir(plotting) if not n.startswith("_")))

    with open(outfile, "w") as f:
        f.write("\n".join(OUT) + "\n")


if __name__ == "__main__":
    main(sys.argv[1])
