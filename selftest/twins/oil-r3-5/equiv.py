"""Equivalence driver for twin5 (debug logging + shared dead-oil helper in viscosity_beggs_robinson).

The whole driver is run twice: with logging left unconfigured and with a DEBUG handler attached
(so that the log calls actually format their arguments).."""

from __future__ import annotations

import sys
import warnings

import numpy as np

warnings.simplefilter("ignore")
np.seterr(all="ignore")

from bluebonnet.fluids import oil  # noqa: E402
from bluebonnet.fluids.fluid import Fluid  # noqa: E402


def fmt(x):
    if isinstance(x, np.ndarray):
        return f"ndarray{x.shape}{x.dtype}[" + ",".join(fmt(v) for v in x.ravel().tolist()) + "]"
    if isinstance(x, (list, tuple)):
        return type(x).__name__ + "[" + ",".join(fmt(v) for v in x) + "]"
    if isinstance(x, (float, np.floating)):
        return type(x).__name__ + ":" + repr(float(x))
    if isinstance(x, complex):
        return "complex:" + repr(x)
    return type(x).__name__ + ":" + repr(x)


LINES = []


def record(label, fn, *args, **kwargs):
    try:
        out = fmt(fn(*args, **kwargs))
    except Exception as e:  # noqa: BLE001
        out = "EXC:" + type(e).__name__
    LINES.append(f"{label} -> {out}")


import io  # noqa: E402
import logging  # noqa: E402

fluids = [
    (200.0, 35.0, 0.8, 650.0),
    (200, 35, 0.8, 650),
    (150.0, 25.0, 0.65, 300.0),
    (250.0, 45.0, 1.1, 1500.0),
    (100.0, 10.0, 0.6, 50.0),
    (300.0, 55.0, 0.9, 2500.0),
    (np.float64(180.0), np.float64(30.0), np.float64(0.75), np.float64(500.0)),
    (200.0, 35.0, 0.8, 0.0),
    (200.0, 35.0, 0.8, -100.0),
    (200.0, 35.0, 0.8, -650.0),
    (200.0, 35.0, -0.8, 650.0),
    (200.0, 35.0, 0.0, 650.0),
    (0.0, 35.0, 0.8, 650.0),
    (0, 35.0, 0.8, 650.0),
    (-50.0, 35.0, 0.8, 650.0),
    (np.float64(-50.0), 35.0, 0.8, 650.0),
    (np.float64(0.0), 35.0, 0.8, 650.0),
    (200.0, -131.5, 0.8, 650.0),
    (200.0, 500.0, 0.8, 650.0),
    (float("nan"), 35.0, 0.8, 650.0),
    (float("inf"), 35.0, 0.8, 650.0),
    (200.0, "35", 0.8, 650.0),
    (None, 35.0, 0.8, 650.0),
    (np.array([150.0, 200.0]), 35.0, 0.8, 650.0),
    (200.0, np.array([25.0, 35.0]), 0.8, 650.0),
]
scalars = [14.7, 100.0, 500, 1000.0, 2000, 2627.2017021875276, 2627.3, 3000.0, 5000, 10000.0, 1.0e6,
           0.0, 0, -10.0, -25.48, -30.0, np.float64(1234.5), np.float64(-100.0), np.float64(0.0),
           float("inf"), float("nan"), True, 1 + 2j]
odd = [np.array(2500.0), np.array(3500.0), np.array([1000.0]), np.array([4000.0]), np.array([1000.0, 4000.0]),
       np.array([]), [1000.0, 3000.0], (1000.0,), "abc", None]


def run_all(tag):
    for i, (t, api, sg, gor) in enumerate(fluids):
        try:
            pb = oil.pressure_bubblepoint_Standing(t, api, sg, gor)
            extra = [pb, np.nextafter(pb, 0.0), np.nextafter(pb, 1e9)] if np.ndim(pb) == 0 and not isinstance(pb, complex) else []
        except Exception:  # noqa: BLE001
            extra = []
        for p in [*scalars, *extra, *odd]:
            record(f"{tag} mu[{i}] p={p!r}", oil.viscosity_beggs_robinson, t, p, api, sg, gor)
        try:
            f = Fluid(t, api, sg, gor)
        except Exception as e:  # noqa: BLE001
            LINES.append(f"{tag} Fluid[{i}] EXC:{type(e).__name__}")
            continue
        record(f"{tag} Fluid.oil_viscosity[{i}] scalar", f.oil_viscosity, 2500.0)
        record(f"{tag} Fluid.oil_viscosity[{i}] arr", f.oil_viscosity, np.linspace(20.0, 9000.0, 25))
        record(f"{tag} Fluid.oil_viscosity[{i}] 2d", f.oil_viscosity, np.linspace(20.0, 9000.0, 24).reshape(4, 6))
    record(f"{tag} mu kw", oil.viscosity_beggs_robinson, temperature=200.0, pressure=3000.0, api_gravity=35.0,
           gas_specific_gravity=0.8, solution_gor_initial=650.0)
    record(f"{tag} mu missing", oil.viscosity_beggs_robinson, 200.0, 3000.0, 35.0, 0.8)
    record(f"{tag} mu extra", oil.viscosity_beggs_robinson, 200.0, 3000.0, 35.0, 0.8, 650.0, 1)
    # the dead->live helper is shared and must be untouched
    for md in (0.5, 1.0, 3.7, np.array([0.5, 2.0]), -1.0, 0.0):
        for rs in (0.0, 100.0, 650.0, np.array([50.0, 900.0]), -100.0, -200.0):
            record(f"{tag} dead_to_live md={md!r} rs={rs!r}", oil._mu_dead_to_live_br, md, rs)


run_all("quiet")
# now with a DEBUG handler attached to the root logger so every log call is formatted
stream = io.StringIO()
handler = logging.StreamHandler(stream)
root = logging.getLogger()
old_level = root.level
root.addHandler(handler)
root.setLevel(logging.DEBUG)
try:
    run_all("debug")
finally:
    root.removeHandler(handler)
    root.setLevel(old_level)

# "quiet" and "debug" passes must agree with each other as well
q = [ln[len("quiet "):] for ln in LINES if ln.startswith("quiet ")]
d = [ln[len("debug "):] for ln in LINES if ln.startswith("debug ")]
LINES.append(f"quiet == debug: {q == d}")

with open(sys.argv[1], "w") as fh:
    fh.write("\n".join(LINES) + "\n")
