"""Equivalence driver for twin5: Fluid.water_FVF / gas_FVF / gas_viscosity (and the other Fluid methods)."""
from __future__ import annotations

import os
import sys
import warnings

import numpy as np
import pandas as pd

warnings.simplefilter("ignore")

from bluebonnet.fluids import Fluid

BB_DATA = os.environ.get("BB_DATA", "/tmp/twin_waterfluid/tests/data")


def show(x):
    if isinstance(x, np.ndarray):
        return f"ndarray{x.shape}{x.dtype}[" + ",".join(show(v) for v in x.ravel().tolist()) + "]"
    if isinstance(x, (pd.Series,)):
        return "Series:" + show(x.to_numpy())
    if isinstance(x, (list, tuple)):
        return type(x).__name__ + "(" + ",".join(show(v) for v in x) + ")"
    return f"{type(x).__name__}:{x!r}"


def call(out, label, f, *a, **k):
    try:
        r = show(f(*a, **k))
    except BaseException as e:  # noqa: BLE001
        r = "EXC " + type(e).__name__
    out.append(f"{label} -> {r}")


class Counting:
    """Iterable that records how it is consumed."""

    def __init__(self, values, log):
        self.values, self.log = values, log

    def __iter__(self):
        self.log.append("iter")
        for v in self.values:
            self.log.append(f"yield {v}")
            yield v


def main(outfile):
    out = []
    df = pd.read_csv(os.path.join(BB_DATA, "pvt_gas.csv"))
    P_table = df["P"].to_numpy()[1::40]
    fluids = {
        "oil": lambda: Fluid(200, 35, 0.8, 650),
        "kw": lambda: Fluid(temperature=400.0, api_gravity=35.0, gas_specific_gravity=0.65,
                            solution_gor_initial=0.0, salinity=15, water_saturation_initial=0.2),
        "np": lambda: Fluid(np.float64(250.0), np.float64(40.0), np.float64(0.7), np.float64(1000.0),
                            np.float64(3.0)),
        "cold": lambda: Fluid(-459.67, 35, 0.8, 650),
        "very cold": lambda: Fluid(-1000.0, 35, 0.8, 650),
        "str T": lambda: Fluid("200", 35, 0.8, 650),
        "None T": lambda: Fluid(None, 35, 0.8, 650),
        "None sg": lambda: Fluid(200, 35, None, 650),
        "str sg": lambda: Fluid(200, 35, "0.8", 650),
        "zero sg": lambda: Fluid(200, 35, 0.0, 650),
        "nan T": lambda: Fluid(float("nan"), 35, 0.8, 650),
        "array T": lambda: Fluid(np.array([200.0, 300.0]), 35, 0.8, 650),
    }
    pressures = [
        ("arr", np.array([14.7, 100.0, 1000.0, 3000.0, 8000.0, 14000.0])),
        ("int arr", np.array([100, 2000, 6000])),
        ("list", [50.0, 500, 5000.0]),
        ("tuple", (250.0,)),
        ("empty", np.array([])),
        ("empty list", []),
        ("2d", np.array([[100.0, 200.0], [300.0, 400.0]])),
        ("series", pd.Series([100.0, 2500.0])),
        ("generator", None),  # created fresh below
        ("table", P_table),
        ("scalar float", 3000.0),
        ("scalar int", 3000),
        ("np scalar", np.float64(3000.0)),
        ("0-d", np.array(3000.0)),
        ("None", None),
        ("str", "12"),
        ("zero", np.array([0.0, 100.0])),
        ("negative", np.array([100.0, -100.0])),
        ("nan", np.array([100.0, np.nan, 200.0])),
        ("inf", np.array([np.inf])),
        ("with None", [100.0, None]),
        ("with str", [100.0, "a"]),
        ("dict", {100.0: 1, 200.0: 2}),
    ]
    pcs = [(-102.0, 649.0), (-72.20351526841193, 653.2582064200534), (-459.67, 649.0), (-102.0, 0.0),
           (None, 649.0), (-102.0, "649"), (float("nan"), 649.0)]
    for fname, make in fluids.items():
        try:
            fl = make()
        except BaseException as e:  # noqa: BLE001
            out.append(f"Fluid[{fname}] -> EXC {type(e).__name__}")
            continue
        out.append(f"Fluid[{fname}] repr -> {fl!r}")
        call(out, f"{fname}.pressure_bubblepoint", fl.pressure_bubblepoint)
        for pname, p in pressures:
            def fresh():
                return (x for x in [100.0, 2000.0]) if pname == "generator" else p
            call(out, f"{fname}.water_FVF[{pname}]", fl.water_FVF, fresh())
            call(out, f"{fname}.water_viscosity[{pname}]", fl.water_viscosity, fresh())
            if pname in ("arr", "scalar float", "list", "None"):
                call(out, f"{fname}.oil_FVF[{pname}]", fl.oil_FVF, fresh())
                call(out, f"{fname}.oil_viscosity[{pname}]", fl.oil_viscosity, fresh())
            for tpc, ppc in (pcs if pname in ("arr", "scalar float", "empty", "with None") else pcs[:2]):
                call(out, f"{fname}.gas_FVF[{pname},{tpc},{ppc}]", fl.gas_FVF, fresh(), tpc, ppc)
                call(out, f"{fname}.gas_viscosity[{pname},{tpc},{ppc}]", fl.gas_viscosity, fresh(), tpc, ppc)
    fl = Fluid(400, 35, 0.65, 0)
    arr = np.array([100.0, 1000.0])
    call(out, "gas_FVF kw", fl.gas_FVF, pressure=arr, temperature_pseudocritical=-102, pressure_pseudocritical=649)
    call(out, "gas_viscosity kw", fl.gas_viscosity, pressure_pseudocritical=649, pressure=arr, temperature_pseudocritical=-102)
    call(out, "water_FVF kw", fl.water_FVF, pressure=arr)
    call(out, "gas_FVF missing", fl.gas_FVF, arr, -102)
    call(out, "gas_viscosity missing", fl.gas_viscosity, arr)
    call(out, "water_FVF missing", fl.water_FVF)
    call(out, "gas_viscosity extra", fl.gas_viscosity, arr, -102, 649, 0.7)
    # consumption order of the pressure iterable, and failure part-way through
    for meth, extra in [("water_FVF", ()), ("gas_FVF", (-102.0, 649.0)), ("gas_viscosity", (-102.0, 649.0))]:
        log = []
        call(out, f"{meth} counting", getattr(fl, meth), Counting([100.0, 200.0, 300.0], log), *extra)
        out.append(f"{meth} counting log -> {log}")
        log = []
        call(out, f"{meth} counting bad", getattr(fl, meth), Counting([100.0, "bad", 300.0], log), *extra)
        out.append(f"{meth} counting bad log -> {log}")
    # attributes are read at call time (mutated and deleted attributes)
    fl2 = Fluid(200, 35, 0.8, 650, 5.0)
    fl2.temperature = 300.0
    fl2.gas_specific_gravity = 0.7
    call(out, "mutated water_FVF", fl2.water_FVF, arr)
    call(out, "mutated gas_FVF", fl2.gas_FVF, arr, -102.0, 649.0)
    call(out, "mutated gas_viscosity", fl2.gas_viscosity, arr, -102.0, 649.0)
    del fl2.gas_specific_gravity
    call(out, "deleted sg gas_viscosity arr", fl2.gas_viscosity, arr, -102.0, 649.0)
    call(out, "deleted sg gas_viscosity empty", fl2.gas_viscosity, [], -102.0, 649.0)
    call(out, "deleted sg gas_viscosity scalar", fl2.gas_viscosity, 100.0, -102.0, 649.0)
    del fl2.temperature
    call(out, "deleted T water_FVF arr", fl2.water_FVF, arr)
    call(out, "deleted T water_FVF empty", fl2.water_FVF, [])
    call(out, "deleted T water_FVF scalar", fl2.water_FVF, 100.0)
    call(out, "deleted T gas_FVF scalar", fl2.gas_FVF, 100.0, -102.0, 649.0)
    call(out, "deleted T gas_FVF empty", fl2.gas_FVF, (), -102.0, 649.0)
    with open(outfile, "w") as fh:
        fh.write("\n".join(out) + "\n")


if __name__ == "__main__":
    main(sys.argv[1])
