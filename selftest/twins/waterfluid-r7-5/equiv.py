"""Equivalence harness for twin5: pseudopressure() error reporting."""
import os
import sys
import warnings

import numpy as np
import pandas as pd

from bluebonnet.fluids import pseudopressure as pseudopressure_pkg
from bluebonnet.fluids.fluid import pseudopressure

DATA = os.environ.get("BB_DATA", "/tmp/twin7_waterfluid/tests/data")
out = []


def show(x):
    if isinstance(x, pd.Series):
        return "Series[" + " ".join(float(v).hex() for v in x.to_numpy()) + "]"
    if isinstance(x, np.ndarray):
        if x.dtype == object or x.dtype.kind == "c":
            return f"ndarray{x.shape}{x.dtype}{x.tolist()!r}"
        return f"ndarray{x.shape}{x.dtype}[" + " ".join(float(v).hex() for v in x.ravel()) + "]"
    if isinstance(x, (float, np.floating)):
        return f"{type(x).__name__}:{float(x).hex()}"
    return f"{type(x).__name__}:{x!r}"


def record(label, fn):
    with warnings.catch_warnings(record=True) as caught:
        warnings.simplefilter("always")
        try:
            res = f"{show(fn())}"
        except Exception as e:  # noqa: BLE001
            res = f"EXC {type(e).__name__} mro={[c.__name__ for c in type(e).__mro__]}"
        cats = sorted({w.category.__name__ for w in caught})
    out.append(f"{label}: {res} warnings={cats}")


rng = np.random.default_rng(7)
a = np.array
p3 = a([100.0, 200.0, 400.0])
cases = {
    "plain": (p3, a([0.01, 0.02, 0.03]), a([0.9, 0.8, 0.85])),
    "random 200": (np.sort(rng.uniform(10, 14000, 200)), rng.uniform(0.01, 0.05, 200), rng.uniform(0.6, 1.4, 200)),
    "unsorted pressure": (a([300.0, 100.0, 200.0]), a([0.01, 0.02, 0.03]), a([0.9, 0.8, 0.85])),
    "repeated pressure": (a([100.0, 100.0, 200.0]), a([0.01, 0.02, 0.03]), a([0.9, 0.8, 0.85])),
    "length 1": (a([100.0]), a([0.01]), a([0.9])),
    "length 2": (a([100.0, 150.0]), a([0.01, 0.011]), a([0.9, 0.91])),
    "empty": (a([]), a([]), a([])),
    "empty int": (a([], dtype=int), a([], dtype=int), a([], dtype=int)),
    "scalar mu z": (p3, 0.02, 0.9),
    "scalar mu": (p3, 0.02, a([0.9, 0.8, 0.85])),
    "int arrays": (a([1, 2, 3]), a([1, 2, 3]), a([1, 2, 3])),
    "zero z": (a([1, 2, 3]), a([1, 2, 3]), a([0, 2, 3])),
    "zero pressure and z": (a([0.0, 2.0]), a([1.0, 1.0]), a([0.0, 1.0])),
    "nan": (a([1.0, np.nan, 3.0]), a([1.0, 1.0, 1.0]), a([1.0, 1.0, 1.0])),
    "inf": (a([1.0, 2.0, np.inf]), a([1.0, 1.0, 1.0]), a([1.0, 1.0, 1.0])),
    "float32": (p3.astype(np.float32), a([0.01, 0.02, 0.03], dtype=np.float32), a([0.9, 0.8, 0.85], dtype=np.float32)),
    "2d all": (np.ones((2, 3)) * p3, np.ones((2, 3)), np.ones((2, 3))),
    "2d p, 1d z": (np.ones((2, 3)), np.ones((2, 3)), np.ones(3)),
    "1d p, 2d mu": (p3, np.ones((2, 3)), 1.0),
    "1d p, 2d mu transposed": (p3, np.ones((3, 2)), 1.0),
    "mismatch 3/2/3": (p3, a([1.0, 2.0]), p3),
    "mismatch 3/3/2": (p3, p3, a([1.0, 2.0])),
    "mismatch 2/3/3": (a([1.0, 2.0]), p3, p3),
    "mismatch 3/1/1": (p3, a([1.0]), a([2.0])),
    "mismatch 1/3/3": (a([1.0]), p3, p3),
    "mismatch empty/3/3": (a([]), p3, p3),
    "mismatch 3/empty/3": (p3, a([]), p3),
    "column vector p": (p3.reshape(3, 1), p3, p3),
    "column vector mu": (p3, p3.reshape(3, 1), p3),
    "2d empty": (np.ones((2, 0)), np.ones((2, 0)), np.ones((2, 0))),
    "scalars": (3.0, 2.0, 1.0),
    "numpy scalars": (np.float64(3.0), np.float64(2.0), np.float64(1.0)),
    "0-d arrays": (a(3.0), a(2.0), a(1.0)),
    "scalar p": (3.0, p3, p3),
    "lists": ([1.0, 2.0], [1.0, 2.0], [1.0, 2.0]),
    "list p only": ([1.0, 2.0], a([1.0, 2.0]), a([1.0, 2.0])),
    "list mu only": (a([1.0, 2.0]), [1.0, 2.0], a([1.0, 2.0])),
    "tuple z only": (a([1.0, 2.0]), a([1.0, 2.0]), (1.0, 2.0)),
    "ragged list mu": (a([1.0, 2.0]), [[1.0], [1.0, 2.0]], a([1.0, 2.0])),
    "None p": (None, p3, p3),
    "None mu": (p3, None, p3),
    "str p": ("abc", p3, p3),
    "str array": (a(["1", "2", "3"]), p3, p3),
    "object array": (a([1.0, 2.0, 3.0], dtype=object), a([1.0, 1.0, 1.0], dtype=object), a([1.0, 1.0, 1.0], dtype=object)),
    "object array with None": (a([1.0, None, 3.0], dtype=object), p3, p3),
    "bool arrays": (a([True, False, True]), a([True, True, True]), a([True, True, True])),
    "complex": (a([1 + 1j, 2.0, 3.0]), p3, p3),
    "series": (pd.Series(p3), pd.Series([0.01, 0.02, 0.03]), pd.Series([0.9, 0.8, 0.85])),
    "series misaligned": (pd.Series(p3, index=[0, 1, 2]), pd.Series([0.01, 0.02, 0.03], index=[1, 2, 3]), pd.Series([0.9, 0.8, 0.85])),
    "series vs array mismatch": (pd.Series(p3), a([0.01, 0.02]), 0.9),
    "series empty": (pd.Series([], dtype=float), pd.Series([], dtype=float), pd.Series([], dtype=float)),
    "dataframe": (pd.DataFrame({"a": p3}), pd.DataFrame({"a": p3}), pd.DataFrame({"a": p3})),
    "datetime": (a(["2020-01-01", "2020-01-02"], dtype="datetime64[D]"), a([1.0, 2.0]), a([1.0, 2.0])),
}
for name, args in cases.items():
    record(name, lambda: pseudopressure(*args))
record("kw", lambda: pseudopressure(pressure=p3, viscosity=a([0.01, 0.02, 0.03]), z_factor=a([0.9, 0.8, 0.85])))
record("kw shuffled", lambda: pseudopressure(z_factor=a([0.9, 0.8, 0.85]), viscosity=a([0.01, 0.02, 0.03]), pressure=p3))
record("package export", lambda: pseudopressure_pkg(p3, a([0.01, 0.02, 0.03]), a([0.9, 0.8, 0.85])))
record("two args", lambda: pseudopressure(p3, p3))
record("four args", lambda: pseudopressure(p3, p3, p3, p3))
record("bad kw", lambda: pseudopressure(p3, p3, z=p3))
record("same function exported", lambda: pseudopressure_pkg is pseudopressure)

# real table
pvt = pd.read_csv(os.path.join(DATA, "pvt_gas.csv"))
out.append(f"pvt columns: {list(pvt.columns)}")
zcol = "z-factor" if "z-factor" in pvt.columns else [c for c in pvt.columns if c.lower().startswith("z")][0]
vcol = "viscosity" if "viscosity" in pvt.columns else [c for c in pvt.columns if "visc" in c.lower()][0]
pcol = "pressure" if "pressure" in pvt.columns else [c for c in pvt.columns if "press" in c.lower()][0]
record("table series", lambda: pseudopressure(pvt[pcol], pvt[vcol], pvt[zcol]))
record("table arrays", lambda: pseudopressure(pvt[pcol].to_numpy(), pvt[vcol].to_numpy(), pvt[zcol].to_numpy()))
record("table first row", lambda: pseudopressure(pvt[pcol].to_numpy()[:1], pvt[vcol].to_numpy()[:1], pvt[zcol].to_numpy()[:1]))
record("table last two rows", lambda: pseudopressure(pvt[pcol].to_numpy()[-2:], pvt[vcol].to_numpy()[-2:], pvt[zcol].to_numpy()[-2:]))
record("table sliced mismatch", lambda: pseudopressure(pvt[pcol].to_numpy()[:-1], pvt[vcol].to_numpy(), pvt[zcol].to_numpy()))
# inputs are not modified
pp, mu, z = p3.copy(), a([0.01, 0.02, 0.03]), a([0.9, 0.8, 0.85])
pseudopressure(pp, mu, z)
out.append(f"inputs untouched: {np.array_equal(pp, p3)} {mu.tolist()} {z.tolist()}")

with open(sys.argv[1], "w") as f:
    f.write("\n".join(out) + "\n")
