"""Shared driver: exercises everything public in fluids.water and fluids.fluid."""

from __future__ import annotations

import copy
import pickle
import sys
import warnings

import numpy as np

warnings.simplefilter("ignore")

import bluebonnet.fluids as fluids_pkg
from bluebonnet.fluids import Fluid, build_pvt_gas, pseudopressure
from bluebonnet.fluids import fluid as fluid_mod
from bluebonnet.fluids import water as water_mod
from bluebonnet.fluids.water import (
    b_water_McCain,
    b_water_McCain_dp,
    compressibility_water_McCain,
    density_water_McCain,
    viscosity_water_McCain,
)

OUT: list[str] = []


def fmt(x):
    if isinstance(x, np.ndarray):
        return (
            f"ndarray{x.shape}{x.dtype}["
            + ",".join(fmt(v) for v in x.ravel().tolist())
            + "]"
        )
    if isinstance(x, (list, tuple)):
        return type(x).__name__ + "(" + ",".join(fmt(v) for v in x) + ")"
    if isinstance(x, (float, np.floating)):
        return type(x).__name__ + ":" + repr(float(x))
    if isinstance(x, (int, np.integer, complex)):
        return type(x).__name__ + ":" + repr(x)
    if hasattr(x, "to_numpy") and hasattr(x, "columns"):
        return (
            "frame"
            + repr(list(x.columns))
            + repr([str(t) for t in x.dtypes])
            + fmt(x.to_numpy())
        )
    if hasattr(x, "to_numpy"):
        return "series" + repr(x.name) + fmt(x.to_numpy())
    return type(x).__name__ + ":" + repr(x)


def rec(label, fn, *args, **kwargs):
    label = " ".join(label.split())
    try:
        res = fn(*args, **kwargs)
        OUT.append(f"{label} -> {fmt(res)}")
    except BaseException as exc:  # noqa: BLE001
        OUT.append(f"{label} !! {type(exc).__name__}: " + " ".join(str(exc).split()))


PRESSURES = [
    0,
    0.0,
    14.7,
    1,
    100,
    3000,
    3000.0,
    1e4,
    2.5e4,
    -50.0,
    1e30,
    1e200,
    float("inf"),
    float("nan"),
    np.float64(4000.0),
    np.float32(4000.0),
    np.int64(4000),
    10**30,
    np.array([]),
    np.array([14.7]),
    np.array([10.0, 500.0, 2000.0, 8000.0, 14000.0]),
    np.linspace(0.0, 12000.0, 25),
    np.arange(10, 5000, 470),
    np.array([[100.0, 200.0], [3000.0, 4000.0]]),
    np.array([1.0, np.nan, np.inf, -np.inf]),
    np.array([2000.0, 3000.0], dtype=np.float32),
    [100.0, 200.0],
    (100, 200),
    "abc",
    None,
    3 + 4j,
]
TEMPERATURES = [60, 200, 400.0, 0, 0.0, -10.0, 1e5, float("nan"), np.float64(250.0), None, "x"]
SALINITIES = [0, 0.0, 5, 15, 15.0, 26.0, -3.0, 1e3, float("nan"), np.float64(10.0), None]


def run_water():
    for t in TEMPERATURES:
        for p in PRESSURES:
            rec(f"b_water({t!r},{p!r})", b_water_McCain, t, p)
            rec(f"b_water_dp({t!r},{p!r})", b_water_McCain_dp, t, p)
    for t in TEMPERATURES:
        for p in PRESSURES:
            for s in SALINITIES:
                rec(f"c_w({t!r},{p!r},{s!r})", compressibility_water_McCain, t, p, s)
                rec(f"rho_w({t!r},{p!r},{s!r})", density_water_McCain, t, p, s)
                rec(f"mu_w({t!r},{p!r},{s!r})", viscosity_water_McCain, t, p, s)
    # keyword forms and arity errors
    rec("b_water kw", b_water_McCain, temperature=300, pressure=2000.0)
    rec("b_water_dp kw", b_water_McCain_dp, pressure=2000.0, temperature=300)
    rec("c_w kw", compressibility_water_McCain, temperature=300, pressure=2000.0, salinity=3)
    rec("rho_w kw", density_water_McCain, temperature=300, pressure=2000.0, salinity=3)
    rec("mu_w kw", viscosity_water_McCain, temperature=300, pressure=2000.0, salinity=3)
    rec("b_water arity", b_water_McCain, 300)
    rec("c_w arity", compressibility_water_McCain, 300, 2000.0)
    rec("rho_w arity", density_water_McCain, 300, 2000.0)
    rec("mu_w arity", viscosity_water_McCain, 300, 2000.0)
    rec("mu_w extra", viscosity_water_McCain, 300, 2000.0, 3, 4)
    # the zero of the compressibility denominator
    p0 = (537 * 1000.0 - 403300.0) / 7.033
    rec("c_w near pole", compressibility_water_McCain, 1000.0, p0, 0.0)
    rec("c_w zero div python", compressibility_water_McCain, 751.0242085661079, 0, 0)
    rec("c_w zero div exact", compressibility_water_McCain, 0, 0, -403300.0 / 0.5415)
    # module surface
    rec("water public", lambda: sorted(n for n in dir(water_mod) if not n.startswith("_")
                                        and callable(getattr(water_mod, n))
                                        and getattr(getattr(water_mod, n), "__module__", "") == water_mod.__name__))
    rec("water missing attr", getattr, water_mod, "no_such_name")
    rec("water hasattr missing", hasattr, water_mod, "no_such_name")
    rec("water from-import missing", lambda: exec("from bluebonnet.fluids.water import no_such_name"))
    for name in ("b_water_McCain", "b_water_McCain_dp", "compressibility_water_McCain",
                 "density_water_McCain", "viscosity_water_McCain"):
        f = getattr(water_mod, name)
        rec(f"{name} meta", lambda f=f: (f.__name__, f.__qualname__, f.__module__, f.__doc__,
                                         sorted(f.__annotations__.items()), f.__defaults__))


FLUIDS = [
    ((200, 35, 0.8, 650), {}),
    ((400, 35, 0.65, 0), {}),
    ((300.0, 45.0, 0.7, 1200.0, 5.0, 0.2), {}),
    ((), dict(temperature=150, api_gravity=20, gas_specific_gravity=0.9,
              solution_gor_initial=300, salinity=12.0, water_saturation_initial=0.35)),
    ((250, 30, 0.75, 500), dict(salinity=26)),
]
BAD_FLUIDS = [
    ((), {}),
    ((1, 2, 3), {}),
    ((1, 2, 3, 4, 5, 6, 7), {}),
    ((1, 2, 3, 4), dict(bogus=1)),
    ((1, 2, 3, 4), dict(temperature=5)),
]
FP = [
    np.array([10.0, 500.0, 2000.0, 8000.0, 14000.0]),
    np.linspace(14.7, 9000.0, 12),
    np.array([3000.0]),
    np.array([]),
    [100.0, 2500.0],
    (100, 2500),
    np.array([[100.0, 200.0], [3000.0, 4000.0]]),
    3000.0,
    3000,
    np.float64(3000.0),
    None,
    "ab",
    np.array([0.0, 100.0]),
    np.array([-100.0, 100.0]),
    np.array([np.nan, 100.0]),
]


def run_fluid():
    for args, kw in BAD_FLUIDS:
        rec(f"Fluid bad {args!r} {kw!r}", lambda: Fluid(*args, **kw))
    for args, kw in FLUIDS:
        tag = f"Fluid{args!r}{sorted(kw.items())!r}"
        fl = Fluid(*args, **kw)
        rec(tag + " repr", repr, fl)
        rec(tag + " dict", lambda: sorted(vars(fl).items()))
        rec(tag + " eq self", lambda: fl == Fluid(*args, **kw))
        rec(tag + " eq other", lambda: fl == Fluid(1, 2, 3, 4))
        rec(tag + " eq foreign", lambda: fl == 3)
        rec(tag + " hash", hash, fl)
        rec(tag + " copy", lambda: (copy.copy(fl), copy.copy(fl) == fl, copy.copy(fl) is fl))
        rec(tag + " deepcopy", lambda: (copy.deepcopy(fl), copy.deepcopy(fl) == fl))
        rec(tag + " pickle", lambda: (pickle.loads(pickle.dumps(fl)), pickle.loads(pickle.dumps(fl)) == fl))

        def extra():
            g = Fluid(*args, **kw)
            g.note = "kept"
            c = copy.copy(g)
            d = pickle.loads(pickle.dumps(g))
            return (sorted(vars(c).items()), sorted(vars(d).items()), c == g)

        rec(tag + " extra attr copy", extra)
        rec(tag + " pb", fl.pressure_bubblepoint)
        for p in FP:
            rec(tag + f" water_FVF({p!r})", fl.water_FVF, p)
            rec(tag + f" water_viscosity({p!r})", fl.water_viscosity, p)
            rec(tag + f" oil_FVF({p!r})", fl.oil_FVF, p)
            rec(tag + f" oil_viscosity({p!r})", fl.oil_viscosity, p)
            rec(tag + f" gas_FVF({p!r})", fl.gas_FVF, p, -102.0, 649.0)
            rec(tag + f" gas_viscosity({p!r})", fl.gas_viscosity, p, -102.0, 649.0)
        rec(tag + " gas_FVF kw", fl.gas_FVF, pressure=np.array([500.0, 5000.0]),
            temperature_pseudocritical=-80.0, pressure_pseudocritical=660.0)
        rec(tag + " gas_FVF arity", fl.gas_FVF, np.array([500.0]))
        rec(tag + " water_FVF arity", fl.water_FVF)
    rec("Fluid class meta", lambda: (Fluid.__name__, Fluid.__qualname__, Fluid.__module__,
                                     Fluid.__doc__, Fluid.__mro__ == (Fluid, object),
                                     [f.name for f in __import__("dataclasses").fields(Fluid)],
                                     ["MISSING" if f.default is __import__("dataclasses").MISSING else repr(f.default)
                                      for f in __import__("dataclasses").fields(Fluid)],
                                     Fluid.__hash__, Fluid.__match_args__,
                                     hasattr(Fluid, "__slots__")))

    class Sub(Fluid):
        def extra(self):
            return self.temperature + 1

    rec("subclass", lambda: (Sub(200, 35, 0.8, 650).extra(), repr(Sub(200, 35, 0.8, 650)),
                             Sub(200, 35, 0.8, 650) == Fluid(200, 35, 0.8, 650),
                             Sub(200, 35, 0.8, 650).water_viscosity(3000.0)))


def run_pseudopressure():
    p = np.linspace(10.0, 9000.0, 40)
    mu = 0.01 + 1e-6 * p
    z = 0.9 + 2e-5 * p - 1e-9 * p**2
    rec("pp arrays", pseudopressure, p, mu, z)
    rec("pp single", pseudopressure, np.array([100.0]), np.array([0.02]), np.array([0.9]))
    rec("pp empty", pseudopressure, np.array([]), np.array([]), np.array([]))
    rec("pp scalar", pseudopressure, 100.0, 0.02, 0.9)
    rec("pp lists", pseudopressure, [100.0, 200.0], [0.02, 0.02], [0.9, 0.9])
    rec("pp mismatch", pseudopressure, p, mu[:-1], z)
    rec("pp zero mu", pseudopressure, p, np.zeros_like(p), z)
    rec("pp 2d", pseudopressure, p.reshape(4, 10), mu.reshape(4, 10), z.reshape(4, 10))
    rec("pp unsorted", pseudopressure, p[::-1], mu[::-1], z[::-1])
    rec("pp kw", pseudopressure, pressure=p, viscosity=mu, z_factor=z)
    rec("pp arity", pseudopressure, p, mu)
    rec("pp none", pseudopressure, None, None, None)
    import pandas as pd

    rec("pp series", pseudopressure, pd.Series(p), pd.Series(mu), pd.Series(z))
    rec("pp meta", lambda: (pseudopressure.__name__, pseudopressure.__module__, pseudopressure.__doc__,
                            fluids_pkg.pseudopressure is fluid_mod.pseudopressure))


def run_build():
    base = {"N2": 0.01, "H2S": 0.0, "CO2": 0.02, "Gas Specific Gravity": 0.7,
            "Reservoir Temperature (deg F)": 250.0}
    rec("pvt dry 600", build_pvt_gas, base, "dry gas", 600)
    rec("pvt wet 400", build_pvt_gas, base, "wet gas", maximum_pressure=400)
    rec("pvt default tail", lambda: build_pvt_gas(base, "dry gas").iloc[::200])
    rec("pvt default shape", lambda: build_pvt_gas(base, "dry gas").shape)
    rec("pvt bad dryness", build_pvt_gas, base, "moist gas", 300)
    rec("pvt max 10", build_pvt_gas, base, "dry gas", 10)
    rec("pvt max 20", build_pvt_gas, base, "dry gas", 20)
    rec("pvt max 0", build_pvt_gas, base, "dry gas", 0)
    rec("pvt max neg", build_pvt_gas, base, "dry gas", -5)
    for k in list(base):
        d = dict(base)
        del d[k]
        rec(f"pvt missing {k}", build_pvt_gas, d, "dry gas", 100)
    d = dict(base)
    d["Gas Specific Gravity"] = "0.7"
    rec("pvt str gravity", build_pvt_gas, d, "dry gas", 100)
    d = dict(base)
    d["Reservoir Temperature (deg F)"] = 300
    rec("pvt int temperature", build_pvt_gas, d, "dry gas", 200)
    rec("pvt none", build_pvt_gas, None, "dry gas", 100)
    import pandas as pd

    rec("pvt series input", build_pvt_gas, pd.Series(base), "dry gas", 150)
    rec("module consts", lambda: (fluid_mod.PRESSURE_STANDARD, fluid_mod.TEMPERATURE_STANDARD,
                                  fluid_mod.sp.__name__, fluid_mod.np.__name__, fluid_mod.pd.__name__,
                                  fluid_mod.cumulative_trapezoid.__module__,
                                  fluid_mod.cumulative_trapezoid.__name__))
    rec("pkg all", lambda: [n for n in ("Fluid", "build_pvt_gas", "pseudopressure")
                            if n in fluids_pkg.__all__ and getattr(fluids_pkg, n) is getattr(fluid_mod, n)])
    rec("fluid missing attr", getattr, fluid_mod, "no_such_name")
    rec("pkg missing attr", getattr, fluids_pkg, "no_such_name")


def main(outfile, extra=None):
    with warnings.catch_warnings(record=True) as caught:
        warnings.simplefilter("always")
        run_water()
        run_fluid()
        run_pseudopressure()
        run_build()
        if extra is not None:
            extra(rec)
    kinds = sorted({(w.category.__name__, str(w.message)) for w in caught})
    OUT.append("warnings: " + repr(kinds))
    import logging

    OUT.append("root handlers: " + repr(logging.getLogger().handlers)
               + " level " + repr(logging.getLogger().level))
    OUT.append("np.geterr: " + repr(sorted(np.geterr().items())))
    with open(outfile, "w") as fh:
        fh.write("\n".join(OUT) + "\n")


def extra(rec):
    """Import surface: star imports, re-exports, old short names, missing names."""
    import importlib
    import subprocess

    ns = {}
    exec("from bluebonnet.fluids.water import *", ns)
    rec("star water", lambda: sorted(k for k in ns if k != "__builtins__"))
    ns2 = {}
    exec("from bluebonnet.fluids import *", ns2)
    rec("star fluids (old names)", lambda: [
        (k, ns2[k] is getattr(fluid_mod, k)) for k in ("Fluid", "build_pvt_gas", "pseudopressure")])
    rec("star fluids leaks nothing private", lambda: sorted(k for k in ns2 if k.startswith("_") and k != "__builtins__"))
    # names re-exported by the package (none on the clean tree) must be the water module's objects
    rec("pkg attrs", lambda: all(getattr(fluids_pkg, k) is getattr(water_mod, k) for k in (
        "b_water_McCain", "b_water_McCain_dp", "compressibility_water_McCain",
        "density_water_McCain", "viscosity_water_McCain") if hasattr(fluids_pkg, k)))
    rec("pkg submodules", lambda: [fluids_pkg.water is water_mod, fluids_pkg.fluid is fluid_mod,
                                   fluids_pkg.gas.__name__, fluids_pkg.oil.__name__])
    rec("fluid uses same water fns", lambda: (fluid_mod.b_water_McCain is water_mod.b_water_McCain,
                                              fluid_mod.viscosity_water_McCain is water_mod.viscosity_water_McCain))
    for name in ("__path__", "__wrapped__", "__all__", "nope", "b_water_mccain", "B_water_McCain",
                 "water", "np2", "__getattribute__x"):
        rec(f"water getattr {name}", getattr, water_mod, name)
        rec(f"water getattr default {name}", getattr, water_mod, name, "dflt")
        rec(f"water hasattr {name}", hasattr, water_mod, name)
    for name in ("np", "NDArray", "annotations", "__name__", "__doc__", "__file__"):
        rec(f"water has {name}", lambda name=name: " ".join(repr(getattr(water_mod, name)).split())[:200])
    for stmt in ("from bluebonnet.fluids.water import nope",
                 "from bluebonnet.fluids import nope",
                 "import bluebonnet.fluids.water.nope",
                 "from bluebonnet.fluids.water import b_water_McCain as f; assert f(200, 3000) > 1",
                 "import bluebonnet.fluids.water as w; w.nope"):
        rec(f"stmt {stmt}", lambda stmt=stmt: exec(stmt, {}))
    # old short spellings: resolve to the very same function objects (clean tree: not there)
    with warnings.catch_warnings():
        warnings.simplefilter("ignore")
        for old, new in (("b_water", "b_water_McCain"), ("density_water", "density_water_McCain"),
                         ("viscosity_water", "viscosity_water_McCain")):
            target = getattr(water_mod, new)
            rec(f"alias {old}", lambda: getattr(water_mod, old, target) is target)
    import pickle

    for name in ("b_water_McCain", "viscosity_water_McCain"):
        rec(f"pickle fn {name}", lambda name=name: pickle.loads(pickle.dumps(getattr(water_mod, name)))
            is getattr(water_mod, name))
    rec("reload water", lambda: importlib.reload(water_mod).b_water_McCain(200, 3000))
    rec("after reload fluid still works", Fluid(200, 35, 0.8, 650).water_FVF, np.array([3000.0]))
    # importing the package raises no warning and prints nothing, even under -W error
    out = subprocess.run(
        [sys.executable, "-W", "error::DeprecationWarning", "-c",
         "import bluebonnet.fluids.water as w, bluebonnet.fluids as f, inspect, pydoc;"
         "inspect.getmembers(w); pydoc.render_doc(w); print(w.density_water_McCain(400, 3000, 15));"
         "print(sorted(n for n in dir(w) if not n.startswith('_')))"],
        capture_output=True, text=True)
    rec("subprocess -W error", lambda: (out.returncode, out.stdout, out.stderr[-300:]))


if __name__ == "__main__":
    main(sys.argv[1], extra)
