"""Equivalence driver for twin4 (loop-and-a-half + builtin abs in z_factor_hallyarbrough).

Bit-identical results are expected: floats are written with float.hex.
"""

from __future__ import annotations

import itertools
import sys
import warnings
from fractions import Fraction

import numpy as np
import pandas as pd

warnings.simplefilter("ignore")

from bluebonnet.fluids.gas import z_factor_hallyarbrough  # noqa: E402


def fmt(x):
    if isinstance(x, tuple):
        return "(" + ", ".join(fmt(v) for v in x) + ")"
    if isinstance(x, pd.Series):
        return f"Series[{list(x.index)!r}]" + fmt(x.to_numpy())
    if isinstance(x, np.ndarray):
        return f"array{x.shape}{x.dtype}[" + ", ".join(fmt(v) for v in x.ravel()) + "]"
    if isinstance(x, (float, np.floating)):
        return f"{type(x).__name__}:{float(x).hex()}"
    return f"{type(x).__name__}:{x!r}"


def call(f, *args, **kwargs):
    try:
        return fmt(f(*args, **kwargs))
    except Exception as e:  # noqa: BLE001
        return f"EXC:{type(e).__name__}:{e}"


def main(out):
    lines = []
    # all of these terminate on the unchanged tree (some give NaN: the iteration leaves y > 0)
    ps = [0.0, 0.01, 0.1, 0.5, 1, 1.0, 2.0, 3.5, 5.0, 8.0, 12.0, 15.0, 20.0, 30.0, -1.0, 100.0,
          1000.0, 3000.0, np.float64(4.0), np.float32(4.0), np.array(4.0), np.array([4.0]),
          np.array([[6.5]]), True]
    ts = [1.05, 1.1, 1.2, 1.35, 1.5, 1.7, 2, 2.0, 2.4, 3.0, 0.9, 0.5, 1.0, 5.0, 10.0, 100.0,
          560.0, 860.0, -2.0, np.float64(1.6), np.float32(1.6), np.array(1.6), np.array([1.6])]
    for p, t in itertools.product(ps, ts):
        lines.append(f"hy {p!r} {t!r} -> {call(z_factor_hallyarbrough, p, t)}")
    bad = [
        (2.0, 0),
        (2.0, 0.0),
        (2.0, np.float64(0.0)),
        (2.0, float("inf")),
        (2.0, float("nan")),
        (float("nan"), 1.5),
        (float("inf"), 1.5),
        (-float("inf"), 1.5),
        (1e300, 1.5),
        (2.0, 1e-300),
        (2.0, 1e300),
        (np.array([2.0, 3.0]), 1.5),
        (np.array([2.0, 3.0]), np.array([1.5, 1.6])),
        (2.0, np.array([1.5, 1.6])),
        (np.array([]), 1.5),
        (pd.Series([2.0]), 1.5),
        (pd.Series([2.0, 3.0]), 1.5),
        ([2.0], 1.5),
        (2.0, [1.5]),
        ("2", 1.5),
        (2.0, "1.5"),
        (None, 1.5),
        (2.0, None),
        (2 + 0j, 1.5),
        (2.0, 1.5 + 0j),
        (Fraction(2), 1.5),
        (2.0, Fraction(3, 2)),
    ]
    for args in bad:
        lines.append(f"bad {args!r} -> {call(z_factor_hallyarbrough, *args)}")
    lines.append(f"nargs -> {call(z_factor_hallyarbrough, 2.0)}")
    lines.append(f"kw -> {call(z_factor_hallyarbrough, pressure=2.0, temperature=1.5)}")
    lines.append(f"kw2 -> {call(z_factor_hallyarbrough, temperature=1.5, pressure=2.0)}")
    with open(out, "w") as fh:
        fh.write("\n".join(lines) + "\n")


if __name__ == "__main__":
    main(sys.argv[1])
