"""Equivalence driver for twin5: water.py correlations (b_water_McCain, b_water_McCain_dp and their users)."""
import decimal
import fractions
import os
import sys
import warnings

import numpy as np
import pandas as pd

from bluebonnet.fluids import water
from bluebonnet.fluids.fluid import Fluid
from bluebonnet.fluids.water import (
    b_water_McCain,
    b_water_McCain_dp,
    compressibility_water_McCain,
    density_water_McCain,
    viscosity_water_McCain,
)

DATA = os.environ.get("BB_DATA", "/tmp/twin12_waterfluid/tests/data")
out = []


def fmt(v):
    if isinstance(v, (pd.Series, pd.DataFrame)):
        return (f"{type(v).__name__} index={list(v.index)!r} dtype={getattr(v, 'dtype', None)} "
                f"values={fmt(v.to_numpy())}")
    if isinstance(v, np.ma.MaskedArray):
        return f"masked mask={np.ma.getmaskarray(v).tolist()} data={fmt(np.asarray(v))}"
    if isinstance(v, np.ndarray):
        return f"ndarray{v.shape}{v.dtype}[" + ",".join(repr(x) for x in v.ravel().tolist()) + "]"
    return f"{type(v).__name__}:{v!r}"


def record(label, func, *args, **kwargs):
    with warnings.catch_warnings(record=True) as caught:
        warnings.simplefilter("always")
        try:
            res = fmt(func(*args, **kwargs))
        except Exception as e:  # noqa: BLE001
            res = f"EXC {type(e).__name__}: {e}"
    warn = sorted(f"{w.category.__name__}:{w.message}" for w in caught)  # with multiplicity
    out.append(f"{label} -> {res} | warnings={warn}")


temperatures = {
    "400": 400, "400.0": 400.0, "60": 60.0, "212.5": 212.5, "0": 0.0, "neg": -40.0,
    "np64": np.float64(285.21375), "np32": np.float32(150.0), "npint": np.int64(200),
    "bool": True, "big": 1e160, "huge_int": 10**200, "nan": float("nan"), "inf": float("inf"),
    "none": None, "str": "200", "list": [200.0], "complex": 200 + 1j,
    "decimal": decimal.Decimal("200"), "fraction": fractions.Fraction(401, 2),
    "arr2": np.array([100.0, 300.0]), "arr3": np.array([100.0, 200.0, 300.0]),
}
pressures = {
    "3000": 3000, "3000.0": 3000.0, "14.7": 14.7, "0": 0.0, "neg": -500.0,
    "np64": np.float64(5321.123456789), "np32": np.float32(2500.0), "npint": np.int64(4000),
    "int32": np.int32(60000), "big": 1e200, "huge_int": 10**170, "nan": float("nan"),
    "inf": float("inf"), "none": None, "str": "abc", "complex": 1000 - 2j,
    "decimal": decimal.Decimal("3000"), "fraction": fractions.Fraction(6001, 2),
    "arr": np.array([14.7, 100.0, 1000.0, 3000.0, 8000.0, 13990.0, 20000.0]),
    "arr_int": np.array([100, 2000, 5000, 100000]),
    "arr_int32": np.array([100, 2000, 60000], dtype=np.int32),
    "arr_f32": np.array([100.0, 2000.0, 9000.0], dtype=np.float32),
    "arr_obj": np.array([100, 2000.5, 10**30], dtype=object),
    "arr_special": np.array([np.nan, np.inf, -np.inf, 0.0, -0.0, 1e300, 5e-324]),
    "empty": np.array([]),
    "zero_d": np.array(3000.0),
    "two_d": np.array([[100.0, 2000.0], [3000.0, 9000.0]]),
    "col": np.array([[100.0], [2000.0]]),
    "list": [50.0, 500.0, 5000.0],
    "tuple": (1500.0, 2500.0),
    "series": pd.Series([500.0, 4000.0, 7000.0], index=["b", "a", "c"]),
    "series_dup": pd.Series([500.0, 4000.0, 600.0], index=[3, 3, 0]),
    "series_int": pd.Series([500, 4000], index=[10, 5]),
    "series_nullable": pd.Series([500.0, None, 600.0], dtype="Float64"),
    "frame": pd.DataFrame({"a": [100.0, 200.0], "b": [3000.0, 4000.0]}, index=["y", "x"]),
    "masked": np.ma.masked_greater(np.array([100.0, 5000.0, 9000.0]), 6000.0),
    "linspace": np.linspace(0.0, 15000.0, 61),
}
salinities = [0.0, 15, 26.0, np.float64(3.5)]

for tname, t in temperatures.items():
    for pname, p in pressures.items():
        record(f"b_water({tname},{pname})", b_water_McCain, t, p)
        record(f"b_water_dp({tname},{pname})", b_water_McCain_dp, t, p)
        record(f"density({tname},{pname},15)", density_water_McCain, t, p, 15)
for t in (60.0, 200, np.float64(285.21375)):
    for pname in ("3000", "np64", "arr", "arr_int", "series", "two_d", "str", "none", "list"):
        p = pressures[pname]
        for sal in salinities:
            record(f"density({t!r},{pname},{sal!r})", density_water_McCain, t, p, sal)
            record(f"compressibility({t!r},{pname},{sal!r})", compressibility_water_McCain, t, p,
                   sal)
            record(f"viscosity({t!r},{pname},{sal!r})", viscosity_water_McCain, t, p, sal)
        record(f"density({t!r},{pname},None)", density_water_McCain, t, p, None)
        record(f"density({t!r},{pname},'s')", density_water_McCain, t, p, "s")
record("b_water(kw)", lambda: b_water_McCain(temperature=400, pressure=3000))
record("b_water_dp(kw)", lambda: b_water_McCain_dp(pressure=3000, temperature=400))
record("b_water()", b_water_McCain)
record("b_water(1)", b_water_McCain, 1)
record("b_water_dp(1,2,3)", b_water_McCain_dp, 1, 2, 3)
record("public names", lambda: sorted(n for n in dir(water) if not n.startswith("_")))

# derivative is consistent with the function (central difference), both trees
for t in (100.0, 250.0, 400.0):
    pp = np.linspace(500.0, 12000.0, 24)
    record(f"fd check {t}", lambda t=t, pp=pp: (b_water_McCain(t, pp + 0.5)
                                                  - b_water_McCain(t, pp - 0.5))
           - b_water_McCain_dp(t, pp))

# through the Fluid class
for fl_name, fl in {"base": Fluid(200.0, 35.0, 0.8, 650.0),
                    "salty": Fluid(400, 35, 0.65, 0, salinity=15.0),
                    "str_T": Fluid("hot", 35.0, 0.8, 650.0)}.items():
    for pname in ("arr", "arr_int", "arr_obj", "list", "tuple", "empty", "two_d", "series",
                  "series_dup", "3000.0", "zero_d", "none", "str", "arr_special", "masked"):
        record(f"{fl_name}.water_FVF({pname})", fl.water_FVF, pressures[pname])

# the water table shipped with the tests, with default / shuffled / string / duplicate indexes
t = pd.read_csv(os.path.join(DATA, "pvt_water.csv"))
record("pvt_water columns", lambda: list(t.columns))
pcol = next(c for c in t.columns if c.lower() in ("p", "pressure"))
sub = t.iloc[::11]
variants = {
    "asread": sub,
    "reset": sub.reset_index(drop=True),
    "shuffled_rows": sub.sample(frac=1.0, random_state=5),
    "string": sub.set_axis([f"r{i}" for i in range(len(sub))][::-1], axis=0),
    "duplicate": sub.set_axis(np.arange(len(sub)) // 3, axis=0),
}
for vname, tv in variants.items():
    record(f"b_water(table {vname})", b_water_McCain, 200.0, tv[pcol])
    record(f"b_water_dp(table {vname})", b_water_McCain_dp, 200.0, tv[pcol])
    record(f"density(table {vname})", density_water_McCain, 200.0, tv[pcol], 2.0)
    record(f"b_water(table {vname}, T column)", b_water_McCain, tv.iloc[:, 0], tv[pcol])
    record(f"b_water(table {vname}, T reset)", b_water_McCain,
           tv.iloc[:, 0].reset_index(drop=True), tv[pcol])

with open(sys.argv[1], "w") as fh:
    fh.write("\n".join(out) + "\n")
