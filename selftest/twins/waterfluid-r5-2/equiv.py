"""Equivalence probe for refactoring 2 (Fluid.water_FVF: whole-array call for 1-D float arrays).

numpy evaluates ``x**2`` as ``x*x`` for arrays but through libm ``pow`` for scalars, which
differs in the last bit for about 1 value in 1000 - results are rounded to 11 significant digits.
"""
import sys
import warnings

import numpy as np
import pandas as pd

from bluebonnet.fluids import Fluid

warnings.simplefilter("ignore")
out = []


def fmt(x):
    if isinstance(x, np.ndarray):
        flat = [fmt(v) for v in x.ravel().tolist()] if x.dtype != object else [repr(v) for v in x.ravel()]
        return f"ndarray{x.shape}:{x.dtype}:[" + ",".join(flat) + "]"
    if isinstance(x, (float, np.floating)):
        return format(float(x), ".10e")
    return f"{type(x).__name__}:{x!r}"


def record(label, fn):
    try:
        r = fn()
    except Exception as e:  # noqa: BLE001
        out.append(f"{label}: EXC {type(e).__name__}")
        return
    out.append(f"{label}: {fmt(r)}")


rng = np.random.default_rng(1234)
big = rng.uniform(14.7, 20000.0, 20000)
pressures = {
    "float": 3000.0,
    "int": 3000,
    "npfloat": np.float64(3000.0),
    "arr0d": np.array(3000.0),
    "list_int": [1000, 2000, 3000],
    "list_float": [14.7, 1000.5, 2000.25],
    "tuple": (1000.0, 2000.0),
    "arr_float": np.array([14.7, 1000.0, 2000.0, 14000.0]),
    "arr_one": np.array([5000.0]),
    "arr_int": np.array([1000, 2000, 40000]),
    "arr_int32": np.array([1000, 2000, 40000], dtype=np.int32),
    "arr_f32": np.array([1000.0, 2000.0, 12345.678], dtype=np.float32),
    "arr_neg_nan_inf": np.array([-100.0, 0.0, np.nan, np.inf, -np.inf, 1e200, 1e-300]),
    "arr_2d": np.array([[1000.0, 2000.0], [3000.0, 4000.0]]),
    "arr_2d_row": np.array([[1000.0, 2000.0]]),
    "arr_empty": np.array([]),
    "arr_empty_2d": np.zeros((0, 3)),
    "arr_empty_2d_b": np.zeros((3, 0)),
    "arr_obj": np.array([1000.0, 2000], dtype=object),
    "arr_complex": np.array([1000.0 + 0j, 2000.0]),
    "arr_bool": np.array([True, False]),
    "arr_str": np.array(["a", "b"]),
    "noncontig": np.linspace(10.0, 9000.0, 40)[::3],
    "reversed": np.linspace(10.0, 9000.0, 17)[::-1],
    "readonly": np.linspace(10.0, 9000.0, 7),
    "masked": np.ma.masked_array([1000.0, 2000.0, 3000.0], mask=[False, True, False]),
    "series": pd.Series([1000.0, 2000.0, 3000.0]),
    "series_idx": pd.Series([1000.0, 2000.0], index=["a", "b"]),
    "matrix_like": np.arange(10.0, 14000.0, 10.0),
    "big": big,
    "str_empty": "",
    "str": "12",
    "none": None,
    "dict": {1000.0: 1, 2000.0: 2},
    "set1": {1500.0},
    "range": range(1000, 5000, 1000),
}
pressures["readonly"].setflags(write=False)

fluids = {
    "std": Fluid(200, 35, 0.8, 650),
    "hot_salty": Fluid(400.0, 35, 0.65, 0, salinity=15.0, water_saturation_initial=0.2),
    "npT": Fluid(np.float64(150.5), 35, 0.8, 650),
    "f32T": Fluid(np.float32(150.5), 35, 0.8, 650),
    "npintT": Fluid(np.int64(150), 35, 0.8, 650),
    "boolT": Fluid(True, 35, 0.8, 650),
    "nanT": Fluid(float("nan"), 35, 0.8, 650),
    "infT": Fluid(float("inf"), 35, 0.8, 650),
    "hugeintT": Fluid(10**400, 35, 0.8, 650),
    "bigintT": Fluid(2**40, 35, 0.8, 650),
    "noneT": Fluid(None, 35, 0.8, 650),
    "strT": Fluid("200", 35, 0.8, 650),
    "arrT0": Fluid(np.array(200.0), 35, 0.8, 650),
    "arrT1": Fluid(np.array([200.0]), 35, 0.8, 650),
    "arrT3": Fluid(np.array([100.0, 200.0, 300.0]), 35, 0.8, 650),
    "arrT4": Fluid(np.array([100.0, 200.0, 300.0, 400.0]), 35, 0.8, 650),
    "complexT": Fluid(200 + 0j, 35, 0.8, 650),
}

for fname, fl in fluids.items():
    for pname, p in pressures.items():
        if pname in ("big", "matrix_like") and fname not in ("std", "hot_salty", "npT"):
            continue
        if pname == "iter":
            continue
        record(f"{fname}|{pname}", lambda fl=fl, p=p: fl.water_FVF(p))
    record(f"{fname}|generator", lambda fl=fl: fl.water_FVF(v for v in (1000.0, 2000.0)))
    record(f"{fname}|kw", lambda fl=fl: fl.water_FVF(pressure=np.array([100.0, 200.0])))

# the result is a fresh array: writing into it must not touch the input, and the
# input must come back unchanged
fl = fluids["std"]
p = np.array([1000.0, 2000.0, 3000.0])
p_before = p.copy()
r1 = fl.water_FVF(p)
r1[:] = -1.0
r2 = fl.water_FVF(p)
out.append(f"fresh: {fmt(r2)} input_unchanged={bool((p == p_before).all())} shares={np.shares_memory(r2, p)}")
out.append(f"writeable: {r2.flags.writeable} {r2.flags.c_contiguous} {type(r2).__name__}")
# other methods of the class, untouched but cheap to confirm
record("visc", lambda: fl.water_viscosity(p))
record("oil_fvf", lambda: fl.oil_FVF(p))

with open(sys.argv[1], "w") as f:
    f.write("\n".join(out) + "\n")
