"""Twin 3: oil correlations re-exported from bluebonnet.fluids; same-object alias."""
import os
import sys

sys.path.insert(0, os.path.dirname(os.path.abspath(__file__)))
import numpy as np  # noqa: E402
from equiv_common import main, pressures, fluids, uninit  # noqa: E402
import bluebonnet.fluids as fluids_pkg  # noqa: E402
from bluebonnet.fluids import oil  # noqa: E402
import bluebonnet.fluids.fluid as fluid_mod  # noqa: E402

NAMES = [
    "b_o_Standing",
    "density_Standing",
    "oil_compressibility_Standing",
    "pressure_bubblepoint_Standing",
    "solution_gor_Standing",
    "viscosity_beggs_robinson",
]


def extra(out, call, fmt):
    # the pre-existing public surface is untouched
    for n in ("Fluid", "build_pvt_gas", "pseudopressure"):
        out.append("%s in __all__: %s; same object: %s" % (
            n, n in fluids_pkg.__all__, getattr(fluids_pkg, n) is getattr(fluid_mod, n)))
    out.append("oil is submodule: %s" % (fluids_pkg.oil is oil))
    for n in ("b_o_Standing", "pressure_bubblepoint_Standing", "viscosity_beggs_robinson"):
        out.append("fluid.%s is oil.%s: %s" % (n, n, getattr(fluid_mod, n) is getattr(oil, n)))
    # call through the package if re-exported there, else through the module:
    # the very same function object has to be reached either way
    for n in NAMES:
        f = getattr(fluids_pkg, n, None)
        g = getattr(oil, n)
        out.append("%s identity ok: %s" % (n, f is None or f is g))
        f = f or g
        for fl, (t, api, sg, gor) in fluids()[:6]:
            for pl, p in pressures()[:22]:
                if uninit(n, t, p, api, sg, gor):
                    continue
                if n == "pressure_bubblepoint_Standing":
                    call(out, "pkg.%s[%s]" % (n, fl), f, t, api, sg, gor)
                    break
                if n == "oil_compressibility_Standing":
                    call(out, "pkg.%s[%s,%s]" % (n, fl, pl), f, t, p, api, sg, gor, -72.2, 653)
                else:
                    call(out, "pkg.%s[%s,%s]" % (n, fl, pl), f, t, p, api, sg, gor)
    alias = getattr(oil, "viscosity_Beggs_Robinson", oil.viscosity_beggs_robinson)
    out.append("alias identity ok: %s" % (alias is oil.viscosity_beggs_robinson))
    out.append("alias name: %s" % alias.__name__)
    for p in np.linspace(14.7, 9000.0, 21):
        call(out, "alias %r" % float(p), alias, 200.0, float(p), 35.0, 0.8, 650.0)
    import pickle

    out.append("pickle roundtrip same: %s" % (pickle.loads(pickle.dumps(oil.viscosity_beggs_robinson)) is oil.viscosity_beggs_robinson))


main(extra)
