"""Equivalence driver for bluebonnet.plotting (runs on clean and refactored trees)."""
from __future__ import annotations

import os
import sys
import warnings

import matplotlib

matplotlib.use("Agg")
import matplotlib.pyplot as plt
import numpy as np
import pandas as pd

warnings.simplefilter("ignore")

from bluebonnet import plotting
from bluebonnet.flow import FlowProperties, IdealReservoir, SinglePhaseReservoir
from bluebonnet.plotting import (
    SquareRootScale,
    plot_pseudopressure,
    plot_recovery_factor,
    plot_recovery_rate,
)

DATA = os.environ.get("BB_DATA", "/tmp/twin13_plotting/tests/data")
out = []


def rec(label, fn):
    try:
        out.append(f"{label}: {fn()}")
    except Exception as e:  # noqa: BLE001
        out.append(f"{label}: EXC {type(e).__name__}")


def arr(a):
    a = np.asarray(a)
    return f"{type(a).__name__}|{a.dtype}|{a.shape}|{[repr(v) for v in a.ravel().tolist()]}"


def val(v):
    if isinstance(v, np.ndarray):
        return arr(v)
    return f"{type(v).__name__}|{v!r}"


def describe(ax):
    parts = []
    for ln in ax.get_lines():
        parts.append(
            "line("
            + arr(ln.get_xdata())
            + ";"
            + arr(ln.get_ydata())
            + f";{ln.get_color()!r};{ln.get_label()!r};{ln.get_linestyle()!r};{ln.get_linewidth()!r};{ln.get_marker()!r})"
        )
    parts.append(f"xlim={ax.get_xlim()!r} ylim={ax.get_ylim()!r}")
    parts.append(f"xscale={ax.get_xscale()!r} yscale={ax.get_yscale()!r}")
    parts.append(f"xlabel={ax.get_xlabel()!r} ylabel={ax.get_ylabel()!r}")
    parts.append("xticks=" + arr(ax.get_xticks()))
    return " ".join(parts)


class Fake:
    def __init__(self, nx, nt, tmax=4.0, as_list=False):
        self.nx = nx
        t = np.linspace(0, np.sqrt(tmax), nt) ** 2
        x = np.linspace(1 / nx, 1, nx)
        self.pseudopressure = 0.1 + np.array([1 - np.exp(-x / (0.05 + np.sqrt(tt))) for tt in t])
        self.pseudopressure[:, 0] = 0.1
        self.time = list(t) if as_list else t

    def recovery_factor(self):
        t = np.asarray(self.time)
        return np.sqrt(t) / (1 + np.sqrt(t))


class NoNx:
    pseudopressure = np.ones((3, 4))
    time = np.array([0.0, 1.0, 2.0])


class BadRF(Fake):
    def recovery_factor(self):
        raise RuntimeError("boom")


def run(label, fn, res, with_ax, **kw):
    def go():
        if with_ax:
            fig, ax0 = plt.subplots()
            ax = fn(res, ax=ax0, **kw)
            same = ax is ax0
        else:
            n0 = len(plt.get_fignums())
            ax = fn(res, **kw)
            same = len(plt.get_fignums()) - n0
        s = f"same={same} " + describe(ax)
        plt.close("all")
        return s

    rec(label, go)
    plt.close("all")


# --- real reservoirs
pvt_gas = pd.read_csv(os.path.join(DATA, "pvt_gas.csv")).rename(
    columns={"P": "pressure", "Z-Factor": "z-factor", "Cg": "compressibility", "Viscosity": "viscosity", "Density": "density"}
)
fluid = FlowProperties(pvt_gas, 2e3)
real = SinglePhaseReservoir(30, pressure_fracface=100.0, pressure_initial=2e3, fluid=fluid)
real.simulate(np.linspace(0, np.sqrt(11), 300) ** 2)
ideal = IdealReservoir(20, 100.0, 2e3, None)
ideal.simulate(np.linspace(0, np.sqrt(3), 120) ** 2)
unsim = IdealReservoir(20, 100.0, 2e3, None)

reservoirs = {
    "real": real,
    "ideal": ideal,
    "fake": Fake(10, 50),
    "fake_list": Fake(7, 23, tmax=0.3, as_list=True),
    "fake_one_row": Fake(5, 2),
    "unsim": unsim,
    "nonx": NoNx(),
    "badrf": BadRF(4, 10),
    "none": None,
}

for rname, res in reservoirs.items():
    for with_ax in (False, True):
        for rescale in (False, True):
            for every in (200, 7, 1, 0, -3, 2.5, "a"):
                run(f"pp {rname} ax={with_ax} rescale={rescale} every={every}", plot_pseudopressure, res, with_ax, every=every, rescale=rescale)
        run(f"pp {rname} ax={with_ax} lims", plot_pseudopressure, res, with_ax, every=5, x_max=0.5, y_max=2.0)
        run(f"pp {rname} ax={with_ax} kw", plot_pseudopressure, res, with_ax, every=5, rescale=True, plot_kwargs={"linestyle": "--", "linewidth": 3})
        run(f"pp {rname} ax={with_ax} kw-empty", plot_pseudopressure, res, with_ax, every=5, plot_kwargs={})
        run(f"pp {rname} ax={with_ax} kw-color-clash", plot_pseudopressure, res, with_ax, every=5, plot_kwargs={"color": "red"})
        run(f"pp {rname} ax={with_ax} kw-bad", plot_pseudopressure, res, with_ax, every=5, plot_kwargs={"nonsense": 1})
        run(f"pp {rname} ax={with_ax} kw-notdict", plot_pseudopressure, res, with_ax, every=5, plot_kwargs=0)
        run(f"pp {rname} ax={with_ax} kw-list", plot_pseudopressure, res, with_ax, every=5, plot_kwargs=[])
        for fname, fn in (("rate", plot_recovery_rate), ("rf", plot_recovery_factor)):
            for ct in (False, True, 0, 1, "yes"):
                run(f"{fname} {rname} ax={with_ax} ct={ct!r}", fn, res, with_ax, change_ticks=ct)
            run(f"{fname} {rname} ax={with_ax} kw", fn, res, with_ax, change_ticks=True, plot_kwargs={"color": "k", "marker": "o"})
            run(f"{fname} {rname} ax={with_ax} kw-empty", fn, res, with_ax, plot_kwargs={})
            run(f"{fname} {rname} ax={with_ax} kw-label-clash", fn, res, with_ax, plot_kwargs={"label": "x"})
            run(f"{fname} {rname} ax={with_ax} kw-bad", fn, res, with_ax, plot_kwargs={"nonsense": 1})
            run(f"{fname} {rname} ax={with_ax} kw-notdict", fn, res, with_ax, plot_kwargs=0)

# positional calls
rec("pp positional", lambda: describe(plot_pseudopressure(reservoirs["fake"], 5, True, None, 0.7, 1.5, {"alpha": 0.5})))
plt.close("all")
rec("rate positional", lambda: describe(plot_recovery_rate(reservoirs["fake"], None, True, {"alpha": 0.5})))
plt.close("all")
rec("rf positional", lambda: describe(plot_recovery_factor(reservoirs["fake"], None, True, {"alpha": 0.5})))
plt.close("all")
rec("pp bad ax", lambda: describe(plot_pseudopressure(reservoirs["fake"], ax="notanax")))
rec("rate bad ax", lambda: describe(plot_recovery_rate(reservoirs["fake"], ax="notanax")))
rec("rf bad ax", lambda: describe(plot_recovery_factor(reservoirs["fake"], ax="notanax")))
plt.close("all")

# --- scale and transforms
inputs = {
    "floats": [0.0, 0.25, 2.0, 1e300, 1e-320, np.inf],
    "neg": [-1.0, -0.0, -np.inf, np.nan],
    "ints": [0, 1, 2, 3, 2**31, -4],
    "bools": [True, False],
    "scalar_f": 2.5,
    "scalar_i": 3,
    "np32": np.array([1.5, 2.5], dtype=np.float32),
    "2d": [[1.0, 4.0], [9.0, 16.0]],
    "empty": [],
    "complex": [1 + 2j],
    "str": ["a"],
    "none": None,
    "obj": np.array([1, 2.5, None], dtype=object),
    "tuple": (4.0, 9.0),
    "rand": np.random.default_rng(0).uniform(0, 1e6, 50),
}
fwd = SquareRootScale.SquareRootTransform()
inv = SquareRootScale.InvertedSquareRootTransform()
for k, a in inputs.items():
    rec(f"fwd.transform_non_affine {k}", lambda a=a: val(fwd.transform_non_affine(a)))
    rec(f"inv.transform {k}", lambda a=a: val(inv.transform(a)))
    rec(f"fwd.transform {k}", lambda a=a: val(fwd.transform(a)))
    rec(f"inv.transform_non_affine {k}", lambda a=a: val(inv.transform_non_affine(a)))
rec("fwd.inverted", lambda: type(fwd.inverted()).__qualname__)
rec("inv.inverted", lambda: type(inv.inverted()).__qualname__)
rec("fwd attrs", lambda: (fwd.input_dims, fwd.output_dims, fwd.is_separable, fwd.has_inverse))
rec("inv attrs", lambda: (inv.input_dims, inv.output_dims, inv.is_separable, inv.has_inverse))

fig, ax = plt.subplots()
rec("scale ctor", lambda: type(SquareRootScale(ax.xaxis)).__name__)
rec("scale ctor kwargs", lambda: type(SquareRootScale(ax.xaxis, foo=1)).__name__)
rec("scale ctor noaxis", lambda: type(SquareRootScale()).__name__)
rec("scale ctor None", lambda: type(SquareRootScale(None)).__name__)
sc = SquareRootScale(ax.xaxis)
rec("scale name", lambda: (sc.name, SquareRootScale.name, "squareroot" in matplotlib.scale.get_scale_names()))
for lims in ((-1.0, 2.0, 0.1), (0.5, 2.0, 0.1), (-3, -1, 1), (0.0, 0.0, 0.0), (np.nan, 1.0, 0.0), ("a", 1, 0), (None, 1, 0)):
    rec(f"limit_range {lims}", lambda lims=lims: repr(sc.limit_range_for_scale(*lims)))
rec("limit_range kw", lambda: repr(sc.limit_range_for_scale(vmin=-2.0, vmax=5.0, minpos=1.0)))
rec("limit_range too few", lambda: repr(sc.limit_range_for_scale(1.0, 2.0)))
rec("get_transform", lambda: type(sc.get_transform()).__qualname__)


def locs():
    sc.set_default_locators_and_formatters(ax.yaxis)
    return [
        type(ax.yaxis.get_major_locator()).__name__,
        type(ax.yaxis.get_major_formatter()).__name__,
        type(ax.yaxis.get_minor_locator()).__name__,
        type(ax.yaxis.get_minor_formatter()).__name__,
    ]


rec("set_default_locators", locs)
rec("set_default_locators bad", lambda: sc.set_default_locators_and_formatters(None))
rec("set_default_locators noarg", lambda: sc.set_default_locators_and_formatters())


def use_scale():
    f2, a2 = plt.subplots()
    a2.plot([0, 1, 4, 9], [0, 1, 2, 3])
    a2.set_xscale("squareroot")
    a2.set_xlim(-1, 9)
    f2.canvas.draw()
    pts = a2.transData.transform([[0.0, 0.0], [1.0, 1.0], [4.0, 2.0], [9.0, 3.0]])
    back = a2.transData.inverted().transform(pts)
    return f"{a2.get_xlim()!r} {arr(np.round(pts, 9))} {arr(np.round(back, 9))} {arr(a2.get_xticks())}"


rec("use_scale", use_scale)
plt.close("all")

# module surface
rec("Reservoir alias", lambda: repr(plotting.Reservoir))
rec("module names", lambda: sorted(n for n in vars(plotting) if not n.startswith("_")))
for f in (plot_pseudopressure, plot_recovery_rate, plot_recovery_factor):
    rec(f"defaults {f.__name__}", lambda f=f: (f.__defaults__, f.__code__.co_varnames[: f.__code__.co_argcount]))

with open(sys.argv[1], "w") as fh:
    fh.write("\n".join(str(o) for o in out) + "\n")
