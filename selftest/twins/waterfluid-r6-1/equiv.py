"""Equivalence driver for twin1 (water b-factor helpers)."""
import os
import sys
import warnings
from fractions import Fraction

import numpy as np
import pandas as pd

warnings.simplefilter("ignore")

from bluebonnet.fluids import water
from bluebonnet.fluids.fluid import Fluid

DATA = os.environ.get("BB_DATA", "/tmp/twin6_waterfluid/tests/data")


def show(x):
    if isinstance(x, pd.Series):
        return "Series[" + show(x.to_numpy()) + "|" + repr(list(x.index)) + "]"
    if isinstance(x, np.ndarray):
        return f"ndarray{x.shape}{x.dtype}[" + ",".join(show(v) for v in x.ravel().tolist()) + "]"
    if isinstance(x, (list, tuple)):
        return type(x).__name__ + "[" + ",".join(show(v) for v in x) + "]"
    return type(x).__name__ + ":" + repr(x)


def call(f, *a, **k):
    try:
        return show(f(*a, **k))
    except BaseException as e:  # noqa: BLE001
        return "EXC:" + type(e).__name__


rng = np.random.default_rng(1234)
temps = [60, 60.0, 100, 200.5, 400, np.float64(325.25), 0, 0.0, -40.0, 1e6, float("nan"), float("inf"),
         np.int64(150), np.float32(212.0), True, Fraction(401, 2), None, "200", 3 + 1j]
pressures = [
    14.7, 3000, 3000.0, 0, 0.0, -100.0, 1e5, 1e200, float("inf"), float("nan"), np.float64(2500.5),
    np.int32(40000), 10**12, Fraction(5, 2), None, "3000", [1.0, 2.0],
    np.array(1234.5), np.array([]), np.array([14.7, 1000.0, 5000.0, 14000.0]),
    np.array([10, 2000, 46341, 100000]), np.array([10, 2000, 46341, 100000], dtype=np.int32),
    np.linspace(10.0, 14000.0, 57), rng.uniform(0, 20000, size=(4, 5)),
    np.array([1.0, np.nan, np.inf, -np.inf, -0.0]), np.array([3000.0], dtype=np.float32),
    pd.Series([100.0, 2000.0, 9000.0], index=[5, 3, 9]), np.array([1 + 2j, 3000.0]),
    np.array([100.0, 200.0], dtype=object),
]
wat = pd.read_csv(os.path.join(DATA, "pvt_water.csv"))
pressures.append(wat["P"].to_numpy())
pressures.append(wat["P"])

out = []
for T in temps:
    for p in pressures:
        out.append(f"b {T!r} {show(p)} -> {call(water.b_water_McCain, T, p)}")
        out.append(f"dp {T!r} {show(p)} -> {call(water.b_water_McCain_dp, T, p)}")
        for s in (0, 15, 3.5, np.float64(20.0)):
            out.append(f"rho {T!r} {show(p)} {s!r} -> {call(water.density_water_McCain, T, p, s)}")
# array temperatures (broadcast against pressure)
Tarr = np.array([100.0, 200.0, 300.0])
for p in (3000.0, np.array([1000.0, 2000.0, 3000.0]), np.array([[1000.0], [5000.0]]), np.array([1.0, 2.0])):
    out.append(f"bT {show(p)} -> {call(water.b_water_McCain, Tarr, p)}")
    out.append(f"dpT {show(p)} -> {call(water.b_water_McCain_dp, Tarr, p)}")
    out.append(f"rhoT {show(p)} -> {call(water.density_water_McCain, Tarr, p, 10.0)}")
# through the Fluid facade
for T in (60, 200.0, 400, np.float64(150.0), None):
    fl = Fluid(T, 35.0, 0.8, 650.0, salinity=5.0)
    for p in pressures:
        out.append(f"FVF {T!r} {show(p)} -> {call(fl.water_FVF, p)}")
# keyword use and arity errors
out.append(call(water.b_water_McCain, temperature=400, pressure=3000))
out.append(call(water.b_water_McCain_dp, pressure=3000, temperature=400))
out.append(call(water.b_water_McCain, 400))
out.append(call(water.b_water_McCain_dp, 400, 3000, 1))

with open(sys.argv[1], "w") as fh:
    fh.write("\n".join(out) + "\n")
