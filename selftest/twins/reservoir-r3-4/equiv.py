"""Equivalence driver for bluebonnet.flow.reservoir (shared preamble)."""
from __future__ import annotations

import os
import sys
import warnings

import numpy as np
import pandas as pd

warnings.simplefilter("ignore")

from bluebonnet.flow import (  # noqa: E402
    FlowProperties,
    IdealReservoir,
    MultiPhaseReservoir,
    SinglePhaseReservoir,
    TwoPhaseReservoir,
)
from bluebonnet.flow import reservoir as resmod  # noqa: E402

DATA = os.environ.get("BB_DATA", "/tmp/twin3_reservoir/tests/data")
REN_GAS = {
    "P": "pressure",
    "Z-Factor": "z-factor",
    "Cg": "compressibility",
    "Viscosity": "viscosity",
    "Density": "density",
}
REN_OIL = {
    "P": "pressure",
    "Z-Factor": "z-factor",
    "Co": "compressibility",
    "Oil_Viscosity": "viscosity",
    "Oil_Density": "density",
}
pvt_gas = pd.read_csv(os.path.join(DATA, "pvt_gas.csv")).rename(columns=REN_GAS)
pvt_oil = pd.read_csv(os.path.join(DATA, "pvt_oil.csv")).rename(columns=REN_OIL)
FLUIDS = {"gas8000": FlowProperties(pvt_gas, 8000.0), "gas3000": FlowProperties(pvt_gas, 3000.0)}
try:
    FLUIDS["oil6000"] = FlowProperties(pvt_oil, 6000.0)
except Exception:  # the oil table may lack columns; gas alone is enough
    pass

OUT = []


def fmt(x):
    """Full-precision, deterministic text form of a result."""
    if x is None or isinstance(x, (str, bool)):
        return repr(x)
    if isinstance(x, (float, np.floating)):
        return repr(float(x))
    if isinstance(x, (int, np.integer)):
        return repr(int(x))
    if isinstance(x, np.ndarray):
        return f"nd{x.shape}{x.dtype}:" + repr(x.tolist())
    if isinstance(x, (list, tuple)):
        return "[" + ", ".join(fmt(v) for v in x) + "]"
    if isinstance(x, dict):
        return "{" + ", ".join(f"{k}: {fmt(v)}" for k, v in sorted(x.items())) + "}"
    return type(x).__name__


def run(label, func, anytype=False):
    """Record func() or the exception it raises (only 'EXC' when anytype)."""
    try:
        res = fmt(func())
    except Exception as e:  # noqa: BLE001
        res = "EXC" if anytype else "EXC:" + type(e).__name__
    OUT.append(f"{label} -> {res}")


def state(res):
    """Observable state of a reservoir object."""
    d = {}
    for k in ("time", "pseudopressure", "recovery"):
        if hasattr(res, k):
            v = getattr(res, k)
            d[k] = np.asarray(v) if isinstance(v, np.ndarray) else v
        else:
            d[k] = "<unset>"
    return d


TIMES = {
    "sq20": np.linspace(0, 2, 20) ** 2,
    "lin7": np.linspace(0, 0.5, 7),
    "one": np.array([0.0]),
    "two": np.array([0.0, 1e-3]),
    "nonmono": np.array([0.0, 1.0, 0.5, 2.0]),
    "long": np.linspace(0, 10, 60) ** 2,
}
CLASSES = {
    "Ideal": IdealReservoir,
    "Single": SinglePhaseReservoir,
    "Two": TwoPhaseReservoir,
}


def finish():
    with open(sys.argv[1], "w") as f:
        f.write("\n".join(OUT) + "\n")


# ---- twin4: exact loop clean-up in SinglePhaseReservoir.simulate ----
gas = FLUIDS["gas8000"]


def run_msg(label, func):
    """Like run, but also records the exception message."""
    try:
        res = fmt(func())
    except Exception as e:  # noqa: BLE001
        res = f"EXC:{type(e).__name__}:{e}"
    OUT.append(f"{label} -> {res}")


class Doubled(SinglePhaseReservoir):
    """User subclass that overrides the diffusivity and scribbles on its argument."""

    def alpha_scaled(self, pseudopressure):
        out = 2.0 * super().alpha_scaled(pseudopressure)
        pseudopressure[-1] *= 0.999  # in-place change of the right-hand side
        return out


class Failing(SinglePhaseReservoir):
    def alpha_scaled(self, pseudopressure):
        if pseudopressure[1] < 0.99:
            raise ValueError("too low")
        return super().alpha_scaled(pseudopressure)


class FailingOther(SinglePhaseReservoir):
    def alpha_scaled(self, pseudopressure):
        raise KeyError("nope")


ALL = dict(CLASSES, Doubled=Doubled, Failing=Failing, FailingOther=FailingOther)
for cname, cls in ALL.items():
    for fname, fluid in FLUIDS.items():
        for tname, time in TIMES.items():
            for nx in (1, 2, 3, 8, 21):
                for pf in (50.0, 1500.0, 7999.0):
                    if cname not in ("Single", "Two") and (pf != 1500.0 or nx in (2, 21)):
                        continue
                    lab = f"{cname}/{fname}/{tname}/nx{nx}/pf{pf}"
                    res = cls(nx, pf, 8000.0, fluid)
                    run_msg(lab + "/simulate", lambda: res.simulate(time))
                    run(lab + "/state", lambda: state(res))
                    run(lab + "/rf", lambda: res.recovery_factor())
                    run(lab + "/rf-density", lambda: res.recovery_factor(density=True))
# time given as list / tuple / series / ints
for tname, time in (
    ("list", [0.0, 0.1, 0.4]),
    ("tuple", (0.0, 0.1, 0.4)),
    ("series", pd.Series([0.0, 0.2, 0.9])),
    ("ints", np.arange(5)),
    ("nan", np.array([0.0, np.nan, 1.0])),
    ("none", None),
    ("scalar", 2.0),
    ("empty", np.array([])),
    ("twod", np.array([[0.0, 1.0], [2.0, 3.0]])),
    ("col", np.array([[0.0], [1.0], [2.0]])),
):
    for cname in ("Single", "Two", "Doubled"):
        res = ALL[cname](6, 400.0, 8000.0, gas)
        run_msg(f"{cname}/time-{tname}/simulate", lambda: res.simulate(time))
        run(f"{cname}/time-{tname}/state", lambda: state(res))
# frac-face pressure series
time = TIMES["lin7"]
for pname, pf in (
    ("decline", np.linspace(2000.0, 200.0, 7)),
    ("rise", np.linspace(200.0, 7900.0, 7)),
    ("above", np.linspace(200.0, 9000.0, 7)),
    ("list", [900.0, 800.0, 700.0, 600.0, 500.0, 400.0, 300.0]),
    ("series", pd.Series(np.linspace(2000.0, 200.0, 7))),
    ("col", np.linspace(2000.0, 200.0, 7).reshape(7, 1)),
    ("twocol", np.linspace(2000.0, 200.0, 14).reshape(7, 2)),
    ("short", np.ones(3)),
    ("long", np.ones(9)),
    ("empty", np.array([])),
    ("outside", np.full(7, 5e4)),
    ("negative", np.full(7, -5.0)),
    ("nan", np.array([900.0, np.nan, 700.0, 600.0, 500.0, 400.0, 300.0])),
    ("scalar", 500.0),
):
    for cname in ("Single", "Doubled", "Failing"):
        for nx in (1, 4, 9):
            res = ALL[cname](nx, 250.0, 8000.0, gas)
            run_msg(f"{cname}/pf-{pname}/nx{nx}/simulate", lambda: res.simulate(time, pf))
            run(f"{cname}/pf-{pname}/nx{nx}/state", lambda: state(res))
            run(f"{cname}/pf-{pname}/nx{nx}/rf", lambda: res.recovery_factor())
# bad constructor arguments
for lab2, args in (
    ("nx0", (0, 250.0, 8000.0, gas)),
    ("nxneg", (-2, 250.0, 8000.0, gas)),
    ("nxfloat", (2.5, 250.0, 8000.0, gas)),
    ("nofluid", (5, 250.0, 8000.0, None)),
    ("pfarray", (5, np.array([250.0, 300.0]), 8000.0, gas)),
    ("pfhigh", (5, 1e5, 8000.0, gas)),
    ("pfstr", (5, "x", 8000.0, gas)),
):
    for tname in ("one", "lin7"):
        res = SinglePhaseReservoir(*args)
        run(f"Single/{lab2}/{tname}/simulate", lambda: res.simulate(TIMES[tname]))
        run(f"Single/{lab2}/{tname}/state", lambda: state(res))
# repeated simulation on the same object; the input arrays must stay untouched
res = SinglePhaseReservoir(7, 250.0, 8000.0, gas)
t_in = TIMES["sq20"].copy()
pf_in = np.linspace(3000.0, 300.0, 20)
run("Single/repeat/1", lambda: (res.simulate(t_in, pf_in), res.recovery_factor())[1])
run("Single/repeat/inputs", lambda: [t_in, pf_in, res.pressure_fracface])
run("Single/repeat/2", lambda: (res.simulate(t_in), state(res))[1])
finish()
