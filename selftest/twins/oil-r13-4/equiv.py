import sys, warnings, inspect
import numpy as np
warnings.simplefilter("ignore")
from bluebonnet.fluids import oil
from bluebonnet.fluids.fluid import Fluid

def fmt(v):
    if isinstance(v, np.ndarray):
        return f"ndarray{v.shape}{v.dtype}[" + ",".join(repr(float(x)) for x in v.ravel()) + "]"
    if isinstance(v, (float, np.floating)):
        return type(v).__name__ + ":" + repr(float(v))
    return type(v).__name__ + ":" + repr(v)

out = []
def call(name, f, *a, **k):
    try:
        r = f(*a, **k)
        out.append(f"{name}{a!r}{k!r} -> {fmt(r)}")
    except Exception as e:
        out.append(f"{name}{a!r}{k!r} -> EXC {type(e).__name__}")

scal_p = [14.7, 100, 500.0, 2000, 2627.2017021875276, 2627.3, 3000, 8000.5, np.float64(1500.0), np.float64(4000.0), 0, -10.0, np.int64(2500), float("nan")]
arr_p = [np.array([100.0, 2000.0, 3000.0, 5000.0]), np.array([3000.0, 4000.0]), np.array([100.0, 500.0]),
         np.array([2000, 3000, 4000]), np.array([]), np.linspace(50, 9000, 23), np.array([[100.0, 3000.0], [2000.0, 6000.0]]),
         [100.0, 3000.0], (2000.0,), np.array([2500.0]), np.array([np.nan, 1000.0, 4000.0]), "abc", None]
params = [(200, 35, 0.8, 650), (150.0, 45.5, 0.65, 1200.0), (300, 20, 1.1, 100), (200, 35, 0.8, 0), (200, 35, 0.0, 650),
          (200, -131.5, 0.8, 650), (0, 35, 0.8, 650), (200, 35, -0.8, 650), (np.float64(210.0), np.float64(30.0), np.float64(0.75), np.float64(800.0))]
five = ["b_o_Standing", "solution_gor_Standing", "dgor_dpressure_Standing", "oil_compressibility_undersat_Standing",
        "oil_compressibility_undersat_Spivey", "density_Standing", "viscosity_beggs_robinson"]
for (T, api, sg, gor) in params:
    for n in ["pressure_bubblepoint_Standing", "b_o_bubblepoint_Standing", "db_o_dgor_Standing"]:
        call(n, getattr(oil, n), T, api, sg, gor)
    call("b_o_bubblepoint_Standing", oil.b_o_bubblepoint_Standing, T, api, sg, np.array([0.0, 100.0, gor]))
    call("db_o_dgor_Standing", oil.db_o_dgor_Standing, T, api, sg, np.array([0.0, 100.0, gor]))
    for n in five:
        f = getattr(oil, n)
        for p in scal_p + arr_p:
            if n in ("b_o_Standing", "density_Standing") and isinstance(p, np.ndarray) and p.dtype.kind == "f" and np.isnan(p).any():
                continue  # np.empty_like leaves NaN-pressure slots uninitialised: not reproducible
            call(n, f, T, p, api, sg, gor)
    for p in scal_p + arr_p[:4]:
        call("oil_compressibility_Standing", oil.oil_compressibility_Standing, T, p, api, sg, gor, -72.2, 653)
        call("oil_compressibility_Standing", oil.oil_compressibility_Standing, T, p, api, sg, gor, -60.0, 640.0, 70, 14.65)
        call("oil_compressibility_Standing", oil.oil_compressibility_Standing, T, p, api, sg, gor, -72.2, 653, pressure_standard=15.0)
call("mu", oil._mu_dead_to_live_br, 2.0, 650)
call("mu", oil._mu_dead_to_live_br, np.array([1.0, 2.0]), np.array([100.0, 650.0]))
call("kw", oil.b_o_Standing, temperature=200, pressure=2000, api_gravity=35, gas_specific_gravity=0.8, solution_gor_initial=650)
call("kw", oil.solution_gor_Standing, temperature=200, pressure=np.array([2000.0, 3000]), api_gravity=35, gas_specific_gravity=0.8, solution_gor_initial=650)
call("kw", oil.dgor_dpressure_Standing, temperature=200, pressure=2000, api_gravity=35, gas_specific_gravity=0.8, solution_gor_initial=650)
call("kw", oil.viscosity_beggs_robinson, temperature=200, pressure=2000, api_gravity=35, gas_specific_gravity=0.8, solution_gor_initial=650)
call("kw", oil.oil_compressibility_undersat_Spivey, temperature=200, pressure=3000, api_gravity=35, gas_specific_gravity=0.8, solution_gor_initial=650)
call("argc", oil.b_o_Standing, 200, 2000, 35, 0.8)
call("argc", oil.density_Standing, 200, 2000, 35, 0.8, 650, 1)
# input arrays must not be mutated
p = np.array([100.0, 2000.0, 3000.0, 5000.0]); p0 = p.copy()
oil.b_o_Standing(200, p, 35, 0.8, 650); oil.solution_gor_Standing(200, p, 35, 0.8, 650)
out.append("mutated:" + repr(bool((p != p0).any())))
for n in sorted(x for x in dir(oil) if not x.startswith("_") and inspect.isfunction(getattr(oil, x)) and getattr(oil, x).__module__ == oil.__name__):
    out.append("sig " + n + str(list(inspect.signature(getattr(oil, n)).parameters)) + repr(getattr(oil, n).__defaults__))
fl = Fluid(200, 35, 0.8, 650)
for p in [1000.0, 3000.0, np.array([500.0, 2000.0, 3500.0, 6000.0])]:
    call("Fluid.oil_FVF", fl.oil_FVF, p)
    call("Fluid.oil_viscosity", fl.oil_viscosity, p)
open(sys.argv[1], "w").write("\n".join(out) + "\n")
