"""Equivalence driver for twin4 (pseudocritical_point_Sutton and its users)."""

from __future__ import annotations

import sys
import warnings

import numpy as np
import pandas as pd

from bluebonnet.fluids import build_pvt_gas, gas

warnings.simplefilter("ignore")
lines = []


def fmt(v):
    if isinstance(v, tuple):
        return "(" + ", ".join(fmt(x) for x in v) + ")"
    if isinstance(v, np.ndarray):
        return "array" + repr(v.shape) + "[" + ", ".join(fmt(x) for x in v.ravel()) + "]"
    if isinstance(v, (float, np.floating)):
        return type(v).__name__ + ":" + repr(float(v))
    return type(v).__name__ + ":" + repr(v)


def rec(label, fn, *args, **kwargs):
    try:
        out = fmt(fn(*args, **kwargs))
    except Exception as e:  # noqa: BLE001
        out = "EXC " + type(e).__name__ + ":" + str(e)[:60]
    shown = tuple(a if not isinstance(a, (np.ndarray, pd.DataFrame)) else type(a).__name__ for a in args)
    lines.append(f"{label} {shown!r} {kwargs!r} -> {out}")


m = gas.make_nonhydrocarbon_properties
pc = gas.pseudocritical_point_Sutton
he = ("He", 0.01, 4.0, 9.3, 33.0)
ar = ("Ar", 0.02, 39.9, 271.0, 705.0)

tables = {
    "doc1": m(0.03, 0.012, 0.018),
    "doc2": m(0.05, 0.01, 0.04),
    "zero": m(0.0, 0.0, 0.0),
    "intzero": m(0, 0, 0),
    "n2only": m(0.2, 0.0, 0.0),
    "h2sonly": m(0.0, 0.15, 0.0),
    "co2only": m(0.0, 0.0, 0.3),
    "sour": m(0.01, 0.25, 0.2),
    "extra1": m(0.03, 0.012, 0.018, he),
    "extra2": m(0.03, 0.012, 0.018, he, ar),
    "neg-h2s": m(0.03, -0.012, 0.018),
    "neg-co2": m(0.03, 0.012, -0.05),
    "all-nonhc": m(0.5, 0.25, 0.25),
    "over": m(0.6, 0.3, 0.3),
    "nan": m(float("nan"), 0.01, 0.01),
    "nan-h2s": m(0.01, float("nan"), 0.01),
}
tables["two-rows"] = tables["doc1"][:2]
tables["one-row"] = tables["doc1"][:1]
tables["no-rows"] = tables["doc1"][:0]
tables["reversed"] = tables["doc1"][::-1]
tables["recarray"] = tables["doc1"].view(np.recarray)
tables["dataframe"] = pd.DataFrame(tables["doc2"])
tables["dataframe-extra"] = pd.DataFrame(tables["extra2"])

for name, table in tables.items():
    for fluid in ("dry gas", "wet gas"):
        for sg in (0.55, 0.65, 0.8, 1.0, 1.4, np.float64(0.7), 1):
            rec(f"pc[{name}]", pc, sg, table, fluid)
    rec(f"pc-default[{name}]", pc, 0.75, table)

doc1 = tables["doc1"]
# array-valued specific gravity works today
rec("pc-sg-array", pc, np.array([0.6, 0.7, 0.8]), doc1, "dry gas")
rec("pc-sg-array", pc, np.array([0.6, 0.7, 0.8]), doc1, "wet gas")
rec("pc-sg-array1", pc, np.array([0.6]), doc1)
rec("pc-sg-zero", pc, 0.0, doc1, "dry gas")
rec("pc-sg-neg", pc, -1.0, doc1, "wet gas")
rec("pc-sg-nan", pc, float("nan"), doc1, "wet gas")
rec("pc-sg-inf", pc, float("inf"), doc1, "dry gas")
rec("pc-sg-str", pc, "0.65", doc1, "dry gas")
rec("pc-sg-none", pc, None, doc1, "dry gas")
# keyword forms
rec("pc-kw", pc, specific_gravity=0.65, non_hydrocarbon_properties=doc1, fluid="dry gas")
rec("pc-kw2", pc, 0.65, doc1, fluid="wet gas")
rec("pc-kw3", pc, fluid="dry gas", non_hydrocarbon_properties=doc1, specific_gravity=0.9)
rec("pc-missing", pc, 0.65)
rec("pc-extra", pc, 0.65, doc1, "dry gas", 1)
# fluid validation (runs before anything else is looked at)
bad_table = {"not": "a table"}
for fluid in (
    "oil",
    "Dry Gas",
    "dry gas ",
    "",
    "drygas",
    None,
    5,
    0.0,
    b"dry gas",
    ("dry gas",),
    ["dry gas"],
    ("dry gas", "wet gas"),
    np.str_("dry gas"),
    np.str_("wet gas"),
    np.str_("gas"),
    np.array("wet gas"),
    np.array(["dry gas"]),
    np.array(["dry gas", "wet gas"]),
    np.array(["oil", "oil"]),
    True,
):
    lines.append("fluid value " + repr(fluid))
    rec("pc-fluid", pc, 0.65, doc1, fluid)
    rec("pc-fluid-badtable", pc, 0.65, bad_table, fluid)
# wrong kinds of table with a valid fluid
rec("pc-table-dict", pc, 0.65, bad_table, "dry gas")
rec("pc-table-plain", pc, 0.65, np.zeros((3, 5)), "dry gas")
rec("pc-table-none", pc, 0.65, None, "wet gas")
rec("pc-table-list", pc, 0.65, [0.1, 0.2, 0.3], "wet gas")
rec(
    "pc-table-dict-arrays",
    pc,
    0.65,
    {
        "fraction": np.array([0.03, 0.012, 0.018]),
        "molecular weight": np.array([28.01, 34.08, 44.01]),
        "critical temperature": np.array([226.98, 672.35, 547.54]),
        "critical pressure": np.array([492.26, 1299.97, 1070.67]),
    },
    "wet gas",
)
rec(
    "pc-table-dict-lists",
    pc,
    0.65,
    {
        "fraction": [0.03, 0.012, 0.018],
        "molecular weight": [28.01, 34.08, 44.01],
        "critical temperature": [226.98, 672.35, 547.54],
        "critical pressure": [492.26, 1299.97, 1070.67],
    },
    "wet gas",
)
# the input table is not modified
before = doc1.copy()
pc(0.65, doc1, "dry gas")
lines.append(f"unmodified {bool((before == doc1).all())}")

gas_values = {
    "N2": 0.03,
    "H2S": 0.012,
    "CO2": 0.018,
    "Gas Specific Gravity": 0.65,
    "Reservoir Temperature (deg F)": 400,
}
for dryness in ("dry gas", "wet gas", "oil", None):
    try:
        table = build_pvt_gas(gas_values, dryness, 300.0)
        for col in table.columns:
            lines.append(f"pvt {dryness} {col} " + fmt(table[col].to_numpy()))
    except Exception as e:  # noqa: BLE001
        lines.append(f"pvt {dryness} EXC {type(e).__name__}:{e}")

with open(sys.argv[1], "w") as fh:
    fh.write("\n".join(lines) + "\n")
