"""Equivalence driver: writes results of the touched functions to the file given as argv[1]."""

import os
import sys
import warnings

import numpy as np
import pandas as pd

BB_DATA = os.environ.get("BB_DATA", "/tmp/twin3_waterfluid/tests/data")
EXC_TYPE = True  # record the exception type (False: only that something was raised)
LINES = []


def fmt(value):
    if isinstance(value, pd.DataFrame):
        cols = [f"{c}:{fmt(value[c].to_numpy())}" for c in value.columns]
        return "DataFrame[" + "; ".join(cols) + "]"
    if isinstance(value, pd.Series):
        return "Series(" + fmt(value.to_numpy()) + ")"
    if isinstance(value, np.ndarray):
        flat = ",".join(fmt(v) for v in value.ravel().tolist())
        return f"ndarray<{value.dtype},{value.shape}>[{flat}]"
    if isinstance(value, np.generic):
        return f"{type(value).__name__}({value.item()!r})"
    if isinstance(value, (list, tuple)):
        return type(value).__name__ + "[" + ",".join(fmt(v) for v in value) + "]"
    return repr(value)


def record(label, func, *args, **kwargs):
    with warnings.catch_warnings(record=True) as caught:
        warnings.simplefilter("always")
        try:
            with np.errstate(all="ignore"):
                out = fmt(func(*args, **kwargs))
        except Exception as exc:  # noqa: BLE001
            out = "EXC:" + (type(exc).__name__ if EXC_TYPE else "raised")
    cats = sorted({w.category.__name__ for w in caught})
    LINES.append(f"{label} -> {out}" + (f" warnings={cats}" if cats else ""))


def finish():
    with open(sys.argv[1], "w") as fh:
        fh.write("\n".join(LINES) + "\n")
    print(f"{len(LINES)} records written")


from bluebonnet.fluids import water

water_table = pd.read_csv(os.path.join(BB_DATA, "pvt_water.csv"))
table_pressure = water_table.iloc[:, 0].to_numpy(dtype=float)

TEMPERATURES = [
    60, 200.0, 400, 0.0, -40.0, 1e6, True, np.float64(250.5), np.float32(250.5), np.int64(300),
    float("nan"), float("inf"), np.array([100.0, 200.0, 300.0]), np.array([[100.0], [200.0]]),
    np.array([], dtype=float), [100.0, 200.0], None, "hot", 1 + 2j,
]
PRESSURES = [
    14.7, 3000, 3000.0, 0, -500.0, 1e5, 1e12, True,
    np.float64(5000.0), np.float32(5000.0), np.int64(5000), np.int32(50000),
    float("nan"), float("inf"),
    np.array([14.7, 1000.0, 5000.0]), np.array([10, 1000, 100000]),
    np.linspace(10.0, 14000.0, 7), np.array([[100.0, 200.0, 300.0]]),
    np.array([], dtype=float), np.array(2500.0), table_pressure[:: max(1, len(table_pressure) // 9)],
    pd.Series([100.0, 2000.0]), [100.0, 2000.0], None, "high", 1j,
]
SALINITIES = [
    0, 0.0, 15, 15.0, 30.5, -1.0, 1e200, True, np.float32(10.0), np.int64(7), np.array([0.0, 10.0, 20.0]),
    np.array([[1.0], [2.0]]), float("nan"), float("inf"), [1.0, 2.0], None, "salty", 2j,
]

for it, t in enumerate(TEMPERATURES):
    for ip, p in enumerate(PRESSURES):
        for isal, s in enumerate(SALINITIES):
            record(f"density_water_McCain[t{it},p{ip},s{isal}]", water.density_water_McCain, t, p, s)

for ip, p in enumerate(PRESSURES):
    record(f"density_water_McCain_kw[p{ip}]", water.density_water_McCain, salinity=12.5, pressure=p, temperature=180.0)

# the b-factor of 0 gives a division by zero: find a root of (1 + dV_dp) for T = 100 F
roots = np.roots([-2.25341e-10 - 1.72834e-13 * 100.0, -3.58922e-7 - 1.95301e-9 * 100.0, 1.0])
for ir, r in enumerate(sorted(float(x) for x in roots.real)):
    record(f"density_water_McCain_nearzero[{ir}]", water.density_water_McCain, 100.0, r, 10.0)
record("density_water_McCain_zero_div", water.density_water_McCain, 100.0, 1e200, 10.0)
record("density_water_McCain_zero_div_int", water.density_water_McCain, 0, 0, 0)

# wrong arity / unknown keywords
record("density_water_McCain()", water.density_water_McCain)
record("density_water_McCain(1,2)", water.density_water_McCain, 1, 2)
record("density_water_McCain(1,2,3,4)", water.density_water_McCain, 1, 2, 3, 4)
record("density_water_McCain(1,2,3,'kg/m3')", water.density_water_McCain, 1, 2, 3, "kg/m3")
record("density_water_McCain(units=)", water.density_water_McCain, 1, 2, 3, units="kg/m3")
record("density_water_McCain(dup)", water.density_water_McCain, 1, 2, 3, salinity=3)
# the docstring example
record("density_water_McCain(400,3000,15)", water.density_water_McCain, 400, 3000, 15)
finish()
