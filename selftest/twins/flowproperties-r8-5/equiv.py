"""Equivalence driver: writes results of the touched API to <outfile>."""
from __future__ import annotations

import os
import sys
import warnings

import numpy as np
import pandas as pd

warnings.simplefilter("ignore")

DATA = os.environ.get("BB_DATA", "/tmp/twin8_flowproperties/tests/data")
LINES: list[str] = []


def fmt(obj):
    if isinstance(obj, pd.DataFrame):
        return "DataFrame{" + "; ".join(f"{c}={fmt(obj[c].to_numpy())}" for c in obj.columns) + "}"
    if isinstance(obj, pd.Series):
        return "Series" + fmt(obj.to_numpy())
    if isinstance(obj, np.ndarray):
        if obj.dtype.names:
            return "rec{" + "; ".join(f"{n}={fmt(obj[n])}" for n in obj.dtype.names) + "}"
        return f"arr[{obj.dtype},{obj.shape}]" + repr([fmt(v) for v in obj.ravel().tolist()])
    if isinstance(obj, (float, np.floating)):
        return repr(float(obj))
    if isinstance(obj, dict):
        return "{" + ", ".join(f"{k}: {fmt(v)}" for k, v in obj.items()) + "}"
    if isinstance(obj, (list, tuple)):
        return "[" + ", ".join(fmt(v) for v in obj) + "]"
    return repr(obj)


def record(label, thunk):
    try:
        out = fmt(thunk())
    except Exception as exc:  # noqa: BLE001
        out = "EXC " + type(exc).__name__
    LINES.append(f"{label} :: {out}")


def finish():
    with open(sys.argv[1], "w") as fh:
        fh.write("\n".join(LINES) + "\n")


def make_df_pvt(Sw=0.1):
    pvt_oil = pd.read_csv(os.path.join(DATA, "pvt_oil.csv"))
    pvt_water = pd.read_csv(os.path.join(DATA, "pvt_water.csv")).rename(
        columns={"T": "temperature", "P": "pressure", "Viscosity": "mu_w"}
    )
    rename_cols = {
        "T": "temperature",
        "P": "pressure",
        "Oil_Viscosity": "mu_o",
        "Gas_Viscosity": "mu_g",
        "Rso": "Rs",
    }
    df_pvt = (
        pvt_water.drop(columns=["temperature"])
        .merge(pvt_oil.rename(columns=rename_cols), on="pressure")
        .assign(Rv=0)
    )
    df_pvt["So"] = (1 - Sw) / (
        (df_pvt["Rs"].max() - df_pvt["Rs"]) * df_pvt["Bg"] / df_pvt["Bo"] / 5.61458 + 1
    )
    return df_pvt


def make_gas_table(name="pvt_gas.csv"):
    ren = {
        "P": "pressure",
        "Z-Factor": "z-factor",
        "Cg": "compressibility",
        "Viscosity": "viscosity",
        "Density": "density",
    }
    return pd.read_csv(os.path.join(DATA, name)).rename(columns=ren)


REF_DENS = {"rho_o0": 141.5 / (45 + 131.5), "rho_g0": 1.03e-3, "rho_w0": 1}


from bluebonnet.flow.flowproperties import (
    FlowPropertiesTwoPhase,
    RelPermParams,
    relative_permeabilities,
    relative_permeabilities_twophase,
    rescale_pseudopressure,
)


def describe(k):
    return [
        type(k).__name__,
        str(k.dtype),
        k.shape,
        k.flags["C_CONTIGUOUS"],
        k.flags["OWNDATA"],
        k.flags["WRITEABLE"],
        k,
        [bool(np.signbit(k[n]).any()) for n in k.dtype.names],
    ]


def sat_records(So, Sw, Sg, dtype=np.float64):
    return pd.DataFrame(
        {"So": np.asarray(So, dtype=dtype), "Sw": np.asarray(Sw, dtype=dtype), "Sg": np.asarray(Sg, dtype=dtype)}
    ).to_records(index=False)


def sat_struct(So, Sw, Sg, order=("So", "Sw", "Sg")):
    cols = {"So": So, "Sw": Sw, "Sg": Sg}
    out = np.zeros(len(So), dtype=[(n, "f8") for n in order])
    for n in order:
        out[n] = cols[n]
    return out


base = RelPermParams(n_o=1, n_g=1, n_w=1, S_or=0, S_gc=0, S_wc=0.1, k_ro_max=1, k_rw_max=1, k_rg_max=1)
param_sets = {
    "base": base,
    "corey": RelPermParams(2.5, 3, 1.5, 0.05, 0.15, 0.02, 0.8, 0.3, 0.9),
    "sixes": RelPermParams(6, 6, 6, 0.2, 0.2, 0.2, 1, 1, 1),
    "ints": RelPermParams(2, 3, 4, 0, 0, 0, 1, 0, 1),
    "zero kmax": RelPermParams(2, 2, 2, 0.1, 0.1, 0.1, 0, 0, 0),
    "neg zero kmax": RelPermParams(2, 2, 2, 0.1, 0.1, 0.1, -0.0, -0.0, -0.0),
    "residuals sum to one": RelPermParams(2, 2, 2, 0.5, 0.25, 0.25, 1, 1, 1),
    "residuals above one": RelPermParams(2, 2, 2, 0.6, 0.5, 0.4, 1, 1, 1),
    "np scalars": RelPermParams(np.float64(2), np.float32(1.5), np.int64(3), np.float64(0.1), 0.1, 0.05, np.float64(0.7), 0.5, 1),
    "nan exponent": RelPermParams(np.nan, 2, 2, 0.1, 0.1, 0.1, 1, 1, 1),
    "nan residual": RelPermParams(2, 2, 2, np.nan, 0.1, 0.1, 1, 1, 1),
    "nan kmax": RelPermParams(2, 2, 2, 0.1, 0.1, 0.1, np.nan, 1, 1),
    # rejected parameter sets
    "n_o too big": base._replace(n_o=8),
    "n_g too big": base._replace(n_g=6.0001),
    "n_w too small": base._replace(n_w=0),
    "n_o too small": base._replace(n_o=0.999),
    "S_gc negative": base._replace(S_gc=-1),
    "S_or above one": base._replace(S_or=1.1),
    "k_ro_max above one": base._replace(k_ro_max=1.1),
    "k_rg_max negative": base._replace(k_rg_max=-0.1),
    "string exponent": base._replace(n_o="2"),
    "None residual": base._replace(S_or=None),
}
n = 50
grids = {
    "twophase grid": (np.linspace(0, 0.9, n), np.full(n, 0.1), np.linspace(0.9, 0, n)),
    "three phase": (np.linspace(0, 0.6, 13), np.linspace(0.3, 0.1, 13), 1 - np.linspace(0, 0.6, 13) - np.linspace(0.3, 0.1, 13)),
    "single row": ([0.5], [0.2], [0.3]),
    "two rows": ([0.0, 1.0], [0.0, 0.0], [1.0, 0.0]),
    "corners": ([1.0, 0.0, 0.0], [0.0, 1.0, 0.0], [0.0, 0.0, 1.0]),
    "negative saturation within tolerance": ([-0.0004, 0.5], [0.5, 0.5004], [0.5004, 0.0]),
    "above one within tolerance": ([1.0005, 0.3], [0.0, 0.3], [0.0, 0.4]),
    "sum off by 1e-3 minus": ([0.5, 0.3], [0.2, 0.3], [0.3 + 0.0009, 0.4 - 0.0009]),
    "sum off too much": ([0.5, 0.3], [0.2, 0.3], [0.3, 0.402]),
    "all plus one": (np.linspace(0, 0.9, 5) + 1, np.full(5, 1.1), np.linspace(0.9, 0, 5) + 1),
    "nan row": ([np.nan, 0.5], [0.1, 0.2], [0.2, 0.3]),
    "inf row": ([np.inf, 0.5], [-np.inf, 0.2], [0.2, 0.3]),
    "empty": ([], [], []),
}
for pname, params in param_sets.items():
    for gname, (So, Sw, Sg) in grids.items():
        record(f"{pname} | {gname} | records", lambda: describe(relative_permeabilities(sat_records(So, Sw, Sg), params)))
    So, Sw, Sg = grids["three phase"]
    record(f"{pname} | structured", lambda: describe(relative_permeabilities(sat_struct(So, Sw, Sg), params)))
    record(f"{pname} | structured other field order", lambda: describe(relative_permeabilities(sat_struct(So, Sw, Sg, ("Sg", "So", "Sw")), params)))
    record(f"{pname} | float32 records", lambda: describe(relative_permeabilities(sat_records([0.25, 0.5], [0.25, 0.25], [0.5, 0.25], np.float32), params)))
    record(f"{pname} | int records", lambda: describe(relative_permeabilities(sat_records([1, 0], [0, 0], [0, 1], np.int64), params)))
    record(f"{pname} | strided view", lambda: describe(relative_permeabilities(sat_struct(So, Sw, Sg)[::3], params)))
    record(f"{pname} | twophase default", lambda: relative_permeabilities_twophase(params))
    for Sw_ in (0.1, 0.0, 0.05, -0.1, 0.15, 0.8, 1.0, np.nan):
        record(f"{pname} | twophase Sw={Sw_}", lambda: relative_permeabilities_twophase(params, Sw_))
    record(f"{pname} | twophase Sw keyword", lambda: relative_permeabilities_twophase(params=params, Sw=0.02))

# wrong container types
So, Sw, Sg = grids["three phase"]
df_sat = pd.DataFrame({"So": So, "Sw": Sw, "Sg": Sg})
record("dataframe input", lambda: describe(relative_permeabilities(df_sat, base)))
record("dict input", lambda: describe(relative_permeabilities({"So": So, "Sw": Sw, "Sg": Sg}, base)))
record("list of tuples", lambda: describe(relative_permeabilities(list(zip(So, Sw, Sg)), base)))
record("plain 2d array", lambda: describe(relative_permeabilities(np.column_stack([So, Sw, Sg]), base)))
record("2d structured", lambda: describe(relative_permeabilities(sat_struct(So[:12], Sw[:12], Sg[:12]).reshape(3, 4), base)))
record("0d structured", lambda: describe(relative_permeabilities(sat_struct(So, Sw, Sg)[0], base)))
record("missing Sg field", lambda: describe(relative_permeabilities(np.zeros(3, dtype=[("So", "f8"), ("Sw", "f8")]), base)))
record("fields summing to one without Sg", lambda: describe(relative_permeabilities(np.array([(0.5, 0.5)], dtype=[("So", "f8"), ("Sw", "f8")]), base)))
record("extra field", lambda: describe(relative_permeabilities(np.array([(0.5, 0.3, 0.2, 0.0)], dtype=[("So", "f8"), ("Sw", "f8"), ("Sg", "f8"), ("x", "f8")]), base)))
record("None input", lambda: relative_permeabilities(None, base))
record("tuple params", lambda: relative_permeabilities(sat_records(So, Sw, Sg), (1, 1, 1, 0, 0.1, 0, 1, 1, 1)))
record("result is independent of input", lambda: (lambda s: (relative_permeabilities(s, base), s))(sat_records(So, Sw, Sg)))

# downstream: the table feeds the two-phase flow properties
df = make_df_pvt()
for pname in ("base", "corey", "np scalars"):
    df_kr = relative_permeabilities_twophase(param_sets[pname], 0.1)
    def make():
        scaled = rescale_pseudopressure(df, 1000, 8000.0)
        fp = FlowPropertiesTwoPhase.from_table(scaled, df_kr, REF_DENS, 0.1, 0.1, 8000.0)
        return [fp.m_i, fp.alpha(np.linspace(-0.1, 1.1, 25)), [fp.kr[k]([0, 0.2, 0.4, 0.9]) for k in ("kro", "krg", "krw")]]
    record(f"{pname} | from_table", make)

finish()
