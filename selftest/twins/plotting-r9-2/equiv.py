"""Exercise bluebonnet.plotting on a broad set of inputs and dump every observable result."""

from __future__ import annotations

import os
import sys
import warnings
from types import SimpleNamespace

import matplotlib

matplotlib.use("Agg")
import matplotlib.pyplot as plt
import matplotlib.scale as mscale
import numpy as np

import bluebonnet.plotting as bp
from bluebonnet.flow import IdealReservoir
from bluebonnet.plotting import (
    SquareRootScale,
    plot_pseudopressure,
    plot_recovery_factor,
    plot_recovery_rate,
)

BB_DATA = os.environ.get("BB_DATA", "/tmp/twin9_plotting/tests/data")
out = []


def fmt(v):
    if isinstance(v, np.ndarray):
        return f"ndarray{v.shape}{v.dtype}[" + ",".join(repr(x) for x in v.ravel().tolist()) + "]"
    if isinstance(v, (tuple, list)):
        return type(v).__name__ + "(" + ",".join(fmt(x) for x in v) + ")"
    return f"{type(v).__name__}:{v!r}"


def describe_ax(ax):
    rows = []
    rows.append(f"  nlines={len(ax.lines)}")
    for k, line in enumerate(ax.lines):
        rows.append(
            f"  line{k} color={line.get_color()!r} label={line.get_label()!r} "
            f"ls={line.get_linestyle()!r} lw={line.get_linewidth()!r} marker={line.get_marker()!r}"
        )
        rows.append("    x=" + fmt(np.asarray(line.get_xdata(orig=True))))
        rows.append("    y=" + fmt(np.asarray(line.get_ydata(orig=True))))
    rows.append(f"  xlabel={ax.get_xlabel()!r} ylabel={ax.get_ylabel()!r}")
    rows.append(f"  xscale={ax.get_xscale()!r} yscale={ax.get_yscale()!r}")
    rows.append("  xlim=" + fmt(tuple(ax.get_xlim())) + " ylim=" + fmt(tuple(ax.get_ylim())))
    rows.append("  xticks=" + fmt(np.asarray(ax.get_xticks())))
    rows.append("  yticks=" + fmt(np.asarray(ax.get_yticks())))
    rows.append(f"  nfigs={len(plt.get_fignums())}")
    return rows


def run(tag, func, *args, own_ax=True, **kwargs):
    """Call a plotting function, record result / exception / warnings / axes state."""
    plt.close("all")
    ax = None
    if own_ax:
        _, ax = plt.subplots()
        kwargs = dict(kwargs, ax=ax)
    out.append(f"== {tag}")
    with warnings.catch_warnings(record=True) as caught:
        warnings.simplefilter("always")
        try:
            res = func(*args, **kwargs)
        except BaseException as exc:  # noqa: BLE001
            out.append(f"  RAISED {type(exc).__name__}")
            res = None
        else:
            out.append(f"  returned {type(res).__name__} same_ax={res is ax}")
    for w in caught:
        out.append(f"  WARN {w.category.__name__}: {str(w.message)[:70]}")
    target = res if res is not None else ax
    if target is not None:
        out.extend(describe_ax(target))
    else:
        out.append(f"  nfigs={len(plt.get_fignums())}")
        for num in plt.get_fignums():
            for a in plt.figure(num).axes:
                out.extend(describe_ax(a))
    plt.close("all")


def run_strict(tag, func, *args, **kwargs):
    """Same call with warnings turned into errors."""
    plt.close("all")
    _, ax = plt.subplots()
    out.append(f"== strict {tag}")
    with warnings.catch_warnings():
        warnings.simplefilter("error")
        try:
            func(*args, ax=ax, **kwargs)
        except BaseException as exc:  # noqa: BLE001
            out.append(f"  RAISED {type(exc).__name__}: {str(exc)[:70]}")
        else:
            out.append("  ok")
    out.extend(describe_ax(ax))
    plt.close("all")


# ---------------------------------------------------------------- reservoirs
def ideal(nx, time):
    r = IdealReservoir(nx, 100.0, 2000.0, None)
    r.simulate(time)
    return r


def fake(pp, time, rf=None, nx=None):
    pp = np.asarray(pp, dtype=float) if not isinstance(pp, list) else pp
    ns = SimpleNamespace()
    ns.pseudopressure = pp
    ns.nx = nx if nx is not None else (np.shape(pp)[1] if np.ndim(pp) == 2 else 0)
    ns.time = time
    rf_val = rf
    ns.recovery_factor = lambda: rf_val
    return ns


res_big = ideal(12, np.linspace(0, np.sqrt(3.0), 41) ** 2)
res_nx2 = ideal(2, np.linspace(0, 1.0, 7))
res_nt2 = ideal(5, np.array([0.0, 0.5]))
res_nt1 = ideal(5, np.array([0.0]))
res_nt3 = ideal(4, np.array([0.0, 0.1, 0.4]))
res_unsim = IdealReservoir(5, 100.0, 2000.0, None)

rng = np.random.default_rng(7)
pp_rand = rng.uniform(0.1, 5.0, size=(9, 6))
res_fake = fake(pp_rand, np.linspace(0.0, 2.0, 9), rf=np.linspace(0.0, 0.7, 9) ** 0.5)
pp_same = pp_rand.copy()
pp_same[3, 0] = pp_same[0, -1]  # a later row with p[0] == pinit: 1/0 warnings
pp_same[6, 0] = pp_same[0, -1]
res_fake_zero = fake(pp_same, np.linspace(0.0, 2.0, 9), rf=np.linspace(0.0, 0.7, 9))
res_fake_list_time = fake(pp_rand, [0.0, 0.25, 0.5, 0.75, 1.0, 1.25, 1.5, 1.75, 2.0], rf=list(np.linspace(0, 0.5, 9)))
res_fake_nan_time = fake(pp_rand, np.array([0.0, 0.3, np.nan, 0.9, 1.2, 1.5, 1.8, 2.1, 2.4]), rf=np.linspace(0, 0.5, 9))
res_fake_nan_first = fake(pp_rand, np.array([np.nan, 0.3, 0.6, 0.9, 1.2, 1.5, 1.8, 2.1, 2.4]), rf=np.linspace(0, 0.5, 9))
res_fake_empty = fake(np.empty((0, 4)), np.array([]), rf=np.array([]))
res_fake_listpp = fake([[1.0, 2.0, 3.0], [0.5, 1.5, 2.5]], np.array([0.0, 1.0]), rf=np.array([0.0, 0.2]), nx=3)
res_fake_mismatch = fake(pp_rand, np.linspace(0.0, 2.0, 9), rf=np.linspace(0, 0.5, 9), nx=5)
res_fake_nx0 = fake(pp_rand, np.linspace(0.0, 2.0, 9), rf=np.linspace(0, 0.5, 9), nx=0)
res_fake_negtime = fake(pp_rand, np.linspace(-3.0, -1.0, 9), rf=np.linspace(0, 0.5, 9))
res_fake_rfshort = fake(pp_rand, np.linspace(0.0, 2.0, 9), rf=np.linspace(0, 0.5, 8))
res_fake_scalar_time = fake(pp_rand, 3.0, rf=np.linspace(0, 0.5, 9))
res_fake_int_time = fake(pp_rand, np.arange(9), rf=np.linspace(0, 0.5, 9))

reservoirs = {
    "big": res_big,
    "nx2": res_nx2,
    "nt2": res_nt2,
    "nt1": res_nt1,
    "nt3": res_nt3,
    "unsim": res_unsim,
    "fake": res_fake,
    "fake_zero": res_fake_zero,
    "fake_list_time": res_fake_list_time,
    "fake_nan_time": res_fake_nan_time,
    "fake_nan_first": res_fake_nan_first,
    "fake_empty": res_fake_empty,
    "fake_listpp": res_fake_listpp,
    "fake_mismatch": res_fake_mismatch,
    "fake_nx0": res_fake_nx0,
    "fake_negtime": res_fake_negtime,
    "fake_rfshort": res_fake_rfshort,
    "fake_scalar_time": res_fake_scalar_time,
    "fake_int_time": res_fake_int_time,
    "none": None,
}

# ---------------------------------------------------------------- plot_pseudopressure
everies = [1, 2, 3, 5, 8, 9, 40, 41, 200, -1, -2, -3, 0, 0.0, 2.0, 2.5, True, np.int64(4),
           np.float64(0.0), np.array([2]), np.array([2, 3]), "a", None]
for name, r in reservoirs.items():
    for every in ([1, 2, 200, 0, -2] if name not in ("big", "fake", "fake_zero") else everies):
        for rescale in (False, True):
            run(f"pp {name} every={every!r} rescale={rescale}", plot_pseudopressure, r,
                every=every, rescale=rescale)
for rescale in (False, True, 0, 1, "yes", "", None, np.array([True]), np.array([True, False])):
    run(f"pp fake rescale={rescale!r}", plot_pseudopressure, res_fake, every=2, rescale=rescale)
res_fake_long = fake(rng.uniform(0.1, 5.0, size=(140, 3)), np.linspace(0.0, 2.0, 140), rf=np.linspace(0, 0.5, 140))
for every in (np.int8(100), np.int8(64), np.uint8(130), np.float16(70.0), 139, 140):
    for rescale in (False, True):
        run(f"pp fake_long every={every!r} rescale={rescale}", plot_pseudopressure, res_fake_long,
            every=every, rescale=rescale)
run("pp big defaults own figure", plot_pseudopressure, res_big, own_ax=False)
run("pp big positional", plot_pseudopressure, res_big, 10, True, own_ax=False)
run("pp unsim own figure", plot_pseudopressure, res_unsim, own_ax=False)
run("pp none own figure", plot_pseudopressure, None, own_ax=False)
run("pp mismatch own figure", plot_pseudopressure, res_fake_mismatch, own_ax=False)
run("pp big xmax ymax", plot_pseudopressure, res_big, every=4, x_max=0.5, y_max=0.8)
run("pp big xmax None", plot_pseudopressure, res_big, every=4, x_max=None, y_max=2)
run("pp big kwargs", plot_pseudopressure, res_big, every=7, plot_kwargs={"ls": "--", "lw": 3.0, "label": "m"})
run("pp big kwargs empty", plot_pseudopressure, res_big, every=7, plot_kwargs={})
run("pp big kwargs color clash", plot_pseudopressure, res_big, every=7, plot_kwargs={"color": "r"})
run("pp big kwargs bad key", plot_pseudopressure, res_big, every=7, plot_kwargs={"nonsense": 1})
run("pp big kwargs not a dict", plot_pseudopressure, res_big, every=7, plot_kwargs=[1, 2])
run("pp big kwargs nonstring key", plot_pseudopressure, res_big, every=7, plot_kwargs={1: 2})
run("pp big ax not axes", plot_pseudopressure, res_big, every=7, own_ax=False, ax="notanaxes")
kw = {"lw": 2.0}
run("pp big kwargs reused", plot_pseudopressure, res_big, every=20, plot_kwargs=kw)
out.append(f"kw after={kw!r}")
for name in ("big", "fake", "fake_zero", "nt1", "fake_empty"):
    for every in (1, 3, 0, np.float64(0.0)):
        run_strict(f"pp {name} every={every!r} rescale", plot_pseudopressure, reservoirs[name],
                   every=every, rescale=True)

# ---------------------------------------------------------------- plot_recovery_rate / factor
for fname, func in (("rate", plot_recovery_rate), ("factor", plot_recovery_factor)):
    for name, r in reservoirs.items():
        for change_ticks in (False, True):
            run(f"{fname} {name} ticks={change_ticks}", func, r, change_ticks=change_ticks)
    for change_ticks in (0, 1, "yes", "", None, np.array([True]), np.array([True, False])):
        run(f"{fname} big ticks={change_ticks!r}", func, res_big, change_ticks=change_ticks)
    run(f"{fname} big own figure", func, res_big, own_ax=False)
    run(f"{fname} big own figure positional", func, res_big, None, True, own_ax=False)
    run(f"{fname} unsim own figure", func, res_unsim, own_ax=False)
    run(f"{fname} none own figure", func, None, own_ax=False)
    run(f"{fname} empty own figure", func, res_fake_empty, own_ax=False, change_ticks=True)
    run(f"{fname} big kwargs", func, res_big, change_ticks=True, plot_kwargs={"ls": ":", "color": "k"})
    run(f"{fname} big kwargs empty", func, res_big, plot_kwargs={})
    run(f"{fname} big kwargs label clash", func, res_big, plot_kwargs={"label": "mine"})
    run(f"{fname} big kwargs bad key", func, res_big, plot_kwargs={"nonsense": 1})
    run(f"{fname} big kwargs not a dict", func, res_big, plot_kwargs=(1, 2))
    run(f"{fname} big ax not axes", func, res_big, own_ax=False, ax=3)
    kw = {"lw": 2.0}
    run(f"{fname} big kwargs reused", func, res_big, plot_kwargs=kw)
    out.append(f"kw after={kw!r}")
    for name in ("big", "nt2", "nt1", "fake_nan_time", "fake_negtime", "fake_empty", "fake_rfshort"):
        for change_ticks in (False, True):
            run_strict(f"{fname} {name} ticks={change_ticks}", func, reservoirs[name], change_ticks=change_ticks)

# ---------------------------------------------------------------- SquareRootScale and transforms
out.append("== scale")
out.append(f"name={SquareRootScale.name!r} registered={mscale.get_scale_names().count('squareroot')}")
out.append(f"registered_is={mscale._scale_mapping['squareroot'] is SquareRootScale}")
out.append(f"mro={[c.__name__ for c in SquareRootScale.__mro__]}")
plt.close("all")
fig, ax = plt.subplots()
for kwargs in ({}, {"bogus": 1}):
    try:
        sc = SquareRootScale(ax.xaxis, **kwargs)
        out.append(f"init {kwargs!r} ok {type(sc).__name__}")
    except BaseException as exc:  # noqa: BLE001
        out.append(f"init {kwargs!r} RAISED {type(exc).__name__}")
for bad_axis in (None, 3):
    try:
        sc2 = SquareRootScale(bad_axis)
        out.append(f"init axis={bad_axis!r} ok")
    except BaseException as exc:  # noqa: BLE001
        out.append(f"init axis={bad_axis!r} RAISED {type(exc).__name__}")
sc = SquareRootScale(ax.xaxis)


class Weird:
    def __gt__(self, other):
        return True

    def __lt__(self, other):
        return True

    def __repr__(self):
        return "Weird()"


vmins = [-1.0, -0.0, 0.0, 0, -3, 5, 2.5, 1e-300, -1e-300, float("nan"), float("inf"), float("-inf"),
         True, False, np.float64(-2.0), np.float64(3.0), np.float64("nan"), np.float32(1.5), np.int64(-4),
         np.int64(4), np.array(2.0), np.array(-2.0), np.array([1.0]), np.array([-1.0]), np.array([1.0, -1.0]),
         None, "a", "", 1 + 2j, [1.0], (0.5,), Weird(), 10**400, -(10**400)]
for vmin in vmins:
    for vmax in (10.0, None, "x", -5):
        for minpos in (1e-300, None):
            try:
                with warnings.catch_warnings(record=True) as caught:
                    warnings.simplefilter("always")
                    got = sc.limit_range_for_scale(vmin, vmax, minpos)
                rep = fmt(got) + " signs=" + ",".join(
                    str(np.signbit(g)) if isinstance(g, (float, np.floating)) else "-" for g in got
                ) + f" same_vmin={got[0] is vmin} same_vmax={got[1] is vmax} nwarn={len(caught)}"
            except BaseException as exc:  # noqa: BLE001
                rep = f"RAISED {type(exc).__name__}"
            out.append(f"limit vmin={vmin!r} vmax={vmax!r} minpos={minpos!r}: {rep}")
for bad in ((1.0, 2.0), (1.0,), ()):
    try:
        out.append(f"limit args={bad!r}: {fmt(sc.limit_range_for_scale(*bad))}")
    except BaseException as exc:  # noqa: BLE001
        out.append(f"limit args={bad!r}: RAISED {type(exc).__name__}")
try:
    out.append("limit kw: " + fmt(sc.limit_range_for_scale(vmin=-2.0, vmax=3.0, minpos=1.0)))
except BaseException as exc:  # noqa: BLE001
    out.append(f"limit kw RAISED {type(exc).__name__}")

tr = sc.get_transform()
inv = tr.inverted()
out.append(f"types {type(tr).__qualname__} {type(inv).__qualname__} {type(inv.inverted()).__qualname__} "
           f"{type(tr.inverted().inverted()).__qualname__}")
out.append(f"dims {tr.input_dims} {tr.output_dims} {tr.is_separable} {inv.input_dims} {inv.output_dims} "
           f"{inv.is_separable} {tr.has_inverse} {inv.has_inverse}")
out.append(f"class attrs {SquareRootScale.SquareRootTransform.__mro__[1].__name__} "
           f"{SquareRootScale.InvertedSquareRootTransform.__mro__[1].__name__}")
samples = [
    np.array([0.0, 1.0, 2.0, 4.0, 1e-300, 1e300, 0.1, 3.7]),
    np.array([-1.0, -0.0, np.nan, np.inf, -np.inf]),
    np.array([0, 1, 2, 3, 10, 2**40]),
    np.array([-3, 4], dtype=np.int32),
    np.array([1.5, 2.5], dtype=np.float32),
    np.array([[1.0], [4.0], [9.0]]),
    np.array([]),
    np.array(2.0),
    np.array([True, False]),
    np.array([1 + 1j, -4 + 0j]),
    np.ma.masked_array([1.0, 4.0, 9.0], mask=[False, True, False]),
    [1.0, 4.0, 2.0],
    [1, 4, 2],
    (9.0, 16.0),
    3.0,
    7,
    -2.0,
    True,
    np.float64(2.0),
    np.float32(2.0),
    np.int64(3),
    rng.uniform(0, 50, size=25),
    "a",
    None,
    [1.0, "a"],
    [[1.0, 2.0], [3.0]],
]
for s in samples:
    for label, f in (
        ("tr.transform_non_affine", tr.transform_non_affine),
        ("tr.transform", tr.transform),
        ("inv.transform", inv.transform),
        ("inv.transform_non_affine", inv.transform_non_affine),
    ):
        with warnings.catch_warnings(record=True) as caught:
            warnings.simplefilter("always")
            try:
                got = f(s)
                rep = f"{type(got).__name__} " + fmt(np.asarray(got)) + f" is_input={got is s}"
                if isinstance(s, np.ndarray) and isinstance(got, np.ndarray):
                    rep += f" shares={np.shares_memory(got, s)}"
            except BaseException as exc:  # noqa: BLE001
                rep = f"RAISED {type(exc).__name__}"
        rep += " warns=" + "|".join(f"{w.category.__name__}:{str(w.message)[:50]}" for w in caught)
        out.append(f"{label}({s!r:.60}): {rep}")
# inputs are not mutated
a_in = np.array([1.0, 4.0, 9.0])
tr.transform_non_affine(a_in)
inv.transform(a_in)
out.append("unmutated " + fmt(a_in))

# the scale in use on a real axis
plt.close("all")
fig, ax = plt.subplots()
ax.plot([0.0, 1.0, 4.0, 9.0], [0.0, 1.0, 2.0, 3.0])
ax.set_xscale("squareroot")
ax.set_xlim(-5, 9)
out.append("axis xlim=" + fmt(tuple(ax.get_xlim())) + " ticks=" + fmt(np.asarray(ax.get_xticks())))
out.append("axis loc/fmt " + " ".join(type(o).__name__ for o in (
    ax.xaxis.get_major_locator(), ax.xaxis.get_major_formatter(),
    ax.xaxis.get_minor_locator(), ax.xaxis.get_minor_formatter())))
out.append("axis data->display " + fmt(np.round(ax.transData.transform(np.array([[0.0, 0.0], [4.0, 1.0], [9.0, 3.0]])), 9)))
ax.set_yscale("squareroot")
ax.set_ylim(-1, 3)
out.append("axis ylim=" + fmt(tuple(ax.get_ylim())))
plt.close("all")

# ---------------------------------------------------------------- module surface
out.append("== module")
public = sorted(n for n in dir(bp) if not n.startswith("_"))
for n in ("SquareRootScale", "plot_pseudopressure", "plot_recovery_rate", "plot_recovery_factor",
          "Reservoir", "IdealReservoir", "SinglePhaseReservoir", "TwoPhaseReservoir", "MultiPhaseReservoir",
          "np", "plt", "mscale", "ticker", "mtransforms", "Any", "Union"):
    out.append(f"has {n}: {n in public}")
out.append(f"Reservoir={bp.Reservoir!r}")
import inspect

for f in (plot_pseudopressure, plot_recovery_rate, plot_recovery_factor):
    sig = inspect.signature(f)
    out.append(f"{f.__name__} params=" + ",".join(f"{p.name}={p.default!r}/{p.kind.name}" for p in sig.parameters.values()))
    out.append(f"{f.__name__} doc={f.__doc__!r}")
ns = {}
exec("from bluebonnet.plotting import *", ns)  # noqa: S102
for n in ("SquareRootScale", "plot_pseudopressure", "plot_recovery_rate", "plot_recovery_factor", "Reservoir",
          "SinglePhaseReservoir", "np", "plt"):
    out.append(f"star {n}: {n in ns}")

with open(sys.argv[1], "w") as fh:
    fh.write("\n".join(out) + "\n")
