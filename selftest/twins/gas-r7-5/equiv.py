"""Equivalence driver for twin5 (z_factor_DAK root solve and everything built on it)."""

from __future__ import annotations

import sys
import warnings

import numpy as np

from bluebonnet.fluids import build_pvt_gas, gas

warnings.simplefilter("ignore")
lines = []


def fmt(v):
    if isinstance(v, tuple):
        return "(" + ", ".join(fmt(x) for x in v) + ")"
    if isinstance(v, np.ndarray):
        return "array" + repr(v.shape) + "[" + ", ".join(fmt(x) for x in v.ravel()) + "]"
    if isinstance(v, (float, np.floating)):
        return type(v).__name__ + ":" + repr(float(v))
    return type(v).__name__ + ":" + repr(v)


def rec(label, fn, *args, **kwargs):
    try:
        out = fmt(fn(*args, **kwargs))
    except Exception as e:  # noqa: BLE001
        out = "EXC " + type(e).__name__
    lines.append(f"{label} {args!r} {kwargs!r} -> {out}")


temps = (60, 100.0, 250.0, 400, np.float64(180.0))
pressures = (1.0, 14.7, 100, 104.7, 1000.0, 2500.0, 6000.0, 14000.0, np.float64(333.3))
crit = ((-102, 649), (-102.21827232417752, 648.510797253794), (-72.20351526841193, 653.2582064200534))

for t in temps:
    for p in pressures:
        for tpc, ppc in crit:
            rec("z", gas.z_factor_DAK, t, p, tpc, ppc)
            rec("c", gas.compressibility_DAK, t, p, tpc, ppc)
# dense sweep over reduced temperature / pressure, including states close to the critical point
for tr in (1.01, 1.05, 1.1, 1.2, 1.35, 1.5, 2.0, 2.5, 3.0):
    for pr in (0.01, 0.1, 0.5, 1.0, 1.5, 2.0, 3.0, 5.0, 8.0, 12.0, 15.0, 30.0):
        t = tr * (-102 + 459.67) - 459.67
        p = pr * 649
        rec("z-sweep", gas.z_factor_DAK, t, p, -102, 649)
        rec("c-sweep", gas.compressibility_DAK, t, p, -102, 649)
# sub-critical reduced temperatures: bracket may hold no root or several
for tr in (0.5, 0.7, 0.8, 0.9, 0.95, 1.0):
    for pr in (0.05, 0.5, 1.0, 2.0, 6.0, 20.0):
        t = tr * (-102 + 459.67) - 459.67
        rec("z-subcrit", gas.z_factor_DAK, t, pr * 649, -102, 649)
# the result is a plain float of the same type as before
lines.append("type " + type(gas.z_factor_DAK(400, 100, -102, 649)).__name__)
lines.append("type-np " + type(gas.z_factor_DAK(np.float64(400), np.float64(100), -102, 649)).__name__)
# the callers of the two functions
for t in (100.0, 400):
    for p in (14.7, 100, 2500.0, 9000.0):
        tpc, ppc = crit[1]
        rec("b", gas.b_factor_DAK, t, p, tpc, ppc)
        rec("b-std", gas.b_factor_DAK, t, p, tpc, ppc, 70, 14.65)
        rec("rho", gas.density_DAK, t, p, tpc, ppc, 0.65)
        rec("mu", gas.viscosity_Sutton, t, p, tpc, ppc, 0.65)
rec("pp", gas.pseudopressure_Hussainy, 400, 1500.0, -102, 649, 0.65)

# keyword calls
rec(
    "z-kw",
    gas.z_factor_DAK,
    temperature=300.0,
    pressure=2000.0,
    temperature_pseudocritical=-90.0,
    pressure_pseudocritical=660.0,
)
rec(
    "c-kw",
    gas.compressibility_DAK,
    pressure_pseudocritical=660.0,
    temperature_pseudocritical=-90.0,
    pressure=2000.0,
    temperature=300.0,
)
# repeated calls give the same value (the coefficient table is never modified)
for _ in range(3):
    rec("z-rep", gas.z_factor_DAK, 400, 100, -102, 649)
    rec("c-rep", gas.compressibility_DAK, 400, 104.7, -102, 649)

# edge cases and failures
for name, fn in (("z", gas.z_factor_DAK), ("c", gas.compressibility_DAK)):
    rec(name + "-ppc0", fn, 400, 100.0, -102, 0)
    rec(name + "-ppc0f", fn, 400, 100.0, -102, 0.0)
    rec(name + "-ppc0np", fn, 400, 100.0, -102, np.float64(0.0))
    rec(name + "-tpc-abs0", fn, 400, 100.0, -459.67, 649)
    rec(name + "-tpc-abs0np", fn, 400, 100.0, np.float64(-459.67), 649)
    rec(name + "-t-abs0", fn, -459.67, 100.0, -102, 649)
    rec(name + "-p0", fn, 400, 0.0, -102, 649)
    rec(name + "-pneg", fn, 400, -100.0, -102, 649)
    rec(name + "-pnan", fn, 400, float("nan"), -102, 649)
    rec(name + "-pinf", fn, 400, float("inf"), -102, 649)
    rec(name + "-tnan", fn, float("nan"), 100.0, -102, 649)
    rec(name + "-cold", fn, -300.0, 5000.0, -102, 649)
    rec(name + "-cold2", fn, -200.0, 3000.0, -102, 649)
    rec(name + "-huge-p", fn, 100.0, 1e7, -102, 649)
    rec(name + "-parr", fn, 400, np.array([100.0, 200.0]), -102, 649)
    rec(name + "-parr1", fn, 400, np.array([100.0]), -102, 649)
    rec(name + "-tarr", fn, np.array([300.0, 400.0]), 100.0, -102, 649)
    rec(name + "-str", fn, "400", 100.0, -102, 649)
    rec(name + "-none", fn, 400, None, -102, 649)
    rec(name + "-missing", fn, 400, 100.0, -102)
    rec(name + "-extra", fn, 400, 100.0, -102, 649, 1.0)

# table builder that loops over both functions
gas_values = {
    "N2": 0.03,
    "H2S": 0.012,
    "CO2": 0.018,
    "Gas Specific Gravity": 0.65,
    "Reservoir Temperature (deg F)": 400,
}
for dryness in ("dry gas", "wet gas", "oil"):
    try:
        table = build_pvt_gas(gas_values, dryness, 600.0)
        for col in table.columns:
            lines.append(f"pvt {dryness} {col} " + fmt(table[col].to_numpy()))
    except Exception as e:  # noqa: BLE001
        lines.append(f"pvt {dryness} EXC {type(e).__name__}")

with open(sys.argv[1], "w") as fh:
    fh.write("\n".join(lines) + "\n")
