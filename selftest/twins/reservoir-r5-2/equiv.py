"""Equivalence driver for bluebonnet.flow.reservoir (twin round 5).

Usage: PYTHONPATH=<tree>/src /venv/bin/python equiv.py <outfile>
Writes repr() of every result at full precision, or the exception type.
"""

from __future__ import annotations

import os
import sys
import warnings

import numpy as np
import pandas as pd

warnings.simplefilter("ignore")

from bluebonnet.flow import (  # noqa: E402
    FlowProperties,
    IdealReservoir,
    MultiPhaseReservoir,
    SinglePhaseReservoir,
    TwoPhaseReservoir,
)
from bluebonnet.flow import reservoir as resmod  # noqa: E402

DATA = os.environ.get("BB_DATA", "/tmp/twin5_reservoir/tests/data")
np.set_printoptions(precision=17, threshold=10**9, linewidth=10**9, floatmode="unique")

out_lines: list[str] = []


def fmt(v):
    if isinstance(v, np.ndarray):
        return f"ndarray{v.shape}{v.dtype}:" + ",".join(repr(x) for x in v.ravel().tolist())
    if isinstance(v, (float, np.floating)):
        return f"{type(v).__name__}:{float(v)!r}"
    if isinstance(v, (list, tuple)):
        return type(v).__name__ + "[" + ";".join(fmt(x) for x in v) + "]"
    text = repr(v)
    if " at 0x" in text:  # default object repr: the address is not a result
        text = "<object>"
    return f"{type(v).__name__}:{text}"


def rec(label, thunk):
    try:
        v = thunk()
        out_lines.append(f"{label} = {fmt(v)}")
    except Exception as e:  # noqa: BLE001
        out_lines.append(f"{label} raised {type(e).__name__}")


def state(res):
    """Observable state of a reservoir object after a call."""
    d = {}
    for k in sorted(vars(res)):
        if k == "fluid":
            continue
        d[k] = vars(res)[k]
    return [f"{k}->{fmt(v)}" for k, v in d.items()]


gas = pd.read_csv(os.path.join(DATA, "pvt_gas.csv")).rename(
    columns={
        "P": "pressure",
        "Z-Factor": "z-factor",
        "Cg": "compressibility",
        "Viscosity": "viscosity",
        "Density": "density",
    }
)
oil = pd.read_csv(os.path.join(DATA, "pvt_oil.csv")).rename(
    columns={
        "P": "pressure",
        "Z-Factor": "z-factor",
        "Co": "compressibility",
        "Oil_Viscosity": "viscosity",
        "Oil_Density": "density",
    }
)


def make_fluids():
    fl = {"gas8000": FlowProperties(gas, 8000.0), "gas5000": FlowProperties(gas, 5000.0)}
    try:
        fl["oil6000"] = FlowProperties(oil, 6000.0)
    except Exception:  # noqa: BLE001
        pass
    return fl


fluids = make_fluids()
cols_before = {k: list(f.pvt_props.keys()) for k, f in fluids.items()}

times = {
    "sq40": np.linspace(0, 3.0, 40) ** 2,
    "uniform25": np.linspace(0.0, 2.0, 25),
    "uniform_exact": np.arange(0, 17) * 0.125,  # bit-equal steps
    "mixed": np.concatenate([np.arange(0, 6) * 0.25, 1.25 + np.arange(1, 6) * 0.5, [5.0, 5.0, 7.5]]),
    "log": np.concatenate([[0.0], np.logspace(-4, 1.5, 30)]),
    "len1": np.array([0.0]),
    "len2": np.array([0.0, 0.3]),
    "repeat": np.array([0.0, 0.1, 0.1, 0.2, 0.2, 0.2, 0.4]),
    "f32": np.linspace(0, 2, 12).astype(np.float32),
    "int": np.arange(0, 8),
    "decreasing": np.array([0.0, 0.5, 0.25, 0.75]),
    "withnan": np.array([0.0, 0.1, np.nan, 0.3]),
    "empty": np.array([]),
}
bad_times = {
    "generator": (x for x in (0.0, 0.1, 0.2)),
    "getitem_only": type("G", (), {"__getitem__": lambda self, i: float(i)})(),
    "range": range(5),
    "series": pd.Series([0.0, 0.1, 0.3, 0.7]),
    "bool": True,
    "pyfloat": 1.0,
    "zerod": np.array(1.0),
    "none": None,
    "list": [0.0, 0.1, 0.3, 0.7],
    "tuple": (0.0, 0.2, 0.4),
    "twod": np.linspace(0, 1, 12).reshape(4, 3),
    "str": "abc",
}


def run_all(res, label, tdict, **kw):
    for tn, t in tdict.items():
        def go(t=t):
            r = res()
            ret = r.simulate(t, **kw)
            return [ret, *state(r)]

        rec(f"{label}.simulate[{tn}]", go)
        for density in (False, True):
            def rf(t=t, density=density):
                r = res()
                r.simulate(t, **kw)
                a = r.recovery_factor(density=density)
                b = r.recovery_factor(t, density)
                same = a is r.recovery
                return [a, b, same, *state(r)]

            rec(f"{label}.rf[{tn},density={density}]", rf)

        def interp(t=t):
            r = res()
            r.simulate(t, **kw)
            f = r.recovery_factor_interpolator()
            q = np.array([-1.0, 0.0, 0.05, 0.33, 1.0, 2.5, 8.9, 100.0])
            first = f(q)
            r.recovery_factor(density=True)
            g = r.recovery_factor_interpolator()
            return [first, g(q), f(0.2), *state(r)]

        rec(f"{label}.interp[{tn}]", interp)


for fname, fluid in fluids.items():
    for nx in (2, 3, 5, 30):
        for pf_ in (100.0, 1000):
            pi_ = {"gas8000": 8000.0, "gas5000": 5000.0, "oil6000": 6000.0}[fname]
            lab = f"{fname},nx={nx},pf={pf_}"
            sub = times if nx in (5, 30) and pf_ == 100.0 else {k: times[k] for k in ("sq40", "uniform_exact", "len1")}
            run_all(lambda: IdealReservoir(nx, pf_, pi_, fluid), "Ideal(" + lab + ")", sub)
            run_all(lambda: SinglePhaseReservoir(nx, pf_, pi_, fluid), "Single(" + lab + ")", sub)
            run_all(lambda: TwoPhaseReservoir(nx, pf_, pi_, fluid), "Two(" + lab + ")", {k: sub[k] for k in list(sub)[:3]})
    run_all(lambda: IdealReservoir(12, 100.0, 8000.0, fluid), f"Ideal({fname}).bad", bad_times)
    run_all(lambda: SinglePhaseReservoir(12, 100.0, 8000.0, fluid), f"Single({fname}).bad", bad_times)

gasf = fluids["gas8000"]

# degenerate sizes / odd constructor values
for nx in (0, 1, -3, 2.0, 7.0, np.int64(6), "5", None):
    for cls in (IdealReservoir, SinglePhaseReservoir, TwoPhaseReservoir):
        def go(nx=nx, cls=cls):
            r = cls(nx, 500.0, 8000.0, gasf)
            r.simulate(times["uniform25"])
            return [r.recovery_factor(), r.recovery_factor(density=True), *state(r)]

        rec(f"{cls.__name__}(nx={nx!r})", go)

# no fluid
for cls in (IdealReservoir, SinglePhaseReservoir, TwoPhaseReservoir):
    def go(cls=cls):
        r = cls(8, 500.0, 8000.0)
        r.simulate(times["uniform25"])
        return [r.recovery_factor(), *state(r)]

    rec(f"{cls.__name__}(nofluid)", go)

    def go2(cls=cls):
        r = cls(8, 500.0, 8000.0)
        r.simulate(times["uniform25"])
        return r.recovery_factor(density=True)

    rec(f"{cls.__name__}(nofluid,density)", go2)

# calls before simulate
for cls in (IdealReservoir, SinglePhaseReservoir, TwoPhaseReservoir, MultiPhaseReservoir):
    rec(f"{cls.__name__}.rf_before", lambda cls=cls: cls(8, 500.0, 8000.0, gasf).recovery_factor())
    rec(f"{cls.__name__}.rf_before_t", lambda cls=cls: cls(8, 500.0, 8000.0, gasf).recovery_factor(times["len2"]))
    rec(f"{cls.__name__}.interp_before", lambda cls=cls: cls(8, 500.0, 8000.0, gasf).recovery_factor_interpolator())
    rec(f"{cls.__name__}.fvf", lambda cls=cls: cls(8, 500.0, 8000.0, gasf).fvf_scale())
    rec(f"{cls.__name__}.fvf_int", lambda cls=cls: cls(8, 500, 8000, gasf).fvf_scale())
    rec(f"{cls.__name__}.fvf_arr", lambda cls=cls: cls(8, np.array([500.0, 8000.0, 0.0, 1e4]), 8000.0, gasf).fvf_scale())
    rec(f"{cls.__name__}.fvf_zero", lambda cls=cls: cls(8, 500.0, 0.0, gasf).fvf_scale())
    rec(f"{cls.__name__}.fvf_list", lambda cls=cls: cls(8, [500.0, 20.0], 8000.0, gasf).fvf_scale())
    rec(f"{cls.__name__}.repr", lambda cls=cls: repr(cls(8, 500.0, 8000.0, None)))
    rec(f"{cls.__name__}.eq", lambda cls=cls: cls(8, 500.0, 8000.0, None) == cls(8, 500.0, 8000.0, None))

# alpha_scaled
pp_samples = [
    np.linspace(0.0, 1.0, 9),
    np.array([-0.5, 0.0, 0.2, 1.0, 1.5, np.nan]),
    0.3,
    np.float64(0.7),
    np.array(0.4),
    [0.1, 0.2],
    np.arange(5),
    np.array([[0.1, 0.2], [0.3, 0.4]]),
]
for i, pp in enumerate(pp_samples):
    rec(f"Ideal.alpha[{i}]", lambda pp=pp: IdealReservoir(8, 500.0, 8000.0, gasf).alpha_scaled(pp))
    rec(f"Single.alpha[{i}]", lambda pp=pp: SinglePhaseReservoir(8, 500.0, 8000.0, gasf).alpha_scaled(pp))
    rec(f"Two.alpha[{i}]", lambda pp=pp: TwoPhaseReservoir(8, 500.0, 8000.0, gasf).alpha_scaled(pp))
    rec(f"Multi.alpha1[{i}]", lambda pp=pp: MultiPhaseReservoir(8, 500.0, 8000.0, gasf).alpha_scaled(pp))
rec("Multi.simulate", lambda: MultiPhaseReservoir(8, 500.0, 8000.0, gasf).simulate(times["sq40"]))
rec("Multi.simulate_pf", lambda: MultiPhaseReservoir(8, 500.0, 8000.0, gasf).simulate(times["len2"], None))
rec("Multi.step", lambda: MultiPhaseReservoir(8, 500.0, 8000.0, gasf)._step_saturation(1, 2, 3) is NotImplementedError)
rec("Two.simulate_pf", lambda: TwoPhaseReservoir(8, 500.0, 8000.0, gasf).simulate(times["len2"], None))

# changing frac-face pressure
t = times["sq40"]
pf_series = {
    "const": np.full(len(t), 500.0),
    "ramp": np.linspace(7000.0, 300.0, len(t)),
    "saw": 1000.0 + 500.0 * np.sin(np.arange(len(t))),
    "above_pi": np.linspace(9000.0, 300.0, len(t)),
    "list": list(np.linspace(7000.0, 300.0, len(t))),
    "short": np.linspace(7000.0, 300.0, len(t) - 1),
    "long": np.linspace(7000.0, 300.0, len(t) + 1),
    "empty": np.array([]),
    "out_of_table": np.full(len(t), 1e9),
    "negative": np.full(len(t), -5.0),
    "nan": np.full(len(t), np.nan),
    "scalar": 500.0,
    "twod": np.full((len(t), 2), 500.0),
    "ints": np.arange(len(t)) * 10 + 200,
    "zerod": np.array(500.0),
    "npfloat": np.float64(500.0),
    "pyint": 500,
    "bool": True,
    "generator": (500.0 for _ in range(len(t))),
    "range": range(200, 200 + len(t)),
    "dict": {i: 500.0 for i in range(len(t))},
    "set": set(range(len(t))),
    "str": "x" * len(t),
    "tuple": tuple(np.linspace(7000.0, 300.0, len(t))),
    "series": pd.Series(np.linspace(7000.0, 300.0, len(t))),
    "getitem_only": type("G", (), {"__getitem__": lambda self, i: 500.0})(),
    "len_none": type("L", (), {"__len__": None})(),
    "instance_len": (lambda o: (setattr(o, "__len__", lambda: len(t)), o)[1])(type("I", (), {})()),
}
for fname, fluid in fluids.items():
    for pn, series in pf_series.items():
        def go(series=series, fluid=fluid):
            r = SinglePhaseReservoir(12, 400.0, 8000.0, fluid)
            ser_copy = series.copy() if isinstance(series, np.ndarray) else series
            ret = r.simulate(t, series)
            unchanged = (
                bool(np.array_equal(ser_copy, series, equal_nan=True))
                if isinstance(series, np.ndarray)
                else True
            )
            return [ret, unchanged, r.recovery_factor(), r.recovery_factor(density=True), *state(r)]

        rec(f"Single({fname}).pf[{pn}]", go)
        rec(
            f"Single({fname}).pf_kw[{pn}]",
            lambda series=series, fluid=fluid: (
                lambda r: [r.simulate(time=t, pressure_fracface=series), *state(r)]
            )(SinglePhaseReservoir(7, 400.0, 8000.0, fluid)),
        )

# array-valued stored pressure_fracface
for pfv in (np.full(len(t), 300.0), np.linspace(3000, 300, len(t)), np.array([300.0, 400.0])):
    def go(pfv=pfv):
        r = SinglePhaseReservoir(9, pfv, 8000.0, gasf)
        r.simulate(t)
        return [r.recovery_factor(), *state(r)]

    rec(f"Single.pf_attr[{pfv.shape},{pfv[-1]}]", go)

    def go_i(pfv=pfv):
        r = IdealReservoir(9, pfv, 8000.0, gasf)
        r.simulate(t)
        return [r.recovery_factor(), *state(r)]

    rec(f"Ideal.pf_attr[{pfv.shape},{pfv[-1]}]", go_i)


# repeated simulation on one object: cached recovery is dropped, arrays not shared
def resim(cls):
    r = cls(10, 300.0, 8000.0, gasf)
    t1 = times["uniform_exact"]
    t2 = times["log"]
    r.simulate(t1)
    p1 = r.pseudopressure
    p1_copy = p1.copy()
    rf1 = r.recovery_factor()
    rf1_copy = rf1.copy()
    had = hasattr(r, "recovery")
    r.simulate(t2)
    gone = not hasattr(r, "recovery")
    f = r.recovery_factor_interpolator()
    rf2 = r.recovery_factor(density=True)
    return [
        had,
        gone,
        bool(np.array_equal(p1, p1_copy)),
        bool(np.array_equal(rf1, rf1_copy)),
        r.pseudopressure is p1,
        r.time is t2,
        f(np.array([0.0, 0.5, 40.0])),
        rf2,
        *state(r),
    ]


for cls in (IdealReservoir, SinglePhaseReservoir, TwoPhaseReservoir):
    rec(f"{cls.__name__}.resim", lambda cls=cls: resim(cls))


# failure in the middle of simulate: what state is left behind
def failing(cls, tval):
    r = cls(10, 300.0, 8000.0, gasf)
    r.simulate(times["uniform25"])
    r.recovery_factor()
    try:
        r.simulate(tval)
        err = "none"
    except Exception as e:  # noqa: BLE001
        err = type(e).__name__
    return [err, *state(r)]


for cls in (IdealReservoir, SinglePhaseReservoir, TwoPhaseReservoir):
    for tn, tv in bad_times.items():
        rec(f"{cls.__name__}.failing[{tn}]", lambda cls=cls, tv=tv: failing(cls, tv))


# user subclasses
class StateDependent(IdealReservoir):
    def alpha_scaled(self, pseudopressure):
        return 0.5 + pseudopressure**2


class Counting(IdealReservoir):
    calls = 0

    def alpha_scaled(self, pseudopressure):
        type(self).calls += 1
        return np.ones_like(pseudopressure) * (1 + (type(self).calls % 3))


class Raising(SinglePhaseReservoir):
    def alpha_scaled(self, pseudopressure):
        if pseudopressure[0] < 0.2:
            raise ValueError("boom")
        return np.ones_like(pseudopressure)


class RaisingOther(SinglePhaseReservoir):
    def alpha_scaled(self, pseudopressure):
        raise KeyError("boom")


class Mutating(SinglePhaseReservoir):
    def alpha_scaled(self, pseudopressure):
        out = super().alpha_scaled(pseudopressure)
        pseudopressure[-1] = pseudopressure[-1] * 0.999
        return out


class ScalarAlpha(IdealReservoir):
    def alpha_scaled(self, pseudopressure):  # noqa: ARG002
        return 2.0


class FvfOverride(IdealReservoir):
    def fvf_scale(self):
        return np.float64(0.25)


for cls in (StateDependent, Counting, Raising, RaisingOther, Mutating, ScalarAlpha, FvfOverride):
    for tn in ("uniform_exact", "mixed", "sq40", "len1"):
        def go(cls=cls, tn=tn):
            if cls is Counting:
                Counting.calls = 0
            r = cls(9, 300.0, 8000.0, gasf)
            if cls is Raising:
                r.simulate(times[tn], np.linspace(7000, 100, len(times[tn])))
            else:
                r.simulate(times[tn])
            extra = [Counting.calls] if cls is Counting else []
            return [*extra, r.recovery_factor(), r.recovery_factor(density=True), *state(r)]

        rec(f"user.{cls.__name__}[{tn}]", go)


# user-assigned attributes before recovery_factor
def assigned(pp, tm, density=False):
    r = IdealReservoir(4, 300.0, 8000.0, gasf)
    r.pseudopressure = pp
    r.time = tm
    return [r.recovery_factor(density=density), *state(r)]


pp_f = np.linspace(0, 1, 20).reshape(5, 4) ** 2
rec("assigned.float", lambda: assigned(pp_f, np.arange(5.0)))
rec("assigned.int", lambda: assigned(np.arange(20).reshape(5, 4), np.arange(5)))
rec("assigned.f32", lambda: assigned(pp_f.astype(np.float32), np.arange(5.0)))
rec("assigned.narrow", lambda: assigned(pp_f[:, :2], np.arange(5.0)))
rec("assigned.wrongtime", lambda: assigned(pp_f, np.arange(4.0)))
rec("assigned.list", lambda: assigned(pp_f.tolist(), np.arange(5.0)))
rec("assigned.density", lambda: assigned(pp_f, np.arange(5.0), True))
rec("assigned.density_int", lambda: assigned(np.arange(20).reshape(5, 4), np.arange(5), True))
rec("assigned.timelist", lambda: assigned(pp_f, [0.0, 1.0, 2.0, 3.0, 4.0]))
rec("assigned.onlytime", lambda: (lambda r: (setattr(r, "time", np.arange(3.0)), r.recovery_factor())[1])(IdealReservoir(4, 300.0, 8000.0, gasf)))
rec("assigned.onlytime_interp", lambda: (lambda r: (setattr(r, "time", np.arange(3.0)), r.recovery_factor_interpolator())[1])(IdealReservoir(4, 300.0, 8000.0, gasf)))


def assigned_recovery():
    r = SinglePhaseReservoir(6, 300.0, 8000.0, gasf)
    r.simulate(times["uniform25"])
    r.recovery = np.linspace(0, 0.5, 25)
    f = r.recovery_factor_interpolator()
    return [f(np.array([-1.0, 0.3, 1.1, 5.0])), *state(r)]


rec("assigned.recovery", assigned_recovery)

# density-based recovery on odd tables / shapes
def density_case(pp, tm, density_col=None, table=None):
    tb = (table if table is not None else gas).copy()
    if density_col is not None:
        tb["density"] = density_col
    fl = FlowProperties(tb, 8000.0)
    r = IdealReservoir(4, 300.0, 8000.0, fl)
    r.pseudopressure = pp
    r.time = tm
    pp_copy = np.array(pp, copy=True)
    res = r.recovery_factor(density=True)
    return [res, str(res.dtype), bool(np.array_equal(pp_copy, pp, equal_nan=True)), res is r.recovery]


ng = len(gas)
rec("density.3d", lambda: density_case(np.linspace(0, 1, 24).reshape(2, 3, 4), np.arange(2.0)))
rec("density.1d", lambda: density_case(np.linspace(0, 1, 6), np.arange(6.0)))
rec("density.0rows", lambda: density_case(np.empty((0, 4)), np.arange(0.0)))
rec("density.f32table", lambda: density_case(pp_f, np.arange(5.0), gas["density"].to_numpy().astype(np.float32)))
rec("density.f32pp", lambda: density_case(pp_f.astype(np.float32), np.arange(5.0)))
rec("density.complex", lambda: density_case(pp_f, np.arange(5.0), gas["density"].to_numpy() * (1 + 0.5j)))
rec("density.inttable", lambda: density_case(pp_f, np.arange(5.0), np.arange(ng) + 1))
rec("density.zero_first", lambda: density_case(pp_f, np.arange(5.0), np.zeros(ng)))
rec("density.nan", lambda: density_case(np.where(pp_f > 0.5, np.nan, pp_f), np.arange(5.0)))
rec("density.extrap", lambda: density_case(pp_f * 3 - 1, np.arange(5.0)))
rec("density.nodensity", lambda: density_case(pp_f, np.arange(5.0), None, gas.drop(columns=["density"])))

# stored-attribute corner cases for the interpolator / re-simulation
def recovery_value(val):
    r = SinglePhaseReservoir(6, 300.0, 8000.0, gasf)
    r.simulate(times["uniform25"])
    r.recovery = val
    f = r.recovery_factor_interpolator()
    return [f(np.array([-1.0, 0.3, 1.1, 5.0])), *state(r)]


rec("recovery_value.none", lambda: recovery_value(None))
rec("recovery_value.list", lambda: recovery_value(list(np.linspace(0, 1, 25))))
rec("recovery_value.short", lambda: recovery_value(np.linspace(0, 1, 5)))
rec("recovery_value.scalar", lambda: recovery_value(0.5))


class ClassLevelRecovery(SinglePhaseReservoir):
    recovery = None


class PropertyRecovery(IdealReservoir):
    @property
    def recovery(self):
        raise AttributeError("not yet")

    @recovery.setter
    def recovery(self, value):
        self.__dict__["_rec"] = value


for cls in (ClassLevelRecovery, PropertyRecovery):
    def go(cls=cls):
        r = cls(6, 300.0, 8000.0, gasf)
        outs = []
        for tn in ("uniform25", "len2"):
            try:
                r.simulate(times[tn])
                outs.append("sim ok")
            except Exception as e:  # noqa: BLE001
                outs.append(type(e).__name__)
            try:
                outs.append(r.recovery_factor_interpolator()(np.array([0.1, 0.2])))
            except Exception as e:  # noqa: BLE001
                outs.append(type(e).__name__)
        return [*outs, *state(r)]

    rec(f"user.{cls.__name__}", go)

# manually overwritten initial pseudopressure on the fluid object
for j, mi in enumerate(
    (np.array([1.0]), np.array([[1.0]]), np.ones((1, 6)), np.ones(6), np.float32(1), 1, np.ones(3),
     np.longdouble(1), 1 + 0j, None, "a", 0.5, np.nan, np.linspace(0.5, 1.0, 6))
):
    def go(mi=mi):
        f = FlowProperties(gas, 8000.0)
        f.m_i = mi
        r = SinglePhaseReservoir(6, 100.0, 8000.0, f)
        r.simulate(np.linspace(0, 2, 9))
        return [r.recovery_factor(), *state(r)]

    rec(f"odd_m_i[{j}]", go)


class LenOnce:
    """Sequence whose element access is positional like a list."""

    def __init__(self, values):
        self.values = list(values)
        self.len_calls = 0

    def __len__(self):
        self.len_calls += 1
        return len(self.values)

    def __getitem__(self, i):
        return self.values[i]


def lenonce():
    tm = LenOnce([0.0, 0.1, 0.3, 0.6])
    r = SinglePhaseReservoir(6, 100.0, 8000.0, gasf)
    r.simulate(tm)
    return [r.pseudopressure, r.time is tm]


rec("time.custom_sequence", lenonce)

# private matrix builder
for i, k in enumerate(
    [
        np.ones(5),
        np.linspace(0.1, 3.0, 7),
        np.array([2.0, 3.0]),
        np.array([2.0]),
        np.array([]),
        np.float64(2.0),
        3.0,
        [1.0, 2.0, 3.0],
        np.arange(1, 6),
        np.array([1.0, np.nan, np.inf, 0.0]),
        np.ones((3, 3)),
    ]
):
    def go(k=k):
        kc = k.copy() if isinstance(k, np.ndarray) else k
        m = resmod._build_matrix(k)
        same = bool(np.array_equal(kc, k, equal_nan=True)) if isinstance(k, np.ndarray) else True
        return [type(m).__name__, m.format, m.shape, str(m.dtype), m.toarray(), m.indices, m.indptr, m.data, same]

    rec(f"_build_matrix[{i}]", go)

# tables must not have been modified
for k, f in fluids.items():
    out_lines.append(f"cols[{k}] same = {cols_before[k] == list(f.pvt_props.keys())}")

out_lines.append(f"module public names = {sorted(n for n in dir(resmod) if not n.startswith('_'))!r}")

with open(sys.argv[1], "w") as fh:
    fh.write("\n".join(out_lines) + "\n")
