"""Equivalence driver for twin1 (compressibility_DAK term arrays + np.sum).

Results are rounded to 11 significant digits because np.sum associates the
five/three terms differently from the left-to-right Python expression.
"""

from __future__ import annotations

import itertools
import sys
import warnings

import numpy as np

warnings.simplefilter("ignore")

from bluebonnet.fluids.fluid import build_pvt_gas  # noqa: E402
from bluebonnet.fluids.gas import (  # noqa: E402
    compressibility_DAK,
)


def fmt(x):
    if isinstance(x, tuple):
        return "(" + ", ".join(fmt(v) for v in x) + ")"
    if isinstance(x, np.ndarray):
        return f"array{x.shape}[" + ", ".join(fmt(v) for v in x.ravel()) + "]"
    return f"{type(x).__name__}:{float(x):.10e}"


def call(f, *args, **kwargs):
    try:
        return fmt(f(*args, **kwargs))
    except Exception as e:  # noqa: BLE001
        return f"EXC:{type(e).__name__}"


def main(out):
    lines = []
    temps = [60, 60.0, 100.0, 212.5, 400, 400.0, 650.0, np.float64(300.0), np.float32(250.0),
             np.array(180.0)]
    pressures = [14.7, 100, 104.7, 500.0, 1500.0, 3000, 5000.0, 9000.0, 15000.0,
                 np.float64(2500.0), np.float32(1234.5), np.array(777.0)]
    pcs = [(-102.0, 649.0), (-72.2, 653.25), (-102, 649), (-50.5, 700.0),
           (np.float64(-90.0), np.float64(660.0))]
    for t, p, (tpc, ppc) in itertools.product(temps, pressures, pcs):
        lines.append(
            f"c {t!r} {p!r} {tpc!r} {ppc!r} -> {call(compressibility_DAK, t, p, tpc, ppc)}"
        )
    # error / degenerate inputs
    bad = [
        (400.0, 0.0, -102.0, 649.0),
        (400.0, -100.0, -102.0, 649.0),
        (400.0, 100.0, -102.0, 0.0),
        (400, 100, -102, 0),
        (-459.67, 100.0, -102.0, 649.0),
        (400.0, 100.0, -459.67, 649.0),
        (400, 100, -459.67, 649),
        (-900.0, 100.0, -102.0, 649.0),
        (float("nan"), 100.0, -102.0, 649.0),
        (400.0, float("nan"), -102.0, 649.0),
        (400.0, float("inf"), -102.0, 649.0),
        (float("inf"), 100.0, -102.0, 649.0),
        (400.0, 1e9, -102.0, 649.0),
        (-300.0, 5000.0, -102.0, 649.0),
        (np.array([400.0]), 100.0, -102.0, 649.0),
        (np.array([400.0, 300.0]), 100.0, -102.0, 649.0),
        (400.0, np.array([100.0, 200.0]), -102.0, 649.0),
        ([400.0], 100.0, -102.0, 649.0),
        ("400", 100.0, -102.0, 649.0),
        (None, 100.0, -102.0, 649.0),
        (400.0, None, -102.0, 649.0),
        (400.0, 100.0, None, 649.0),
        (400.0, 100.0, -102.0, "649"),
        (400 + 0j, 100.0, -102.0, 649.0),
        (True, 100.0, -102.0, 649.0),
    ]
    for args in bad:
        lines.append(f"bad {args!r} -> {call(compressibility_DAK, *args)}")
    # through the public PVT-table builder
    for fluid, sg, fr in [
        ("dry gas", 0.65, (0.03, 0.012, 0.018)),
        ("wet gas", 0.8, (0.05, 0.01, 0.04)),
        ("wet gas", 0.7, (0.0, 0.0, 0.0)),
    ]:
        try:
            pvt = build_pvt_gas(
                {"N2": fr[0], "H2S": fr[1], "CO2": fr[2], "Gas Specific Gravity": sg,
                 "Reservoir Temperature (deg F)": 250.0},
                fluid,
                maximum_pressure=3000,
            )
            for col in pvt.columns:
                lines.append(f"pvt {fluid} {sg} {col} -> {fmt(pvt[col].to_numpy())}")
        except Exception as e:  # noqa: BLE001
            lines.append(f"pvt {fluid} {sg} -> EXC:{type(e).__name__}")
    with open(out, "w") as fh:
        fh.write("\n".join(lines) + "\n")


if __name__ == "__main__":
    main(sys.argv[1])
