"""Equivalence driver for twin1: shared mobility helper with hoisted interpolator calls."""

from __future__ import annotations

import os
import re
import sys
import warnings

import numpy as np
import pandas as pd
from scipy.interpolate import interp1d

from bluebonnet.flow import flowproperties as fp
from bluebonnet.flow.flowproperties import (
    FlowPropertiesTwoPhase,
    RelPermParams,
    alpha_multiphase,
    lambda_combined_func,
    pseudopressure_threephase,
    relative_permeabilities_twophase,
    rescale_pseudopressure,
)

DATA = os.environ.get("BB_DATA", "/tmp/twin12_flowproperties/tests/data")
out = []


def fmt(x):
    if isinstance(x, pd.DataFrame):
        return "DF(" + ",".join(f"{c}:{fmt(x[c])}" for c in x.columns) + f"|idx={list(x.index)!r})"
    if isinstance(x, pd.Series):
        return f"Series(idx={list(x.index)!r}, {fmt(x.to_numpy())})"
    if isinstance(x, np.ndarray):
        return f"nd{x.shape}{x.dtype}[" + ",".join(repr(v) for v in x.ravel().tolist()) + "]"
    if isinstance(x, dict):
        return "{" + ",".join(f"{k!r}:{fmt(v)}" for k, v in x.items()) + "}"
    return f"{type(x).__name__}:{x!r}"


def norm_msg(msg):
    """Messages built from a Python set have a hash-seed dependent order: sort them."""
    msg = re.sub(r"\{([^}]*)\}", lambda m: "{" + ", ".join(sorted(m.group(1).split(", "))) + "}", msg)
    head = "Need pvt_props to have: "
    if msg.startswith(head):
        msg = head + ", ".join(sorted(msg[len(head) :].split(", ")))
    return msg


def rec(label, fn):
    with warnings.catch_warnings(record=True) as w:
        warnings.simplefilter("always")
        try:
            res = fmt(fn())
        except Exception as e:  # noqa: BLE001
            res = f"EXC {type(e).__name__}: {norm_msg(str(e))}"
    out.append(f"{label} -> {res} | warnings={[str(i.category.__name__) for i in w]}")


df_pvt = pd.read_csv(os.path.join(DATA, "pvt_multiphase_oil.csv")).drop(columns=["Unnamed: 0"])
params = RelPermParams(
    n_o=2, n_g=1.5, n_w=3, S_or=0.05, S_gc=0.02, S_wc=0.1, k_ro_max=0.9, k_rw_max=0.5, k_rg_max=0.8
)
params_lin = RelPermParams(
    n_o=1, n_g=1, n_w=1, S_or=0, S_gc=0, S_wc=0.1, k_ro_max=1, k_rw_max=1, k_rg_max=1
)
dens = {"rho_o0": 141.5 / (45 + 131.5), "rho_g0": 1.03e-3, "rho_w0": 1}
need = ["pseudopressure", "pressure", "Bo", "Bg", "Bw", "Rs", "Rv", "mu_o", "mu_g", "mu_w", "So"]


def make(df, df_kr, extrapolate=True):
    kw = {"fill_value": "extrapolate"} if extrapolate else {}
    pvt = {p: interp1d(df["pressure"], df[p], **kw) for p in need}
    pvt.update(dens)
    kr = {f: interp1d(df_kr["So"], df_kr[f]) for f in ("kro", "krg", "krw")}
    return pvt, kr


for pname, prm in (("corey", params), ("linear", params_lin)):
    df_kr = relative_permeabilities_twophase(prm, 0.1)
    pvt, kr = make(df_pvt, df_kr)
    P = df_pvt["pressure"].to_numpy()
    S = df_pvt["So"].to_numpy()
    cases = {
        "table": (P, S),
        "series": (df_pvt["pressure"], df_pvt["So"]),
        "lists": (list(P[:7]), list(S[:7])),
        "scalar": (3210.5, 0.43),
        "scalar_int": (2000, 0),
        "mid": (np.linspace(5.0, 11990.0, 37), np.linspace(0.0, 0.9, 37)),
        "extrap": (np.array([-50.0, 0.0, 13000.0, 20000.0]), np.array([0.0, 0.1, 0.5, 0.9])),
        "twoD": (np.linspace(100, 9000, 12).reshape(3, 4), np.linspace(0.1, 0.8, 12).reshape(3, 4)),
        "broadcast": (np.linspace(100, 9000, 4), 0.3),
        "empty": (np.array([]), np.array([])),
        "So_high": (np.array([1000.0, 2000.0]), np.array([0.5, 0.95])),
        "So_low": (np.array([1000.0, 2000.0]), np.array([-0.1, 0.5])),
        "So_nan": (np.array([1000.0, 2000.0]), np.array([np.nan, 0.5])),
        "P_nan": (np.array([np.nan, 2000.0]), np.array([0.2, 0.5])),
        "shape_mismatch": (np.array([1000.0, 2000.0, 3000.0]), np.array([0.2, 0.5])),
        "string_P": ("abc", 0.3),
        "none_So": (1000.0, None),
    }
    for cname, (p, s) in cases.items():
        rec(f"{pname}/lambda/{cname}", lambda p=p, s=s: lambda_combined_func(p, s, pvt, kr))
        rec(f"{pname}/alpha/{cname}", lambda p=p, s=s: alpha_multiphase(p, s, 0.1, 0.1, pvt, kr))
        if np.ndim(p) == 1 or cname in ("scalar", "string_P", "none_So"):
            rec(
                f"{pname}/pseudo/{cname}",
                lambda p=p, s=s: pseudopressure_threephase(p, s, pvt, kr),
            )
    # non-extrapolating pvt: out of range pressure raises inside the helper
    pvt_b, kr_b = make(df_pvt, df_kr, extrapolate=False)
    for cname in ("table", "extrap", "So_high", "mid"):
        p, s = cases[cname]
        rec(f"{pname}/bounded/lambda/{cname}", lambda p=p, s=s: lambda_combined_func(p, s, pvt_b, kr_b))
        rec(f"{pname}/bounded/pseudo/{cname}", lambda p=p, s=s: pseudopressure_threephase(p, s, pvt_b, kr_b))
    # both So and pressure out of range: which error is reported first
    rec(
        f"{pname}/bounded/both_bad",
        lambda: lambda_combined_func(np.array([-5.0]), np.array([2.0]), pvt_b, kr_b),
    )
    rec(
        f"{pname}/bounded/both_bad_pseudo",
        lambda: pseudopressure_threephase(np.array([-5.0, 1.0]), np.array([2.0, 0.1]), pvt_b, kr_b),
    )
    # missing keys, one at a time, and pairs (first failure must be the same)
    keys_pvt = ["rho_o0", "Rv", "mu_g", "Bg", "mu_o", "Bo", "rho_g0", "Rs", "rho_w0", "mu_w", "Bw"]
    keys_kr = ["krg", "kro", "krw"]
    for k in keys_pvt:
        d = {a: b for a, b in pvt.items() if a != k}
        rec(f"{pname}/missing_pvt/{k}", lambda d=d: lambda_combined_func(P, S, d, kr))
        rec(f"{pname}/missing_pvt_pseudo/{k}", lambda d=d: pseudopressure_threephase(P, S, d, kr))
        for k2 in keys_kr:
            d2 = {a: b for a, b in kr.items() if a != k2}
            rec(f"{pname}/missing_both/{k}/{k2}", lambda d=d, d2=d2: lambda_combined_func(P, S, d, d2))
        # value of the wrong type
        d3 = dict(pvt)
        d3[k] = "oops"
        rec(f"{pname}/wrongtype_pvt/{k}", lambda d3=d3: lambda_combined_func(P[:4], S[:4], d3, kr))
        rec(
            f"{pname}/wrongtype_pvt_bounded/{k}",
            lambda d3=d3: lambda_combined_func(
                np.array([-5.0]), np.array([2.0]), {**pvt_b, k: "oops"}, kr_b
            ),
        )
    for k2 in keys_kr:
        d2 = {a: b for a, b in kr.items() if a != k2}
        rec(f"{pname}/missing_kr/{k2}", lambda d2=d2: lambda_combined_func(P, S, pvt, d2))
        rec(f"{pname}/missing_kr_pseudo/{k2}", lambda d2=d2: pseudopressure_threephase(P, S, pvt, d2))
        rec(f"{pname}/missing_kr_alpha/{k2}", lambda d2=d2: alpha_multiphase(P, S, 0.2, 0.05, pvt, d2))
    # densities as arrays / zero / negative
    for dname, dd in {
        "zero": {"rho_o0": 0.0, "rho_g0": 0.0, "rho_w0": 0.0},
        "neg": {"rho_o0": -1.0, "rho_g0": 2.5, "rho_w0": 1e-300},
        "int": {"rho_o0": 1, "rho_g0": 2, "rho_w0": 3},
        "arr": {"rho_o0": np.full(P.size, 0.8), "rho_g0": np.linspace(0, 1, P.size), "rho_w0": 1.0},
    }.items():
        d = {**pvt, **dd}
        rec(f"{pname}/dens/{dname}", lambda d=d: lambda_combined_func(P, S, d, kr))
        rec(f"{pname}/dens_pseudo/{dname}", lambda d=d: pseudopressure_threephase(P, S, d, kr))

    # full constructor
    for p_i in (8000.0, 5000, 9000.0, 0.0, 10.0, 12001.0, -1.0):
        for phi, sw in ((0.1, 0.1), (0.25, 0.05)):

            def build(p_i=p_i, phi=phi, sw=sw, df_kr=df_kr):
                df = rescale_pseudopressure(df_pvt, 1000.0, 8000.0)
                obj = FlowPropertiesTwoPhase.from_table(df, df_kr, dens, phi, sw, p_i)
                m = np.linspace(-0.2, 1.3, 23)
                return {
                    "m_i": np.asarray(obj.m_i),
                    "alpha": obj.alpha(m),
                    "m_scaled": obj.m_scaled_func(np.linspace(0, 9000, 31)),
                    "props": {k: np.asarray(v) for k, v in obj.pvt_props.items()},
                    "repr": repr(obj),
                }

            rec(f"{pname}/from_table/p_i={p_i}/phi={phi}/sw={sw}", build)

# tables with non-default indexes
df_kr = relative_permeabilities_twophase(params, 0.1)
rng = np.random.default_rng(3)
variants = {
    "shuffled_index": df_pvt.set_axis(rng.permutation(len(df_pvt)), axis=0),
    "dup_index": df_pvt.set_axis(np.arange(len(df_pvt)) // 2, axis=0),
    "str_index": df_pvt.set_axis([f"r{i}" for i in range(len(df_pvt))], axis=0),
    "rows_reversed": df_pvt.iloc[::-1],
}
for vname, dfv in variants.items():

    def build(dfv=dfv):
        obj = FlowPropertiesTwoPhase.from_table(dfv, df_kr, dens, 0.1, 0.1, 8000.0)
        return {
            "m_i": np.asarray(obj.m_i),
            "alpha": obj.alpha(np.linspace(-0.2, 1.3, 23)),
            "props": {k: np.asarray(v) for k, v in obj.pvt_props.items()},
            "repr": repr(obj),
        }

    rec(f"index/{vname}", build)
    pvt, kr = make(dfv, df_kr)
    rec(f"index/{vname}/lambda", lambda: lambda_combined_func(dfv["pressure"], dfv["So"], pvt, kr))
    rec(f"index/{vname}/pseudo", lambda: pseudopressure_threephase(dfv["pressure"], dfv["So"], pvt, kr))

# missing columns / errors in from_table
rec("from_table/missing_pvt_col", lambda: FlowPropertiesTwoPhase.from_table(df_pvt.drop(columns=["Rv"]), df_kr, dens, 0.1, 0.1, 8000.0))
rec("from_table/missing_kr_col", lambda: FlowPropertiesTwoPhase.from_table(df_pvt, df_kr.drop(columns=["krw"]), dens, 0.1, 0.1, 8000.0))
rec("from_table/missing_density", lambda: FlowPropertiesTwoPhase.from_table(df_pvt, df_kr, {"rho_o0": 1.0}, 0.1, 0.1, 8000.0))
rec("from_table/empty_density", lambda: FlowPropertiesTwoPhase.from_table(df_pvt, df_kr, {}, 0.1, 0.1, 8000.0))
rec("module/has_public", lambda: np.array([hasattr(fp, n) for n in ("lambda_combined_func", "pseudopressure_threephase", "alpha_multiphase")]))

with open(sys.argv[1], "w") as f:
    f.write("\n".join(out) + "\n")
