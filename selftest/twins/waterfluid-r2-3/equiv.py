"""Equivalence driver for twin3/twin5 (build_pvt_gas, pseudopressure)."""
import os
import sys
import warnings

import numpy as np
import pandas as pd

warnings.simplefilter("ignore")

from bluebonnet.fluids import build_pvt_gas, pseudopressure

DATA = os.environ.get("BB_DATA", "/tmp/twin2_waterfluid/tests/data")
out = []


def fmt(v):
    if isinstance(v, pd.DataFrame):
        cols = ";".join(f"{c}:{v[c].dtype}:{fmt(v[c].to_numpy())}" for c in v.columns)
        return f"DataFrame{v.shape} index={list(v.index[:3])}..{type(v.index).__name__} {cols}"
    if isinstance(v, pd.Series):
        return f"Series name={v.name!r} index={type(v.index).__name__} " + fmt(v.to_numpy())
    if isinstance(v, np.ndarray):
        return f"array{v.shape}{v.dtype}[" + ",".join(fmt(x) for x in v.ravel().tolist()) + "]"
    if isinstance(v, (list, tuple)):
        return "[" + ",".join(fmt(x) for x in v) + "]"
    if isinstance(v, (float, np.floating)):
        return repr(float(v))
    return type(v).__name__ + ":" + repr(v)


def rec(label, fn, *args, **kw):
    try:
        res = fn(*args, **kw)
        out.append(f"{label} -> {type(res).__name__} {fmt(res)}")
    except Exception as e:  # noqa: BLE001
        out.append(f"{label} -> EXC {type(e).__name__}")


base = {
    "N2": 0.03,
    "H2S": 0.012,
    "CO2": 0.018,
    "Gas Specific Gravity": 0.65,
    "Reservoir Temperature (deg F)": 400,
}


def variant(**changes):
    d = dict(base)
    for k, v in changes.items():
        key = {"sg": "Gas Specific Gravity", "T": "Reservoir Temperature (deg F)"}.get(k, k)
        if v is KeyError:
            del d[key]
        else:
            d[key] = v
    return d


cases = {
    "base": base,
    "series": pd.Series(base),
    "heavy": variant(sg=0.9, T=150.0, N2=0.0, H2S=0.0, CO2=0.0),
    "sour": variant(sg=0.8, T=250, N2=0.05, H2S=0.1, CO2=0.2),
    "sg_str": variant(sg="0.7"),
    "sg_npfloat": variant(sg=np.float64(0.7), T=np.float64(300.0)),
    "sg_int": variant(sg=1, T=200),
    "sg_complex": variant(sg=0.7 + 0j),
    "sg_array1": variant(sg=np.array([0.7])),
    "sg_array2": variant(sg=np.array([0.7, 0.8])),
    "sg_none": variant(sg=None),
    "T_str": variant(T="hot"),
    "T_none": variant(T=None),
    "T_cold": variant(T=-460.0),
    "T_nan": variant(T=float("nan")),
    "no_sg": variant(sg=KeyError),
    "no_T": variant(T=KeyError),
    "no_N2": variant(N2=KeyError),
    "no_CO2_no_sg": variant(CO2=KeyError, sg=KeyError),
    "N2_str": variant(N2="lots"),
    "neg_frac": variant(H2S=-0.1),
    "big_frac": variant(N2=0.6, CO2=0.5),
    "empty": {},
}
for name, gv in cases.items():
    for dry in ("dry gas", "wet gas", "Dry Gas", None):
        for pmax in (200.0, 1505, 20, 10.0, 5, -3, float("nan"), "hi"):
            if pmax in (1505,) and name not in ("base", "heavy", "sour", "series"):
                continue
            rec(f"build {name} {dry!r} pmax={pmax!r}", build_pvt_gas, gv, dry, pmax)
rec("build default pmax", build_pvt_gas, base, "dry gas")
rec("build kw", build_pvt_gas, gas_values=base, gas_dryness="wet gas", maximum_pressure=300)
rec("build missing arg", build_pvt_gas, base)
rec("build not mapping", build_pvt_gas, [0.1, 0.2], "dry gas", 100)

# pseudopressure
pvt = pd.read_csv(os.path.join(DATA, "pvt_gas.csv"))
rec("pvt columns", lambda: list(pvt.columns))
pcol, vcol, zcol = "P", "Viscosity", "Z-Factor"
P, MU, Z = pvt[pcol], pvt[vcol], pvt[zcol]
rec("pp series", pseudopressure, P, MU, Z)
rec("pp arrays", pseudopressure, P.to_numpy(), MU.to_numpy(), Z.to_numpy())
rec("pp mixed", pseudopressure, P.to_numpy(), MU, Z)
rec("pp kw", pseudopressure, pressure=P.to_numpy()[:7], viscosity=MU.to_numpy()[:7], z_factor=Z.to_numpy()[:7])
p5 = np.array([10.0, 50.0, 200.0, 1000.0, 5000.0])
mu5 = np.array([0.011, 0.012, 0.013, 0.018, 0.03])
z5 = np.array([0.99, 0.98, 0.95, 0.9, 1.05])
variants = {
    "ok": (p5, mu5, z5),
    "scalar_mu": (p5, 0.02, z5),
    "scalar_mu_z": (p5, 0.02, 0.9),
    "lists": (list(p5), list(mu5), list(z5)),
    "plist": (list(p5), mu5, z5),
    "plist1": ([100.0], np.array([0.02]), np.array([0.9])),
    "ptuple": (tuple(p5), mu5, z5),
    "mulist": (p5, list(mu5), z5),
    "one": (p5[:1], mu5[:1], z5[:1]),
    "two": (p5[:2], mu5[:2], z5[:2]),
    "empty": (p5[:0], mu5[:0], z5[:0]),
    "scalar_p": (100.0, 0.02, 0.9),
    "scalar_p_arr": (100.0, mu5, z5),
    "npscalar_p": (np.float64(100.0), np.float64(0.02), np.float64(0.9)),
    "mismatch": (p5, mu5[:3], z5),
    "bcast": (p5, mu5[:1], z5),
    "twoD": (np.vstack([p5, 2 * p5]), np.vstack([mu5, mu5]), np.vstack([z5, z5])),
    "twoD_mu": (p5, np.vstack([mu5, 2 * mu5]), z5),
    "col_p": (p5[:, None], mu5, z5),
    "threeD": (p5, np.ones((2, 3, 5)), z5),
    "zero_mu": (p5, np.zeros(5), z5),
    "nan": (p5, mu5, np.array([1.0, np.nan, 1.0, 1.0, 1.0])),
    "inf": (np.array([1.0, 2.0, np.inf]), mu5[:3], z5[:3]),
    "int_p": (np.arange(1, 6) * 100, mu5, z5),
    "decreasing": (p5[::-1], mu5[::-1], z5[::-1]),
    "repeat": (np.array([1.0, 1.0, 2.0]), mu5[:3], z5[:3]),
    "complex": (p5 + 0j, mu5, z5),
    "str": ("abc", mu5, z5),
    "none": (None, mu5, z5),
    "none_mu": (p5, None, z5),
    "obj": (p5.astype(object), mu5, z5),
    "masked": (np.ma.masked_array(p5, mask=[0, 1, 0, 0, 0]), mu5, z5),
    "matrix": (np.matrix(p5), mu5, z5),
    "float32": (p5.astype(np.float32), mu5.astype(np.float32), z5.astype(np.float32)),
    "series_idx": (pd.Series(p5, index=list("abcde")), pd.Series(mu5, index=list("abcde")), pd.Series(z5, index=list("abcde"))),
    "series_misaligned": (pd.Series(p5), pd.Series(mu5, index=[4, 3, 2, 1, 0]), pd.Series(z5)),
    "huge": (p5 * 1e300, mu5 * 1e-5, z5),
    "tiny": (p5 * 1e-310, mu5, z5),
}
for name, args in variants.items():
    rec(f"pp {name}", pseudopressure, *args)
rec("pp missing", pseudopressure, p5, mu5)

with open(sys.argv[1], "w") as f:
    f.write("\n".join(out) + "\n")
