"""Behavioural fingerprint of bluebonnet.fluids.oil (and its users in Fluid).

Usage: PYTHONPATH=<tree>/src python equiv.py <outfile>
"""

from __future__ import annotations

import itertools
import os
import sys
import warnings

import numpy as np
import pandas as pd

from bluebonnet.fluids import Fluid
from bluebonnet.fluids import oil

warnings.simplefilter("ignore")
BB_DATA = os.environ.get("BB_DATA", "/tmp/twin9_oil/tests/data")

FOCUS = None  # exercise every function of the module (b_o_Standing is used by density_Standing and Fluid.oil_FVF)


def show(v):
    if isinstance(v, pd.Series):
        return "Series[" + show(v.to_numpy()) + "]"
    if isinstance(v, np.ndarray):
        return (
            f"ndarray{v.shape}{v.dtype}["
            + ",".join(repr(x) for x in v.ravel().tolist())
            + "]"
        )
    if isinstance(v, tuple):
        return "tuple(" + ",".join(show(x) for x in v) + ")"
    return f"{type(v).__name__}:{v!r}"


UNINIT = ("b_o_Standing", "density_Standing", "oil_FVF")


def scrub(label, res, args):
    """b_o_Standing leaves np.empty() slots unwritten where the pressure is NaN
    (neither p >= pb nor p < pb); those slots hold arbitrary memory on any tree,
    so they are replaced by a marker before comparing."""
    if not any(label.startswith(u) or ("." + u) in label for u in UNINIT):
        return res
    for a in args:
        if isinstance(a, (np.ndarray, pd.Series)) and np.ndim(a) > 0:
            arr = np.asarray(a)
            if arr.dtype.kind == "f" and isinstance(res, np.ndarray) and res.shape == arr.shape:
                nan = np.isnan(arr)
                if nan.any():
                    res = np.array(res, dtype=np.float64)
                    res[nan] = -12345.0
    return res


def call(out, label, fn, *args, **kwargs):
    try:
        res = scrub(label, fn(*args, **kwargs), args)
        out.append(f"{label} -> {show(res)}")
    except Exception as exc:  # noqa: BLE001
        out.append(f"{label} !! {type(exc).__name__}")


def main(outfile):
    out = []
    pb = oil.pressure_bubblepoint_Standing(200, 35, 0.8, 650)
    pb2 = oil.pressure_bubblepoint_Standing(150.0, 42.5, 0.7, 900.0)
    param_sets = [
        (200, 35, 0.8, 650),
        (200.0, 35.0, 0.8, 650.0),
        (150.0, 42.5, 0.7, 900.0),
        (np.float64(250.0), np.float64(28.0), np.float64(1.1), np.float64(300.0)),
        (300, 50, 0.6, 2000),
        (100, 10, 0.55, 50),
        (0, 35, 0.8, 650),
        (0.0, 35, 0.8, 650),
        (200, -131.5, 0.8, 650),
        (200, 35, 0, 650),
        (200, 35, 0.0, 650.0),
        (200, 35, -0.8, 650),
        (200, 35, 0.8, 0),
        (200, 35, 0.8, -10),
        (200, 35, 0.8, float("nan")),
        (float("nan"), 35, 0.8, 650),
        (200, 35, 0.8, float("inf")),
        ("a", 35, 0.8, 650),
        (200, None, 0.8, 650),
    ]
    scalars = [
        14.7, 100, 100.0, 1000, 2000, 2000.0, 2627, pb, np.nextafter(pb, 0),
        np.nextafter(pb, 1e9), pb2, 2628, 3000, 3000.0, 8000, 20000.0,
        np.float64(1500.0), np.float64(3500.0), np.float32(1500.0), np.int64(4000),
        np.array(1500.0), np.array(3500.0), 0, 0.0, -5.0, -30.0, float("nan"), float("inf"),
        True, None, "x", 1500 + 0j,
    ]
    arrays = [
        np.linspace(10, 6000, 25),
        np.linspace(10, 2000, 7),
        np.linspace(3000, 9000, 7),
        np.array([pb]),
        np.array([np.nextafter(pb, 0), pb, np.nextafter(pb, 1e9)]),
        np.array([pb, pb2, 100.0, 5000.0]),
        np.array([1000.0]),
        np.array([4000.0]),
        np.array([1000.0, 4000.0]),
        np.array([4000, 1000, 3000, 2000]),
        np.array([4000, 1000], dtype=np.int32),
        np.array([4000.0, 1000.0], dtype=np.float32),
        np.array([]),
        np.array([], dtype=int),
        np.array([[1000.0, 4000.0], [3000.0, 2000.0]]),
        np.array([[4000.0, 5000.0], [3000.0, 6000.0]]),
        np.array([[1000.0, 400.0], [300.0, 2000.0]]),
        np.array([[4000.0]]),
        np.array([[1000.0]]),
        np.array([[4000.0], [5000.0]]),
        np.array([[4000.0, 5000.0]]),
        np.array([[[4000.0, 1000.0]]]),
        np.empty((0, 3)),
        np.array([1000.0, np.nan, 4000.0]),
        np.array([np.nan, np.nan]),
        np.array([0.0, 1000.0, 4000.0]),
        np.array([-50.0, 1000.0, 4000.0]),
        np.array([np.inf, 1000.0]),
        np.array([True, False]),
        np.array([1000.0, 4000.0], dtype=object),
        np.array(["a", "b"]),
        [1000.0, 4000.0],
        (1000.0, 4000.0),
        pd.Series([1000.0, 4000.0, 2500.0]),
        pd.Series([4000.0, 4500.0], index=[3, 7]),
        np.ma.masked_array([1000.0, 4000.0, 3000.0], mask=[False, False, True]),
    ]
    try:
        df = pd.read_csv(os.path.join(BB_DATA, "pvt_oil.csv"))
        pcol = [c for c in df.columns if "ress" in c.lower()]
        if pcol:
            arrays.append(df[pcol[0]].to_numpy())
    except Exception as exc:  # noqa: BLE001
        out.append(f"data !! {type(exc).__name__}")

    five_arg = [
        "b_o_Standing",
        "solution_gor_Standing",
        "dgor_dpressure_Standing",
        "oil_compressibility_undersat_Standing",
        "oil_compressibility_undersat_Spivey",
        "density_Standing",
        "viscosity_beggs_robinson",
    ]
    four_arg = [
        "pressure_bubblepoint_Standing",
        "b_o_bubblepoint_Standing",
        "db_o_dgor_Standing",
    ]

    def want(name):
        return FOCUS is None or name in FOCUS

    for name in four_arg:
        if not want(name):
            continue
        fn = getattr(oil, name)
        for i, ps in enumerate(param_sets):
            call(out, f"{name}[ps{i}]", fn, *ps)
        for j, a in enumerate(arrays):
            call(out, f"{name}[gor=arr{j}]", fn, 200, 35, 0.8, a)

    for name in five_arg:
        if not want(name):
            continue
        fn = getattr(oil, name)
        for (i, ps), (j, p) in itertools.product(enumerate(param_sets), enumerate(scalars)):
            T, api, sg, gor = ps
            call(out, f"{name}[ps{i},s{j}]", fn, T, p, api, sg, gor)
        for (i, ps), (j, a) in itertools.product(enumerate(param_sets[:8]), enumerate(arrays)):
            T, api, sg, gor = ps
            acopy = a.copy() if hasattr(a, "copy") else a
            call(out, f"{name}[ps{i},arr{j}]", fn, T, a, api, sg, gor)
            # inputs must not be mutated
            try:
                same = show(acopy) == show(a)
            except Exception:  # noqa: BLE001
                same = "?"
            if same is not True:
                out.append(f"{name}[ps{i},arr{j}] input changed: {same}")
        # keyword calls
        call(out, f"{name}[kw]", fn, temperature=200, pressure=2000.0, api_gravity=35,
             gas_specific_gravity=0.8, solution_gor_initial=650)
        call(out, f"{name}[missing]", fn, 200, 2000.0, 35, 0.8)

    if want("oil_compressibility_Standing"):
        fn = oil.oil_compressibility_Standing
        for (i, ps), (j, p) in itertools.product(enumerate(param_sets[:8]), enumerate(scalars)):
            T, api, sg, gor = ps
            call(out, f"co_Standing[ps{i},s{j}]", fn, T, p, api, sg, gor, -72.2, 653)
            call(out, f"co_Standing[ps{i},s{j},std]", fn, T, p, api, sg, gor, -72.2, 653, 70, 14.65)
        for j, a in enumerate(arrays):
            call(out, f"co_Standing[arr{j}]", fn, 200, a, 35, 0.8, 650, -72.2, 653)

    if want("_mu_dead_to_live_br"):
        for md, g in itertools.product([0.5, 2.0, np.array([0.5, 3.0]), 0.0, -1.0], [0, 650, 650.0, np.array([100.0, 900.0]), -100, -150]):
            call(out, f"_mu_dead_to_live_br[{md!r},{g!r}]", oil._mu_dead_to_live_br, md, g)

    # users of the module
    for args in [(200, 35, 0.8, 650), (150.0, 42.5, 0.7, 900.0)]:
        fl = Fluid(*args)
        call(out, f"Fluid{args}.pb", fl.pressure_bubblepoint)
        for j, a in enumerate(arrays[:14] + scalars[:20]):
            call(out, f"Fluid{args}.oil_FVF[{j}]", fl.oil_FVF, a)
            call(out, f"Fluid{args}.oil_viscosity[{j}]", fl.oil_viscosity, a)

    out.append("public: " + ",".join(sorted(n for n in dir(oil) if not n.startswith("_") and getattr(getattr(oil, n), "__module__", None) == oil.__name__)))
    with open(outfile, "w") as fh:
        fh.write("\n".join(out) + "\n")


if __name__ == "__main__":
    main(sys.argv[1])
