"""Exercise bluebonnet.fluids.water and bluebonnet.fluids.fluid on a broad set of inputs."""

from __future__ import annotations

import dataclasses
import sys
import warnings

import numpy as np

warnings.filterwarnings("ignore")

from bluebonnet.fluids import fluid as fluid_mod
from bluebonnet.fluids import water as water_mod
from bluebonnet.fluids.fluid import Fluid, build_pvt_gas, pseudopressure

out = []


def fmt(v):
    if isinstance(v, np.ndarray):
        return f"ndarray{v.shape}{v.dtype}[" + ",".join(repr(float(x)) for x in v.ravel()) + "]"
    if isinstance(v, (float, np.floating)):
        return f"{type(v).__name__}:{float(v)!r}"
    if isinstance(v, (list, tuple)):
        return type(v).__name__ + "(" + ",".join(fmt(x) for x in v) + ")"
    return f"{type(v).__name__}:{v!r}"


def rec(label, fn, *args, **kwargs):
    try:
        res = fmt(fn(*args, **kwargs))
    except BaseException as e:  # noqa: BLE001
        res = "EXC:" + type(e).__name__
    out.append(f"{label} -> {res}")


pressures = [
    14.7,
    3000,
    3000.0,
    0,
    -5.0,
    np.float64(2500.0),
    np.array([14.7, 100.0, 1000.0, 5000.0, 12000.0]),
    np.array([1, 10, 1000]),
    np.array([]),
    np.array([[100.0, 200.0], [3000.0, 8000.0]]),
    [100.0, 2000.0],
    np.nan,
    "abc",
    None,
]
temps = [60, 200.0, 400, 0, -10.0, np.nan]
sals = [0, 0.0, 5.5, 15, 30.0]

for t in temps:
    for ip, p in enumerate(pressures):
        rec(f"b_w t={t} p#{ip}", water_mod.b_water_McCain, t, p)
        rec(f"b_w_dp t={t} p#{ip}", water_mod.b_water_McCain_dp, t, p)
        for s in sals:
            rec(f"c_w t={t} p#{ip} s={s}", water_mod.compressibility_water_McCain, t, p, s)
            rec(f"rho_w t={t} p#{ip} s={s}", water_mod.density_water_McCain, t, p, s)
            rec(f"mu_w t={t} p#{ip} s={s}", water_mod.viscosity_water_McCain, t, p, s)
rec("b_w noargs", water_mod.b_water_McCain)
rec("b_w str temp", water_mod.b_water_McCain, "hot", 100.0)
rec("mu_w str sal", water_mod.viscosity_water_McCain, 200, 100.0, "x")
rec("c_w zero denom", water_mod.compressibility_water_McCain, 751.0242085661080, 0.0, 0.0)

# ---- Fluid dataclass
rec("fields", lambda: [(f.name, f.type, "MISSING" if f.default is dataclasses.MISSING else repr(f.default)) for f in dataclasses.fields(Fluid)])
rec("repr", lambda: repr(Fluid(200, 35, 0.8, 650)))
rec("repr2", lambda: repr(Fluid(200, 35, 0.8, 650, 3.0, 0.2)))
rec("eq", lambda: Fluid(200, 35, 0.8, 650) == Fluid(200, 35, 0.8, 650, 0.0, 0.0))
rec("kw", lambda: repr(Fluid(temperature=1, api_gravity=2, gas_specific_gravity=3, solution_gor_initial=4, water_saturation_initial=0.3)))
rec("too few", lambda: Fluid(200, 35, 0.8))
rec("too many", lambda: Fluid(200, 35, 0.8, 1, 2, 3, 4))
rec("bad kw", lambda: Fluid(200, 35, 0.8, 650, foo=1))
rec("class default salinity", lambda: Fluid.salinity)
rec("class default swi", lambda: Fluid.water_saturation_initial)
rec("class no temperature", lambda: Fluid.temperature)
rec("hash", lambda: hash(Fluid(200, 35, 0.8, 650)))

fluids = [
    Fluid(200, 35, 0.8, 650),
    Fluid(400, 35, 0.65, 0),
    Fluid(150.0, 45.0, 0.7, 1200.0, salinity=10.0, water_saturation_initial=0.2),
    Fluid(300, 20, 1.0, 100, 25),
    Fluid("hot", 35, 0.8, 650),
]
tpcs = [(-102.0, 649.0), (-70.0, 660.0)]
for i, fl in enumerate(fluids):
    rec(f"F{i} pb", fl.pressure_bubblepoint)
    for ip, p in enumerate(pressures):
        rec(f"F{i} water_FVF p#{ip}", fl.water_FVF, p)
        rec(f"F{i} water_visc p#{ip}", fl.water_viscosity, p)
        rec(f"F{i} oil_FVF p#{ip}", fl.oil_FVF, p)
        rec(f"F{i} oil_visc p#{ip}", fl.oil_viscosity, p)
        for tpc, ppc in tpcs:
            rec(f"F{i} gas_FVF p#{ip} {tpc}", fl.gas_FVF, p, tpc, ppc)
            rec(f"F{i} gas_visc p#{ip} {tpc}", fl.gas_viscosity, p, tpc, ppc)
    rec(f"F{i} gas_FVF missing", fl.gas_FVF, np.array([100.0]))
    rec(f"F{i} gas_visc kw", fl.gas_viscosity, pressure=np.array([100.0, 2000.0]),
        temperature_pseudocritical=-102.0, pressure_pseudocritical=649.0)
    rec(f"F{i} gas_FVF kw", fl.gas_FVF, pressure=np.array([100.0, 2000.0]),
        temperature_pseudocritical=-102.0, pressure_pseudocritical=649.0)

# ---- pseudopressure
p = np.linspace(10.0, 5000.0, 40)
mu = 0.01 + 1e-6 * p
z = 1.0 - 1e-5 * p + 2e-9 * p**2
rec("pp arrays", pseudopressure, p, mu, z)
rec("pp kw", pseudopressure, pressure=p, viscosity=mu, z_factor=z)
rec("pp scalars mu z", pseudopressure, p, 0.02, 0.9)
rec("pp ints", pseudopressure, np.array([1, 2, 3]), np.array([1, 1, 1]), np.array([1, 2, 1]))
rec("pp empty", pseudopressure, np.array([]), np.array([]), np.array([]))
rec("pp single", pseudopressure, np.array([5.0]), np.array([1.0]), np.array([1.0]))
rec("pp mismatch", pseudopressure, p, mu[:-1], z)
rec("pp lists", pseudopressure, [1.0, 2.0], [1.0, 1.0], [1.0, 1.0])
rec("pp scalar", pseudopressure, 3.0, 1.0, 1.0)
rec("pp zero z", pseudopressure, np.array([1.0, 2.0]), np.array([1.0, 1.0]), np.array([0.0, 1.0]))
rec("pp 2d", pseudopressure, np.array([[1.0, 2.0, 4.0], [1.0, 3.0, 9.0]]), np.ones((2, 3)), np.ones((2, 3)))
try:
    import pandas as pd

    rec("pp series", lambda: np.asarray(pseudopressure(pd.Series(p), pd.Series(mu), pd.Series(z))))
except ImportError:
    pass


# ---- build_pvt_gas
def table(gv, dryness, *a, **k):
    df = build_pvt_gas(gv, dryness, *a, **k)
    return [
        list(df.columns),
        [str(d) for d in df.dtypes],
        str(df.index),
        df.shape,
        *[df[c].to_numpy() for c in df.columns],
    ]


gv1 = {"N2": 0.0, "H2S": 0.0, "CO2": 0.0, "Gas Specific Gravity": 0.65,
       "Reservoir Temperature (deg F)": 200}
gv2 = {"N2": 0.02, "H2S": 0.01, "CO2": 0.05, "Gas Specific Gravity": "0.8",
       "Reservoir Temperature (deg F)": 250.5}
rec("pvt dry small", table, gv1, "dry gas", 400)
rec("pvt wet small", table, gv1, "wet gas", 300.0)
rec("pvt kw", table, gv1, gas_dryness="dry gas", maximum_pressure=60)
rec("pvt empty", table, gv1, "dry gas", 10)
rec("pvt one", table, gv1, "dry gas", 15)
rec("pvt bad dryness", table, gv1, "damp gas", 100)
rec("pvt missing key", table, {"N2": 0.0}, "dry gas", 100)
rec("pvt missing temp", table, {k: v for k, v in gv1.items() if "Temp" not in k}, "dry gas", 100)
rec("pvt not mapping", table, None, "dry gas", 100)
rec("pvt neg max", table, gv1, "dry gas", -100)
try:
    rec("pvt strgrav", table, gv2, "wet gas", 200)
except BaseException:
    pass
rec("pvt gv2 float", table, {**gv2, "Gas Specific Gravity": 0.8}, "wet gas", 1500)
rec("pvt default", lambda: table(gv1, "dry gas")[3])
rec("pvt default tail", lambda: [a[-3:] if isinstance(a, np.ndarray) else a for a in table(gv1, "dry gas")[4:]])

rec("constants", lambda: (fluid_mod.PRESSURE_STANDARD, fluid_mod.TEMPERATURE_STANDARD))
rec("public water", lambda: sorted(n for n in dir(water_mod) if not n.startswith("_") and callable(getattr(water_mod, n)) and getattr(getattr(water_mod, n), "__module__", None) == water_mod.__name__))
rec("public fluid", lambda: sorted(n for n in dir(fluid_mod) if not n.startswith("_") and callable(getattr(fluid_mod, n)) and getattr(getattr(fluid_mod, n), "__module__", None) == fluid_mod.__name__))

with open(sys.argv[1], "w") as f:
    f.write("\n".join(out) + "\n")
