"""Equivalence probe: writes full-precision results of the touched functions to <outfile>."""

from __future__ import annotations

import os
import sys
import warnings

import numpy as np
import pandas as pd
from scipy.interpolate import interp1d

from bluebonnet.flow import flowproperties as fp

DATA = os.environ.get("BB_DATA", "/tmp/twin2_flowproperties/tests/data")
LINES: list[str] = []


def fmt(x, depth=0):
    """Full-precision, deterministic text for numbers / arrays / tables."""
    if isinstance(x, pd.DataFrame):
        cols = ", ".join(f"{c!r}: {fmt(x[c].to_numpy(), depth + 1)}" for c in x.columns)
        return f"DataFrame(index={list(x.index)[:3]}..{len(x.index)}, {cols})"
    if isinstance(x, pd.Series):
        return f"Series(name={x.name!r}, {fmt(x.to_numpy(), depth + 1)})"
    if isinstance(x, np.ndarray):
        if x.dtype.names:
            inner = ", ".join(f"{n}: {fmt(x[n], depth + 1)}" for n in x.dtype.names)
            return f"recarray(shape={x.shape}, {inner})"
        flat = [fmt(v, depth + 1) for v in x.ravel().tolist()]
        return f"ndarray(shape={x.shape}, dtype={x.dtype}, [{', '.join(flat)}])"
    if isinstance(x, (float, np.floating)):
        return repr(float(x)) + "|" + float(x).hex()
    if isinstance(x, (int, np.integer, str, bool, type(None))):
        return repr(x)
    if isinstance(x, (list, tuple)):
        return type(x).__name__ + "(" + ", ".join(fmt(v, depth + 1) for v in x) + ")"
    if isinstance(x, dict):
        return "{" + ", ".join(f"{k!r}: {fmt(x[k], depth + 1)}" for k in sorted(x, key=str)) + "}"
    return f"<{type(x).__name__}>"


def record(label, thunk, with_message=True):
    """Run thunk, log its value or exception type, and any warnings raised on the way."""
    with warnings.catch_warnings(record=True) as caught:
        warnings.simplefilter("always")
        try:
            out = fmt(thunk())
        except Exception as exc:  # noqa: BLE001
            msg = str(exc)
            # messages built from sets depend on the hash seed: keep only the type
            if not with_message or "{" in msg or "Need pvt_props" in msg:
                msg = ""
            out = f"RAISES {type(exc).__name__} {msg}"
    # distinct warnings only: hoisting a repeated pure evaluation legitimately changes how
    # often numpy repeats the very same RuntimeWarning under the "always" filter
    warns = sorted(
        {
            f"{w.category.__name__}:{str(w.message)[:60]}@{os.path.basename(w.filename)}"
            for w in caught
        }
    )
    LINES.append(f"{label} => {out} ;; warnings={warns}")


def flush():
    with open(sys.argv[1], "w") as fh:
        fh.write("\n".join(LINES) + "\n")
    print(f"wrote {len(LINES)} records to {sys.argv[1]}")


SW = 0.1


def load_multiphase_table():
    pvt_oil = pd.read_csv(os.path.join(DATA, "pvt_oil.csv"))
    pvt_water = pd.read_csv(os.path.join(DATA, "pvt_water.csv")).rename(
        columns={"T": "temperature", "P": "pressure", "Viscosity": "mu_w"}
    )
    rename_cols = {
        "T": "temperature",
        "P": "pressure",
        "Oil_Viscosity": "mu_o",
        "Gas_Viscosity": "mu_g",
        "Rso": "Rs",
    }
    df = (
        pvt_water.drop(columns=["temperature"])
        .merge(pvt_oil.rename(columns=rename_cols), on="pressure")
        .assign(Rv=0)
    )
    df["So"] = (1 - SW) / ((df["Rs"].max() - df["Rs"]) * df["Bg"] / df["Bo"] / 5.61458 + 1)
    return df


def make_relperm(**kw):
    base = dict(n_o=1, n_g=1, n_w=1, S_or=0, S_gc=0, S_wc=0.1, k_ro_max=1, k_rw_max=1, k_rg_max=1)
    base.update(kw)
    return fp.RelPermParams(**base)


REFERENCE_DENSITIES = {"rho_o0": 141.5 / (45 + 131.5), "rho_g0": 1.03e-3, "rho_w0": 1}


def make_pvt_kr(df_pvt, df_kr, volatile=False):
    """Interpolator dictionaries as FlowPropertiesTwoPhase.from_table builds them."""
    cols = ["pseudopressure", "pressure", "Bo", "Bg", "Bw", "Rs", "Rv", "mu_o", "mu_g", "mu_w", "So"]
    table = df_pvt.copy()
    if volatile:
        table["Rv"] = 1e-5 * (1 + np.sqrt(table["pressure"] / 1000.0))
    pvt = {c: interp1d(table["pressure"], table[c], fill_value="extrapolate") for c in cols}
    pvt.update(REFERENCE_DENSITIES)
    kr = {f: interp1d(df_kr["So"], df_kr[f]) for f in ("kro", "krg", "krw")}
    return pvt, kr


# ---------------------------------------------------------------- twin 3 probes
def main():
    df_pvt = load_multiphase_table()
    df_kr = fp.relative_permeabilities_twophase(make_relperm())
    df_kr3 = fp.relative_permeabilities_twophase(
        make_relperm(n_o=2.5, n_g=1.7, n_w=3, S_or=0.15, S_gc=0.05, k_ro_max=0.8, k_rg_max=0.9, k_rw_max=0.4)
    )
    p_series, so_series = df_pvt["pressure"], df_pvt["So"]
    p_arr, so_arr = p_series.to_numpy(), so_series.to_numpy()
    rng = np.random.default_rng(5)
    p_rand = rng.uniform(0.0, float(p_arr.max()), 41)
    so_rand = rng.uniform(0.0, 0.9, 41)
    sw_rand = rng.uniform(0.0, 0.1, 41)
    for tag, kr_table, volatile in (("blackoil", df_kr, False), ("volatile", df_kr3, True)):
        pvt, kr = make_pvt_kr(df_pvt, kr_table, volatile)
        bounded = dict(pvt)
        for name in ("Rv", "Rs", "Bo", "Bg", "Bw"):
            col = df_pvt[name] if not (volatile and name == "Rv") else pvt["Rv"](p_arr)
            bounded[name] = interp1d(p_arr, np.asarray(col))  # raises outside the table
        cases = {
            "series": (p_series, so_series, 0.1, SW),
            "arrays": (p_arr, so_arr, 0.1, SW),
            "random": (p_rand, so_rand, 0.07, 0.05),
            "sw_array": (p_rand, so_rand, 0.2, sw_rand),
            "sw_zero": (p_rand, so_rand, 0.2, 0.0),
            "phi_array": (p_rand, so_rand, np.linspace(0.02, 0.3, 41), 0.1),
            "phi_int": (p_arr[:7], so_arr[:7], 1, 0),
            "scalar": (2500.0, 0.4, 0.1, 0.1),
            "scalar_int": (2500, 0, 1, 0),
            "table_nodes_pm_half": (p_arr[1:-1] + 0.5, so_arr[1:-1], 0.1, SW),
            "edge_low": (np.array([0.0, 0.25, 0.5, 0.75]), np.array([0.1, 0.2, 0.3, 0.4]), 0.1, SW),
            "edge_high": (float(p_arr.max()) - np.array([0.0, 0.25, 0.5, 0.75]), np.array([0.1, 0.2, 0.3, 0.4]), 0.1, SW),
            "outside": (np.array([-50.0, 2.0e4]), np.array([0.1, 0.2]), 0.1, SW),
            "grid2d": (p_rand[:12].reshape(3, 4), so_rand[:12].reshape(3, 4), 0.1, SW),
            "empty": (p_arr[:0], so_arr[:0], 0.1, SW),
            "lists": (list(p_arr[:5]), list(so_arr[:5]), 0.1, SW),
            "list_p_only": (list(p_arr[:5]), so_arr[:5], 0.1, SW),
            "mismatch": (p_arr[:5], so_arr[:7], 0.1, SW),
            "nan_pressure": (np.array([100.0, np.nan, 300.0]), np.array([0.2, 0.3, 0.4]), 0.1, SW),
            "nan_so": (np.array([100.0, 200.0, 300.0]), np.array([0.2, np.nan, 0.4]), 0.1, SW),
            "inf_pressure": (np.array([100.0, np.inf]), np.array([0.2, 0.3]), 0.1, SW),
            "phi_none": (p_arr, so_arr, None, SW),
            "sw_none": (p_arr, so_arr, 0.1, None),
            "p_none": (None, so_arr, 0.1, SW),
            "p_strings": (np.array(["a", "b"]), np.array([0.2, 0.3]), 0.1, SW),
            "huge_pressure": (np.array([1e15, 1e16, 1e17]), np.array([0.2, 0.3, 0.4]), 0.1, SW),
        }
        for name, (p, so, phi, sw) in cases.items():
            for dname, d in (("extrap", pvt), ("bounded", bounded)):
                record(
                    f"{tag}/{dname}/compressibility/{name}",
                    lambda: fp.compressibility_combined_func(p, so, phi, sw, d),
                )
                record(
                    f"{tag}/{dname}/alpha_multiphase/{name}",
                    lambda: fp.alpha_multiphase(p, so, phi, sw, d, kr),
                )
        keys = ["rho_o0", "Rv", "Bg", "Bo", "rho_g0", "Rs", "rho_w0", "Bw"]
        for key in keys:
            broken = {k: v for k, v in pvt.items() if k != key}
            record(
                f"{tag}/compressibility/missing_{key}",
                lambda: fp.compressibility_combined_func(p_arr, so_arr, 0.1, SW, broken),
            )
            swapped = dict(pvt)
            swapped[key] = "not a function or number"
            record(
                f"{tag}/compressibility/string_{key}",
                lambda: fp.compressibility_combined_func(p_arr, so_arr, 0.1, SW, swapped),
                with_message=False,
            )
        for i, k1 in enumerate(keys):
            for k2 in keys[i + 1 :]:
                broken = {k: v for k, v in pvt.items() if k not in (k1, k2)}
                record(
                    f"{tag}/compressibility/missing_{k1}+{k2}",
                    lambda: fp.compressibility_combined_func(p_arr, so_arr, 0.1, SW, broken),
                    with_message=False,
                )
        record(f"{tag}/compressibility/pvt_none", lambda: fp.compressibility_combined_func(p_arr, so_arr, 0.1, SW, None))

    for p_i in (8000.0, 5000.0, 1000.0, 20000.0):
        for kr_table, ktag in ((df_kr, "kr1"), (df_kr3, "kr3")):
            for phi in (0.1, 0.04):
                def build():
                    table = fp.rescale_pseudopressure(df_pvt, 1000, 8000.0)
                    obj = fp.FlowPropertiesTwoPhase.from_table(
                        table, kr_table, REFERENCE_DENSITIES, phi, SW, p_i
                    )
                    probe = np.linspace(-0.2, 1.4, 23)
                    return [obj.m_i, obj.pvt_props["alpha"], obj.pvt_props["m-scaled"], obj.alpha(probe)]

                record(f"from_table/{ktag}/phi={phi}/p_i={p_i}", build)
    flush()


main()
