"""Behaviour snapshot of bluebonnet.flow.flowproperties.

Run as: PYTHONPATH=<tree>/src /venv/bin/python equiv.py <outfile>
Writes every result (full-precision repr, or the exception type) to <outfile>.
"""

from __future__ import annotations

import copy
import os
import sys
import warnings

import numpy as np
import pandas as pd
from scipy.interpolate import interp1d

from bluebonnet.flow import (
    FlowProperties,
    FlowPropertiesMultiPhase,
    FlowPropertiesOnePhase,
    FlowPropertiesTwoPhase,
    SinglePhaseReservoir,
    relative_permeabilities,
    relative_permeabilities_twophase,
    rescale_pseudopressure,
)
from bluebonnet.flow import flowproperties as fpmod
from bluebonnet.flow.flowproperties import (
    FlowPropertiesSimple,
    RelPermParams,
    alpha_multiphase,
    compressibility_combined_func,
    lambda_combined_func,
    pseudopressure_threephase,
)

DATA = os.environ.get("BB_DATA", "/tmp/twin11_flowproperties/tests/data")
SIG = None  # set to an int to round to that many significant digits
LINES: list[str] = []


def fmt_float(x):
    x = float(x)
    if SIG is None or not np.isfinite(x):
        return repr(x)
    return f"{x:.{SIG - 1}e}"


def fmt(v):
    if isinstance(v, pd.DataFrame):
        return (
            "DataFrame("
            + ", ".join(f"{c}:{v[c].dtype}=" + fmt(v[c].to_numpy()) for c in v.columns)
            + f", index={list(v.index)[:3]}..{len(v.index)})"
        )
    if isinstance(v, pd.Series):
        return f"Series[{v.name}]" + fmt(v.to_numpy())
    if isinstance(v, np.ndarray):
        if v.dtype.names:
            return (
                f"recarray{v.shape}{v.dtype.names}("
                + ", ".join(n + "=" + fmt(np.asarray(v[n])) for n in v.dtype.names)
                + ")"
            )
        if v.dtype.kind in "fiub":
            flat = [fmt_float(x) for x in v.ravel()]
            return f"array{v.shape}:{v.dtype}[" + ",".join(flat) + "]"
        return f"array{v.shape}:{v.dtype}{v.tolist()!r}"
    if isinstance(v, (float, np.floating)):
        return type(v).__name__ + ":" + fmt_float(v)
    if isinstance(v, (int, np.integer, bool, np.bool_)):
        return type(v).__name__ + ":" + repr(v)
    if isinstance(v, dict):
        return "{" + ", ".join(f"{k!r}: {fmt(v[k])}" for k in sorted(v, key=str)) + "}"
    if isinstance(v, (list, tuple)):
        return type(v).__name__ + "(" + ", ".join(fmt(x) for x in v) + ")"
    if v is None or isinstance(v, str):
        return repr(v)
    return "<" + type(v).__name__ + ">"


def rec(label, fn):
    with warnings.catch_warnings(record=True) as caught:
        warnings.simplefilter("always")
        np.seterr(all="warn")
        try:
            out = fmt(fn())
        except Exception as exc:  # noqa: BLE001
            out = "RAISES " + type(exc).__name__
            if isinstance(exc, ValueError):
                # messages built from sets have arbitrary order: keep sorted words only
                out += " " + " ".join(sorted(str(exc).replace(",", " ").replace("{", " ").replace("}", " ").split()))
    cats = sorted({w.category.__name__ for w in caught})
    LINES.append(f"{label} -> {out} | warnings={cats}")


# ---------------------------------------------------------------- tables
ren_gas = {
    "P": "pressure",
    "Z-Factor": "z-factor",
    "Cg": "compressibility",
    "Viscosity": "viscosity",
    "Density": "density",
}
ren_oil = {
    "P": "pressure",
    "Z-Factor": "z-factor",
    "Co": "compressibility",
    "Oil_Viscosity": "viscosity",
    "Oil_Density": "density",
}
pvt_gas = pd.read_csv(os.path.join(DATA, "pvt_gas.csv")).rename(columns=ren_gas)
pvt_ideal = pd.read_csv(os.path.join(DATA, "pvt_ideal_gas.csv")).rename(columns=ren_gas)
pvt_oil = pd.read_csv(os.path.join(DATA, "pvt_oil.csv")).rename(columns=ren_oil)
pvt_hay = pd.read_csv(os.path.join(DATA, "pvt_gas_HAYNESVILLE SHALE_20.csv"), index_col=0)
pvt_multi = pd.read_csv(os.path.join(DATA, "pvt_multiphase_oil.csv"), index_col=0)

tables = {
    "gas": pvt_gas,
    "gas_nozero": pvt_gas.iloc[1:].reset_index(drop=True),
    "ideal": pvt_ideal,
    "oil": pvt_oil,
    "hay": pvt_hay,
    "gas_head3": pvt_gas.iloc[1:4].reset_index(drop=True),
    "gas_head2": pvt_gas.iloc[1:3].reset_index(drop=True),
}


def as_dict(df, cols=None):
    cols = list(df.columns) if cols is None else cols
    return {c: df[c].to_numpy().copy() for c in cols}


def describe_flowprops(make, probes_p, probes_m):
    def inner():
        fp = make()
        out = {
            "type": type(fp).__name__,
            "m_i": np.asarray(fp.m_i),
            "m_i_type": type(fp.m_i).__name__,
            "keys": sorted(map(str, fp.pvt_props.keys()))
            if hasattr(fp.pvt_props, "keys")
            else None,
            "pvt_type": type(fp.pvt_props).__name__,
            "m-scaled": np.asarray(fp.pvt_props["m-scaled"]),
            "m-scaled-type": type(fp.pvt_props["m-scaled"]).__name__,
            "alpha_col": np.asarray(fp.pvt_props["alpha"]),
            "alpha_col_type": type(fp.pvt_props["alpha"]).__name__,
            "alpha(m)": np.asarray(fp.alpha(probes_m)),
            "alpha(m_i)": np.asarray(fp.alpha(fp.m_i)),
            "repr_equal": repr(fp) == repr(fp.pvt_props),
            "attrs": sorted(vars(fp)),
        }
        res = []
        for p in probes_p:
            try:
                res.append(fmt(np.asarray(fp.m_scaled_func(p))))
            except Exception as exc:  # noqa: BLE001
                res.append("RAISES " + type(exc).__name__)
        out["m_scaled_func"] = res
        return out

    return inner


probes_m = np.array([-1.0, 0.0, 1e-6, 0.01, 0.3, 0.5, 0.999, 1.0, 1.5, 10.0, 1e9])

# ---------------------------------------------------------------- FlowProperties
for name, tab in tables.items():
    pmin, pmax = tab["pressure"].min(), tab["pressure"].max()
    pmid = tab["pressure"].iloc[len(tab) // 2]
    p_is = [pmin, pmax, pmid, 0.5 * (pmin + pmax), pmin + 0.37 * (pmax - pmin), pmax + 1.0, pmin - 1.0]
    probes_p = [pmin, pmax, pmid, pmid + 0.123, pmax * 2 + 1, np.array([pmin, pmid, pmax])]
    for p_i in p_is:
        for cls in (FlowProperties, FlowPropertiesSimple):
            before = tab.copy()
            rec(
                f"{cls.__name__}[{name},df,p_i={p_i!r}]",
                describe_flowprops(lambda cls=cls, tab=tab, p_i=p_i: cls(tab, p_i), probes_p, probes_m),
            )
            rec(f"  input unchanged[{name}]", lambda: bool(before.equals(tab)) and list(before.columns) == list(tab.columns))
    # dict of arrays
    d = as_dict(tab)
    dkeys = sorted(d)
    for cls in (FlowProperties, FlowPropertiesSimple):
        rec(
            f"{cls.__name__}[{name},dict,p_i=mid]",
            describe_flowprops(lambda cls=cls, d=d, pmid=pmid: cls(d, pmid), probes_p, probes_m),
        )
        rec(f"  dict input keys unchanged[{name}]", lambda: sorted(d) == dkeys)
    # user-supplied alpha (short form)
    if name not in ("gas", "ideal", "oil"):  # zero pseudopressure in first row otherwise, still try below
        pass
    short = tab[["pressure", "pseudopressure"]].copy()
    short["alpha"] = np.linspace(2.0, 0.5, len(short)) ** 2
    for p_i in (pmid, pmax, pmin, pmax + 5):
        rec(
            f"FlowProperties[{name},short alpha,p_i={p_i!r}]",
            describe_flowprops(lambda short=short, p_i=p_i: FlowProperties(short, p_i), probes_p, probes_m),
        )
        rec(
            f"FlowPropertiesOnePhase[{name},short dict,p_i={p_i!r}]",
            describe_flowprops(
                lambda short=short, p_i=p_i: FlowPropertiesOnePhase(as_dict(short), p_i), probes_p, probes_m
            ),
        )
    # both long columns and alpha present: alpha branch wins
    both = tab.copy()
    both["alpha"] = np.linspace(1.0, 3.0, len(both))
    rec(
        f"FlowProperties[{name},long+alpha]",
        describe_flowprops(lambda both=both, pmid=pmid: FlowProperties(both, pmid), probes_p, probes_m),
    )
    rec(
        f"FlowPropertiesSimple[{name},long+alpha]",
        describe_flowprops(lambda both=both, pmid=pmid: FlowPropertiesSimple(both, pmid), probes_p, probes_m),
    )

# missing columns
for drop in ("pressure", "pseudopressure", "compressibility", "viscosity", "z-factor", "density"):
    t = pvt_gas.drop(columns=[drop])
    rec(f"FlowProperties[gas without {drop}]", describe_flowprops(lambda t=t: FlowProperties(t, 3000.0), [3000.0], probes_m))
    rec(
        f"FlowPropertiesSimple[gas without {drop}]",
        describe_flowprops(lambda t=t: FlowPropertiesSimple(t, 3000.0), [3000.0], probes_m),
    )
rec("FlowProperties[empty dict]", lambda: FlowProperties({}, 1.0))
rec("FlowPropertiesSimple[empty dict]", lambda: FlowPropertiesSimple({}, 1.0))
rec("FlowProperties[None]", lambda: FlowProperties(None, 1.0))
rec("FlowProperties[p_i nan]", describe_flowprops(lambda: FlowProperties(pvt_gas, float("nan")), [100.0], probes_m))
rec("FlowProperties[p_i array]", describe_flowprops(lambda: FlowProperties(pvt_gas, np.array([1000.0, 2000.0])), [100.0], probes_m))
rec("FlowProperties[p_i str]", lambda: FlowProperties(pvt_gas, "a"))
rec(
    "FlowProperties[dict of lists]",
    describe_flowprops(lambda: FlowProperties({k: list(v) for k, v in as_dict(pvt_hay).items()}, 3000.0), [100.0], probes_m),
)
rec(
    "FlowPropertiesSimple[dict of lists]",
    describe_flowprops(lambda: FlowPropertiesSimple({k: list(v) for k, v in as_dict(pvt_hay).items()}, 3000.0), [100.0], probes_m),
)
one_row = pvt_hay.iloc[3:4]
rec("FlowProperties[one row]", describe_flowprops(lambda: FlowProperties(one_row, float(one_row["pressure"].iloc[0])), [100.0], probes_m))
rec("FlowPropertiesSimple[one row]", describe_flowprops(lambda: FlowPropertiesSimple(one_row, float(one_row["pressure"].iloc[0])), [100.0], probes_m))


# a subclass that relies on the base constructor
class MyProps(FlowProperties):
    pass


rec("subclass of FlowProperties", describe_flowprops(lambda: MyProps(pvt_hay, 5000.0), [100.0, 5000.0], probes_m))

# end to end through the reservoir
def run_reservoir(cls, tab, p_i, p_f):
    def inner():
        fluid = cls(tab, p_i)
        res = SinglePhaseReservoir(12, p_f, p_i, fluid)
        res.simulate(np.linspace(0, 4, 40) ** 2)
        return {"rf": res.recovery_factor(), "pp_last": res.pseudopressure[-1]}

    return inner


rec("reservoir[gas]", run_reservoir(FlowProperties, pvt_gas, 8000.0, 100.0))
rec("reservoir[hay]", run_reservoir(FlowProperties, pvt_hay, 9000.0, 500.0))
rec("reservoir[oil]", run_reservoir(FlowProperties, pvt_oil, 6000.0, 1000.0))
rec("reservoir[simple,gas]", run_reservoir(FlowPropertiesSimple, pvt_gas.iloc[1:].reset_index(drop=True), 8000.0, 100.0))
rec("reservoir[pf==pi]", run_reservoir(FlowProperties, pvt_hay, 5000.0, 5000.0))

# ---------------------------------------------------------------- rescale_pseudopressure
for name, tab in (("gas", pvt_gas), ("oil", pvt_oil), ("hay", pvt_hay), ("multi", pvt_multi)):
    pmin, pmax = float(tab["pressure"].min()), float(tab["pressure"].max())
    for p_frac, p_i in (
        (1000.0, 8000.0),
        (pmin, pmax),
        (pmax, pmin),
        (2000.0, 2000.0),
        (1234.5, 4321.0),
        (pmin - 1, 5000.0),
        (100.0, pmax + 1),
    ):
        before = tab.copy()
        rec(f"rescale[{name},{p_frac},{p_i}]", lambda tab=tab, p_frac=p_frac, p_i=p_i: rescale_pseudopressure(tab, p_frac, p_i))
        rec(f"  rescale input unchanged[{name}]", lambda: bool(before.equals(tab)))
rec("rescale[dict]", lambda: rescale_pseudopressure(as_dict(pvt_gas), 1000.0, 8000.0))
rec("rescale[missing]", lambda: rescale_pseudopressure(pvt_gas.drop(columns=["pseudopressure"]), 1000.0, 8000.0))
rec("rescale[recarray]", lambda: rescale_pseudopressure(pvt_hay.to_records(index=False), 1000.0, 8000.0))

# ---------------------------------------------------------------- relative permeability
base = RelPermParams(n_o=1, n_g=1, n_w=1, S_or=0, S_gc=0, S_wc=0.1, k_ro_max=1, k_rw_max=1, k_rg_max=1)
param_sets = {
    "base": base,
    "corey": RelPermParams(n_o=2.5, n_g=3, n_w=4, S_or=0.15, S_gc=0.05, S_wc=0.2, k_ro_max=0.8, k_rw_max=0.3, k_rg_max=0.9),
    "six": RelPermParams(n_o=6, n_g=6, n_w=6, S_or=0.0, S_gc=0.0, S_wc=0.0, k_ro_max=1.0, k_rw_max=1.0, k_rg_max=1.0),
    "zero_k": RelPermParams(n_o=1, n_g=2, n_w=3, S_or=0.1, S_gc=0.1, S_wc=0.1, k_ro_max=0, k_rw_max=0, k_rg_max=0),
    "ints": RelPermParams(n_o=2, n_g=2, n_w=2, S_or=0, S_gc=0, S_wc=0, k_ro_max=1, k_rw_max=1, k_rg_max=1),
    "denominator0": RelPermParams(n_o=2, n_g=2, n_w=2, S_or=0.5, S_gc=0.25, S_wc=0.25, k_ro_max=1, k_rw_max=1, k_rg_max=1),
    "denominator_neg": RelPermParams(n_o=2, n_g=2, n_w=2, S_or=0.5, S_gc=0.5, S_wc=0.5, k_ro_max=1, k_rw_max=1, k_rg_max=1),
    "S1": RelPermParams(n_o=2, n_g=2, n_w=2, S_or=1, S_gc=0, S_wc=0, k_ro_max=1, k_rw_max=1, k_rg_max=1),
    "n_big": base._replace(n_o=8),
    "n_small": base._replace(n_w=0),
    "n_both": base._replace(n_w=0, n_g=7),
    "S_neg": base._replace(S_gc=-1),
    "S_big": base._replace(S_or=1.1),
    "S_neg_and_big": base._replace(S_or=1.1, S_gc=-0.1),
    "k_big": base._replace(k_ro_max=1.1),
    "k_neg": base._replace(k_rg_max=-0.1),
    "k_neg_and_big": base._replace(k_rg_max=-0.1, k_rw_max=2),
    "everything wrong": RelPermParams(9, 0, 0.5, -1, 2, 3, -1, 5, 0.5),
    "n_nan": base._replace(n_o=float("nan")),
    "k_nan": base._replace(k_ro_max=float("nan")),
    "n_edge": base._replace(n_o=6.0, n_g=1.0, n_w=1.0),
    "n_frac": base._replace(n_o=1.5, n_g=2.25, n_w=5.999),
    "tuple_params": (1, 1, 1, 0, 0.1, 0, 1, 1, 1),
}


def sat_frame(So, Sw, Sg):
    return pd.DataFrame({"So": np.asarray(So, float), "Sw": np.asarray(Sw, float), "Sg": np.asarray(Sg, float)})


n = 50
sat_sets = {
    "test": sat_frame(np.linspace(0, 0.9, n), np.full(n, 0.1), np.linspace(0.9, 0, n)),
    "three": sat_frame(np.linspace(0, 0.6, 13), np.linspace(0.4, 0.1, 13), 1 - np.linspace(0, 0.6, 13) - np.linspace(0.4, 0.1, 13)),
    "one_row": sat_frame([0.5], [0.2], [0.3]),
    "empty": sat_frame([], [], []),
    "corners": sat_frame([1, 0, 0, 0.15, 0.2], [0, 1, 0, 0.2, 0.75], [0, 0, 1, 0.65, 0.05]),
    "almost": sat_frame([0.5, 0.5], [0.2, 0.2], [0.3009, 0.2991]),
    "toomuch": sat_frame([0.5, 0.5], [0.2, 0.2], [0.3, 0.302]),
    "negative": sat_frame([-0.2, 1.2], [0.6, -0.1], [0.6, -0.1]),
    "nan": sat_frame([np.nan, 0.5], [0.2, 0.2], [0.3, 0.3]),
    "plus1": sat_frame(np.linspace(0, 0.9, n) + 1, np.full(n, 0.1) + 1, np.linspace(0.9, 0, n) + 1),
    "reordered": sat_frame([0.5, 0.1], [0.2, 0.3], [0.3, 0.6])[["Sg", "So", "Sw"]],
    "ints": pd.DataFrame({"So": [1, 0, 0], "Sw": [0, 1, 0], "Sg": [0, 0, 1]}),
}
for pname, params in param_sets.items():
    for sname, sat in sat_sets.items():
        recs = sat.to_records(index=False)
        rec(f"relperm[{pname},{sname}]", lambda recs=recs, params=params: relative_permeabilities(recs, params))
missing = sat_sets["test"][["So", "Sw"]].assign(Sx=sat_sets["test"]["Sg"]).to_records(index=False)
rec("relperm[missing Sg field]", lambda: relative_permeabilities(missing, base))
rec("relperm[dataframe]", lambda: relative_permeabilities(sat_sets["test"], base))
rec("relperm[dict]", lambda: relative_permeabilities(as_dict(sat_sets["test"]), base))
rec("relperm[structured ndarray]", lambda: relative_permeabilities(np.asarray(sat_sets["three"].to_records(index=False)), param_sets["corey"]))
rec("relperm[params None]", lambda: relative_permeabilities(sat_sets["test"].to_records(index=False), None))
rec("relperm[with index]", lambda: relative_permeabilities(sat_sets["test"].to_records(index=True), base))

for pname, params in param_sets.items():
    rec(f"twophase[{pname},default]", lambda params=params: relative_permeabilities_twophase(params))
    for Sw_ in (0.0, 0.05, 0.1, 0.1 + 1e-12, 0.2, 0.8, 1.0, 1.5, -0.1, float("nan")):
        rec(f"twophase[{pname},Sw={Sw_!r}]", lambda params=params, Sw_=Sw_: relative_permeabilities_twophase(params, Sw_))
rec("twophase[Sw array]", lambda: relative_permeabilities_twophase(base, np.array([0.05, 0.1])))
rec("twophase[Sw kw]", lambda: relative_permeabilities_twophase(params=base, Sw=0.03))
rec("RelPermParams fields", lambda: list(RelPermParams._fields))

# ---------------------------------------------------------------- multiphase helpers
Sw0 = 0.1


def make_df_pvt(Rv=0.0):
    pvt_oil_raw = pd.read_csv(os.path.join(DATA, "pvt_oil.csv"))
    pvt_water = pd.read_csv(os.path.join(DATA, "pvt_water.csv")).rename(
        columns={"T": "temperature", "P": "pressure", "Viscosity": "mu_w"}
    )
    rename_cols = {"T": "temperature", "P": "pressure", "Oil_Viscosity": "mu_o", "Gas_Viscosity": "mu_g", "Rso": "Rs"}
    df = pvt_water.drop(columns=["temperature"]).merge(pvt_oil_raw.rename(columns=rename_cols), on="pressure").assign(Rv=Rv)
    df["So"] = (1 - Sw0) / ((df["Rs"].max() - df["Rs"]) * df["Bg"] / df["Bo"] / 5.61458 + 1)
    return df


ref_dens = {"rho_o0": 141.5 / (45 + 131.5), "rho_g0": 1.03e-3, "rho_w0": 1}
pvt_cols = ["pseudopressure", "pressure", "Bo", "Bg", "Bw", "Rs", "Rv", "mu_o", "mu_g", "mu_w", "So"]


def make_funcs(df, df_kr, dens=ref_dens):
    pvt = {prop: interp1d(df["pressure"], df[prop], fill_value="extrapolate") for prop in pvt_cols}
    pvt.update(dens)
    kr = {f: interp1d(df_kr["So"], df_kr[f]) for f in ("kro", "krg", "krw")}
    return pvt, kr


kr_tables = {
    "base": relative_permeabilities_twophase(base),
    "corey": relative_permeabilities_twophase(param_sets["corey"], 0.1),
    "mobile_water": relative_permeabilities_twophase(base._replace(S_wc=0.3, n_w=2, k_rw_max=0.5), 0.1),
}
# a relperm table with mobile water so that lambda_water is non-zero
kr_w = kr_tables["base"].copy()
kr_w["krw"] = 0.05 + 0.1 * kr_w["So"]
kr_tables["water"] = kr_w

for Rv in (0.0, 2.5e-5):
    df_full = make_df_pvt(Rv)
    if Rv:
        df_full["Rv"] = Rv * (1 + df_full["pressure"] / 5000.0)
    for krname, df_kr in kr_tables.items():
        pvt, kr = make_funcs(df_full, df_kr)
        press_sets = {
            "table": (df_full["pressure"].to_numpy(), df_full["So"].to_numpy()),
            "series": (df_full["pressure"], df_full["So"]),
            "sub": (df_full["pressure"].to_numpy()[5:40:3], df_full["So"].to_numpy()[5:40:3]),
            "between": (np.array([15.0, 1234.5, 5000.25, 7999.5]), np.array([0.05, 0.3, 0.6, 0.899])),
            "two": (np.array([1000.0, 2000.0]), np.array([0.2, 0.4])),
            "one": (np.array([3000.0]), np.array([0.5])),
            "empty": (np.array([]), np.array([])),
            "scalar": (3000.0, 0.5),
            "first_last": (df_full["pressure"].to_numpy()[[0, -1]], df_full["So"].to_numpy()[[0, -1]]),
            "beyond": (np.array([-10.0, 0.0, 0.25, 20000.0]), np.array([0.1, 0.2, 0.3, 0.4])),
            "So_out": (np.array([1000.0, 2000.0]), np.array([0.2, 0.95])),
            "mismatch": (np.array([1000.0, 2000.0, 3000.0]), np.array([0.2, 0.4])),
            "decreasing": (np.array([5000.0, 3000.0, 1000.0]), np.array([0.6, 0.4, 0.2])),
            "2d": (np.array([[1000.0, 2000.0], [3000.0, 4000.0]]), np.array([[0.2, 0.3], [0.4, 0.5]])),
        }
        for pname, (pp, ss) in press_sets.items():
            tag = f"[Rv={Rv},{krname},{pname}]"
            rec("lambda" + tag, lambda pp=pp, ss=ss, pvt=pvt, kr=kr: lambda_combined_func(pp, ss, pvt, kr))
            rec("pseudop3" + tag, lambda pp=pp, ss=ss, pvt=pvt, kr=kr: pseudopressure_threephase(pp, ss, pvt, kr))
            for phi, Sw_ in ((0.1, 0.1), (0.25, 0.0), (1.0, 0.3), (0.0, 0.1)):
                rec(
                    f"cp{tag}phi={phi},Sw={Sw_}",
                    lambda pp=pp, ss=ss, pvt=pvt, phi=phi, Sw_=Sw_: compressibility_combined_func(pp, ss, phi, Sw_, pvt),
                )
                rec(
                    f"alpha_mp{tag}phi={phi},Sw={Sw_}",
                    lambda pp=pp, ss=ss, pvt=pvt, kr=kr, phi=phi, Sw_=Sw_: alpha_multiphase(pp, ss, phi, Sw_, pvt, kr),
                )
        # Sw as array
        pp, ss = press_sets["sub"]
        Sw_arr = np.linspace(0.05, 0.15, len(pp))
        rec(f"cp[Rv={Rv},{krname},Sw array]", lambda: compressibility_combined_func(pp, ss, 0.1, Sw_arr, pvt))
        rec(f"alpha_mp[Rv={Rv},{krname},Sw array]", lambda: alpha_multiphase(pp, ss, 0.1, Sw_arr, pvt, kr))
        # missing pieces
        pvt_missing = {k: v for k, v in pvt.items() if k != "Bw"}
        rec(f"lambda[Rv={Rv},{krname},no Bw]", lambda: lambda_combined_func(pp, ss, pvt_missing, kr))
        rec(f"pseudop3[Rv={Rv},{krname},no Bw]", lambda: pseudopressure_threephase(pp, ss, pvt_missing, kr))
        rec(f"cp[Rv={Rv},{krname},no Bw]", lambda: compressibility_combined_func(pp, ss, 0.1, 0.1, pvt_missing))
        pvt_nodens = {k: v for k, v in pvt.items() if k != "rho_g0"}
        rec(f"lambda[Rv={Rv},{krname},no rho_g0]", lambda: lambda_combined_func(pp, ss, pvt_nodens, kr))
        rec(f"pseudop3[Rv={Rv},{krname},no rho_g0]", lambda: pseudopressure_threephase(pp, ss, pvt_nodens, kr))
        rec(f"cp[Rv={Rv},{krname},no rho_g0]", lambda: compressibility_combined_func(pp, ss, 0.1, 0.1, pvt_nodens))
        kr_missing = {k: v for k, v in kr.items() if k != "krw"}
        rec(f"lambda[Rv={Rv},{krname},no krw]", lambda: lambda_combined_func(pp, ss, pvt, kr_missing))
        rec(f"pseudop3[Rv={Rv},{krname},no krw]", lambda: pseudopressure_threephase(pp, ss, pvt, kr_missing))
        rec(f"alpha_mp[Rv={Rv},{krname},no krw]", lambda: alpha_multiphase(pp, ss, 0.1, 0.1, pvt, kr_missing))

# ---------------------------------------------------------------- FlowPropertiesTwoPhase.from_table


def describe_twophase(make):
    def inner():
        fp = make()
        pr_probe = np.array([0.0, 15.0, 1000.0, 4321.0, 8000.0])
        return {
            "type": type(fp).__name__,
            "m_i": np.asarray(fp.m_i),
            "keys": sorted(fp.pvt_props.keys()),
            "m-scaled": np.asarray(fp.pvt_props["m-scaled"]),
            "alpha_col": np.asarray(fp.pvt_props["alpha"]),
            "pseudopressure": np.asarray(fp.pvt_props["pseudopressure"]),
            "alpha(m)": np.asarray(fp.alpha(probes_m)),
            "m_scaled_func": np.asarray(fp.m_scaled_func(pr_probe)),
            "pvt_keys": sorted(fp.pvt),
            "pvt_vals": {k: (np.asarray(v(pr_probe)) if callable(v) else v) for k, v in fp.pvt.items()},
            "kr_keys": sorted(fp.kr),
            "kr_vals": {k: np.asarray(v([0, 0.2, 0.4, 0.9])) for k, v in fp.kr.items()},
            "attrs": sorted(vars(fp)),
        }

    return inner


for Rv in (0.0, 2.5e-5):
    df_full = make_df_pvt(Rv)
    df_nz = df_full.iloc[1:].reset_index(drop=True)
    for tabname, tab in (("full", df_full), ("nozero", df_nz), ("rescaled", rescale_pseudopressure(df_full, 1000, 8000.0))):
        for krname, df_kr in kr_tables.items():
            for phi, Sw_, p_i in ((0.1, 0.1, 8000.0), (0.3, 0.05, 5000.0), (0.1, 0.1, float(tab["pressure"].iloc[0])), (0.1, 0.1, 20000.0)):
                rec(
                    f"from_table[Rv={Rv},{tabname},{krname},{phi},{Sw_},{p_i}]",
                    describe_twophase(
                        lambda tab=tab, df_kr=df_kr, phi=phi, Sw_=Sw_, p_i=p_i: FlowPropertiesTwoPhase.from_table(
                            tab, df_kr, ref_dens, phi, Sw_, p_i
                        )
                    ),
                )
    rec(
        f"from_table[Rv={Rv},dicts]",
        describe_twophase(
            lambda: FlowPropertiesTwoPhase.from_table(as_dict(df_nz), as_dict(kr_tables["water"]), dict(ref_dens), 0.1, 0.1, 6000.0)
        ),
    )
df_full = make_df_pvt()
for drop in pvt_cols:
    rec(
        f"from_table[pvt without {drop}]",
        lambda drop=drop: FlowPropertiesTwoPhase.from_table(df_full.drop(columns=[drop]), kr_tables["base"], ref_dens, 0.1, 0.1, 8000.0) is None,
    )
for drop in ("So", "Sg", "Sw", "kro", "krg", "krw"):
    rec(
        f"from_table[kr without {drop}]",
        lambda drop=drop: FlowPropertiesTwoPhase.from_table(df_full, kr_tables["base"].drop(columns=[drop]), ref_dens, 0.1, 0.1, 8000.0) is None,
    )
rec("from_table[no densities]", lambda: FlowPropertiesTwoPhase.from_table(df_full, kr_tables["base"], {}, 0.1, 0.1, 8000.0) is None)
rec(
    "from_table[both missing]",
    lambda: FlowPropertiesTwoPhase.from_table(df_full.drop(columns=["Bo"]), kr_tables["base"].drop(columns=["kro"]), ref_dens, 0.1, 0.1, 8000.0) is None,
)


def warnings_escape():
    with warnings.catch_warnings(record=True) as w:
        warnings.simplefilter("always")
        FlowPropertiesTwoPhase.from_table(df_full.iloc[1:], kr_tables["water"], ref_dens, 0.1, 0.1, 8000.0)
    return len(w)


rec("from_table[warnings escaping]", warnings_escape)
rec("TwoPhase direct", describe_flowprops(lambda: FlowPropertiesTwoPhase(pvt_hay, 4000.0), [100.0, 4000.0], probes_m))

# ---------------------------------------------------------------- FlowPropertiesMultiPhase
rec("MultiPhase[multi table]", lambda: FlowPropertiesMultiPhase(pvt_multi.assign(alpha=1.0, Sg=0.1, Sw=0.1)) is None)
rec("MultiPhase[missing]", lambda: FlowPropertiesMultiPhase(pvt_multi) is None)
rec("MultiPhase[dict]", lambda: FlowPropertiesMultiPhase(as_dict(pvt_multi)) is None)

# ---------------------------------------------------------------- module surface
rec(
    "public names",
    lambda: sorted(
        n
        for n in dir(fpmod)
        if not n.startswith("_") and getattr(getattr(fpmod, n), "__module__", None) == fpmod.__name__
    ),
)
rec("alias", lambda: FlowPropertiesOnePhase is FlowProperties)
rec("mro", lambda: [[c.__name__ for c in k.__mro__] for k in (FlowProperties, FlowPropertiesSimple, FlowPropertiesTwoPhase, FlowPropertiesMultiPhase)])

with open(sys.argv[1], "w") as fh:
    fh.write("\n".join(LINES) + "\n")
print(len(LINES), "records")
