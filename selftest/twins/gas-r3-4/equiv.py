"""Equivalence driver for twin4 (density / viscosity workers that hand back the z-factor)."""

from __future__ import annotations

import sys
import warnings

import numpy as np

warnings.simplefilter("ignore")

from bluebonnet.fluids import gas  # noqa: E402
from bluebonnet.fluids.fluid import build_pvt_gas  # noqa: E402

OUT: list[str] = []


def fmt(x):
    if isinstance(x, tuple):
        return "(" + ", ".join(fmt(v) for v in x) + ")"
    if isinstance(x, np.ndarray):
        return "array" + repr(x.shape) + "[" + ", ".join(fmt(v) for v in x.ravel()) + "]"
    if isinstance(x, (float, np.floating)):
        return type(x).__name__ + ":" + repr(float(x))
    return type(x).__name__ + ":" + repr(x)


def rec(label, fn, *args, **kwargs):
    try:
        res = fmt(fn(*args, **kwargs))
    except Exception as exc:  # noqa: BLE001
        res = "EXC " + type(exc).__name__
    OUT.append(f"{label} -> {res}")


temps = [60.0, 150, 400, np.float64(212.5)]
pressures = [14.7, 100, 104.7, 1000.0, 5000, np.float64(9000.0), 14000]
pcs = [(-102.0, 649.0), (-72.2, 653.26), (-102.21827232417752, 648.510797253794)]
sgs = [0.56, 0.65, 0.8, 1.1]

for t in temps:
    for p in pressures:
        for tpc, ppc in pcs:
            key = f"T={t!r} p={p!r} pc=({tpc!r},{ppc!r})"
            rec("z " + key, gas.z_factor_DAK, t, p, tpc, ppc)
            rec("cg " + key, gas.compressibility_DAK, t, p, tpc, ppc)
            rec("bg " + key, gas.b_factor_DAK, t, p, tpc, ppc)
            rec("bg2 " + key, gas.b_factor_DAK, t, p, tpc, ppc, 70, 14.65)
            for sg in sgs:
                rec(f"rho {key} sg={sg}", gas.density_DAK, t, p, tpc, ppc, sg)
                rec(f"mu {key} sg={sg}", gas.viscosity_Sutton, t, p, tpc, ppc, sg)

# pseudocritical points
for fr in [(0.03, 0.012, 0.018), (0.05, 0.01, 0.04), (0.0, 0.0, 0.0), (0.2, 0.1, 0.3)]:
    nh = gas.make_nonhydrocarbon_properties(*fr)
    nh2 = gas.make_nonhydrocarbon_properties(*fr, ("Helium", 0.01, 4.0, 9.34, 33.0))
    for sg in sgs:
        for fluid in ("dry gas", "wet gas", "oil"):
            rec(f"pc {fr} {sg} {fluid}", gas.pseudocritical_point_Sutton, sg, nh, fluid)
            rec(f"pc+he {fr} {sg} {fluid}", gas.pseudocritical_point_Sutton, sg, nh2, fluid)

# pseudopressure (quad over viscosity and z)
for t in (150, 400.0):
    for p in (14.7, 500.0, 3000, 10.0):
        rec(f"m T={t} p={p}", gas.pseudopressure_Hussainy, t, p, -102.0, 649.0, 0.65)
        rec(f"m T={t} p={p} ps=20", gas.pseudopressure_Hussainy, t, p, -72.2, 653.26, 0.8, 20.0)

# edge cases and failures
rec("z p=0", gas.z_factor_DAK, 400.0, 0.0, -102.0, 649.0)
rec("z p=nan", gas.z_factor_DAK, 400.0, float("nan"), -102.0, 649.0)
rec("z ppc=0", gas.z_factor_DAK, 400.0, 100.0, -102.0, 0.0)
rec("z tpc=-459.67", gas.z_factor_DAK, 400.0, 100.0, -459.67, 649.0)
rec("z cold", gas.z_factor_DAK, -300.0, 20000.0, -102.0, 649.0)
rec("z huge p", gas.z_factor_DAK, 100.0, 1e6, -102.0, 649.0)
rec("z neg p", gas.z_factor_DAK, 400.0, -100.0, -102.0, 649.0)
rec("z array p", gas.z_factor_DAK, 400.0, np.array([100.0, 200.0]), -102.0, 649.0)
rec("z array1 p", gas.z_factor_DAK, 400.0, np.array([100.0]), -102.0, 649.0)
rec("z str", gas.z_factor_DAK, "400", 100.0, -102.0, 649.0)
rec("cg p=0", gas.compressibility_DAK, 400.0, 0.0, -102.0, 649.0)
rec("cg nan", gas.compressibility_DAK, float("nan"), 100.0, -102.0, 649.0)
rec("cg array", gas.compressibility_DAK, 400.0, np.array([100.0, 200.0]), -102.0, 649.0)
rec("cg neg p", gas.compressibility_DAK, 400.0, -100.0, -102.0, 649.0)
rec("rho sg array", gas.density_DAK, 400.0, 100.0, -102.0, 649.0, np.array([0.6, 0.7]))
rec("rho sg=0", gas.density_DAK, 400.0, 100.0, -102.0, 649.0, 0.0)
rec("rho T=-459.67", gas.density_DAK, -459.67, 100.0, -102.0, 649.0, 0.65)
rec("mu sg=0", gas.viscosity_Sutton, 400.0, 100.0, -102.0, 649.0, 0.0)
rec("mu sg<0", gas.viscosity_Sutton, 400.0, 100.0, -102.0, 649.0, -0.65)
rec("bg p=0", gas.b_factor_DAK, 400.0, 0.0, -102.0, 649.0)
rec("bg Ts=-459.67", gas.b_factor_DAK, 400.0, 100.0, -102.0, 649.0, -459.67)
rec("m nan", gas.pseudopressure_Hussainy, 400.0, float("nan"), -102.0, 649.0, 0.65)
rec("m ps=0", gas.pseudopressure_Hussainy, 400.0, 100.0, -102.0, 649.0, 0.65, 0.0)

rec("m sg str", gas.pseudopressure_Hussainy, 400.0, 100.0, -102.0, 649.0, "0.65")
rec("m sg str cold", gas.pseudopressure_Hussainy, -300.0, 20000.0, -102.0, 649.0, "0.65")
rec("m cold", gas.pseudopressure_Hussainy, -300.0, 20000.0, -102.0, 649.0, 0.65)
rec("m sg=0", gas.pseudopressure_Hussainy, 400.0, 100.0, -102.0, 649.0, 0.0)
rec("m sg<0", gas.pseudopressure_Hussainy, 400.0, 100.0, -102.0, 649.0, -0.65)
rec("m p<ps", gas.pseudopressure_Hussainy, 400.0, 5.0, -102.0, 649.0, 0.65)
rec("m p<0", gas.pseudopressure_Hussainy, 400.0, -50.0, -102.0, 649.0, 0.65, -10.0)
rec("m p array", gas.pseudopressure_Hussainy, 400.0, np.array([100.0, 200.0]), -102.0, 649.0, 0.65)
rec("m sg array", gas.pseudopressure_Hussainy, 400.0, 100.0, -102.0, 649.0, np.array([0.6, 0.7]))
rec("m sg array1", gas.pseudopressure_Hussainy, 400.0, 100.0, -102.0, 649.0, np.array([0.65]))
rec("m kw", gas.pseudopressure_Hussainy, temperature=300, pressure=2000.0,
    temperature_pseudocritical=-72.2, pressure_pseudocritical=653.26, specific_gravity=0.8,
    pressure_standard=14.7)
rec("mu sg str", gas.viscosity_Sutton, 400.0, 100.0, -102.0, 649.0, "0.65")
rec("mu sg str p=0", gas.viscosity_Sutton, 400.0, 0.0, -102.0, 649.0, "0.65")
rec("mu sg None", gas.viscosity_Sutton, 400.0, 100.0, -102.0, 649.0, None)
rec("mu T str", gas.viscosity_Sutton, "400", 100.0, -102.0, 649.0, 0.65)
rec("mu p=0", gas.viscosity_Sutton, 400.0, 0.0, -102.0, 649.0, 0.65)
rec("mu sg array", gas.viscosity_Sutton, 400.0, 100.0, -102.0, 649.0, np.array([0.6, 0.7]))
rec("mu sg array1", gas.viscosity_Sutton, 400.0, 100.0, -102.0, 649.0, np.array([0.65]))
rec("mu sg f32", gas.viscosity_Sutton, 400.0, 100.0, -102.0, 649.0, np.float32(0.65))
rec("mu neg p", gas.viscosity_Sutton, 400.0, -100.0, -102.0, 649.0, 0.65)
rec("mu ppc<0", gas.viscosity_Sutton, 400.0, 100.0, -102.0, -649.0, 0.65)
rec("mu missing", gas.viscosity_Sutton, 400.0, 100.0, -102.0, 649.0)
rec("mu kw", gas.viscosity_Sutton, temperature=300, pressure=2000.0,
    temperature_pseudocritical=-72.2, pressure_pseudocritical=653.26, specific_gravity=0.8)
rec("rho sg str", gas.density_DAK, 400.0, 100.0, -102.0, 649.0, "0.65")
rec("rho sg str p=0", gas.density_DAK, 400.0, 0.0, -102.0, 649.0, "0.65")
rec("rho sg list", gas.density_DAK, 400.0, 100.0, -102.0, 649.0, [0.65])
rec("rho p=0", gas.density_DAK, 400.0, 0.0, -102.0, 649.0, 0.65)
rec("rho neg p", gas.density_DAK, 400.0, -100.0, -102.0, 649.0, 0.65)
rec("rho sg f32", gas.density_DAK, 400.0, 100.0, -102.0, 649.0, np.float32(0.65))
rec("rho missing", gas.density_DAK, 400.0, 100.0, -102.0, 649.0)
rec("rho kw", gas.density_DAK, temperature=300, pressure=2000.0,
    temperature_pseudocritical=-72.2, pressure_pseudocritical=653.26, specific_gravity=0.8)
rec("rho type", lambda: type(gas.density_DAK(400.0, 100.0, -102.0, 649.0, 0.65)).__name__)
rec("mu type", lambda: type(gas.viscosity_Sutton(400.0, 100.0, -102.0, 649.0, 0.65)).__name__)
rec("m type", lambda: type(gas.pseudopressure_Hussainy(400.0, 100.0, -102.0, 649.0, 0.65)).__name__)

# the pvt table built on top of the correlations
for dry in ("dry gas", "wet gas", "damp gas"):
    vals = {
        "N2": 0.03,
        "H2S": 0.012,
        "CO2": 0.018,
        "Gas Specific Gravity": 0.65,
        "Reservoir Temperature (deg F)": 300.0,
    }
    try:
        df = build_pvt_gas(vals, dry, maximum_pressure=600)
        for col in df.columns:
            OUT.append(f"pvt {dry} {col} -> {fmt(df[col].to_numpy())}")
    except Exception as exc:  # noqa: BLE001
        OUT.append(f"pvt {dry} -> EXC {type(exc).__name__}")

with open(sys.argv[1], "w") as fh:
    fh.write("\n".join(OUT) + "\n")
