"""Equivalence probe for twin1: relative_permeabilities (+ its caller)."""

from __future__ import annotations

import itertools
import sys
import warnings

import numpy as np
import pandas as pd

from bluebonnet.flow.flowproperties import (
    RelPermParams,
    relative_permeabilities,
    relative_permeabilities_twophase,
)

warnings.simplefilter("ignore")
out = []


def fmt(x):
    arr = np.asarray(x)
    if arr.dtype.names:
        return "; ".join(
            name + "=" + ",".join(repr(float(v)) for v in arr[name].ravel())
            for name in arr.dtype.names
        )
    return ",".join(repr(float(v)) for v in arr.astype(float).ravel())


def record(label, func):
    try:
        res = func()
    except Exception as exc:  # noqa: BLE001
        out.append(f"{label}: EXC {type(exc).__name__}: {exc}")
        return
    if isinstance(res, pd.DataFrame):
        out.append(f"{label}: cols={list(res.columns)} shape={res.shape}")
        for col in res.columns:
            out.append(f"{label}[{col}]: {fmt(res[col].to_numpy())}")
    else:
        arr = np.asarray(res)
        out.append(f"{label}: dtype={arr.dtype} shape={arr.shape} {fmt(arr)}")


def sat_records(n, Sw, scale=1.0, shift=0.0):
    df = pd.DataFrame(
        {
            "So": np.linspace(0, 1 - Sw, n) * scale + shift,
            "Sw": np.full(n, Sw),
            "Sg": np.linspace(1 - Sw, 0, n) * scale,
        }
    )
    return df.to_records(index=False)


base = RelPermParams(
    n_o=1, n_g=1, n_w=1, S_or=0, S_gc=0, S_wc=0.1, k_ro_max=1, k_rw_max=1, k_rg_max=1
)
param_sets = {
    "base": base,
    "corey": RelPermParams(2.5, 3.0, 1.7, 0.15, 0.2, 0.05, 0.8, 0.3, 0.9),
    "ints": RelPermParams(6, 1, 3, 0, 0, 0, 1, 0, 1),
    "edge_hi": RelPermParams(6.0, 6.0, 6.0, 1.0, 0.0, 0.0, 1.0, 1.0, 1.0),  # denominator 0
    "edge_neg_den": RelPermParams(2.0, 2.0, 2.0, 0.6, 0.5, 0.4, 0.5, 0.5, 0.5),
    "zero_k": RelPermParams(1.0, 1.0, 1.0, 0.1, 0.1, 0.1, 0.0, 0.0, 0.0),
    "nan_k": RelPermParams(1.0, 1.0, 1.0, 0.1, 0.1, 0.1, float("nan"), 0.5, 0.5),
    "nan_S": RelPermParams(1.0, 1.0, 1.0, float("nan"), 0.1, 0.1, 0.5, 0.5, 0.5),
}
# one violation at a time, and several at once (which check fires first matters)
bad = {
    "n_o_hi": base._replace(n_o=8),
    "n_g_hi": base._replace(n_g=6.0001),
    "n_w_lo": base._replace(n_w=0),
    "n_o_lo": base._replace(n_o=0.999),
    "S_gc_neg": base._replace(S_gc=-1),
    "S_or_hi": base._replace(S_or=1.1),
    "S_wc_hi": base._replace(S_wc=1.0000001),
    "k_ro_hi": base._replace(k_ro_max=1.1),
    "k_rw_neg": base._replace(k_rw_max=-0.1),
    "k_rg_neg": base._replace(k_rg_max=-1e-9),
    "multi1": base._replace(n_o=8, n_w=0, S_or=-1, k_ro_max=2),
    "multi2": base._replace(n_w=0, S_or=-1, S_gc=3, k_ro_max=2),
    "multi3": base._replace(S_gc=3, S_or=-1, k_ro_max=2, k_rg_max=-2),
    "multi4": base._replace(k_ro_max=2, k_rg_max=-2),
    "nan_exp": base._replace(n_o=float("nan")),
    "nan_exp2": base._replace(n_w=float("nan"), n_o=9),
    "str_exp": base._replace(n_o="2"),
    "none_S": base._replace(S_or=None),
}
param_sets.update(bad)

sat_sets = {
    "n50": sat_records(50, 0.1),
    "n7_sw0": sat_records(7, 0.0),
    "n5_sw03": sat_records(5, 0.3),
    "n1": sat_records(1, 0.1),
    "n0": sat_records(0, 0.1),
    "near_ok": sat_records(6, 0.1, shift=9e-4),
    "off": sat_records(6, 0.1, shift=2e-3),
    "plus1": sat_records(6, 0.1, shift=1.0),
    "neg": sat_records(4, 0.1, scale=1.0, shift=0.0),
}
# saturations with negative / >1 entries that still sum to 1
weird = pd.DataFrame(
    {"So": [-0.2, 1.3, 0.5, 0.0], "Sw": [0.1, 0.1, 0.1, 0.1], "Sg": [1.1, -0.4, 0.4, 0.9]}
).to_records(index=False)
sat_sets["weird"] = weird
nan_sat = pd.DataFrame(
    {"So": [0.3, np.nan], "Sw": [0.1, 0.1], "Sg": [0.6, 0.9]}
).to_records(index=False)
sat_sets["nan_sat"] = nan_sat
# missing field
sat_sets["missing_Sg"] = pd.DataFrame({"So": [0.5, 0.4], "Sw": [0.5, 0.6]}).to_records(
    index=False
)
# different column order
sat_sets["reordered"] = pd.DataFrame(
    {"Sg": [0.2, 0.5], "So": [0.7, 0.4], "Sw": [0.1, 0.1]}
).to_records(index=False)

for (pname, params), (sname, sats) in itertools.product(param_sets.items(), sat_sets.items()):
    record(f"relperm[{pname}|{sname}]", lambda p=params, s=sats: relative_permeabilities(s, p))

# not a record array at all
record("relperm[dataframe]", lambda: relative_permeabilities(pd.DataFrame(sat_sets["n7_sw0"]), base))
record("relperm[list]", lambda: relative_permeabilities([(0.5, 0.1, 0.4)], base))
record("relperm[none_params]", lambda: relative_permeabilities(sat_sets["n1"], None))

for pname, params in param_sets.items():
    for Sw in (0.1, 0.0, 0.05, 0.8, -0.1):
        record(
            f"twophase[{pname}|Sw={Sw}]",
            lambda p=params, s=Sw: relative_permeabilities_twophase(p, s),
        )
record("twophase[default]", lambda: relative_permeabilities_twophase(base))

with open(sys.argv[1], "w") as fh:
    fh.write("\n".join(out) + "\n")
