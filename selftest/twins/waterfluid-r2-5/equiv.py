"""Equivalence driver for twin4/twin5 (Fluid methods)."""
import dataclasses
import sys
import warnings

import numpy as np
import pandas as pd

warnings.simplefilter("ignore")

from bluebonnet.fluids import Fluid

out = []


def fmt(v):
    if isinstance(v, pd.Series):
        return f"Series name={v.name!r} " + fmt(v.to_numpy())
    if isinstance(v, np.ndarray):
        return f"array{v.shape}{v.dtype}[" + ",".join(fmt(x) for x in v.ravel().tolist()) + "]"
    if isinstance(v, (list, tuple)):
        return "[" + ",".join(fmt(x) for x in v) + "]"
    if isinstance(v, (float, np.floating)):
        return repr(float(v))
    return type(v).__name__ + ":" + repr(v)


def rec(label, fn, *args, **kw):
    try:
        res = fn(*args, **kw)
        out.append(f"{label} -> {type(res).__name__} {fmt(res)}")
    except Exception as e:  # noqa: BLE001
        out.append(f"{label} -> EXC {type(e).__name__}")


fluids = {
    "oil": Fluid(200, 35, 0.8, 650),
    "oil_kw": Fluid(temperature=250.0, api_gravity=40.0, gas_specific_gravity=0.7,
                    solution_gor_initial=1200.0, salinity=5.0, water_saturation_initial=0.2),
    "gas": Fluid(400, 35, 0.65, 0),
    "dead": Fluid(150, 10, 0.9, 0.0, 12),
    "np": Fluid(np.float64(300.0), np.float64(30.0), np.float64(0.75), np.float64(800.0)),
    "cold": Fluid(-459.67, 35, 0.8, 650),
    "zeroT": Fluid(0, 35, 0.8, 650),
    "neg_api": Fluid(200, -131.5, 0.8, 650),
    "zero_sg": Fluid(200, 35, 0.0, 650),
    "neg_gor": Fluid(200, 35, 0.8, -10.0),
    "nanT": Fluid(float("nan"), 35, 0.8, 650),
    "strT": Fluid("hot", 35, 0.8, 650),
    "noneapi": Fluid(200, None, 0.8, 650),
    "strsg": Fluid(200, 35, "heavy", 650),
    "arrT": Fluid(np.array([200.0, 300.0]), 35, 0.8, 650),
    "arrgor": Fluid(200, 35, 0.8, np.array([100.0, 650.0])),
}
pressures = {
    "arr": np.array([14.7, 100.0, 1000.0, 2627.2017021875276, 3000.0, 8000.0]),
    "lin": np.linspace(50, 12000, 17),
    "two": np.array([500.0, 5000.0]),
    "one": np.array([2000.0]),
    "empty": np.array([], dtype=float),
    "int": np.arange(1, 5) * 1000,
    "list": [100.0, 2000.0, 6000.0],
    "tuple": (100.0, 2000.0),
    "gen_range": range(1000, 4000, 1000),
    "series": pd.Series([100.0, 2000.0, 6000.0], name="p"),
    "twoD": np.array([[100.0, 200.0], [3000.0, 4000.0]]),
    "scalar": 3000.0,
    "iscalar": 3000,
    "npscalar": np.float64(3000.0),
    "zero_d": np.array(3000.0),
    "zero": np.array([0.0, 100.0]),
    "neg": np.array([-100.0, 100.0]),
    "nan": np.array([np.nan, 100.0]),
    "inf": np.array([100.0, np.inf]),
    "str": "abc",
    "strlist": ["a", "b"],
    "none": None,
    "nonelist": [None],
    "complex": np.array([100.0 + 1j]),
}
pseudocrit = [(-102.21827232417752, 648.510797253794), (-72.2, 653.26), (0.0, 0.0), (-459.67, 600.0),
              ("a", 650.0), (None, None), (-100.0, -600.0), (np.array([-100.0, -90.0]), 650.0)]

rec("fields", lambda: [(f.name, str(f.type), "MISSING" if f.default is dataclasses.MISSING else repr(f.default)) for f in dataclasses.fields(Fluid)])
rec("public attrs", lambda: sorted(n for n in dir(Fluid) if not n.startswith("_")))
for name, fl in fluids.items():
    if name not in ("arrT", "arrgor"):
        rec(f"{name} repr", repr, fl)
        rec(f"{name} asdict", lambda fl=fl: sorted(dataclasses.asdict(fl).items(), key=lambda kv: kv[0]))
        rec(f"{name} eq", lambda fl=fl: fl == dataclasses.replace(fl))
    rec(f"{name} pbub", fl.pressure_bubblepoint)
    for pn, p in pressures.items():
        rec(f"{name} water_FVF {pn}", fl.water_FVF, p)
        rec(f"{name} water_viscosity {pn}", fl.water_viscosity, p)
        rec(f"{name} oil_FVF {pn}", fl.oil_FVF, p)
        rec(f"{name} oil_viscosity {pn}", fl.oil_viscosity, p)
        for ic, (tpc, ppc) in enumerate(pseudocrit):
            if ic > 1 and name not in ("oil", "gas", "strT", "strsg") :
                continue
            if ic > 1 and pn not in ("arr", "empty", "scalar", "list", "nan"):
                continue
            rec(f"{name} gas_FVF {pn} pc#{ic}", fl.gas_FVF, p, tpc, ppc)
            rec(f"{name} gas_viscosity {pn} pc#{ic}", fl.gas_viscosity, p, tpc, ppc)
fl = fluids["oil"]
rec("kw gas_FVF", fl.gas_FVF, pressure=pressures["two"], temperature_pseudocritical=-102.2,
    pressure_pseudocritical=648.5)
rec("kw gas_viscosity", fl.gas_viscosity, pressure_pseudocritical=648.5, pressure=pressures["two"],
    temperature_pseudocritical=-102.2)
rec("kw water_FVF", fl.water_FVF, pressure=pressures["two"])
rec("kw oil_FVF", fl.oil_FVF, pressure=pressures["two"])
rec("kw oil_viscosity", fl.oil_viscosity, pressure=pressures["two"])
rec("missing gas_FVF", fl.gas_FVF, pressures["two"], -102.2)
rec("extra gas_FVF", fl.gas_FVF, pressures["two"], -102.2, 648.5, 60)
rec("extra water_FVF", fl.water_FVF, pressures["two"], 3)
rec("extra pbub", fl.pressure_bubblepoint, 3)
rec("extra oil_FVF", fl.oil_FVF, pressures["two"], 3)
rec("missing oil_viscosity", fl.oil_viscosity)
rec("Fluid missing", Fluid, 200, 35, 0.8)
rec("Fluid extra", Fluid, 200, 35, 0.8, 650, 0, 0, 0)
# mutated instance: methods must see the current attribute values
mut = Fluid(200, 35, 0.8, 650)
mut.temperature = 300
mut.gas_specific_gravity = 0.7
mut.api_gravity = 42
mut.solution_gor_initial = 900
for pn in ("arr", "scalar"):
    p = pressures[pn]
    rec(f"mut water_FVF {pn}", mut.water_FVF, p)
    rec(f"mut oil_FVF {pn}", mut.oil_FVF, p)
    rec(f"mut oil_viscosity {pn}", mut.oil_viscosity, p)
    rec(f"mut gas_FVF {pn}", mut.gas_FVF, p, -102.2, 648.5)
    rec(f"mut gas_viscosity {pn}", mut.gas_viscosity, p, -102.2, 648.5)
rec("mut pbub", mut.pressure_bubblepoint)
del mut.api_gravity  # falls back to nothing -> AttributeError (no class default)
rec("del pbub", mut.pressure_bubblepoint)
rec("del oil_FVF", mut.oil_FVF, pressures["arr"])
rec("del oil_viscosity", mut.oil_viscosity, pressures["arr"])
rec("del gas_viscosity", mut.gas_viscosity, pressures["two"], -102.2, 648.5)
del mut.gas_specific_gravity
rec("del2 gas_viscosity", mut.gas_viscosity, pressures["two"], -102.2, 648.5)
rec("del2 gas_viscosity empty", mut.gas_viscosity, pressures["empty"], -102.2, 648.5)
rec("del2 gas_FVF", mut.gas_FVF, pressures["two"], -102.2, 648.5)
del mut.temperature
rec("del3 gas_FVF", mut.gas_FVF, pressures["two"], -102.2, 648.5)
rec("del3 gas_FVF empty", mut.gas_FVF, pressures["empty"], -102.2, 648.5)
rec("del3 water_FVF empty", mut.water_FVF, pressures["empty"])
rec("del3 water_FVF", mut.water_FVF, pressures["two"])
rec("del3 water_FVF scalar", mut.water_FVF, 3000.0)
rec("del3 oil_FVF", mut.oil_FVF, pressures["two"])

with open(sys.argv[1], "w") as f:
    f.write("\n".join(out) + "\n")
