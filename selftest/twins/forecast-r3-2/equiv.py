"""Equivalence harness for bluebonnet.forecast.forecast.

Usage: PYTHONPATH=<tree>/src /venv/bin/python equiv.py <outfile>

Calls Bounds and ForecasterOnePhase on a broad set of inputs and writes every
result (floats at full precision, or the exception type) to <outfile>.
"""

from __future__ import annotations

import os
import sys
import warnings

import numpy as np
from scipy.interpolate import interp1d

from bluebonnet.forecast import Bounds, ForecasterOnePhase
from bluebonnet.forecast import forecast as fmod

warnings.simplefilter("ignore")

BB_DATA = os.environ.get("BB_DATA", "/tmp/twin3_forecast/tests/data")

# Cases for which the refactoring replaces one exception by a clearer one:
# only the fact that an exception is raised is recorded.
ANY_EXCEPTION: set[str] = {
    # empty initial guess: IndexError before, clear ValueError after
    "regularize[17]",
    "regularize[25]",
    "regularize[26]",
    "extra.regularize.empty_tuple",
    "extra.regularize.default.empty",
    # forecasting before fitting: AttributeError before, NotFittedError (an AttributeError) after
    "forecast_cum.unfitted",
    "forecast_cum.unfitted.M",
    "forecast_cum.unfitted.tau",
    "forecast_cum.manual_M_only",
    "forecast_cum.manual_tau_only",
    "extra.unfitted.scalar",
    "extra.unfitted.after_failed_fit",
    # empty production history: IndexError/KeyError before, clear ValueError after
    "fit.odd[empty]",
    "fit.odd[empty.fixed]",
    "fit.odd[empty_lists]",
    "fit.odd[empty_lists.fixed]",
    "fit.odd[empty_time]",
    "fit.odd[empty_cum]",
    "fit.odd[empty_cum.fixed]",
    "extra.fit.empty_series",
    "extra.fit.empty_series.fixed",
    "extra.fit.empty_dict",
    "extra.fit.shape0x5",
    "extra.fit.0d",
    "extra.fit.0d.fixed",
}

lines: list[str] = []


def fmt(x):
    """Full-precision, type-stable representation."""
    if isinstance(x, np.ndarray):
        return (
            f"ndarray{x.shape}:{x.dtype}["
            + ",".join(fmt(v) for v in x.ravel().tolist())
            + "]"
        )
    if isinstance(x, (float, np.floating)):
        return repr(float(x))
    if isinstance(x, (bool, np.bool_)):
        return repr(bool(x))
    if isinstance(x, (int, np.integer)):
        return "int:" + repr(int(x))
    if isinstance(x, tuple):
        return "(" + ",".join(fmt(v) for v in x) + ")"
    if isinstance(x, list):
        return "[" + ",".join(fmt(v) for v in x) + "]"
    if x is None:
        return "None"
    return type(x).__name__ + ":" + repr(x)


def record(label, thunk):
    try:
        out = fmt(thunk())
    except Exception as exc:  # noqa: BLE001
        out = "EXC" if label in ANY_EXCEPTION else "EXC:" + type(exc).__name__
    lines.append(f"{label} = {out}")


# ---------------------------------------------------------------- rf curves
def rf_sqrt(t):
    """Early-time sqrt recovery that saturates at 1 (pure numpy)."""
    return np.minimum(np.sqrt(np.abs(t)) * 0.6, 1.0)


def rf_exp(t):
    """Smooth saturating recovery curve."""
    return 1.0 - np.exp(-1.7 * np.sqrt(np.abs(t)))


_t_tab = np.linspace(0.0, 8.0, 161) ** 2
rf_interp = interp1d(
    _t_tab, 1.0 - np.exp(-np.sqrt(_t_tab)), bounds_error=False, fill_value=(0.0, 1.0)
)


def rf_ideal():
    """Recovery-factor interpolator of the library's own ideal reservoir."""
    from bluebonnet.flow import IdealReservoir

    ts = np.linspace(0, np.sqrt(6.0), 400) ** 2
    res = IdealReservoir(30, 500.0, 5000.0, None)
    res.simulate(ts)
    res.recovery_factor()
    return res.recovery_factor_interpolator()


RF = {"sqrt": rf_sqrt, "exp": rf_exp, "interp": rf_interp, "ideal": rf_ideal()}


# ------------------------------------------------------------------- Bounds
def bounds_cases():
    good = [
        ((0, 1), (2, 3)),
        ((0.0, np.inf), (1e-10, np.inf)),
        ((10.0, 500.0), (0.5, 40.0)),
        ([1, 2], [3, 4]),
        ((-5, 5), (-1, 1)),
        (np.array([1.0, 9.0]), np.array([0.1, 0.2])),
    ]
    bad = [
        ((1, 2, 3), (0, 1)),
        ((1, 2), (1,)),
        ((1, 0), (0, 1)),
        ((0, 1), (20, 10)),
        ((1, 1), (0, 1)),
        ((0, 1), (2, 2)),
        ((), (0, 1)),
        (3.0, (0, 1)),
        ((0, 1), None),
        (("a", "b"), (0, 1)),
        ((np.nan, 1.0), (0, 1)),
    ]
    for i, (M, tau) in enumerate(good + bad):
        record(f"bounds[{i}].fit_bounds", lambda M=M, tau=tau: Bounds(M=M, tau=tau).fit_bounds())
    record("bounds.positional", lambda: Bounds((0, 1), (2, 3)).fit_bounds())
    record("bounds.missing", lambda: Bounds(M=(0, 1)))
    b = Bounds(M=(0, 1), tau=(2, 3))
    record("bounds.repr", lambda: repr(b))
    record("bounds.eq", lambda: b == Bounds(M=(0, 1), tau=(2, 3)))
    record("bounds.ne", lambda: b == Bounds(M=(0, 2), tau=(2, 3)))
    record("bounds.hash", lambda: hash(b) == hash(Bounds(M=(0, 1), tau=(2, 3))))

    def setattr_frozen():
        b.M = (1, 2)

    record("bounds.frozen", setattr_frozen)
    record("bounds.default", lambda: fmod._default_bounds.fit_bounds())
    record("bounds.default.repr", lambda: repr(fmod._default_bounds))

    bb = Bounds(M=(10.0, 500.0), tau=(0.5, 40.0))
    guesses = [
        [100.0, 5.0],
        [1.0, 5.0],
        [1000.0, 5.0],
        [100.0, 0.1],
        [100.0, 90.0],
        [1.0, 0.1],
        [1e9, 1e9],
        [10.0, 0.5],
        [500.0, 40.0],
        [100.0],
        [1.0],
        [1000.0],
        [1, 2, 3],
        [1000, 2, 3],
        [np.nan, np.nan],
        [np.inf, -np.inf],
        [-np.inf, np.inf],
        [],
        (1.0, 5.0),
        (100.0, 5.0),
        "ab",
        None,
        5.0,
        np.array([1.0, 100.0]),
        np.array([1000.0]),
        np.array([]),
        np.array(3.0),
    ]
    for i, g in enumerate(guesses):

        def thunk(g=g):
            out = bb.regularize_initial_guess(g)
            return (out is g, out)

        record(f"regularize[{i}]", thunk)
    for i, g in enumerate(([1.0, 1e-20], [-3.0, 4.0], [np.inf, np.inf], [5.0])):
        record(
            f"regularize.default[{i}]",
            lambda g=g: fmod._default_bounds.regularize_initial_guess(list(g)),
        )


# ------------------------------------------------------------ forecast_cum
def forecast_cases():
    times = {
        "arr": np.linspace(0.0, 30.0, 7),
        "sq": np.linspace(0.0, 3.0, 9) ** 2,
        "int": np.arange(0, 12, 3),
        "scalar": 2.5,
        "npscalar": np.float64(4.0),
        "zero": 0.0,
        "2d": np.arange(6.0).reshape(2, 3),
        "empty": np.array([]),
        "neg": np.array([-1.0, 0.0, 1.0]),
        "nan": np.array([0.0, np.nan, 2.0]),
        "inf": np.array([1.0, np.inf]),
        "list": [0.0, 1.0, 2.0],
        "str": "abc",
        "none": None,
    }
    for rname, rf in RF.items():
        fc = ForecasterOnePhase(rf)
        for tname, t in times.items():
            for M, tau in ((300.0, 3.0), (1, 2), (0.0, 1.0), (-2.0, 0.5), (7.0, np.inf)):
                record(
                    f"forecast_cum[{rname},{tname},M={M},tau={tau}]",
                    lambda fc=fc, t=t, M=M, tau=tau: fc.forecast_cum(t, M, tau),
                )
            record(
                f"forecast_cum.kw[{rname},{tname}]",
                lambda fc=fc, t=t: fc.forecast_cum(time_on_production=t, tau=1.5, M=12.0),
            )
    fc = ForecasterOnePhase(rf_exp)
    t = np.linspace(0.0, 10.0, 5)
    record("forecast_cum.tau0", lambda: fc.forecast_cum(t, 1.0, 0.0))
    record("forecast_cum.tau0.scalar", lambda: fc.forecast_cum(1.0, 1.0, 0.0))
    record("forecast_cum.tau0.int", lambda: fc.forecast_cum(1, 1, 0))
    record("forecast_cum.taunan", lambda: fc.forecast_cum(t, 1.0, np.nan))
    record("forecast_cum.Mstr", lambda: fc.forecast_cum(t, "a", 1.0))
    record("forecast_cum.Marr", lambda: fc.forecast_cum(t, np.arange(5.0), 2.0))
    record("forecast_cum.tauarr", lambda: fc.forecast_cum(t, 3.0, np.arange(1.0, 6.0)))
    # not fitted yet
    record("forecast_cum.unfitted", lambda: ForecasterOnePhase(rf_exp).forecast_cum(t))
    record("forecast_cum.unfitted.M", lambda: ForecasterOnePhase(rf_exp).forecast_cum(t, M=2.0))
    record("forecast_cum.unfitted.tau", lambda: ForecasterOnePhase(rf_exp).forecast_cum(t, tau=2.0))
    record("forecast_cum.unfitted.both", lambda: ForecasterOnePhase(rf_exp).forecast_cum(t, 1.0, 2.0))

    def manual_attrs():
        f = ForecasterOnePhase(rf_exp)
        f.M_ = 40.0
        f.tau_ = 2.0
        return (f.forecast_cum(t), f.forecast_cum(t, M=1.0), f.forecast_cum(t, tau=9.0))

    record("forecast_cum.manual_attrs", manual_attrs)

    def manual_M_only():
        f = ForecasterOnePhase(rf_exp)
        f.M_ = 40.0
        return f.forecast_cum(t)

    record("forecast_cum.manual_M_only", manual_M_only)

    def manual_tau_only():
        f = ForecasterOnePhase(rf_exp)
        f.tau_ = 40.0
        return f.forecast_cum(t)

    record("forecast_cum.manual_tau_only", manual_tau_only)
    record("forecast_cum.rf_not_callable", lambda: ForecasterOnePhase(3.0).forecast_cum(t, 1.0, 1.0))
    record("forecast_cum.too_many", lambda: fc.forecast_cum(t, 1.0, 1.0, 2.0))
    record("forecast_cum.no_time", lambda: fc.forecast_cum())
    record("private._forecast_cum_onephase", lambda: fmod._forecast_cum_onephase(rf_exp, t, 3.0, 2.0))
    record("forecaster.repr.bounds", lambda: repr(ForecasterOnePhase(rf_exp).bounds))
    record("forecaster.eq", lambda: ForecasterOnePhase(rf_exp) == ForecasterOnePhase(rf_exp))
    record("forecaster.ne", lambda: ForecasterOnePhase(rf_exp) == ForecasterOnePhase(rf_sqrt))
    record("forecaster.vars", lambda: sorted(vars(ForecasterOnePhase(rf_exp))))
    record("forecaster.no_rf", lambda: ForecasterOnePhase())
    record("forecaster.default_bounds_is_shared", lambda: ForecasterOnePhase(rf_exp).bounds is fmod._default_bounds)


# --------------------------------------------------------------------- fit
def fit_result(fc, t_new):
    return (
        fc.M_,
        fc.tau_,
        fc.forecast_cum(t_new),
        fc.forecast_cum(t_new, M=2.0),
        fc.forecast_cum(t_new, tau=3.0),
        sorted(vars(fc)),
        fc.time_on_production,
        fc.cum_production,
    )


def fit_cases():
    t_new = np.linspace(0.0, 50.0, 6)
    t1 = np.linspace(0.0, np.sqrt(12.0), 60) ** 2
    t2 = np.linspace(0.1, 30.0, 25)
    rng = np.random.default_rng(1234)
    for rname, rf in RF.items():
        for tname, t in (("t1", t1), ("t2", t2)):
            for M_true, tau_true in ((300.0, 3.0), (12.5, 20.0), (4000.0, 0.8)):
                cum = M_true * rf(t / tau_true)
                noisy = cum * (1.0 + 0.02 * rng.standard_normal(len(t)))
                key = f"{rname},{tname},M={M_true},tau={tau_true}"

                def free(rf=rf, t=t, cum=cum):
                    fc = ForecasterOnePhase(rf)
                    ret = fc.fit(t, cum)
                    return (ret, fit_result(fc, t_new))

                record(f"fit.free[{key}]", free)

                def free_noisy(rf=rf, t=t, cum=noisy):
                    fc = ForecasterOnePhase(rf)
                    fc.fit(t, cum)
                    return fit_result(fc, t_new)

                record(f"fit.free.noisy[{key}]", free_noisy)

                def fixed(rf=rf, t=t, cum=noisy, tau=tau_true):
                    fc = ForecasterOnePhase(rf)
                    ret = fc.fit(t, cum, tau)
                    return (ret, fit_result(fc, t_new))

                record(f"fit.fixed[{key}]", fixed)

                def fixed_kw(rf=rf, t=t, cum=cum, tau=tau_true):
                    fc = ForecasterOnePhase(rf)
                    fc.fit(time_on_production=t, cum_production=cum, tau=tau * 1.3)
                    return fit_result(fc, t_new)

                record(f"fit.fixed.kw[{key}]", fixed_kw)

                def bounded(rf=rf, t=t, cum=noisy):
                    fc = ForecasterOnePhase(rf, Bounds(M=(10.0, 500.0), tau=(0.5, 10.0)))
                    fc.fit(t, cum)
                    return fit_result(fc, t_new)

                record(f"fit.bounded[{key}]", bounded)

                def bounded_fixed(rf=rf, t=t, cum=noisy):
                    fc = ForecasterOnePhase(rf, bounds=Bounds(M=(10.0, 500.0), tau=(0.5, 10.0)))
                    fc.fit(t, cum, 2.0)
                    return fit_result(fc, t_new)

                record(f"fit.bounded.fixed[{key}]", bounded_fixed)

    # refit reuses the instance
    def refit():
        fc = ForecasterOnePhase(rf_exp)
        fc.fit(t1, 50.0 * rf_exp(t1 / 2.0))
        a = (fc.M_, fc.tau_)
        fc.fit(t2, 80.0 * rf_exp(t2 / 5.0), 5.0)
        return (a, fit_result(fc, t_new))

    record("fit.refit", refit)

    # odd but working / failing inputs
    cum1 = 300.0 * rf_exp(t1 / 3.0)
    odd = {
        "lists": (list(t2), list(80.0 * rf_exp(t2 / 5.0)), None),
        "lists.fixed": (list(t2), list(80.0 * rf_exp(t2 / 5.0)), 5.0),
        "int_arrays": (np.arange(1, 20), np.arange(1, 20) * 3, None),
        "int_arrays.fixed": (np.arange(1, 20), np.arange(1, 20) * 3, 7),
        "two_points": (np.array([1.0, 2.0]), np.array([1.0, 1.3]), None),
        "one_point": (np.array([1.0]), np.array([1.0]), None),
        "one_point.fixed": (np.array([1.0]), np.array([1.0]), 2.0),
        "empty": (np.array([]), np.array([]), None),
        "empty.fixed": (np.array([]), np.array([]), 2.0),
        "empty_lists": ([], [], None),
        "empty_lists.fixed": ([], [], 1.0),
        "empty_time": (np.array([]), np.array([1.0, 2.0]), None),
        "empty_cum": (np.array([1.0, 2.0]), np.array([]), None),
        "empty_cum.fixed": (np.array([1.0, 2.0]), np.array([]), 3.0),
        "mismatch": (t1, cum1[:-3], None),
        "mismatch.fixed": (t1, cum1[:-3], 3.0),
        "nan_time": (np.where(np.arange(60) == 5, np.nan, t1), cum1, None),
        "nan_cum": (t1, np.where(np.arange(60) == 5, np.nan, cum1), None),
        "nan_cum.fixed": (t1, np.where(np.arange(60) == 5, np.nan, cum1), 3.0),
        "inf_cum": (t1, np.where(np.arange(60) == 59, np.inf, cum1), None),
        "zero_cum": (t1, np.zeros_like(t1), None),
        "zero_cum.fixed": (t1, np.zeros_like(t1), 3.0),
        "neg_cum": (t1, -cum1, None),
        "neg_cum.fixed": (t1, -cum1, 3.0),
        "zero_time": (np.zeros(10), np.linspace(0, 1, 10), None),
        "scalars": (1.0, 2.0, None),
        "scalars.fixed": (1.0, 2.0, 1.0),
        "none": (None, None, None),
        "strings": ("abc", "def", None),
        "tau0": (t1, cum1, 0.0),
        "tau_neg": (t1, cum1, -3.0),
        "tau_nan": (t1, cum1, np.nan),
        "tau_inf": (t1, cum1, np.inf),
        "tau_str": (t1, cum1, "x"),
        "tau_int": (t1, cum1, 3),
        "2d": (t1.reshape(6, 10), cum1.reshape(6, 10), None),
    }
    for name, (t, c, tau) in odd.items():

        def thunk(t=t, c=c, tau=tau):
            fc = ForecasterOnePhase(rf_exp)
            fc.fit(t, c, tau)
            return fit_result(fc, t_new)

        record(f"fit.odd[{name}]", thunk)

    # tight bounds where the raw initial guess lies outside the box
    for i, b in enumerate(
        (
            Bounds(M=(1000.0, 2000.0), tau=(100.0, 200.0)),
            Bounds(M=(1.0, 2.0), tau=(0.1, 0.2)),
            Bounds(M=(0.0, 1e4), tau=(1e-3, 1.0)),
            Bounds(M=(0, np.inf), tau=(1e-10, np.inf)),
            Bounds(M=[250.0, 350.0], tau=[1.0, 9.0]),
        )
    ):
        for tau in (None, 3.0):

            def thunk(b=b, tau=tau):
                fc = ForecasterOnePhase(rf_exp, b)
                fc.fit(t1, cum1, tau)
                return fit_result(fc, t_new)

            record(f"fit.tight[{i},tau={tau}]", thunk)

    def bad_bounds_obj():
        fc = ForecasterOnePhase(rf_exp, None)
        fc.fit(t1, cum1)

    record("fit.bounds_none", bad_bounds_obj)

    def bad_rf():
        fc = ForecasterOnePhase(lambda t: "x")
        fc.fit(t1, cum1)

    record("fit.rf_bad", bad_rf)

    def rf_nan():
        fc = ForecasterOnePhase(lambda t: np.full_like(t, np.nan))
        fc.fit(t1, cum1)

    record("fit.rf_nan", rf_nan)

    def rf_counter():
        calls = []

        def rf(t):
            calls.append(np.shape(t))
            return rf_exp(t)

        fc = ForecasterOnePhase(rf)
        fc.fit(t1, cum1)
        n_free = len(calls)
        fc.fit(t1, cum1, 3.0)
        return (n_free, len(calls), fc.M_, fc.tau_)

    record("fit.rf_call_count", rf_counter)
    record("fit.too_many", lambda: ForecasterOnePhase(rf_exp).fit(t1, cum1, 3.0, 4.0))
    record("fit.missing", lambda: ForecasterOnePhase(rf_exp).fit(t1))

    # a real production-like table from the test data directory
    def from_table():
        import pandas as pd

        pvt = pd.read_csv(os.path.join(BB_DATA, "pvt_gas.csv"))
        col = pvt.select_dtypes("number").iloc[:, 0].to_numpy(dtype=float)
        t = np.linspace(1.0, 400.0, len(col))
        cum = 900.0 * rf_exp(t / 150.0) * (1.0 + 1e-3 * np.sin(col))
        fc = ForecasterOnePhase(RF["ideal"])
        fc.fit(t, cum)
        return fit_result(fc, t_new)

    record("fit.table", from_table)


def extra_cases():
    """Inputs around the new validation: everything that worked must still work."""
    import pandas as pd

    t_new = np.linspace(0.0, 50.0, 6)
    t = np.linspace(0.1, 30.0, 25)
    cum = 80.0 * rf_exp(t / 5.0)
    bb = Bounds(M=(10.0, 500.0), tau=(0.5, 40.0))
    record("extra.regularize.empty_tuple", lambda: bb.regularize_initial_guess(()))
    record("extra.regularize.default.empty", lambda: fmod._default_bounds.regularize_initial_guess([]))
    record("extra.regularize.len1_tuple_ok", lambda: bb.regularize_initial_guess((100.0,)))
    record("extra.regularize.len1_tuple_bad", lambda: bb.regularize_initial_guess((1.0,)))
    record("extra.regularize.dict", lambda: bb.regularize_initial_guess({0: 1.0, 1: 99.0}))
    record("extra.regularize.series", lambda: bb.regularize_initial_guess(pd.Series([1.0, 99.0])).tolist())
    record("extra.unfitted.scalar", lambda: ForecasterOnePhase(rf_exp).forecast_cum(3.0))

    def still_attribute_error():
        try:
            ForecasterOnePhase(rf_exp).forecast_cum(t)
        except AttributeError:
            return "caught as AttributeError"
        return "not raised"

    record("extra.unfitted.is_attribute_error", still_attribute_error)

    def after_failed_fit():
        fc = ForecasterOnePhase(rf_exp)
        try:
            fc.fit(t, cum[:-2])
        except ValueError:
            pass
        return fc.forecast_cum(t)

    record("extra.unfitted.after_failed_fit", after_failed_fit)

    def none_attrs():
        fc = ForecasterOnePhase(rf_exp)
        fc.M_ = None
        fc.tau_ = None
        return fc.forecast_cum(t)

    record("extra.fitted_attrs_none", none_attrs)

    class Sub(ForecasterOnePhase):
        M_ = 5.0
        tau_ = 2.0

    record("extra.class_level_attrs", lambda: Sub(rf_exp).forecast_cum(t_new))

    def series(tau):
        fc = ForecasterOnePhase(rf_exp)
        fc.fit(pd.Series(t), pd.Series(cum), tau)
        return (fc.M_, fc.tau_)

    record("extra.fit.series", lambda: series(None))
    record("extra.fit.series.fixed", lambda: series(5.0))

    def frame_cols(tau):
        df = pd.DataFrame({"t": t, "q": cum}, index=np.arange(len(t)) - len(t))
        fc = ForecasterOnePhase(rf_exp)
        fc.fit(df["t"], df["q"], tau)
        return (fc.M_, fc.tau_)

    record("extra.fit.series_negindex", lambda: frame_cols(None))
    record("extra.fit.series_negindex.fixed", lambda: frame_cols(5.0))

    def run(tt, cc, tau=None):
        fc = ForecasterOnePhase(rf_exp)
        fc.fit(tt, cc, tau)
        return (fc.M_, fc.tau_)

    record("extra.fit.empty_series", lambda: run(pd.Series([], dtype=float), pd.Series([], dtype=float)))
    record("extra.fit.empty_series.fixed", lambda: run(pd.Series([], dtype=float), pd.Series([], dtype=float), 2.0))
    record("extra.fit.empty_dict", lambda: run({}, {}))
    record("extra.fit.shape0x5", lambda: run(np.zeros((0, 5)), np.zeros((0, 5))))
    record("extra.fit.shape5x0", lambda: run(np.zeros((5, 0)), np.zeros((5, 0))))
    record("extra.fit.0d", lambda: run(np.array(1.0), np.array(2.0)))
    record("extra.fit.0d.fixed", lambda: run(np.array(1.0), np.array(2.0), 1.0))
    record("extra.fit.empty_time.fixed", lambda: run(np.array([]), np.array([1.0]), 2.0))
    record("extra.fit.empty_time.fixed2", lambda: run(np.array([]), np.array([1.0, 2.0]), 2.0))
    record("extra.fit.tuples", lambda: run(tuple(t), tuple(cum)))
    record("extra.fit.len1_lists", lambda: run([2.0], [3.0]))
    record("extra.fit.len1_lists.fixed", lambda: run([2.0], [3.0], 4.0))
    record("extra.fit.gen", lambda: run((x for x in t), (x for x in cum)))


def main(outfile):
    bounds_cases()
    forecast_cases()
    fit_cases()
    extra_cases()
    with open(outfile, "w") as fh:
        fh.write("\n".join(lines) + "\n")


if __name__ == "__main__":
    main(sys.argv[1])
