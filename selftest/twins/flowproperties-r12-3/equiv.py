"""Equivalence driver for twin3: interp1d defaults spelled out in all constructors."""

from __future__ import annotations

import os
import re
import sys
import warnings

import numpy as np
import pandas as pd

from bluebonnet.flow.flowproperties import (
    FlowProperties,
    FlowPropertiesOnePhase,
    FlowPropertiesSimple,
    FlowPropertiesTwoPhase,
    RelPermParams,
    relative_permeabilities_twophase,
    rescale_pseudopressure,
)

DATA = os.environ.get("BB_DATA", "/tmp/twin12_flowproperties/tests/data")
out = []


def fmt(x):
    if isinstance(x, pd.DataFrame):
        return (
            "DF("
            + ",".join(f"{c}:{fmt(x[c].to_numpy())}" for c in x.columns)
            + f"|idx={list(x.index)!r})"
        )
    if isinstance(x, pd.Series):
        return f"Series(idx={list(x.index)!r}, {fmt(x.to_numpy())})"
    if isinstance(x, np.ndarray):
        return f"nd{x.shape}{x.dtype}[" + ",".join(repr(v) for v in x.ravel().tolist()) + "]"
    if isinstance(x, dict):
        return "{" + ",".join(f"{k!r}:{fmt(v)}" for k, v in x.items()) + "}"
    return f"{type(x).__name__}:{x!r}"


def norm_msg(msg):
    msg = re.sub(r"\{([^}]*)\}", lambda m: "{" + ", ".join(sorted(m.group(1).split(", "))) + "}", msg)
    head = "Need pvt_props to have: "
    if msg.startswith(head):
        msg = head + ", ".join(sorted(msg[len(head) :].split(", ")))
    return msg


def rec(label, fn):
    with warnings.catch_warnings(record=True) as w:
        warnings.simplefilter("always")
        try:
            res = fmt(fn())
        except Exception as e:  # noqa: BLE001
            res = f"EXC {type(e).__name__}: {norm_msg(str(e))}"
    out.append(f"{label} -> {res} | warnings={[i.category.__name__ + ':' + str(i.message) for i in w]}")


def describe(obj, p_probe, m_probe):
    d = {
        "type": type(obj).__name__,
        "m_i": np.asarray(obj.m_i),
        "m_scaled": obj.m_scaled_func(p_probe),
        "alpha": obj.alpha(m_probe),
        "alpha_fill": np.asarray(obj.alpha.fill_value, dtype=float),
        "props": {k: np.asarray(v) for k, v in obj.pvt_props.items()},
        "props_type": type(obj.pvt_props).__name__,
        "repr": repr(obj),
    }
    for name in ("m_scaled_func", "alpha"):
        f = getattr(obj, name)
        d[name + "_x"] = np.asarray(f.x)
        d[name + "_y"] = np.asarray(f.y)
        d[name + "_bounds_error"] = f.bounds_error
        d[name + "_copy"] = f.copy
        d[name + "_sorted_in"] = f.assume_sorted if hasattr(f, "assume_sorted") else None
    return d


ren_gas = {"P": "pressure", "Z-Factor": "z-factor", "Cg": "compressibility", "Viscosity": "viscosity", "Density": "density"}
ren_oil = {"P": "pressure", "Z-Factor": "z-factor", "Co": "compressibility", "Oil_Viscosity": "viscosity", "Oil_Density": "density"}
tables = {
    "gas": pd.read_csv(os.path.join(DATA, "pvt_gas.csv")).rename(columns=ren_gas),
    "oil": pd.read_csv(os.path.join(DATA, "pvt_oil.csv")).rename(columns=ren_oil),
    "ideal": pd.read_csv(os.path.join(DATA, "pvt_ideal_gas.csv")).rename(columns=ren_gas),
    "haynes": pd.read_csv(os.path.join(DATA, "pvt_gas_HAYNESVILLE SHALE_20.csv")).rename(columns=ren_gas),
}
rng = np.random.default_rng(5)
m_probe = np.array([-1.0, 0.0, 1e-6, 0.01, 0.2, 0.5, 0.75, 0.999, 1.0, 1.5, 10.0, np.nan])

for tname, df in tables.items():
    out.append(f"{tname}: columns={sorted(df.columns)} n={len(df)}")
    if "pseudopressure" not in df or "pressure" not in df:
        rec(f"{tname}/unusable", lambda df=df: FlowProperties(df, 5000.0))
        continue
    df = df[df["pressure"] > 0].iloc[::7]
    pmin, pmax = df["pressure"].min(), df["pressure"].max()
    p_probe = np.linspace(pmin, pmax, 17)
    variants = {
        "frame": df,
        "frame_shuffled_rows": df.sample(frac=1.0, random_state=2),
        "frame_reversed": df.iloc[::-1],
        "frame_str_index": df.set_axis([f"r{i}" for i in range(len(df))], axis=0),
        "frame_dup_index": df.set_axis(np.arange(len(df)) // 3, axis=0),
        "frame_perm_index": df.set_axis(rng.permutation(len(df)), axis=0),
        "dict_arrays": {c: df[c].to_numpy() for c in df.columns},
        "dict_series": {c: df[c] for c in df.columns},
        "dict_shuffled_arrays": {c: df.sample(frac=1.0, random_state=9)[c].to_numpy() for c in df.columns},
        "dup_pressure_rows": pd.concat([df, df.iloc[3:5]]),
        "two_rows": df.iloc[:2],
        "one_row": df.iloc[:1],
        "empty": df.iloc[:0],
        "nan_row": df.assign(viscosity=df["viscosity"].where(df["pressure"] != df["pressure"].iloc[4])),
    }
    for vname, tab in variants.items():
        for p_i in (pmax, 0.5 * (pmin + pmax), pmin, float(df["pressure"].iloc[5]), pmax + 1.0, pmin - 1.0, np.nan):
            for cls in (FlowProperties, FlowPropertiesSimple, FlowPropertiesOnePhase):
                if cls is FlowPropertiesOnePhase and vname != "frame":
                    continue
                rec(
                    f"{tname}/{vname}/{cls.__name__}/p_i={p_i!r}",
                    lambda cls=cls, tab=tab, p_i=p_i: describe(cls(tab, p_i), p_probe, m_probe),
                )
        # user-supplied alpha branch
        if isinstance(tab, pd.DataFrame):
            tab_a = tab.assign(alpha=1.0 / (tab["compressibility"] * tab["viscosity"]))[
                ["pressure", "pseudopressure", "alpha"]
            ]
        else:
            tab_a = {
                "pressure": tab["pressure"],
                "pseudopressure": tab["pseudopressure"],
                "alpha": 1.0 / (tab["compressibility"] * tab["viscosity"]),
            }
        for p_i in (pmax, 0.5 * (pmin + pmax), pmax + 1.0):
            rec(
                f"{tname}/{vname}/short/p_i={p_i!r}",
                lambda tab_a=tab_a, p_i=p_i: describe(FlowProperties(tab_a, p_i), p_probe, m_probe),
            )
        # the interpolators own a copy of the table: later edits of the input do not leak
        if isinstance(tab, dict) and vname == "dict_arrays":

            def leak(tab=tab):
                t = {k: v.copy() for k, v in tab.items()}
                obj = FlowProperties(t, pmax)
                simple = FlowPropertiesSimple(t, pmax)
                before = (obj.m_scaled_func(p_probe), obj.alpha(m_probe), simple.alpha(p_probe))
                for v in t.values():
                    v *= 3.0
                after = (obj.m_scaled_func(p_probe), obj.alpha(m_probe), simple.alpha(p_probe))
                return {"before": np.concatenate(before), "after": np.concatenate(after)}

            rec(f"{tname}/{vname}/no_leak", leak)
    # missing columns
    for col in ("pressure", "pseudopressure", "compressibility", "viscosity", "z-factor"):
        rec(f"{tname}/missing/{col}/FlowProperties", lambda col=col: FlowProperties(df.drop(columns=[col]), pmax))
        rec(f"{tname}/missing/{col}/Simple", lambda col=col: FlowPropertiesSimple(df.drop(columns=[col]), pmax))
    rec(f"{tname}/not_a_table", lambda: FlowProperties(None, pmax))
    rec(f"{tname}/string_p_i", lambda: FlowProperties(df, "high"))
    rec(f"{tname}/array_p_i", lambda: describe(FlowProperties(df, np.array([pmin, pmax])), p_probe, m_probe))

    # rescale_pseudopressure
    for vname in ("frame", "frame_shuffled_rows", "frame_str_index", "frame_dup_index", "frame_perm_index", "dup_pressure_rows", "two_rows", "one_row", "dict_arrays"):
        tab = variants[vname]
        for p_frac, p_i in ((pmin, pmax), (0.25 * pmax, 0.75 * pmax), (pmax, pmin), (pmin, pmin), (pmin - 5, pmax), (pmin, pmax + 5)):
            before = fmt(tab) if isinstance(tab, pd.DataFrame) else None
            rec(f"{tname}/rescale/{vname}/{p_frac!r}/{p_i!r}", lambda tab=tab, p_frac=p_frac, p_i=p_i: rescale_pseudopressure(tab, p_frac, p_i))
            if before is not None and fmt(tab) != before:
                out.append("INPUT MUTATED")

# two-phase from_table
df_pvt = pd.read_csv(os.path.join(DATA, "pvt_multiphase_oil.csv")).drop(columns=["Unnamed: 0"])
dens = {"rho_o0": 141.5 / (45 + 131.5), "rho_g0": 1.03e-3, "rho_w0": 1}
prm = RelPermParams(2, 3, 1.5, 0.05, 0.1, 0.02, 0.9, 0.5, 0.8)
df_kr = relative_permeabilities_twophase(prm, 0.1)
p_probe = np.linspace(0, 9000, 19)
pvt_variants = {
    "frame": df_pvt,
    "every_5th": df_pvt.iloc[::5],
    "shuffled_rows": df_pvt.sample(frac=1.0, random_state=4),
    "str_index": df_pvt.set_axis([f"r{i}" for i in range(len(df_pvt))], axis=0),
    "dup_index": df_pvt.set_axis(np.arange(len(df_pvt)) // 4, axis=0),
    "dict_arrays": {c: df_pvt[c].to_numpy() for c in df_pvt.columns},
    "rescaled": rescale_pseudopressure(df_pvt, 1000.0, 8000.0),
}
kr_variants = {
    "frame": df_kr,
    "shuffled_rows": df_kr.sample(frac=1.0, random_state=8),
    "str_index": df_kr.set_axis([f"k{i}" for i in range(len(df_kr))], axis=0),
    "dict_arrays": {c: df_kr[c].to_numpy() for c in df_kr.columns},
    "short_range": df_kr.iloc[10:30],
}
for pv, tab in pvt_variants.items():
    for kv, ktab in kr_variants.items():
        for p_i in (8000.0, 9000.0, 9000.5):

            def build(tab=tab, ktab=ktab, p_i=p_i):
                obj = FlowPropertiesTwoPhase.from_table(tab, ktab, dens, 0.1, 0.1, p_i)
                d = describe(obj, p_probe, m_probe)
                d["pvt_eval"] = {
                    k: (np.asarray(v(np.array([-10.0, 0.0, 1234.5, 9000.0, 12000.0]))) if callable(v) else np.asarray(v))
                    for k, v in sorted(obj.pvt.items())
                }
                d["kr_eval"] = {k: v(np.linspace(0.0, 0.9, 7)) if kv != "short_range" else v(np.linspace(0.2, 0.5, 7)) for k, v in sorted(obj.kr.items())}
                d["kr_flags"] = {k: np.array([v.bounds_error, v.copy]) for k, v in sorted(obj.kr.items())}
                d["pvt_flags"] = {k: np.array([v.bounds_error, v.copy]) for k, v in sorted(obj.pvt.items()) if callable(v)}
                return d

            rec(f"twophase/{pv}/{kv}/p_i={p_i}", build)
rec("twophase/kr_out_of_range", lambda: FlowPropertiesTwoPhase.from_table(df_pvt, df_kr, dens, 0.1, 0.1, 8000.0).kr["kro"](0.95))
rec("twophase/missing_pvt", lambda: FlowPropertiesTwoPhase.from_table(df_pvt.drop(columns=["Bo"]), df_kr, dens, 0.1, 0.1, 8000.0))
rec("twophase/missing_kr", lambda: FlowPropertiesTwoPhase.from_table(df_pvt, df_kr.drop(columns=["Sg"]), dens, 0.1, 0.1, 8000.0))

with open(sys.argv[1], "w") as f:
    f.write("\n".join(out) + "\n")
