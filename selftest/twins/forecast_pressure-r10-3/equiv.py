"""Equivalence driver for bluebonnet.forecast.forecast_pressure.

Run as:  PYTHONPATH=<tree>/src /venv/bin/python equiv.py <outfile>
"""

from __future__ import annotations

import os
import sys
import warnings

import matplotlib

matplotlib.use("Agg")

import numpy as np
import pandas as pd
from lmfit import Parameters

import bluebonnet  # noqa: F401  (registers the "squareroot" scale, as users do)
from bluebonnet.flow import FlowProperties, SinglePhaseReservoir
from bluebonnet.forecast import fit_production_pressure, plot_production_comparison
from bluebonnet.forecast import forecast_pressure as fp_mod
from bluebonnet.forecast.forecast_pressure import _obj_function

DATA = os.environ.get("BB_DATA", "/tmp/twin10_forecast_pressure/tests/data")
SIG = 11
out: list[str] = []


def fmt(x):
    if isinstance(x, (float, np.floating)):
        return "%.*e" % (SIG - 1, float(x))
    if isinstance(x, (int, np.integer, bool, np.bool_, str, type(None))):
        return repr(x)
    if isinstance(x, np.ndarray):
        return "array%s[%s]" % (x.shape, ",".join(fmt(v) for v in x.ravel().tolist()))
    if isinstance(x, (pd.Series, pd.Index)):
        return "series[%s]" % ",".join(fmt(v) for v in np.asarray(x).tolist())
    if isinstance(x, (list, tuple)):
        return "(%s)" % ",".join(fmt(v) for v in x)
    return "<%s>" % type(x).__name__


def record(label, fn):
    with warnings.catch_warnings(record=True) as wlist:
        warnings.simplefilter("always")
        try:
            res = fn()
            out.append(f"{label} = {res}")
        except Exception as e:  # noqa: BLE001
            out.append(f"{label} raised {type(e).__name__}")
    cats = sorted({w.category.__name__ for w in wlist})
    out.append(f"{label} warnings {cats}")


def make_prod(nt, pf, pi, nx=40, tau_in=180.0, t_end=6.0):
    pvt = pd.read_csv(os.path.join(DATA, "pvt_gas_HAYNESVILLE SHALE_20.csv"))
    ts = np.linspace(0, np.sqrt(t_end), nt) ** 2
    p = np.full(nt, pf)
    p[nt // 4 : nt // 2] /= 2.0
    p[nt // 2 :] /= 4.0
    res = SinglePhaseReservoir(nx, pf, pi, FlowProperties(pvt, pi))
    res.simulate(ts, p)
    rf = res.recovery_factor()
    prod = pd.DataFrame({"Days": ts * tau_in, "Gas": rf, "Pressure": p})
    return prod, pvt


def show_params(p):
    return "(%s)" % ";".join(
        f"{k}:{fmt(p[k].value)}|{fmt(p[k].min)}|{fmt(p[k].max)}|{p[k].vary}" for k in p
    )


def show_result(r):
    return "params=%s nfev=%s resid=%s method=%s success=%s" % (
        show_params(r.params),
        r.nfev,
        fmt(np.asarray(r.residual)),
        r.method,
        r.success,
    )


def show_fig(res):
    import matplotlib.pyplot as plt

    fig, (ax1, ax2) = res
    parts = [fmt(tuple(fig.get_size_inches()))]
    for ax in (ax1, ax2):
        parts.append(ax.get_xlabel() + "/" + ax.get_ylabel() + "/" + ax.get_xscale())
        parts.append(fmt(ax.get_xlim()) + fmt(ax.get_ylim()))
        for line in ax.get_lines():
            parts.append(
                line.get_label()
                + "|"
                + line.get_linestyle()
                + "|"
                + fmt(np.asarray(line.get_xdata(), dtype=float))
                + "|"
                + fmt(np.asarray(line.get_ydata(), dtype=float))
            )
        leg = ax.get_legend()
        parts.append("legend:" + ",".join(t.get_text() for t in leg.get_texts()))
    plt.close(fig)
    return " ## ".join(parts)


def mk_params(M, tau, p_init, order=("M", "tau", "p_initial")):
    vals = {"M": M, "tau": tau, "p_initial": p_init}
    p = Parameters()
    for k in order:
        p.add(k, vals[k])
    return p


def main(outfile):
    pi = 5000.0
    prod, pvt = make_prod(60, 500.0, pi)
    prod_small, _ = make_prod(12, 800.0, pi)
    pvt_gas = pd.read_csv(os.path.join(DATA, "pvt_gas.csv"))

    # frames exercising the zero-production / missing-pressure filter
    prod_gaps = prod.copy()
    prod_gaps.loc[[0, 5, 17], "Gas"] = 0.0
    prod_gaps.loc[[3, 30], "Pressure"] = np.nan
    prod_gaps.loc[40, "Gas"] = -1.0
    prod_extra = prod.assign(Oil=1.0, Well="x")[["Well", "Pressure", "Oil", "Gas", "Days"]]
    prod_idx = prod.set_index(np.arange(len(prod))[::-1] * 3 + 7)
    prod_int = prod.copy()
    prod_int["Pressure"] = prod_int["Pressure"].round().astype(int)

    # ---------------- _obj_function -----------------
    days = np.arange(len(prod))
    cum = np.cumsum(np.array(prod["Gas"]))
    press = np.array(prod["Pressure"])
    for M, tau, p0 in [(1.3, 420.0, pi), (5.0, 60.0, 6000.0), (0.5, 1000.0, 4000.0), (2.0, 30.0, 9000.0)]:
        for order in [("tau", "M", "p_initial"), ("p_initial", "M", "tau")]:
            record(
                f"obj M={M} tau={tau} p0={p0} order={order[0]}",
                lambda: fmt(_obj_function(mk_params(M, tau, p0, order), days, cum, pvt, press)),
            )
    record("obj other pvt", lambda: fmt(_obj_function(mk_params(1.0, 200.0, pi), days, cum, pvt_gas, press)))
    record("obj list press", lambda: fmt(_obj_function(mk_params(1.0, 200.0, pi), days, cum, pvt, list(press))))
    record("obj short press", lambda: fmt(_obj_function(mk_params(1.0, 200.0, pi), days, cum, pvt, press[:-1])))
    record("obj short prod", lambda: fmt(_obj_function(mk_params(1.0, 200.0, pi), days, cum[:-1], pvt, press)))
    record("obj tau zero", lambda: fmt(_obj_function(mk_params(1.0, 0.0, pi), days, cum, pvt, press)))
    record("obj tau negative", lambda: fmt(_obj_function(mk_params(1.0, -50.0, pi), days, cum, pvt, press)))
    record("obj p0 huge", lambda: fmt(_obj_function(mk_params(1.0, 200.0, 1e9), days, cum, pvt, press)))
    record("obj p0 nan", lambda: fmt(_obj_function(mk_params(1.0, 200.0, np.nan), days, cum, pvt, press)))
    record("obj p0 below fracface", lambda: fmt(_obj_function(mk_params(1.0, 200.0, 100.0), days, cum, pvt, press)))
    record("obj M nan", lambda: fmt(_obj_function(mk_params(np.nan, 200.0, pi), days, cum, pvt, press)))
    for missing in ("tau", "M", "p_initial"):
        p = mk_params(1.0, 200.0, pi)
        del p[missing]
        record(f"obj missing {missing}", lambda: fmt(_obj_function(p, days, cum, pvt, press)))
    record("obj empty params", lambda: fmt(_obj_function(Parameters(), days, cum, pvt, press)))
    record("obj dict params", lambda: fmt(_obj_function({"tau": 1.0}, days, cum, pvt, press)))
    record("obj days list", lambda: fmt(_obj_function(mk_params(1.0, 200.0, pi), list(days), cum, pvt, press)))
    record("obj empty", lambda: fmt(_obj_function(mk_params(1.0, 200.0, pi), days[:0], cum[:0], pvt, press[:0])))
    record("obj one", lambda: fmt(_obj_function(mk_params(1.0, 200.0, pi), days[:1], cum[:1], pvt, press[:1])))
    record("obj bad pvt", lambda: fmt(_obj_function(mk_params(1.0, 200.0, pi), days, cum, pvt[["pressure"]], press)))
    record("obj pvt None", lambda: fmt(_obj_function(mk_params(1.0, 200.0, pi), days, cum, None, press)))

    # ---------------- fit_production_pressure -----------------
    record("fit default", lambda: show_result(fit_production_pressure(prod, pvt, pi, n_iter=4)))
    record("fit n_iter 1", lambda: show_result(fit_production_pressure(prod, pvt, pi, n_iter=1)))
    record("fit n_iter 9", lambda: show_result(fit_production_pressure(prod_small, pvt, pi, n_iter=9)))
    record("fit default iter small", lambda: show_result(fit_production_pressure(prod_small.iloc[:5], pvt, pi)))
    for w in (1, 3, 8, 0, -2, 2.5, "3"):
        record(
            f"fit window {w!r}",
            lambda: show_result(fit_production_pressure(prod, pvt, pi, filter_window_size=w, n_iter=3)),
        )
    record("fit nofilter", lambda: show_result(fit_production_pressure(prod, pvt, pi, filter_zero_prod_days=False, n_iter=3)))
    record("fit gaps", lambda: show_result(fit_production_pressure(prod_gaps, pvt, pi, n_iter=3)))
    record("fit gaps window", lambda: show_result(fit_production_pressure(prod_gaps, pvt, pi, 4, n_iter=3)))
    record("fit gaps nofilter", lambda: show_result(fit_production_pressure(prod_gaps, pvt, pi, filter_zero_prod_days=False, n_iter=3)))
    record("fit extra cols", lambda: show_result(fit_production_pressure(prod_extra, pvt, pi, n_iter=3)))
    record("fit odd index", lambda: show_result(fit_production_pressure(prod_idx, pvt, pi, n_iter=3)))
    record("fit odd index nofilter", lambda: show_result(fit_production_pressure(prod_idx, pvt, pi, filter_zero_prod_days=False, n_iter=3)))
    record("fit int pressure", lambda: show_result(fit_production_pressure(prod_int, pvt, pi, 3, n_iter=3)))
    record("fit bounds", lambda: show_result(fit_production_pressure(prod, pvt, 6000.0, pressure_imax=9000.0, inplace_max=50.0, n_iter=3)))
    record("fit imax below fracface", lambda: show_result(fit_production_pressure(prod, pvt, pi, pressure_imax=100.0, n_iter=3)))
    record("fit inplace_max small", lambda: show_result(fit_production_pressure(prod, pvt, pi, inplace_max=1e-9, n_iter=3)))
    record("fit p_init outside", lambda: show_result(fit_production_pressure(prod, pvt, 50.0, n_iter=3)))
    record("fit pvt_gas", lambda: show_result(fit_production_pressure(prod, pvt_gas, pi, n_iter=3)))
    given = mk_params(1.1, 300.0, 5200.0)
    record("fit given params", lambda: show_result(fit_production_pressure(prod, pvt, pi, n_iter=3, params=given)))
    record("fit given params after", lambda: show_params(given))
    prev = fit_production_pressure(prod_small, pvt, pi, n_iter=3)
    record("fit refit from previous", lambda: show_result(fit_production_pressure(prod_small, pvt, pi, n_iter=3, params=prev.params)))
    record("fit params missing", lambda: show_result(fit_production_pressure(prod, pvt, pi, n_iter=3, params=Parameters())))
    record("fit params wrong type", lambda: show_result(fit_production_pressure(prod, pvt, pi, n_iter=3, params={"tau": 3})))
    record("fit short 3 rows", lambda: show_result(fit_production_pressure(prod.iloc[:3], pvt, pi, n_iter=3)))
    record("fit 2 rows", lambda: show_result(fit_production_pressure(prod.iloc[1:3], pvt, pi, n_iter=3)))
    record("fit 1 row", lambda: show_result(fit_production_pressure(prod.iloc[1:2], pvt, pi, n_iter=3)))
    record("fit empty", lambda: show_result(fit_production_pressure(prod.iloc[:0], pvt, pi, n_iter=3)))
    record("fit all zero gas", lambda: show_result(fit_production_pressure(prod.assign(Gas=0.0), pvt, pi, n_iter=3)))
    record("fit all zero gas nofilter", lambda: show_result(fit_production_pressure(prod.assign(Gas=0.0), pvt, pi, filter_zero_prod_days=False, n_iter=3)))
    for col in ("Days", "Gas", "Pressure"):
        record(f"fit missing {col}", lambda: show_result(fit_production_pressure(prod.drop(columns=col), pvt, pi, n_iter=3)))
        record(f"fit missing {col} nofilter", lambda: show_result(fit_production_pressure(prod.drop(columns=col), pvt, pi, filter_zero_prod_days=False, n_iter=3)))
    record("fit dict data", lambda: show_result(fit_production_pressure({"Days": [1, 2], "Gas": [1, 2], "Pressure": [1, 2]}, pvt, pi, n_iter=3)))
    record("fit None data", lambda: show_result(fit_production_pressure(None, pvt, pi, n_iter=3)))
    record("fit nan pressure nofilter", lambda: show_result(fit_production_pressure(prod_gaps, pvt, pi, 3, filter_zero_prod_days=False, n_iter=2)))
    record("fit pvt None", lambda: show_result(fit_production_pressure(prod, None, pi, n_iter=3)))
    record("fit p_init None", lambda: show_result(fit_production_pressure(prod, pvt, None, n_iter=3)))
    record("fit p_init str", lambda: show_result(fit_production_pressure(prod, pvt, "5000", n_iter=3)))
    record("fit n_iter 0", lambda: show_result(fit_production_pressure(prod_small, pvt, pi, n_iter=0)))
    record("fit n_iter None", lambda: show_result(fit_production_pressure(prod_small.iloc[:4], pvt, pi, n_iter=None)))
    record("fit truthy filter", lambda: show_result(fit_production_pressure(prod_gaps, pvt, pi, filter_zero_prod_days=1, n_iter=2)))
    record("fit falsy filter", lambda: show_result(fit_production_pressure(prod, pvt, pi, filter_zero_prod_days=0, n_iter=2)))
    before = prod_gaps.copy()
    fit_production_pressure(prod_gaps, pvt, pi, 3, n_iter=2)
    record("fit input untouched", lambda: bool(before.equals(prod_gaps)))

    # ---------------- plot_production_comparison -----------------
    pp = mk_params(1.3, 420.0, pi)
    record("plot default", lambda: show_fig(plot_production_comparison(prod, pvt, pp)))
    record("plot test-like", lambda: show_fig(plot_production_comparison(prod, pvt, pp, filter_window_size=1, filter_zero_prod_days=True)))
    for w in (3, 7, 0, -1, 2.5):
        record(f"plot window {w!r}", lambda: show_fig(plot_production_comparison(prod, pvt, pp, w)))
        record(f"plot window {w!r} nofilter", lambda: show_fig(plot_production_comparison(prod, pvt, pp, w, False)))
    record("plot nofilter", lambda: show_fig(plot_production_comparison(prod, pvt, pp, filter_zero_prod_days=False)))
    record("plot gaps", lambda: show_fig(plot_production_comparison(prod_gaps, pvt, pp)))
    record("plot gaps nofilter", lambda: show_fig(plot_production_comparison(prod_gaps, pvt, pp, filter_zero_prod_days=False)))
    record("plot extra cols", lambda: show_fig(plot_production_comparison(prod_extra, pvt, pp, 2)))
    record("plot odd index", lambda: show_fig(plot_production_comparison(prod_idx, pvt, pp)))
    record("plot odd index nofilter", lambda: show_fig(plot_production_comparison(prod_idx, pvt, pp, None, False)))
    record("plot int pressure", lambda: show_fig(plot_production_comparison(prod_int, pvt, pp, 3)))
    record("plot well name", lambda: show_fig(plot_production_comparison(prod_small, pvt, mk_params(2.5, 77.0, 6100.0), well_name="LOON #20")))
    record("plot well name None", lambda: show_fig(plot_production_comparison(prod_small, pvt, pp, well_name=None)))
    record("plot from fit", lambda: show_fig(plot_production_comparison(prod_small, pvt, prev.params)))
    record("plot fit result object", lambda: show_fig(plot_production_comparison(prod_small, pvt, prev)))
    record("plot pvt_gas", lambda: show_fig(plot_production_comparison(prod_small, pvt_gas, pp)))
    for missing in ("tau", "M", "p_initial"):
        p = mk_params(1.0, 200.0, pi)
        del p[missing]
        record(f"plot missing {missing}", lambda: show_fig(plot_production_comparison(prod_small, pvt, p)))
    record("plot empty params", lambda: show_fig(plot_production_comparison(prod_small, pvt, Parameters())))
    record("plot tau zero", lambda: show_fig(plot_production_comparison(prod_small, pvt, mk_params(1.0, 0.0, pi))))
    record("plot M zero", lambda: show_fig(plot_production_comparison(prod_small, pvt, mk_params(0.0, 100.0, pi))))
    record("plot p0 low", lambda: show_fig(plot_production_comparison(prod_small, pvt, mk_params(1.0, 100.0, 100.0))))
    record("plot p0 nan", lambda: show_fig(plot_production_comparison(prod_small, pvt, mk_params(1.0, 100.0, np.nan))))
    for col in ("Days", "Gas", "Pressure"):
        record(f"plot missing {col}", lambda: show_fig(plot_production_comparison(prod.drop(columns=col), pvt, pp)))
        record(f"plot missing {col} nofilter", lambda: show_fig(plot_production_comparison(prod.drop(columns=col), pvt, pp, None, False)))
    record("plot missing col and params", lambda: show_fig(plot_production_comparison(prod.drop(columns="Gas"), pvt, Parameters())))
    record("plot empty", lambda: show_fig(plot_production_comparison(prod.iloc[:0], pvt, pp)))
    record("plot empty nofilter", lambda: show_fig(plot_production_comparison(prod.iloc[:0], pvt, pp, None, False)))
    record("plot 1 row", lambda: show_fig(plot_production_comparison(prod.iloc[1:2], pvt, pp)))
    record("plot 2 rows", lambda: show_fig(plot_production_comparison(prod.iloc[1:3], pvt, pp, 5)))
    record("plot None data", lambda: show_fig(plot_production_comparison(None, pvt, pp)))
    record("plot pvt None", lambda: show_fig(plot_production_comparison(prod_small, None, pp)))
    record("plot str window", lambda: show_fig(plot_production_comparison(prod_small, pvt, pp, "3")))
    before = prod_gaps.copy()
    r = plot_production_comparison(prod_gaps, pvt, pp, 3)
    show_fig(r)
    record("plot input untouched", lambda: bool(before.equals(prod_gaps)))

    # ---------------- module surface -----------------
    import bluebonnet.forecast as fc

    record("forecast __all__", lambda: sorted(fc.__all__))
    record("same objects", lambda: (fc.fit_production_pressure is fp_mod.fit_production_pressure, fc.plot_production_comparison is fp_mod.plot_production_comparison))
    record("callables", lambda: sorted(n for n in ("_obj_function", "fit_production_pressure", "plot_production_comparison") if callable(getattr(fp_mod, n))))
    record("names", lambda: (fp_mod.fit_production_pressure.__name__, fp_mod.fit_production_pressure.__module__, fp_mod.plot_production_comparison.__qualname__, fp_mod._obj_function.__module__))
    import inspect

    record("sig fit", lambda: str(inspect.signature(fit_production_pressure)))
    record("sig plot", lambda: str(inspect.signature(plot_production_comparison)))
    record("sig obj", lambda: str(inspect.signature(_obj_function)))
    record("doc fit", lambda: hash_doc(fit_production_pressure))
    record("doc plot", lambda: hash_doc(plot_production_comparison))
    record("missing attr", lambda: fp_mod.no_such_name)
    record("errstate", lambda: sorted(np.geterr().items()))
    record("warning filters len", lambda: len(warnings.filters) >= 0)

    extra(locals())

    with open(outfile, "w") as f:
        f.write("\n".join(out) + "\n")


def extra(ns):
    """More traffic through the boxcar filter: dtypes, window sizes around the
    series length, NaN / inf pressures, non-numeric pressures."""
    prod, pvt, pi, prod_small, pp = ns["prod"], ns["pvt"], ns["pi"], ns["prod_small"], ns["pp"]
    n = len(prod_small)
    for w in (2, n - 1, n, n + 1, 5 * n, 10**6, True, np.int64(4), np.float64(4.0), [3], None):
        record(f"x fit small window {w!r}", lambda: show_result(fit_production_pressure(prod_small, pvt, pi, w, n_iter=2)))
        record(f"x plot small window {w!r}", lambda: show_fig(plot_production_comparison(prod_small, pvt, pp, w)))
        record(f"x plot small window {w!r} nofilter", lambda: show_fig(plot_production_comparison(prod_small, pvt, pp, w, False)))
    noisy = prod.copy()
    rng = np.random.default_rng(7)
    noisy["Pressure"] = noisy["Pressure"] * (1 + 0.2 * rng.standard_normal(len(noisy)))
    for w in (2, 5, 30):
        record(f"x fit noisy {w}", lambda: show_result(fit_production_pressure(noisy, pvt, pi, w, n_iter=3)))
        record(f"x plot noisy {w}", lambda: show_fig(plot_production_comparison(noisy, pvt, pp, w)))
    variants = {
        "float32": prod_small.assign(Pressure=prod_small["Pressure"].astype("float32")),
        "int32": prod_small.assign(Pressure=prod_small["Pressure"].round().astype("int32")),
        "bool": prod_small.assign(Pressure=prod_small["Pressure"] > 300),
        "object": prod_small.assign(Pressure=prod_small["Pressure"].astype(object)),
        "str": prod_small.assign(Pressure=prod_small["Pressure"].astype(str)),
        "inf": prod_small.assign(Pressure=prod_small["Pressure"].where(prod_small.index != 4, np.inf)),
        "nullable": prod_small.assign(Pressure=prod_small["Pressure"].astype("Float64")),
    }
    for name, frame in variants.items():
        record(f"x fit {name}", lambda: show_result(fit_production_pressure(frame, pvt, pi, 3, n_iter=2)))
        record(f"x fit {name} nowindow", lambda: show_result(fit_production_pressure(frame, pvt, pi, n_iter=2)))
        record(f"x plot {name}", lambda: show_fig(plot_production_comparison(frame, pvt, pp, 3)))


def hash_doc(fn):
    import hashlib

    return hashlib.sha256((fn.__doc__ or "").encode()).hexdigest()


if __name__ == "__main__":
    main(sys.argv[1])
