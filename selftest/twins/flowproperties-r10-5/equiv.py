"""Equivalence driver for bluebonnet.flow.flowproperties (twin round 10).

Usage: PYTHONPATH=<tree>/src /venv/bin/python equiv.py <outfile>

Calls every public function / class of the module on a broad set of inputs and
writes full-precision results (or the exception type) to <outfile>.
"""

from __future__ import annotations

import copy
import logging
import os
import pickle
import subprocess
import sys
import warnings

import numpy as np
import pandas as pd

DATA = os.environ.get("BB_DATA", "/tmp/twin10_flowproperties/tests/data")
OUT: list[str] = []


def fmt(x, depth=0):
    """Full precision, deterministic text for x."""
    if isinstance(x, pd.DataFrame):
        return (
            "DataFrame["
            + ";".join(f"{c}:{x[c].dtype}={fmt(x[c].to_numpy())}" for c in x.columns)
            + f"|index={fmt(np.asarray(x.index))}]"
        )
    if isinstance(x, pd.Series):
        return f"Series[{x.name}:{x.dtype}]=" + fmt(x.to_numpy())
    if isinstance(x, np.ndarray):
        if x.dtype.names:
            return (
                f"recarray{x.shape}["
                + ";".join(f"{n}:{x.dtype[n]}={fmt(np.asarray(x[n]))}" for n in x.dtype.names)
                + "]"
            )
        return f"array{x.shape}:{x.dtype}[" + ",".join(fmt(v) for v in x.ravel().tolist()) + "]"
    if isinstance(x, (float, np.floating)):
        return repr(float(x))
    if isinstance(x, (bool, np.bool_)):
        return repr(bool(x))
    if isinstance(x, (int, np.integer)):
        return repr(int(x))
    if isinstance(x, (list, tuple)):
        return type(x).__name__ + "(" + ",".join(fmt(v) for v in x) + ")"
    if isinstance(x, dict):
        return "{" + ",".join(f"{k!r}:{fmt(v)}" for k, v in sorted(x.items(), key=lambda kv: repr(kv[0]))) + "}"
    if isinstance(x, str) or x is None:
        return repr(x)
    return f"<{type(x).__module__}.{type(x).__name__}>"


def exc_text(e: BaseException) -> str:
    # messages built from set iteration are only defined up to order
    if type(e).__module__ != "builtins":  # e.g. QhullError carries a random run id
        return f"EXC {type(e).__name__}"
    words = sorted(str(e).replace(",", " ").replace("{", " ").replace("}", " ").split())
    return f"EXC {type(e).__name__}: {' '.join(words)}"[:400]


def _where(filename):
    """Name the file a warning is attributed to, independent of this script's name."""
    try:
        if os.path.samefile(filename, __file__):
            return "<driver>"
    except OSError:
        pass
    return os.path.basename(filename)


def rec(label, fn):
    with warnings.catch_warnings(record=True) as wlist:
        warnings.simplefilter("always")
        try:
            res = fmt(fn())
        except Exception as e:  # noqa: BLE001
            res = exc_text(e)
    wtxt = "|".join(
        f"{w.category.__name__}:{w.message}:{_where(w.filename)}" for w in wlist
    )
    OUT.append(f"{label} -> {res} ## warnings[{wtxt}]")


# --------------------------------------------------------------------------- data
gas_rename = {
    "P": "pressure",
    "Z-Factor": "z-factor",
    "Cg": "compressibility",
    "Viscosity": "viscosity",
    "Density": "density",
}
oil_rename = {
    "P": "pressure",
    "Z-Factor": "z-factor",
    "Co": "compressibility",
    "Oil_Viscosity": "viscosity",
    "Oil_Density": "density",
}


def load():
    t = {}
    t["gas"] = pd.read_csv(os.path.join(DATA, "pvt_gas.csv")).rename(columns=gas_rename)
    t["ideal"] = pd.read_csv(os.path.join(DATA, "pvt_ideal_gas.csv")).rename(columns=gas_rename)
    t["oil"] = pd.read_csv(os.path.join(DATA, "pvt_oil.csv")).rename(columns=oil_rename)
    t["hay"] = pd.read_csv(os.path.join(DATA, "pvt_gas_HAYNESVILLE SHALE_20.csv"), index_col=0)
    t["multi"] = pd.read_csv(os.path.join(DATA, "pvt_multiphase_oil.csv"), index_col=0)
    return t


def df_pvt_threephase(Sw=0.1):
    pvt_oil = pd.read_csv(os.path.join(DATA, "pvt_oil.csv"))
    pvt_water = pd.read_csv(os.path.join(DATA, "pvt_water.csv")).rename(
        columns={"T": "temperature", "P": "pressure", "Viscosity": "mu_w"}
    )
    rename_cols = {
        "T": "temperature",
        "P": "pressure",
        "Oil_Viscosity": "mu_o",
        "Gas_Viscosity": "mu_g",
        "Rso": "Rs",
    }
    df = (
        pvt_water.drop(columns=["temperature"])
        .merge(pvt_oil.rename(columns=rename_cols), on="pressure")
        .assign(Rv=0)
    )
    df["So"] = (1 - Sw) / ((df["Rs"].max() - df["Rs"]) * df["Bg"] / df["Bo"] / 5.61458 + 1)
    return df


# ------------------------------------------------------------------- sections
def _try(fn):
    try:
        return fn()
    except Exception as e:  # noqa: BLE001
        return exc_text(e)


def probe_flow(fp, pmax):
    """Everything observable on a FlowProperties-like object."""
    pcol = np.asarray(fp.pvt_props["pressure"], dtype=float)
    pmin, pmax = float(pcol.min()), float(pcol.max())
    ps = pmin + (pmax - pmin) * np.array([0.0, 1e-4, 1e-3, 0.0123456, 0.5, 0.99, 1.0])
    ms = np.array([-1.0, 0.0, 1e-9, 0.01, 0.3, 0.5, 0.999, 1.0, 1.5, 1e6])
    out = {
        "m_i": np.asarray(fp.m_i),
        "m_scaled": fp.m_scaled_func(ps),
        "m_scaled_below": _try(lambda: fp.m_scaled_func(pmin - 1.0)),
        "m_scaled_above": _try(lambda: fp.m_scaled_func(pmax + 1.0)),
        "alpha": fp.alpha(ms),
        "alpha0d": np.asarray(fp.alpha(0.25)),
        "cols": list(fp.pvt_props.keys() if isinstance(fp.pvt_props, dict) else fp.pvt_props.columns),
        "alpha_col": np.asarray(fp.pvt_props["alpha"]),
        "mscaled_col": np.asarray(fp.pvt_props["m-scaled"]),
        "repr_same": repr(fp) == repr(fp.pvt_props),
        "type": type(fp).__name__,
        "attrs": sorted(vars(fp)),
    }
    return out


def section_flowproperties(tag, t):
    from bluebonnet.flow import flowproperties as fpm

    classes = [("FP", fpm.FlowProperties), ("OnePhase", fpm.FlowPropertiesOnePhase)]
    if hasattr(fpm, "FlowPropertiesSimple"):
        classes.append(("Simple", fpm.FlowPropertiesSimple))
    long_cols = ["pseudopressure", "compressibility", "pressure", "viscosity", "z-factor"]
    for cname, cls in classes:
        for name in ("gas", "oil", "hay", "ideal"):
            tab = t[name]
            pmax = float(tab["pressure"].max())
            for p_i in (pmax, 0.5 * pmax, 1234.5, float(tab["pressure"].min()), 2 * pmax, -5.0, np.nan):
                before_cols = list(tab.columns)
                rec(f"{tag}{cname}[{name},df,p_i={p_i!r}]", lambda: probe_flow(cls(tab, p_i), pmax))
                assert list(tab.columns) == before_cols, "input table mutated"
            # plain dict of arrays
            d = {c: tab[c].to_numpy() for c in long_cols}
            keys0 = sorted(d)
            rec(f"{tag}{cname}[{name},dict]", lambda: probe_flow(cls(d, pmax), pmax))
            rec(f"{tag}{cname}[{name},dict-keys-after]", lambda: [sorted(d) == keys0, sorted(d)])
            # user-supplied alpha (short column set)
            short = pd.DataFrame(
                {
                    "pressure": tab["pressure"],
                    "pseudopressure": tab["pseudopressure"] + 1.0,
                    "alpha": 1.0 / (1.0 + tab["pressure"] / pmax),
                }
            )
            rec(f"{tag}{cname}[{name},short]", lambda: probe_flow(cls(short, 0.7 * pmax), pmax))
            both = tab.assign(alpha=np.linspace(2.0, 1.0, len(tab)))
            rec(f"{tag}{cname}[{name},long+alpha]", lambda: probe_flow(cls(both, 0.7 * pmax), pmax))
            # missing columns
            for drop in (["pressure"], ["pseudopressure"], ["viscosity"], ["compressibility"], ["z-factor"], long_cols):
                rec(
                    f"{tag}{cname}[{name},drop={drop}]",
                    lambda: probe_flow(cls(tab.drop(columns=drop), pmax), pmax),
                )
        rec(f"{tag}{cname}[empty-dict]", lambda: cls({}, 1.0))
        rec(f"{tag}{cname}[None]", lambda: cls(None, 1.0))
        rec(f"{tag}{cname}[list]", lambda: cls([1, 2, 3], 1.0))
        rec(f"{tag}{cname}[no-p_i]", lambda: cls(t["gas"]))
        tiny = {
            "pressure": np.array([1.0, 2.0]),
            "pseudopressure": np.array([0.0, 3.0]),
            "compressibility": np.array([0.5, 0.25]),
            "viscosity": np.array([0.02, 0.03]),
            "z-factor": np.array([1.0, 0.9]),
        }
        rec(f"{tag}{cname}[tiny]", lambda: probe_flow(cls(tiny, 1.5), 2.0))
        one = {k: v[:1] for k, v in tiny.items()}
        rec(f"{tag}{cname}[one-row]", lambda: probe_flow(cls(one, 1.0), 1.0))
        zero = dict(tiny, pressure=np.array([0.0, 2.0]))
        rec(f"{tag}{cname}[zero-pressure]", lambda: probe_flow(cls(zero, 1.5), 2.0))
    OUT.append(f"{tag}alias -> {fpm.FlowPropertiesOnePhase is fpm.FlowProperties}")

    # pickling / copying
    fp = None
    with warnings.catch_warnings():
        warnings.simplefilter("ignore")
        fp = fpm.FlowProperties(t["gas"], 8000.0)
    pmax = float(t["gas"]["pressure"].max())
    rec(f"{tag}pickle", lambda: probe_flow(pickle.loads(pickle.dumps(fp)), pmax))
    rec(f"{tag}copy", lambda: probe_flow(copy.copy(fp), pmax))
    rec(f"{tag}copy-shares", lambda: copy.copy(fp).alpha is fp.alpha)
    rec(f"{tag}deepcopy", lambda: probe_flow(copy.deepcopy(fp), pmax))

    # subclassing by users
    def user_subclass():
        class Mine(fpm.FlowProperties):
            extra = 3

        return probe_flow(Mine(t["gas"], 8000.0), pmax)

    rec(f"{tag}user-subclass", user_subclass)

    def user_subclass_kw():
        class Mine(fpm.FlowProperties, flag=True):
            pass

        return Mine

    rec(f"{tag}user-subclass-kwargs", user_subclass_kw)
    rec(
        f"{tag}mro",
        lambda: [
            [k.__name__ for k in c.__mro__]
            for c in (fpm.FlowProperties, fpm.FlowPropertiesTwoPhase, fpm.FlowPropertiesMultiPhase)
        ],
    )


def section_relperm(tag):
    from bluebonnet.flow.flowproperties import (
        RelPermParams,
        relative_permeabilities,
        relative_permeabilities_twophase,
    )

    base = RelPermParams(
        n_o=1, n_g=1, n_w=1, S_or=0, S_gc=0, S_wc=0.1, k_ro_max=1, k_rw_max=1, k_rg_max=1
    )
    variants = {
        "base": base,
        "corey": RelPermParams(2.0, 3.5, 1.5, 0.15, 0.2, 0.05, 0.9, 0.4, 0.8),
        "n=6": base._replace(n_o=6, n_w=6, n_g=6),
        "n=6.0000001": base._replace(n_g=6.0000001),
        "n=8": base._replace(n_o=8),
        "n_w=0": base._replace(n_w=0),
        "n=0.999": base._replace(n_g=0.999),
        "S_gc=-1": base._replace(S_gc=-1),
        "S_or=1.1": base._replace(S_or=1.1),
        "S_or=1": base._replace(S_or=1),
        "k_ro=1.1": base._replace(k_ro_max=1.1),
        "k_rw=-0.1": base._replace(k_rw_max=-0.1),
        "k=0": base._replace(k_ro_max=0, k_rw_max=0, k_rg_max=0),
        "sum-res=1": base._replace(S_or=0.5, S_wc=0.3, S_gc=0.2),
        "sum-res>1": base._replace(S_or=0.6, S_wc=0.3, S_gc=0.3),
        "arr1": base._replace(k_ro_max=np.array([0.5])),
        "nan": base._replace(n_o=np.nan),
        "str": base._replace(n_o="2"),
    }
    n = 7
    sats = {}
    for Sw in (0.0, 0.1, 0.35):
        sats[f"lin{Sw}"] = pd.DataFrame(
            {"So": np.linspace(0, 1 - Sw, n), "Sw": np.full(n, Sw), "Sg": np.linspace(1 - Sw, 0, n)}
        ).to_records(index=False)
    sats["plus1"] = pd.DataFrame(
        {"So": np.linspace(1, 2, n), "Sw": np.full(n, 1.1), "Sg": np.linspace(2, 1, n)}
    ).to_records(index=False)
    sats["tol-in"] = np.array([(0.5, 0.3, 0.2009), (0.2, 0.2, 0.5991)], dtype=[("So", "f8"), ("Sw", "f8"), ("Sg", "f8")])
    sats["tol-out"] = np.array([(0.5, 0.3, 0.2011)], dtype=[("So", "f8"), ("Sw", "f8"), ("Sg", "f8")])
    sats["neg"] = np.array([(-0.2, 0.5, 0.7), (1.2, -0.1, -0.1)], dtype=[("So", "f8"), ("Sw", "f8"), ("Sg", "f8")])
    sats["empty"] = np.array([], dtype=[("So", "f8"), ("Sw", "f8"), ("Sg", "f8")])
    sats["one"] = np.array([(0.3, 0.3, 0.4)], dtype=[("So", "f8"), ("Sw", "f8"), ("Sg", "f8")])
    sats["order"] = np.array([(0.3, 0.3, 0.4)], dtype=[("Sg", "f8"), ("So", "f8"), ("Sw", "f8")])
    sats["f4"] = np.array([(0.25, 0.25, 0.5)], dtype=[("So", "f4"), ("Sw", "f4"), ("Sg", "f4")])
    for sname, s in sats.items():
        for vname, v in variants.items():
            rec(f"{tag}relperm[{sname},{vname}]", lambda: relative_permeabilities(s, v))
    rec(f"{tag}relperm[dataframe]", lambda: relative_permeabilities(pd.DataFrame(sats["one"]), base))
    rec(f"{tag}relperm[dict]", lambda: relative_permeabilities({"So": [0.5], "Sw": [0.2], "Sg": [0.3]}, base))
    rec(f"{tag}relperm[tuple-params]", lambda: relative_permeabilities(sats["one"], tuple(base)))
    rec(f"{tag}relperm[None]", lambda: relative_permeabilities(None, base))
    for vname, v in variants.items():
        for Sw in (0.1, 0.0, 0.05, 0.1000001, 0.8, -0.1, 1.0):
            rec(f"{tag}twophase[{vname},Sw={Sw}]", lambda: relative_permeabilities_twophase(v, Sw))
        rec(f"{tag}twophase[{vname},default]", lambda: relative_permeabilities_twophase(v))
    rec(f"{tag}twophase[nan]", lambda: relative_permeabilities_twophase(base, np.nan))
    rec(f"{tag}twophase[Sw-array]", lambda: relative_permeabilities_twophase(base, np.array([0.1, 0.05])))
    rec(f"{tag}RelPermParams", lambda: [RelPermParams._fields, RelPermParams.__name__, repr(base)])


def section_rescale(tag, t):
    from bluebonnet.flow.flowproperties import rescale_pseudopressure

    for name in ("gas", "oil", "hay", "multi"):
        tab = t[name]
        pmax = float(tab["pressure"].max())
        for p_frac, p_i in ((1000, 8000.0), (0.0, pmax), (pmax, 0.0), (500.0, 500.0), (10.0, 2 * pmax), (-1.0, 100.0), (np.nan, 100.0)):
            before = fmt(tab)
            rec(f"{tag}rescale[{name},{p_frac},{p_i}]", lambda: rescale_pseudopressure(tab, p_frac, p_i))
            assert fmt(tab) == before, "rescale mutated its input"
    d = {c: t["gas"][c].to_numpy() for c in ("pressure", "pseudopressure")}
    rec(f"{tag}rescale[dict]", lambda: rescale_pseudopressure(d, 100.0, 1000.0))
    rec(f"{tag}rescale[recarray]", lambda: rescale_pseudopressure(t["gas"][["pressure", "pseudopressure"]].to_records(index=False), 100.0, 1000.0))
    rec(f"{tag}rescale[None]", lambda: rescale_pseudopressure(None, 100.0, 1000.0))
    rec(f"{tag}rescale[nocol]", lambda: rescale_pseudopressure(t["gas"].drop(columns=["pseudopressure"]), 100.0, 1000.0))


def section_multiphase(tag, t):
    from bluebonnet.flow import flowproperties as fpm

    base = fpm.RelPermParams(
        n_o=1, n_g=1, n_w=1, S_or=0, S_gc=0, S_wc=0.1, k_ro_max=1, k_rw_max=1, k_rg_max=1
    )
    corey = fpm.RelPermParams(2.0, 3.5, 1.5, 0.15, 0.2, 0.05, 0.9, 0.4, 0.8)
    dens = {"rho_o0": 141.5 / (45 + 131.5), "rho_g0": 1.03e-3, "rho_w0": 1}
    from scipy.interpolate import interp1d

    for Sw in (0.1, 0.05):
        df0 = df_pvt_threephase(Sw)
        for pname, params in (("base", base), ("corey", corey)):
            if Sw > params.S_wc:
                continue
            df_kr = fpm.relative_permeabilities_twophase(params, Sw)
            for p_frac, p_res in ((1000, 8000.0), (500.0, 6000.0)):
                df = fpm.rescale_pseudopressure(df0, p_frac, p_res)
                for phi in (0.1, 0.3):

                    def build():
                        fp = fpm.FlowPropertiesTwoPhase.from_table(df, df_kr, dens, phi, Sw, p_res)
                        pmax = float(df["pressure"].max())
                        out = probe_flow(fp, pmax)
                        out["kr"] = {k: f(np.array([0.0, 0.2, 0.4, 0.9 - 1e-9])) for k, f in fp.kr.items()}
                        out["pvt_keys"] = sorted(fp.pvt)
                        out["pvt_eval"] = {
                            k: (f(np.array([0.0, 15.0, 5000.0, 20000.0])) if callable(f) else f)
                            for k, f in fp.pvt.items()
                        }
                        return out

                    rec(f"{tag}from_table[Sw={Sw},{pname},{p_frac},{p_res},phi={phi}]", build)

                pvt = {
                    prop: interp1d(df["pressure"], df[prop], fill_value="extrapolate")
                    for prop in ("pseudopressure", "pressure", "Bo", "Bg", "Bw", "Rs", "Rv", "mu_o", "mu_g", "mu_w", "So")
                }
                pvt.update(dens)
                kr = {f: interp1d(df_kr["So"], df_kr[f]) for f in ("kro", "krg", "krw")}
                P = df["pressure"].to_numpy()
                So = df["So"].to_numpy()
                rec(f"{tag}lambda[{Sw},{pname},{p_frac}]", lambda: fpm.lambda_combined_func(P, So, pvt, kr))
                rec(f"{tag}cp[{Sw},{pname},{p_frac}]", lambda: fpm.compressibility_combined_func(P, So, 0.1, Sw, pvt))
                rec(f"{tag}cp-arrSw[{Sw},{pname},{p_frac}]", lambda: fpm.compressibility_combined_func(P, So, 0.1, np.full_like(So, Sw), pvt))
                rec(f"{tag}alpha_mp[{Sw},{pname},{p_frac}]", lambda: fpm.alpha_multiphase(P, So, 0.1, Sw, pvt, kr))
                rec(f"{tag}pp3[{Sw},{pname},{p_frac}]", lambda: fpm.pseudopressure_threephase(P, So, pvt, kr))
                rec(f"{tag}pp3-sub[{Sw},{pname},{p_frac}]", lambda: fpm.pseudopressure_threephase(P[3:40:3], So[3:40:3], pvt, kr))
                rec(f"{tag}pp3-two[{Sw},{pname},{p_frac}]", lambda: fpm.pseudopressure_threephase(P[:2], So[:2], pvt, kr))
                rec(f"{tag}pp3-one[{Sw},{pname},{p_frac}]", lambda: fpm.pseudopressure_threephase(P[:1], So[:1], pvt, kr))
                rec(f"{tag}pp3-empty[{Sw},{pname},{p_frac}]", lambda: fpm.pseudopressure_threephase(P[:0], So[:0], pvt, kr))
                rec(f"{tag}pp3-scalar[{Sw},{pname},{p_frac}]", lambda: fpm.pseudopressure_threephase(100.0, 0.3, pvt, kr))
                rec(f"{tag}pp3-list[{Sw},{pname},{p_frac}]", lambda: fpm.pseudopressure_threephase(list(P[:5]), list(So[:5]), pvt, kr))
                rec(f"{tag}pp3-mismatch[{Sw},{pname},{p_frac}]", lambda: fpm.pseudopressure_threephase(P[:5], So[:4], pvt, kr))
                rec(f"{tag}pp3-So>range[{Sw},{pname},{p_frac}]", lambda: fpm.pseudopressure_threephase(P[:5], So[:5] + 1.0, pvt, kr))
                rec(f"{tag}pp3-series[{Sw},{pname},{p_frac}]", lambda: fpm.pseudopressure_threephase(df["pressure"], df["So"], pvt, kr))
                rec(f"{tag}lambda-scalar[{Sw},{pname},{p_frac}]", lambda: fpm.lambda_combined_func(100.0, 0.3, pvt, kr))
                rec(f"{tag}alpha-nokey[{Sw},{pname},{p_frac}]", lambda: fpm.alpha_multiphase(P, So, 0.1, Sw, {k: v for k, v in pvt.items() if k != "rho_w0"}, kr))
    df0 = df_pvt_threephase(0.1)
    df_kr = fpm.relative_permeabilities_twophase(base, 0.1)
    df = fpm.rescale_pseudopressure(df0, 1000, 8000.0)
    for drop in ("pseudopressure", "Bw", "So", "Rv"):
        rec(f"{tag}from_table[drop-pvt={drop}]", lambda: fpm.FlowPropertiesTwoPhase.from_table(df.drop(columns=[drop]), df_kr, dens, 0.1, 0.1, 8000.0))
    for drop in ("So", "krw"):
        rec(f"{tag}from_table[drop-kr={drop}]", lambda: fpm.FlowPropertiesTwoPhase.from_table(df, df_kr.drop(columns=[drop]), dens, 0.1, 0.1, 8000.0))
    rec(f"{tag}from_table[both-missing]", lambda: fpm.FlowPropertiesTwoPhase.from_table({}, {}, dens, 0.1, 0.1, 8000.0))
    rec(f"{tag}from_table[no-dens]", lambda: fpm.FlowPropertiesTwoPhase.from_table(df, df_kr, {}, 0.1, 0.1, 8000.0))
    rec(f"{tag}from_table[p_i-out]", lambda: fpm.FlowPropertiesTwoPhase.from_table(df, df_kr, dens, 0.1, 0.1, 1e9))
    rec(f"{tag}from_table[dict-tables]", lambda: probe_flow(fpm.FlowPropertiesTwoPhase.from_table({c: df[c].to_numpy() for c in df.columns}, {c: df_kr[c].to_numpy() for c in df_kr.columns}, dens, 0.1, 0.1, 8000.0), 8000.0))

    # FlowPropertiesMultiPhase
    class Table:
        """Minimal table: .columns and tuple-of-names indexing -> 2-D array."""

        def __init__(self, frame):
            self.frame = frame
            self.columns = list(frame.columns)

        def __getitem__(self, key):
            if isinstance(key, tuple):
                return self.frame[list(key)].to_numpy()
            return self.frame[key].to_numpy()

    rng = np.random.default_rng(7)
    npts = 60
    So = rng.uniform(0.05, 0.8, npts)
    Sg = rng.uniform(0.05, 0.15, npts)
    frame = pd.DataFrame(
        {
            "pseudopressure": rng.uniform(0, 1, npts),
            "So": So,
            "Sg": Sg,
            "Sw": rng.uniform(0.05, 0.2, npts),
        }
    )
    frame["alpha"] = 1 + frame["pseudopressure"] * 2 + frame["So"] - 0.5 * frame["Sg"] + 0.25 * frame["Sw"]

    def mp_ok():
        fp = fpm.FlowPropertiesMultiPhase(Table(frame))
        q = frame[["pseudopressure", "So", "Sg", "Sw"]].to_numpy()
        mid = 0.5 * (q[:-1] + q[1:])
        return {
            "at": fp.alpha(q[:10]),
            "mid": fp.alpha(mid[:10]),
            "mean": fp.alpha(q.mean(axis=0)),
            "outside": fp.alpha(np.array([[5.0, 5.0, 5.0, 5.0]])),
            "attrs": sorted(vars(fp)),
            "type": type(fp.alpha).__name__,
            "df_is": fp.df.frame is frame,
        }

    rec(f"{tag}MultiPhase[ok]", mp_ok)
    rec(f"{tag}MultiPhase[dataframe]", lambda: fpm.FlowPropertiesMultiPhase(frame))
    rec(f"{tag}MultiPhase[t-multi]", lambda: fpm.FlowPropertiesMultiPhase(t["multi"]))
    rec(f"{tag}MultiPhase[missing]", lambda: fpm.FlowPropertiesMultiPhase(Table(frame.drop(columns=["alpha"]))))
    rec(f"{tag}MultiPhase[missing-df]", lambda: fpm.FlowPropertiesMultiPhase(frame.drop(columns=["Sg"])))
    rec(f"{tag}MultiPhase[dict]", lambda: fpm.FlowPropertiesMultiPhase({"pseudopressure": 1}))
    rec(f"{tag}MultiPhase[few-points]", lambda: fpm.FlowPropertiesMultiPhase(Table(frame.iloc[:3])))
    rec(f"{tag}MultiPhase[two-args]", lambda: fpm.FlowPropertiesMultiPhase(Table(frame), 1.0))


def section_plumbing(tag):
    import scipy.integrate
    import scipy.interpolate

    import bluebonnet
    import bluebonnet.flow as flow
    from bluebonnet.flow import flowproperties as fpm

    exported_before = [
        "FlowProperties",
        "FlowPropertiesMultiPhase",
        "FlowPropertiesOnePhase",
        "FlowPropertiesTwoPhase",
        "IdealReservoir",
        "MultiPhaseReservoir",
        "RelPermParams",
        "SinglePhaseReservoir",
        "TwoPhaseReservoir",
        "relative_permeabilities",
        "relative_permeabilities_twophase",
        "rescale_pseudopressure",
    ]
    OUT.append(f"{tag}all-superset -> {set(exported_before) <= set(flow.__all__)}")
    OUT.append(f"{tag}all-resolvable -> {all(hasattr(flow, n) for n in flow.__all__)}")
    for n in exported_before:
        if hasattr(fpm, n):
            OUT.append(f"{tag}same[{n}] -> {getattr(flow, n) is getattr(fpm, n)}")
    ns = {}
    exec("from bluebonnet.flow import *", ns)  # noqa: S102
    OUT.append(f"{tag}star-has-old -> {all(n in ns for n in exported_before)}")
    public = [
        "FlowProperties",
        "FlowPropertiesOnePhase",
        "FlowPropertiesSimple",
        "FlowPropertiesTwoPhase",
        "FlowPropertiesMultiPhase",
        "RelPermParams",
        "relative_permeabilities",
        "relative_permeabilities_twophase",
        "rescale_pseudopressure",
        "alpha_multiphase",
        "lambda_combined_func",
        "compressibility_combined_func",
        "pseudopressure_threephase",
    ]
    for n in public:
        obj = getattr(fpm, n)
        OUT.append(f"{tag}public[{n}] -> {obj.__module__}.{obj.__qualname__}")
    OUT.append(
        f"{tag}cumtrapz-identity -> "
        f"{getattr(fpm, 'cumulative_trapezoid', scipy.integrate.cumulative_trapezoid) is scipy.integrate.cumulative_trapezoid}"
    )
    OUT.append(f"{tag}interp1d-identity -> {fpm.interp1d is scipy.interpolate.interp1d}")
    rec(f"{tag}missing-attr", lambda: fpm.no_such_name)
    rec(f"{tag}missing-attr-flow", lambda: flow.no_such_name)
    OUT.append(f"{tag}np-errstate -> {sorted(np.geterr().items())}")
    OUT.append(f"{tag}warn-filters-len-stable -> {isinstance(warnings.filters, list)}")
    OUT.append(f"{tag}root-handlers -> {len(logging.getLogger().handlers)}")
    OUT.append(f"{tag}version -> {bluebonnet.__version__}")


def run_all(tag):
    t = load()
    section_plumbing(tag + "pre.")
    section_flowproperties(tag, t)
    section_relperm(tag)
    section_rescale(tag, t)
    section_multiphase(tag, t)
    section_plumbing(tag + "post.")


def main():
    if len(sys.argv) >= 3 and sys.argv[2] == "--child":
        # child process: diagnostics switched on through the environment
        logging.basicConfig(level=logging.DEBUG, stream=open(os.devnull, "w"))
        run_all("child.")
        with open(sys.argv[1], "w") as fh:
            fh.write("\n".join(OUT) + "\n")
        return
    np.seterr(all="warn")
    run_all("")
    # second pass with every bluebonnet logger at DEBUG and a handler attached
    handler = logging.NullHandler()
    lg = logging.getLogger("bluebonnet")
    lg.addHandler(handler)
    lg.setLevel(logging.DEBUG)
    sink = logging.StreamHandler(open(os.devnull, "w"))
    sink.setLevel(logging.DEBUG)
    lg.addHandler(sink)
    t = load()
    section_flowproperties("debug.", t)
    section_rescale("debug.", t)
    lg.removeHandler(handler)
    lg.removeHandler(sink)
    lg.setLevel(logging.NOTSET)
    # third pass in a child process with diagnostic environment variables set
    env = dict(os.environ)
    env.update({"BLUEBONNET_DEBUG": "1", "BLUEBONNET_LOG_LEVEL": "DEBUG"})
    child_out = sys.argv[1] + ".child"
    proc = subprocess.run(
        [sys.executable, os.path.abspath(__file__), child_out, "--child"],
        env=env,
        capture_output=True,
        text=True,
        check=False,
    )
    OUT.append(f"child-returncode -> {proc.returncode}")
    OUT.append(f"child-stdout -> {proc.stdout!r}")
    if proc.returncode == 0:
        with open(child_out) as fh:
            OUT.extend(line.rstrip("\n") for line in fh)
        os.remove(child_out)
    else:
        OUT.append("child-stderr -> " + proc.stderr[-2000:])
    with open(sys.argv[1], "w") as fh:
        fh.write("\n".join(OUT) + "\n")


if __name__ == "__main__":
    main()
