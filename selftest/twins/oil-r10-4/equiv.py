"""Twin 4: below-bubble-point GOR closure hoisted to a private helper; masks built once."""
import os
import sys

sys.path.insert(0, os.path.dirname(os.path.abspath(__file__)))
import numpy as np  # noqa: E402
import pandas as pd  # noqa: E402
from equiv_common import main  # noqa: E402
from bluebonnet.fluids import oil  # noqa: E402
from bluebonnet.fluids import Fluid  # noqa: E402


def extra(out, call, fmt):
    base = np.linspace(14.7, 9000.0, 60)
    cases = [
        ("strided", base[::3]),
        ("reversed", base[::-1]),
        ("fortran2d", np.asfortranarray(base.reshape(6, 10))),
        ("3d", base.reshape(3, 4, 5)),
        ("float32", base.astype(np.float32)),
        ("int64", np.arange(0, 9000, 750)),
        ("uint16", np.arange(0, 9000, 750).astype(np.uint16)),
        ("bool", np.array([True, False])),
        ("object", np.array([100.0, 3000.0], dtype=object)),
        ("masked", np.ma.array([100.0, 2000.0, 3000.0, 5000.0], mask=[0, 1, 0, 0])),
        ("series_idx", pd.Series([100.0, 2000.0, 3000.0, 5000.0], index=[10, 11, 12, 13])),
        ("series_str_idx", pd.Series([100.0, 3000.0], index=["a", "b"])),
        ("index", pd.Index([100.0, 3000.0])),
        ("readonly", (lambda a: (a.setflags(write=False), a)[1])(base.copy())),
        ("exactly_pb", np.array([oil.pressure_bubblepoint_Standing(200, 35, 0.8, 650)] * 3)),
        ("straddle_pb", oil.pressure_bubblepoint_Standing(200, 35, 0.8, 650) * (1 + np.array([-1e-15, 0, 1e-15, -1e-12, 1e-12]))),
        ("all_inf", np.array([np.inf, -np.inf])),
        ("strarr", np.array(["100", "3000"])),
        ("nested_list", [[100.0, 3000.0]]),
        ("zero_d_in_list", [np.array(100.0)]),
    ]
    for label, p in cases:
        for fl in [(200, 35, 0.8, 650), (150.0, 30.0, 0.65, 5.0), (250.0, 45.0, 0.7, 1200.0)]:
            t, api, sg, gor = fl
            for name in ("solution_gor_Standing", "b_o_Standing", "density_Standing"):
                call(out, "%s[%s,%s]" % (name, label, gor), getattr(oil, name), t, p, api, sg, gor)
    # scalar sweep across the bubble point, both arms
    pb = oil.pressure_bubblepoint_Standing(200, 35, 0.8, 650)
    for p in list(np.linspace(0.0, 6000.0, 31)) + [pb, np.nextafter(pb, 0), np.nextafter(pb, 1e9)]:
        for name in ("solution_gor_Standing", "b_o_Standing", "density_Standing", "dgor_dpressure_Standing"):
            call(out, "%s[scalar %r]" % (name, float(p)), getattr(oil, name), 200, float(p), 35, 0.8, 650)
    # inputs left alone, results independent of the input buffer
    p = base.copy()
    r = oil.solution_gor_Standing(200, p, 35, 0.8, 650)
    b = oil.b_o_Standing(200, p, 35, 0.8, 650)
    out.append("input untouched %s" % bool((p == base).all()))
    out.append("no aliasing %s %s" % (np.shares_memory(r, p), np.shares_memory(b, p)))
    out.append("has old closure attr %s" % hasattr(oil.solution_gor_Standing, "gor_belowbubble"))
    fl = Fluid(200.0, 35.0, 0.8, 650.0)
    call(out, "Fluid.oil_FVF dense", fl.oil_FVF, base)
    call(out, "Fluid.oil_viscosity dense", fl.oil_viscosity, base)


main(extra)
