"""Equivalence probe for bluebonnet.plotting (run on clean and refactored tree, compare outputs)."""

from __future__ import annotations

import os
import sys
import warnings
from types import SimpleNamespace

import matplotlib

matplotlib.use("Agg")
import matplotlib.pyplot as plt
import matplotlib.scale as mscale
import numpy as np
import pandas as pd

from bluebonnet import plotting
from bluebonnet.flow import FlowProperties, IdealReservoir, SinglePhaseReservoir
from bluebonnet.plotting import (
    SquareRootScale,
    plot_pseudopressure,
    plot_recovery_factor,
    plot_recovery_rate,
)

DATA = os.environ.get("BB_DATA", "/tmp/twin3_plotting/tests/data")
out: list[str] = []


def fmt(v):
    if v is None:
        return "None"
    if isinstance(v, str):
        return repr(v)
    a = np.asarray(v)
    if a.dtype.kind in "fc":
        return "[" + ",".join(repr(float(x)) for x in a.ravel()) + "]" + str(a.shape)
    return repr(a.tolist())


def dump_ax(ax):
    rows = []
    rows.append(f"nlines={len(ax.lines)}")
    for k, ln in enumerate(ax.lines):
        rows.append(
            f" line{k}: x={fmt(ln.get_xdata())} y={fmt(ln.get_ydata())} color={ln.get_color()!r} "
            f"label={ln.get_label()!r} ls={ln.get_linestyle()!r} lw={ln.get_linewidth()!r} "
            f"marker={ln.get_marker()!r} alpha={ln.get_alpha()!r}"
        )
    rows.append(f" xlabel={ax.get_xlabel()!r} ylabel={ax.get_ylabel()!r}")
    rows.append(f" xscale={ax.get_xscale()!r} yscale={ax.get_yscale()!r}")
    rows.append(f" xlim={fmt(ax.get_xlim())} ylim={fmt(ax.get_ylim())}")
    rows.append(f" xticks={fmt(ax.get_xticks())}")
    rows.append(f" xtrans={type(ax.xaxis.get_transform()).__name__}")
    return "\n".join(rows)


def record(tag, fn, *args, **kwargs):
    plt.close("all")
    with warnings.catch_warnings(record=True) as w:
        warnings.simplefilter("always")
        try:
            ax = fn(*args, **kwargs)
        except Exception:  # only the fact that it raises is contractual
            out.append(f"{tag}: RAISES")
            plt.close("all")
            return
        cats = sorted({x.category.__name__ for x in w})
    passed = kwargs.get("ax", None)
    same = "n/a" if passed is None else str(ax is passed)
    out.append(f"{tag}: type={type(ax).__name__} same_ax={same} nfigs={len(plt.get_fignums())} warn={cats}")
    out.append(dump_ax(ax))
    plt.close("all")


# ---------------------------------------------------------------- reservoirs
def ideal(nx, nt, t_end=4.0):
    r = IdealReservoir(nx, pressure_fracface=100.0, pressure_initial=2000.0)
    r.simulate(np.linspace(0, np.sqrt(t_end), nt) ** 2)
    return r


ren = {"P": "pressure", "Z-Factor": "z-factor", "Cg": "compressibility", "Viscosity": "viscosity", "Density": "density"}
pvt_gas = pd.read_csv(os.path.join(DATA, "pvt_gas.csv")).rename(columns=ren)
fluid = FlowProperties(pvt_gas, 2000.0)


def single(nx, nt, t_end=11.0):
    r = SinglePhaseReservoir(nx, pressure_fracface=100.0, pressure_initial=2000.0, fluid=fluid)
    r.simulate(np.linspace(0, np.sqrt(t_end), nt) ** 2)
    return r


def fake(pp, time=None, rf=None, nx=None):
    pp = np.asarray(pp, dtype=float)
    ns = SimpleNamespace(pseudopressure=pp, nx=pp.shape[1] if nx is None else nx)
    if time is not None:
        ns.time = time
    if rf is not None:
        ns.recovery_factor = lambda: rf
    return ns


reservoirs = {
    "ideal_12x60": ideal(12, 60),
    "ideal_5x7": ideal(5, 7, 0.3),
    "ideal_40x401": ideal(40, 401, 9.0),
    "single_30x120": single(30, 120),
    "single_10x25": single(10, 25, 2.0),
}
unsimulated = IdealReservoir(10, pressure_fracface=100.0, pressure_initial=2000.0)
rng = np.random.default_rng(7)
fk_pp = np.sort(rng.uniform(0.1, 1.0, size=(9, 6)), axis=1)
fk_t = np.linspace(0.0, 3.0, 9) ** 2
fk_rf = np.sqrt(fk_t) / 4
fakes = {
    "fake_arr": fake(fk_pp, fk_t, fk_rf),
    "fake_list_time": fake(fk_pp, list(fk_t), list(fk_rf)),
    "fake_nonuniform": fake(fk_pp, np.array([0, 0.1, 0.15, 0.4, 1.0, 1.1, 2.5, 6.0, 6.5]), fk_rf**2),
    "fake_two": fake(fk_pp[:2], np.array([0.0, 2.0]), np.array([0.0, 0.5])),
}

# ---------------------------------------------------------------- plot_pseudopressure
for name, r in {**reservoirs, **fakes}.items():
    for every in (1, 2, 7, 50, 200, 10**6, -3, True, 2.0, 2.5, np.int64(3), np.int64(0), np.float64(0.0)):
        for rescale in (False, True):
            record(f"pp[{name},every={every!r},rescale={rescale}]", plot_pseudopressure, r, every, rescale)
    record(f"pp[{name},defaults]", plot_pseudopressure, r)
    record(f"pp[{name},xmax,ymax]", plot_pseudopressure, r, every=3, x_max=0.5, y_max=1.2)
    record(f"pp[{name},ymax0.3,rescale]", plot_pseudopressure, r, every=4, rescale=True, y_max=0.3, x_max=2)
    record(f"pp[{name},kwargs]", plot_pseudopressure, r, every=5, plot_kwargs={"linestyle": "--", "linewidth": 0.5, "alpha": 0.4})
    record(f"pp[{name},kwargs_empty]", plot_pseudopressure, r, every=5, plot_kwargs={})
    record(f"pp[{name},kwargs_label,rescale]", plot_pseudopressure, r, every=4, rescale=True, plot_kwargs={"label": "m", "marker": "o"})
    _, a = plt.subplots()
    a.plot([0, 1], [0, 1], color="red", label="pre")
    record(f"pp[{name},given_ax]", plot_pseudopressure, r, every=3, ax=a)
    # things that raise
    record(f"pp[{name},every=0]", plot_pseudopressure, r, every=0)
    record(f"pp[{name},every=0.0]", plot_pseudopressure, r, every=0.0)
    record(f"pp[{name},every=False]", plot_pseudopressure, r, every=False)
    record(f"pp[{name},every=None]", plot_pseudopressure, r, every=None)
    record(f"pp[{name},every='a']", plot_pseudopressure, r, every="a")
    record(f"pp[{name},dup_color]", plot_pseudopressure, r, every=3, plot_kwargs={"color": "k"})
    record(f"pp[{name},bad_kw]", plot_pseudopressure, r, every=3, plot_kwargs={"nonsense": 1})
    record(f"pp[{name},bad_kw_rescale]", plot_pseudopressure, r, every=3, rescale=True, plot_kwargs={"nonsense": 1})
    record(f"pp[{name},bad_ax]", plot_pseudopressure, r, every=3, ax="notanaxes")
record("pp[unsimulated]", plot_pseudopressure, unsimulated)
record("pp[None]", plot_pseudopressure, None)
record("pp[nx=0]", plot_pseudopressure, fake(fk_pp, nx=0))
record("pp[nx_mismatch]", plot_pseudopressure, fake(fk_pp, nx=4))
record("pp[empty_rows]", plot_pseudopressure, fake(np.empty((0, 6))))
record("pp[1d]", plot_pseudopressure, SimpleNamespace(pseudopressure=np.ones(5), nx=5))
record("pp[const_rows,rescale]", plot_pseudopressure, fake(np.ones((4, 5))), every=1, rescale=True)
record("pp[nan_rows,rescale]", plot_pseudopressure, fake(np.full((4, 5), np.nan)), every=2, rescale=True)
record("pp[nan_rows]", plot_pseudopressure, fake(np.full((4, 5), np.nan)), every=2)

# ---------------------------------------------------------------- recovery rate / factor
for fname, fn in (("rate", plot_recovery_rate), ("rf", plot_recovery_factor)):
    for name, r in {**reservoirs, **fakes}.items():
        for ct in (False, True, 0, 1, "yes", None):
            record(f"{fname}[{name},ticks={ct!r}]", fn, r, change_ticks=ct)
        record(f"{fname}[{name},defaults]", fn, r)
        record(f"{fname}[{name},kwargs]", fn, r, None, True, {"color": "k", "linestyle": ":", "linewidth": 3})
        record(f"{fname}[{name},kwargs_empty]", fn, r, plot_kwargs={})
        _, a = plt.subplots()
        a.plot([1e-3, 1], [1e-2, 1], color="red", label="pre")
        record(f"{fname}[{name},given_ax]", fn, r, ax=a, change_ticks=True)
        record(f"{fname}[{name},dup_label]", fn, r, plot_kwargs={"label": "mine"})
        record(f"{fname}[{name},bad_kw]", fn, r, plot_kwargs={"nonsense": 1})
        record(f"{fname}[{name},bad_ax]", fn, r, ax="notanaxes")
        record(f"{fname}[{name},kwargs_not_dict]", fn, r, plot_kwargs=3)
    record(f"{fname}[unsimulated]", fn, unsimulated)
    record(f"{fname}[None]", fn, None)
    record(f"{fname}[no_time]", fn, fake(fk_pp, None, fk_rf))
    record(f"{fname}[no_rf_method]", fn, fake(fk_pp, fk_t, None))
    record(f"{fname}[empty]", fn, fake(fk_pp, np.array([]), np.array([])))
    record(f"{fname}[empty_list]", fn, fake(fk_pp, [], []))
    record(f"{fname}[single_point]", fn, fake(fk_pp, np.array([1.0]), np.array([0.3])))
    record(f"{fname}[scalar_time]", fn, fake(fk_pp, 1.0, 0.3))
    record(f"{fname}[len_mismatch]", fn, fake(fk_pp, fk_t, fk_rf[:-2]))
    record(f"{fname}[nan_time]", fn, fake(fk_pp, np.full(9, np.nan), fk_rf))
    record(f"{fname}[nan_time_ticks]", fn, fake(fk_pp, np.full(9, np.nan), fk_rf), change_ticks=True)
    record(f"{fname}[nan_rf]", fn, fake(fk_pp, fk_t, np.full(9, np.nan)), change_ticks=True)
    record(f"{fname}[neg_time_ticks]", fn, fake(fk_pp, -fk_t[::-1], fk_rf), change_ticks=True)
    record(f"{fname}[zero_time]", fn, fake(fk_pp, np.zeros(9), fk_rf), change_ticks=True)
    record(f"{fname}[time_2d]", fn, fake(fk_pp, fk_t.reshape(3, 3), fk_rf.reshape(3, 3)))
    record(f"{fname}[time_str]", fn, fake(fk_pp, "abc", fk_rf))

# ---------------------------------------------------------------- SquareRootScale
out.append(f"scale registered: {'squareroot' in mscale.get_scale_names()} name={SquareRootScale.name!r}")
out.append(f"scale class is registered one: {mscale._scale_mapping['squareroot'] is SquareRootScale}")
fig, ax = plt.subplots()
sc = SquareRootScale(ax.xaxis)
out.append(f"scale mro: {[c.__name__ for c in type(sc).__mro__]}")
tr = sc.get_transform()
inv = tr.inverted()
inv2 = inv.inverted()
for nm, t in (("tr", tr), ("inv", inv), ("inv2", inv2)):
    out.append(
        f"{nm}: cls={type(t).__name__} bases={[c.__name__ for c in type(t).__mro__[1:3]]} "
        f"in={t.input_dims} out={t.output_dims} sep={t.is_separable} affine={t.is_affine} has_inverse={t.has_inverse}"
    )
out.append(f"attr tr is SquareRootScale.SquareRootTransform: {isinstance(tr, SquareRootScale.SquareRootTransform)}")
out.append(f"attr inv is SquareRootScale.InvertedSquareRootTransform: {isinstance(inv, SquareRootScale.InvertedSquareRootTransform)}")
out.append(f"inv2 isinstance SquareRootTransform: {isinstance(inv2, SquareRootScale.SquareRootTransform)}")
samples = [
    np.array([0.0, 1e-300, 1e-12, 0.25, 1.0, 2.0, 3.7, 1e6, 1e300]),
    [0.0, 4.0, 9.0],
    (1.0, 16.0),
    np.array([[0.0, 1.0], [4.0, 7.5]]),
    np.array([], dtype=float),
    np.array([1, 4, 9]),
    np.array([np.nan, np.inf, 2.0]),
    np.array([-1.0, -4.0, 4.0]),
    np.ma.masked_invalid([1.0, np.nan, 9.0]),
    5.0,
    np.float64(7.0),
    np.array(3.0),
]
for k, s in enumerate(samples):
    for nm, t, meth in (
        ("tr.transform_non_affine", tr, "transform_non_affine"),
        ("tr.transform", tr, "transform"),
        ("inv.transform", inv, "transform"),
        ("inv.transform_non_affine", inv, "transform_non_affine"),
        ("inv2.transform_non_affine", inv2, "transform_non_affine"),
    ):
        with warnings.catch_warnings(record=True) as w:
            warnings.simplefilter("always")
            try:
                res = getattr(t, meth)(s)
            except Exception:
                out.append(f"{nm}[{k}]: RAISES")
                continue
            cats = sorted({x.category.__name__ for x in w})
        out.append(f"{nm}[{k}]: type={type(res).__name__} dtype={np.asarray(res).dtype} val={fmt(res)} warn={cats}")
for bad in ("abc", None, [1.0, "a"], {"a": 1}):
    for nm, t, meth in (("tr", tr, "transform_non_affine"), ("inv", inv, "transform")):
        try:
            getattr(t, meth)(bad)
            out.append(f"{nm}.bad[{bad!r}]: ok")
        except Exception:
            out.append(f"{nm}.bad[{bad!r}]: RAISES")
for args in ((-1.0, 5.0, 0.1), (0.0, 1.0, 1e-3), (2.0, 3.0, 1.0), (-5.0, -1.0, 0.0), (np.nan, 1.0, 0.0), (0.5, np.inf, 0.0), (-0.0, 0.0, 0.0)):
    try:
        out.append(f"limit_range{args}: {sc.limit_range_for_scale(*args)!r}")
    except Exception:
        out.append(f"limit_range{args}: RAISES")
for bad in (("a", 1, 0), (None, 1, 0)):
    try:
        out.append(f"limit_range{bad}: {sc.limit_range_for_scale(*bad)!r}")
    except Exception:
        out.append(f"limit_range{bad}: RAISES")
try:
    SquareRootScale(ax.xaxis, bogus=1)
    out.append("scale kwargs: ok")
except Exception:
    out.append("scale kwargs: RAISES")
try:
    SquareRootScale()
    out.append("scale noargs: ok")
except Exception:
    out.append("scale noargs: RAISES")
sc.set_default_locators_and_formatters(ax.yaxis)
out.append(
    "locators: "
    + " ".join(
        type(o).__name__
        for o in (
            ax.yaxis.get_major_locator(),
            ax.yaxis.get_major_formatter(),
            ax.yaxis.get_minor_locator(),
            ax.yaxis.get_minor_formatter(),
        )
    )
)
# end-to-end use of the scale through the axes machinery
fig, ax = plt.subplots()
ax.plot([0, 1, 4, 9, 16], [0, 1, 2, 3, 4])
ax.set_xscale("squareroot")
ax.set_xlim(-3, 16)
out.append(f"e2e xlim={fmt(ax.get_xlim())} scale={ax.get_xscale()!r}")
pts = ax.transData.transform(np.array([[0.0, 0.0], [1.0, 1.0], [4.0, 2.0], [16.0, 4.0]]))
out.append(f"e2e transData={fmt(np.round(pts, 9))}")
back = ax.transData.inverted().transform(pts)
out.append(f"e2e roundtrip={fmt(np.round(back, 9))}")
fig.canvas.draw()
out.append(f"e2e ticks={fmt(ax.get_xticks())} labels={[t.get_text() for t in ax.get_xticklabels()]}")
ax.set_yscale("squareroot")
fig.canvas.draw()
out.append(f"e2e y ticks={fmt(ax.get_yticks())} ylim={fmt(ax.get_ylim())}")
plt.close("all")

# ---------------------------------------------------------------- module surface that callers rely on
for nm in ("SquareRootScale", "plot_pseudopressure", "plot_recovery_rate", "plot_recovery_factor", "Reservoir",
           "IdealReservoir", "SinglePhaseReservoir", "TwoPhaseReservoir", "MultiPhaseReservoir", "np", "plt"):
    out.append(f"has {nm}: {hasattr(plotting, nm)}")
import inspect

for f in (plot_pseudopressure, plot_recovery_rate, plot_recovery_factor):
    sig = inspect.signature(f)
    pos = [(p.name, repr(p.default)) for p in sig.parameters.values() if p.kind == p.POSITIONAL_OR_KEYWORD]
    out.append(f"sig {f.__name__}: {pos}")

with open(sys.argv[1], "w") as fh:
    fh.write("\n".join(out) + "\n")
