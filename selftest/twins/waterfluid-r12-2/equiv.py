"""Equivalence driver for twin2: build_pvt_gas and pseudopressure (positional quadrature)."""
import os
import sys
import warnings

import numpy as np
import pandas as pd

from bluebonnet.fluids import fluid as fluid_module
from bluebonnet.fluids.fluid import build_pvt_gas, pseudopressure

DATA = os.environ.get("BB_DATA", "/tmp/twin12_waterfluid/tests/data")
out = []


def fmt(v):
    if isinstance(v, pd.DataFrame):
        cols = ";".join(f"{c}={fmt(v[c].to_numpy())}" for c in v.columns)
        return f"DataFrame index={list(v.index)!r} cols={list(v.columns)!r} {cols}"
    if isinstance(v, pd.Series):
        return f"Series index={list(v.index)!r} values={fmt(v.to_numpy())}"
    if isinstance(v, np.ndarray):
        return f"ndarray{v.shape}{v.dtype}[" + ",".join(repr(x) for x in v.ravel().tolist()) + "]"
    return f"{type(v).__name__}:{v!r}"


def record(label, func, *args, **kwargs):
    with warnings.catch_warnings(record=True) as caught:
        warnings.simplefilter("always")
        try:
            res = fmt(func(*args, **kwargs))
        except Exception as e:  # noqa: BLE001
            res = f"EXC {type(e).__name__}: {e}"
    warn = sorted(f"{w.category.__name__}:{w.message}" for w in caught)  # with multiplicity
    out.append(f"{label} -> {res} | warnings={warn}")


# ---------------------------------------------------------------- build_pvt_gas
gas_a = {"N2": 0.03, "H2S": 0.012, "CO2": 0.018, "Gas Specific Gravity": 0.65,
         "Reservoir Temperature (deg F)": 400.0}
gas_b = {"N2": 0.0, "H2S": 0.0, "CO2": 0.0, "Gas Specific Gravity": 0.8,
         "Reservoir Temperature (deg F)": 200}
gas_c = {"N2": 0.05, "H2S": 0.01, "CO2": 0.04, "Gas Specific Gravity": "0.7",
         "Reservoir Temperature (deg F)": 285.21375}
gas_series = pd.Series(gas_a)
gas_np = {k: np.float64(v) for k, v in gas_a.items()}
for gname, g in [("a", gas_a), ("b", gas_b), ("series", gas_series), ("np", gas_np)]:
    for dry in ("dry gas", "wet gas"):
        for pmax in (10, 10.0, 15.0, 20.0, 20.5, 35, 300.0, 1500):
            record(f"build({gname},{dry},{pmax})", build_pvt_gas, g, dry, pmax)
record("build(a,dry,default)[::50]", lambda: build_pvt_gas(gas_a, "dry gas").iloc[::50])
record("build(b,wet,kw)", lambda: build_pvt_gas(gas_values=gas_b, gas_dryness="wet gas",
                                                maximum_pressure=14_000).iloc[::97])
record("build(c str sg)", build_pvt_gas, gas_c, "dry gas", 100.0)
record("build(bad dryness)", build_pvt_gas, gas_a, "oil", 100.0)
record("build(negative pmax)", build_pvt_gas, gas_a, "dry gas", -5.0)
record("build(nan pmax)", build_pvt_gas, gas_a, "dry gas", float("nan"))
record("build(str pmax)", build_pvt_gas, gas_a, "dry gas", "100")
record("build(None pmax)", build_pvt_gas, gas_a, "dry gas", None)
for missing in gas_a:
    g = {k: v for k, v in gas_a.items() if k != missing}
    record(f"build(missing {missing})", build_pvt_gas, g, "dry gas", 100.0)
record("build(sg array)", build_pvt_gas, {**gas_a, "Gas Specific Gravity": np.array([0.6, 0.7])},
       "dry gas", 100.0)
record("build(sg array, empty)", build_pvt_gas,
       {**gas_a, "Gas Specific Gravity": np.array([0.6, 0.7])}, "dry gas", 5.0)
record("build(T array)", build_pvt_gas,
       {**gas_a, "Reservoir Temperature (deg F)": np.array([300.0, 400.0])}, "dry gas", 100.0)
record("build(T None)", build_pvt_gas, {**gas_a, "Reservoir Temperature (deg F)": None},
       "dry gas", 100.0)
record("build(T cold)", build_pvt_gas, {**gas_a, "Reservoir Temperature (deg F)": -459.67},
       "dry gas", 100.0)
record("build(T nan)", build_pvt_gas, {**gas_a, "Reservoir Temperature (deg F)": float("nan")},
       "dry gas", 100.0)
record("build(heavy gas)", build_pvt_gas, {**gas_a, "Gas Specific Gravity": 1.8}, "wet gas", 400.0)
record("build(huge N2)", build_pvt_gas, {**gas_a, "N2": 0.97}, "wet gas", 200.0)

# the integrand can hit 0/0, x/0, inf/inf when a correlation is mocked to degenerate values;
# both trees must stay silent there
orig = fluid_module.viscosity_Sutton
for val in (0.0, float("inf"), float("nan"), 1e-320, -0.0):
    fluid_module.viscosity_Sutton = lambda *a, _v=val: _v
    record(f"build(viscosity={val!r})", build_pvt_gas, gas_a, "dry gas", 60.0)
fluid_module.viscosity_Sutton = orig
orig = fluid_module.z_factor_DAK
for val in (0.0, float("inf"), 1e308):
    fluid_module.z_factor_DAK = lambda *a, _v=val: _v
    record(f"build(z={val!r})", build_pvt_gas, gas_a, "dry gas", 60.0)
fluid_module.z_factor_DAK = orig

# ---------------------------------------------------------------- pseudopressure
p = np.array([10.0, 100.0, 1000.0, 2500.0, 5000.0, 9000.0])
mu = np.array([0.012, 0.0125, 0.015, 0.019, 0.025, 0.033])
z = np.array([0.999, 0.99, 0.92, 0.88, 0.97, 1.25])
record("pp(ndarray)", pseudopressure, p, mu, z)
record("pp(kw)", lambda: pseudopressure(pressure=p, viscosity=mu, z_factor=z))
record("pp(unsorted)", pseudopressure, p[::-1], mu[::-1], z[::-1])
record("pp(int pressure)", pseudopressure, p.astype(int), mu, z)
record("pp(float32)", pseudopressure, p.astype(np.float32), mu.astype(np.float32),
       z.astype(np.float32))
record("pp(single)", pseudopressure, p[:1], mu[:1], z[:1])
record("pp(empty)", pseudopressure, p[:0], mu[:0], z[:0])
record("pp(scalars)", pseudopressure, 1000.0, 0.02, 0.9)
record("pp(np scalars)", pseudopressure, np.float64(1000.0), np.float64(0.02), np.float64(0.9))
record("pp(0-d)", pseudopressure, np.array(1000.0), np.array(0.02), np.array(0.9))
record("pp(lists)", pseudopressure, list(p), list(mu), list(z))
record("pp(list pressure only)", pseudopressure, list(p), mu, z)
record("pp(tuple z)", pseudopressure, p, mu, tuple(z))
record("pp(scalar mu,z)", pseudopressure, p, 0.02, 0.9)
record("pp(mismatch)", pseudopressure, p, mu[:-1], z)
record("pp(mismatch2)", pseudopressure, p[:-1], mu, z)
record("pp(zero z)", pseudopressure, p, mu, np.zeros_like(z))
record("pp(nan)", pseudopressure, p, np.where(mu > 0.02, np.nan, mu), z)
record("pp(inf)", pseudopressure, np.append(p, np.inf), np.append(mu, np.inf), np.append(z, 1.0))
record("pp(None)", pseudopressure, None, mu, z)
record("pp(strings)", pseudopressure, np.array(["a", "b"]), np.array([1.0, 2.0]),
       np.array([1.0, 2.0]))
record("pp(object)", pseudopressure, p.astype(object), mu.astype(object), z.astype(object))
record("pp(2d)", pseudopressure, np.vstack([p, 2 * p]), np.vstack([mu, mu]), np.vstack([z, z]))
record("pp(2d pressure,1d rest)", pseudopressure, np.vstack([p, 2 * p]), mu, z)
record("pp(1d pressure,2d rest)", pseudopressure, p, np.vstack([mu, mu]), np.vstack([z, z]))
record("pp(column vectors)", pseudopressure, p[:, None], mu[:, None], z[:, None])
record("pp(matrix)", pseudopressure, np.asmatrix(p), np.asmatrix(mu), np.asmatrix(z))
record("pp(masked)", pseudopressure, np.ma.masked_greater(p, 4000.0), np.ma.array(mu),
       np.ma.array(z))
record("pp(complex)", pseudopressure, p.astype(complex), mu, z)

# pandas input: default, shuffled, duplicate, string, datetime and mismatching indexes
indexes = {
    "default": pd.RangeIndex(6),
    "shuffled": pd.Index([3, 0, 5, 1, 4, 2]),
    "duplicate": pd.Index([1, 1, 2, 2, 2, 0]),
    "string": pd.Index(list("fbadce")),
    "float": pd.Index([0.5, 0.25, 8.0, -1.0, 3.0, 2.0]),
    "dates": pd.date_range("2020-01-01", periods=6)[::-1],
    "multi": pd.MultiIndex.from_product([["x", "y"], [2, 1, 0]]),
    "offset": pd.RangeIndex(100, 106),
}
for iname, idx in indexes.items():
    sp_, smu, sz = (pd.Series(a, index=idx) for a in (p, mu, z))
    record(f"pp(series {iname})", pseudopressure, sp_, smu, sz)
    record(f"pp(series {iname}, ndarray mu z)", pseudopressure, sp_, mu, z)
    record(f"pp(ndarray p, series {iname})", pseudopressure, p, smu, sz)
    record(f"pp(series {iname} p,z; default mu)", pseudopressure, sp_, pd.Series(mu), sz)
    record(f"pp(series {iname} p; reversed-label mu,z)", pseudopressure, sp_,
           pd.Series(mu, index=idx[::-1]), pd.Series(z, index=idx[::-1]))
    record(f"pp(series {iname} sliced)", pseudopressure, sp_.iloc[1:], smu.iloc[:-1], sz)
    df = pd.DataFrame({"pressure": p, "viscosity": mu, "z-factor": z}, index=idx)
    record(f"pp(frame cols {iname})", pseudopressure, df["pressure"], df["viscosity"],
           df["z-factor"])
    record(f"pp(one-col frames {iname})", pseudopressure, df[["pressure"]], df[["viscosity"]],
           df[["z-factor"]])
    record(f"pp(index obj {iname})", pseudopressure, pd.Index(p), smu, sz)
record("pp(nullable Float64)", pseudopressure, pd.Series(p, dtype="Float64"),
       pd.Series(mu, dtype="Float64"), pd.Series(z, dtype="Float64"))
record("pp(nullable with NA)", pseudopressure, pd.Series(p, dtype="Float64"),
       pd.Series([0.012, None, 0.015, 0.019, 0.025, 0.033], dtype="Float64"),
       pd.Series(z, dtype="Float64"))

# tables shipped with the tests, read with default / shuffled / string / duplicate indexes
tables = [
    ("pvt_gas.csv", "P", "Viscosity", "Z-Factor"),
    ("pvt_ideal_gas.csv", "P", "Viscosity", "Z-Factor"),
    ("pvt_gas_HAYNESVILLE SHALE_20.csv", "pressure", "viscosity", "z-factor"),
    ("pvt_oil.csv", "P", "Gas_Viscosity", "Z-Factor"),
]
rng = np.random.default_rng(12)
for name, cp, cmu, cz in tables:
    t = pd.read_csv(os.path.join(DATA, name)).iloc[::7]
    variants = {
        "asread": t,
        "reset": t.reset_index(drop=True),
        "shuffled_labels": t.set_axis(rng.permutation(len(t)), axis=0),
        "shuffled_rows": t.sample(frac=1.0, random_state=3),
        "string": t.set_axis([f"row{i:04d}" for i in range(len(t))][::-1], axis=0),
        "duplicate": t.set_axis(np.arange(len(t)) // 2, axis=0),
        "by_pressure": t.set_index(cp, drop=False),
    }
    for vname, tv in variants.items():
        record(f"pp(table {name} {vname})", pseudopressure, tv[cp], tv[cmu], tv[cz])
        record(f"pp(table {name} {vname} to_numpy)", pseudopressure, tv[cp].to_numpy(),
               tv[cmu].to_numpy(), tv[cz].to_numpy())
    record(f"pp(table {name} mixed variants)", pseudopressure, variants["shuffled_rows"][cp],
           variants["asread"][cmu], variants["asread"][cz])
    record(f"pp(table {name} dup vs reset)", pseudopressure, variants["duplicate"][cp],
           variants["reset"][cmu], variants["duplicate"][cz])

with open(sys.argv[1], "w") as fh:
    fh.write("\n".join(out) + "\n")
