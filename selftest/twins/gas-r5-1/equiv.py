"""Equivalence driver for twin1: z_factor_hallyarbrough (loop-invariant hoisting)."""
import sys
import warnings

import numpy as np

from bluebonnet.fluids import gas

warnings.simplefilter("ignore")


def show(x):
    if isinstance(x, np.ndarray):
        return "ndarray%s[%s]" % (x.shape, ", ".join(show(v) for v in x.ravel()))
    if isinstance(x, (tuple, list)):
        return type(x).__name__ + "(" + ", ".join(show(v) for v in x) + ")"
    if isinstance(x, complex):
        return "%s:%r" % (type(x).__name__, x)
    return "%s:%r" % (type(x).__name__, x.hex() if isinstance(x, float) else x)


def call(f, *a, **k):
    try:
        return show(f(*a, **k))
    except Exception as e:  # noqa: BLE001
        return "EXC " + type(e).__name__


out = []
# pressure in psi, "temperature" is the reduced temperature handed in by callers
pressures = [14.7, 100.0, 500.0, 1000, 2500.0, 5000.0, 8000.0, 12000.0, np.float64(3333.3)]
temps = [1.05, 1.2, 1.5, 1.9, 2.4, 3.0, 2, np.float64(1.7)]
for p in pressures:
    for t in temps:
        out.append(f"hy({p!r},{t!r}) = " + call(gas.z_factor_hallyarbrough, p, t))
# reduced pressures (the correlation's natural argument)
for p in [0.2, 0.5, 1.0, 2.0, 4.0, 8.0, 15.0]:
    for t in [1.1, 1.3, 1.6, 2.0, 2.8]:
        out.append(f"hy({p!r},{t!r}) = " + call(gas.z_factor_hallyarbrough, p, t))
# size-one arrays go through, longer arrays raise in the while test
out.append("arr1 = " + call(gas.z_factor_hallyarbrough, np.array([2.0]), 1.5))
out.append("arr1t = " + call(gas.z_factor_hallyarbrough, 2.0, np.array([1.5])))
out.append("arr3 = " + call(gas.z_factor_hallyarbrough, np.array([1.0, 2.0, 3.0]), 1.5))
out.append("arr3t = " + call(gas.z_factor_hallyarbrough, 2.0, np.array([1.5, 1.6])))
# error / degenerate inputs
out.append("zeroT = " + call(gas.z_factor_hallyarbrough, 2.0, 0))
out.append("zeroTf = " + call(gas.z_factor_hallyarbrough, 2.0, 0.0))
out.append("zeroTnp = " + call(gas.z_factor_hallyarbrough, 2.0, np.float64(0.0)))
out.append("nanP = " + call(gas.z_factor_hallyarbrough, float("nan"), 1.5))
out.append("nanT = " + call(gas.z_factor_hallyarbrough, 2.0, float("nan")))
out.append("infP = " + call(gas.z_factor_hallyarbrough, float("inf"), 1.5))
out.append("strP = " + call(gas.z_factor_hallyarbrough, "2.0", 1.5))
out.append("strT = " + call(gas.z_factor_hallyarbrough, 2.0, "1.5"))
out.append("listP = " + call(gas.z_factor_hallyarbrough, [2.0], 1.5))
out.append("noneP = " + call(gas.z_factor_hallyarbrough, None, 1.5))
out.append("tinyT = " + call(gas.z_factor_hallyarbrough, 2.0, 1e-200))
out.append("zeroP = " + call(gas.z_factor_hallyarbrough, 0.0, 1.5))
out.append("zeroPi = " + call(gas.z_factor_hallyarbrough, 0, 2))
out.append("negP = " + call(gas.z_factor_hallyarbrough, -1.0, 1.5))

with open(sys.argv[1], "w") as fh:
    fh.write("\n".join(out) + "\n")
