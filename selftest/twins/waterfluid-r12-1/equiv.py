"""Equivalence driver for twin1: Fluid methods (water_FVF, gas_FVF, gas_viscosity, oil_viscosity)."""
import sys
import warnings

import numpy as np
import pandas as pd

from bluebonnet.fluids.fluid import Fluid

out = []


def fmt(v):
    if isinstance(v, (pd.Series, pd.DataFrame)):
        return f"{type(v).__name__} index={list(v.index)!r} values={fmt(v.to_numpy())}"
    if isinstance(v, np.ndarray):
        return f"ndarray{v.shape}{v.dtype}[" + ",".join(repr(x) for x in v.ravel().tolist()) + "]"
    if isinstance(v, (tuple, list)):
        return type(v).__name__ + "(" + ",".join(fmt(x) for x in v) + ")"
    return f"{type(v).__name__}:{v!r}"


def record(label, func, *args, **kwargs):
    with warnings.catch_warnings(record=True) as caught:
        warnings.simplefilter("always")
        try:
            res = fmt(func(*args, **kwargs))
        except Exception as e:  # noqa: BLE001
            res = f"EXC {type(e).__name__}: {e}"
    warn = sorted(f"{w.category.__name__}:{w.message}" for w in caught)  # with multiplicity
    out.append(f"{label} -> {res} | warnings={warn}")


fluids = {
    "base": Fluid(200.0, 35.0, 0.8, 650.0),
    "hot_salty": Fluid(400, 35, 0.65, 0, salinity=15.0, water_saturation_initial=0.2),
    "heavy": Fluid(150.0, 18.0, 0.9, 300.0, 5.0),
    "light": Fluid(250.5, 48.0, 0.7, 1500.0),
    "np_scalars": Fluid(np.float64(180.0), np.float64(30.0), np.float64(0.75), np.float64(500.0)),
}
pressures = {
    "arr": np.array([14.7, 100.0, 1000.0, 2627.2017021875276, 3000.0, 8000.0, 13990.0]),
    "arr_int": np.array([100, 2000, 5000]),
    "list": [50.0, 500.0, 5000.0],
    "list_int": [100, 2000],
    "tuple": (1500.0, 2500.0),
    "one": np.array([3000.0]),
    "empty": np.array([]),
    "empty_list": [],
    "two_d": np.array([[100.0, 2000.0], [3000.0, 9000.0]]),
    "series": pd.Series([500.0, 4000.0], index=["b", "a"]),
    "series_dup": pd.Series([500.0, 4000.0, 600.0], index=[3, 3, 0]),
    "scalar": 3000.0,
    "scalar_int": 3000,
    "np_scalar": np.float64(3000.0),
    "zero_d": np.array(3000.0),
    "none": None,
    "string": "abc",
    "with_nan": np.array([1000.0, np.nan, 3000.0]),
    "negative": np.array([-100.0, 0.0, 100.0]),
    "linspace": np.linspace(20.0, 12000.0, 41),
}
pseudocriticals = [(-102.21827232417752, 648.510797253794), (-72.20351526841193, 653.2582064200534)]

for fname, fluid in fluids.items():
    for pname, p in pressures.items():
        record(f"{fname}.water_FVF({pname})", fluid.water_FVF, p)
        record(f"{fname}.oil_viscosity({pname})", fluid.oil_viscosity, p)
        for tpc, ppc in pseudocriticals:
            record(f"{fname}.gas_FVF({pname},{tpc:.0f})", fluid.gas_FVF, p, tpc, ppc)
            record(f"{fname}.gas_viscosity({pname},{tpc:.0f})", fluid.gas_viscosity, p, tpc, ppc)
    record(f"{fname}.gas_FVF(arr, None)", fluid.gas_FVF, pressures["arr"], None, 650.0)
    record(f"{fname}.gas_viscosity(kw)", fluid.gas_viscosity, pressure=pressures["list"],
           temperature_pseudocritical=-100.0, pressure_pseudocritical=650.0)
    record(f"{fname}.repr", repr, fluid)

# attribute changed after construction is picked up on the next call
f = Fluid(200.0, 35.0, 0.8, 650.0)
record("mut.before", f.gas_viscosity, pressures["list"], -100.0, 650.0)
f.temperature = 300.0
f.gas_specific_gravity = 0.7
record("mut.after.gas_viscosity", f.gas_viscosity, pressures["list"], -100.0, 650.0)
record("mut.after.gas_FVF", f.gas_FVF, pressures["list"], -100.0, 650.0)
record("mut.after.water_FVF", f.water_FVF, pressures["list"])
record("mut.after.oil_viscosity", f.oil_viscosity, pressures["arr"])
# bad attribute types
bad = Fluid("hot", 35.0, 0.8, 650.0)
record("bad.water_FVF", bad.water_FVF, pressures["list"])
record("bad.gas_FVF", bad.gas_FVF, pressures["list"], -100.0, 650.0)
record("bad.gas_viscosity", bad.gas_viscosity, pressures["list"], -100.0, 650.0)
record("bad.oil_viscosity", bad.oil_viscosity, pressures["list"])
record("bad.water_FVF(empty)", bad.water_FVF, [])
record("bad.gas_viscosity(scalar)", bad.gas_viscosity, 3.0, -100.0, 650.0)

with open(sys.argv[1], "w") as fh:
    fh.write("\n".join(out) + "\n")
