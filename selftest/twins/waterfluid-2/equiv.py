"""Equivalence driver for twin2: viscosity_water_McCain (and Fluid.water_viscosity)."""
from __future__ import annotations

import os
import sys
import warnings

import numpy as np
import pandas as pd

warnings.simplefilter("ignore")

from bluebonnet.fluids import water
from bluebonnet.fluids.fluid import Fluid

BB_DATA = os.environ.get("BB_DATA", "/tmp/twin_waterfluid/tests/data")


def show(x):
    if isinstance(x, np.ndarray):
        return f"ndarray{x.shape}{x.dtype}[" + ",".join(show(v) for v in x.ravel().tolist()) + "]"
    if isinstance(x, (pd.Series,)):
        return "Series:" + show(x.to_numpy())
    if isinstance(x, (list, tuple)):
        return type(x).__name__ + "(" + ",".join(show(v) for v in x) + ")"
    return f"{type(x).__name__}:{x!r}"


def call(out, label, f, *a, **k):
    try:
        r = show(f(*a, **k))
    except BaseException as e:  # noqa: BLE001
        r = "EXC " + type(e).__name__
    out.append(f"{label} -> {r}")


def main(outfile):
    out = []
    temps = [0, 0.0, 32, 60.0, 200, 212.5, 400, -40.0, -40, 1e-300, 1e200, 1e308, np.float64(150.0),
             np.float64(0.0), np.float32(150.0), float("nan"), float("inf"), True, 3 + 2j, None,
             "hot", np.array([100.0, 200.0, 0.0, -5.0]), np.int64(300), 10**400]
    press = [0, 14.7, 3000, 4000.0, -500.0, 1e160, 1e200, np.float64(2500.0),
             np.array([0.0, 10.0, 1000.0, 5000.0, 15000.0]), np.array([100, 2000, 30000]),
             np.array([]), np.array([[1.0, 2.0], [3.0, 4.0]]), np.array([1e160, 1e200]),
             float("nan"), [1000.0, 2000.0], None, "p", pd.Series([100.0, 2500.0]), 10**200,
             np.array([1.0, 2.0, 3.0, 4.0])]
    sals = [0, 0.0, 5, 15, 26.0, -3.0, 100.0, 1e80, 1e100, np.float64(10.0), np.int64(20),
            np.array([0.0, 15.0]), np.array([0.0, 5.0, 15.0, 25.0]), float("nan"), None, "s",
            2 + 1j, 10**100]
    for i, t in enumerate(temps):
        for j, p in enumerate(press):
            for k, s in enumerate(sals):
                call(out, f"mu_w[{i},{j},{k}]", water.viscosity_water_McCain, t, p, s)
    call(out, "mu_w kw", water.viscosity_water_McCain, salinity=15, temperature=400, pressure=3000)
    call(out, "mu_w missing", water.viscosity_water_McCain, 400, 3000)
    call(out, "mu_w doc", water.viscosity_water_McCain, 400, 3000, 15)
    df = pd.read_csv(os.path.join(BB_DATA, "pvt_water.csv"))
    for s in [0, 5.0, 15, 25]:
        call(out, f"table mu_w s={s}", water.viscosity_water_McCain, 200, df["P"].to_numpy(), s)
        call(out, f"table mu_w T-arr s={s}", water.viscosity_water_McCain, df["T"].to_numpy(), df["P"], s)
    for t in [60, 200.0, 400, 0, -10.0, np.float64(250.0), "x", None]:
        for s in [0.0, 15, None]:
            fl = Fluid(t, 35, 0.8, 650, salinity=s)
            for p in [np.array([100.0, 3000.0]), [50, 7000], np.array([]), 3000.0, 4000,
                      df["P"].to_numpy()[:50]]:
                call(out, f"Fluid({t!r},sal={s!r}).water_viscosity", fl.water_viscosity, p)
    with open(outfile, "w") as fh:
        fh.write("\n".join(out) + "\n")


if __name__ == "__main__":
    main(sys.argv[1])
