"""Equivalence driver for bluebonnet.plotting (shared by the five twins)."""

from __future__ import annotations

import os
import sys
import warnings

import matplotlib

matplotlib.use("Agg")
import matplotlib.pyplot as plt
import numpy as np
import pandas as pd

from bluebonnet.flow import FlowProperties, IdealReservoir, SinglePhaseReservoir
from bluebonnet.plotting import (
    SquareRootScale,
    plot_pseudopressure,
    plot_recovery_factor,
    plot_recovery_rate,
)

warnings.simplefilter("ignore")
DATA = os.environ.get("BB_DATA", "/tmp/twin5_plotting/tests/data")
OUT = []


def fmt(v):
    if v is None or isinstance(v, (str, bool)):
        return repr(v)
    if isinstance(v, (tuple, list)):
        return "[" + ", ".join(fmt(x) for x in v) + "]"
    a = np.asarray(v)
    if a.ndim == 0:
        try:
            return type(v).__name__ + ":" + float(a).hex()
        except (TypeError, ValueError):
            return repr(v)
    return (
        f"arr{a.shape}{a.dtype}["
        + ",".join(float(x).hex() if a.dtype.kind in "fiu" else repr(x) for x in a.ravel())
        + "]"
    )


def describe_axes(ax):
    rows = []
    rows.append("nlines=%d" % len(ax.lines))
    for line in ax.lines:
        rows.append(
            "line color=%r label=%r lw=%r ls=%r x=%s y=%s"
            % (
                line.get_color(),
                line.get_label(),
                line.get_linewidth(),
                line.get_linestyle(),
                fmt(line.get_xdata(orig=True)),
                fmt(line.get_ydata(orig=True)),
            )
        )
    rows.append("xlim=" + fmt(ax.get_xlim()) + " ylim=" + fmt(ax.get_ylim()))
    rows.append("xscale=%r yscale=%r" % (ax.get_xscale(), ax.get_yscale()))
    rows.append("xlabel=%r ylabel=%r" % (ax.get_xlabel(), ax.get_ylabel()))
    rows.append("xticks=" + fmt(ax.get_xticks()))
    rows.append("xloc=%s" % type(ax.xaxis.get_major_locator()).__name__)
    return rows


def record(tag, func, *args, **kwargs):
    plt.close("all")
    given_ax = kwargs.get("ax", args[1] if len(args) > 1 and func is not plot_pseudopressure else None)
    try:
        res = func(*args, **kwargs)
    except Exception as e:  # noqa: BLE001
        OUT.append(f"{tag}: EXC {type(e).__name__} nfig={len(plt.get_fignums())}")
        if given_ax is not None:
            try:
                OUT.extend(f"{tag}:   after-exc {r}" for r in describe_axes(given_ax))
            except Exception as e2:  # noqa: BLE001
                OUT.append(f"{tag}:   after-exc describe failed {type(e2).__name__}")
        elif plt.get_fignums():
            fig = plt.figure(plt.get_fignums()[-1])
            for a in fig.axes:
                try:
                    OUT.extend(f"{tag}:   after-exc {r}" for r in describe_axes(a))
                except Exception as e2:  # noqa: BLE001
                    OUT.append(f"{tag}:   after-exc describe failed {type(e2).__name__}")
        return
    OUT.append(f"{tag}: OK type={type(res).__name__} nfig={len(plt.get_fignums())} same_ax={res is given_ax}")
    OUT.extend(f"{tag}:   {r}" for r in describe_axes(res))


def value(tag, func, *args, **kwargs):
    try:
        res = func(*args, **kwargs)
    except Exception as e:  # noqa: BLE001
        OUT.append(f"{tag}: EXC {type(e).__name__}")
        return None
    OUT.append(f"{tag}: {type(res).__name__} {fmt(res)}")
    return res


class LoggingTime(np.ndarray):
    """ndarray subclass - checks that subclasses of time are treated as before."""


def build_reservoirs():
    renamer = {
        "P": "pressure",
        "Z-Factor": "z-factor",
        "Cg": "compressibility",
        "Viscosity": "viscosity",
        "Density": "density",
    }
    pvt_gas = pd.read_csv(os.path.join(DATA, "pvt_gas.csv")).rename(columns=renamer)
    fluid = FlowProperties(pvt_gas, 2e3)
    res = {}

    r = SinglePhaseReservoir(30, pressure_fracface=100.0, pressure_initial=2e3, fluid=fluid)
    r.simulate(np.linspace(0, np.sqrt(11), 400) ** 2)
    res["single"] = r

    r = SinglePhaseReservoir(12, pressure_fracface=500.0, pressure_initial=2e3, fluid=fluid)
    r.simulate(np.linspace(0, 1.5, 41) ** 2, pressure_fracface=np.linspace(1500.0, 300.0, 41))
    res["single_varpf"] = r

    r = SinglePhaseReservoir(10, pressure_fracface=100.0, pressure_initial=2e3, fluid=fluid)
    r.simulate([0.0, 0.001, 0.004, 0.01, 0.05, 0.1, 0.4, 1.0])  # plain list of times
    res["single_listtime"] = r

    r = SinglePhaseReservoir(10, pressure_fracface=100.0, pressure_initial=2e3, fluid=fluid)
    r.simulate(np.arange(0, 7))  # integer times
    res["single_inttime"] = r

    r = SinglePhaseReservoir(10, pressure_fracface=2e3, pressure_initial=2e3, fluid=fluid)
    r.simulate(np.linspace(0, 1, 9) ** 2)  # no drawdown: 0/0 in rescale
    res["single_nodrawdown"] = r

    r = IdealReservoir(20, pressure_fracface=100.0, pressure_initial=2e3)
    r.simulate(np.linspace(0, 2, 101) ** 2)
    res["ideal"] = r

    r = IdealReservoir(8, pressure_fracface=np.float64(250.0), pressure_initial=1e3)
    r.simulate((np.linspace(0, 1, 5) ** 2).view(LoggingTime))
    res["ideal_subclass_time"] = r

    r = IdealReservoir(8, pressure_fracface=100.0, pressure_initial=2e3)
    r.simulate(np.array([0.0, 0.5]))
    res["ideal_two_steps"] = r

    r = IdealReservoir(8, pressure_fracface=100.0, pressure_initial=2e3)
    r.simulate(np.array([0.0]))
    res["ideal_one_step"] = r

    r = IdealReservoir(8, pressure_fracface=100.0, pressure_initial=2e3)
    r.simulate(np.array([0.0, 0.1, np.nan, 0.5]))
    res["ideal_nan_time"] = r

    res["unsimulated"] = IdealReservoir(8, pressure_fracface=100.0, pressure_initial=2e3)
    res["unsimulated_single"] = SinglePhaseReservoir(
        8, pressure_fracface=100.0, pressure_initial=2e3, fluid=fluid
    )
    return res


def main(outfile):
    reservoirs = build_reservoirs()

    # ---- scale / transforms -------------------------------------------------
    fwd = SquareRootScale.SquareRootTransform()
    inv = SquareRootScale.InvertedSquareRootTransform()
    samples = [
        0.0, -0.0, 4.0, 2, -1.0, np.nan, np.inf, True, 3 + 0j, "a", None,
        [0.0, 1.0, 2.0, 9.0], [1, 4, 9], (0.25, 16.0), [[1.0, 4.0], [9.0, 16.0]],
        np.array([0.0, 1e-300, 1e300, -4.0, np.nan]), np.array([1, 2, 3], dtype=np.int32),
        np.float32(2.0), np.array([2.0, 3.0], dtype=np.float32), [], np.ma.masked_array([1.0, 4.0], [0, 1]),
    ]
    for i, s in enumerate(samples):
        value(f"fwd.transform_non_affine[{i}]", fwd.transform_non_affine, s)
        value(f"inv.transform[{i}]", inv.transform, s)
        if i in (0, 2, 11, 15):
            value(f"fwd.transform[{i}]", fwd.transform, s)
    OUT.append("fwd.inverted: " + type(fwd.inverted()).__name__)
    OUT.append("inv.inverted: " + type(inv.inverted()).__name__)
    OUT.append(f"dims: {fwd.input_dims} {fwd.output_dims} {fwd.is_separable} {inv.input_dims} {inv.output_dims} {inv.is_separable}")
    OUT.append("scale name: " + SquareRootScale.name)
    fig, ax = plt.subplots()
    scale = SquareRootScale(ax.xaxis)
    OUT.append("get_transform: " + type(scale.get_transform()).__name__)
    for vmin, vmax in [
        (-1.0, 2.0), (0.0, 1.0), (-0.0, 1.0), (0, 5), (3, 5), (2.5, 1.0), (np.nan, 1.0),
        (np.float64(-3.0), None), (np.inf, -np.inf), (True, 2), ("a", 1), (None, 1),
        (np.array([1.0, -1.0]), 2.0),
    ]:
        for minpos in (1e-300, None):
            value(f"limit_range({vmin!r},{vmax!r},{minpos!r})", scale.limit_range_for_scale, vmin, vmax, minpos)
    value("SquareRootScale(axis, foo=1)", SquareRootScale, ax.xaxis, foo=1)
    scale.set_default_locators_and_formatters(ax.yaxis)
    OUT.append(
        "locators: %s %s %s %s"
        % (
            type(ax.yaxis.get_major_locator()).__name__,
            type(ax.yaxis.get_major_formatter()).__name__,
            type(ax.yaxis.get_minor_locator()).__name__,
            type(ax.yaxis.get_minor_formatter()).__name__,
        )
    )
    ax.set_xscale("squareroot")
    ax.plot([0.0, 1.0, 4.0, 9.0], [0, 1, 2, 3])
    ax.set_xlim(-2, 9)
    OUT.append("squareroot axis xlim=" + fmt(ax.get_xlim()))
    OUT.append("squareroot data->axes " + fmt(ax.transData.transform(np.array([[0.0, 0.0], [1.0, 1.0], [4.0, 2.0], [9.0, 3.0]]))))
    OUT.append("squareroot axes->data " + fmt(ax.transData.inverted().transform(np.array([[100.0, 100.0], [300.0, 200.0]]))))
    plt.close("all")

    # ---- plot_pseudopressure -------------------------------------------------
    for name, r in reservoirs.items():
        record(f"pp[{name}] default", plot_pseudopressure, r)
        for every in (1, 3, 50, 200, -2, 0, 2.5, True, np.int64(4), None, "a"):
            for rescale in (False, True):
                record(f"pp[{name}] every={every!r} rescale={rescale}", plot_pseudopressure, r, every, rescale)
        _, ax = plt.subplots()
        record(f"pp[{name}] ax given", plot_pseudopressure, r, 7, True, ax)
        _, ax = plt.subplots()
        record(f"pp[{name}] kw", plot_pseudopressure, r, every=5, rescale=1, ax=ax, x_max=0.5, y_max=3.0,
               plot_kwargs={"lw": 3.0, "ls": "--"})
        record(f"pp[{name}] positional all", plot_pseudopressure, r, 9, False, None, 2, None, {"label": "m"})
        record(f"pp[{name}] dup color", plot_pseudopressure, r, 5, plot_kwargs={"color": "r"})
        record(f"pp[{name}] dup color rescale", plot_pseudopressure, r, 5, True, plot_kwargs={"color": "r"})
        record(f"pp[{name}] bad kwargs type", plot_pseudopressure, r, 5, plot_kwargs=[1])
        record(f"pp[{name}] bad line prop", plot_pseudopressure, r, 5, plot_kwargs={"nonsense": 1})
        record(f"pp[{name}] empty kwargs", plot_pseudopressure, r, 5, plot_kwargs={})
        record(f"pp[{name}] bad ax", plot_pseudopressure, r, 5, ax="not an axes")
    # plot_kwargs must not be mutated
    kw = {"lw": 1.5}
    plot_pseudopressure(reservoirs["ideal"], 10, plot_kwargs=kw)
    OUT.append(f"pp kwargs after call: {kw!r}")
    # stored state must not be modified
    r = reservoirs["single"]
    before = r.pseudopressure.copy()
    plot_pseudopressure(r, 10, rescale=True)
    OUT.append(f"pp state untouched: {np.array_equal(before, r.pseudopressure)}")
    record("pp no reservoir", plot_pseudopressure, None)

    # ---- plot_recovery_rate / plot_recovery_factor -------------------------
    for fname, func in (("rate", plot_recovery_rate), ("factor", plot_recovery_factor)):
        for name, r in reservoirs.items():
            record(f"{fname}[{name}] default", func, r)
            for change_ticks in (False, True, 0, 1, "yes", None):
                _, ax = plt.subplots()
                record(f"{fname}[{name}] ticks={change_ticks!r}", func, r, ax, change_ticks)
            _, ax = plt.subplots()
            record(f"{fname}[{name}] kw", func, r, ax=ax, change_ticks=True, plot_kwargs={"color": "k", "lw": 0.5})
            record(f"{fname}[{name}] positional all", func, r, None, True, {"ls": ":"})
            record(f"{fname}[{name}] dup label", func, r, plot_kwargs={"label": "x"})
            record(f"{fname}[{name}] bad kwargs type", func, r, plot_kwargs=3)
            record(f"{fname}[{name}] bad line prop", func, r, None, True, {"nonsense": 1})
            record(f"{fname}[{name}] empty kwargs", func, r, plot_kwargs={})
            record(f"{fname}[{name}] bad ax", func, r, ax=42)
            if hasattr(r, "time"):
                t_before = np.array(r.time, dtype=float, copy=True)
                p_before = r.pseudopressure.copy()
                func(r) if name not in ("ideal_one_step",) else None
                OUT.append(
                    f"{fname}[{name}] state untouched: "
                    f"{np.array_equal(t_before, np.asarray(r.time, dtype=float), equal_nan=True)} "
                    f"{np.array_equal(p_before, r.pseudopressure)} {type(r.time).__name__}"
                )
                if hasattr(r, "recovery"):
                    OUT.append(f"{fname}[{name}] recovery={fmt(r.recovery)}")
        kw = {"lw": 1.5}
        func(reservoirs["ideal"], plot_kwargs=kw)
        OUT.append(f"{fname} kwargs after call: {kw!r}")
        record(f"{fname} no reservoir", func, None)
        # two calls on the same axes
        _, ax = plt.subplots()
        func(reservoirs["ideal"], ax)
        record(f"{fname} second call same axes", func, reservoirs["single"], ax, True)

    import bluebonnet.plotting as mod

    OUT.append(
        "public API: "
        + ",".join(
            sorted(
                n
                for n in dir(mod)
                if not n.startswith("_") and getattr(getattr(mod, n), "__module__", None) == mod.__name__
            )
        )
    )
    with open(outfile, "w") as fh:
        fh.write("\n".join(OUT) + "\n")


if __name__ == "__main__":
    main(sys.argv[1])
