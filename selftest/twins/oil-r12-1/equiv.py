"""Equivalence driver for twin1 (comparison masks evaluated once).

Usage: PYTHONPATH=<tree>/src python equiv.py <outfile>
"""
from __future__ import annotations

import os
import sys
import warnings

import numpy as np
import pandas as pd

from bluebonnet.fluids import oil
from bluebonnet.fluids.fluid import Fluid

DATA = os.environ.get("BB_DATA", "/tmp/twin12_oil/tests/data")
LINES: list[str] = []


def fmt(x):
    if isinstance(x, pd.Series):
        return f"Series(index={list(x.index)!r}, dtype={x.dtype}, values={fmt(x.to_numpy())})"
    if isinstance(x, pd.DataFrame):
        return f"DataFrame(cols={list(x.columns)!r}, index={list(x.index)!r}, values={fmt(x.to_numpy())})"
    if isinstance(x, np.ma.MaskedArray):
        return f"masked(mask={np.ma.getmaskarray(x).tolist()!r}, data={fmt(np.asarray(x.filled(-1.0)))})"
    if isinstance(x, np.ndarray):
        flat = [fmt(v) for v in x.ravel().tolist()]
        return f"ndarray(shape={x.shape}, dtype={x.dtype}, [{', '.join(flat)}])"
    if isinstance(x, (tuple, list)):
        return type(x).__name__ + "(" + ", ".join(fmt(v) for v in x) + ")"
    if isinstance(x, (float, np.floating)):
        return f"{type(x).__name__}:{float(x)!r}"
    if isinstance(x, (complex, np.complexfloating)):
        return f"{type(x).__name__}:{complex(x)!r}"
    return f"{type(x).__name__}:{x!r}"


def rec(label, func, *args, **kwargs):
    with warnings.catch_warnings(record=True) as caught:
        warnings.simplefilter("always")
        try:
            out = fmt(func(*args, **kwargs))
        except Exception as exc:  # noqa: BLE001
            out = f"RAISED {type(exc).__name__}: {exc}"
    cats = sorted({f"{w.category.__name__}: {w.message}" for w in caught})
    LINES.append(f"{label} -> {out} | warnings={cats}")


base = np.array([14.7, 100.0, 1500.0, 2603.0, 2603.1217021875277, 2604.0, 3000.0, 5000.0, 12000.0])
rng = np.random.default_rng(12)
shuffled = rng.permutation(base)

pressures = {
    "arr": base,
    "arr_shuffled": shuffled,
    "arr_all_below": np.array([10.0, 500.0, 2000.0]),
    "arr_all_above": np.array([3000.0, 4000.0, 9000.0]),
    "arr_empty": np.array([], dtype=float),
    "arr_len1_lo": np.array([1000.0]),
    "arr_len1_hi": np.array([4000.0]),
    "arr_int": np.array([100, 2000, 3000, 5000]),
    "arr_f32": np.array([100.0, 2000.0, 3000.0, 5000.0], dtype=np.float32),
    "arr_2d": base[:8].reshape(2, 4),
    "arr_inf": np.array([100.0, np.inf, 3000.0]),
    "arr_neg": np.array([-100.0, -25.0, 0.0, 3000.0]),
    "arr_strided": np.linspace(10.0, 6000.0, 24)[::3],
    "linspace": np.linspace(0.0, 14000.0, 57),
    "ser_default": pd.Series(base),
    "ser_shuffled_index": pd.Series(base, index=rng.permutation(len(base))),
    "ser_dup_index": pd.Series(base, index=[0, 0, 1, 1, 1, 2, 2, 0, 0]),
    "ser_str_index": pd.Series(shuffled, index=list("ihgfedcba")),
    "ser_float_index": pd.Series(base, index=base[::-1]),
    "ser_nullable": pd.Series([100.0, 3000.0, 2000.0, 5000.0], dtype="Float64"),
    "ser_nullable_na": pd.Series([100.0, None, 2000.0, 5000.0], dtype="Float64"),
    "ser_object": pd.Series([100.0, 3000.0, 2000.0], dtype=object),
    "ser_empty": pd.Series([], dtype=float),
    "index_obj": pd.Index([100.0, 3000.0, 2000.0]),
    "masked": np.ma.masked_array([100.0, 3000.0, 2000.0, 5000.0], mask=[0, 1, 0, 0]),
    "frame": pd.DataFrame({"a": [100.0, 3000.0], "b": [2000.0, 5000.0]}),
    "list": [100.0, 3000.0],
    "tuple": (100.0, 3000.0),
    "objarr": np.array([100.0, 3000.0, 2000.0], dtype=object),
    "strarr": np.array(["a", "b"]),
    "zero_d_lo": np.array(1000.0),
    "zero_d_hi": np.array(4000.0),
    "scalar_lo": 2000.0,
    "scalar_hi": 3000.0,
    "scalar_int": 2000,
    "scalar_np": np.float64(2700.0),
    "scalar_at_pb": 2603.1217021875277,
    "scalar_nan": float("nan"),
    "scalar_str": "2000",
    "none": None,
}
# arrays that contain NaN leave np.empty cells untouched in b_o_Standing (garbage on
# both trees), so they are only used with solution_gor_Standing
nan_pressures = {
    "arr_nan": np.array([100.0, np.nan, 3000.0]),
    "ser_nan": pd.Series([np.nan, 100.0, 3000.0], index=["x", "x", "y"]),
}

fluids = {
    "black": (200.0, 35.0, 0.8, 650.0),
    "ints": (200, 35, 1, 650),
    "light": (250.0, 45.0, 0.7, 1200.0),
    "heavy": (120.0, 15.0, 0.9, 80.0),
    "tiny_gor": (200.0, 35.0, 0.8, 1.0),  # negative bubble point: everything undersaturated
    "zero_gor": (200.0, 35.0, 0.8, 0.0),
    "neg_gor": (200.0, 35.0, 0.8, -5.0),  # complex bubble point
    "np_scalars": (np.float64(200.0), np.float64(35.0), np.float64(0.8), np.float64(650.0)),
    "nan_T": (float("nan"), 35.0, 0.8, 650.0),
    "api_array": (200.0, np.array([30.0, 35.0, 40.0]), 0.8, 650.0),
    "zero_gg": (200.0, 35.0, 0.0, 650.0),
}

for fname, (T, api, gg, gor) in fluids.items():
    for pname, p in {**pressures, **nan_pressures}.items():
        rec(f"solution_gor_Standing[{fname}][{pname}]", oil.solution_gor_Standing, T, p, api, gg, gor)
    for pname, p in pressures.items():
        if fname == "nan_T" and np.ndim(p) != 0:
            continue  # NaN bubble point: np.empty cells are never written (garbage on both trees)
        rec(f"b_o_Standing[{fname}][{pname}]", oil.b_o_Standing, T, p, api, gg, gor)
        rec(f"density_Standing[{fname}][{pname}]", oil.density_Standing, T, p, api, gg, gor)
    for pname in ("scalar_lo", "scalar_hi", "scalar_at_pb", "arr", "scalar_nan", "zero_d_lo"):
        p = pressures[pname]
        rec(f"viscosity_beggs_robinson[{fname}][{pname}]", oil.viscosity_beggs_robinson, T, p, api, gg, gor)
        rec(
            f"oil_compressibility_Standing[{fname}][{pname}]",
            oil.oil_compressibility_Standing, T, p, api, gg, gor, -72.2, 653.0,
        )

# keyword calling conventions
rec("kw_solution_gor", oil.solution_gor_Standing, temperature=200.0, pressure=base, api_gravity=35.0,
    gas_specific_gravity=0.8, solution_gor_initial=650.0)
rec("kw_b_o", oil.b_o_Standing, temperature=200.0, pressure=base, api_gravity=35.0,
    gas_specific_gravity=0.8, solution_gor_initial=650.0)
rec("missing_arg", oil.b_o_Standing, 200.0, base, 35.0, 0.8)

# inputs must not be modified
p_in = base.copy()
oil.b_o_Standing(200.0, p_in, 35.0, 0.8, 650.0)
oil.solution_gor_Standing(200.0, p_in, 35.0, 0.8, 650.0)
rec("input_untouched", lambda: p_in)
s_in = pd.Series(base, index=list("ihgfedcba"))
oil.b_o_Standing(200.0, s_in, 35.0, 0.8, 650.0)
rec("series_input_untouched", lambda: s_in)

# through the Fluid wrapper and with the pressures of the shipped tables
fl = Fluid(200.0, 35.0, 0.8, 650.0)
for pname in ("arr", "ser_str_index", "ser_dup_index", "scalar_lo", "scalar_hi", "arr_2d"):
    rec(f"Fluid.oil_FVF[{pname}]", fl.oil_FVF, pressures[pname])
    rec(f"Fluid.oil_viscosity[{pname}]", fl.oil_viscosity, pressures[pname])
for table in ("pvt_oil.csv", "pvt_multiphase_oil.csv", "pvt_gas.csv"):
    df = pd.read_csv(os.path.join(DATA, table))
    col = [c for c in df.columns if c.lower().startswith("p")][0]
    for variant, ser in {
        "asis": df[col],
        "reversed_rows": df[col].iloc[::-1],
        "shuffled_rows": df[col].sample(frac=1.0, random_state=3),
        "dup_labels": df[col].set_axis(np.arange(len(df)) // 3),
        "str_labels": df[col].set_axis([f"r{i % 7}" for i in range(len(df))]),
        "numpy": df[col].to_numpy(),
    }.items():
        rec(f"table[{table}][{variant}].b_o", oil.b_o_Standing, 200.0, ser, 35.0, 0.8, 650.0)
        rec(f"table[{table}][{variant}].gor", oil.solution_gor_Standing, 200.0, ser, 35.0, 0.8, 650.0)

with open(sys.argv[1], "w") as fh:
    fh.write("\n".join(LINES) + "\n")
