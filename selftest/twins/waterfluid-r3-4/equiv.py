"""Equivalence driver: writes results of the touched functions to the file given as argv[1]."""

import os
import sys
import warnings

import numpy as np
import pandas as pd

BB_DATA = os.environ.get("BB_DATA", "/tmp/twin3_waterfluid/tests/data")
EXC_TYPE = True  # record the exception type (False: only that something was raised)
LINES = []


def fmt(value):
    if isinstance(value, pd.DataFrame):
        cols = [f"{c}:{fmt(value[c].to_numpy())}" for c in value.columns]
        return "DataFrame[" + "; ".join(cols) + "]"
    if isinstance(value, pd.Series):
        return "Series(" + fmt(value.to_numpy()) + ")"
    if isinstance(value, np.ndarray):
        flat = ",".join(fmt(v) for v in value.ravel().tolist())
        return f"ndarray<{value.dtype},{value.shape}>[{flat}]"
    if isinstance(value, np.generic):
        return f"{type(value).__name__}({value.item()!r})"
    if isinstance(value, (list, tuple)):
        return type(value).__name__ + "[" + ",".join(fmt(v) for v in value) + "]"
    return repr(value)


def record(label, func, *args, **kwargs):
    with warnings.catch_warnings(record=True) as caught:
        warnings.simplefilter("always")
        try:
            with np.errstate(all="ignore"):
                out = fmt(func(*args, **kwargs))
        except Exception as exc:  # noqa: BLE001
            out = "EXC:" + (type(exc).__name__ if EXC_TYPE else "raised")
    cats = sorted({w.category.__name__ for w in caught})
    LINES.append(f"{label} -> {out}" + (f" warnings={cats}" if cats else ""))


def finish():
    with open(sys.argv[1], "w") as fh:
        fh.write("\n".join(LINES) + "\n")
    print(f"{len(LINES)} records written")


import io
import logging

from bluebonnet.fluids import build_pvt_gas as build_pvt_gas_pkg
from bluebonnet.fluids.fluid import build_pvt_gas

BASE = {
    "N2": 0.03,
    "H2S": 0.012,
    "CO2": 0.018,
    "Gas Specific Gravity": 0.65,
    "Reservoir Temperature (deg F)": 300.0,
}


def gas(**changes):
    values = dict(BASE)
    for key, val in changes.items():
        values[{"sg": "Gas Specific Gravity", "t": "Reservoir Temperature (deg F)"}.get(key, key)] = val
    return values


def drop(key):
    values = dict(BASE)
    del values[key]
    return values


CASES = {
    "default_max_wet": (BASE, "wet gas"),
    "default_max_dry": (BASE, "dry gas"),
    "small_wet": (BASE, "wet gas", 500),
    "small_dry": (BASE, "dry gas", 500.0),
    "pure_hydrocarbon": (gas(N2=0, H2S=0, CO2=0), "dry gas", 300),
    "sour": (gas(N2=0.1, H2S=0.2, CO2=0.15, sg=0.9), "wet gas", 2000),
    "heavy_cold": (gas(sg=1.2, t=80), "wet gas", 1000),
    "light_hot": (gas(sg=0.56, t=450), "dry gas", 1000),
    "int_temperature": (gas(t=200), "dry gas", 300),
    "np_values": (gas(sg=np.float64(0.7), t=np.float32(250.0)), "wet gas", 300),
    "str_gravity": (gas(sg="0.7"), "wet gas", 100),
    "str_temperature": (gas(t="hot"), "wet gas", 100),
    "none_temperature": (gas(t=None), "wet gas", 100),
    "nan_temperature": (gas(t=float("nan")), "wet gas", 100),
    "nan_gravity": (gas(sg=float("nan")), "wet gas", 100),
    "negative_gravity": (gas(sg=-0.5), "wet gas", 100),
    "absolute_zero": (gas(t=-459.67), "wet gas", 100),
    "fractions_above_one": (gas(N2=0.5, H2S=0.4, CO2=0.3), "wet gas", 100),
    "series_values": (pd.Series(BASE), "wet gas", 200),
    "two_points": (BASE, "wet gas", 25),
    "one_point": (BASE, "wet gas", 20),
    "one_point_b": (BASE, "wet gas", 10.5),
    "no_points": (BASE, "wet gas", 10),
    "no_points_neg": (BASE, "wet gas", -100),
    "no_points_zero": (BASE, "dry gas", 0),
    "nan_max": (BASE, "wet gas", float("nan")),
    "inf_max": (BASE, "wet gas", float("inf")),
    "none_max": (BASE, "wet gas", None),
    "str_max": (BASE, "wet gas", "500"),
    "np_max": (BASE, "wet gas", np.int64(100)),
    "array_max": (BASE, "wet gas", np.array([100.0])),
    "bad_dryness": (BASE, "damp gas", 100),
    "upper_dryness": (BASE, "Wet Gas", 100),
    "none_dryness": (BASE, None, 100),
    "list_dryness": (BASE, ["wet gas"], 100),
    "missing_N2": (drop("N2"), "wet gas", 100),
    "missing_gravity": (drop("Gas Specific Gravity"), "wet gas", 100),
    "missing_temperature": (drop("Reservoir Temperature (deg F)"), "wet gas", 100),
    "empty_mapping": ({}, "wet gas", 100),
    "none_mapping": (None, "wet gas", 100),
    "list_mapping": ([0.03, 0.012, 0.018, 0.65, 300.0], "wet gas", 100),
    "very_high_pressure": (BASE, "wet gas", 60),
}

stream = io.StringIO()
handler = logging.StreamHandler(stream)
lib_logger = logging.getLogger("bluebonnet.fluids.fluid")
lib_logger.addHandler(handler)
lib_logger.propagate = False

for level_name, level in (("default", logging.NOTSET), ("debug", logging.DEBUG), ("off", logging.CRITICAL + 1)):
    lib_logger.setLevel(level)
    for label, args in CASES.items():
        if level_name != "default" and label.startswith("default_max"):
            continue  # the 1399-node tables are slow; once is enough
        record(f"build_pvt_gas[{level_name},{label}]", build_pvt_gas, *args)
lib_logger.setLevel(logging.NOTSET)

# root logger configured for debugging, the way an application would do it
lib_logger.propagate = True
root = logging.getLogger()
root_stream = io.StringIO()
root_handler = logging.StreamHandler(root_stream)
root.addHandler(root_handler)
root.setLevel(logging.DEBUG)
record("build_pvt_gas[root_debug]", build_pvt_gas_pkg, BASE, "dry gas", maximum_pressure=400)
record("build_pvt_gas[root_debug,kw]", build_pvt_gas_pkg, gas_dryness="wet gas", gas_values=BASE, maximum_pressure=55)
record("build_pvt_gas[root_debug,no_points]", build_pvt_gas_pkg, BASE, "dry gas", maximum_pressure=5)
root.setLevel(logging.WARNING)
root.removeHandler(root_handler)

# the mapping passed in must not be modified
before = dict(BASE)
build_pvt_gas(BASE, "wet gas", 50)
LINES.append(f"mapping untouched -> {before == BASE}")

record("build_pvt_gas()", build_pvt_gas)
record("build_pvt_gas(values)", build_pvt_gas, BASE)
record("build_pvt_gas(4 args)", build_pvt_gas, BASE, "wet gas", 100, 1)
finish()
