"""Equivalence probe for twin1: b_water_McCain / b_water_McCain_dp sharing constants."""
import os
import sys
import warnings

import numpy as np
import pandas as pd

warnings.simplefilter("ignore")
from bluebonnet.fluids import water
from bluebonnet.fluids.fluid import Fluid

DATA = os.environ.get("BB_DATA", "/tmp/twin11_waterfluid/tests/data")
out = []


def show(x):
    if isinstance(x, (float, np.floating)):
        return repr(float(x))
    if isinstance(x, pd.Series):
        return "Series" + show(x.to_numpy()) + repr(list(x.index[:3]))
    if isinstance(x, np.ndarray):
        return f"nd{x.shape}{x.dtype}[" + ",".join(show(v) for v in x.ravel().tolist()) + "]"
    if isinstance(x, (list, tuple)):
        return type(x).__name__ + "[" + ",".join(show(v) for v in x) + "]"
    return type(x).__name__ + ":" + repr(x)


def probe(label, f, *a, **k):
    try:
        r = show(f(*a, **k))
    except BaseException as e:  # noqa: BLE001
        r = "EXC " + type(e).__name__
    out.append(f"{label} -> {r}")


temps = [60, 60.0, 100.0, 200.5, 400, 0.0, -40.0, np.float64(250.0), np.int64(150), np.float32(180.0),
         float("nan"), float("inf"), 1e200, np.array([100.0, 200.0, 300.0]), True]
pvt = pd.read_csv(os.path.join(DATA, "pvt_water.csv"))
press = [14.7, 3000, 3000.0, 0, 0.0, -100.0, 1e5, 1e160, float("nan"), float("inf"), np.int64(5000),
         np.float32(2500.0), np.array([]), np.array([14.7]), np.array([10.0, 5000.0]),
         np.linspace(14.7, 12000.0, 23), np.arange(10, 10000, 997), np.array([[100.0, 2000.0], [3000.0, 9000.0]]),
         np.array([100.0, 2000.0, 4000.0]), pd.Series([100.0, 2500.0, 8000.0], index=[3, 4, 5]),
         pvt["pressure"] if "pressure" in pvt else pvt.iloc[:, 0], pvt.iloc[:, 0].to_numpy()[:40],
         [100.0, 200.0], (100.0, 200.0), None, "3000", 3 + 2j, np.array([1, 2, 3], dtype=object), True]

for fn in ("b_water_McCain", "b_water_McCain_dp"):
    f = getattr(water, fn)
    for i, t in enumerate(temps):
        for j, p in enumerate(press):
            probe(f"{fn} T#{i} p#{j}", f, t, p)
    probe(f"{fn} kw", f, pressure=3000.0, temperature=220.0)
    probe(f"{fn} noargs", f)
    probe(f"{fn} one", f, 200.0)
    probe(f"{fn} three", f, 200.0, 3000.0, 1.0)
    probe(f"{fn} T None", f, None, 3000.0)
    probe(f"{fn} T str", f, "200", 3000.0)
    probe(f"{fn} T list", f, [200.0], 3000.0)

sal = [0, 0.0, 5.0, 15, 26.0, -1.0, float("nan"), np.array([0.0, 10.0, 20.0]), None, "x"]
for i, t in enumerate(temps[:10]):
    for j, p in enumerate(press[:24]):
        for k, s in enumerate(sal):
            probe(f"density T#{i} p#{j} s#{k}", water.density_water_McCain, t, p, s)
            if i < 3 and j < 6:
                probe(f"compr T#{i} p#{j} s#{k}", water.compressibility_water_McCain, t, p, s)
                probe(f"visc T#{i} p#{j} s#{k}", water.viscosity_water_McCain, t, p, s)

for i, t in enumerate(temps):
    fl = Fluid(t, 35.0, 0.7, 500.0, 3.0, 0.1)
    for j, p in enumerate(press):
        probe(f"Fluid.water_FVF T#{i} p#{j}", fl.water_FVF, p)

# finite-difference consistency kept (derivative vs function), just recorded
for t in (100.0, 250.0):
    for p in (500.0, 4000.0):
        h = 0.5
        probe(f"fd T{t} p{p}", lambda: (water.b_water_McCain(t, p + h) - water.b_water_McCain(t, p - h)) / (2 * h))
probe("private names", lambda: sorted(n for n in dir(water) if not n.startswith("_")))

with open(sys.argv[1], "w") as fh:
    fh.write("\n".join(out) + "\n")
