"""Equivalence driver for bluebonnet.plotting (writes every observable result to a file)."""

from __future__ import annotations

import os
import re
import sys
import warnings
from decimal import Decimal
from fractions import Fraction
from types import SimpleNamespace

import matplotlib

matplotlib.use("Agg")

import matplotlib.pyplot as plt  # noqa: E402
import numpy as np  # noqa: E402
import pandas as pd  # noqa: E402
from bluebonnet.flow import FlowProperties, IdealReservoir, SinglePhaseReservoir  # noqa: E402
from bluebonnet.plotting import (  # noqa: E402
    SquareRootScale,
    plot_pseudopressure,
    plot_recovery_factor,
    plot_recovery_rate,
)

DATA = os.environ.get("BB_DATA", "/tmp/twin6_plotting/tests/data")
OUT = []


def emit(*parts):
    OUT.append(re.sub(r"0x[0-9a-f]+", "0xADDR", " | ".join(str(p) for p in parts)))


def fmt(v):
    """Full-precision, type-revealing representation."""
    if isinstance(v, np.ma.MaskedArray):
        return f"masked{v.shape}{v.dtype}:{v.filled(-999).tolist()!r}:{np.ma.getmaskarray(v).tolist()!r}"
    if isinstance(v, np.ndarray):
        return f"ndarray{v.shape}{v.dtype}:{v.tolist()!r}"
    if isinstance(v, (tuple, list)):
        return type(v).__name__ + "(" + ", ".join(fmt(x) for x in v) + ")"
    return f"{type(v).__name__}:{v!r}"


def dump_axes(ax):
    rows = [f"nlines={len(ax.lines)}"]
    for ln in ax.lines:
        rows.append(
            "line "
            + fmt(np.asarray(ln.get_xdata(orig=True)))
            + " ; "
            + fmt(np.asarray(ln.get_ydata(orig=True)))
            + f" ; color={ln.get_color()!r} label={ln.get_label()!r} lw={ln.get_linewidth()!r}"
            + f" ls={ln.get_linestyle()!r} marker={ln.get_marker()!r} alpha={ln.get_alpha()!r}"
        )
    rows.append(f"xlim={fmt(tuple(ax.get_xlim()))} ylim={fmt(tuple(ax.get_ylim()))}")
    rows.append(f"xlabel={ax.get_xlabel()!r} ylabel={ax.get_ylabel()!r}")
    rows.append(f"xscale={ax.get_xscale()!r} yscale={ax.get_yscale()!r}")
    rows.append(f"xticks={fmt(np.asarray(ax.get_xticks()))}")
    rows.append(f"yticks={fmt(np.asarray(ax.get_yticks()))}")
    return "\n    ".join(rows)


def run(tag, func, *args, own_ax=True, **kwargs):
    """Call a plotting function, record result or exception, warnings, figure side effects."""
    plt.close("all")
    if own_ax:
        _, ax = plt.subplots()
        kwargs["ax"] = ax
    nfig_before = len(plt.get_fignums())
    with warnings.catch_warnings(record=True) as wlist:
        warnings.simplefilter("always")
        try:
            res = func(*args, **kwargs)
            if own_ax:
                same = res is ax
            else:
                same = None
            try:
                res.figure.canvas.draw()
                drawn = "drawn"
            except Exception as e:  # noqa: BLE001
                drawn = f"draw-raises {type(e).__name__}"
            body = f"returned-own-ax={same} {drawn}\n    " + dump_axes(res)
        except Exception as e:  # noqa: BLE001
            body = f"RAISES {type(e).__name__}: {e}"
            if own_ax:
                body += "\n    partial: " + dump_axes(ax)
    wtxt = [f"{w.category.__name__}:{w.message}" for w in wlist]
    emit(tag, body, f"warnings={wtxt}", f"figs {nfig_before}->{len(plt.get_fignums())}")
    plt.close("all")


def call(tag, func, *args, **kwargs):
    with warnings.catch_warnings(record=True) as wlist:
        warnings.simplefilter("always")
        try:
            body = fmt(func(*args, **kwargs))
        except Exception as e:  # noqa: BLE001
            body = f"RAISES {type(e).__name__}: {e}"
    emit(tag, body, f"warnings={[f'{w.category.__name__}:{w.message}' for w in wlist]}")


# ----------------------------------------------------------------------------- reservoirs
def make_reservoirs():
    res = {}
    t = np.linspace(0, np.sqrt(3.0), 61) ** 2
    r = IdealReservoir(20, 100.0, 2000.0, None)
    r.simulate(t)
    res["ideal"] = r
    r = IdealReservoir(12, 100.0, 2000.0, None)
    r.simulate(np.linspace(0, 1.5, 9))
    res["ideal_small"] = r
    ren = {"P": "pressure", "Z-Factor": "z-factor", "Cg": "compressibility",
           "Viscosity": "viscosity", "Density": "density"}
    pvt = pd.read_csv(os.path.join(DATA, "pvt_gas.csv")).rename(columns=ren)
    fluid = FlowProperties(pvt, 2000.0)
    r = SinglePhaseReservoir(30, pressure_fracface=100.0, pressure_initial=2000.0, fluid=fluid)
    r.simulate(np.linspace(0, np.sqrt(11.0), 401) ** 2)
    res["gas"] = r
    r = SinglePhaseReservoir(15, pressure_fracface=100.0, pressure_initial=2000.0, fluid=fluid)
    r.simulate([float(v) for v in np.linspace(0, 2.0, 25) ** 2])  # time as a python list
    res["gas_listtime"] = r
    r = SinglePhaseReservoir(15, pressure_fracface=2000.0, pressure_initial=2000.0, fluid=fluid)
    r.simulate(np.linspace(0, 2.0, 11) ** 2)  # no drawdown: pinit == p[0] -> 0/0 when rescaled
    res["gas_nodrawdown"] = r
    res["unsimulated"] = IdealReservoir(10, 100.0, 2000.0, None)
    return res


def fake(pp, nx=None, time=None, rf=None):
    pp = None if pp is None else pp
    ns = SimpleNamespace()
    if pp is not None:
        ns.pseudopressure = pp
    ns.nx = nx
    if time is not None:
        ns.time = time
    ns.recovery_factor = lambda: rf
    return ns


def section_pseudopressure(res):
    for name in ("ideal", "ideal_small", "gas", "gas_listtime", "gas_nodrawdown"):
        r = res[name]
        for rescale in (False, True):
            for every in (1, 2, 7, 50, 200, 1000, -3, -1, 2.0, 2.5, True, np.int64(5), np.float64(4.0)):
                run(f"pp {name} every={every!r} rescale={rescale}", plot_pseudopressure, r,
                    every=every, rescale=rescale)
        run(f"pp {name} defaults", plot_pseudopressure, r)
        run(f"pp {name} noax", plot_pseudopressure, r, own_ax=False, every=10)
        run(f"pp {name} xmax ymax", plot_pseudopressure, r, every=5, x_max=0.5, y_max=1.25)
        run(f"pp {name} kwargs", plot_pseudopressure, r, every=5, rescale=True,
            plot_kwargs={"lw": 2.5, "ls": "--", "alpha": 0.5})
        run(f"pp {name} kwargs-empty", plot_pseudopressure, r, every=5, plot_kwargs={})
        run(f"pp {name} kwargs-dupcolor", plot_pseudopressure, r, every=5, plot_kwargs={"color": "r"})
        run(f"pp {name} kwargs-bad", plot_pseudopressure, r, every=5, plot_kwargs={"nonsense": 1})
        run(f"pp {name} kwargs-notmapping", plot_pseudopressure, r, every=5, plot_kwargs=[("lw", 2)])
        for every in (0, 0.0, None, "a", np.array([1, 2]), np.array([3]), [2], float("nan"), float("inf"), 1j):
            run(f"pp {name} bad every={every!r}", plot_pseudopressure, r, every=every)
            run(f"pp {name} bad every={every!r} noax", plot_pseudopressure, r, own_ax=False, every=every)
    run("pp unsimulated", plot_pseudopressure, res["unsimulated"])
    run("pp unsimulated noax", plot_pseudopressure, res["unsimulated"], own_ax=False)
    rng = np.random.default_rng(7)
    base = rng.uniform(0.1, 3.0, (9, 6))
    withnan = base.copy()
    withnan[2, 3] = np.nan
    withnan[4, 0] = np.nan
    fakes = {
        "rand": fake(base, 6),
        "nan": fake(withnan, 6),
        "int": fake(np.arange(24).reshape(4, 6), 6),
        "fortran": fake(np.asfortranarray(base), 6),
        "strided": fake(rng.uniform(0, 1, (18, 12))[::2, ::2], 6),
        "onerow": fake(base[:1], 6),
        "norows": fake(base[:0], 6),
        "nx-mismatch": fake(base, 5),
        "nx-zero": fake(base, 0),
        "nx-float": fake(base, 6.0),
        "nx-none": fake(base, None),
        "1d": fake(base[0], 6),
        "3d": fake(rng.uniform(0, 1, (4, 6, 2)), 6),
        "list-of-lists": fake(base.tolist(), 6),
        "constant-rows": fake(np.ones((5, 6)), 6),
        "bool": fake(np.ones((3, 6), dtype=bool), 6),
        "dataframe": fake(pd.DataFrame(base), 6),
    }
    for name, f in fakes.items():
        for rescale in (False, True):
            for every in (1, 2, 3, 100):
                run(f"pp fake-{name} every={every} rescale={rescale}", plot_pseudopressure, f,
                    every=every, rescale=rescale)
        run(f"pp fake-{name} every=0", plot_pseudopressure, f, every=0)
    # input is not modified
    r = res["ideal_small"]
    before = r.pseudopressure.copy()
    kw = {"lw": 1.0}
    plot_pseudopressure(r, every=2, rescale=True, plot_kwargs=kw)
    emit("pp purity", np.array_equal(before, r.pseudopressure), kw, sorted(vars(r)))
    plt.close("all")


class RF:
    """Minimal stand-in for a simulated reservoir (time + recovery factor)."""

    def __init__(self, time, rf):
        self.time = time
        self._rf = rf
        self.calls = 0

    def recovery_factor(self):
        self.calls += 1
        return self._rf


def rf_fakes():
    t = np.linspace(0, 2, 11) ** 2
    rf = 1 - np.exp(-np.sqrt(t))
    out = {
        "plain": RF(t, rf),
        "list": RF(t.tolist(), rf.tolist()),
        "tuple": RF(tuple(t.tolist()), tuple(rf.tolist())),
        "int-time": RF(np.arange(11), rf),
        "series": RF(pd.Series(t), pd.Series(rf)),
        "series-idx": RF(pd.Series(t, index=np.arange(11)[::-1]), pd.Series(rf, index=np.arange(11)[::-1])),
        "unsorted": RF(t[[3, 1, 10, 2, 0, 5, 4, 9, 8, 7, 6]], rf),
        "two": RF(np.array([0.0, 1.0]), np.array([0.0, 0.3])),
        "one": RF(np.array([1.0]), np.array([0.2])),
        "empty": RF(np.array([]), np.array([])),
        "empty-list": RF([], []),
        "mismatch": RF(t, rf[:-1]),
        "negative": RF(t - 10.0, rf),
        "zero-max": RF(t * 0.0, rf),
        "inf": RF(np.append(t[:-1], np.inf), rf),
        "scalar-time": RF(3.0, rf),
        "none-time": RF(None, rf),
        "2d": RF(np.stack([t, t]), np.stack([rf, rf])),
        "strings": RF(["a", "b", "c"], [1.0, 2.0, 3.0]),
        "f32-time": RF(t.astype(np.float32), rf.astype(np.float32)),
        "huge": RF(t * 1e300, rf),
        "tiny": RF(t * 1e-300, rf),
        "decimal": RF([Decimal(1), Decimal(2), Decimal(4)], [0.1, 0.2, 0.3]),
        "fraction": RF([Fraction(1, 2), Fraction(2), Fraction(9, 4)], [0.1, 0.2, 0.3]),
        "bool-time": RF(np.array([False, True, True]), np.array([0.0, 0.1, 0.2])),
    }
    for pos in (0, 1, 5, 10):
        tn = t.copy()
        tn[pos] = np.nan
        out[f"nan@{pos}"] = RF(tn, rf)
        out[f"nan@{pos}-list"] = RF(tn.tolist(), rf.tolist())
    return out


def section_recovery(res, func, label):
    for name in ("ideal", "ideal_small", "gas", "gas_listtime", "gas_nodrawdown"):
        r = res[name]
        for ct in (False, True, 0, 1, None, "yes", np.True_):
            run(f"{label} {name} change_ticks={ct!r}", func, r, change_ticks=ct)
        run(f"{label} {name} noax", func, r, own_ax=False, change_ticks=True)
        run(f"{label} {name} positional-none", func, r, None, own_ax=False)
        run(f"{label} {name} kwargs", func, r, change_ticks=True, plot_kwargs={"lw": 3, "color": "k", "ls": ":"})
        run(f"{label} {name} kwargs-empty", func, r, plot_kwargs={})
        run(f"{label} {name} kwargs-duplabel", func, r, plot_kwargs={"label": "x"})
        run(f"{label} {name} kwargs-bad", func, r, plot_kwargs={"nonsense": 1})
        run(f"{label} {name} kwargs-notmapping", func, r, plot_kwargs=[("lw", 2)])
        emit(f"{label} {name} cached-recovery", fmt(np.asarray(r.recovery)))
    run(f"{label} unsimulated", func, res["unsimulated"])
    run(f"{label} unsimulated noax", func, res["unsimulated"], own_ax=False)
    for name, f in rf_fakes().items():
        for ct in (False, True):
            f.calls = 0
            run(f"{label} fake-{name} change_ticks={ct}", func, f, change_ticks=ct)
            emit(f"{label} fake-{name} recovery_factor-calls", f.calls)
    ax_changed_arrays = rf_fakes()["plain"]
    before = ax_changed_arrays.time.copy()
    func(ax_changed_arrays, change_ticks=True)
    emit(f"{label} purity", np.array_equal(before, ax_changed_arrays.time))
    plt.close("all")


def section_scale():
    _, ax = plt.subplots()
    scale = SquareRootScale(ax.xaxis)
    emit("scale name", scale.name, type(scale).__mro__[1].__name__)
    call("scale kwargs", lambda: type(SquareRootScale(ax.xaxis, foo=1)).__name__)
    call("scale axis none", lambda: type(SquareRootScale(None)).__name__)
    vals = [-1, -1.0, 0, 0.0, -0.0, 1e-300, 5, 5.0, float("nan"), float("inf"), float("-inf"),
            np.float64(-2.0), np.float64(2.0), np.float64("nan"), np.float32(-1.5), np.float32(1.5),
            np.int64(-3), np.int64(3), True, False, np.array(2.0), np.array(-2.0), np.array([1.0]),
            np.array([-1.0]), np.array([1.0, 2.0]), [1.0], "a", None, 1j, np.nan, -5e-324, 5e-324]
    for v in vals:
        for vmax in (10.0, -7, None):
            call(f"limit_range vmin={fmt(v)} vmax={vmax!r}", scale.limit_range_for_scale, v, vmax, 1e-3)
    call("limit_range missing arg", lambda: scale.limit_range_for_scale(1.0, 2.0))
    call("limit_range kw", lambda: scale.limit_range_for_scale(vmin=-1.0, vmax=2.0, minpos=0.1))

    scale.set_default_locators_and_formatters(ax.yaxis)
    emit("locators", type(ax.yaxis.get_major_locator()).__name__, type(ax.yaxis.get_major_formatter()).__name__,
         type(ax.yaxis.get_minor_locator()).__name__, type(ax.yaxis.get_minor_formatter()).__name__)
    maj1 = ax.yaxis.get_major_locator()
    scale.set_default_locators_and_formatters(ax.yaxis)
    emit("locators fresh each call", maj1 is not ax.yaxis.get_major_locator())
    call("locators bad axis", lambda: scale.set_default_locators_and_formatters(None))
    call("locators bad axis 2", lambda: scale.set_default_locators_and_formatters(SimpleNamespace(set_major_locator=lambda x: None)))

    for allowed in (0, 1, 2, 3, 4):
        log = []

        class Partial:
            def __getattr__(self, name, log=log, allowed=allowed):
                log.append(f"get {name}")
                if len([x for x in log if x.startswith("get")]) > allowed:
                    raise AttributeError(name)
                return lambda obj: log.append(f"call {name} {type(obj).__name__}")

        call(f"locators partial axis {allowed}", lambda: scale.set_default_locators_and_formatters(Partial()))
        emit(f"locators partial axis {allowed} log", log)

    fwd = scale.get_transform()
    inv = fwd.inverted()
    emit("transform types", type(fwd).__qualname__, type(inv).__qualname__, type(inv.inverted()).__qualname__,
         type(SquareRootScale.SquareRootTransform().inverted()).__qualname__)
    emit("transform attrs", fwd.input_dims, fwd.output_dims, fwd.is_separable, inv.input_dims, inv.output_dims,
         inv.is_separable, fwd.has_inverse, inv.has_inverse, fwd is not scale.get_transform())
    rng = np.random.default_rng(3)
    big = rng.uniform(0, 1e6, 200)
    tiny = 10.0 ** rng.uniform(-320, 300, 200)
    inputs = {
        "pyfloat": 2.0, "pyint": 9, "pyneg": -4.0, "pyzero": 0.0, "pynegzero": -0.0, "pybool": True,
        "pynan": float("nan"), "pyinf": float("inf"), "pyneginf": float("-inf"), "pycomplex": 1 + 2j,
        "np64": np.float64(3.0), "np32": np.float32(3.0), "npint": np.int64(7), "npint8": np.int8(100),
        "npuint8": np.uint8(200), "npbool": np.True_, "np16": np.float16(2.5),
        "0d": np.array(5.0), "0dint": np.array(5), "0dneg": np.array(-5.0),
        "list": [0.0, 1.0, 2.0, 3.0, 4.5], "listint": [0, 1, 4, 9], "tuple": (1.0, 4.0), "nested": [[1.0, 2.0], [3.0, 4.0]],
        "ragged": [[1.0, 2.0], [3.0]], "empty": [], "empty2d": np.empty((0, 3)),
        "arr": big, "tiny": tiny, "neg": -big[:10], "mixed": np.array([-1.0, 0.0, -0.0, np.nan, np.inf, -np.inf, 4.0]),
        "int32": np.arange(-3, 10, dtype=np.int32), "int8big": np.array([100, 120], dtype=np.int8),
        "uint64": np.array([2**63, 3], dtype=np.uint64), "bools": np.array([True, False]),
        "f32": big[:20].astype(np.float32), "f16": np.array([1.5, 200.0, 60000.0], dtype=np.float16),
        "complex": np.array([1 + 1j, -4 + 0j]), "2d": big[:12].reshape(3, 4), "2dF": np.asfortranarray(big[:12].reshape(3, 4)),
        "strided": big[::3], "3d": big[:24].reshape(2, 3, 4), "col": big[:5].reshape(5, 1), "row": big[:5].reshape(1, 5),
        "111": np.array([[[2.0]]]), "len1": np.array([2.0]),
        "masked": np.ma.masked_array([1.0, 4.0, 9.0], mask=[False, True, False]),
        "series": pd.Series([1.0, 4.0, 9.0], index=[5, 3, 1]),
        "object": np.array([1.0, 2.0], dtype=object), "objectmix": np.array([1.0, "a"], dtype=object),
        "str": "abc", "strlist": ["1.0", "2.0"], "none": None, "dict": {"a": 1}, "datetime": np.array(["2020-01-01"], dtype="datetime64[D]"),
        "fraction": Fraction(9, 4), "decimal": Decimal(4), "fractions": [Fraction(9, 4), Fraction(1, 4)],
        "range": range(5), "gen": (x for x in [1.0, 2.0]), "set": {1.0},
    }
    methods = {
        "fwd.transform_non_affine": fwd.transform_non_affine,
        "inv.transform": inv.transform,
        "fwd.transform": fwd.transform,
        "inv.transform_non_affine": inv.transform_non_affine,
    }
    for mname, m in methods.items():
        for iname, val in inputs.items():
            if iname == "gen":
                val = (x for x in [1.0, 2.0])
            call(f"{mname} {iname}", m, val)
    # inputs are never modified, outputs never alias the input
    a = big[:6].copy()
    o1 = fwd.transform_non_affine(a)
    o2 = inv.transform(a)
    emit("transform purity", np.array_equal(a, big[:6]), np.shares_memory(a, o1), np.shares_memory(a, o2))
    a2 = np.atleast_1d(np.array(4.0))
    o3 = fwd.transform_non_affine(a2)
    o4 = inv.transform(a2)
    o3[...] = -1.0
    o4[...] = -1.0
    emit("transform purity len1", fmt(a2), np.shares_memory(a2, o3), np.shares_memory(a2, o4))
    plt.close("all")

    # the scale used through matplotlib
    fig, ax = plt.subplots()
    ax.plot(np.linspace(0, 16, 9), np.linspace(0, 1, 9))
    ax.set_xscale("squareroot")
    fig.canvas.draw()
    emit("axes squareroot", dump_axes(ax))
    emit("axes data->display", fmt(ax.transData.transform(np.array([[0.0, 0.0], [4.0, 0.5], [16.0, 1.0]]))))
    emit("axes display->data", fmt(ax.transData.inverted().transform(np.array([[100.0, 100.0], [300.0, 200.0]]))))
    ax.set_xlim(-5, 20)
    fig.canvas.draw()
    emit("axes squareroot neg xlim", dump_axes(ax))
    plt.close("all")


def main(outfile):
    res = make_reservoirs()
    section_scale()
    section_pseudopressure(res)
    section_recovery(res, plot_recovery_rate, "rate")
    section_recovery(res, plot_recovery_factor, "factor")
    with open(outfile, "w") as fh:
        fh.write("\n".join(OUT) + "\n")


if __name__ == "__main__":
    main(sys.argv[1])
