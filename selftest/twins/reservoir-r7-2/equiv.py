"""Equivalence harness for bluebonnet.flow.reservoir.

Usage: PYTHONPATH=<tree>/src /venv/bin/python equiv.py <outfile>
Writes results (11 significant digits) or exception types for a broad set of calls.
"""

from __future__ import annotations

import os
import sys
import warnings

import numpy as np
import pandas as pd

from bluebonnet.flow import (
    FlowProperties,
    IdealReservoir,
    MultiPhaseReservoir,
    SinglePhaseReservoir,
    TwoPhaseReservoir,
)
from bluebonnet.flow import reservoir as resmod
from bluebonnet.flow.flowproperties import FlowPropertiesSimple

DATA = os.environ.get("BB_DATA", "/tmp/twin7_reservoir/tests/data")
OUT = []
EXACT = True  # full-precision repr of every float


def fmt(v):
    if v is None:
        return "None"
    if isinstance(v, (list, tuple)):
        return "[" + ", ".join(fmt(x) for x in v) + "]"
    a = np.asarray(v)
    if a.dtype.kind in "fc":
        flat = a.ravel()
        if EXACT:
            body = " ".join(repr(x) for x in flat.tolist())
        else:
            # all quantities are dimensionless and O(1) (scaled pseudopressure, recovery
            # factor); differences of re-associated floating point arithmetic are compared
            # at 11 significant digits with an absolute floor of 1e-12
            body = " ".join(f"{round(x, 12) + 0.0:.10e}" for x in flat.tolist())
        return f"{type(v).__name__}{a.shape}<{a.dtype}> {body}"
    return f"{type(v).__name__}{a.shape}<{a.dtype}> {a.tolist()!r}"


def rec(label, fn):
    with warnings.catch_warnings(record=True) as w:
        warnings.simplefilter("always")
        try:
            r = fmt(fn())
        except BaseException as e:  # noqa: BLE001
            r = "EXC " + type(e).__name__
    cats = sorted({x.category.__name__ for x in w})
    OUT.append(f"{label}: {r} | warnings={cats}")


ren_gas = {
    "P": "pressure",
    "Z-Factor": "z-factor",
    "Cg": "compressibility",
    "Viscosity": "viscosity",
    "Density": "density",
}
ren_oil = {
    "P": "pressure",
    "Z-Factor": "z-factor",
    "Co": "compressibility",
    "Oil_Viscosity": "viscosity",
    "Oil_Density": "density",
}
pvt_gas = pd.read_csv(os.path.join(DATA, "pvt_gas.csv")).rename(columns=ren_gas)
pvt_oil = pd.read_csv(os.path.join(DATA, "pvt_oil.csv")).rename(columns=ren_oil)
pvt_ideal = pd.read_csv(os.path.join(DATA, "pvt_ideal_gas.csv")).rename(columns=ren_gas)

fluids = {
    "gas8000": FlowProperties(pvt_gas, 8000.0),
    "gas5000": FlowProperties(pvt_gas, 5000.0),
    "oil6000": FlowProperties(pvt_oil, 6000.0),
    "simple": FlowPropertiesSimple(pvt_gas, 7000.0),
}
with warnings.catch_warnings():
    warnings.simplefilter("ignore")
    tab = pvt_gas[["pressure", "pseudopressure"]].copy()
    tab["alpha"] = 1.0 / (pvt_gas["compressibility"] * pvt_gas["viscosity"])
    fluids["useralpha"] = FlowProperties(tab, 6500.0)

times = {
    "sq40": np.linspace(0, np.sqrt(9.0), 40) ** 2,
    "lin25": np.linspace(0.0, 2.0, 25),
    "log30": np.concatenate(([0.0], np.logspace(-4, 1.5, 29))),
    "len1": np.array([0.0]),
    "len2": np.array([0.0, 0.3]),
    "len3": np.array([0.0, 1e-3, 5.0]),
    "offset": np.linspace(0.5, 3.0, 12),
    "int": np.arange(0, 6),
    "repeat": np.array([0.0, 0.1, 0.1, 0.4]),
    "nonmono": np.array([0.0, 0.5, 0.3, 0.9]),
    "empty": np.array([]),
}


def sim_summary(r, time, *args, **kwargs):
    ret = r.simulate(time, *args, **kwargs)
    same_time = r.time is time
    return [
        ret,
        same_time,
        r.pseudopressure,
        hasattr(r, "recovery"),
    ]


def full_cycle(make, time, *args, **kwargs):
    """simulate + recovery (both branches) + interpolator; each step recorded separately."""
    res = []

    def step(fn):
        try:
            res.append(fn())
        except BaseException as e:  # noqa: BLE001
            res.append("EXC " + type(e).__name__)

    r = make()
    step(lambda: sim_summary(r, time, *args, **kwargs))
    step(lambda: r.recovery_factor())
    step(lambda: r.recovery is r.recovery_factor())
    step(lambda: r.recovery_factor(density=True))
    step(lambda: r.recovery_factor(time))
    step(lambda: r.recovery_factor(None, False))
    tq = np.array([-1.0, 0.0, 1e-5, 0.01, 0.2, 1.0, 2.5, 9.0, 50.0])

    def interp():
        f = r.recovery_factor_interpolator()
        return [f(tq), f(0.37), type(f).__name__, f.bounds_error, f.fill_value]

    step(interp)

    # interpolator without a cached recovery
    def interp2():
        r2 = make()
        r2.simulate(time, *args, **kwargs)
        f = r2.recovery_factor_interpolator()
        return [f(tq), r2.recovery]

    step(interp2)
    out = []
    for x in res:
        out.append(x if isinstance(x, str) else fmt(x))
    return "; ".join(out)


def rec_cycle(label, make, time, *args, **kwargs):
    with warnings.catch_warnings(record=True) as w:
        warnings.simplefilter("always")
        try:
            r = full_cycle(make, time, *args, **kwargs)
        except BaseException as e:  # noqa: BLE001
            r = "EXC " + type(e).__name__
    cats = sorted({x.category.__name__ for x in w})
    OUT.append(f"{label}: {r} | warnings={cats}")


# ---------------------------------------------------------------- IdealReservoir
for nx in (2, 3, 5, 30):
    for tname, t in times.items():
        for pf, pi in ((100.0, 8000.0), (8000.0, 8000.0), (np.array([100.0, 200.0]), 5000.0)):
            if isinstance(pf, np.ndarray) and tname not in ("len2", "lin25"):
                continue
            rec_cycle(
                f"ideal nx={nx} t={tname} pf={pf!r} pi={pi}",
                lambda nx=nx, pf=pf, pi=pi: IdealReservoir(nx, pf, pi, fluids["gas8000"]),
                t,
            )
rec_cycle("ideal nofluid", lambda: IdealReservoir(6, 500.0, 4000.0), times["lin25"])
rec_cycle("ideal nx=1", lambda: IdealReservoir(1, 500.0, 4000.0), times["lin25"])
rec_cycle("ideal nx=0", lambda: IdealReservoir(0, 500.0, 4000.0), times["lin25"])
rec_cycle("ideal list time", lambda: IdealReservoir(5, 500.0, 4000.0), [0.0, 0.1, 0.3])
rec_cycle("ideal tuple time", lambda: IdealReservoir(5, 500.0, 4000.0), (0.0, 0.1, 0.3))
rec_cycle("ideal scalar time", lambda: IdealReservoir(5, 500.0, 4000.0), 1.0)
rec_cycle("ideal None time", lambda: IdealReservoir(5, 500.0, 4000.0), None)
rec_cycle("ideal 2d time", lambda: IdealReservoir(5, 500.0, 4000.0), np.zeros((3, 2)))
rec_cycle("ideal series time", lambda: IdealReservoir(5, 500.0, 4000.0), pd.Series([0.0, 0.2, 0.7]))
rec_cycle("ideal float32 time", lambda: IdealReservoir(5, 500.0, 4000.0),
          np.linspace(0, 1, 9, dtype=np.float32))
rec_cycle("ideal pi=0", lambda: IdealReservoir(5, 500.0, 0.0), times["len3"])
rec_cycle("ideal nx float", lambda: IdealReservoir(5.0, 500.0, 4000.0), times["len3"])
rec("ideal rf before simulate", lambda: IdealReservoir(5, 1.0, 2.0).recovery_factor())
rec("ideal rf(time) before simulate",
    lambda: IdealReservoir(5, 1.0, 2.0).recovery_factor(times["lin25"]))
rec("ideal rf density before simulate",
    lambda: IdealReservoir(5, 1.0, 2.0, fluids["gas8000"]).recovery_factor(times["lin25"], True))
rec("ideal rf density nofluid before simulate",
    lambda: IdealReservoir(5, 1.0, 2.0).recovery_factor(times["lin25"], density=True))
rec("ideal interp before simulate", lambda: IdealReservoir(5, 1.0, 2.0).recovery_factor_interpolator())
rec("ideal alpha_scaled", lambda: IdealReservoir(5, 1.0, 2.0).alpha_scaled(np.array([0.1, 0.5])))
rec("ideal alpha_scaled int", lambda: IdealReservoir(5, 1.0, 2.0).alpha_scaled(np.array([1, 5])))
rec("ideal fvf", lambda: IdealReservoir(5, 100.0, 2000.0).fvf_scale())
rec("ideal fvf arr", lambda: IdealReservoir(5, np.array([100.0, 300.0]), 2000.0).fvf_scale())
rec("ideal repr", lambda: repr(IdealReservoir(5, 100.0, 2000.0)))
rec("ideal eq", lambda: IdealReservoir(5, 100.0, 2000.0) == IdealReservoir(5, 100.0, 2000.0))
rec("ideal ctor missing", lambda: IdealReservoir(5, 100.0))
rec("ideal ctor extra", lambda: IdealReservoir(5, 100.0, 2000.0, None, 3))


# density recovery with a fluid lacking a density column
def _nodensity():
    r = IdealReservoir(5, 100.0, 7000.0, fluids["simple"])
    r.simulate(times["lin25"])
    tabs = dict(r.fluid.pvt_props)
    return r.recovery_factor(density=True)


rec("ideal density simplefluid", _nodensity)


def _nodensity2():
    r = IdealReservoir(5, 100.0, 6500.0, fluids["useralpha"])
    r.simulate(times["lin25"])
    return r.recovery_factor(density=True)


rec("ideal density missing column", _nodensity2)


# re-simulation clears the cache
def _resim(cls, **kw):
    r = cls(8, 300.0, 8000.0, fluids["gas8000"], **kw)
    r.simulate(times["lin25"])
    a = r.recovery_factor().copy()
    had = hasattr(r, "recovery")
    r.simulate(times["sq40"])
    gone = not hasattr(r, "recovery")
    b = r.recovery_factor_interpolator()(np.array([0.0, 0.1, 1.0, 20.0]))
    return [a, had, gone, b, r.recovery]


rec("ideal resimulate", lambda: _resim(IdealReservoir))
rec("single resimulate", lambda: _resim(SinglePhaseReservoir))
rec("two resimulate", lambda: _resim(TwoPhaseReservoir, Sw_init=0.2))

# ---------------------------------------------------------------- SinglePhaseReservoir
for fname, fl in fluids.items():
    p_i = {"gas8000": 8000.0, "gas5000": 5000.0, "oil6000": 6000.0, "simple": 7000.0,
           "useralpha": 6500.0}[fname]
    for nx in (2, 3, 12):
        for tname, t in times.items():
            for pf in (100.0, 1000.0, p_i):
                rec_cycle(
                    f"single {fname} nx={nx} t={tname} pf={pf}",
                    lambda nx=nx, pf=pf, p_i=p_i, fl=fl: SinglePhaseReservoir(nx, pf, p_i, fl),
                    t,
                )
    # variable frac-face pressure
    for tname in ("sq40", "lin25", "len1", "len2", "len3", "int"):
        t = times[tname]
        n = len(t)
        sched = {
            "const": np.full(n, 500.0),
            "ramp": np.linspace(p_i, 200.0, n),
            "up": np.linspace(200.0, p_i, n),
            "saw": 1000.0 + 500.0 * np.cos(np.arange(n)),
            "init": np.full(n, p_i),
            "list": list(np.linspace(p_i, 300.0, n)),
            "tuple": tuple(np.linspace(p_i, 300.0, n)),
            "series": pd.Series(np.linspace(p_i, 300.0, n)),
            "intarr": np.full(n, 400),
            "f32": np.linspace(p_i, 300.0, n).astype(np.float32),
            "short": np.full(max(n - 1, 0), 500.0),
            "long": np.full(n + 1, 500.0),
            "above": np.full(n, p_i + 500.0),
            "outside": np.full(n, 1e9),
            "negative": np.full(n, -5.0),
            "nan": np.full(n, np.nan),
            "scalar": 500.0,
            "2d": np.full((n, 2), 500.0),
        }
        for sname, s in sched.items():
            rec_cycle(
                f"single {fname} sched={sname} t={tname} positional",
                lambda p_i=p_i, fl=fl: SinglePhaseReservoir(10, 100.0, p_i, fl),
                t,
                s,
            )
            rec_cycle(
                f"single {fname} sched={sname} t={tname} keyword",
                lambda p_i=p_i, fl=fl: SinglePhaseReservoir(4, p_i, p_i, fl),
                t,
                pressure_fracface=s,
            )

rec_cycle("single nofluid", lambda: SinglePhaseReservoir(6, 500.0, 4000.0), times["lin25"])
rec_cycle("single pf out of table", lambda: SinglePhaseReservoir(6, 1e9, 8000.0, fluids["gas8000"]),
          times["lin25"])
rec_cycle("single pf array field", lambda: SinglePhaseReservoir(
    6, np.linspace(8000.0, 100.0, 25), 8000.0, fluids["gas8000"]), times["lin25"])
rec_cycle("single pf array field wrong length", lambda: SinglePhaseReservoir(
    6, np.linspace(8000.0, 100.0, 7), 8000.0, fluids["gas8000"]), times["lin25"])
rec_cycle("single nx=1", lambda: SinglePhaseReservoir(1, 500.0, 8000.0, fluids["gas8000"]),
          times["lin25"])
rec_cycle("single nx=0", lambda: SinglePhaseReservoir(0, 500.0, 8000.0, fluids["gas8000"]),
          times["lin25"])
rec_cycle("single list time", lambda: SinglePhaseReservoir(5, 500.0, 8000.0, fluids["gas8000"]),
          [0.0, 0.1, 0.3])
rec_cycle("single tuple time", lambda: SinglePhaseReservoir(5, 500.0, 8000.0, fluids["gas8000"]),
          (0.0, 0.1, 0.3))
rec_cycle("single series time", lambda: SinglePhaseReservoir(5, 500.0, 8000.0, fluids["gas8000"]),
          pd.Series([0.0, 0.1, 0.3]))
rec_cycle("single float32 time", lambda: SinglePhaseReservoir(5, 500.0, 8000.0, fluids["gas8000"]),
          np.linspace(0, 1, 9, dtype=np.float32))
rec_cycle("single scalar time", lambda: SinglePhaseReservoir(5, 500.0, 8000.0, fluids["gas8000"]), 2.0)
rec_cycle("single None time", lambda: SinglePhaseReservoir(5, 500.0, 8000.0, fluids["gas8000"]), None)
rec("single rf before simulate",
    lambda: SinglePhaseReservoir(5, 1.0, 8000.0, fluids["gas8000"]).recovery_factor())
rec("single interp before simulate",
    lambda: SinglePhaseReservoir(5, 1.0, 8000.0, fluids["gas8000"]).recovery_factor_interpolator())
rec("single alpha_scaled",
    lambda: SinglePhaseReservoir(5, 1.0, 8000.0, fluids["gas8000"]).alpha_scaled(
        np.array([-0.1, 0.0, 0.01, 0.5, 1.0, 1.5])))
rec("single alpha_scaled nan",
    lambda: SinglePhaseReservoir(5, 1.0, 8000.0, fluids["gas8000"]).alpha_scaled(np.array([np.nan])))
rec("single fvf", lambda: SinglePhaseReservoir(5, 1.0, 8000.0, fluids["gas8000"]).fvf_scale())


# alpha raising ValueError inside the loop is re-raised as ValueError
class _BadFluid:
    def __init__(self, base, exc):
        self.m_i = base.m_i
        self.m_scaled_func = base.m_scaled_func
        self.pvt_props = base.pvt_props
        self._exc = exc

    def alpha(self, m):
        raise self._exc("boom")


for exc in (ValueError, KeyError, ZeroDivisionError, FloatingPointError):
    rec_cycle(f"single bad alpha {exc.__name__}",
              lambda exc=exc: SinglePhaseReservoir(5, 100.0, 8000.0, _BadFluid(fluids["gas8000"], exc)),
              times["lin25"])
    rec_cycle(f"single bad alpha {exc.__name__} len1",
              lambda exc=exc: SinglePhaseReservoir(5, 100.0, 8000.0, _BadFluid(fluids["gas8000"], exc)),
              times["len1"])

# ---------------------------------------------------------------- TwoPhaseReservoir
for tname, t in times.items():
    for nx in (2, 7):
        rec_cycle(f"two gas nx={nx} t={tname}",
                  lambda nx=nx: TwoPhaseReservoir(nx, 200.0, 8000.0, fluids["gas8000"], 0.15), t)
        rec_cycle(f"two oil nx={nx} t={tname}",
                  lambda nx=nx: TwoPhaseReservoir(nx, 6000.0, 6000.0, fluids["oil6000"]), t)
rec_cycle("two keyword time", lambda: TwoPhaseReservoir(5, 200.0, 8000.0, fluids["gas8000"]),
          time=times["lin25"])
rec_cycle("two nofluid", lambda: TwoPhaseReservoir(5, 200.0, 8000.0), times["lin25"])
rec("two repr", lambda: repr(TwoPhaseReservoir(5, 200.0, 8000.0, None, 0.3)))
rec("two Sw default", lambda: TwoPhaseReservoir(5, 200.0, 8000.0).Sw_init)
rec("two positional Sw", lambda: TwoPhaseReservoir(5, 200.0, 8000.0, None, 0.25).Sw_init)
rec("two ctor extra", lambda: TwoPhaseReservoir(5, 200.0, 8000.0, None, 0.25, 1))
rec("two eq", lambda: TwoPhaseReservoir(5, 200.0, 8000.0) == TwoPhaseReservoir(5, 200.0, 8000.0, None, 0.0))
rec("two fvf", lambda: TwoPhaseReservoir(5, 200.0, 8000.0).fvf_scale())
rec("two rf before simulate", lambda: TwoPhaseReservoir(5, 200.0, 8000.0).recovery_factor())

# ---------------------------------------------------------------- MultiPhaseReservoir
rec_cycle("multi simulate", lambda: MultiPhaseReservoir(5, 200.0, 8000.0, fluids["gas8000"], 0.7, 0.1, 0.2),
          times["lin25"])
rec("multi repr", lambda: repr(MultiPhaseReservoir(5, 200.0, 8000.0, None, 0.7, 0.1, 0.2)))
rec("multi fields", lambda: [MultiPhaseReservoir(5, 200.0, 8000.0, None, 0.7, 0.1, 0.2).So_init,
                             MultiPhaseReservoir(5, 200.0, 8000.0, None, 0.7, 0.1, 0.2).Sw_init,
                             MultiPhaseReservoir(5, 200.0, 8000.0, None, 0.7, 0.1, 0.2).Sg_init,
                             MultiPhaseReservoir(5, 200.0, 8000.0).So_init])
rec("multi step_saturation",
    lambda: MultiPhaseReservoir(5, 200.0, 8000.0)._step_saturation(None, None, None).__name__)
rec("multi alpha_scaled missing arg",
    lambda: MultiPhaseReservoir(5, 200.0, 8000.0, fluids["gas8000"]).alpha_scaled(np.array([0.5])))
rec("multi rf before simulate", lambda: MultiPhaseReservoir(5, 200.0, 8000.0).recovery_factor())

# ---------------------------------------------------------------- _build_matrix
for k in (
    np.array([0.5, 0.25]),
    np.array([0.1, 0.2, 0.3]),
    np.linspace(0.0, 3.0, 9),
    np.zeros(4),
    np.array([1e6, 1e-6, 1.0, 7.0]),
    np.array([2.0]),
    np.array([]),
    np.array([1, 2, 3]),
):
    rec(f"build_matrix {k!r}", lambda k=k: [resmod._build_matrix(k).toarray(),
                                           resmod._build_matrix(k).format])
rec("build_matrix input untouched", lambda: (lambda k: [resmod._build_matrix(k).shape, k])(
    np.array([0.1, 0.2, 0.3, 0.4])))

# ---------------------------------------------------------------- users of the module
from bluebonnet.forecast import forecast_pressure as fp  # noqa: E402


def _fp():
    names = [n for n in dir(fp) if not n.startswith("_")]
    return sorted(names)


rec("forecast_pressure names", _fp)

# ---------------------------------------------------------------- interpolator details
def _interp_details(cls, t, **kw):
    r = cls(6, 250.0, 8000.0, fluids["gas8000"], **kw)
    r.simulate(t)
    f = r.recovery_factor_interpolator()
    q = np.concatenate((np.asarray(t, dtype=float), np.linspace(-1.0, 12.0, 41)))
    g = r.recovery_factor_interpolator()
    return [f(q), f(np.array([[0.1, 0.2], [0.3, 4.0]])), f.x, f.y, f.axis, f.bounds_error,
            f.fill_value, f is g, f.x is r.time, type(f).__mro__[0].__name__,
            getattr(f, "_kind", None), f.copy if hasattr(f, "copy") else None]


for cname, cls, kw in (("ideal", IdealReservoir, {}), ("single", SinglePhaseReservoir, {}),
                       ("two", TwoPhaseReservoir, {"Sw_init": 0.1})):
    for tname, t in times.items():
        rec(f"interp details {cname} {tname}", lambda cls=cls, t=t, kw=kw: _interp_details(cls, t, **kw))
rec("interp positional arg",
    lambda: _interp_details.__call__ and IdealReservoir(5, 1.0, 2.0).recovery_factor_interpolator(1))


def _interp_positional_after_sim():
    r = IdealReservoir(5, 1.0, 2.0)
    r.simulate(times["lin25"])
    return r.recovery_factor_interpolator("linear")


rec("interp positional arg after simulate", _interp_positional_after_sim)
rec("rf density positional/keyword",
    lambda: (lambda r: [r.simulate(times["lin25"]), r.recovery_factor(None, True),
                        r.recovery_factor(density=True), r.recovery_factor(time=times["lin25"]),
                        r.recovery_factor(times["lin25"], density=0), r.recovery_factor(None, 1)])(
        SinglePhaseReservoir(6, 250.0, 8000.0, fluids["gas8000"])))
with open(sys.argv[1], "w") as f:
    f.write("\n".join(OUT) + "\n")
print(len(OUT), "records")
