"""Equivalence driver for twin2 (water viscosity polynomial tables, compressibility)."""
import sys
import warnings

import numpy as np

warnings.simplefilter("ignore")

from bluebonnet.fluids import water
from bluebonnet.fluids.fluid import Fluid

out = []


def fmt(v):
    if isinstance(v, np.ndarray):
        return f"array{v.shape}{v.dtype}[" + ",".join(fmt(x) for x in v.ravel().tolist()) + "]"
    if isinstance(v, (list, tuple)):
        return "[" + ",".join(fmt(x) for x in v) + "]"
    if isinstance(v, (float, np.floating)):
        return repr(float(v))
    return type(v).__name__ + ":" + repr(v)


def rec(label, fn, *args, **kw):
    try:
        res = fn(*args, **kw)
        out.append(f"{label} -> {type(res).__name__} {fmt(res)}")
    except Exception as e:  # noqa: BLE001
        out.append(f"{label} -> EXC {type(e).__name__}")


temps = [32, 60.0, 100, 212.5, 400, 0, 0.0, -40.0, 1e3, np.float64(250.0), np.float64(0.0),
         float("nan"), float("inf"), "x", None, np.array([100.0, 200.0, 300.0, 400.0]), 3 + 1j]
pressures = [
    0, 14.7, 1000, 3000.0, 1e4, -5.0, 1e8, 10**10, float("inf"), float("nan"),
    np.float64(2500.0),
    np.array([14.7, 100.0, 2500.0, 9000.0]),
    np.linspace(0, 12000, 25),
    np.array([[100.0, 200.0], [3000.0, 4000.0]]),
    np.array([], dtype=float),
    np.arange(1, 6) * 1000,
    np.array([10**9, 4 * 10**9, 10**10]),
    np.array([1000, 2000], dtype=np.int32) * 40,
    [100.0, 200.0],
    "abc",
    None,
    2 + 3j,
]
salinities = [0, 0.0, 1, 5.5, 15, 30.0, 45.3, 100, -3.0, -8.2, 1e6, float("inf"), float("nan"),
              np.float64(12.0), np.array([0.0, 10.0, 20.0, 30.0]), np.array([5, 10, 60000, 10**5]),
              "s", None, [1.0], True]
for it, T in enumerate(temps):
    for ip, p in enumerate(pressures):
        for isal, sal in enumerate(salinities):
            rec(f"mu_w T#{it} p#{ip} s#{isal}", water.viscosity_water_McCain, T, p, sal)
            rec(f"c_w T#{it} p#{ip} s#{isal}", water.compressibility_water_McCain, T, p, sal)
rec("kw", water.viscosity_water_McCain, temperature=400, pressure=3000, salinity=15)
rec("kw_c", water.compressibility_water_McCain, salinity=15, pressure=3000, temperature=400)
rec("missing", water.viscosity_water_McCain, 200, 3000)
rec("missing_c", water.compressibility_water_McCain, 200, 3000)
rec("zero_c", water.compressibility_water_McCain, 751.0242085661080, 0, 0)
rec("zero_c2", water.compressibility_water_McCain, 403300.0 / 537, 0.0, 0.0)
rec("zero_c3", water.compressibility_water_McCain, 0, np.array([-403300.0 / 7.033, 1.0]), 0)
for T in (100, 300.5, 0):
    for sal in (0.0, 4.0, 20):
        fl = Fluid(T, 35, 0.7, 500, salinity=sal)
        for ip, p in enumerate(pressures):
            rec(f"Fluid.water_viscosity T={T} s={sal} p#{ip}", fl.water_viscosity, p)

with open(sys.argv[1], "w") as f:
    f.write("\n".join(out) + "\n")
