"""Equivalence driver for twin2 (np.where coefficient selection in pseudocritical_point_Sutton).

Bit-identical results are expected: everything is written with repr / float.hex.
"""

from __future__ import annotations

import sys
import warnings

import numpy as np
import pandas as pd

warnings.simplefilter("ignore")

from bluebonnet.fluids.fluid import build_pvt_gas  # noqa: E402
from bluebonnet.fluids.gas import (  # noqa: E402
    make_nonhydrocarbon_properties,
    pseudocritical_point_Sutton,
)


def fmt(x):
    if isinstance(x, tuple):
        return "(" + ", ".join(fmt(v) for v in x) + ")"
    if isinstance(x, pd.Series):
        return f"Series[{list(x.index)!r}]" + fmt(x.to_numpy())
    if isinstance(x, np.ndarray):
        return f"array{x.shape}{x.dtype}[" + ", ".join(fmt(v) for v in x.ravel()) + "]"
    if isinstance(x, (float, np.floating)):
        return f"{type(x).__name__}:{float(x).hex()}"
    return f"{type(x).__name__}:{x!r}"


def call(f, *args, **kwargs):
    try:
        return fmt(f(*args, **kwargs))
    except Exception as e:  # noqa: BLE001
        return f"EXC:{type(e).__name__}:{e}"


def main(out):
    lines = []
    compositions = [
        (0.03, 0.012, 0.018),
        (0.05, 0.01, 0.04),
        (0.0, 0.0, 0.0),
        (0.2, 0.0, 0.0),
        (0.0, 0.15, 0.0),
        (0.0, 0.0, 0.3),
        (0.1, 0.2, 0.3),
        (0.4, 0.3, 0.3),  # no hydrocarbons left -> division by zero
        (0.5, 0.4, 0.3),  # more than 100 %
        (0.0, -0.01, 0.0),  # sqrt of a negative fraction
        (0.0, -0.01, -0.02),
        (float("nan"), 0.01, 0.02),
    ]
    gravities = [0.55, 0.6, 0.65, 0.7, 0.8, 0.95, 1.2, 1.5, 0, 1, 0.0, -0.3, 1e6, 1e200,
                 float("inf"), float("nan"), np.float64(0.75), np.float32(0.75), np.array(0.66),
                 np.array([0.6, 0.7, 0.8]), np.array([[0.6], [0.9]]),
                 pd.Series([0.6, 0.7], index=["a", "b"]), True]
    fluids = ["dry gas", "wet gas", np.str_("dry gas"), np.str_("wet gas")]
    for comp in compositions:
        nhp = make_nonhydrocarbon_properties(*comp)
        for sg in gravities:
            for fluid in fluids:
                r = call(pseudocritical_point_Sutton, sg, nhp, fluid)
                lines.append(f"pc {comp!r} {sg!r} {fluid!r} -> {r}")
            lines.append(f"pc {comp!r} {sg!r} default -> {call(pseudocritical_point_Sutton, sg, nhp)}")
    # extra non-hydrocarbon rows, other containers
    nhp_extra = make_nonhydrocarbon_properties(
        0.02, 0.01, 0.03, ("Helium", 0.01, 4.0, 9.34, 32.9), ("Argon", 0.005, 39.95, 271.3, 705.3)
    )
    nhp_many = make_nonhydrocarbon_properties(
        0.02, 0.01, 0.03, *[(f"X{i}", 0.001 * (i + 1), 10.0 + i, 100.0 + 7 * i, 300.0 + 11 * i) for i in range(9)]
    )
    nhp_f4 = make_nonhydrocarbon_properties(0.03, 0.012, 0.018).astype(
        [("name", "U20"), ("fraction", "f4"), ("molecular weight", "f4"),
         ("critical temperature", "f4"), ("critical pressure", "f4")]
    )
    base = make_nonhydrocarbon_properties(0.03, 0.012, 0.018)
    nhp_df = pd.DataFrame({k: base[k] for k in base.dtype.names})
    nhp_dict = {k: base[k].copy() for k in base.dtype.names}
    nhp_lists = {k: base[k].tolist() for k in base.dtype.names}
    nhp_short = base[:2]
    nhp_rec = base.view(np.recarray)
    containers = {"extra": nhp_extra, "many": nhp_many, "f4": nhp_f4, "df": nhp_df, "dict": nhp_dict,
                  "lists": nhp_lists, "short": nhp_short, "rec": nhp_rec, "none": None,
                  "plain": np.zeros((3, 5))}
    for name, nhp in containers.items():
        for sg in (0.65, 0.8, np.float32(0.7), np.array([0.6, 0.7])):
            for fluid in ("dry gas", "wet gas"):
                r = call(pseudocritical_point_Sutton, sg, nhp, fluid)
                lines.append(f"cont {name} {sg!r} {fluid!r} -> {r}")
    # invalid fluid descriptions
    for fluid in ["oil", "Dry Gas", "dry gas ", "", None, 0, 1, True, b"dry gas", ("dry gas",),
                  ["dry gas"], {"dry gas"}, np.array(["dry gas"]), np.array(["wet gas"]),
                  np.array(["dry gas", "wet gas"]), np.array("wet gas"), float("nan")]:
        r = call(pseudocritical_point_Sutton, 0.65, base, fluid)
        lines.append(f"fluid {fluid!r} -> {r}")
        r = call(pseudocritical_point_Sutton, 0.65, base, fluid=fluid)
        lines.append(f"fluid kw {fluid!r} -> {r}")
    for sg in ("0.65", None, [0.65], 0.65 + 0j):
        for fluid in ("dry gas", "wet gas"):
            lines.append(f"sg {sg!r} {fluid} -> {call(pseudocritical_point_Sutton, sg, base, fluid)}")
    # through the public PVT-table builder
    for fluid, sg, fr in [
        ("dry gas", 0.65, (0.03, 0.012, 0.018)),
        ("wet gas", 0.8, (0.05, 0.01, 0.04)),
        ("condensate", 0.8, (0.05, 0.01, 0.04)),
    ]:
        try:
            pvt = build_pvt_gas(
                {"N2": fr[0], "H2S": fr[1], "CO2": fr[2], "Gas Specific Gravity": sg,
                 "Reservoir Temperature (deg F)": 250.0},
                fluid,
                maximum_pressure=1500,
            )
            for col in pvt.columns:
                lines.append(f"pvt {fluid} {sg} {col} -> {fmt(pvt[col].to_numpy())}")
        except Exception as e:  # noqa: BLE001
            lines.append(f"pvt {fluid} {sg} -> EXC:{type(e).__name__}:{e}")
    with open(out, "w") as fh:
        fh.write("\n".join(lines) + "\n")


if __name__ == "__main__":
    main(sys.argv[1])
