"""Equivalence probe for bluebonnet.plotting.

Usage: PYTHONPATH=<tree>/src /venv/bin/python equiv.py <outfile>
Writes a textual dump of everything observable on the axes returned by the
plotting helpers (line data at full precision, colours, labels, limits, scales,
ticks), of the square-root scale/transform classes, and the exception type for
inputs that raise.
"""

from __future__ import annotations

import os
import sys
import types
import warnings

import matplotlib

matplotlib.use("Agg")

import matplotlib.pyplot as plt
import matplotlib.scale as mscale
import numpy as np
import pandas as pd

from bluebonnet.flow import FlowProperties, IdealReservoir, SinglePhaseReservoir
from bluebonnet.plotting import (
    SquareRootScale,
    plot_pseudopressure,
    plot_recovery_factor,
    plot_recovery_rate,
)

DATA = os.environ.get("BB_DATA", "/tmp/twin7_plotting/tests/data")
OUT: list[str] = []


def emit(*parts):
    OUT.append(" ".join(str(p) for p in parts))


def fmt(v):
    if v is None:
        return "None"
    if isinstance(v, (str, bool)):
        return repr(v)
    arr = np.asarray(v)
    if arr.dtype == object:
        return repr(v)
    if arr.ndim == 0:
        return f"{arr.dtype}:{arr.item()!r}"
    return f"{arr.dtype}{arr.shape}[" + ",".join(repr(x) for x in arr.ravel().tolist()) + "]"


def dump_axes(tag, ax):
    emit(tag, "type", type(ax).__name__)
    emit(tag, "nlines", len(ax.lines))
    for k, line in enumerate(ax.lines):
        emit(tag, "line", k, "x", fmt(line.get_xdata(orig=True)))
        emit(tag, "line", k, "y", fmt(line.get_ydata(orig=True)))
        emit(
            tag,
            "line",
            k,
            "color",
            repr(line.get_color()),
            "label",
            repr(line.get_label()),
            "ls",
            repr(line.get_linestyle()),
            "lw",
            repr(line.get_linewidth()),
            "marker",
            repr(line.get_marker()),
            "alpha",
            repr(line.get_alpha()),
        )
    emit(tag, "xlabel", repr(ax.get_xlabel()), "ylabel", repr(ax.get_ylabel()))
    emit(tag, "xscale", repr(ax.get_xscale()), "yscale", repr(ax.get_yscale()))
    emit(tag, "xlim", fmt(ax.get_xlim()), "ylim", fmt(ax.get_ylim()))
    emit(tag, "autoscale", ax.get_autoscalex_on(), ax.get_autoscaley_on())
    try:
        emit(tag, "xticks", fmt(ax.get_xticks()))
        emit(tag, "yticks", fmt(ax.get_yticks()))
    except Exception as e:  # noqa: BLE001
        emit(tag, "ticks-exception", type(e).__name__)
    emit(tag, "xlocator", type(ax.xaxis.get_major_locator()).__name__)
    emit(tag, "title", repr(ax.get_title()), "legend", ax.get_legend() is not None)


def run(tag, func, *args, given_ax=None, **kwargs):
    """Call a plotting function, dump result or exception type (+ state of a given axes)."""
    nfig_before = len(plt.get_fignums())
    with warnings.catch_warnings(record=True) as w:
        warnings.simplefilter("always")
        try:
            res = func(*args, **kwargs)
        except Exception as e:  # noqa: BLE001
            emit(tag, "EXC", type(e).__name__)
            res = None
        else:
            dump_axes(tag, res)
            if given_ax is not None:
                emit(tag, "same-ax", res is given_ax)
    emit(tag, "warnings", sorted({x.category.__name__ for x in w}))
    emit(tag, "newfigs", len(plt.get_fignums()) - nfig_before)
    if given_ax is not None and res is None:
        dump_axes(tag + "/given-after-exc", given_ax)
    plt.close("all")
    return res


def dump_reservoir_state(tag, r):
    for name in ("time", "pseudopressure", "recovery"):
        if hasattr(r, name):
            emit(tag, "state", name, fmt(getattr(r, name)))
        else:
            emit(tag, "state", name, "<unset>")
    emit(tag, "cfg", r.nx, fmt(r.pressure_fracface), fmt(r.pressure_initial))


# ---------------------------------------------------------------- reservoirs
columns_renamer_gas = {
    "P": "pressure",
    "Z-Factor": "z-factor",
    "Cg": "compressibility",
    "Viscosity": "viscosity",
    "Density": "density",
}
pvt_gas = pd.read_csv(os.path.join(DATA, "pvt_gas.csv")).rename(columns=columns_renamer_gas)


def make(kind, nx, pf, pi, time, simulate=True):
    if kind == "ideal":
        r = IdealReservoir(nx, pf, pi, None)
    else:
        r = SinglePhaseReservoir(nx, pf, pi, FlowProperties(pvt_gas, pi))
    if simulate:
        r.simulate(time)
    return r


def sqrt_time(t_end, nt):
    return np.linspace(0, np.sqrt(t_end), nt) ** 2


CASES = {
    "ideal-30x60": lambda: make("ideal", 30, 100.0, 2000.0, sqrt_time(11, 60)),
    "ideal-10x401": lambda: make("ideal", 10, 500.0, 5000.0, sqrt_time(3, 401)),
    "ideal-nx3": lambda: make("ideal", 3, 100.0, 2000.0, sqrt_time(2, 12)),
    "ideal-nx2": lambda: make("ideal", 2, 100.0, 2000.0, sqrt_time(2, 12)),
    "ideal-nt1": lambda: make("ideal", 8, 100.0, 2000.0, np.array([0.0])),
    "ideal-nt2": lambda: make("ideal", 8, 100.0, 2000.0, np.array([0.0, 0.5])),
    "ideal-nt0": lambda: make("ideal", 8, 100.0, 2000.0, np.array([])),
    "ideal-pf=pi": lambda: make("ideal", 8, 2000.0, 2000.0, sqrt_time(1, 9)),
    "ideal-inttime": lambda: make("ideal", 8, 100.0, 2000.0, np.arange(0, 9)),
    "ideal-t0nonzero": lambda: make("ideal", 12, 100.0, 2000.0, np.linspace(0.3, 0.9, 25)),
    "ideal-smalltime": lambda: make("ideal", 12, 100.0, 2000.0, np.linspace(0.0, 1e-7, 7)),
    "ideal-f32time": lambda: make(
        "ideal", 8, 100.0, 2000.0, np.linspace(0, 2, 9).astype(np.float32)
    ),
    "gas-30x120": lambda: make("gas", 30, 100.0, 2000.0, sqrt_time(11, 120)),
    "gas-nx2": lambda: make("gas", 2, 100.0, 2000.0, sqrt_time(2, 8)),
    "gas-nt2": lambda: make("gas", 6, 500.0, 3000.0, np.array([0.0, 0.1])),
    "gas-nt1": lambda: make("gas", 6, 500.0, 3000.0, np.array([0.0])),
    "gas-pf=pi": lambda: make("gas", 6, 3000.0, 3000.0, sqrt_time(1, 6)),
    "ideal-unsimulated": lambda: make("ideal", 8, 100.0, 2000.0, None, simulate=False),
    "gas-unsimulated": lambda: make("gas", 8, 100.0, 2000.0, None, simulate=False),
}


def fake_reservoir(time, pp, nx=None, rf=None):
    """Duck-typed reservoir: the plotting helpers only use attributes."""
    pp = np.asarray(pp, dtype=float)
    ns = types.SimpleNamespace(nx=pp.shape[1] if nx is None else nx, pseudopressure=pp, time=time)
    ns.recovery_factor = lambda: (np.sqrt(np.asarray(time, dtype=float)) if rf is None else rf)
    return ns


rng = np.random.default_rng(7)
FAKES = {
    "fake-listtime": lambda: fake_reservoir([0.0, 0.25, 1.0, 2.25, 4.0], rng.random((5, 4))),
    "fake-tupletime": lambda: fake_reservoir((0.0, 1.0, 4.0), rng.random((3, 4))),
    "fake-nantime": lambda: fake_reservoir(
        np.array([0.0, 1.0, np.nan, 3.0]), rng.random((4, 3)), rf=np.arange(4.0)
    ),
    "fake-nanfirst": lambda: fake_reservoir(
        np.array([np.nan, 1.0, 2.0, 3.0]), rng.random((4, 3)), rf=np.arange(4.0)
    ),
    "fake-unsorted": lambda: fake_reservoir(
        np.array([0.0, 3.0, 1.0, 2.0]), rng.random((4, 3)), rf=np.arange(4.0)
    ),
    "fake-nx0": lambda: fake_reservoir(np.array([0.0, 1.0]), rng.random((2, 3)), nx=0),
    "fake-nxmismatch": lambda: fake_reservoir(np.array([0.0, 1.0]), rng.random((2, 3)), nx=5),
    "fake-lenmismatch": lambda: fake_reservoir(
        np.array([0.0, 1.0, 2.0]), rng.random((3, 3)), rf=np.arange(5.0)
    ),
    "fake-strtime": lambda: fake_reservoir(["a", "b", "c"], rng.random((3, 3)), rf=np.arange(3.0)),
    "fake-no-nx": lambda: types.SimpleNamespace(pseudopressure=np.ones((2, 3)), time=[0.0, 1.0]),
    "fake-no-pp": lambda: types.SimpleNamespace(nx=3, time=[0.0, 1.0]),
    "fake-no-time": lambda: types.SimpleNamespace(
        nx=3, pseudopressure=np.ones((2, 3)), recovery_factor=lambda: np.arange(2.0)
    ),
    "fake-no-rf": lambda: types.SimpleNamespace(
        nx=3, pseudopressure=np.ones((2, 3)), time=np.array([0.0, 1.0])
    ),
    "fake-1d-pp": lambda: types.SimpleNamespace(
        nx=3, pseudopressure=np.ones(3), time=np.array([0.0, 1.0, 2.0])
    ),
    "fake-empty-pp": lambda: types.SimpleNamespace(
        nx=3, pseudopressure=np.ones((0, 3)), time=np.array([])
    ),
    "none": lambda: None,
}


def build(name, factory):
    try:
        return factory()
    except Exception as e:  # noqa: BLE001
        emit(name, "BUILD-EXC", type(e).__name__)
        return None


def exercise(name, factory, full):
    # --- plot_pseudopressure
    pp_variants = [
        ("default", (), {}),
        ("every1", (), {"every": 1}),
        ("every7-rescale", (), {"every": 7, "rescale": True}),
        ("every1-rescale", (), {"every": 1, "rescale": True}),
        ("positional", (3, True, None, 0.5, 1.2, {"linestyle": "--", "lw": 0.5}), {}),
        ("limits", (), {"every": 2, "x_max": 0.25, "y_max": 3.0}),
    ]
    if full:
        pp_variants += [
            ("every0", (), {"every": 0}),
            ("every-neg", (), {"every": -3}),
            ("every-float", (), {"every": 2.5}),
            ("every-str", (), {"every": "a"}),
            ("kw-color-clash", (), {"every": 1, "plot_kwargs": {"color": "red"}}),
            ("kw-label", (), {"every": 1, "plot_kwargs": {"label": "m", "alpha": 0.3}}),
            ("kw-bad", (), {"every": 1, "plot_kwargs": {"nonsense": 1}}),
            ("kw-notdict", (), {"every": 1, "plot_kwargs": [("lw", 2)]}),
            ("kw-empty", (), {"every": 1, "plot_kwargs": {}}),
            ("xmax-none", (), {"every": 1, "x_max": None}),
            ("ymax-neg", (), {"every": 1, "y_max": -1.0}),
            ("toomany", (1, False, None, 1, None, None, "extra"), {}),
            ("unknown-kw", (), {"colour": "k"}),
        ]
    for vname, args, kwargs in pp_variants:
        r = build(name, factory)
        tag = f"{name}|pp|{vname}"
        run(tag, plot_pseudopressure, r, *args, **kwargs)
        if r is not None and hasattr(r, "cfg") is False and isinstance(r, IdealReservoir):
            dump_reservoir_state(tag, r)
    # given axes (also: given axes that already has content)
    r = build(name, factory)
    fig, ax = plt.subplots()
    ax.plot([0, 1], [5, 6], color="k")
    run(f"{name}|pp|given-ax", plot_pseudopressure, r, 4, ax=ax, given_ax=ax)
    r = build(name, factory)
    run(f"{name}|pp|bad-ax", plot_pseudopressure, r, 4, ax="not an axes")

    # --- plot_recovery_rate / plot_recovery_factor
    for fname, func in (("rate", plot_recovery_rate), ("rf", plot_recovery_factor)):
        variants = [
            ("default", (), {}),
            ("ticks", (), {"change_ticks": True}),
            ("positional", (None, True, {"linestyle": ":", "color": "C3"}), {}),
            ("ticks-int", (), {"change_ticks": 1}),
        ]
        if full:
            variants += [
                ("kw-label-clash", (), {"plot_kwargs": {"label": "mine"}}),
                ("kw-bad", (), {"plot_kwargs": {"nonsense": 1}}),
                ("kw-notdict", (), {"plot_kwargs": [("lw", 2)]}),
                ("kw-empty", (), {"plot_kwargs": {}}),
                ("toomany", (None, False, None, "extra"), {}),
                ("unknown-kw", (), {"rescale": True}),
            ]
        for vname, args, kwargs in variants:
            r = build(name, factory)
            tag = f"{name}|{fname}|{vname}"
            run(tag, func, r, *args, **kwargs)
            if isinstance(r, IdealReservoir):
                dump_reservoir_state(tag, r)
        r = build(name, factory)
        fig, ax = plt.subplots()
        ax.plot([0.5, 1], [5, 6], color="k")
        run(f"{name}|{fname}|given-ax", func, r, ax, True, given_ax=ax)
        r = build(name, factory)
        fig, ax = plt.subplots()
        run(f"{name}|{fname}|given-ax-kw", func, r, ax=ax, given_ax=ax)
        r = build(name, factory)
        run(f"{name}|{fname}|bad-ax", func, r, ax="not an axes")
    # two plots on the same axes, plot_kwargs dict re-used and must not be mutated
    r = build(name, factory)
    shared = {"lw": 3.0}
    fig, ax = plt.subplots()
    run(f"{name}|combo|rf-then-rate", lambda: plot_recovery_rate(r, plot_recovery_factor(r, ax, plot_kwargs=shared), plot_kwargs=shared), given_ax=ax)
    emit(f"{name}|combo|shared-kwargs", repr(shared))
    r = build(name, factory)
    shared = {"lw": 3.0}
    run(f"{name}|combo|pp-kwargs", plot_pseudopressure, r, 1, plot_kwargs=shared)
    emit(f"{name}|combo|shared-kwargs2", repr(shared))


def exercise_scale():
    emit("scale|name", SquareRootScale.name, "registered", "squareroot" in mscale.get_scale_names())
    emit("scale|registered-class", mscale._scale_mapping["squareroot"] is SquareRootScale)
    emit("scale|mro", [c.__name__ for c in SquareRootScale.__mro__])
    emit("scale|T-mro", [c.__name__ for c in SquareRootScale.SquareRootTransform.__mro__][-3:])
    emit("scale|IT-mro", [c.__name__ for c in SquareRootScale.InvertedSquareRootTransform.__mro__][-3:])
    fig, ax = plt.subplots()
    for tag, ctor in (
        ("axis", lambda: SquareRootScale(ax.xaxis)),
        ("none", lambda: SquareRootScale(None)),
        ("kwargs", lambda: SquareRootScale(ax.xaxis, base=10)),
        ("noargs", lambda: SquareRootScale()),
        ("axis-kw", lambda: SquareRootScale(axis=ax.yaxis)),
        ("two-pos", lambda: SquareRootScale(ax.xaxis, 3)),
    ):
        with warnings.catch_warnings(record=True) as w:
            warnings.simplefilter("always")
            try:
                s = ctor()
            except Exception as e:  # noqa: BLE001
                emit("scale|ctor", tag, "EXC", type(e).__name__)
                continue
        emit("scale|ctor", tag, type(s).__name__, sorted({x.category.__name__ for x in w}))
        for lim in ((-1.0, 2.0, 0.5), (0.0, 0.0, 1.0), (3.0, 1.0, 0.1), (-5, -2, 1e-300), (np.nan, 1.0, 1.0), (-0.0, np.inf, 0)):
            emit("scale|limit", tag, lim, fmt(s.limit_range_for_scale(*lim)))
        t = s.get_transform()
        emit("scale|transform", tag, type(t).__name__, t.input_dims, t.output_dims, t.is_separable, t.has_inverse, t.is_affine)
        ti = t.inverted()
        emit("scale|inverted", tag, type(ti).__name__, ti.input_dims, ti.output_dims, ti.is_separable, type(ti.inverted()).__name__)
        inputs = [
            np.array([0.0, 1.0, 2.0, 4.0, 1e-300, 1e300, 0.3]),
            np.array([[0.0], [2.0], [9.0]]),
            np.array([-1.0, -0.0, np.nan, np.inf]),
            np.array([0, 1, 2, 3, 16]),
            [0.25, 4.0],
            (1.0, 9.0),
            2.0,
            np.float32(2.0),
            np.array([], dtype=float),
            np.ma.masked_array([1.0, 4.0, 9.0], mask=[0, 1, 0]),
            "abc",
            None,
        ]
        for k, a in enumerate(inputs):
            for mname, meth in (
                ("T.tna", t.transform_non_affine),
                ("T.t", t.transform),
                ("IT.t", ti.transform),
                ("IT.tna", ti.transform_non_affine),
            ):
                with warnings.catch_warnings(record=True) as w:
                    warnings.simplefilter("always")
                    try:
                        res = meth(a)
                    except Exception as e:  # noqa: BLE001
                        emit("scale|", tag, mname, k, "EXC", type(e).__name__)
                        continue
                emit("scale|", tag, mname, k, type(res).__name__, fmt(np.ma.filled(res, -999.0) if isinstance(res, np.ma.MaskedArray) else res), sorted({x.category.__name__ for x in w}))
    plt.close("all")
    # use through the public matplotlib API
    fig, ax = plt.subplots()
    ax.plot([0, 1, 4, 9], [0, 1, 2, 3])
    ax.set_xscale("squareroot")
    ax.set_xlim(-3, 9)
    emit("scale|api|xlim", fmt(ax.get_xlim()))
    emit("scale|api|locators", type(ax.xaxis.get_major_locator()).__name__, type(ax.xaxis.get_minor_locator()).__name__, type(ax.xaxis.get_major_formatter()).__name__, type(ax.xaxis.get_minor_formatter()).__name__)
    fig.canvas.draw()
    emit("scale|api|xticks", fmt(ax.get_xticks()))
    emit("scale|api|data2display", fmt(np.round(ax.transData.transform([[0.0, 0.0], [1.0, 1.0], [4.0, 2.0], [9.0, 3.0]]), 6)))
    emit("scale|api|display2data", fmt(np.round(ax.transData.inverted().transform([[100.0, 100.0], [300.0, 200.0]]), 9)))
    try:
        ax.set_yscale("squareroot", nonsense=1)
    except Exception as e:  # noqa: BLE001
        emit("scale|api|kwargs", "EXC", type(e).__name__)
    else:
        emit("scale|api|kwargs", "ok", ax.get_yscale())
    plt.close("all")


def main(outfile):
    exercise_scale()
    full_cases = {"ideal-30x60", "gas-30x120", "ideal-nt1", "ideal-nx2", "ideal-pf=pi", "fake-listtime", "ideal-unsimulated"}
    for name, factory in {**CASES, **FAKES}.items():
        exercise(name, factory, full=name in full_cases)
    with open(outfile, "w") as fh:
        fh.write("\n".join(OUT) + "\n")


if __name__ == "__main__":
    main(sys.argv[1])
