"""Equivalence driver (twin4: distinct pressures solved once) for the per-pressure loops of Fluid (water_FVF, gas_FVF, gas_viscosity)."""
import os
import sys
import warnings

import numpy as np
import pandas as pd

warnings.simplefilter("ignore")

from bluebonnet.fluids import Fluid

DATA = os.environ.get("BB_DATA", "/tmp/twin6_waterfluid/tests/data")


def show(x):
    if isinstance(x, pd.Series):
        return "Series[" + show(x.to_numpy()) + "|" + repr(list(x.index)) + "]"
    if isinstance(x, np.ndarray):
        return (f"{type(x).__name__}{x.shape}{x.dtype}{'C' if x.flags.c_contiguous else 'n'}"
                f"{'W' if x.flags.writeable else 'r'}["
                + ",".join(show(v) for v in np.asarray(x).ravel().tolist()) + "]")
    if isinstance(x, (list, tuple)):
        return type(x).__name__ + "[" + ",".join(show(v) for v in x) + "]"
    return type(x).__name__ + ":" + repr(x)


def call(f, *a, **k):
    try:
        return show(f(*a, **k))
    except BaseException as e:  # noqa: BLE001
        return "EXC:" + type(e).__name__


rng = np.random.default_rng(2024)
gas = pd.read_csv(os.path.join(DATA, "pvt_gas_HAYNESVILLE SHALE_20.csv"))
pcol = [c for c in gas.columns if c.lower().startswith("p")][0]
p_table = gas[pcol].to_numpy(dtype=float)[:60]
dup = np.array([3000.0, 100.0, 3000.0, 14.7, 100.0, 8000.0, 14.7, 3000.0])
ro = np.array([500.0, 250.0, 500.0]); ro.setflags(write=False)


def pressure_inputs():
    """Fresh objects on every call (generators are consumed)."""
    return [
        ("table", p_table),
        ("table_rev", p_table[::-1]),
        ("dup", dup),
        ("dup_strided", np.repeat(dup, 2)[::2]),
        ("readonly", ro),
        ("random", rng.uniform(20.0, 15000.0, size=25)),
        ("tiny_steps", 1000.0 + np.arange(6) * 1e-10),
        ("f32", np.array([100.0, 2000.0, 100.0], dtype=np.float32)),
        ("f16", np.array([100.0, 2000.0, 100.0], dtype=np.float16)),
        ("i64", np.array([100, 2000, 100, 7000])),
        ("i32", np.array([100, 2000, 46341], dtype=np.int32)),
        ("u8", np.array([100, 200, 100], dtype=np.uint8)),
        ("bool", np.array([True, False, True])),
        ("obj", np.array([100.0, 2000, 100.0], dtype=object)),
        ("complex", np.array([100.0 + 0j, 2000.0])),
        ("str", np.array(["100", "200"])),
        ("empty", np.array([])),
        ("empty_int", np.array([], dtype=int)),
        ("one", np.array([5000.0])),
        ("zero", np.array([100.0, 0.0, 200.0])),
        ("negzero", np.array([-0.0, 0.0])),
        ("negative", np.array([100.0, -50.0, 200.0])),
        ("nan", np.array([100.0, np.nan, 200.0, np.nan])),
        ("nan_first", np.array([np.nan, 100.0])),
        ("inf", np.array([100.0, np.inf])),
        ("huge", np.array([100.0, 1e300, 1e9])),
        ("2d", np.array([[100.0, 200.0], [100.0, 3000.0]])),
        ("2d_col", np.array([[100.0], [200.0], [100.0]])),
        ("2d_empty", np.empty((0, 3))),
        ("3d", np.full((2, 1, 2), 1500.0)),
        ("0d", np.array(1500.0)),
        ("scalar_float", 1500.0),
        ("scalar_int", 1500),
        ("np_scalar", np.float64(1500.0)),
        ("none", None),
        ("string", "150"),
        ("list", [100.0, 2000.0, 100.0]),
        ("list_int", [100, 2000, 100]),
        ("list_mixed", [100, 2000.5, np.float64(100.0), np.int64(7)]),
        ("list_big_int", [10**12, 3000]),
        ("list_zero", [0, 100]),
        ("list_fzero", [0.0, 100.0]),
        ("list_bad", [100.0, None]),
        ("list_nested", [[100.0, 200.0], [300.0, 400.0]]),
        ("list_ragged", [[100.0, 200.0], [300.0]]),
        ("tuple", (100.0, 2000.0)),
        ("range", range(100, 400, 100)),
        ("generator", (float(v) for v in (100, 200, 100))),
        ("set", {250.0}),
        ("dict", {100.0: "a", 200.0: "b"}),
        ("series", pd.Series([100.0, 2000.0, 100.0], index=[7, 3, 5])),
        ("series_str_index", pd.Series([900.0, 950.0], index=["a", "b"])),
        ("masked", np.ma.masked_array([100.0, 200.0, 100.0], mask=[False, False, False])),
        ("masked2", np.ma.masked_array([100.0, 200.0, 100.0], mask=[False, True, False])),
        ("matrix", np.asmatrix([[100.0, 200.0, 100.0]])),
        ("memmap_like", np.frombuffer(np.array([100.0, 300.0, 100.0]).tobytes(), dtype=float)),
        ("bigendian", np.array([100.0, 300.0, 100.0], dtype=">f8")),
        # different failures at different entries: the first one in input order must win
        ("fail_order_1", np.array([100.0, 1e300, 1e9, np.nan, 0.0])),
        ("fail_order_2", np.array([1e9, 1e300, 100.0])),
        ("fail_order_3", np.array([np.nan, 1e300])),
        ("fail_order_4", np.array([1e300, np.nan])),
        ("fail_order_5", np.array([0.0, 1e300, -1.0])),
        ("fail_order_6", np.array([5000.0, 1e300, 0.0, 5000.0])),
        ("fail_order_7", np.array([5000.0, -0.0, 1e300])),
        ("fail_order_8", np.array([np.inf, -np.inf, 1e300])),
        ("fail_order_9", np.array([-np.inf, np.inf])),
        ("fail_order_10", np.array([1e9, 0.0], dtype=np.float32)),
        ("zeros_mixed", np.array([100.0, -0.0, 0.0, 100.0])),
        ("neg_dups", np.array([-50.0, 100.0, -50.0, -1e-300, 5e-324, 100.0])),
        ("many_dups", np.tile(np.array([9000.0, 20.0, 4500.0, 20.0, 14000.0]), 40)),
        ("all_same", np.full(17, 2500.0)),
        ("sorted", np.arange(10.0, 1500.0, 10.0)),
        ("near_equal", np.array([1000.0, np.nextafter(1000.0, 2000.0), 1000.0, np.nextafter(1000.0, 0.0)])),
        ("f32_dups", np.array([3000.0, 100.0, 3000.0, 0.1, 100.0], dtype=np.float32)),
        ("f16_dups", np.array([3000.0, 100.0, 3000.0, 65504.0, 100.0], dtype=np.float16)),
        ("longdouble", np.array([3000.0, 100.0, 3000.0], dtype=np.longdouble)),
        ("subclass", np.array([300.0, 100.0, 300.0]).view(type("MyArr", (np.ndarray,), {}))),
    ]


fluids = [
    ("std", Fluid(200.0, 35.0, 0.8, 650.0)),
    ("hot_int", Fluid(400, 35, 0.65, 0, salinity=15, water_saturation_initial=0.2)),
    ("np", Fluid(np.float64(150.0), np.float64(40.0), np.float64(0.7), np.float64(500.0))),
    ("noneT", Fluid(None, 35.0, 0.8, 650.0)),
    ("nonesg", Fluid(200.0, 35.0, None, 650.0)),
    ("strT", Fluid("200", 35.0, 0.8, 650.0)),
    ("cold", Fluid(-459.67, 35.0, 0.8, 650.0)),
    ("arrT", Fluid(np.array([200.0, 300.0]), 35.0, 0.8, 650.0)),
]
crit = [(-102.0, 649.0), (-70, 660), (np.float64(-95.5), np.float64(655.25)), (-102.0, 0.0), (-459.67, 649.0),
        (None, 649.0), (-102.0, "649")]

out = []
for fname, fl in fluids:
    for pname, p in pressure_inputs():
        out.append(f"{fname} water_FVF {pname} -> {call(fl.water_FVF, p)}")
    for ci, (tc, pc) in enumerate(crit):
        if ci >= 3 and fname not in ("std", "hot_int"):
            continue
        for pname, p in pressure_inputs():
            out.append(f"{fname} gas_FVF {ci} {pname} -> {call(fl.gas_FVF, p, tc, pc)}")
        for pname, p in pressure_inputs():
            out.append(f"{fname} gas_viscosity {ci} {pname} -> {call(fl.gas_viscosity, p, tc, pc)}")
fl = fluids[0][1]
# inputs are not modified and outputs are fresh arrays
a = dup.copy()
r1 = fl.gas_viscosity(a, -102.0, 649.0)
r2 = fl.gas_FVF(a, -102.0, 649.0)
r3 = fl.water_FVF(a)
out.append("input untouched " + repr(bool(np.array_equal(a, dup))))
out.append("fresh " + repr([r.base is None and r.flags.owndata and r.flags.writeable for r in (r1, r2, r3)]))
out.append("no alias " + repr([np.shares_memory(r, a) for r in (r1, r2, r3)]))
# keyword / arity
out.append(call(fl.gas_FVF, pressure=dup, temperature_pseudocritical=-102.0, pressure_pseudocritical=649.0))
out.append(call(fl.gas_viscosity, pressure=dup, pressure_pseudocritical=649.0, temperature_pseudocritical=-102.0))
out.append(call(fl.water_FVF, pressure=dup))
out.append(call(fl.gas_FVF, dup))
out.append(call(fl.gas_viscosity, dup, -102.0))
out.append(call(fl.water_FVF))
out.append(call(fl.water_FVF, dup, dup))
# attributes changed after construction are honoured
fl2 = Fluid(200.0, 35.0, 0.8, 650.0)
fl2.temperature = 300.0
fl2.gas_specific_gravity = 0.7
out.append(call(fl2.gas_viscosity, dup, -102.0, 649.0))
out.append(call(fl2.gas_FVF, dup, -102.0, 649.0))
out.append(call(fl2.water_FVF, dup))

with open(sys.argv[1], "w") as fh:
    fh.write("\n".join(out) + "\n")
